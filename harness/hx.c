/* hx: line-protocol harness calling the real libsodium in-process.
   One op per input line: "<op> <args...>" -> one output line. */
#include "hx.h"
#include <unistd.h>
#include <sys/wait.h>

static int hexval(int c) {
    if (c >= '0' && c <= '9') return c - '0';
    if (c >= 'a' && c <= 'f') return c - 'a' + 10;
    if (c >= 'A' && c <= 'F') return c - 'A' + 10;
    return -1;
}
/* Every parsed buffer is an exact-size heap block placed `hx_align_off` bytes into its allocation (env HX_ALIGN, 0..63):
   under ASan the bytes before it are poisoned and the end is tight against the redzone, so a one-byte
   under- / over-read or write of any input or output buffer at any alignment is a sanitizer report (C12). */
static size_t hx_align_off;
#if defined(__SANITIZE_ADDRESS__)
#include <sanitizer/asan_interface.h>
#define HX_POISON(p, n) __asan_poison_memory_region((p), (n))
#define HX_UNPOISON(p, n) __asan_unpoison_memory_region((p), (n))
#else
#define HX_POISON(p, n) ((void) 0)
#define HX_UNPOISON(p, n) ((void) 0)
#endif
/* Layout: [16-byte header holding n][hx_align_off pad][n data bytes][16 canary bytes (plain builds only)]. In plain builds a write past
   the end of any parsed buffer — invisible to ASan when it comes from inline assembly, and landing in malloc slack otherwise — corrupts the
   canary; hx_release notices and the dispatcher appends HEAP-CANARY-CORRUPT to the op's output line (the model never prints that). Under ASan
   the buffer stays tight against the redzone instead (no canary), so one-byte over-reads are still reported. */
#if defined(__SANITIZE_ADDRESS__)
#define HX_CANARY 0
#else
#define HX_CANARY 16
#endif
static int hx_canary_bad;
void *hx_alloc(size_t n) {
    size_t pre = 16 + hx_align_off;
    unsigned char *base = (unsigned char *) malloc(pre + (n ? n : 1) + HX_CANARY);
    if (base == NULL) return NULL;
    memcpy(base, &n, sizeof n);
    if (HX_CANARY) memset(base + pre + n, 0xc5, HX_CANARY);
    HX_POISON(base + 8, pre - 8);
    return base + pre;
}
void hx_release(void *p) {
    size_t pre = 16 + hx_align_off, n, i; unsigned char *base;
    if (p == NULL) return;
    base = (unsigned char *) p - pre;
    HX_UNPOISON(base + 8, pre - 8);
    memcpy(&n, base, sizeof n);
    for (i = 0; i < HX_CANARY; i++) if (base[pre + n + i] != 0xc5) hx_canary_bad = 1;
    free(base);
}
static void hx_endline(FILE *o) { if (hx_canary_bad) { fputs(" HEAP-CANARY-CORRUPT", o); hx_canary_bad = 0; } fputc('\n', o); }
void hx_set_align(void) { const char *e = getenv("HX_ALIGN"); hx_align_off = e ? (size_t) (atoi(e) & 63) : 0; }
int hx_hex(const char *s, buf_t *b) {
    size_t l, i;
    b->p = NULL; b->n = 0;
    if (strcmp(s, "-") == 0) { b->p = (unsigned char *) hx_alloc(0); return 0; }
    l = strlen(s);
    if (l % 2) return -1;
    b->n = l / 2;
    b->p = (unsigned char *) hx_alloc(b->n);
    for (i = 0; i < b->n; i++) {
        int h = hexval(s[2 * i]), lo = hexval(s[2 * i + 1]);
        if (h < 0 || lo < 0) { hx_release(b->p); b->p = NULL; return -1; }
        b->p[i] = (unsigned char) (h * 16 + lo);
    }
    return 0;
}
void hx_free(buf_t *b) { hx_release(b->p); b->p = NULL; b->n = 0; }
void hx_put_hex(FILE *o, const unsigned char *p, size_t n) {
    static const char d[] = "0123456789abcdef";
    size_t i;
    if (n == 0) { fputc('-', o); return; }
    for (i = 0; i < n; i++) { fputc(d[p[i] >> 4], o); fputc(d[p[i] & 15], o); }
}
int hx_u64(const char *s, uint64_t *v) {
    char *e; 
    if (*s == 0) return -1;
    *v = strtoull(s, &e, 10);
    return *e ? -1 : 0;
}

static void misuse_exit(void) { _exit(77); }

int hx_in_child(void (*fn)(void *arg, FILE *o), void *arg, char *outbuf, size_t outcap) {
    int pfd[2], st; pid_t pid; ssize_t r; size_t got = 0;
    if (getenv("HX_NOFORK") != NULL) { outbuf[0] = 0; return 3; }   /* threaded workload (C19): ops that would fork are identified and left out */
    fflush(NULL);
    if (pipe(pfd) != 0) return 2;
    pid = fork();
    if (pid == 0) {
        FILE *o;
        close(pfd[0]);
        o = fdopen(pfd[1], "w");
        sodium_set_misuse_handler(misuse_exit);
        fn(arg, o);
        fflush(o);
        _exit(0);
    }
    close(pfd[1]);
    while (got + 1 < outcap && (r = read(pfd[0], outbuf + got, outcap - 1 - got)) > 0) got += (size_t) r;
    outbuf[got] = 0;
    close(pfd[0]);
    waitpid(pid, &st, 0);
    if (WIFEXITED(st) && WEXITSTATUS(st) == 0) return 0;
    if (WIFEXITED(st) && WEXITSTATUS(st) == 77) return 1;
    return 2;
}

static const hx_op *const tables[] = { ops_c14, ops_c16, ops_c15, ops_c03, ops_c04, ops_c09, ops_c01, ops_c18, ops_c17, ops_c20, ops_c10, ops_c05, ops_c13, ops_c08, ops_c19, ops_c11, ops_c12, NULL };

/* run one op line (modified in place by strtok) and print exactly one line to `o` */
/* HX_FILL=<0..255>: before every op the stack area the op functions are about to use is filled with that byte, so OUTPUT buffers (stack arrays of the op
   functions, never initialised by the harness) start from a chosen content instead of whatever the previous op left: "for all buffers" includes what an output
   buffer holds before the call (all-ones is the interesting content: non-canonical field / scalar encodings, maximal lengths, set top bits). */
static int hx_fill = -2;
static void __attribute__((constructor)) hx_fill_init(void) { const char *e = getenv("HX_FILL"); hx_fill = e ? (atoi(e) & 255) : -2; }   /* read once before any thread exists (the lazy read inside hx_dispatch was a data race in the threaded harness) */
static void __attribute__((noinline)) hx_stack_fill(int v) {
    volatile unsigned char a[1 << 17]; size_t i;
    for (i = 0; i < sizeof a; i++) a[i] = (unsigned char) v;
}
void hx_dispatch(char *line, FILE *o) {
    char **argv = NULL; size_t argcap = 0; int argc = 0, handled = 0; char *save, *tok; size_t t;
    size_t n = strlen(line);
    while (n > 0 && (line[n - 1] == '\n' || line[n - 1] == '\r')) line[--n] = 0;
    for (tok = strtok_r(line, " ", &save); tok; tok = strtok_r(NULL, " ", &save)) {
        if ((size_t) argc + 1 >= argcap) { argcap = argcap ? argcap * 2 : 16; argv = (char **) realloc(argv, argcap * sizeof *argv); }
        argv[argc++] = tok;
    }
    if (argc == 0) { fputs("empty\n", o); free(argv); return; }
    if (hx_fill >= 0) hx_stack_fill(hx_fill);
    if (strcmp(argv[0], "rt.flags") == 0) {
        fprintf(o, "sse2=%d sse3=%d ssse3=%d sse41=%d avx=%d avx2=%d avx512f=%d pclmul=%d aesni=%d rdrand=%d gcm=%d\n",
               sodium_runtime_has_sse2(), sodium_runtime_has_sse3(), sodium_runtime_has_ssse3(), sodium_runtime_has_sse41(),
               sodium_runtime_has_avx(), sodium_runtime_has_avx2(), sodium_runtime_has_avx512f(), sodium_runtime_has_pclmul(),
               sodium_runtime_has_aesni(), sodium_runtime_has_rdrand(), crypto_aead_aes256gcm_is_available());
        free(argv); return;
    }
    if (strncmp(argv[0], "aead.", 5) == 0) {
        int r = hx_aead(argv[0], argc - 1, argv + 1, o);
        if (r <= 0) { if (r < 0) fputs("bad-args", o); hx_endline(o); free(argv); return; }
    }
    for (t = 0; tables[t] && !handled; t++) {
        const hx_op *op;
        for (op = tables[t]; op->name; op++) {
            if (strcmp(op->name, argv[0]) == 0) {
                if (op->fn(argc - 1, argv + 1, o) != 0) fputs("bad-args", o);
                hx_endline(o);
                handled = 1; break;
            }
        }
    }
    if (!handled) fputs("bad-op\n", o);
    free(argv);
}

#ifndef HX_NO_MAIN
int main(void) {
    char *line = NULL; size_t cap = 0; ssize_t n;
    hx_set_align();
    if (sodium_init() < 0) { fprintf(stderr, "sodium_init failed\n"); return 3; }
    setvbuf(stdout, NULL, _IOLBF, 1 << 16);   /* line buffered: on a crash every completed op has been reported */
    while ((n = getline(&line, &cap, stdin)) > 0) hx_dispatch(line, stdout);
    fflush(stdout);
    return 0;
}
#endif
