/* C13: in-place and overlapping buffers. ovl.<api> <delta> args...: input and output are laid out in one arena,
   output start = input start + delta (delta may be negative); result must equal the disjoint-buffer result. */
#include "hx.h"

#define SLACK 256
static unsigned char *arena_in(const unsigned char *src, size_t n, long delta, size_t outn, unsigned char **outp, unsigned char **base) {
    size_t total = n + outn + 4 * SLACK; unsigned char *a = (unsigned char *) malloc(total), *in;
    memset(a, 0x5c, total);
    in = a + SLACK + (delta < 0 ? (size_t) (-delta) : 0);
    memcpy(in, src, n);
    *outp = in + delta; *base = a;
    return in;
}
static int nb(int argc, char **argv, buf_t *b, int n) { int i; if (argc != n) return -1; for (i = 0; i < n; i++) if (hx_hex(argv[i], &b[i])) { while (i--) hx_free(&b[i]); return -1; } return 0; }
static void fb(buf_t *b, int n) { int i; for (i = 0; i < n; i++) hx_free(&b[i]); }

/* ovl.secretbox.<xsalsa|xchacha>.<easy|open|detached|opendet> delta data n k [mac] */
static int sb(int xc, int mode, int argc, char **argv, FILE *o) {
    long delta; buf_t b[4]; int nbuf = mode == 3 ? 4 : 3; unsigned char *in, *out, *base, mac[16]; int rc; size_t outn;
    if (argc != nbuf + 1) return -1; delta = atol(argv[0]);
    if (nb(argc - 1, argv + 1, b, nbuf)) return -1;
    if (b[1].n != 24 || b[2].n != 32 || (mode == 3 && b[3].n != 16)) { fb(b, nbuf); return -1; }
    outn = mode == 0 ? b[0].n + 16 : mode == 1 ? (b[0].n >= 16 ? b[0].n - 16 : 0) : b[0].n;
    in = arena_in(b[0].p, b[0].n, delta, outn, &out, &base);
    switch (mode) {
    case 0: rc = xc ? crypto_secretbox_xchacha20poly1305_easy(out, in, b[0].n, b[1].p, b[2].p) : crypto_secretbox_easy(out, in, b[0].n, b[1].p, b[2].p); break;
    case 1: rc = xc ? crypto_secretbox_xchacha20poly1305_open_easy(out, in, b[0].n, b[1].p, b[2].p) : crypto_secretbox_open_easy(out, in, b[0].n, b[1].p, b[2].p); break;
    case 2: rc = xc ? crypto_secretbox_xchacha20poly1305_detached(out, mac, in, b[0].n, b[1].p, b[2].p) : crypto_secretbox_detached(out, mac, in, b[0].n, b[1].p, b[2].p); break;
    default: rc = xc ? crypto_secretbox_xchacha20poly1305_open_detached(out, in, b[3].p, b[0].n, b[1].p, b[2].p) : crypto_secretbox_open_detached(out, in, b[3].p, b[0].n, b[1].p, b[2].p); break;
    }
    fprintf(o, "%d ", rc);
    if (rc == 0) { hx_put_hex(o, out, outn); if (mode == 2) { fputc(' ', o); hx_put_hex(o, mac, 16); } } else fputc('-', o);
    free(base); fb(b, nbuf); return 0;
}
#define SBOP(NAME, XC, MODE) static int NAME(int c, char **v, FILE *o) { return sb(XC, MODE, c, v, o); }
SBOP(sb_xs_easy, 0, 0) SBOP(sb_xs_open, 0, 1) SBOP(sb_xs_det, 0, 2) SBOP(sb_xs_opendet, 0, 3)
SBOP(sb_xc_easy, 1, 0) SBOP(sb_xc_open, 1, 1) SBOP(sb_xc_det, 1, 2) SBOP(sb_xc_opendet, 1, 3)

/* ovl.sign delta m sk ; ovl.sign_open delta sm pk */
static int op_sign(int argc, char **argv, FILE *o) {
    long delta; buf_t b[2]; unsigned char *in, *out, *base; unsigned long long l = 0;
    if (argc != 3) return -1; delta = atol(argv[0]);
    if (nb(argc - 1, argv + 1, b, 2)) return -1; if (b[1].n != 64) { fb(b, 2); return -1; }
    in = arena_in(b[0].p, b[0].n, delta, b[0].n + 64, &out, &base);
    crypto_sign(out, &l, in, b[0].n, b[1].p);
    fprintf(o, "0 "); hx_put_hex(o, out, (size_t) l); free(base); fb(b, 2); return 0;
}
static int op_sign_open(int argc, char **argv, FILE *o) {
    long delta; buf_t b[2]; unsigned char *in, *out, *base; unsigned long long l = 0; int rc; size_t outn;
    if (argc != 3) return -1; delta = atol(argv[0]);
    if (nb(argc - 1, argv + 1, b, 2)) return -1; if (b[1].n != 32) { fb(b, 2); return -1; }
    outn = b[0].n; in = arena_in(b[0].p, b[0].n, delta, outn, &out, &base);
    rc = crypto_sign_open(out, &l, in, b[0].n, b[1].p);
    fprintf(o, "%d %llu ", rc, l); if (rc == 0) hx_put_hex(o, out, (size_t) l); else fputc('-', o);
    free(base); fb(b, 2); return 0;
}
/* ovl.box.<v>.easy delta m n pk sk ; ovl.box.<v>.open delta c n pk sk */
static int boxop(int xc, int open, int argc, char **argv, FILE *o) {
    long delta; buf_t b[4]; unsigned char *in, *out, *base; int rc; size_t outn;
    if (argc != 5) return -1; delta = atol(argv[0]);
    if (nb(argc - 1, argv + 1, b, 4)) return -1; if (b[1].n != 24 || b[2].n != 32 || b[3].n != 32) { fb(b, 4); return -1; }
    outn = open ? (b[0].n >= 16 ? b[0].n - 16 : 0) : b[0].n + 16;
    in = arena_in(b[0].p, b[0].n, delta, outn, &out, &base);
    if (xc) rc = open ? crypto_box_curve25519xchacha20poly1305_open_easy(out, in, b[0].n, b[1].p, b[2].p, b[3].p) : crypto_box_curve25519xchacha20poly1305_easy(out, in, b[0].n, b[1].p, b[2].p, b[3].p);
    else rc = open ? crypto_box_open_easy(out, in, b[0].n, b[1].p, b[2].p, b[3].p) : crypto_box_easy(out, in, b[0].n, b[1].p, b[2].p, b[3].p);
    fprintf(o, "%d ", rc); if (rc == 0) hx_put_hex(o, out, outn); else fputc('-', o);
    free(base); fb(b, 4); return 0;
}
static int box_xs_easy(int c, char **v, FILE *o) { return boxop(0, 0, c, v, o); }
static int box_xs_open(int c, char **v, FILE *o) { return boxop(0, 1, c, v, o); }
static int box_xc_easy(int c, char **v, FILE *o) { return boxop(1, 0, c, v, o); }
static int box_xc_open(int c, char **v, FILE *o) { return boxop(1, 1, c, v, o); }
/* exact aliasing (c == m): ovl.inplace <op> args...  — runs the ordinary op with output pointer == input pointer */
static int op_inplace(int argc, char **argv, FILE *o) {
    buf_t b[5]; const char *op; unsigned char *buf;
    if (argc < 1) return -1; op = argv[0];
    if (!strcmp(op, "chacha20") || !strcmp(op, "chacha20_ietf") || !strcmp(op, "xchacha20") || !strcmp(op, "salsa20") || !strcmp(op, "xsalsa20") || !strcmp(op, "salsa2012")) {
        uint64_t ic; size_t nl = !strcmp(op, "chacha20_ietf") ? 12 : (op[0] == 'x' ? 24 : 8);
        if (argc != 5 || hx_hex(argv[1], &b[0]) || hx_hex(argv[2], &b[1]) || hx_u64(argv[3], &ic) || hx_hex(argv[4], &b[2])) return -1;
        if (b[1].n != nl || b[2].n != 32) return -1;
        buf = (unsigned char *) malloc(b[0].n + 1); memcpy(buf, b[0].p, b[0].n);
        if (!strcmp(op, "chacha20")) crypto_stream_chacha20_xor_ic(buf, buf, b[0].n, b[1].p, ic, b[2].p);
        else if (!strcmp(op, "chacha20_ietf")) crypto_stream_chacha20_ietf_xor_ic(buf, buf, b[0].n, b[1].p, (uint32_t) ic, b[2].p);
        else if (!strcmp(op, "xchacha20")) crypto_stream_xchacha20_xor_ic(buf, buf, b[0].n, b[1].p, ic, b[2].p);
        else if (!strcmp(op, "salsa20")) crypto_stream_salsa20_xor_ic(buf, buf, b[0].n, b[1].p, ic, b[2].p);
        else if (!strcmp(op, "xsalsa20")) crypto_stream_xsalsa20_xor_ic(buf, buf, b[0].n, b[1].p, ic, b[2].p);
        else crypto_stream_salsa2012_xor(buf, buf, b[0].n, b[1].p, b[2].p);
        hx_put_hex(o, buf, b[0].n); free(buf); fb(b, 3); return 0;
    }
    return -1;
}
const hx_op ops_c13[] = {
    {"ovl.secretbox.xsalsa.easy", sb_xs_easy}, {"ovl.secretbox.xsalsa.open", sb_xs_open}, {"ovl.secretbox.xsalsa.detached", sb_xs_det}, {"ovl.secretbox.xsalsa.opendet", sb_xs_opendet},
    {"ovl.secretbox.xchacha.easy", sb_xc_easy}, {"ovl.secretbox.xchacha.open", sb_xc_open}, {"ovl.secretbox.xchacha.detached", sb_xc_det}, {"ovl.secretbox.xchacha.opendet", sb_xc_opendet},
    {"ovl.sign", op_sign}, {"ovl.sign_open", op_sign_open}, {"ovl.box.xsalsa.easy", box_xs_easy}, {"ovl.box.xsalsa.open", box_xs_open},
    {"ovl.box.xchacha.easy", box_xc_easy}, {"ovl.box.xchacha.open", box_xc_open}, {"ovl.inplace", op_inplace}, {NULL, NULL}
};
