/* C05 / C06 / C07: X25519 and key agreement, Ed25519, Edwards25519 / Ristretto255 / scalars / hash-to-group */
#include "hx.h"

static int nb(int argc, char **argv, buf_t *b, int n) {
    int i; if (argc != n) return -1;
    for (i = 0; i < n; i++) if (hx_hex(argv[i], &b[i])) { while (i--) hx_free(&b[i]); return -1; }
    return 0;
}
static void fb(buf_t *b, int n) { int i; for (i = 0; i < n; i++) hx_free(&b[i]); }
static int lens(buf_t *b, int n, ...) { return 0; }
#define NEED(i, l) if (b[i].n != (l)) { fb(b, NB); return -1; }
static void rc_hex(FILE *o, int rc, const unsigned char *p, size_t n) { if (rc != 0) fprintf(o, "%d", rc); else { fputs("0 ", o); hx_put_hex(o, p, n); } }

/* ---------- C05 */
static int op_x25519(int argc, char **argv, FILE *o) {
    enum { NB = 2 }; buf_t b[NB]; unsigned char q[32]; int rc;
    if (nb(argc, argv, b, NB)) return -1; NEED(0, 32) NEED(1, 32)
    rc = crypto_scalarmult_curve25519(q, b[0].p, b[1].p);
    { unsigned char q2[32]; int rc2 = crypto_scalarmult(q2, b[0].p, b[1].p); if (rc2 != rc || (rc == 0 && memcmp(q, q2, 32))) fputs("DEFAULT-DIFFERS ", o); }
    { unsigned char a0[32], a1[32]; int r0, r1; memcpy(a0, b[0].p, 32); r0 = crypto_scalarmult_curve25519(a0, a0, b[1].p); memcpy(a1, b[1].p, 32); r1 = crypto_scalarmult_curve25519(a1, b[0].p, a1);
      if (r0 != rc || (rc == 0 && memcmp(a0, q, 32))) fputs("INPLACE-N-DIFFERS ", o);
      if (r1 != rc || (rc == 0 && memcmp(a1, q, 32))) fputs("INPLACE-P-DIFFERS ", o); }
    rc_hex(o, rc, q, 32); fb(b, NB); return 0;
}
/* bulk.x25519 <seed> <lo> <hi>: FNV digest of crypto_scalarmult_curve25519 over the pseudo-random (scalar, point) pairs number lo..hi-1 of the
   stream defined by <seed> (splitmix64): the same line gives the same pairs in every build / CPU mask, so digests can be compared across
   backends and a difference bisected to a single pair. bulk.x25519.pair <seed> <i> prints pair i. */
static uint64_t sm64(uint64_t *s) { uint64_t z = (*s += 0x9e3779b97f4a7c15ULL); z = (z ^ (z >> 30)) * 0xbf58476d1ce4e5b9ULL; z = (z ^ (z >> 27)) * 0x94d049bb133111ebULL; return z ^ (z >> 31); }
static void bulk_pair(uint64_t seed, uint64_t i, unsigned char n[32], unsigned char p[32]) {
    uint64_t st = seed * 0x2545F4914F6CDD1DULL + i * 0x9E3779B97F4A7C15ULL, w; int k;
    for (k = 0; k < 4; k++) { w = sm64(&st); memcpy(n + 8 * k, &w, 8); }
    for (k = 0; k < 4; k++) { w = sm64(&st); memcpy(p + 8 * k, &w, 8); }
}
static int op_bulk_x25519(int argc, char **argv, FILE *o) {
    uint64_t seed, lo, hi, i, h = FNV_INIT; unsigned char n[32], p[32], q[32]; int rc;
    if (argc != 3 || hx_u64(argv[0], &seed) || hx_u64(argv[1], &lo) || hx_u64(argv[2], &hi) || hi < lo || hi - lo > 5000000) return -1;
    for (i = lo; i < hi; i++) { bulk_pair(seed, i, n, p); memset(q, 0, 32); rc = crypto_scalarmult_curve25519(q, n, p); h = fnv_bytes(h, &rc, sizeof rc); h = fnv_bytes(h, q, 32); }
    fprintf(o, "%016llx", (unsigned long long) h); return 0;
}
static int op_bulk_pair(int argc, char **argv, FILE *o) {
    uint64_t seed, i; unsigned char n[32], p[32];
    if (argc != 2 || hx_u64(argv[0], &seed) || hx_u64(argv[1], &i)) return -1;
    bulk_pair(seed, i, n, p); hx_put_hex(o, n, 32); fputc(' ', o); hx_put_hex(o, p, 32); return 0;
}
static int op_x25519_base(int argc, char **argv, FILE *o) {
    enum { NB = 1 }; buf_t b[NB]; unsigned char q[32], q2[32];
    if (nb(argc, argv, b, NB)) return -1; NEED(0, 32)
    crypto_scalarmult_curve25519_base(q, b[0].p); crypto_scalarmult_base(q2, b[0].p);
    if (memcmp(q, q2, 32)) fputs("DEFAULT-DIFFERS ", o);
    hx_put_hex(o, q, 32); fb(b, NB); return 0;
}
static int op_box_seed_keypair(int argc, char **argv, FILE *o) {
    enum { NB = 1 }; buf_t b[NB]; unsigned char pk[32], sk[32], pk2[32], sk2[32];
    if (nb(argc, argv, b, NB)) return -1; NEED(0, 32)
    crypto_box_seed_keypair(pk, sk, b[0].p); crypto_box_curve25519xchacha20poly1305_seed_keypair(pk2, sk2, b[0].p);
    if (memcmp(pk, pk2, 32) || memcmp(sk, sk2, 32)) fputs("XCHACHA-DIFFERS ", o);
    hx_put_hex(o, pk, 32); fputc(' ', o); hx_put_hex(o, sk, 32); fb(b, NB); return 0;
}
static int op_kx_seed_keypair(int argc, char **argv, FILE *o) {
    enum { NB = 1 }; buf_t b[NB]; unsigned char pk[32], sk[32];
    if (nb(argc, argv, b, NB)) return -1; NEED(0, 32)
    crypto_kx_seed_keypair(pk, sk, b[0].p); hx_put_hex(o, pk, 32); fputc(' ', o); hx_put_hex(o, sk, 32); fb(b, NB); return 0;
}
static int kx_common(int server, int argc, char **argv, FILE *o) {
    enum { NB = 3 }; buf_t b[NB]; unsigned char rx[32], tx[32], one[32]; int rc, rc2;
    if (nb(argc, argv, b, NB)) return -1; NEED(0, 32) NEED(1, 32) NEED(2, 32)
    rc = server ? crypto_kx_server_session_keys(rx, tx, b[0].p, b[1].p, b[2].p) : crypto_kx_client_session_keys(rx, tx, b[0].p, b[1].p, b[2].p);
    /* "if only one session key is required, either rx or tx can be NULL": reported as two more outputs */
    rc2 = server ? crypto_kx_server_session_keys(one, NULL, b[0].p, b[1].p, b[2].p) : crypto_kx_client_session_keys(one, NULL, b[0].p, b[1].p, b[2].p);
    if (rc2 != rc) fputs("NULL-RC-DIFFERS ", o);
    if (rc != 0) fprintf(o, "%d", rc); else {
        unsigned char two[32];
        if ((server ? crypto_kx_server_session_keys(NULL, two, b[0].p, b[1].p, b[2].p) : crypto_kx_client_session_keys(NULL, two, b[0].p, b[1].p, b[2].p)) != 0) fputs("NULL-RC-DIFFERS ", o);
        fputs("0 ", o); hx_put_hex(o, rx, 32); fputc(' ', o); hx_put_hex(o, tx, 32); fputc(' ', o); hx_put_hex(o, one, 32); fputc(' ', o); hx_put_hex(o, two, 32);
    }
    fb(b, NB); return 0;
}
static int op_kx_client(int c, char **v, FILE *o) { return kx_common(0, c, v, o); }
static int op_kx_server(int c, char **v, FILE *o) { return kx_common(1, c, v, o); }
/* box.easy <xsalsa|xchacha> m n pk sk : all call forms must agree */
static int op_box_easy(int argc, char **argv, FILE *o) {
    enum { NB = 4 }; buf_t b[NB]; int xc, rc, rc2, rc3; unsigned char *c, *c2, mac[16], k[32];
    if (argc != 5 || nb(argc - 1, argv + 1, b, NB)) return -1; NEED(1, 24) NEED(2, 32) NEED(3, 32)
    xc = strcmp(argv[0], "xchacha") == 0;
    c = (unsigned char *) malloc(b[0].n + 17); c2 = (unsigned char *) malloc(b[0].n + 17);
    if (xc) {
        rc = crypto_box_curve25519xchacha20poly1305_easy(c, b[0].p, b[0].n, b[1].p, b[2].p, b[3].p);
        rc2 = crypto_box_curve25519xchacha20poly1305_detached(c2 + 16, mac, b[0].p, b[0].n, b[1].p, b[2].p, b[3].p);
        rc3 = crypto_box_curve25519xchacha20poly1305_beforenm(k, b[2].p, b[3].p);
        if (rc3 == 0) { memcpy(c2, mac, 16); if (rc2 != 0 || memcmp(c, c2, b[0].n + 16)) fputs("DETACHED-DIFFERS ", o);
            crypto_box_curve25519xchacha20poly1305_easy_afternm(c2, b[0].p, b[0].n, b[1].p, k); if (memcmp(c, c2, b[0].n + 16)) fputs("AFTERNM-DIFFERS ", o); }
    } else {
        rc = crypto_box_easy(c, b[0].p, b[0].n, b[1].p, b[2].p, b[3].p);
        rc2 = crypto_box_detached(c2 + 16, mac, b[0].p, b[0].n, b[1].p, b[2].p, b[3].p);
        rc3 = crypto_box_beforenm(k, b[2].p, b[3].p);
        if (rc3 == 0) { memcpy(c2, mac, 16); if (rc2 != 0 || memcmp(c, c2, b[0].n + 16)) fputs("DETACHED-DIFFERS ", o);
            crypto_box_easy_afternm(c2, b[0].p, b[0].n, b[1].p, k); if (memcmp(c, c2, b[0].n + 16)) fputs("AFTERNM-DIFFERS ", o); }
    }
    if (rc != rc3 || rc != rc2) fputs("RC-DIFFERS ", o);
    rc_hex(o, rc, c, b[0].n + 16); free(c); free(c2); fb(b, NB); return 0;
}
static int op_box_open(int argc, char **argv, FILE *o) {
    enum { NB = 4 }; buf_t b[NB]; int xc, rc; unsigned char *m; size_t cap;
    if (argc != 5 || nb(argc - 1, argv + 1, b, NB)) return -1; NEED(1, 24) NEED(2, 32) NEED(3, 32)
    xc = strcmp(argv[0], "xchacha") == 0; cap = b[0].n >= 16 ? b[0].n - 16 : 0;
    m = (unsigned char *) malloc(cap + 1); memset(m, 0x5c, cap);
    rc = xc ? crypto_box_curve25519xchacha20poly1305_open_easy(m, b[0].p, b[0].n, b[1].p, b[2].p, b[3].p) : crypto_box_open_easy(m, b[0].p, b[0].n, b[1].p, b[2].p, b[3].p);
    fprintf(o, "%d %llu ", rc, rc == 0 ? (unsigned long long) cap : 0ULL); hx_put_hex(o, m, cap); free(m); fb(b, NB); return 0;
}
static int seal_open_v(int xc, int argc, char **argv, FILE *o) {
    enum { NB = 3 }; buf_t b[NB]; int rc; unsigned char *m; size_t cap;
    if (nb(argc, argv, b, NB)) return -1; NEED(1, 32) NEED(2, 32)
    cap = b[0].n >= 48 ? b[0].n - 48 : 0; m = (unsigned char *) malloc(cap + 1); memset(m, 0x5c, cap);
    rc = xc ? crypto_box_curve25519xchacha20poly1305_seal_open(m, b[0].p, b[0].n, b[1].p, b[2].p) : crypto_box_seal_open(m, b[0].p, b[0].n, b[1].p, b[2].p);
    fprintf(o, "%d %llu ", rc, rc == 0 ? (unsigned long long) cap : 0ULL); hx_put_hex(o, m, cap); free(m); fb(b, NB); return 0;
}
static int op_seal_open(int argc, char **argv, FILE *o) { return seal_open_v(0, argc, argv, o); }
static int op_seal_openx(int argc, char **argv, FILE *o) { return seal_open_v(1, argc, argv, o); }
/* ---------- C06 */
static int op_sign_seed_keypair(int argc, char **argv, FILE *o) {
    enum { NB = 1 }; buf_t b[NB]; unsigned char pk[32], sk[64], seed2[32], pk2[32];
    if (nb(argc, argv, b, NB)) return -1; NEED(0, 32)
    crypto_sign_seed_keypair(pk, sk, b[0].p);
    crypto_sign_ed25519_sk_to_seed(seed2, sk); crypto_sign_ed25519_sk_to_pk(pk2, sk);
    if (memcmp(seed2, b[0].p, 32) || memcmp(pk2, pk, 32)) fputs("SK-PARTS-DIFFER ", o);
    hx_put_hex(o, pk, 32); fputc(' ', o); hx_put_hex(o, sk, 64); fb(b, NB); return 0;
}
static int op_sign_detached(int argc, char **argv, FILE *o) {   /* m sk : detached, combined and determinism */
    enum { NB = 2 }; buf_t b[NB]; unsigned char sig[64], sig2[64], *sm; unsigned long long sl = 0, sml = 0;
    if (nb(argc, argv, b, NB)) return -1; NEED(1, 64)
    crypto_sign_detached(sig, &sl, b[0].p, b[0].n, b[1].p); crypto_sign_detached(sig2, NULL, b[0].p, b[0].n, b[1].p);
    sm = (unsigned char *) malloc(b[0].n + 65); crypto_sign(sm, &sml, b[0].p, b[0].n, b[1].p);
    if (sl != 64 || sml != b[0].n + 64 || memcmp(sig, sig2, 64) || memcmp(sm, sig, 64) || memcmp(sm + 64, b[0].p, b[0].n)) fputs("FORMS-DIFFER ", o);
    hx_put_hex(o, sig, 64); free(sm); fb(b, NB); return 0;
}
static int op_sign_verify(int argc, char **argv, FILE *o) {    /* sig m pk : detached verify and combined open must agree */
    enum { NB = 3 }; buf_t b[NB]; int rc, rc2; unsigned char *sm, *m; unsigned long long ml = 12345;
    if (nb(argc, argv, b, NB)) return -1; NEED(0, 64) NEED(2, 32)
    rc = crypto_sign_verify_detached(b[0].p, b[1].p, b[1].n, b[2].p);
    sm = (unsigned char *) malloc(b[1].n + 65); m = (unsigned char *) malloc(b[1].n + 65); memcpy(sm, b[0].p, 64); memcpy(sm + 64, b[1].p, b[1].n);
    memset(m, 0x5c, b[1].n + 64);
    rc2 = crypto_sign_open(m, &ml, sm, b[1].n + 64, b[2].p);
    if (rc2 != rc) fputs("OPEN-RC-DIFFERS ", o);
    if (rc2 == 0 && (ml != b[1].n || memcmp(m, b[1].p, b[1].n))) fputs("OPEN-MSG-DIFFERS ", o);
    if (rc2 != 0 && ml != 0) fputs("OPEN-FAIL-MLEN ", o);
    if (rc2 != 0) { size_t i; for (i = 0; i < b[1].n; i++) if (m[i] != 0 && m[i] != 0x5c) { fputs("OPEN-FAIL-LEAK ", o); break; } }
    {   /* the optional-pointer call forms: verification only (m == NULL) and mlen_p == NULL must give the same verdict */
        unsigned long long ml3 = 12345; int rc3 = crypto_sign_open(NULL, &ml3, sm, b[1].n + 64, b[2].p), rc4;
        memset(m, 0x5c, b[1].n + 64); rc4 = crypto_sign_open(m, NULL, sm, b[1].n + 64, b[2].p);
        if (rc3 != rc || (rc3 == 0 && ml3 != b[1].n) || (rc3 != 0 && ml3 != 0)) fputs("OPEN-NULLM-DIFFERS ", o);
        if (rc4 != rc || (rc4 == 0 && memcmp(m, b[1].p, b[1].n))) fputs("OPEN-NULLLEN-DIFFERS ", o);
    }
    fprintf(o, "%d", rc); free(sm); free(m); fb(b, NB); return 0;
}
static int op_sign_open(int argc, char **argv, FILE *o) {      /* sm pk */
    enum { NB = 2 }; buf_t b[NB]; int rc; unsigned char *m; unsigned long long ml = 12345; size_t cap;
    if (nb(argc, argv, b, NB)) return -1; NEED(1, 32)
    cap = b[0].n; m = (unsigned char *) malloc(cap + 1); memset(m, 0x5c, cap);
    rc = crypto_sign_open(m, &ml, b[0].p, b[0].n, b[1].p);
    { unsigned long long ml3 = 12345; int rc3 = crypto_sign_open(NULL, &ml3, b[0].p, b[0].n, b[1].p); if (rc3 != rc || ml3 != ml) fputs("OPEN-NULLM-DIFFERS ", o); }
    fprintf(o, "%d %llu ", rc, ml); hx_put_hex(o, m, cap >= 64 ? cap - 64 : 0); free(m); fb(b, NB); return 0;
}
static int op_sign_ph(int argc, char **argv, FILE *o) {        /* sign.ph create sk chunks... | verify sig pk chunks... */
    crypto_sign_state st; int i, create; buf_t k, s, c;
    if (argc < 2) return -1;
    create = strcmp(argv[0], "create") == 0;
    crypto_sign_init(&st);
    if (create) {
        unsigned char sig[64]; unsigned long long sl;
        if (hx_hex(argv[1], &k) || k.n != 64) return -1;
        for (i = 2; i < argc; i++) { if (hx_hex(argv[i], &c)) return -1; crypto_sign_update(&st, c.p, c.n); hx_free(&c); }
        crypto_sign_final_create(&st, sig, &sl, k.p); hx_put_hex(o, sig, 64); hx_free(&k);
    } else {
        int rc;
        if (argc < 3 || hx_hex(argv[1], &s) || s.n != 64 || hx_hex(argv[2], &k) || k.n != 32) return -1;
        for (i = 3; i < argc; i++) { if (hx_hex(argv[i], &c)) return -1; crypto_sign_update(&st, c.p, c.n); hx_free(&c); }
        rc = crypto_sign_final_verify(&st, s.p, k.p); fprintf(o, "%d", rc); hx_free(&s); hx_free(&k);
    }
    return 0;
}
static int op_pk_to_curve(int argc, char **argv, FILE *o) {
    enum { NB = 1 }; buf_t b[NB]; unsigned char q[32]; int rc;
    if (nb(argc, argv, b, NB)) return -1; NEED(0, 32)
    rc = crypto_sign_ed25519_pk_to_curve25519(q, b[0].p); rc_hex(o, rc, q, 32); fb(b, NB); return 0;
}
static int op_sk_to_curve(int argc, char **argv, FILE *o) {
    enum { NB = 1 }; buf_t b[NB]; unsigned char q[32]; int rc;
    if (nb(argc, argv, b, NB)) return -1; NEED(0, 64)
    rc = crypto_sign_ed25519_sk_to_curve25519(q, b[0].p); rc_hex(o, rc, q, 32); fb(b, NB); return 0;
}
/* ---------- C07 */
#define UNARY_PT(NAME, FN, INLEN) static int NAME(int argc, char **argv, FILE *o) { enum { NB = 1 }; buf_t b[NB]; unsigned char q[32]; int rc; \
    if (nb(argc, argv, b, NB)) return -1; NEED(0, INLEN) rc = FN(q, b[0].p); rc_hex(o, rc, q, 32); fb(b, NB); return 0; }
/* every two-operand point / scalar function is also called in place (output aliasing the first, then the second operand);
   the answer must not depend on the placement (C13) nor, through it, on the backend (C10) */
#define BIN_PT(NAME, FN) static int NAME(int argc, char **argv, FILE *o) { enum { NB = 2 }; buf_t b[NB]; unsigned char q[32], a0[32], a1[32]; int rc, r0, r1; \
    if (nb(argc, argv, b, NB)) return -1; NEED(0, 32) NEED(1, 32) rc = FN(q, b[0].p, b[1].p); \
    memcpy(a0, b[0].p, 32); r0 = FN(a0, a0, b[1].p); memcpy(a1, b[1].p, 32); r1 = FN(a1, b[0].p, a1); \
    if (r0 != rc || (rc == 0 && memcmp(a0, q, 32))) fputs("INPLACE-ARG1-DIFFERS ", o); \
    if (r1 != rc || (rc == 0 && memcmp(a1, q, 32))) fputs("INPLACE-ARG2-DIFFERS ", o); \
    rc_hex(o, rc, q, 32); fb(b, NB); return 0; }
static int op_ed_valid(int argc, char **argv, FILE *o) { enum { NB = 1 }; buf_t b[NB]; if (nb(argc, argv, b, NB)) return -1; NEED(0, 32) fprintf(o, "%d", crypto_core_ed25519_is_valid_point(b[0].p)); fb(b, NB); return 0; }
static int op_ri_valid(int argc, char **argv, FILE *o) { enum { NB = 1 }; buf_t b[NB]; if (nb(argc, argv, b, NB)) return -1; NEED(0, 32) fprintf(o, "%d", crypto_core_ristretto255_is_valid_point(b[0].p)); fb(b, NB); return 0; }
BIN_PT(op_ed_add, crypto_core_ed25519_add)
BIN_PT(op_ed_sub, crypto_core_ed25519_sub)
BIN_PT(op_ri_add, crypto_core_ristretto255_add)
BIN_PT(op_ri_sub, crypto_core_ristretto255_sub)
/* scalar multiplication: only the output aliasing the POINT is exercised (with the output aliasing the scalar the wrappers test the
   clobbered scalar for zero afterwards: n = 0 returns 0 instead of -1 — same on every backend, and not an overlap the API documents) */
#define BIN_SM(NAME, FN) static int NAME(int argc, char **argv, FILE *o) { enum { NB = 2 }; buf_t b[NB]; unsigned char q[32], a1[32]; int rc, r1; \
    if (nb(argc, argv, b, NB)) return -1; NEED(0, 32) NEED(1, 32) rc = FN(q, b[0].p, b[1].p); \
    memcpy(a1, b[1].p, 32); r1 = FN(a1, b[0].p, a1); \
    if (r1 != rc || (rc == 0 && memcmp(a1, q, 32))) fputs("INPLACE-ARG2-DIFFERS ", o); \
    rc_hex(o, rc, q, 32); fb(b, NB); return 0; }
BIN_SM(op_ed_sm, crypto_scalarmult_ed25519)
BIN_SM(op_ed_sm_nc, crypto_scalarmult_ed25519_noclamp)
BIN_SM(op_ri_sm, crypto_scalarmult_ristretto255)
UNARY_PT(op_ed_smb, crypto_scalarmult_ed25519_base, 32)
UNARY_PT(op_ed_smb_nc, crypto_scalarmult_ed25519_base_noclamp, 32)
UNARY_PT(op_ri_smb, crypto_scalarmult_ristretto255_base, 32)
UNARY_PT(op_ed_from_uniform, crypto_core_ed25519_from_uniform, 32)
UNARY_PT(op_ri_from_hash, crypto_core_ristretto255_from_hash, 64)
/* h2c: <alg 256|512> <ro 0|1> <ctx hex | N> <msg> */
static int h2c(int ri, int argc, char **argv, FILE *o) {
    buf_t m, c; int alg, ro, rc; unsigned char q[32]; char *ctx = NULL;
    if (argc != 4) return -1;
    alg = atoi(argv[0]) == 256 ? crypto_core_ed25519_H2CSHA256 : crypto_core_ed25519_H2CSHA512; ro = argv[1][0] == '1';
    if (strcmp(argv[2], "N") != 0) { if (hx_hex(argv[2], &c)) return -1; ctx = (char *) malloc(c.n + 1); memcpy(ctx, c.p, c.n); ctx[c.n] = 0; hx_free(&c); }
    if (hx_hex(argv[3], &m)) { free(ctx); return -1; }
    if (ri) rc = ro ? crypto_core_ristretto255_from_string_ro(q, ctx, m.p, m.n, alg) : crypto_core_ristretto255_from_string(q, ctx, m.p, m.n, alg);
    else rc = ro ? crypto_core_ed25519_from_string_ro(q, ctx, m.p, m.n, alg) : crypto_core_ed25519_from_string(q, ctx, m.p, m.n, alg);
    rc_hex(o, rc, q, 32); free(ctx); hx_free(&m); return 0;
}
static int op_ed_from_string(int c, char **v, FILE *o) { return h2c(0, c, v, o); }
static int op_ri_from_string(int c, char **v, FILE *o) { return h2c(1, c, v, o); }
/* scalars: sc.<op> args ; ed25519 and ristretto255 wrappers must agree */
static int op_scalar(int argc, char **argv, FILE *o) {
    buf_t x, y; unsigned char r[32], r2[32]; const char *op; int rc = 0, rc2 = 0;
    if (argc < 2) return -1; op = argv[0];
    if (hx_hex(argv[1], &x)) return -1;
    y.p = NULL; y.n = 0;
    if (argc > 2 && hx_hex(argv[2], &y)) { hx_free(&x); return -1; }
    if (!strcmp(op, "reduce")) { if (x.n != 64) goto bad; crypto_core_ed25519_scalar_reduce(r, x.p); crypto_core_ristretto255_scalar_reduce(r2, x.p); }
    else if (x.n != 32 || (argc > 2 && y.n != 32)) goto bad;
    else if (!strcmp(op, "mul")) { crypto_core_ed25519_scalar_mul(r, x.p, y.p); crypto_core_ristretto255_scalar_mul(r2, x.p, y.p); }
    else if (!strcmp(op, "add")) { crypto_core_ed25519_scalar_add(r, x.p, y.p); crypto_core_ristretto255_scalar_add(r2, x.p, y.p); }
    else if (!strcmp(op, "sub")) { crypto_core_ed25519_scalar_sub(r, x.p, y.p); crypto_core_ristretto255_scalar_sub(r2, x.p, y.p); }
    else if (!strcmp(op, "negate")) { crypto_core_ed25519_scalar_negate(r, x.p); crypto_core_ristretto255_scalar_negate(r2, x.p); }
    else if (!strcmp(op, "complement")) { crypto_core_ed25519_scalar_complement(r, x.p); crypto_core_ristretto255_scalar_complement(r2, x.p); }
    else if (!strcmp(op, "invert")) { rc = crypto_core_ed25519_scalar_invert(r, x.p); rc2 = crypto_core_ristretto255_scalar_invert(r2, x.p); }
    else goto bad;
    if (rc != rc2 || memcmp(r, r2, 32)) fputs("RISTRETTO-DIFFERS ", o);
    fprintf(o, "%d ", rc); hx_put_hex(o, r, 32);
    hx_free(&x); if (y.p) hx_free(&y); return 0;
bad:
    hx_free(&x); if (y.p) hx_free(&y); return -1;
}
const hx_op ops_c05[] = {
    {"x25519", op_x25519}, {"bulk.x25519", op_bulk_x25519}, {"bulk.x25519.pair", op_bulk_pair}, {"x25519.base", op_x25519_base}, {"box.seed_keypair", op_box_seed_keypair}, {"kx.seed_keypair", op_kx_seed_keypair},
    {"kx.client", op_kx_client}, {"kx.server", op_kx_server}, {"box.easy", op_box_easy}, {"box.open", op_box_open}, {"seal.open", op_seal_open}, {"seal.openx", op_seal_openx},
    {"sign.seed_keypair", op_sign_seed_keypair}, {"sign.detached", op_sign_detached}, {"sign.verify", op_sign_verify}, {"sign.open", op_sign_open},
    {"sign.ph", op_sign_ph}, {"sign.pk_to_curve", op_pk_to_curve}, {"sign.sk_to_curve", op_sk_to_curve},
    {"ed.valid", op_ed_valid}, {"ri.valid", op_ri_valid}, {"ed.add", op_ed_add}, {"ed.sub", op_ed_sub}, {"ri.add", op_ri_add}, {"ri.sub", op_ri_sub},
    {"ed.scalarmult", op_ed_sm}, {"ed.scalarmult_noclamp", op_ed_sm_nc}, {"ri.scalarmult", op_ri_sm}, {"ed.base", op_ed_smb}, {"ed.base_noclamp", op_ed_smb_nc},
    {"ri.base", op_ri_smb}, {"ed.from_uniform", op_ed_from_uniform}, {"ri.from_hash", op_ri_from_hash}, {"ed.from_string", op_ed_from_string},
    {"ri.from_string", op_ri_from_string}, {"sc", op_scalar}, {NULL, NULL}
};
