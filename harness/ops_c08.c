/* C08: password hashing. Salts for the string APIs come from a scripted random source. */
#include "hx.h"
#include <errno.h>

static const unsigned char *scr; static size_t scr_len, scr_pos;
static const char *s_name(void) { return "scripted08"; }
static uint32_t s_random(void) { return 0; }
static void s_buf(void *const buf, const size_t size) { size_t i; unsigned char *b = (unsigned char *) buf; for (i = 0; i < size; i++) b[i] = scr_pos < scr_len ? scr[scr_pos++] : 0x55; }
static randombytes_implementation scripted = { s_name, s_random, NULL, NULL, s_buf, NULL };
static void install(const unsigned char *s, size_t n) { scr = s; scr_len = n; scr_pos = 0; randombytes_set_implementation(&scripted); }
static void restore(void) { randombytes_set_implementation(&randombytes_sysrandom_implementation); }

static int alg_of(const char *s) { return !strcmp(s, "argon2i") ? crypto_pwhash_ALG_ARGON2I13 : !strcmp(s, "argon2id") ? crypto_pwhash_ALG_ARGON2ID13 : atoi(s); }

/* pwhash.raw <alg> <outlen> <passwd> <salt16> <ops> <mem> : through the generic crypto_pwhash AND the algorithm-specific entry point */
static int op_raw(int argc, char **argv, FILE *o) {
    uint64_t outlen, ops, mem; buf_t pw, salt; unsigned char *out, *out2; int rc, rc2, alg, e;
    if (argc != 6 || hx_u64(argv[1], &outlen) || outlen > (1u << 20) || hx_hex(argv[2], &pw)) return -1;
    if (hx_hex(argv[3], &salt) || hx_u64(argv[4], &ops) || hx_u64(argv[5], &mem) || salt.n != 16) { hx_free(&pw); return -1; }
    alg = alg_of(argv[0]);
    out = (unsigned char *) malloc(outlen + 1); out2 = (unsigned char *) malloc(outlen + 1);
    install((const unsigned char *) "", 0);   /* argon2_hash pre-fills the output from the random source: make that deterministic */
    errno = 0;
    rc = crypto_pwhash(out, outlen, (const char *) pw.p, pw.n, salt.p, ops, (size_t) mem, alg);
    e = errno;
    rc2 = alg == crypto_pwhash_ALG_ARGON2I13 ? crypto_pwhash_argon2i(out2, outlen, (const char *) pw.p, pw.n, salt.p, ops, (size_t) mem, alg)
        : alg == crypto_pwhash_ALG_ARGON2ID13 ? crypto_pwhash_argon2id(out2, outlen, (const char *) pw.p, pw.n, salt.p, ops, (size_t) mem, alg) : rc;
    restore();
    if (rc2 != rc || (rc == 0 && memcmp(out, out2, outlen))) fputs("SPECIFIC-DIFFERS ", o);
    if (rc != 0) fprintf(o, "%d errno=%d", rc, e); else { fputs("0 ", o); hx_put_hex(o, out, outlen); }
    free(out); free(out2); hx_free(&pw); hx_free(&salt); return 0;
}
/* pwhash.str <alg|default> <passwd> <ops> <mem> <salt16> */
static int op_str(int argc, char **argv, FILE *o) {
    uint64_t ops, mem; buf_t pw, salt; char s[crypto_pwhash_STRBYTES]; int rc, e;
    if (argc != 5 || hx_hex(argv[1], &pw) || hx_u64(argv[2], &ops) || hx_u64(argv[3], &mem)) return -1;
    if (hx_hex(argv[4], &salt)) { hx_free(&pw); return -1; }
    memset(s, 0x5c, sizeof s);
    install(salt.p, salt.n); errno = 0;
    if (!strcmp(argv[0], "argon2i")) rc = crypto_pwhash_argon2i_str(s, (const char *) pw.p, pw.n, ops, (size_t) mem);
    else if (!strcmp(argv[0], "argon2id")) rc = crypto_pwhash_argon2id_str(s, (const char *) pw.p, pw.n, ops, (size_t) mem);
    else if (!strcmp(argv[0], "default")) rc = crypto_pwhash_str(s, (const char *) pw.p, pw.n, ops, (size_t) mem);
    else rc = crypto_pwhash_str_alg(s, (const char *) pw.p, pw.n, ops, (size_t) mem, alg_of(argv[0]));
    e = errno; restore();
    if (rc != 0) fprintf(o, "%d errno=%d", rc, e);
    else { size_t l = strnlen(s, sizeof s), i; int zero_tail = 1; for (i = l; i < sizeof s; i++) if (s[i]) zero_tail = 0; fputs("0 ", o); hx_put_hex(o, (unsigned char *) s, l); if (!zero_tail) fputs(" TAIL-NOT-ZERO", o); }
    hx_free(&pw); hx_free(&salt); return 0;
}
static char *cstr(buf_t *b) { char *s = (char *) malloc(b->n + 1); memcpy(s, b->p, b->n); s[b->n] = 0; return s; }
/* pwhash.verify <str hex (no NUL)> <passwd> : generic and algorithm-specific verifiers */
static int op_verify(int argc, char **argv, FILE *o) {
    buf_t st, pw; char *s; int rc, ri, rid;
    if (argc != 2 || hx_hex(argv[0], &st)) return -1; if (hx_hex(argv[1], &pw)) { hx_free(&st); return -1; }
    s = cstr(&st);
    rc = crypto_pwhash_str_verify(s, (const char *) pw.p, pw.n);
    ri = crypto_pwhash_argon2i_str_verify(s, (const char *) pw.p, pw.n);
    rid = crypto_pwhash_argon2id_str_verify(s, (const char *) pw.p, pw.n);
    fprintf(o, "%d %d %d", rc, ri, rid); free(s); hx_free(&st); hx_free(&pw); return 0;
}
/* pwhash.needs_rehash <str hex> <ops> <mem> */
static int op_rehash(int argc, char **argv, FILE *o) {
    buf_t st; uint64_t ops, mem; char *s;
    if (argc != 3 || hx_hex(argv[0], &st) || hx_u64(argv[1], &ops) || hx_u64(argv[2], &mem)) return -1;
    s = cstr(&st);
    fprintf(o, "%d %d %d", crypto_pwhash_str_needs_rehash(s, ops, (size_t) mem), crypto_pwhash_argon2i_str_needs_rehash(s, ops, (size_t) mem), crypto_pwhash_argon2id_str_needs_rehash(s, ops, (size_t) mem));
    free(s); hx_free(&st); return 0;
}
/* scrypt.raw <outlen> <passwd> <salt32> <ops> <mem> ; scrypt.ll <passwd> <salt> <N> <r> <p> <outlen> */
static int op_sc_raw(int argc, char **argv, FILE *o) {
    uint64_t outlen, ops, mem; buf_t pw, salt; unsigned char *out; int rc, e;
    if (argc != 5 || hx_u64(argv[0], &outlen) || outlen > (1u << 20) || hx_hex(argv[1], &pw)) return -1;
    if (hx_hex(argv[2], &salt) || hx_u64(argv[3], &ops) || hx_u64(argv[4], &mem) || salt.n != 32) { hx_free(&pw); return -1; }
    out = (unsigned char *) malloc(outlen + 1); errno = 0;
    rc = crypto_pwhash_scryptsalsa208sha256(out, outlen, (const char *) pw.p, pw.n, salt.p, ops, (size_t) mem); e = errno;
    if (rc != 0) fprintf(o, "%d errno=%d", rc, e); else { fputs("0 ", o); hx_put_hex(o, out, outlen); }
    free(out); hx_free(&pw); hx_free(&salt); return 0;
}
/* scrypt.range <ops> <mem>: are out-of-range cost parameters rejected? (16-byte output, fixed password and salt) */
static int op_sc_range(int argc, char **argv, FILE *o) {
    uint64_t ops, mem; unsigned char out[16], salt[32]; int rc;
    if (argc != 2 || hx_u64(argv[0], &ops) || hx_u64(argv[1], &mem)) return -1;
    memset(salt, 0, sizeof salt);
    rc = crypto_pwhash_scryptsalsa208sha256(out, sizeof out, "pw", 2, salt, ops, (size_t) mem);
    fputs(rc == 0 ? "accepted" : "rejected", o); return 0;
}
static int op_sc_ll(int argc, char **argv, FILE *o) {
    uint64_t N, r, p, outlen; buf_t pw, salt; unsigned char *out; int rc;
    if (argc != 6 || hx_hex(argv[0], &pw)) return -1;
    if (hx_hex(argv[1], &salt) || hx_u64(argv[2], &N) || hx_u64(argv[3], &r) || hx_u64(argv[4], &p) || hx_u64(argv[5], &outlen) || outlen > (1u << 16)) { hx_free(&pw); return -1; }
    out = (unsigned char *) malloc(outlen + 1);
    rc = crypto_pwhash_scryptsalsa208sha256_ll(pw.p, pw.n, salt.p, salt.n, N, (uint32_t) r, (uint32_t) p, out, outlen);
    if (rc != 0) fprintf(o, "%d", rc); else { fputs("0 ", o); hx_put_hex(o, out, outlen); }
    free(out); hx_free(&pw); hx_free(&salt); return 0;
}
/* scrypt.str <passwd> <ops> <mem> <salt32 script> ; scrypt.verify <str> <passwd> ; scrypt.needs_rehash <str> <ops> <mem> */
static int op_sc_str(int argc, char **argv, FILE *o) {
    uint64_t ops, mem; buf_t pw, salt; char s[crypto_pwhash_scryptsalsa208sha256_STRBYTES]; int rc, e;
    if (argc != 4 || hx_hex(argv[0], &pw) || hx_u64(argv[1], &ops) || hx_u64(argv[2], &mem)) return -1;
    if (hx_hex(argv[3], &salt)) { hx_free(&pw); return -1; }
    memset(s, 0x5c, sizeof s); install(salt.p, salt.n); errno = 0;
    rc = crypto_pwhash_scryptsalsa208sha256_str(s, (const char *) pw.p, pw.n, ops, (size_t) mem); e = errno; restore();
    if (rc != 0) fprintf(o, "%d errno=%d", rc, e); else { fputs("0 ", o); hx_put_hex(o, (unsigned char *) s, strnlen(s, sizeof s)); }
    hx_free(&pw); hx_free(&salt); return 0;
}
static int op_sc_verify(int argc, char **argv, FILE *o) {
    buf_t st, pw; char s[crypto_pwhash_scryptsalsa208sha256_STRBYTES]; int rc;
    if (argc != 2 || hx_hex(argv[0], &st)) return -1; if (hx_hex(argv[1], &pw)) { hx_free(&st); return -1; }
    /* the API takes a fixed-size char[102]: shorter strings are NUL-padded, longer ones truncated to the array */
    memset(s, 0, sizeof s); memcpy(s, st.p, st.n < sizeof s ? st.n : sizeof s);
    rc = crypto_pwhash_scryptsalsa208sha256_str_verify(s, (const char *) pw.p, pw.n);
    fprintf(o, "%d", rc); hx_free(&st); hx_free(&pw); return 0;
}
static int op_sc_rehash(int argc, char **argv, FILE *o) {
    buf_t st; uint64_t ops, mem; char s[crypto_pwhash_scryptsalsa208sha256_STRBYTES];
    if (argc != 3 || hx_hex(argv[0], &st) || hx_u64(argv[1], &ops) || hx_u64(argv[2], &mem)) return -1;
    memset(s, 0, sizeof s); memcpy(s, st.p, st.n < sizeof s ? st.n : sizeof s);
    fprintf(o, "%d", crypto_pwhash_scryptsalsa208sha256_str_needs_rehash(s, ops, (size_t) mem)); hx_free(&st); return 0;
}
const hx_op ops_c08[] = {
    {"pwhash.raw", op_raw}, {"pwhash.str", op_str}, {"pwhash.verify", op_verify}, {"pwhash.needs_rehash", op_rehash},
    {"scrypt.raw", op_sc_raw}, {"scrypt.range", op_sc_range}, {"scrypt.ll", op_sc_ll}, {"scrypt.str", op_sc_str}, {"scrypt.verify", op_sc_verify}, {"scrypt.needs_rehash", op_sc_rehash}, {NULL, NULL}
};
