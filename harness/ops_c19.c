/* C19: ops that exercise the process-global / thread-local state of the library
   (default random generator, guarded allocation); safe to run from many threads at once. */
#include "hx.h"

/* thr.rand <n>: randombytes_buf with the DEFAULT generator; output only what is deterministic:
   "ok <n>"; two consecutive draws of >= 16 bytes that coincide, or an all-zero draw, are reported */
static int op_rand(int argc, char **argv, FILE *o) {
    uint64_t n; unsigned char *a, *b; size_t i; int z = 1;
    if (argc != 1 || hx_u64(argv[0], &n) || n > (1 << 20)) return -1;
    a = (unsigned char *) malloc(n ? n : 1); b = (unsigned char *) malloc(n ? n : 1);
    randombytes_buf(a, (size_t) n); randombytes_buf(b, (size_t) n);
    for (i = 0; i < n; i++) if (a[i]) z = 0;
    if (n >= 16 && (z || memcmp(a, b, (size_t) n) == 0)) fprintf(o, "degenerate %llu", (unsigned long long) n);
    else fprintf(o, "ok %llu", (unsigned long long) n);
    free(a); free(b); return 0;
}
/* thr.uniform <ub> <k>: k draws, all must be < ub */
static int op_uniform(int argc, char **argv, FILE *o) {
    uint64_t ub, k, i; int bad = 0;
    if (argc != 2 || hx_u64(argv[0], &ub) || hx_u64(argv[1], &k) || ub > 0xffffffffULL) return -1;
    for (i = 0; i < k; i++) { uint32_t v = randombytes_uniform((uint32_t) ub); if (ub >= 2 ? v >= ub : v != 0) bad = 1; }
    fputs(bad ? "out-of-range" : "ok", o); return 0;
}
/* thr.alloc <n> <fill>: sodium_malloc, check 0xdb fill, write, readonly / readwrite, free */
static int op_alloc(int argc, char **argv, FILE *o) {
    uint64_t n, fill; unsigned char *p; size_t i; int bad = 0;
    if (argc != 2 || hx_u64(argv[0], &n) || hx_u64(argv[1], &fill) || n > (1 << 22)) return -1;
    p = (unsigned char *) sodium_malloc((size_t) n);
    if (p == NULL) { fputs("NULL", o); return 0; }
    for (i = 0; i < n; i++) if (p[i] != 0xdb) bad = 1;
    memset(p, (int) (fill & 0xff), (size_t) n);
    if (sodium_mprotect_readonly(p) != 0) bad |= 2;
    for (i = 0; i < n; i++) if (p[i] != (unsigned char) fill) bad |= 4;
    if (sodium_mprotect_readwrite(p) != 0) bad |= 8;
    if (n) p[n - 1] ^= 1;
    sodium_free(p);
    fprintf(o, "ok %d", bad); return 0;
}
/* thr.keygen: every default-RNG key generator once; output sizes only */
static int op_keygen(int argc, char **argv, FILE *o) {
    unsigned char pk[64], sk[64], k[64]; unsigned char z[64] = { 0 };
    (void) argv; if (argc != 0) return -1;
    crypto_box_keypair(pk, sk); crypto_sign_keypair(pk, sk); crypto_kx_keypair(pk, sk);
    crypto_secretbox_keygen(k); crypto_aead_xchacha20poly1305_ietf_keygen(k); crypto_auth_keygen(k);
    crypto_core_ed25519_scalar_random(k); crypto_core_ristretto255_random(k);
    fputs(memcmp(k, z, 32) == 0 ? "degenerate" : "ok", o); return 0;
}
/* thr.closebuf <n>: randombytes_close() then draw again (the generator must re-seed itself; on this platform close only
   touches per-thread / no shared state, so concurrent use from other threads stays race-free) */
static int op_closebuf(int argc, char **argv, FILE *o) {
    uint64_t n; unsigned char *a, *b; int rc;
    if (argc != 1 || hx_u64(argv[0], &n) || n > (1 << 16)) return -1;
    a = (unsigned char *) malloc(n ? n : 1); b = (unsigned char *) malloc(n ? n : 1);
    rc = randombytes_close(); randombytes_buf(a, (size_t) n); (void) randombytes_close(); randombytes_buf(b, (size_t) n);
    if (rc != 0) fprintf(o, "close-failed %d", rc);
    else if (n >= 16 && memcmp(a, b, (size_t) n) == 0) fprintf(o, "degenerate %llu", (unsigned long long) n);
    else fprintf(o, "ok %llu", (unsigned long long) n);
    free(a); free(b); return 0;
}
const hx_op ops_c19[] = { { "thr.closebuf", op_closebuf }, { "thr.rand", op_rand }, { "thr.uniform", op_uniform }, { "thr.alloc", op_alloc }, { "thr.keygen", op_keygen }, { NULL, NULL } };
