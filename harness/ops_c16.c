/* C16: sodium_pad / sodium_unpad */
#include "hx.h"

typedef struct { buf_t b; uint64_t n, bs; unsigned char *orig; } pad_args;

static void do_pad(void *a_, FILE *o) {
    pad_args *a = (pad_args *) a_;
    size_t padded = (size_t) 0xdeadbeefULL;
    int rc = sodium_pad(&padded, a->b.p, (size_t) a->n, (size_t) a->bs, a->b.n);
    if (rc == 0) { fprintf(o, "0 %llu ", (unsigned long long) padded); }
    else { fprintf(o, "%d ", rc); }
    hx_put_hex(o, a->b.p, a->b.n);
    /* the optional-pointer call form sodium_pad(NULL, ...) on a copy of the ORIGINAL buffer must return the same code and leave the same bytes */
    if (a->orig != NULL) {
        int rc2 = sodium_pad(NULL, a->orig, (size_t) a->n, (size_t) a->bs, a->b.n);
        if (rc2 != rc || memcmp(a->orig, a->b.p, a->b.n) != 0) fputs(" NULL-LENP-FORM-DIFFERS", o);
    }
}
static int op_pad(int argc, char **argv, FILE *o) {
    pad_args a;
    if (argc != 3 || hx_hex(argv[0], &a.b)) return -1;
    if (hx_u64(argv[1], &a.n) || hx_u64(argv[2], &a.bs)) { hx_free(&a.b); return -1; }
    a.orig = NULL;
    if (a.n <= a.b.n) { a.orig = (unsigned char *) hx_alloc(a.b.n); memcpy(a.orig, a.b.p, a.b.n); }
    if (a.n > a.b.n) {   /* out-of-contract length: observe misuse in a child */
        char out[65536]; int r = hx_in_child(do_pad, &a, out, sizeof out);
        if (r == 0) fputs(out, o); else if (r == 1) fputs("misuse", o); else fputs("crash", o);
    } else {
        do_pad(&a, o);
    }
    if (a.orig != NULL) hx_release(a.orig);
    hx_free(&a.b);
    return 0;
}
/* pad.big <n> <bs> <fill> <cap-delta>: capacity = padded - 1 + delta; buffer = data pattern (n bytes) then <fill> */
static int op_pad_big(int argc, char **argv, FILE *o) {
    uint64_t n, bs, fill, delta; size_t padded, cap, pl = 0, ul = 0, i, nz = 0; unsigned char *b; int rc, ur, dataok = 1;
    if (argc != 4 || hx_u64(argv[0], &n) || hx_u64(argv[1], &bs) || hx_u64(argv[2], &fill) || hx_u64(argv[3], &delta) || bs == 0 || n >= (1ULL << 31) || bs >= (1ULL << 31)) return -1;
    padded = (size_t) (n + (bs - n % bs)); cap = padded - 1 + (size_t) delta;
    b = (unsigned char *) malloc(cap + 1); if (b == NULL) return -1;
    for (i = 0; i < n; i++) b[i] = (unsigned char) (1 + i % 251);
    memset(b + n, (int) (fill & 0xff), cap - (size_t) n);
    rc = sodium_pad(&pl, b, (size_t) n, (size_t) bs, cap);
    if (rc != 0) { fprintf(o, "%d", rc); free(b); return 0; }
    for (i = 0; i < n; i++) if (b[i] != (unsigned char) (1 + i % 251)) dataok = 0;
    for (i = (size_t) n + 1; i < pl && i < cap; i++) if (b[i]) nz++;
    ur = sodium_unpad(&ul, b, pl, (size_t) bs);
    fprintf(o, "0 %zu marker=%u tailnz=%zu dataok=%d unpad=%d,%zu", pl, (unsigned) b[n], nz, dataok, ur, ul);
    free(b); return 0;
}
#include <sys/mman.h>
/* pad.huge <n> <bs> <fill> <cap-delta>: as pad.big for buffer lengths of 2^32 and more without the memory: the whole capacity is reserved PROT_NONE and only the
   pages sodium_pad / sodium_unpad may touch (the final block, [padded - bs, cap)) are made accessible; a touch anywhere else faults (observed in a child). */
typedef struct { uint64_t n, bs, fill, delta; } huge_t;
static void pad_huge_run(void *a_, FILE *o) {
    huge_t *a = (huge_t *) a_; size_t n = (size_t) a->n, bs = (size_t) a->bs, padded = n + (bs - n % bs), cap = padded - 1 + (size_t) a->delta, pl = 0, ul = 0, i, nz = 0, lo, from;
    unsigned char *base, *b; int rc, ur, dataok = 1; size_t tot = (cap + 1 + 8191) & ~(size_t) 4095;
    base = (unsigned char *) mmap(NULL, tot, PROT_NONE, MAP_PRIVATE | MAP_ANONYMOUS | MAP_NORESERVE, -1, 0);
    if (base == MAP_FAILED) { fputs("nomap", o); return; }
    b = base; lo = (padded - bs) & ~(size_t) 4095;
    if (mprotect(b + lo, tot - lo, PROT_READ | PROT_WRITE) != 0) { fputs("nomap", o); return; }
    from = lo;
    for (i = from; i < n; i++) b[i] = (unsigned char) (1 + i % 251);
    memset(b + (n > from ? n : from), (int) (a->fill & 0xff), cap - (n > from ? n : from));
    rc = sodium_pad(&pl, b, n, bs, cap);
    if (rc != 0) { fprintf(o, "%d", rc); return; }
    for (i = from; i < n; i++) if (b[i] != (unsigned char) (1 + i % 251)) dataok = 0;
    for (i = n + 1; i < pl && i < cap; i++) if (b[i]) nz++;
    ur = sodium_unpad(&ul, b, pl, bs);
    fprintf(o, "0 %zu marker=%u tailnz=%zu dataok=%d unpad=%d,%zu", pl, (unsigned) b[n], nz, dataok, ur, ul);
}
static int op_pad_huge(int argc, char **argv, FILE *o) {
    huge_t a; char out[256]; int r;
    if (argc != 4 || hx_u64(argv[0], &a.n) || hx_u64(argv[1], &a.bs) || hx_u64(argv[2], &a.fill) || hx_u64(argv[3], &a.delta) || a.bs == 0 || a.n >= (1ULL << 40) || a.bs > (1ULL << 22)) return -1;
    r = hx_in_child(pad_huge_run, &a, out, sizeof out);
    if (r == 0) fputs(out, o); else fprintf(o, "CHILD-DIED(%d) %s", r, out);
    return 0;
}
/* the buffer is placed so that buf[-1] lies in a PROT_NONE page: a read before the buffer faults */
static unsigned char *guarded_copy(const unsigned char *p, size_t n) {
    static __thread unsigned char *region; static const size_t cap = 1u << 20;   /* per thread: the threaded workload (C19) runs ops concurrently */
    if (region == NULL) {
        region = (unsigned char *) mmap(NULL, cap + 4096, PROT_READ | PROT_WRITE, MAP_PRIVATE | MAP_ANONYMOUS, -1, 0);
        if (region == MAP_FAILED) return NULL;
        mprotect(region, 4096, PROT_NONE);
    }
    if (n > cap) return NULL;
    memcpy(region + 4096, p, n);
    return region + 4096;
}
static int op_unpad(int argc, char **argv, FILE *o) {
    buf_t b; uint64_t bs; size_t unp = (size_t) 0xdeadbeefULL; int rc; unsigned char *g;
    if (argc != 2 || hx_hex(argv[0], &b)) return -1;
    if (hx_u64(argv[1], &bs)) { hx_free(&b); return -1; }
    g = guarded_copy(b.p, b.n);
    rc = sodium_unpad(&unp, g != NULL ? g : b.p, b.n, (size_t) bs);
    if (unp == (size_t) 0xdeadbeefULL) fprintf(o, "%d unset", rc);
    else fprintf(o, "%d %llu", rc, (unsigned long long) unp);
    hx_free(&b);
    return 0;
}
const hx_op ops_c16[] = { {"pad", op_pad}, {"pad.big", op_pad_big}, {"pad.huge", op_pad_huge}, {"unpad", op_unpad}, {NULL, NULL} };
