/* C17: guarded allocation */
#include "hx.h"
#include "wrap_sys.h"
#include <errno.h>
#include <signal.h>
#include <sys/wait.h>
#include <unistd.h>

static unsigned char first_canary[16]; static int have_canary;

static void layout_of(void *p, size_t size, FILE *o) {
    unsigned char *u = (unsigned char *) p; size_t i; int fill = 1;
    /* the log's base is the mmap result; the user pointer offset is relative to it */
    const char *mm = strstr(hxw_log, "mmap(");
    (void) mm;
    for (i = 0; i < size; i++) if (u[i] != 0xdb) fill = 0;
    if (!have_canary) { memcpy(first_canary, u - 16, 16); have_canary = 1; }
    fprintf(o, "fill=%s canary=%s", fill ? "ok" : "BAD", memcmp(first_canary, u - 16, 16) == 0 ? "ok" : "BAD");
}
extern unsigned char *hxw_base(void);
static int do_alloc(FILE *o, int is_array, uint64_t count, uint64_t size) {
    void *p; char mlog[4096]; size_t useroff;
    hxw_log_reset(); hxw_log_on = 1; errno = 0;
    p = is_array ? sodium_allocarray((size_t) count, (size_t) size) : sodium_malloc((size_t) size);
    hxw_log_on = 0;
    if (p == NULL) { fprintf(o, "NULL errno=%d", errno); return 0; }
    snprintf(mlog, sizeof mlog, "%s", hxw_log);
    useroff = (size_t) ((unsigned char *) p - hxw_base());
    fprintf(o, "ok user=%zu calls=%s", useroff, mlog);
    layout_of(p, is_array ? (size_t) (count * size) : (size_t) size, o);
    {   /* free: keep the same base for offsets */
        extern void hxw_log_keep_base(void);
        hxw_log_keep_base(); hxw_log_on = 1; sodium_free(p); hxw_log_on = 0;
        fprintf(o, " free=%s", hxw_log);
    }
    return 0;
}
static int op_layout(int argc, char **argv, FILE *o) { uint64_t s; if (argc != 1 || hx_u64(argv[0], &s)) return -1; return do_alloc(o, 0, 0, s); }
static int op_array(int argc, char **argv, FILE *o) { uint64_t c, s; if (argc != 2 || hx_u64(argv[0], &c) || hx_u64(argv[1], &s)) return -1; return do_alloc(o, 1, c, s); }

/* probes run in a forked child; the exit status tells what happened */
typedef struct { uint64_t size; const char *kind; const char *arg; } probe_a;
static volatile unsigned char sink;
static void probe_returning_handler(int sig) { (void) sig; }
static int probe_child(probe_a *a) {
    unsigned char *p = (unsigned char *) sodium_malloc((size_t) a->size);
    if (p == NULL) _exit(50);
    if (!strcmp(a->kind, "past")) { sink = p[a->size]; _exit(0); }                       /* must fault */
    if (!strcmp(a->kind, "pastw")) { p[a->size] = 1; _exit(0); }
    if (!strcmp(a->kind, "last")) { if (a->size) { p[a->size - 1] = 7; sink = p[a->size - 1]; } sodium_free(p); _exit(0); }  /* in bounds: fine */
    if (!strcmp(a->kind, "canary")) { int i = atoi(a->arg); p[-1 - i] ^= 1; sodium_free(p); _exit(0); }   /* free must kill the process */
    /* the same under the signal dispositions a host application may have installed: SIGSEGV (and SIGKILL cannot be) ignored, or handled by a handler that returns
       — "makes freeing terminate the process" whatever the process did with its signals */
    if (!strcmp(a->kind, "canary.ign")) { int i = atoi(a->arg); signal(SIGSEGV, SIG_IGN); p[-1 - i] ^= 1; sodium_free(p); _exit(0); }
    if (!strcmp(a->kind, "canary.hdl")) { int i = atoi(a->arg); signal(SIGSEGV, probe_returning_handler); p[-1 - i] ^= 1; sodium_free(p); _exit(0); }
    if (!strcmp(a->kind, "before")) { sink = p[-17 - atoi(a->arg)]; _exit(0); }          /* before the canary, still in the RW page unless it crosses into the guard page */
    if (!strcmp(a->kind, "prot")) {     /* arg = history of n/r/w then probe letter R or W or F(ree) */
        const char *h = a->arg; size_t n = strlen(h), i;
        for (i = 0; i + 1 < n; i++) {
            int rc = h[i] == 'n' ? sodium_mprotect_noaccess(p) : h[i] == 'r' ? sodium_mprotect_readonly(p) : sodium_mprotect_readwrite(p);
            if (rc != 0) _exit(51);
        }
        if (h[n - 1] == 'R') { sink = p[0]; if (a->size > 1) sink = p[a->size - 1]; _exit(0); }
        if (h[n - 1] == 'W') { p[0] = 1; if (a->size > 1) p[a->size - 1] = 1; _exit(0); }
        if (h[n - 1] == 'F') { sodium_free(p); _exit(0); }
        if (h[n - 1] == 'P') { sink = p[a->size]; _exit(0); }                                /* guard page after the data: must fault after any history */
        if (h[n - 1] == 'Q') { p[a->size] = 1; _exit(0); }
        if (h[n - 1] == 'G') { sink = *(unsigned char *) ((((uintptr_t) (p - 16)) & ~(uintptr_t) 4095) - 1); _exit(0); }   /* guard page before the data */
    }
    _exit(52);
}
static int op_probe(int argc, char **argv, FILE *o) {
    probe_a a; pid_t pid; int st;
    if (argc < 2 || hx_u64(argv[0], &a.size)) return -1;
    a.kind = argv[1]; a.arg = argc > 2 ? argv[2] : "0";
    fflush(NULL);
    pid = fork();
    if (pid == 0) { signal(SIGSEGV, SIG_DFL); signal(SIGBUS, SIG_DFL); signal(SIGABRT, SIG_DFL); probe_child(&a); }
    waitpid(pid, &st, 0);
    if (WIFSIGNALED(st)) fputs("signal", o); else fprintf(o, "exit=%d", WEXITSTATUS(st));
    return 0;
}
/* alloc.protlog <size> <history of n/r/w>: the mprotect calls issued by the protection API, offsets relative to the mapping base */
static int op_protlog(int argc, char **argv, FILE *o) {
    uint64_t s; void *p; const char *h; extern void hxw_log_keep_base(void);
    if (argc != 2 || hx_u64(argv[0], &s)) return -1;
    hxw_log_reset(); hxw_log_on = 1; p = sodium_malloc((size_t) s); hxw_log_on = 0;
    if (p == NULL) { fputs("NULL", o); return 0; }
    hxw_log_keep_base(); hxw_log_on = 1;
    for (h = argv[1]; *h; h++) {
        int rc = *h == 'n' ? sodium_mprotect_noaccess(p) : *h == 'r' ? sodium_mprotect_readonly(p) : sodium_mprotect_readwrite(p);
        if (rc != 0) { hxw_log_on = 0; fprintf(o, "rc=%d", rc); sodium_free(p); return 0; }
    }
    hxw_log_on = 0;
    fprintf(o, "calls=%s", hxw_log);
    sodium_free(p);
    return 0;
}
const hx_op ops_c17[] = { {"alloc.layout", op_layout}, {"alloc.array", op_array}, {"alloc.probe", op_probe}, {"alloc.protlog", op_protlog}, {NULL, NULL} };
