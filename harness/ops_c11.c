/* C11: constant-time observation. Every op marks its SECRET operands as undefined for valgrind/memcheck
   (data-flow taint: memcheck reports every conditional jump and every address computation that depends on
   them), runs the operation, declassifies the PUBLIC results (return codes, ciphertext, signatures, tags)
   and prints a digest of them (so the same lines can be diffed between builds). Outside valgrind the
   client requests are no-ops. Data are derived from <seed> with a PRNG so that a line replays exactly. */
#include "hx.h"
#include <valgrind/memcheck.h>

#define SECRET(p, n) VALGRIND_MAKE_MEM_UNDEFINED((p), (n))
#define PUBLIC(p, n) VALGRIND_MAKE_MEM_DEFINED((p), (n))

static uint64_t prng;
static uint64_t nxt(void) { prng ^= prng << 13; prng ^= prng >> 7; prng ^= prng << 17; return prng; }
static unsigned char *rnd(size_t n) { unsigned char *p = (unsigned char *) malloc(n ? n : 1); size_t i; for (i = 0; i < n; i++) p[i] = (unsigned char) (nxt() >> 24); return p; }
static unsigned char *buf(size_t n) { unsigned char *p = (unsigned char *) malloc(n ? n : 1); memset(p, 0, n); return p; }
static void emit(FILE *o, uint64_t h) { fprintf(o, "ok %016llx", (unsigned long long) h); }
#define DIG(p, n) do { PUBLIC((p), (n)); h = fnv_bytes(h, (p), (n)); } while (0)
#define RC(r) do { PUBLIC(&(r), sizeof (r)); h = fnv_bytes(h, &(r), sizeof (r)); } while (0)

typedef int (*ct_fn)(size_t len, uint64_t a3, FILE *o);
typedef struct { const char *name; ct_fn fn; } ct_op;

/* ---- comparison helpers / big-number helpers: every operand byte is secret ---- */
static int ct_memcmp(size_t n, uint64_t eq, FILE *o) {
    unsigned char *a = rnd(n), *b = eq ? (unsigned char *) memcpy(buf(n), a, n) : rnd(n); int r; uint64_t h = FNV_INIT;
    if (eq == 2 && n) b[n - 1] ^= 1;
    if (eq == 3 && n) b[0] ^= 0x80;
    SECRET(a, n); SECRET(b, n); r = sodium_memcmp(a, b, n); RC(r); emit(o, h); free(a); free(b); return 0;
}
static int ct_compare(size_t n, uint64_t eq, FILE *o) {
    unsigned char *a = rnd(n), *b = eq ? (unsigned char *) memcpy(buf(n), a, n) : rnd(n); int r; uint64_t h = FNV_INIT;
    if (eq == 2 && n) b[n - 1] ^= 1;
    if (eq == 3 && n) b[0] ^= 0x80;
    SECRET(a, n); SECRET(b, n); r = sodium_compare(a, b, n); RC(r); emit(o, h); free(a); free(b); return 0;
}
static int ct_is_zero(size_t n, uint64_t z, FILE *o) {
    unsigned char *a = z ? buf(n) : rnd(n); int r; uint64_t h = FNV_INIT;
    if (z == 2 && n) a[n - 1] = 1;
    SECRET(a, n); r = sodium_is_zero(a, n); RC(r); emit(o, h); free(a); return 0;
}
static int ct_verify(size_t n, uint64_t eq, FILE *o) {
    unsigned char *a = rnd(n), *b = eq ? (unsigned char *) memcpy(buf(n), a, n) : rnd(n); int r = -2; uint64_t h = FNV_INIT;
    if (eq == 2) b[n - 1] ^= 1;
    SECRET(a, n); SECRET(b, n);
    if (n == 16) r = crypto_verify_16(a, b); else if (n == 32) r = crypto_verify_32(a, b); else if (n == 64) r = crypto_verify_64(a, b); else return -1;
    RC(r); emit(o, h); free(a); free(b); return 0;
}
static int ct_arith(size_t n, uint64_t which, FILE *o) {
    unsigned char *a = which >= 3 ? (unsigned char *) memset(buf(n), 0xff, n) : rnd(n), *b = rnd(n); uint64_t h = FNV_INIT;
    SECRET(a, n); SECRET(b, n);
    if (which % 3 == 0) sodium_increment(a, n); else if (which % 3 == 1) sodium_add(a, b, n); else sodium_sub(a, b, n);
    DIG(a, n); emit(o, h); free(a); free(b); return 0;
}
/* ---- unpadding: buffer contents (hence the padding length) are secret; lengths and block size public ---- */
static int ct_unpad(size_t n, uint64_t bs, FILE *o) {
    unsigned char *a = rnd(n); size_t unp = 0, padpos; int r; uint64_t h = FNV_INIT;
    if (bs == 0 || n == 0) return -1;
    /* valid padding most of the time: 0x80 somewhere in the final block followed by zeros */
    if ((nxt() & 7) != 0) { size_t blk = bs > n ? n : bs; padpos = n - 1 - (size_t) (nxt() % blk); a[padpos] = 0x80; memset(a + padpos + 1, 0, n - padpos - 1); }
    SECRET(a, n); r = sodium_unpad(&unp, a, n, (size_t) bs); RC(r); PUBLIC(&unp, sizeof unp); if (r == 0) h = fnv_bytes(h, &unp, sizeof unp);
    emit(o, h); free(a); return 0;
}
/* ---- encoders: binary input secret ---- */
static int ct_bin2hex(size_t n, uint64_t x, FILE *o) {
    unsigned char *a = rnd(n); char *hex = (char *) buf(2 * n + 1); uint64_t h = FNV_INIT; (void) x;
    SECRET(a, n); sodium_bin2hex(hex, 2 * n + 1, a, n); DIG(hex, 2 * n + 1); emit(o, h); free(a); free(hex); return 0;
}
static int ct_bin2b64(size_t n, uint64_t variant, FILE *o) {
    unsigned char *a = rnd(n); size_t l; char *s; uint64_t h = FNV_INIT;
    if (variant != 1 && variant != 3 && variant != 5 && variant != 7) return -1;
    l = sodium_base64_ENCODED_LEN(n, (int) variant); s = (char *) buf(l);
    SECRET(a, n); sodium_bin2base64(s, l, a, n, (int) variant); DIG(s, l); emit(o, h); free(a); free(s); return 0;
}
/* ---- curve operations: scalars / seeds / secret keys are secret, points and messages public ---- */
static void public_point_ed(unsigned char *p) { unsigned char s[32]; size_t i; for (i = 0; i < 32; i++) s[i] = (unsigned char) (nxt() >> 24); s[31] &= 0x0f; s[0] |= 8; crypto_scalarmult_ed25519_base_noclamp(p, s); }
static int ct_x25519(size_t base, uint64_t x, FILE *o) {
    unsigned char *n = rnd(32), *p = rnd(32), q[32]; int r; uint64_t h = FNV_INIT; (void) x;
    SECRET(n, 32);
    r = base ? crypto_scalarmult_curve25519_base(q, n) : crypto_scalarmult_curve25519(q, n, p);
    RC(r); DIG(q, 32); emit(o, h); free(n); free(p); return 0;
}
static int ct_edmult(size_t which, uint64_t x, FILE *o) {
    unsigned char *n = rnd(32), p[32], q[32]; int r = 0; uint64_t h = FNV_INIT; (void) x;
    public_point_ed(p);
    if (which >= 4) { unsigned char u[64]; size_t i; for (i = 0; i < 64; i++) u[i] = (unsigned char) (nxt() >> 24); crypto_core_ristretto255_from_hash(p, u); }
    SECRET(n, 32);
    switch (which) {
    case 0: r = crypto_scalarmult_ed25519(q, n, p); break;
    case 1: r = crypto_scalarmult_ed25519_noclamp(q, n, p); break;
    case 2: r = crypto_scalarmult_ed25519_base(q, n); break;
    case 3: r = crypto_scalarmult_ed25519_base_noclamp(q, n); break;
    case 4: r = crypto_scalarmult_ristretto255(q, n, p); break;
    case 5: r = crypto_scalarmult_ristretto255_base(q, n); break;
    default: return -1;
    }
    RC(r); DIG(q, 32); emit(o, h); free(n); return 0;
}
static int ct_sign(size_t mlen, uint64_t which, FILE *o) {
    unsigned char *seed = rnd(32), pk[32], sk[64], sig[64], *m = rnd(mlen), *sm = buf(mlen + 64), x[32]; unsigned long long l = 0; int r = 0; uint64_t h = FNV_INIT;
    switch (which) {
    case 0: SECRET(seed, 32); r = crypto_sign_seed_keypair(pk, sk, seed); RC(r); DIG(pk, 32); PUBLIC(sk, 64); break;
    case 1: crypto_sign_seed_keypair(pk, sk, seed); SECRET(sk, 32); r = crypto_sign_detached(sig, &l, m, mlen, sk); RC(r); DIG(sig, 64); break;
    case 2: crypto_sign_seed_keypair(pk, sk, seed); SECRET(sk, 32); r = crypto_sign(sm, &l, m, mlen, sk); RC(r); DIG(sm, mlen + 64); break;
    case 3: crypto_sign_seed_keypair(pk, sk, seed); SECRET(sk, 32); r = crypto_sign_ed25519_sk_to_curve25519(x, sk); RC(r); DIG(x, 32); break;
    case 4: { crypto_sign_state st; crypto_sign_seed_keypair(pk, sk, seed); SECRET(sk, 32); crypto_sign_init(&st); crypto_sign_update(&st, m, mlen);
              r = crypto_sign_final_create(&st, sig, &l, sk); RC(r); DIG(sig, 64); break; }
    default: return -1;
    }
    emit(o, h); free(seed); free(m); free(sm); return 0;
}
static int ct_scalar(size_t which, uint64_t x, FILE *o) {
    unsigned char *a = rnd(64), *b = rnd(32), out[32]; int r = 0; uint64_t h = FNV_INIT; (void) x;
    a[31] &= 0x0f; b[31] &= 0x0f;
    SECRET(a, 64); SECRET(b, 32);
    switch (which) {
    case 0: crypto_core_ed25519_scalar_reduce(out, a); break;
    case 1: crypto_core_ed25519_scalar_negate(out, a); break;
    case 2: crypto_core_ed25519_scalar_complement(out, a); break;
    case 3: crypto_core_ed25519_scalar_add(out, a, b); break;
    case 4: crypto_core_ed25519_scalar_sub(out, a, b); break;
    case 5: crypto_core_ed25519_scalar_mul(out, a, b); break;
    case 6: r = crypto_core_ed25519_scalar_invert(out, a); RC(r); break;
    case 7: crypto_core_ristretto255_scalar_mul(out, a, b); break;
    case 8: r = crypto_core_ristretto255_scalar_invert(out, a); RC(r); break;
    default: return -1;
    }
    DIG(out, 32); emit(o, h); free(a); free(b); return 0;
}
static int ct_kx(size_t which, uint64_t x, FILE *o) {
    unsigned char *seed = rnd(32), pk[32], sk[32], pk2[32], sk2[32], rx[32], tx[32], k[32]; int r; uint64_t h = FNV_INIT; (void) x;
    crypto_kx_seed_keypair(pk2, sk2, seed); memset(seed, 7, 32); crypto_kx_seed_keypair(pk, sk, seed);
    SECRET(sk, 32);
    if (which == 0) { r = crypto_kx_client_session_keys(rx, tx, pk, sk, pk2); RC(r); DIG(rx, 32); DIG(tx, 32); }
    else if (which == 1) { r = crypto_kx_server_session_keys(rx, tx, pk, sk, pk2); RC(r); DIG(rx, 32); DIG(tx, 32); }
    else if (which == 2) { r = crypto_box_beforenm(k, pk2, sk); RC(r); DIG(k, 32); }
    else { r = crypto_box_curve25519xchacha20poly1305_beforenm(k, pk2, sk); RC(r); DIG(k, 32); }
    emit(o, h); free(seed); return 0;
}
/* ---- secret-key primitives: key and message secret; nonce public; output public ---- */
static int ct_stream(size_t n, uint64_t which, FILE *o) {
    unsigned char *k = rnd(32), *np = rnd(24), *m = rnd(n), *c = buf(n); uint64_t h = FNV_INIT;
    SECRET(k, 32); SECRET(m, n);
    switch (which) {
    case 0: crypto_stream_chacha20_xor_ic(c, m, n, np, 0xfffffffeULL, k); break;
    case 1: crypto_stream_chacha20_ietf_xor_ic(c, m, n, np, 7, k); break;
    case 2: crypto_stream_xchacha20_xor_ic(c, m, n, np, 1, k); break;
    case 3: crypto_stream_salsa20_xor_ic(c, m, n, np, 0xffffffffULL, k); break;
    case 4: crypto_stream_xsalsa20_xor_ic(c, m, n, np, 3, k); break;
    case 5: crypto_stream_salsa2012_xor(c, m, n, np, k); break;
    case 6: crypto_stream_salsa208_xor(c, m, n, np, k); break;
    case 7: crypto_stream_chacha20(c, n, np, k); break;
    case 8: crypto_stream_salsa20(c, n, np, k); break;
    case 9: crypto_stream_xsalsa20(c, n, np, k); break;
    case 10: crypto_stream_chacha20_ietf(c, n, np, k); break;
    default: return -1;
    }
    DIG(c, n); emit(o, h); free(k); free(np); free(m); free(c); return 0;
}
static int ct_hash(size_t n, uint64_t which, FILE *o) {
    unsigned char *k = rnd(64), *m = rnd(n), out[64], *t; int r = 0; uint64_t h = FNV_INIT; size_t ol = 64;
    SECRET(k, 64); SECRET(m, n);
    switch (which) {
    case 0: crypto_hash_sha256(out, m, n); ol = 32; break;
    case 1: crypto_hash_sha512(out, m, n); break;
    case 2: crypto_auth_hmacsha256(out, m, n, k); ol = 32; break;
    case 3: crypto_auth_hmacsha512(out, m, n, k); break;
    case 4: crypto_auth_hmacsha512256(out, m, n, k); ol = 32; break;
    case 5: crypto_generichash(out, 64, m, n, k, 64); break;
    case 6: crypto_generichash(out, 32, m, n, k, 32); ol = 32; break;
    case 7: crypto_generichash(out, 17, m, n, NULL, 0); ol = 17; break;
    case 8: crypto_shorthash(out, m, n, k); ol = 8; break;
    case 9: crypto_shorthash_siphashx24(out, m, n, k); ol = 16; break;
    case 10: crypto_onetimeauth(out, m, n, k); ol = 16; break;
    case 11: crypto_onetimeauth(out, m, n, k); PUBLIC(out, 16); t = rnd(16); if (nxt() & 1) memcpy(t, out, 16); SECRET(t, 16);
             r = crypto_onetimeauth_verify(t, m, n, k); RC(r); ol = 0; free(t); break;
    case 12: crypto_auth(out, m, n, k); PUBLIC(out, 32); t = rnd(32); if (nxt() & 1) memcpy(t, out, 32); SECRET(t, 32);
             r = crypto_auth_verify(t, m, n, k); RC(r); ol = 0; free(t); break;
    case 13: crypto_kdf_derive_from_key(out, 64, 0x0102030405060708ULL, "ctxctxct", k); break;
    case 14: { crypto_generichash_state st; size_t c1 = n / 3; crypto_generichash_init(&st, k, 32, 48); crypto_generichash_update(&st, m, c1); crypto_generichash_update(&st, m + c1, n - c1);
               crypto_generichash_final(&st, out, 48); ol = 48; break; }
    case 15: { crypto_onetimeauth_state st; size_t c1 = n / 2; crypto_onetimeauth_init(&st, k); crypto_onetimeauth_update(&st, m, c1); crypto_onetimeauth_update(&st, m + c1, n - c1);
               crypto_onetimeauth_final(&st, out); ol = 16; break; }
    case 16: crypto_kdf_hkdf_sha256_extract(out, k, 32, m, n); ol = 32; break;
    case 17: crypto_kdf_hkdf_sha512_extract(out, k, 32, m, n); break;
    default: return -1;
    }
    DIG(out, ol); emit(o, h); free(k); free(m); return 0;
}
typedef struct {
    const char *name; size_t kb, nb, ab;
    int (*enc)(unsigned char *, unsigned long long *, const unsigned char *, unsigned long long, const unsigned char *, unsigned long long, const unsigned char *, const unsigned char *, const unsigned char *);
    int (*dec)(unsigned char *, unsigned long long *, unsigned char *, const unsigned char *, unsigned long long, const unsigned char *, unsigned long long, const unsigned char *, const unsigned char *);
    int (*avail)(void);
} aead_t;
static int yes(void) { return 1; }
static const aead_t aeads[] = {
    { "chacha20poly1305", 32, 8, 16, crypto_aead_chacha20poly1305_encrypt, crypto_aead_chacha20poly1305_decrypt, yes },
    { "chacha20poly1305_ietf", 32, 12, 16, crypto_aead_chacha20poly1305_ietf_encrypt, crypto_aead_chacha20poly1305_ietf_decrypt, yes },
    { "xchacha20poly1305_ietf", 32, 24, 16, crypto_aead_xchacha20poly1305_ietf_encrypt, crypto_aead_xchacha20poly1305_ietf_decrypt, yes },
    { "aes256gcm", 32, 12, 16, crypto_aead_aes256gcm_encrypt, crypto_aead_aes256gcm_decrypt, crypto_aead_aes256gcm_is_available },
    { "aegis128l", 16, 16, 32, crypto_aead_aegis128l_encrypt, crypto_aead_aegis128l_decrypt, yes },
    { "aegis256", 32, 32, 32, crypto_aead_aegis256_encrypt, crypto_aead_aegis256_decrypt, yes },
};
/* which = 2*aead + (0 encrypt | 1 decrypt of a valid or tampered ciphertext) */
static int ct_aead(size_t n, uint64_t which, FILE *o) {
    const aead_t *a; unsigned char *k, *np, *m, *ad, *c, *m2; unsigned long long cl = 0, ml = 0; int r; uint64_t h = FNV_INIT; size_t adl = n % 37;
    if (which / 2 >= sizeof aeads / sizeof aeads[0]) return -1;
    a = &aeads[which / 2];
    if (!a->avail()) { fputs("unavailable", o); return 0; }
    k = rnd(a->kb); np = rnd(a->nb); m = rnd(n); ad = rnd(adl); c = buf(n + a->ab); m2 = buf(n);
    if ((which & 1) == 0) {
        SECRET(k, a->kb); SECRET(m, n);
        r = a->enc(c, &cl, m, n, ad, adl, NULL, np, k); RC(r); DIG(c, n + a->ab);
    } else {
        a->enc(c, &cl, m, n, ad, adl, NULL, np, k);
        if ((nxt() & 3) == 0) c[nxt() % (n + a->ab)] ^= 1;
        SECRET(k, a->kb);
        r = a->dec(m2, &ml, NULL, c, n + a->ab, ad, adl, np, k); RC(r); DIG(m2, n);
    }
    emit(o, h); free(k); free(np); free(m); free(ad); free(c); free(m2); return 0;
}
static int ct_box(size_t n, uint64_t which, FILE *o) {
    unsigned char *k = rnd(32), *np = rnd(24), *m = rnd(n), *c = buf(n + 16), *m2 = buf(n); int r; uint64_t h = FNV_INIT;
    switch (which) {
    case 0: SECRET(k, 32); SECRET(m, n); r = crypto_secretbox_easy(c, m, n, np, k); RC(r); DIG(c, n + 16); break;
    case 1: crypto_secretbox_easy(c, m, n, np, k); if ((nxt() & 3) == 0) c[nxt() % (n + 16)] ^= 4; SECRET(k, 32); r = crypto_secretbox_open_easy(m2, c, n + 16, np, k); RC(r); DIG(m2, n); break;
    case 2: SECRET(k, 32); SECRET(m, n); r = crypto_secretbox_xchacha20poly1305_easy(c, m, n, np, k); RC(r); DIG(c, n + 16); break;
    case 3: { crypto_secretstream_xchacha20poly1305_state st; unsigned char hd[24], *c2 = buf(n + 17); unsigned long long cl;   /* the header is random: digest lengths and codes only */
              SECRET(k, 32); SECRET(m, n); crypto_secretstream_xchacha20poly1305_init_push(&st, hd, k); PUBLIC(hd, 24);
              r = crypto_secretstream_xchacha20poly1305_push(&st, c2, &cl, m, n, NULL, 0, crypto_secretstream_xchacha20poly1305_TAG_REKEY); RC(r); PUBLIC(c2, n + 17); h = fnv_bytes(h, &cl, sizeof cl);
              r = crypto_secretstream_xchacha20poly1305_push(&st, c2, &cl, m, n, NULL, 0, 0); RC(r); PUBLIC(c2, n + 17); h = fnv_bytes(h, &cl, sizeof cl); free(c2); break; }
    default: return -1;
    }
    emit(o, h); free(k); free(np); free(m); free(c); free(m2); return 0;
}

static const ct_op cts[] = {
    { "memcmp", ct_memcmp }, { "compare", ct_compare }, { "is_zero", ct_is_zero }, { "verify", ct_verify }, { "arith", ct_arith },
    { "unpad", ct_unpad }, { "bin2hex", ct_bin2hex }, { "bin2b64", ct_bin2b64 }, { "x25519", ct_x25519 }, { "edmult", ct_edmult },
    { "sign", ct_sign }, { "scalar", ct_scalar }, { "kx", ct_kx }, { "stream", ct_stream }, { "hash", ct_hash }, { "aead", ct_aead }, { "box", ct_box },
    { NULL, NULL } };

/* ct <name> <len> <arg> <seed> */
static int op_ct(int argc, char **argv, FILE *o) {
    uint64_t len, a3, seed; const ct_op *c; static unsigned long opno;
    if (argc != 4 || hx_u64(argv[1], &len) || hx_u64(argv[2], &a3) || hx_u64(argv[3], &seed) || len > (1u << 20)) return -1;
    prng = seed * 0x9e3779b97f4a7c15ULL + 0x1234567ULL; if (prng == 0) prng = 1; nxt(); nxt();
    VALGRIND_PRINTF("@op %lu ct %s %s %s %s\n", opno++, argv[0], argv[1], argv[2], argv[3]);
    for (c = cts; c->name; c++) if (strcmp(c->name, argv[0]) == 0) return c->fn((size_t) len, a3, o);
    return -1;
}
const hx_op ops_c11[] = { { "ct", op_ct }, { NULL, NULL } };
