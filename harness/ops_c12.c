/* C12: memory-safety sweeps.  One op line = one sweep over a length range, done inside C.
     mem.sweep <family> <place> <lo> <hi> <seed>  ->  "<fnv digest of every output / return code> calls=<n>"
     mem.limit <api> <arg>                         ->  "misuse" | "rc=<r>[ errno=<E>]" | "ok" | "null errno=ENOMEM" | "crash"
   Every input and output buffer of the call under test has exactly its documented size and is placed
     h<k> : heap block, start at alignment offset k (0..63) from a 64-byte boundary; under ASan the prefix is
            poisoned and the end is tight against the redzone; without ASan 64 canary bytes on both sides are checked
     e    : the buffer ends exactly at a PROT_NONE page (overrun = fault); 64 canary bytes (poisoned under ASan) before it
     s    : the buffer starts right after a PROT_NONE page (underrun = fault); canary / poison after it
   Contents come from a splitmix64 generator seeded by (seed, family, len): independent of the placement and of the
   build, so the digest of a sweep is the same for every placement and every build of a correct library. */
#include "hx.h"
#include <errno.h>
#include <sys/mman.h>
#include <unistd.h>

#if defined(__SANITIZE_ADDRESS__)
#include <sanitizer/asan_interface.h>
#define M_POISON(p, n) __asan_poison_memory_region((p), (n))
#define M_UNPOISON(p, n) __asan_unpoison_memory_region((p), (n))
#define M_ASAN 1
#else
#define M_POISON(p, n) ((void) 0)
#define M_UNPOISON(p, n) ((void) 0)
#define M_ASAN 0
#endif

#define PG 4096u
#define SLOT_DATA (32u * PG)
#define NSLOT 48
#define SLACK 64u
#define CANARY 0xC7

typedef struct { unsigned char *p; size_t n; unsigned char *base; size_t total; unsigned char *map; size_t maplen; unsigned char *data; size_t cap; } blk_t;
typedef struct {
    int kind; size_t off;
    uint64_t rng, dig, calls;
    blk_t blk[NSLOT]; int nblk;
    char bad[200];
} sw_t;

static unsigned char *slot_map[NSLOT];

static void sw_die(const char *msg) { fprintf(stderr, "ops_c12: %s\n", msg); fflush(NULL); _exit(4); }

static uint64_t R(sw_t *sw) {
    uint64_t z = (sw->rng += 0x9e3779b97f4a7c15ULL);
    z = (z ^ (z >> 30)) * 0xbf58476d1ce4e5b9ULL;
    z = (z ^ (z >> 27)) * 0x94d049bb133111ebULL;
    return z ^ (z >> 31);
}
static void fill_rand(sw_t *sw, unsigned char *p, size_t n) {
    size_t i = 0;
    while (i < n) { uint64_t v = R(sw); size_t k; for (k = 0; k < 8 && i < n; k++, i++) { p[i] = (unsigned char) v; v >>= 8; } }
}

/* exact-size block of n bytes at the sweep's placement (contents: 0xA5) */
static unsigned char *A(sw_t *sw, size_t n) {
    blk_t *b;
    if (sw->nblk >= NSLOT) sw_die("too many live blocks");
    b = &sw->blk[sw->nblk];
    memset(b, 0, sizeof *b);
    b->n = n;
    if (sw->kind == 'h') {
        void *base = NULL;
        size_t tot = M_ASAN ? sw->off + n : SLACK + sw->off + n + SLACK;
        if (tot == 0) tot = 1;
        if (posix_memalign(&base, 64, tot) != 0 || base == NULL) sw_die("posix_memalign");
        b->base = (unsigned char *) base; b->total = tot;
        if (M_ASAN) {
            b->p = b->base + sw->off;
            if (sw->off) M_POISON(b->base, sw->off);
            if (sw->off + n == 0) M_POISON(b->base, 1);
        } else {
            memset(b->base, CANARY, tot);
            b->p = b->base + SLACK + sw->off;
        }
    } else {
        unsigned char *map; size_t cap = SLOT_DATA;
        if (n + SLACK <= SLOT_DATA) {
            if (slot_map[sw->nblk] == NULL) {
                map = (unsigned char *) mmap(NULL, PG + SLOT_DATA + PG, PROT_READ | PROT_WRITE, MAP_PRIVATE | MAP_ANONYMOUS, -1, 0);
                if (map == MAP_FAILED) sw_die("mmap");
                if (mprotect(map, PG, PROT_NONE) != 0 || mprotect(map + PG + SLOT_DATA, PG, PROT_NONE) != 0) sw_die("mprotect");
                slot_map[sw->nblk] = map;
            }
            map = slot_map[sw->nblk];
        } else {
            cap = (n + SLACK + PG - 1) / PG * PG;
            map = (unsigned char *) mmap(NULL, PG + cap + PG, PROT_READ | PROT_WRITE, MAP_PRIVATE | MAP_ANONYMOUS, -1, 0);
            if (map == MAP_FAILED) sw_die("mmap");
            if (mprotect(map, PG, PROT_NONE) != 0 || mprotect(map + PG + cap, PG, PROT_NONE) != 0) sw_die("mprotect");
            b->map = map; b->maplen = PG + cap + PG;
        }
        b->data = map + PG; b->cap = cap;
        if (sw->kind == 'e') {
            b->p = b->data + cap - n;
            memset(b->p - SLACK, CANARY, SLACK);
            M_POISON(b->data, cap - n);
        } else {
            b->p = b->data;
            memset(b->p + n, CANARY, SLACK);
            M_POISON(b->p + n, cap - n);
        }
    }
    memset(b->p, 0xA5, n);
    sw->nblk++;
    return b->p;
}
static unsigned char *AR(sw_t *sw, size_t n) { unsigned char *p = A(sw, n); fill_rand(sw, p, n); return p; }
static unsigned char *AC(sw_t *sw, const void *src, size_t n) { unsigned char *p = A(sw, n); if (n) memcpy(p, src, n); return p; }
static unsigned char *AZ(sw_t *sw, size_t n) { unsigned char *p = A(sw, n); if (n) memset(p, 0, n); return p; }
/* NUL-terminated string in an exact strlen+1 block */
static char *AS(sw_t *sw, const char *s) { return (char *) AC(sw, s, strlen(s) + 1); }

static void note_bad(sw_t *sw, const char *what, int idx, size_t n, long at) {
    if (sw->bad[0] == 0) snprintf(sw->bad, sizeof sw->bad, "%s-canary block=%d size=%llu at=%ld", what, idx, (unsigned long long) n, at);
}
/* check the canaries of and release every live block */
static void E(sw_t *sw) {
    int i; size_t k;
    for (i = 0; i < sw->nblk; i++) {
        blk_t *b = &sw->blk[i];
        if (sw->kind == 'h') {
            if (M_ASAN) {
                M_UNPOISON(b->base, b->total);
            } else {
                unsigned char *end = b->p + b->n;
                for (k = 0; k < SLACK + sw->off; k++) if (b->base[k] != CANARY) { note_bad(sw, "before", i, b->n, (long) k - (long) (SLACK + sw->off)); break; }
                for (k = 0; k < SLACK; k++) if (end[k] != CANARY) { note_bad(sw, "after", i, b->n, (long) k); break; }
            }
            free(b->base);
        } else {
            M_UNPOISON(b->data, b->cap);
            if (sw->kind == 'e') {
                for (k = 0; k < SLACK; k++) if (b->p[(long) k - (long) SLACK] != CANARY) { note_bad(sw, "before", i, b->n, (long) k - (long) SLACK); break; }
            } else {
                for (k = 0; k < SLACK; k++) if (b->p[b->n + k] != CANARY) { note_bad(sw, "after", i, b->n, (long) k); break; }
            }
            if (b->map != NULL) munmap(b->map, b->maplen);
        }
    }
    sw->nblk = 0;
}

static void D(sw_t *sw, const void *p, size_t n) {
    uint64_t l = (uint64_t) n;
    sw->dig = fnv_bytes(sw->dig, &l, 8);
    if (n) sw->dig = fnv_bytes(sw->dig, p, n);
}
static void DI(sw_t *sw, long long v) { int64_t x = (int64_t) v; sw->dig = fnv_bytes(sw->dig, &x, 8); }
#define CALL(sw, e) ((sw)->calls++, (e))
/* flip one pseudo-random bit of a non-empty buffer */
static void flip(sw_t *sw, unsigned char *p, size_t n) { if (n) { uint64_t r = R(sw); p[(size_t) ((r >> 8) % n)] ^= (unsigned char) (1u << (r & 7)); } }

/* ------------------------------------------------------------------ stream */

typedef int (*stream_fn)(unsigned char *, unsigned long long, const unsigned char *, const unsigned char *);
typedef int (*xor_fn)(unsigned char *, const unsigned char *, unsigned long long, const unsigned char *, const unsigned char *);
typedef int (*xic_fn)(unsigned char *, const unsigned char *, unsigned long long, const unsigned char *, uint64_t, const unsigned char *);
static int ietf_xic(unsigned char *c, const unsigned char *m, unsigned long long l, const unsigned char *n, uint64_t ic, const unsigned char *k) {
    return crypto_stream_chacha20_ietf_xor_ic(c, m, l, n, (uint32_t) ic, k);
}
static const struct { const char *name; size_t nb; stream_fn s; xor_fn x; xic_fn xi; int ietf; } STREAMS[] = {
    { "chacha20", 8, crypto_stream_chacha20, crypto_stream_chacha20_xor, crypto_stream_chacha20_xor_ic, 0 },
    { "chacha20_ietf", 12, crypto_stream_chacha20_ietf, crypto_stream_chacha20_ietf_xor, ietf_xic, 1 },
    { "xchacha20", 24, crypto_stream_xchacha20, crypto_stream_xchacha20_xor, crypto_stream_xchacha20_xor_ic, 0 },
    { "salsa20", 8, crypto_stream_salsa20, crypto_stream_salsa20_xor, crypto_stream_salsa20_xor_ic, 0 },
    { "salsa2012", 8, crypto_stream_salsa2012, crypto_stream_salsa2012_xor, NULL, 0 },
    { "salsa208", 8, crypto_stream_salsa208, crypto_stream_salsa208_xor, NULL, 0 },
    { "xsalsa20", 24, crypto_stream_xsalsa20, crypto_stream_xsalsa20_xor, crypto_stream_xsalsa20_xor_ic, 0 },
};
static void fam_stream(sw_t *sw, size_t len) {
    size_t i;
    for (i = 0; i < sizeof STREAMS / sizeof STREAMS[0]; i++) {
        unsigned char *k = AR(sw, 32), *n = AR(sw, STREAMS[i].nb), *c, *m, *c2, *m2;
        uint64_t blocks = ((uint64_t) len + 63) / 64;
        c = A(sw, len);
        DI(sw, CALL(sw, STREAMS[i].s(c, len, n, k))); D(sw, c, len);
        m = AR(sw, len); c2 = A(sw, len);
        DI(sw, CALL(sw, STREAMS[i].x(c2, m, len, n, k))); D(sw, c2, len);
        m2 = AC(sw, m, len);                                     /* in place */
        DI(sw, CALL(sw, STREAMS[i].x(m2, m2, len, n, k))); D(sw, m2, len);
        if (STREAMS[i].xi != NULL) {
            uint64_t ics[3]; int j;
            ics[0] = R(sw) % 1000;
            ics[1] = STREAMS[i].ietf ? (0x100000000ULL - blocks) & 0xffffffffULL : 0xffffffffULL - (R(sw) % 3);   /* last admissible IETF counter / carry into the high word */
            if (STREAMS[i].ietf && blocks == 0) ics[1] = 0xffffffffULL;
            ics[2] = STREAMS[i].ietf ? 1 : 0xffffffffffffffffULL - (R(sw) % 3);                                     /* 64-bit counter wrap */
            for (j = 0; j < 3; j++) {
                unsigned char *c3 = A(sw, len);
                DI(sw, CALL(sw, STREAMS[i].xi(c3, m, len, n, ics[j], k))); D(sw, c3, len);
            }
        }
        if (len == 0) {
            DI(sw, CALL(sw, STREAMS[i].s(NULL, 0, n, k)));
            DI(sw, CALL(sw, STREAMS[i].x(NULL, NULL, 0, n, k)));
        }
        E(sw);
    }
}

/* ------------------------------------------------------------------ aead */

typedef struct {
    const char *name; size_t kb, nb, ab;
    int (*enc)(unsigned char *, unsigned long long *, const unsigned char *, unsigned long long, const unsigned char *, unsigned long long, const unsigned char *, const unsigned char *, const unsigned char *);
    int (*dec)(unsigned char *, unsigned long long *, unsigned char *, const unsigned char *, unsigned long long, const unsigned char *, unsigned long long, const unsigned char *, const unsigned char *);
    int (*encd)(unsigned char *, unsigned char *, unsigned long long *, const unsigned char *, unsigned long long, const unsigned char *, unsigned long long, const unsigned char *, const unsigned char *, const unsigned char *);
    int (*decd)(unsigned char *, unsigned char *, const unsigned char *, unsigned long long, const unsigned char *, const unsigned char *, unsigned long long, const unsigned char *, const unsigned char *);
} aead_t;
#define AEAD(N, P) { N, P##_KEYBYTES, P##_NPUBBYTES, P##_ABYTES, P##_encrypt, P##_decrypt, P##_encrypt_detached, P##_decrypt_detached }
static const aead_t AEADS[] = {
    AEAD("chacha20poly1305", crypto_aead_chacha20poly1305),
    AEAD("chacha20poly1305_ietf", crypto_aead_chacha20poly1305_ietf),
    AEAD("xchacha20poly1305_ietf", crypto_aead_xchacha20poly1305_ietf),
    AEAD("aegis128l", crypto_aead_aegis128l),
    AEAD("aegis256", crypto_aead_aegis256),
};
static const aead_t AESGCM = AEAD("aes256gcm", crypto_aead_aes256gcm);

static void aead_one(sw_t *sw, const aead_t *a, size_t len) {
    int round;
    for (round = 0; round < 2; round++) {
        size_t adlen = round == 0 ? (size_t) (R(sw) % 150) : 0;
        unsigned char *k = AR(sw, a->kb), *n = AR(sw, a->nb);
        unsigned char *m = (len == 0 && round == 1) ? NULL : AR(sw, len);
        unsigned char *ad = (adlen == 0 && round == 1) ? NULL : AR(sw, adlen);
        unsigned char *c = A(sw, len + a->ab), *m2 = A(sw, len), *c3, *m3, *cs, *m0, *c4, *mac, *m4, *mac2;
        unsigned long long clen = 12345, mlen = 12345, maclen = 12345; size_t sl;
        DI(sw, CALL(sw, a->enc(c, &clen, m, len, ad, adlen, NULL, n, k))); DI(sw, (long long) clen); D(sw, c, len + a->ab);
        DI(sw, CALL(sw, a->dec(m2, &mlen, NULL, c, len + a->ab, ad, adlen, n, k))); DI(sw, (long long) mlen); D(sw, m2, len);
        c3 = AC(sw, c, len + a->ab); flip(sw, c3, len + a->ab); m3 = A(sw, len); mlen = 777;        /* forged ciphertext or tag */
        DI(sw, CALL(sw, a->dec(m3, &mlen, NULL, c3, len + a->ab, ad, adlen, n, k))); DI(sw, (long long) mlen);
        sl = (size_t) (R(sw) % a->ab); cs = AR(sw, sl); m0 = A(sw, 0); mlen = 777;                    /* shorter than a tag */
        DI(sw, CALL(sw, a->dec(m0, &mlen, NULL, cs, sl, ad, adlen, n, k))); DI(sw, (long long) mlen);
        c4 = A(sw, len); mac = A(sw, a->ab);
        DI(sw, CALL(sw, a->encd(c4, mac, &maclen, m, len, ad, adlen, NULL, n, k))); DI(sw, (long long) maclen); D(sw, c4, len); D(sw, mac, a->ab);
        m4 = A(sw, len);
        DI(sw, CALL(sw, a->decd(m4, NULL, c4, len, mac, ad, adlen, n, k))); D(sw, m4, len);
        mac2 = AC(sw, mac, a->ab); flip(sw, mac2, a->ab);
        DI(sw, CALL(sw, a->decd(m4, NULL, c4, len, mac2, ad, adlen, n, k)));
        /* verification-only call forms (m == NULL) and optional length pointers == NULL: genuine, forged and short inputs */
        DI(sw, CALL(sw, a->dec(NULL, NULL, NULL, c, len + a->ab, ad, adlen, n, k)));
        mlen = 777; DI(sw, CALL(sw, a->dec(NULL, &mlen, NULL, c3, len + a->ab, ad, adlen, n, k))); DI(sw, (long long) mlen);
        DI(sw, CALL(sw, a->dec(NULL, NULL, NULL, cs, sl, ad, adlen, n, k)));
        DI(sw, CALL(sw, a->decd(NULL, NULL, c4, len, mac, ad, adlen, n, k)));
        DI(sw, CALL(sw, a->decd(NULL, NULL, c4, len, mac2, ad, adlen, n, k)));
        DI(sw, CALL(sw, a->enc(c, NULL, m, len, ad, adlen, NULL, n, k))); D(sw, c, len + a->ab);
        DI(sw, CALL(sw, a->encd(c4, mac, NULL, m, len, ad, adlen, NULL, n, k))); D(sw, c4, len); D(sw, mac, a->ab);
        E(sw);
    }
}
static void fam_aead(sw_t *sw, size_t len) { size_t i; for (i = 0; i < sizeof AEADS / sizeof AEADS[0]; i++) aead_one(sw, &AEADS[i], len); }
static void fam_aesgcm(sw_t *sw, size_t len) {
    unsigned char *k, *n, *m, *ad, *c, *m2, *mac; crypto_aead_aes256gcm_state *st; void *stp = NULL; size_t adlen = (size_t) (R(sw) % 90);
    aead_one(sw, &AESGCM, len);
    /* precomputed-key interface */
    if (posix_memalign(&stp, 16, sizeof *st) != 0) sw_die("memalign");
    st = (crypto_aead_aes256gcm_state *) stp;
    k = AR(sw, 32); n = AR(sw, 12); m = AR(sw, len); ad = AR(sw, adlen); c = A(sw, len + 16); m2 = A(sw, len); mac = A(sw, 16);
    DI(sw, CALL(sw, crypto_aead_aes256gcm_beforenm(st, k)));
    { unsigned long long clen = 1, mlen = 1, maclen = 1;
      DI(sw, CALL(sw, crypto_aead_aes256gcm_encrypt_afternm(c, &clen, m, len, ad, adlen, NULL, n, st))); D(sw, c, len + 16);
      DI(sw, CALL(sw, crypto_aead_aes256gcm_decrypt_afternm(m2, &mlen, NULL, c, len + 16, ad, adlen, n, st))); D(sw, m2, len);
      DI(sw, CALL(sw, crypto_aead_aes256gcm_encrypt_detached_afternm(c, mac, &maclen, m, len, ad, adlen, NULL, n, st))); D(sw, c, len); D(sw, mac, 16);
      DI(sw, CALL(sw, crypto_aead_aes256gcm_decrypt_detached_afternm(m2, NULL, c, len, mac, ad, adlen, n, st))); D(sw, m2, len); }
    E(sw); free(stp);
}

/* ------------------------------------------------------------------ secretbox / box */

static unsigned char BOX_PK[2][32], BOX_SK[2][32], XBOX_PK[2][32], XBOX_SK[2][32];
static void box_keys(void) {
    static int done; unsigned char seed[32]; int i;
    if (done) return;
    for (i = 0; i < 2; i++) {
        memset(seed, 0x40 + i, sizeof seed);
        crypto_box_seed_keypair(BOX_PK[i], BOX_SK[i], seed);
        crypto_box_curve25519xchacha20poly1305_seed_keypair(XBOX_PK[i], XBOX_SK[i], seed);
    }
    done = 1;
}
typedef int (*sb_easy_fn)(unsigned char *, const unsigned char *, unsigned long long, const unsigned char *, const unsigned char *);
typedef int (*sb_det_fn)(unsigned char *, unsigned char *, const unsigned char *, unsigned long long, const unsigned char *, const unsigned char *);
typedef int (*sb_odet_fn)(unsigned char *, const unsigned char *, const unsigned char *, unsigned long long, const unsigned char *, const unsigned char *);
static void sb_one(sw_t *sw, size_t len, sb_easy_fn easy, sb_easy_fn open_easy, sb_det_fn det, sb_odet_fn odet, const unsigned char *key) {
    unsigned char *k = key ? AC(sw, key, 32) : AR(sw, 32), *n = AR(sw, 24), *m = (len == 0 && (R(sw) & 1)) ? NULL : AR(sw, len);
    unsigned char *c = A(sw, len + 16), *m2 = A(sw, len), *c3, *cs, *c4, *mac; size_t sl;
    DI(sw, CALL(sw, easy(c, m, len, n, k))); D(sw, c, len + 16);
    DI(sw, CALL(sw, open_easy(m2, c, len + 16, n, k))); D(sw, m2, len);
    c3 = AC(sw, c, len + 16); flip(sw, c3, len + 16);
    DI(sw, CALL(sw, open_easy(m2, c3, len + 16, n, k)));
    sl = (size_t) (R(sw) % 16); cs = AR(sw, sl);
    DI(sw, CALL(sw, open_easy(m2, cs, sl, n, k)));
    if (det != NULL) {
        c4 = A(sw, len); mac = A(sw, 16);
        DI(sw, CALL(sw, det(c4, mac, m, len, n, k))); D(sw, c4, len); D(sw, mac, 16);
        DI(sw, CALL(sw, odet(m2, c4, mac, len, n, k))); D(sw, m2, len);
        flip(sw, mac, 16);
        DI(sw, CALL(sw, odet(m2, c4, mac, len, n, k)));
    }
    E(sw);
}
static void fam_secretbox(sw_t *sw, size_t len) {
    unsigned char *k, *n, *m, *c, *m2, *pk0, *sk0, *pk1, *sk1, *mac, *bk;
    box_keys();
    sb_one(sw, len, crypto_secretbox_easy, crypto_secretbox_open_easy, crypto_secretbox_detached, crypto_secretbox_open_detached, NULL);
    sb_one(sw, len, crypto_secretbox_xchacha20poly1305_easy, crypto_secretbox_xchacha20poly1305_open_easy,
           crypto_secretbox_xchacha20poly1305_detached, crypto_secretbox_xchacha20poly1305_open_detached, NULL);
    /* NaCl forms: 32 zero bytes before the message, 16 before the ciphertext */
    k = AR(sw, 32); n = AR(sw, 24); m = AZ(sw, len + 32); fill_rand(sw, m + 32, len); c = A(sw, len + 32); m2 = A(sw, len + 32);
    DI(sw, CALL(sw, crypto_secretbox(c, m, len + 32, n, k))); D(sw, c, len + 32);
    DI(sw, CALL(sw, crypto_secretbox_open(m2, c, len + 32, n, k))); D(sw, m2, len + 32);
    flip(sw, c + 16, len + 16);
    DI(sw, CALL(sw, crypto_secretbox_open(m2, c, len + 32, n, k)));
    E(sw);
    /* box: precomputed key for every length, the public-key forms (one or two X25519 each) on a quarter of the lengths */
    bk = A(sw, 32); pk1 = AC(sw, BOX_PK[1], 32); sk0 = AC(sw, BOX_SK[0], 32);
    DI(sw, CALL(sw, crypto_box_beforenm(bk, pk1, sk0))); D(sw, bk, 32);
    { unsigned char shared[32]; memcpy(shared, bk, 32); E(sw);
      sb_one(sw, len, crypto_box_easy_afternm, crypto_box_open_easy_afternm, crypto_box_detached_afternm, crypto_box_open_detached_afternm, shared);
      k = AC(sw, shared, 32); n = AR(sw, 24); m = AZ(sw, len + 32); fill_rand(sw, m + 32, len); c = A(sw, len + 32); m2 = A(sw, len + 32);
      DI(sw, CALL(sw, crypto_box_afternm(c, m, len + 32, n, k))); D(sw, c, len + 32);
      DI(sw, CALL(sw, crypto_box_open_afternm(m2, c, len + 32, n, k))); D(sw, m2, len + 32);
      E(sw);
      crypto_box_curve25519xchacha20poly1305_beforenm(shared, XBOX_PK[1], XBOX_SK[0]);
      sb_one(sw, len, crypto_box_curve25519xchacha20poly1305_easy_afternm, crypto_box_curve25519xchacha20poly1305_open_easy_afternm,
             crypto_box_curve25519xchacha20poly1305_detached_afternm, crypto_box_curve25519xchacha20poly1305_open_detached_afternm, shared); }
    if (len % 4 == 0 || len < 40) {
        size_t sl;
        pk0 = AC(sw, BOX_PK[0], 32); sk0 = AC(sw, BOX_SK[0], 32); pk1 = AC(sw, BOX_PK[1], 32); sk1 = AC(sw, BOX_SK[1], 32);
        n = AR(sw, 24); m = AR(sw, len); c = A(sw, len + 16); m2 = A(sw, len); mac = A(sw, 16);
        DI(sw, CALL(sw, crypto_box_easy(c, m, len, n, pk1, sk0))); D(sw, c, len + 16);
        DI(sw, CALL(sw, crypto_box_open_easy(m2, c, len + 16, n, pk0, sk1))); D(sw, m2, len);
        DI(sw, CALL(sw, crypto_box_detached(c, mac, m, len, n, pk1, sk0))); D(sw, c, len); D(sw, mac, 16);
        DI(sw, CALL(sw, crypto_box_open_detached(m2, c, mac, len, n, pk0, sk1))); D(sw, m2, len);
        E(sw);
        /* sealed boxes: ephemeral key is random, so only the round trip is digested */
        pk1 = AC(sw, BOX_PK[1], 32); sk1 = AC(sw, BOX_SK[1], 32); m = AR(sw, len); c = A(sw, len + crypto_box_SEALBYTES); m2 = A(sw, len);
        DI(sw, CALL(sw, crypto_box_seal(c, m, len, pk1)));
        DI(sw, CALL(sw, crypto_box_seal_open(m2, c, len + crypto_box_SEALBYTES, pk1, sk1))); D(sw, m2, len);
        flip(sw, c, len + crypto_box_SEALBYTES);
        DI(sw, CALL(sw, crypto_box_seal_open(m2, c, len + crypto_box_SEALBYTES, pk1, sk1)));
        sl = (size_t) (R(sw) % crypto_box_SEALBYTES);
        { unsigned char *cs = AR(sw, sl); DI(sw, CALL(sw, crypto_box_seal_open(m2, cs, sl, pk1, sk1))); }
        E(sw);
        pk1 = AC(sw, XBOX_PK[1], 32); sk1 = AC(sw, XBOX_SK[1], 32); m = AR(sw, len); c = A(sw, len + crypto_box_curve25519xchacha20poly1305_SEALBYTES); m2 = A(sw, len);
        DI(sw, CALL(sw, crypto_box_curve25519xchacha20poly1305_seal(c, m, len, pk1)));
        DI(sw, CALL(sw, crypto_box_curve25519xchacha20poly1305_seal_open(m2, c, len + crypto_box_curve25519xchacha20poly1305_SEALBYTES, pk1, sk1))); D(sw, m2, len);
        E(sw);
        /* NaCl crypto_box */
        pk0 = AC(sw, BOX_PK[0], 32); sk0 = AC(sw, BOX_SK[0], 32); pk1 = AC(sw, BOX_PK[1], 32); sk1 = AC(sw, BOX_SK[1], 32);
        n = AR(sw, 24); m = AZ(sw, len + 32); fill_rand(sw, m + 32, len); c = A(sw, len + 32); m2 = A(sw, len + 32);
        DI(sw, CALL(sw, crypto_box(c, m, len + 32, n, pk1, sk0))); D(sw, c, len + 32);
        DI(sw, CALL(sw, crypto_box_open(m2, c, len + 32, n, pk0, sk1))); D(sw, m2, len + 32);
        E(sw);
    }
}

/* ------------------------------------------------------------------ hash / MAC */

/* split [0,len) into three chunks, each copied to its own exact-size block */
static void chunks3(sw_t *sw, const unsigned char *m, size_t len, unsigned char *out[3], size_t ol[3]) {
    size_t a = len ? (size_t) (R(sw) % (len + 1)) : 0, b = len ? (size_t) (R(sw) % (len + 1)) : 0, t;
    if (a > b) { t = a; a = b; b = t; }
    ol[0] = a; ol[1] = b - a; ol[2] = len - b;
    out[0] = AC(sw, m, ol[0]); out[1] = AC(sw, m + a, ol[1]); out[2] = AC(sw, m + b, ol[2]);
}
#define HMAC_BLOCK(P, OB) do { \
    size_t kl = (size_t) (R(sw) % 150); unsigned char *hk = AR(sw, kl), *fk = AR(sw, P##_KEYBYTES), *h = A(sw, OB), *h2 = A(sw, OB); P##_state st; \
    DI(sw, CALL(sw, P(h, m, len, fk))); D(sw, h, OB); \
    DI(sw, CALL(sw, P##_verify(h, m, len, fk))); \
    flip(sw, h, OB); DI(sw, CALL(sw, P##_verify(h, m, len, fk))); \
    DI(sw, CALL(sw, P##_init(&st, hk, kl))); \
    for (j = 0; j < 3; j++) DI(sw, CALL(sw, P##_update(&st, ch[j], cl[j]))); \
    DI(sw, CALL(sw, P##_final(&st, h2))); D(sw, h2, OB); \
} while (0)
static void fam_hash(sw_t *sw, size_t len) {
    unsigned char *m = AR(sw, len), *ch[3]; size_t cl[3]; int j;
    chunks3(sw, m, len, ch, cl);
    { unsigned char *h = A(sw, 32), *h2 = A(sw, 32); crypto_hash_sha256_state st;
      DI(sw, CALL(sw, crypto_hash_sha256(h, m, len))); D(sw, h, 32);
      CALL(sw, crypto_hash_sha256_init(&st));
      for (j = 0; j < 3; j++) DI(sw, CALL(sw, crypto_hash_sha256_update(&st, ch[j], cl[j])));
      DI(sw, CALL(sw, crypto_hash_sha256_final(&st, h2))); D(sw, h2, 32); }
    { unsigned char *h = A(sw, 64), *h2 = A(sw, 64), *h3 = A(sw, 64); crypto_hash_sha512_state st;
      DI(sw, CALL(sw, crypto_hash_sha512(h, m, len))); D(sw, h, 64);
      DI(sw, CALL(sw, crypto_hash(h3, m, len))); D(sw, h3, 64);
      CALL(sw, crypto_hash_sha512_init(&st));
      for (j = 0; j < 3; j++) DI(sw, CALL(sw, crypto_hash_sha512_update(&st, ch[j], cl[j])));
      DI(sw, CALL(sw, crypto_hash_sha512_final(&st, h2))); D(sw, h2, 64); }
    if (len == 0) {
        unsigned char *h = A(sw, 64);
        DI(sw, CALL(sw, crypto_hash_sha256(h, NULL, 0))); D(sw, h, 32);
        DI(sw, CALL(sw, crypto_hash_sha512(h, NULL, 0))); D(sw, h, 64);
        DI(sw, CALL(sw, crypto_generichash(h, 64, NULL, 0, NULL, 0))); D(sw, h, 64);
    }
    E(sw);
    m = AR(sw, len); chunks3(sw, m, len, ch, cl);
    {   /* BLAKE2b: every output and key length over a sweep (outlen cycles with len, keylen pseudo-random, both ends forced) */
        size_t ol = 1 + (len % 64), kl = (size_t) (R(sw) % 65), r;
        for (r = 0; r < 3; r++) {
            unsigned char *key, *h, *h2, *salt, *pers; crypto_generichash_state st;
            if (r == 1) { ol = 64; kl = 64; } else if (r == 2) { ol = 1 + (size_t) (R(sw) % 64); kl = 0; }
            key = kl ? AR(sw, kl) : NULL; h = A(sw, ol); h2 = A(sw, ol);
            DI(sw, CALL(sw, crypto_generichash(h, ol, m, len, key, kl))); D(sw, h, ol);
            DI(sw, CALL(sw, crypto_generichash_init(&st, key, kl, ol)));
            for (j = 0; j < 3; j++) DI(sw, CALL(sw, crypto_generichash_update(&st, ch[j], cl[j])));
            DI(sw, CALL(sw, crypto_generichash_final(&st, h2, ol))); D(sw, h2, ol);
            salt = AR(sw, crypto_generichash_blake2b_SALTBYTES); pers = AR(sw, crypto_generichash_blake2b_PERSONALBYTES);
            DI(sw, CALL(sw, crypto_generichash_blake2b_salt_personal(h, ol, m, len, key, kl, salt, pers))); D(sw, h, ol);
            DI(sw, CALL(sw, crypto_generichash_blake2b_salt_personal(h, ol, m, len, key, kl, NULL, NULL))); D(sw, h, ol);
            DI(sw, CALL(sw, crypto_generichash_blake2b_init_salt_personal((crypto_generichash_blake2b_state *) &st, key, kl, ol, salt, pers)));
            for (j = 0; j < 3; j++) DI(sw, CALL(sw, crypto_generichash_blake2b_update((crypto_generichash_blake2b_state *) &st, ch[j], cl[j])));
            DI(sw, CALL(sw, crypto_generichash_blake2b_final((crypto_generichash_blake2b_state *) &st, h2, ol))); D(sw, h2, ol);
        }
    }
    E(sw);
    m = AR(sw, len); chunks3(sw, m, len, ch, cl);
    { unsigned char *k = AR(sw, 16), *h = A(sw, 8), *hx = A(sw, 16);
      DI(sw, CALL(sw, crypto_shorthash(h, m, len, k))); D(sw, h, 8);
      DI(sw, CALL(sw, crypto_shorthash_siphashx24(hx, m, len, k))); D(sw, hx, 16); }
    { unsigned char *k = AR(sw, 32), *t = A(sw, 16), *t2 = A(sw, 16); crypto_onetimeauth_state st;
      DI(sw, CALL(sw, crypto_onetimeauth(t, m, len, k))); D(sw, t, 16);
      DI(sw, CALL(sw, crypto_onetimeauth_verify(t, m, len, k)));
      DI(sw, CALL(sw, crypto_onetimeauth_init(&st, k)));
      for (j = 0; j < 3; j++) DI(sw, CALL(sw, crypto_onetimeauth_update(&st, ch[j], cl[j])));
      DI(sw, CALL(sw, crypto_onetimeauth_final(&st, t2))); D(sw, t2, 16);
      flip(sw, t, 16); DI(sw, CALL(sw, crypto_onetimeauth_verify(t, m, len, k))); }
    E(sw);
    m = AR(sw, len); chunks3(sw, m, len, ch, cl);
    HMAC_BLOCK(crypto_auth_hmacsha256, 32);
    HMAC_BLOCK(crypto_auth_hmacsha512, 64);
    HMAC_BLOCK(crypto_auth_hmacsha512256, 32);
    { unsigned char *k = AR(sw, crypto_auth_KEYBYTES), *h = A(sw, crypto_auth_BYTES);
      DI(sw, CALL(sw, crypto_auth(h, m, len, k))); D(sw, h, crypto_auth_BYTES);
      DI(sw, CALL(sw, crypto_auth_verify(h, m, len, k))); }
    E(sw);
}

/* ------------------------------------------------------------------ secretstream */

static void fam_secretstream(sw_t *sw, size_t len) {
    crypto_secretstream_xchacha20poly1305_state st, st2;
    size_t lens[3], adl[3], i, sl; unsigned char *cs[3], *ads[3], *k = AR(sw, 32), *hdr = A(sw, 24), *cshort;
    unsigned char tags[3] = { crypto_secretstream_xchacha20poly1305_TAG_MESSAGE, crypto_secretstream_xchacha20poly1305_TAG_REKEY, crypto_secretstream_xchacha20poly1305_TAG_FINAL };
    lens[0] = len; lens[1] = len / 2; lens[2] = 0;
    DI(sw, CALL(sw, crypto_secretstream_xchacha20poly1305_init_push(&st, hdr, k)));
    for (i = 0; i < 3; i++) {
        unsigned char *m = (lens[i] == 0 && i == 2) ? NULL : AR(sw, lens[i]); unsigned long long clen = 99;
        adl[i] = i == 2 ? 0 : (size_t) (R(sw) % 40); ads[i] = (adl[i] == 0) ? NULL : AR(sw, adl[i]);
        cs[i] = A(sw, lens[i] + crypto_secretstream_xchacha20poly1305_ABYTES);
        DI(sw, CALL(sw, crypto_secretstream_xchacha20poly1305_push(&st, cs[i], &clen, m, lens[i], ads[i], adl[i], tags[i]))); DI(sw, (long long) clen);
        D(sw, m, lens[i]);
    }
    DI(sw, CALL(sw, crypto_secretstream_xchacha20poly1305_init_pull(&st2, hdr, k)));
    /* a forged and a too-short chunk are refused and leave the state usable */
    { unsigned char *bad = AC(sw, cs[0], lens[0] + 17), *mb = A(sw, lens[0]), tag = 0; unsigned long long ml = 5;
      flip(sw, bad, lens[0] + 17);
      DI(sw, CALL(sw, crypto_secretstream_xchacha20poly1305_pull(&st2, mb, &ml, &tag, bad, lens[0] + 17, ads[0], adl[0]))); DI(sw, (long long) ml); DI(sw, tag);
      sl = (size_t) (R(sw) % 17); cshort = AR(sw, sl);
      DI(sw, CALL(sw, crypto_secretstream_xchacha20poly1305_pull(&st2, mb, &ml, &tag, cshort, sl, NULL, 0))); }
    for (i = 0; i < 3; i++) {
        unsigned char *m2 = A(sw, lens[i]), tag = 0x55; unsigned long long ml = 99;
        DI(sw, CALL(sw, crypto_secretstream_xchacha20poly1305_pull(&st2, m2, &ml, &tag, cs[i], lens[i] + 17, ads[i], adl[i]))); DI(sw, (long long) ml); DI(sw, tag);
        D(sw, m2, lens[i]);
    }
    CALL(sw, crypto_secretstream_xchacha20poly1305_rekey(&st2));
    E(sw);
}

/* ------------------------------------------------------------------ sign */

static void fam_sign(sw_t *sw, size_t len) {
    unsigned char *seed = AR(sw, 32), *pk = A(sw, 32), *sk = A(sw, 64), *m = AR(sw, len), *sm = A(sw, len + 64), *m2 = A(sw, len), *sig = A(sw, 64), *bad, *ch[3], *sig2, *shortsm;
    unsigned long long smlen = 7, mlen = 7, siglen = 7; size_t cl[3], sl; int j; crypto_sign_state st;
    DI(sw, CALL(sw, crypto_sign_seed_keypair(pk, sk, seed))); D(sw, pk, 32); D(sw, sk, 64);
    DI(sw, CALL(sw, crypto_sign(sm, &smlen, m, len, sk))); DI(sw, (long long) smlen); D(sw, sm, len + 64);
    DI(sw, CALL(sw, crypto_sign_open(m2, &mlen, sm, len + 64, pk))); DI(sw, (long long) mlen); D(sw, m2, len);
    bad = AC(sw, sm, len + 64); flip(sw, bad, len + 64); mlen = 7;
    DI(sw, CALL(sw, crypto_sign_open(m2, &mlen, bad, len + 64, pk))); DI(sw, (long long) mlen);
    sl = (size_t) (R(sw) % 64); shortsm = AR(sw, sl);
    DI(sw, CALL(sw, crypto_sign_open(m2, &mlen, shortsm, sl, pk)));
    DI(sw, CALL(sw, crypto_sign_detached(sig, &siglen, m, len, sk))); DI(sw, (long long) siglen); D(sw, sig, 64);
    DI(sw, CALL(sw, crypto_sign_verify_detached(sig, m, len, pk)));
    sig2 = AC(sw, sig, 64); flip(sw, sig2, 64);
    DI(sw, CALL(sw, crypto_sign_verify_detached(sig2, m, len, pk)));
    memset(sig2, 0xff, 64);                                            /* non-canonical S, invalid R */
    DI(sw, CALL(sw, crypto_sign_verify_detached(sig2, m, len, pk)));
    if (len == 0) { DI(sw, CALL(sw, crypto_sign_detached(sig, NULL, NULL, 0, sk))); DI(sw, CALL(sw, crypto_sign_verify_detached(sig, NULL, 0, pk))); }
    chunks3(sw, m, len, ch, cl);
    DI(sw, CALL(sw, crypto_sign_init(&st)));
    for (j = 0; j < 3; j++) DI(sw, CALL(sw, crypto_sign_update(&st, ch[j], cl[j])));
    { crypto_sign_state stv = st, stw = st;
      DI(sw, CALL(sw, crypto_sign_final_create(&st, sig, &siglen, sk))); D(sw, sig, 64);
      DI(sw, CALL(sw, crypto_sign_final_verify(&stv, sig, pk)));
      flip(sw, sig, 64);
      DI(sw, CALL(sw, crypto_sign_final_verify(&stw, sig, pk))); }
    E(sw);
}

/* ------------------------------------------------------------------ codecs */

static const int B64V[4] = { sodium_base64_VARIANT_ORIGINAL, sodium_base64_VARIANT_ORIGINAL_NO_PADDING, sodium_base64_VARIANT_URLSAFE, sodium_base64_VARIANT_URLSAFE_NO_PADDING };
/* copy `txt` (tl bytes, no NUL) inserting characters of `sep` after pseudo-randomly chosen positions */
static unsigned char *with_seps(sw_t *sw, const char *txt, size_t tl, const char *sep, size_t grp, size_t *outl) {
    static unsigned char tmp[8192]; size_t i, o = 0, ns = strlen(sep);
    for (i = 0; i < tl && o + 4 < sizeof tmp; i++) {
        tmp[o++] = (unsigned char) txt[i];
        if ((i + 1) % grp == 0 && (R(sw) & 3) != 0) tmp[o++] = (unsigned char) sep[R(sw) % ns];
    }
    *outl = o;
    return AC(sw, tmp, o);
}
static void fam_codec(sw_t *sw, size_t len) {
    unsigned char *bin = AR(sw, len), *bin2, *mut; char *hex = (char *) A(sw, 2 * len + 1), *ign, *ign2; size_t bl = 99, sl; const char *end = NULL; int v;
    { char *r = CALL(sw, sodium_bin2hex(hex, 2 * len + 1, bin, len)); DI(sw, r == hex); D(sw, hex, 2 * len + 1); }
    bin2 = A(sw, len);
    { unsigned char *hx = AC(sw, hex, 2 * len);                       /* hex_len is given: no terminator in the block */
      DI(sw, CALL(sw, sodium_hex2bin(bin2, len, (const char *) hx, 2 * len, NULL, &bl, &end))); DI(sw, (long long) bl); DI(sw, end - (const char *) hx); D(sw, bin2, len);
      DI(sw, CALL(sw, sodium_hex2bin(bin2, len, (const char *) hx, 2 * len, NULL, NULL, NULL)));
      if (len > 0) {                                                    /* capacity one byte short */
          unsigned char *tight = A(sw, len - 1); bl = 99;
          DI(sw, CALL(sw, sodium_hex2bin(tight, len - 1, (const char *) hx, 2 * len, NULL, &bl, &end))); DI(sw, (long long) bl); DI(sw, end - (const char *) hx); D(sw, tight, len - 1);
          DI(sw, CALL(sw, sodium_hex2bin(tight, len - 1, (const char *) hx, 2 * len - 1, NULL, &bl, NULL)));      /* odd number of digits */
      }
      mut = AC(sw, hex, 2 * len); if (2 * len) mut[R(sw) % (2 * len)] = (unsigned char) R(sw);   /* any byte, including NUL and >= 0x80 */
      bl = 99;
      DI(sw, CALL(sw, sodium_hex2bin(bin2, len, (const char *) mut, 2 * len, NULL, &bl, &end))); DI(sw, (long long) bl); DI(sw, end - (const char *) mut); D(sw, bin2, len);
      ign = AS(sw, ": "); mut = with_seps(sw, hex, 2 * len, ": ", 2, &sl); bl = 99;
      DI(sw, CALL(sw, sodium_hex2bin(bin2, len, (const char *) mut, sl, ign, &bl, &end))); DI(sw, (long long) bl); DI(sw, end - (const char *) mut); D(sw, bin2, len);
      if (sl) mut[R(sw) % sl] = (unsigned char) R(sw);
      DI(sw, CALL(sw, sodium_hex2bin(bin2, len, (const char *) mut, sl, ign, &bl, NULL))); DI(sw, (long long) bl); D(sw, bin2, len); }
    E(sw);
    for (v = 0; v < 4; v++) {
        size_t el = sodium_base64_ENCODED_LEN(len, B64V[v]), tl = el - 1; char *b64, *r; unsigned char *tx;
        bin = AR(sw, len); b64 = (char *) A(sw, el); bin2 = A(sw, len);
        DI(sw, (long long) CALL(sw, sodium_base64_encoded_len(len, B64V[v])));
        r = CALL(sw, sodium_bin2base64(b64, el, bin, len, B64V[v])); DI(sw, r == b64); D(sw, b64, el);
        tx = AC(sw, b64, tl); bl = 99;
        DI(sw, CALL(sw, sodium_base642bin(bin2, len, (const char *) tx, tl, NULL, &bl, &end, B64V[v]))); DI(sw, (long long) bl); DI(sw, end - (const char *) tx); D(sw, bin2, len);
        DI(sw, CALL(sw, sodium_base642bin(bin2, len, (const char *) tx, tl, NULL, NULL, NULL, B64V[v])));
        if (len > 0) {
            unsigned char *tight = A(sw, len - 1); bl = 99;
            DI(sw, CALL(sw, sodium_base642bin(tight, len - 1, (const char *) tx, tl, NULL, &bl, &end, B64V[v]))); DI(sw, (long long) bl); DI(sw, end - (const char *) tx); D(sw, tight, len - 1);
            if (tl > 0) { DI(sw, CALL(sw, sodium_base642bin(bin2, len, (const char *) tx, tl - 1, NULL, &bl, &end, B64V[v]))); DI(sw, (long long) bl); DI(sw, end - (const char *) tx); }   /* truncated text */
        }
        mut = AC(sw, b64, tl);
        if (tl) { size_t pos = (R(sw) & 1) ? (size_t) (R(sw) % tl) : tl - 1 - (size_t) (R(sw) % (tl < 4 ? tl : 4)); mut[pos] = (R(sw) & 1) ? (unsigned char) R(sw) : (unsigned char) "=AZaz09+/-_ \n"[R(sw) % 13]; }
        bl = 99;
        DI(sw, CALL(sw, sodium_base642bin(bin2, len, (const char *) mut, tl, NULL, &bl, &end, B64V[v]))); DI(sw, (long long) bl); DI(sw, end - (const char *) mut); D(sw, bin2, len);
        ign2 = AS(sw, " \r\n"); mut = with_seps(sw, b64, tl, " \r\n", 1 + (size_t) (R(sw) % 5), &sl); bl = 99;
        DI(sw, CALL(sw, sodium_base642bin(bin2, len, (const char *) mut, sl, ign2, &bl, &end, B64V[v]))); DI(sw, (long long) bl); DI(sw, end - (const char *) mut); D(sw, bin2, len);
        if (sl) mut[R(sw) % sl] = (unsigned char) R(sw);
        DI(sw, CALL(sw, sodium_base642bin(bin2, len, (const char *) mut, sl, ign2, &bl, NULL, B64V[v]))); DI(sw, (long long) bl); D(sw, bin2, len);
        /* the padding region: every way of dropping '=' characters and mixing ignored characters into / after the padding,
           in an exact-size block (b64_len is given; nothing after the block may be read) */
        if (tl > 0 && b64[tl - 1] == '=') {
            size_t npad = (tl > 1 && b64[tl - 2] == '=') ? 2 : 1, body = tl - npad, keep, j, form;
            for (keep = 0; keep <= npad; keep++) for (j = 0; j <= 3; j++) for (form = 0; form < 3; form++) {
                unsigned char tmp2[8200]; size_t o = 0, q;
                if (body + 8 > sizeof tmp2) break;
                memcpy(tmp2, b64, body); o = body;
                if (form == 0) { for (q = 0; q < keep; q++) tmp2[o++] = '='; for (q = 0; q < j; q++) tmp2[o++] = (unsigned char) " \r\n"[q % 3]; }          /* pads then ignored */
                else if (form == 1) { for (q = 0; q < j; q++) tmp2[o++] = (unsigned char) "\n \r"[q % 3]; for (q = 0; q < keep; q++) tmp2[o++] = '='; }     /* ignored then pads */
                else { for (q = 0; q < keep; q++) { tmp2[o++] = '='; if (q < j) tmp2[o++] = '\n'; } }                                                    /* interleaved */
                mut = AC(sw, tmp2, o); bl = 99;
                DI(sw, CALL(sw, sodium_base642bin(bin2, len, (const char *) mut, o, ign2, &bl, &end, B64V[v]))); DI(sw, (long long) bl); DI(sw, end - (const char *) mut);
                DI(sw, CALL(sw, sodium_base642bin(bin2, len, (const char *) mut, o, ign2, &bl, NULL, B64V[v]))); DI(sw, (long long) bl);
            }
        }
        /* the other alphabet's text under this variant */
        DI(sw, CALL(sw, sodium_base642bin(bin2, len, (const char *) tx, tl, NULL, &bl, &end, B64V[(v + 2) % 4]))); DI(sw, (long long) bl); DI(sw, end - (const char *) tx);
        E(sw);
    }
}

/* ------------------------------------------------------------------ pad / unpad */

static void fam_pad(sw_t *sw, size_t len) {
    static const size_t extra[] = { 64, 128, 256, 512, 1024, 4096, 100, 255 };
    size_t t;
    for (t = 0; t < 40 + sizeof extra / sizeof extra[0]; t++) {
        size_t bs = t < 40 ? t + 1 : extra[t - 40], padded = len + bs - len % bs, pl = 99, ul = 99;
        unsigned char *buf = A(sw, padded), *small, *rnd;
        fill_rand(sw, buf, len);
        DI(sw, CALL(sw, sodium_pad(&pl, buf, len, bs, padded))); DI(sw, (long long) pl); D(sw, buf, padded);
        DI(sw, CALL(sw, sodium_unpad(&ul, buf, padded, bs))); DI(sw, (long long) ul);
        DI(sw, CALL(sw, sodium_pad(NULL, buf, len, bs, padded)));
        small = AC(sw, buf, padded - 1); pl = 99;                       /* capacity one byte short */
        DI(sw, CALL(sw, sodium_pad(&pl, small, len, bs, padded - 1))); DI(sw, (long long) pl); D(sw, small, padded - 1);
        rnd = A(sw, padded);                                            /* arbitrary final block: mostly zeros, sometimes a marker */
        { size_t i; for (i = 0; i < padded; i++) { uint64_t r = R(sw) & 7; rnd[i] = r < 5 ? 0 : r == 5 ? 0x80 : (unsigned char) R(sw); } }
        ul = 99; DI(sw, CALL(sw, sodium_unpad(&ul, rnd, padded, bs))); DI(sw, (long long) ul);
        if (len < bs) { unsigned char *tiny = AR(sw, len); ul = 99; DI(sw, CALL(sw, sodium_unpad(&ul, tiny, len, bs))); DI(sw, (long long) ul); }
        E(sw);
    }
}

/* ------------------------------------------------------------------ utils */

static void fam_utils(sw_t *sw, size_t len) {
    unsigned char *a = AR(sw, len), *b = AC(sw, a, len), *c = AR(sw, len), *z = AZ(sw, len), *x;
    DI(sw, CALL(sw, sodium_memcmp(a, b, len))); DI(sw, CALL(sw, sodium_memcmp(a, c, len)));
    DI(sw, CALL(sw, sodium_compare(a, b, len))); DI(sw, CALL(sw, sodium_compare(a, c, len))); DI(sw, CALL(sw, sodium_compare(c, a, len)));
    DI(sw, CALL(sw, sodium_is_zero(z, len))); DI(sw, CALL(sw, sodium_is_zero(a, len)));
    if (len) { z[R(sw) % len] = 1; DI(sw, CALL(sw, sodium_is_zero(z, len))); }
    x = AC(sw, a, len); CALL(sw, sodium_increment(x, len)); D(sw, x, len);
    memset(x, 0xff, len); CALL(sw, sodium_increment(x, len)); D(sw, x, len);
    x = AC(sw, a, len); CALL(sw, sodium_add(x, c, len)); D(sw, x, len);
    CALL(sw, sodium_sub(x, c, len)); D(sw, x, len);
    CALL(sw, sodium_memzero(x, len)); D(sw, x, len);
    if (len == 0) { DI(sw, CALL(sw, sodium_memcmp(NULL, NULL, 0))); DI(sw, CALL(sw, sodium_is_zero(NULL, 0))); CALL(sw, sodium_memzero(NULL, 0)); }
    E(sw);
    { unsigned char *p = AR(sw, 64), *q = AC(sw, p, 64), *p2, *q2, *p3, *q3;
      DI(sw, CALL(sw, crypto_verify_64(p, q))); flip(sw, q, 64); DI(sw, CALL(sw, crypto_verify_64(p, q)));
      p2 = AR(sw, 32); q2 = AC(sw, p2, 32); DI(sw, CALL(sw, crypto_verify_32(p2, q2))); flip(sw, q2, 32); DI(sw, CALL(sw, crypto_verify_32(p2, q2)));
      p3 = AR(sw, 16); q3 = AC(sw, p3, 16); DI(sw, CALL(sw, crypto_verify_16(p3, q3))); flip(sw, q3, 16); DI(sw, CALL(sw, crypto_verify_16(p3, q3))); }
    { unsigned char *seed = AR(sw, randombytes_SEEDBYTES), *out = A(sw, len);
      CALL(sw, randombytes_buf_deterministic(out, len, seed)); D(sw, out, len);
      out = A(sw, len); CALL(sw, randombytes_buf(out, len)); }
    E(sw);
}

/* ------------------------------------------------------------------ KDFs: len = output length */

#define HKDF_BLOCK(P, HB) do { \
    size_t sl = (size_t) (R(sw) % 90), il = (size_t) (R(sw) % 200), cl2 = (size_t) (R(sw) % 100); \
    unsigned char *salt = (sl == 0) ? NULL : AR(sw, sl), *ikm = AR(sw, il), *ctx = (cl2 == 0 && (len & 1)) ? NULL : AR(sw, cl2), *prk = A(sw, HB), *prk2 = A(sw, HB), *ch[3]; size_t cl[3]; int j; P##_state st; \
    DI(sw, CALL(sw, P##_extract(prk, salt, sl, ikm, il))); D(sw, prk, HB); \
    chunks3(sw, ikm, il, ch, cl); \
    DI(sw, CALL(sw, P##_extract_init(&st, salt, sl))); \
    for (j = 0; j < 3; j++) DI(sw, CALL(sw, P##_extract_update(&st, ch[j], cl[j]))); \
    DI(sw, CALL(sw, P##_extract_final(&st, prk2))); D(sw, prk2, HB); \
    if (len <= P##_BYTES_MAX) { unsigned char *out = A(sw, len); DI(sw, CALL(sw, P##_expand(out, len, (const char *) ctx, cl2, prk))); D(sw, out, len); } \
    E(sw); \
} while (0)
static void fam_kdf(sw_t *sw, size_t len) {
    HKDF_BLOCK(crypto_kdf_hkdf_sha256, 32);
    HKDF_BLOCK(crypto_kdf_hkdf_sha512, 64);
    { size_t sl = 16 + len % 49; unsigned char *sub = A(sw, sl), *key = AR(sw, 32); char *ctx = (char *) AR(sw, 8);
      DI(sw, CALL(sw, crypto_kdf_derive_from_key(sub, sl, R(sw), ctx, key))); D(sw, sub, sl);
      DI(sw, CALL(sw, crypto_kdf_blake2b_derive_from_key(sub, sl, R(sw), ctx, key))); D(sw, sub, sl);
      E(sw); }
}

/* ------------------------------------------------------------------ password-hash strings */

static uint64_t det_state;
static const char *det_name(void) { return "c12-deterministic"; }
static uint32_t det_random(void) { det_state = det_state * 6364136223846793005ULL + 1442695040888963407ULL; return (uint32_t) (det_state >> 32); }
static void det_buf(void *const buf, const size_t size) { size_t i; for (i = 0; i < size; i++) ((unsigned char *) buf)[i] = (unsigned char) (det_random() >> 8); }
static randombytes_implementation det_impl = { det_name, det_random, NULL, NULL, det_buf, NULL };

static char PW_ID[crypto_pwhash_STRBYTES], PW_I[crypto_pwhash_argon2i_STRBYTES], PW_SC[crypto_pwhash_scryptsalsa208sha256_STRBYTES];
static const char PW_PASS[] = "correct horse battery staple";
/* valid strings with the minimal limits, produced once with a deterministic salt source (restored afterwards) */
static void pw_strings(void) {
    static int done; int internal;
    if (done) return;
    internal = strcmp(randombytes_implementation_name(), "internal") == 0;
    det_state = 0x1234567;
    randombytes_set_implementation(&det_impl);
    if (crypto_pwhash_str(PW_ID, PW_PASS, sizeof PW_PASS - 1, crypto_pwhash_OPSLIMIT_MIN, crypto_pwhash_MEMLIMIT_MIN) != 0 ||
        crypto_pwhash_argon2i_str(PW_I, PW_PASS, sizeof PW_PASS - 1, crypto_pwhash_argon2i_OPSLIMIT_MIN, crypto_pwhash_argon2i_MEMLIMIT_MIN) != 0 ||
        crypto_pwhash_scryptsalsa208sha256_str(PW_SC, PW_PASS, sizeof PW_PASS - 1, crypto_pwhash_scryptsalsa208sha256_OPSLIMIT_MIN, crypto_pwhash_scryptsalsa208sha256_MEMLIMIT_MIN) != 0)
        sw_die("cannot create password hash strings");
    randombytes_set_implementation(internal ? &randombytes_internal_implementation : &randombytes_sysrandom_implementation);
    done = 1;
}
static const char PRINTABLE[] = "$,=0123456789abcdefXYZ+/.-_ vmtp";
/* variant `var` of the valid string `s` for index `len`; `scrypt`: cost parameters may only become invalid or stay small */
static void pw_variant(sw_t *sw, const char *s, size_t len, int var, int scrypt, char *out, size_t cap) {
    size_t L = strlen(s), i, pos;
    memcpy(out, s, L + 1);
    switch (var) {
    case 0:                                             /* truncation */
        out[len <= L ? len : L] = 0; break;
    case 1: case 2: {                                   /* one character replaced */
        char c;
        pos = (len + (var == 2 ? (size_t) (R(sw) % L) : 0)) % L;
        do { c = (var == 1) ? PRINTABLE[R(sw) % (sizeof PRINTABLE - 1)] : (char) (1 + R(sw) % 255); } while (c == s[pos]);
        if (scrypt && pos >= 3 && pos <= 13) {
            const char *ok = pos == 3 ? "./0123456789$!" : pos == 4 ? "./0123456$!" : pos == 9 ? "./01$!" : ".$! =";
            size_t tries = 0;
            do { c = ok[R(sw) % strlen(ok)]; } while (c == s[pos] && ++tries < 50);
        }
        out[pos] = c; break; }
    case 3: {                                           /* junk appended */
        size_t extra = 1 + len % 37;
        for (i = 0; i < extra && L + i + 1 < cap; i++) out[L + i] = PRINTABLE[R(sw) % (sizeof PRINTABLE - 1)];
        out[L + i] = 0; break; }
    case 4: {                                           /* one character inserted into the salt / hash part */
        const char *last = strrchr(s, '$'); size_t from = last ? (size_t) (last - s) : 0;
        if (scrypt && from < 14) from = 14;
        if (!scrypt) { const char *q = s + from; while (q > s && q[-1] != '$') q--; if (q > s) { q--; while (q > s && q[-1] != '$') q--; from = (size_t) (q - s); } }
        pos = from + (len % (L - from + 1));
        memmove(out + pos + 1, s + pos, L - pos + 1);
        out[pos] = "Aa0+/.$="[R(sw) % 8]; break; }
    default: break;
    }
}
static void fam_pwhash(sw_t *sw, size_t len) {
    char tmp[400]; int var, which;
    pw_strings();
    for (which = 0; which < 3; which++) {
        const char *s = which == 0 ? PW_ID : which == 1 ? PW_I : PW_SC;
        for (var = 0; var < 5; var++) {
            char *str, *pw; size_t pl = (R(sw) & 3) ? sizeof PW_PASS - 1 : (size_t) (R(sw) % 30);
            if (var == 0 && len > strlen(s)) continue;
            pw_variant(sw, s, len, var, which == 2, tmp, sizeof tmp);
            str = AS(sw, tmp); pw = (char *) AC(sw, PW_PASS, pl);
            if (which < 2) {
                DI(sw, CALL(sw, crypto_pwhash_str_verify(str, pw, pl)));
                DI(sw, CALL(sw, crypto_pwhash_str_needs_rehash(str, crypto_pwhash_OPSLIMIT_MIN, crypto_pwhash_MEMLIMIT_MIN)));
                if (which == 0) {
                    DI(sw, CALL(sw, crypto_pwhash_argon2id_str_verify(str, pw, pl)));
                    DI(sw, CALL(sw, crypto_pwhash_argon2id_str_needs_rehash(str, 2, 16384)));
                } else {
                    DI(sw, CALL(sw, crypto_pwhash_argon2i_str_verify(str, pw, pl)));
                    DI(sw, CALL(sw, crypto_pwhash_argon2i_str_needs_rehash(str, 3, 8192)));
                }
            } else {
                DI(sw, CALL(sw, crypto_pwhash_scryptsalsa208sha256_str_verify(str, pw, pl)));
                DI(sw, CALL(sw, crypto_pwhash_scryptsalsa208sha256_str_needs_rehash(str, crypto_pwhash_scryptsalsa208sha256_OPSLIMIT_MIN, crypto_pwhash_scryptsalsa208sha256_MEMLIMIT_MIN)));
            }
            E(sw);
        }
    }
}

/* ------------------------------------------------------------------ password hashing: len = OUTPUT length of the raw key derivation
   (every out buffer has exactly `len` bytes; the password / salt blocks are exact-size too; cheapest cost parameters);
   the string forms write into exactly STRBYTES, salt drawn from a deterministic source seeded from the sweep generator */

static int det_internal;
static void det_begin(sw_t *sw) {
    det_internal = strcmp(randombytes_implementation_name(), "internal") == 0;
    det_state = R(sw);
    randombytes_set_implementation(&det_impl);
}
static void det_end(void) { randombytes_set_implementation(det_internal ? &randombytes_internal_implementation : &randombytes_sysrandom_implementation); }

static void fam_pwout(sw_t *sw, size_t len) {
    size_t pl = (len % 5 == 0) ? 0 : (size_t) (R(sw) % 70);
    {   /* scrypt, low-level entry: any buflen (incl. 0 and non-multiples of the 32-byte PBKDF2 block), any salt length */
        size_t sl = (len % 7 == 0) ? 0 : (size_t) (R(sw) % 70);
        unsigned char *pw = AR(sw, pl), *salt = AR(sw, sl), *out = A(sw, len), *out2 = A(sw, len);
        uint64_t N = 2ULL << (R(sw) % 4); uint32_t r = 1 + (uint32_t) (R(sw) % 3), p = 1 + (uint32_t) (R(sw) % 3);
        DI(sw, CALL(sw, crypto_pwhash_scryptsalsa208sha256_ll(pw, pl, salt, sl, 2, 1, 1, out, len))); D(sw, out, len);
        DI(sw, CALL(sw, crypto_pwhash_scryptsalsa208sha256_ll(pw, pl, salt, sl, N, r, p, out2, len))); D(sw, out2, len);
        E(sw); }
    if (len >= crypto_pwhash_BYTES_MIN) {
        char *pw = (char *) AR(sw, pl); unsigned char *salt = AR(sw, crypto_pwhash_SALTBYTES), *salt32 = AR(sw, crypto_pwhash_scryptsalsa208sha256_SALTBYTES), *out;
        out = A(sw, len);
        DI(sw, CALL(sw, crypto_pwhash(out, len, pw, pl, salt, crypto_pwhash_OPSLIMIT_MIN, crypto_pwhash_MEMLIMIT_MIN, crypto_pwhash_ALG_ARGON2ID13))); D(sw, out, len);
        out = A(sw, len);
        DI(sw, CALL(sw, crypto_pwhash(out, len, pw, pl, salt, crypto_pwhash_argon2i_OPSLIMIT_MIN, crypto_pwhash_MEMLIMIT_MIN, crypto_pwhash_ALG_ARGON2I13))); D(sw, out, len);
        out = A(sw, len);
        DI(sw, CALL(sw, crypto_pwhash_argon2id(out, len, pw, pl, salt, crypto_pwhash_argon2id_OPSLIMIT_MIN, crypto_pwhash_argon2id_MEMLIMIT_MIN, crypto_pwhash_argon2id_ALG_ARGON2ID13))); D(sw, out, len);
        out = A(sw, len);                                                   /* more lanes' worth of memory, two passes */
        DI(sw, CALL(sw, crypto_pwhash_argon2id(out, len, pw, pl, salt, 2, 8192 + 1024 * (size_t) (R(sw) % 25), crypto_pwhash_argon2id_ALG_ARGON2ID13))); D(sw, out, len);
        out = A(sw, len);
        DI(sw, CALL(sw, crypto_pwhash_argon2i(out, len, pw, pl, salt, crypto_pwhash_argon2i_OPSLIMIT_MIN, crypto_pwhash_argon2i_MEMLIMIT_MIN, crypto_pwhash_argon2i_ALG_ARGON2I13))); D(sw, out, len);
        out = A(sw, len);                                                   /* scrypt, high-level entry, minimum limits (N = 2^10, r = 8, p = 1) */
        DI(sw, CALL(sw, crypto_pwhash_scryptsalsa208sha256(out, len, pw, pl, salt32, crypto_pwhash_scryptsalsa208sha256_OPSLIMIT_MIN, crypto_pwhash_scryptsalsa208sha256_MEMLIMIT_MIN))); D(sw, out, len);
        E(sw);
    }
    {   /* string forms: len = password length */
        char *pw = (char *) AR(sw, len), *s;
        det_begin(sw);
        s = (char *) A(sw, crypto_pwhash_STRBYTES);
        DI(sw, CALL(sw, crypto_pwhash_str(s, pw, len, crypto_pwhash_OPSLIMIT_MIN, crypto_pwhash_MEMLIMIT_MIN))); D(sw, s, crypto_pwhash_STRBYTES);
        DI(sw, CALL(sw, crypto_pwhash_str_verify(s, pw, len)));
        s = (char *) A(sw, crypto_pwhash_STRBYTES);
        DI(sw, CALL(sw, crypto_pwhash_str_alg(s, pw, len, crypto_pwhash_argon2i_OPSLIMIT_MIN, crypto_pwhash_MEMLIMIT_MIN, crypto_pwhash_ALG_ARGON2I13))); D(sw, s, crypto_pwhash_STRBYTES);
        s = (char *) A(sw, crypto_pwhash_STRBYTES);
        DI(sw, CALL(sw, crypto_pwhash_str_alg(s, pw, len, crypto_pwhash_OPSLIMIT_MIN, crypto_pwhash_MEMLIMIT_MIN, crypto_pwhash_ALG_ARGON2ID13))); D(sw, s, crypto_pwhash_STRBYTES);
        s = (char *) A(sw, crypto_pwhash_argon2id_STRBYTES);
        DI(sw, CALL(sw, crypto_pwhash_argon2id_str(s, pw, len, crypto_pwhash_argon2id_OPSLIMIT_MIN, crypto_pwhash_argon2id_MEMLIMIT_MIN))); D(sw, s, crypto_pwhash_argon2id_STRBYTES);
        s = (char *) A(sw, crypto_pwhash_argon2i_STRBYTES);
        DI(sw, CALL(sw, crypto_pwhash_argon2i_str(s, pw, len, crypto_pwhash_argon2i_OPSLIMIT_MIN, crypto_pwhash_argon2i_MEMLIMIT_MIN))); D(sw, s, crypto_pwhash_argon2i_STRBYTES);
        DI(sw, CALL(sw, crypto_pwhash_argon2i_str_verify(s, pw, len)));
        if (len % 8 == 0) {
            s = (char *) A(sw, crypto_pwhash_scryptsalsa208sha256_STRBYTES);
            DI(sw, CALL(sw, crypto_pwhash_scryptsalsa208sha256_str(s, pw, len, crypto_pwhash_scryptsalsa208sha256_OPSLIMIT_MIN, crypto_pwhash_scryptsalsa208sha256_MEMLIMIT_MIN))); D(sw, s, crypto_pwhash_scryptsalsa208sha256_STRBYTES);
        }
        det_end();
        E(sw);
    }
}

/* ------------------------------------------------------------------ fixed-size APIs (alignment / placement only) and hash-to-curve (len = message length) */

static void fam_curve(sw_t *sw, size_t len) {
    unsigned char *n = AR(sw, 32), *p = AR(sw, 32), *q = A(sw, 32), *q2 = A(sw, 32), *u = AR(sw, 32), *h64 = AR(sw, 64), *e1 = A(sw, 32), *e2 = A(sw, 32), *r = A(sw, 32), *s1, *s2, *z;
    DI(sw, CALL(sw, crypto_scalarmult_base(q, n))); D(sw, q, 32);
    DI(sw, CALL(sw, crypto_scalarmult(q2, n, p))); D(sw, q2, 32);
    DI(sw, CALL(sw, crypto_core_ed25519_from_uniform(e1, u))); D(sw, e1, 32);
    DI(sw, CALL(sw, crypto_scalarmult_ed25519_base(e2, n))); D(sw, e2, 32);
    DI(sw, CALL(sw, crypto_scalarmult_ed25519_base_noclamp(e2, n))); D(sw, e2, 32);
    DI(sw, CALL(sw, crypto_scalarmult_ed25519(r, n, e1))); D(sw, r, 32);
    DI(sw, CALL(sw, crypto_scalarmult_ed25519_noclamp(r, n, e1))); D(sw, r, 32);
    DI(sw, CALL(sw, crypto_core_ed25519_is_valid_point(e1))); DI(sw, CALL(sw, crypto_core_ed25519_is_valid_point(p)));
    DI(sw, CALL(sw, crypto_core_ed25519_add(r, e1, e2))); D(sw, r, 32);
    DI(sw, CALL(sw, crypto_core_ed25519_sub(r, e1, e2))); D(sw, r, 32);
    DI(sw, CALL(sw, crypto_core_ed25519_add(r, e1, p)));
    E(sw);
    s1 = AR(sw, 32); s2 = AR(sw, 32); z = A(sw, 32); h64 = AR(sw, 64); s1[31] &= 0x0f; s2[31] &= 0x0f;
    DI(sw, CALL(sw, crypto_core_ed25519_scalar_invert(z, s1))); D(sw, z, 32);
    CALL(sw, crypto_core_ed25519_scalar_negate(z, s1)); D(sw, z, 32);
    CALL(sw, crypto_core_ed25519_scalar_complement(z, s1)); D(sw, z, 32);
    CALL(sw, crypto_core_ed25519_scalar_add(z, s1, s2)); D(sw, z, 32);
    CALL(sw, crypto_core_ed25519_scalar_sub(z, s1, s2)); D(sw, z, 32);
    CALL(sw, crypto_core_ed25519_scalar_mul(z, s1, s2)); D(sw, z, 32);
    CALL(sw, crypto_core_ed25519_scalar_reduce(z, h64)); D(sw, z, 32);
    DI(sw, CALL(sw, crypto_core_ed25519_scalar_is_canonical(s1))); DI(sw, CALL(sw, crypto_core_ed25519_scalar_is_canonical(h64)));
    CALL(sw, crypto_core_ed25519_scalar_random(z)); CALL(sw, crypto_core_ed25519_random(z));
    E(sw);
    h64 = AR(sw, 64); e1 = A(sw, 32); e2 = A(sw, 32); r = A(sw, 32); n = AR(sw, 32); s1 = AR(sw, 32); s2 = AR(sw, 32); z = A(sw, 32); s1[31] &= 0x0f; s2[31] &= 0x0f;
    DI(sw, CALL(sw, crypto_core_ristretto255_from_hash(e1, h64))); D(sw, e1, 32);
    DI(sw, CALL(sw, crypto_scalarmult_ristretto255_base(e2, n))); D(sw, e2, 32);
    DI(sw, CALL(sw, crypto_scalarmult_ristretto255(r, n, e1))); D(sw, r, 32);
    DI(sw, CALL(sw, crypto_core_ristretto255_is_valid_point(e1))); DI(sw, CALL(sw, crypto_core_ristretto255_is_valid_point(n)));
    DI(sw, CALL(sw, crypto_core_ristretto255_add(r, e1, e2))); D(sw, r, 32);
    DI(sw, CALL(sw, crypto_core_ristretto255_sub(r, e1, e2))); D(sw, r, 32);
    DI(sw, CALL(sw, crypto_core_ristretto255_scalar_invert(z, s1))); D(sw, z, 32);
    CALL(sw, crypto_core_ristretto255_scalar_negate(z, s1)); D(sw, z, 32);
    CALL(sw, crypto_core_ristretto255_scalar_complement(z, s1)); D(sw, z, 32);
    CALL(sw, crypto_core_ristretto255_scalar_add(z, s1, s2)); D(sw, z, 32);
    CALL(sw, crypto_core_ristretto255_scalar_sub(z, s1, s2)); D(sw, z, 32);
    CALL(sw, crypto_core_ristretto255_scalar_mul(z, s1, s2)); D(sw, z, 32);
    CALL(sw, crypto_core_ristretto255_scalar_reduce(z, h64)); D(sw, z, 32);
    CALL(sw, crypto_core_ristretto255_scalar_random(z)); CALL(sw, crypto_core_ristretto255_random(z));
    E(sw);
    {   /* hash-to-curve: msg of `len` bytes, context string of 0..300 characters (above 255 it is hashed first) */
        size_t cl = (len % 7 == 3) ? 256 + (size_t) (R(sw) % 45) : (size_t) (R(sw) % 60), i; char ctxb[320]; char *ctx; unsigned char *msg = (len == 0 && (R(sw) & 1)) ? NULL : AR(sw, len), *pt = A(sw, 32); int alg;
        for (i = 0; i < cl; i++) ctxb[i] = (char) (1 + R(sw) % 255);
        ctxb[cl] = 0; ctx = (len % 5 == 4) ? NULL : AS(sw, ctxb);
        for (alg = 1; alg <= 2; alg++) {
            DI(sw, CALL(sw, crypto_core_ed25519_from_string(pt, ctx, msg, len, alg))); D(sw, pt, 32);
            DI(sw, CALL(sw, crypto_core_ed25519_from_string_ro(pt, ctx, msg, len, alg))); D(sw, pt, 32);
            DI(sw, CALL(sw, crypto_core_ristretto255_from_string(pt, ctx, msg, len, alg))); D(sw, pt, 32);
            DI(sw, CALL(sw, crypto_core_ristretto255_from_string_ro(pt, ctx, msg, len, alg))); D(sw, pt, 32);
        }
        E(sw);
    }
    {   unsigned char *seed = AR(sw, 32), *pk = A(sw, 32), *sk = A(sw, 32), *pk2 = A(sw, 32), *sk2 = A(sw, 32), *rx = A(sw, 32), *tx = A(sw, 32), *rx2 = A(sw, 32), *tx2 = A(sw, 32), *seed2 = AR(sw, 32);
        DI(sw, CALL(sw, crypto_kx_seed_keypair(pk, sk, seed))); D(sw, pk, 32); D(sw, sk, 32);
        DI(sw, CALL(sw, crypto_kx_seed_keypair(pk2, sk2, seed2)));
        DI(sw, CALL(sw, crypto_kx_client_session_keys(rx, tx, pk, sk, pk2))); D(sw, rx, 32); D(sw, tx, 32);
        DI(sw, CALL(sw, crypto_kx_server_session_keys(rx2, tx2, pk2, sk2, pk))); D(sw, rx2, 32); D(sw, tx2, 32);
        DI(sw, CALL(sw, crypto_kx_client_session_keys(rx, NULL, pk, sk, pk2))); DI(sw, CALL(sw, crypto_kx_server_session_keys(NULL, tx2, pk2, sk2, pk)));
        DI(sw, CALL(sw, crypto_kx_keypair(pk, sk)));
        DI(sw, CALL(sw, crypto_box_seed_keypair(pk, sk, seed))); D(sw, pk, 32); D(sw, sk, 32);
        DI(sw, CALL(sw, crypto_box_keypair(pk, sk)));
        DI(sw, CALL(sw, crypto_box_beforenm(rx, pk2, sk))); 
        E(sw); }
    {   unsigned char *seed = AR(sw, 32), *pk = A(sw, 32), *sk = A(sw, 64), *cpk = A(sw, 32), *csk = A(sw, 32), *sd = A(sw, 32), *pk2 = A(sw, 32), *bad = AR(sw, 32);
        DI(sw, CALL(sw, crypto_sign_seed_keypair(pk, sk, seed))); D(sw, pk, 32); D(sw, sk, 64);
        DI(sw, CALL(sw, crypto_sign_ed25519_pk_to_curve25519(cpk, pk))); D(sw, cpk, 32);
        DI(sw, CALL(sw, crypto_sign_ed25519_pk_to_curve25519(cpk, bad)));
        DI(sw, CALL(sw, crypto_sign_ed25519_sk_to_curve25519(csk, sk))); D(sw, csk, 32);
        DI(sw, CALL(sw, crypto_sign_ed25519_sk_to_seed(sd, sk))); D(sw, sd, 32);
        DI(sw, CALL(sw, crypto_sign_ed25519_sk_to_pk(pk2, sk))); D(sw, pk2, 32);
        DI(sw, CALL(sw, crypto_sign_keypair(pk, sk)));
        E(sw); }
    {   unsigned char *in = AR(sw, 16), *k = AR(sw, 32), *c = AR(sw, 16), *out = A(sw, 32), *o64 = A(sw, 64);
        DI(sw, CALL(sw, crypto_core_hchacha20(out, in, k, c))); D(sw, out, 32);
        DI(sw, CALL(sw, crypto_core_hchacha20(out, in, k, NULL))); D(sw, out, 32);
        DI(sw, CALL(sw, crypto_core_hsalsa20(out, in, k, c))); D(sw, out, 32);
        DI(sw, CALL(sw, crypto_core_hsalsa20(out, in, k, NULL))); D(sw, out, 32);
        DI(sw, CALL(sw, crypto_core_salsa20(o64, in, k, c))); D(sw, o64, 64);
        DI(sw, CALL(sw, crypto_core_salsa2012(o64, in, k, NULL))); D(sw, o64, 64);
        DI(sw, CALL(sw, crypto_core_salsa208(o64, in, k, c))); D(sw, o64, 64);
        E(sw); }
}

/* ------------------------------------------------------------------ mem.sweep */

static const struct { const char *name; void (*fn)(sw_t *, size_t); } FAMS[] = {
    { "stream", fam_stream }, { "aead", fam_aead }, { "aesgcm", fam_aesgcm }, { "secretbox", fam_secretbox }, { "hash", fam_hash },
    { "secretstream", fam_secretstream }, { "sign", fam_sign }, { "codec", fam_codec }, { "pad", fam_pad }, { "utils", fam_utils },
    { "kdf", fam_kdf }, { "pwhash", fam_pwhash }, { "pwout", fam_pwout }, { "curve", fam_curve },
};
static int op_sweep(int argc, char **argv, FILE *o) {
    static sw_t sw; uint64_t lo, hi, seed, len; size_t f; const char *pl;
    if (argc != 5 || hx_u64(argv[2], &lo) || hx_u64(argv[3], &hi) || hx_u64(argv[4], &seed) || lo > hi || hi > (1u << 20)) return -1;
    for (f = 0; f < sizeof FAMS / sizeof FAMS[0]; f++) if (strcmp(FAMS[f].name, argv[0]) == 0) break;
    if (f == sizeof FAMS / sizeof FAMS[0]) return -1;
    memset(&sw, 0, sizeof sw);
    pl = argv[1];
    if (pl[0] == 'h') { uint64_t k; if (hx_u64(pl + 1, &k) || k > 63) return -1; sw.kind = 'h'; sw.off = (size_t) k; }
    else if ((pl[0] == 'e' || pl[0] == 's') && pl[1] == 0) sw.kind = pl[0];
    else return -1;
    if (strcmp(argv[0], "aesgcm") == 0 && !crypto_aead_aes256gcm_is_available()) { fputs("unavailable", o); return 0; }
    sw.dig = FNV_INIT;
    for (len = lo; len <= hi; len++) {
        sw.rng = fnv_str(FNV_INIT ^ (seed * 0x9e3779b97f4a7c15ULL), argv[0]) + len * 0xd1342543de82ef95ULL;
        FAMS[f].fn(&sw, (size_t) len);
        E(&sw);
        if (sw.bad[0]) break;
    }
    if (sw.bad[0]) fprintf(o, "corrupt len=%llu %s", (unsigned long long) len, sw.bad);
    else fprintf(o, "%016llx calls=%llu", (unsigned long long) sw.dig, (unsigned long long) sw.calls);
    return 0;
}

/* ------------------------------------------------------------------ mem.limit: size arguments at and beyond the documented limits */

#include <sys/syscall.h>
static unsigned char LB[20480 + 64], LC[20480 + 128], LK[64], LN[32], LPK[32], LSK[64], LAD[64];

/* `size` bytes of address space backed by one 64 MiB shared segment mapped over and over (little physical memory),
   followed by an inaccessible page: a contract-sized output buffer for size arguments beyond what can be allocated */
static unsigned char *huge_alias(uint64_t size) {
    const size_t seg = 64u << 20; uint64_t total = (size + seg - 1) / seg * seg, off; unsigned char *base; int fd;
    fd = (int) syscall(SYS_memfd_create, "c12huge", 0u);
    if (fd < 0 || ftruncate(fd, (off_t) seg) != 0) return NULL;
    base = (unsigned char *) mmap(NULL, total + PG, PROT_NONE, MAP_PRIVATE | MAP_ANONYMOUS | MAP_NORESERVE, -1, 0);
    if (base == MAP_FAILED) return NULL;
    for (off = 0; off < total; off += seg)
        if (mmap(base + off, seg, PROT_READ | PROT_WRITE, MAP_SHARED | MAP_FIXED, fd, 0) == MAP_FAILED) return NULL;
    return base + (total - size);       /* ends at the inaccessible page */
}
static void put_rc(FILE *o, int rc) { fprintf(o, "rc=%d", rc); }
static void put_rc_errno(FILE *o, int rc) {
    int e = errno;
    if (rc == 0) { fputs("rc=0", o); return; }
    fprintf(o, "rc=%d errno=%s", rc, e == EINVAL ? "EINVAL" : e == EFBIG ? "EFBIG" : e == ENOMEM ? "ENOMEM" : e == ERANGE ? "ERANGE" : e == 0 ? "0" : "other");
}
typedef struct { uint64_t arg, p1, p2; } lim_a;
#define SMALL(a) ((a)->arg <= 20480)
#define LIM(NAME) static void NAME(const lim_a *a, FILE *o)

LIM(l_secretbox_easy) { put_rc(o, crypto_secretbox_easy(LC, LB, a->arg, LN, LK)); }
LIM(l_secretbox_xchacha_easy) { put_rc(o, crypto_secretbox_xchacha20poly1305_easy(LC, LB, a->arg, LN, LK)); }
LIM(l_box_easy) { put_rc(o, crypto_box_easy(LC, LB, a->arg, LN, LPK, LSK)); }
LIM(l_box_easy_afternm) { put_rc(o, crypto_box_easy_afternm(LC, LB, a->arg, LN, LK)); }
LIM(l_xbox_easy) { put_rc(o, crypto_box_curve25519xchacha20poly1305_easy(LC, LB, a->arg, LN, LPK, LSK)); }
LIM(l_xbox_easy_afternm) { put_rc(o, crypto_box_curve25519xchacha20poly1305_easy_afternm(LC, LB, a->arg, LN, LK)); }
LIM(l_box_seal) { put_rc(o, crypto_box_seal(LC, LB, a->arg, LPK)); }
#define L_AEAD_ENC(NAME, P) \
    LIM(NAME) { unsigned long long cl; put_rc(o, P##_encrypt(LC, &cl, LB, a->arg, LAD, 5, NULL, LN, LK)); } \
    LIM(NAME##_adlen) { unsigned long long cl; put_rc(o, P##_encrypt(LC, &cl, LB, 5, LAD, a->arg, NULL, LN, LK)); } \
    LIM(NAME##_dec) { unsigned long long cl = 0, ml; int rc; \
        if (SMALL(a) && a->arg >= P##_ABYTES) { rc = P##_encrypt(LC, &cl, LB, a->arg - P##_ABYTES, LAD, 5, NULL, LN, LK); if (rc != 0 || cl != a->arg) { fputs("setup-failed", o); return; } } \
        put_rc(o, P##_decrypt(LB, &ml, NULL, LC, a->arg, LAD, 5, LN, LK)); }
L_AEAD_ENC(l_aead_chacha, crypto_aead_chacha20poly1305)
L_AEAD_ENC(l_aead_ietf, crypto_aead_chacha20poly1305_ietf)
L_AEAD_ENC(l_aead_xchacha, crypto_aead_xchacha20poly1305_ietf)
L_AEAD_ENC(l_aead_aegis128l, crypto_aead_aegis128l)
L_AEAD_ENC(l_aead_aegis256, crypto_aead_aegis256)
L_AEAD_ENC(l_aead_aesgcm, crypto_aead_aes256gcm)
/* crypto_aead_aes256gcm_encrypt zero-fills the m_len bytes of c before returning -1: needs a contract-sized c */
LIM(l_aead_aesgcm_huge) { unsigned long long cl; unsigned char *c = SMALL(a) ? LC : huge_alias(a->arg + 16); if (c == NULL) { fputs("no-memory", o); return; }
    put_rc(o, crypto_aead_aes256gcm_encrypt(c, &cl, c, a->arg, LAD, 5, NULL, LN, LK)); }
LIM(l_secretbox_open_easy) { if (SMALL(a) && a->arg >= 16) crypto_secretbox_easy(LC, LB, a->arg - 16, LN, LK); put_rc(o, crypto_secretbox_open_easy(LB, LC, a->arg, LN, LK)); }
LIM(l_box_open_easy) { if (SMALL(a) && a->arg >= 16) crypto_box_easy(LC, LB, a->arg - 16, LN, LPK, LSK); put_rc(o, crypto_box_open_easy(LB, LC, a->arg, LN, LPK, LSK)); }
LIM(l_box_seal_open) { unsigned char pk[32], sk[32]; crypto_box_keypair(pk, sk); if (SMALL(a) && a->arg >= 48) crypto_box_seal(LC, LB, a->arg - 48, pk); put_rc(o, crypto_box_seal_open(LB, LC, a->arg, pk, sk)); }
LIM(l_sign_open) { unsigned char pk[32], sk[64]; unsigned long long l = 0; crypto_sign_keypair(pk, sk); if (SMALL(a) && a->arg >= 64) crypto_sign(LC, &l, LB, a->arg - 64, sk); put_rc(o, crypto_sign_open(LB, &l, LC, a->arg, pk)); }
LIM(l_ss_push) { crypto_secretstream_xchacha20poly1305_state st; unsigned char h[24]; unsigned long long cl; crypto_secretstream_xchacha20poly1305_init_push(&st, h, LK);
    put_rc(o, crypto_secretstream_xchacha20poly1305_push(&st, LC, &cl, LB, a->arg, NULL, 0, 0)); }
LIM(l_ss_pull) { crypto_secretstream_xchacha20poly1305_state st; unsigned char h[24], tag; unsigned long long cl, ml; crypto_secretstream_xchacha20poly1305_init_push(&st, h, LK);
    if (SMALL(a) && a->arg >= 17) crypto_secretstream_xchacha20poly1305_push(&st, LC, &cl, LB, a->arg - 17, NULL, 0, 0);
    crypto_secretstream_xchacha20poly1305_init_pull(&st, h, LK);
    put_rc(o, crypto_secretstream_xchacha20poly1305_pull(&st, LB, &ml, &tag, LC, a->arg, NULL, 0)); }
LIM(l_stream_ietf) { put_rc(o, crypto_stream_chacha20_ietf(LC, a->arg, LN, LK)); }
LIM(l_stream_ietf_xor) { put_rc(o, crypto_stream_chacha20_ietf_xor(LC, LB, a->arg, LN, LK)); }
LIM(l_stream_ietf_xor_ic) { put_rc(o, crypto_stream_chacha20_ietf_xor_ic(LC, LB, a->arg, LN, (uint32_t) a->p1, LK)); }          /* p1 = ic */
LIM(l_stream_ietf_ic) { put_rc(o, crypto_stream_chacha20_ietf_xor_ic(LC, LB, a->p1, LN, (uint32_t) a->arg, LK)); }             /* arg = ic, p1 = mlen */
LIM(l_gh_outlen) { put_rc(o, crypto_generichash(LC, a->arg, LB, 10, NULL, 0)); }
LIM(l_gh_keylen) { put_rc(o, crypto_generichash(LC, 32, LB, 10, LB + 100, a->arg)); }
LIM(l_gh_init_outlen) { crypto_generichash_state st; put_rc(o, crypto_generichash_init(&st, NULL, 0, a->arg)); }
LIM(l_gh_init_keylen) { crypto_generichash_state st; put_rc(o, crypto_generichash_init(&st, LB, a->arg, 32)); }
LIM(l_gh_sp_outlen) { put_rc(o, crypto_generichash_blake2b_salt_personal(LC, a->arg, LB, 10, NULL, 0, NULL, NULL)); }
LIM(l_gh_sp_keylen) { put_rc(o, crypto_generichash_blake2b_salt_personal(LC, 32, LB, 10, LB + 100, a->arg, NULL, NULL)); }
LIM(l_kdf_derive) { errno = 0; put_rc_errno(o, crypto_kdf_derive_from_key(LC, a->arg, 7, "context_", LK)); }
LIM(l_hkdf256_expand) { errno = 0; put_rc_errno(o, crypto_kdf_hkdf_sha256_expand(LC, a->arg, "ctx", 3, LK)); }
LIM(l_hkdf512_expand) { errno = 0; put_rc_errno(o, crypto_kdf_hkdf_sha512_expand(LC, a->arg, "ctx", 3, LK)); }
/* the pwhash functions zero-fill out[0..outlen) before checking outlen */
#define L_PWHASH(NAME, CALLX, OPSMIN, MEMMIN) \
    LIM(NAME##_outlen) { unsigned long long outlen = a->arg, passwdlen = 8, opslimit = OPSMIN; size_t memlimit = MEMMIN; unsigned char *out = SMALL(a) ? LC : huge_alias(a->arg); if (out == NULL) { fputs("no-memory", o); return; } errno = 0; put_rc_errno(o, CALLX); } \
    LIM(NAME##_passwdlen) { unsigned long long outlen = 32, passwdlen = a->arg, opslimit = OPSMIN; size_t memlimit = MEMMIN; unsigned char *out = LC; errno = 0; put_rc_errno(o, CALLX); } \
    LIM(NAME##_opslimit) { unsigned long long outlen = 32, passwdlen = 8, opslimit = a->arg; size_t memlimit = MEMMIN; unsigned char *out = LC; errno = 0; put_rc_errno(o, CALLX); } \
    LIM(NAME##_memlimit) { unsigned long long outlen = 32, passwdlen = 8, opslimit = OPSMIN; size_t memlimit = (size_t) a->arg; unsigned char *out = LC; errno = 0; put_rc_errno(o, CALLX); }
L_PWHASH(l_pwhash, crypto_pwhash(out, outlen, (const char *) LB, passwdlen, LN, opslimit, memlimit, crypto_pwhash_ALG_DEFAULT), crypto_pwhash_OPSLIMIT_MIN, crypto_pwhash_MEMLIMIT_MIN)
L_PWHASH(l_pwhash_i, crypto_pwhash_argon2i(out, outlen, (const char *) LB, passwdlen, LN, opslimit, memlimit, crypto_pwhash_argon2i_ALG_ARGON2I13), crypto_pwhash_argon2i_OPSLIMIT_MIN, crypto_pwhash_argon2i_MEMLIMIT_MIN)
L_PWHASH(l_pwhash_id, crypto_pwhash_argon2id(out, outlen, (const char *) LB, passwdlen, LN, opslimit, memlimit, crypto_pwhash_argon2id_ALG_ARGON2ID13), crypto_pwhash_argon2id_OPSLIMIT_MIN, crypto_pwhash_argon2id_MEMLIMIT_MIN)
L_PWHASH(l_pwhash_str, ((void) outlen, crypto_pwhash_str((char *) out, (const char *) LB, passwdlen, opslimit, memlimit)), crypto_pwhash_OPSLIMIT_MIN, crypto_pwhash_MEMLIMIT_MIN)
L_PWHASH(l_pwhash_scrypt, crypto_pwhash_scryptsalsa208sha256(out, outlen, (const char *) LB, passwdlen, LN, opslimit, memlimit), crypto_pwhash_scryptsalsa208sha256_OPSLIMIT_MIN, crypto_pwhash_scryptsalsa208sha256_MEMLIMIT_MIN)
LIM(l_bin2hex) { size_t bl = (size_t) a->p1; char *hex = SMALL(a) ? (char *) malloc(a->arg ? a->arg : 1) : (char *) LC; char *r = sodium_bin2hex(hex, a->arg, LB, bl); fputs(r == hex && strlen(hex) == 2 * bl ? "rc=0" : "rc=bad", o); }   /* p1 = bin_len */
LIM(l_bin2hex_binlen) { char *r = sodium_bin2hex((char *) LC, SIZE_MAX, LB, a->arg); fputs(r != NULL ? "rc=0" : "rc=bad", o); }
LIM(l_bin2base64) { size_t bl = (size_t) a->p2; char *b = SMALL(a) ? (char *) malloc(a->arg ? a->arg : 1) : NULL; char *r; if (b == NULL) { fputs("no-memory", o); return; }   /* p1 = variant, p2 = bin_len */
    r = sodium_bin2base64(b, a->arg, LB, bl, (int) a->p1); fputs(r == b && strlen(b) + 1 == sodium_base64_encoded_len(bl, (int) a->p1) ? "rc=0" : "rc=bad", o); }
LIM(l_pad) { size_t pl; put_rc(o, sodium_pad(&pl, LC, a->arg, (size_t) a->p1, 64)); }                                         /* p1 = blocksize; capacity 64 */
LIM(l_unpad) { size_t pl = 0, ul; if (SMALL(a) && a->arg >= 16) { memset(LC, 1, sizeof LC); sodium_pad(&pl, LC, a->arg - 16, 16, sizeof LC); } else memset(LC, 0, 64); put_rc(o, sodium_unpad(&ul, LC, a->arg, 16)); }
LIM(l_allocarray) { void *p; errno = 0; p = sodium_allocarray(a->arg, (size_t) a->p1); if (p != NULL) { fputs("ok", o); sodium_free(p); } else fprintf(o, "null errno=%s", errno == ENOMEM ? "ENOMEM" : "other"); }
LIM(l_rb_det) { randombytes_buf_deterministic(LC, a->arg, LK); fputs("rc=0", o); }

static const struct { const char *api; void (*fn)(const lim_a *, FILE *); } LIMS[] = {
    { "crypto_secretbox_easy", l_secretbox_easy }, { "crypto_secretbox_xchacha20poly1305_easy", l_secretbox_xchacha_easy },
    { "crypto_box_easy", l_box_easy }, { "crypto_box_easy_afternm", l_box_easy_afternm },
    { "crypto_box_curve25519xchacha20poly1305_easy", l_xbox_easy }, { "crypto_box_curve25519xchacha20poly1305_easy_afternm", l_xbox_easy_afternm },
    { "crypto_box_seal", l_box_seal },
    { "crypto_aead_chacha20poly1305_encrypt", l_aead_chacha }, { "crypto_aead_chacha20poly1305_decrypt", l_aead_chacha_dec },
    { "crypto_aead_chacha20poly1305_ietf_encrypt", l_aead_ietf }, { "crypto_aead_chacha20poly1305_ietf_decrypt", l_aead_ietf_dec },
    { "crypto_aead_xchacha20poly1305_ietf_encrypt", l_aead_xchacha }, { "crypto_aead_xchacha20poly1305_ietf_decrypt", l_aead_xchacha_dec },
    { "crypto_aead_aegis128l_encrypt", l_aead_aegis128l }, { "crypto_aead_aegis128l_encrypt.adlen", l_aead_aegis128l_adlen }, { "crypto_aead_aegis128l_decrypt", l_aead_aegis128l_dec },
    { "crypto_aead_aegis256_encrypt", l_aead_aegis256 }, { "crypto_aead_aegis256_encrypt.adlen", l_aead_aegis256_adlen }, { "crypto_aead_aegis256_decrypt", l_aead_aegis256_dec },
    { "crypto_aead_aes256gcm_decrypt", l_aead_aesgcm_dec }, { "crypto_aead_aes256gcm_encrypt", l_aead_aesgcm_huge },
    { "crypto_secretbox_open_easy", l_secretbox_open_easy }, { "crypto_box_open_easy", l_box_open_easy }, { "crypto_box_seal_open", l_box_seal_open },
    { "crypto_sign_open", l_sign_open },
    { "crypto_secretstream_xchacha20poly1305_push", l_ss_push }, { "crypto_secretstream_xchacha20poly1305_pull", l_ss_pull },
    { "crypto_stream_chacha20_ietf", l_stream_ietf }, { "crypto_stream_chacha20_ietf_xor", l_stream_ietf_xor },
    { "crypto_stream_chacha20_ietf_xor_ic", l_stream_ietf_xor_ic }, { "crypto_stream_chacha20_ietf_xor_ic.ic", l_stream_ietf_ic },
    { "crypto_generichash.outlen", l_gh_outlen }, { "crypto_generichash.keylen", l_gh_keylen },
    { "crypto_generichash_init.outlen", l_gh_init_outlen }, { "crypto_generichash_init.keylen", l_gh_init_keylen },
    { "crypto_generichash_blake2b_salt_personal.outlen", l_gh_sp_outlen }, { "crypto_generichash_blake2b_salt_personal.keylen", l_gh_sp_keylen },
    { "crypto_kdf_derive_from_key", l_kdf_derive }, { "crypto_kdf_hkdf_sha256_expand", l_hkdf256_expand }, { "crypto_kdf_hkdf_sha512_expand", l_hkdf512_expand },
#define PWE(N, F) { N ".outlen", F##_outlen }, { N ".passwdlen", F##_passwdlen }, { N ".opslimit", F##_opslimit }, { N ".memlimit", F##_memlimit }
    PWE("crypto_pwhash", l_pwhash), PWE("crypto_pwhash_argon2i", l_pwhash_i), PWE("crypto_pwhash_argon2id", l_pwhash_id),
    { "crypto_pwhash_str.passwdlen", l_pwhash_str_passwdlen }, { "crypto_pwhash_str.opslimit", l_pwhash_str_opslimit }, { "crypto_pwhash_str.memlimit", l_pwhash_str_memlimit },
    { "crypto_pwhash_scryptsalsa208sha256.outlen", l_pwhash_scrypt_outlen },
    { "sodium_bin2hex", l_bin2hex }, { "sodium_bin2hex.bin_len", l_bin2hex_binlen }, { "sodium_bin2base64", l_bin2base64 },
    { "sodium_pad", l_pad }, { "sodium_unpad", l_unpad }, { "sodium_allocarray", l_allocarray }, { "randombytes_buf_deterministic", l_rb_det },
};
typedef struct { lim_a a; size_t idx; } lim_run;
static void lim_child(void *r_, FILE *o) {
    lim_run *r = (lim_run *) r_; size_t i;
    for (i = 0; i < sizeof LB; i++) LB[i] = (unsigned char) (i * 7 + 1);
    memset(LK, 0x42, sizeof LK); memset(LN, 0x24, sizeof LN); memset(LAD, 0x11, sizeof LAD);
    { unsigned char seed[32]; memset(seed, 9, 32); crypto_box_seed_keypair(LPK, LSK, seed); }
    LIMS[r->idx].fn(&r->a, o);
}
/* mem.limit <api>[:p1[:p2]] <arg> */
static int op_limit(int argc, char **argv, FILE *o) {
    lim_run r; char api[128], *c1, *c2; char out[256]; size_t i; int st;
    if (argc != 2 || strlen(argv[0]) >= sizeof api || hx_u64(argv[1], &r.a.arg)) return -1;
    strcpy(api, argv[0]); r.a.p1 = r.a.p2 = 0;
    c1 = strchr(api, ':');
    if (c1 != NULL) { *c1++ = 0; c2 = strchr(c1, ':'); if (c2 != NULL) { *c2++ = 0; if (hx_u64(c2, &r.a.p2)) return -1; } if (hx_u64(c1, &r.a.p1)) return -1; }
    for (i = 0; i < sizeof LIMS / sizeof LIMS[0]; i++) if (strcmp(LIMS[i].api, api) == 0) break;
    if (i == sizeof LIMS / sizeof LIMS[0]) return -1;
    if (strstr(api, "aes256gcm") != NULL && !crypto_aead_aes256gcm_is_available()) { fputs("unavailable", o); return 0; }
    r.idx = i;
    st = hx_in_child(lim_child, &r, out, sizeof out);
    if (st == 0) fputs(out, o); else if (st == 1) fputs("misuse", o); else fputs("crash", o);
    return 0;
}

const hx_op ops_c12[] = { {"mem.sweep", op_sweep}, {"mem.limit", op_limit}, {NULL, NULL} };
