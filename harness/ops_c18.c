/* C18: randomness — scripted random source installed through randombytes_set_implementation */
#include "hx.h"

static const unsigned char *script; static size_t script_len, script_pos; static int exhausted;
static size_t req_log[256]; static int req_n;
static const uint32_t *draws; static size_t ndraws, draw_pos;

static const char *s_name(void) { return "scripted"; }
static uint32_t s_random(void) {
    if (draws != NULL) { if (draw_pos < ndraws) return draws[draw_pos++]; exhausted = 1; return 0xffffffffU; }
    { uint32_t r = 0; size_t i; for (i = 0; i < 4; i++) { if (script_pos < script_len) r |= (uint32_t) script[script_pos++] << (8 * i); else exhausted = 1; } if (req_n < 256) req_log[req_n++] = 4; return r; }
}
static void s_buf(void *const buf, const size_t size) {
    size_t i; unsigned char *b = (unsigned char *) buf;
    if (req_n < 256) req_log[req_n++] = size;
    for (i = 0; i < size; i++) { if (script_pos < script_len) b[i] = script[script_pos++]; else { b[i] = 1; exhausted = 1; }  /* 0x01 filler: rejection loops terminate */ }
}
static randombytes_implementation scripted = { s_name, s_random, NULL, NULL, s_buf, NULL };

/* history between installing the source and generating: 0 none, 1 randombytes_close(), 2 randombytes_stir(), 3 close then stir
   (the scripted source has no close / stir callbacks; the installed source must stay installed) */
static int rng_pre;
static void install(const unsigned char *s, size_t n) {
    script = s; script_len = n; script_pos = 0; exhausted = 0; req_n = 0; draws = NULL; randombytes_set_implementation(&scripted);
    if (rng_pre & 1) (void) randombytes_close();
    if (rng_pre & 2) randombytes_stir();
}
static void restore(void) { randombytes_set_implementation(&randombytes_sysrandom_implementation); }
static void put_sizes(FILE *o) { int i; fputs("sizes=", o); for (i = 0; i < req_n; i++) fprintf(o, "%s%zu", i ? "," : "", req_log[i]); }

static int op_uniform(int argc, char **argv, FILE *o) {
    uint64_t n; uint32_t d[4096], v; size_t k = 0; char *p, *save;
    if (argc != 2 || hx_u64(argv[0], &n) || n > 0xffffffffULL) return -1;
    if (strcmp(argv[1], "-") != 0) for (p = strtok_r(argv[1], ",", &save); p && k < 4096; p = strtok_r(NULL, ",", &save)) d[k++] = (uint32_t) strtoull(p, NULL, 10);
    install(NULL, 0); draws = d; ndraws = k; draw_pos = 0;
    v = randombytes_uniform((uint32_t) n);
    restore();
    if (exhausted) fputs("exhausted", o); else fprintf(o, "%u %zu", v, draw_pos);
    return 0;
}
static int op_drg(int argc, char **argv, FILE *o) {
    uint64_t size; buf_t seed; unsigned char *out;
    if (argc != 2 || hx_u64(argv[0], &size) || size > (1u << 24) || hx_hex(argv[1], &seed)) return -1;
    if (seed.n != 32) { hx_free(&seed); return -1; }
    out = (unsigned char *) malloc(size ? size : 1); memset(out, 0x5c, size);
    randombytes_buf_deterministic(out, (size_t) size, seed.p);
    hx_put_hex(o, out, size); free(out); hx_free(&seed); return 0;
}
/* rng.drg.alias <size> <seed> <off>: the seed is kept INSIDE the output buffer at offset off (off + 32 <= size) — the key-erasure /
   ratchet form buf_deterministic(state, n, state); the result must still be the keystream of the seed that was passed in */
static int op_drg_alias(int argc, char **argv, FILE *o) {
    uint64_t size, off; buf_t seed; unsigned char *out;
    if (argc != 3 || hx_u64(argv[0], &size) || size > (1u << 24) || hx_hex(argv[1], &seed) || hx_u64(argv[2], &off)) return -1;
    if (seed.n != 32 || off + 32 > size) { hx_free(&seed); return -1; }
    out = (unsigned char *) hx_alloc(size); memset(out, 0x5c, size);
    memcpy(out + off, seed.p, 32);
    randombytes_buf_deterministic(out, (size_t) size, out + off);
    hx_put_hex(o, out, size); hx_release(out); hx_free(&seed); return 0;
}
static void drg_guard_run(void *a, FILE *o) { static unsigned char b[4096], seed[32]; (void) o; randombytes_buf_deterministic(b, (size_t) *(uint64_t *) a, seed); }
static int op_drg_guard(int argc, char **argv, FILE *o) {
    uint64_t size; char out[8]; int r;
    if (argc != 1 || hx_u64(argv[0], &size) || size <= 4096) return -1;
    r = hx_in_child(drg_guard_run, &size, out, sizeof out);
    fputs(r == 1 ? "misuse" : "proceeds", o); return 0;
}
typedef void (*kg_fn)(unsigned char *);
static void kg_all(size_t n, unsigned char *k, FILE *o, const unsigned char *s, size_t sl) {
    /* every *_keygen of that key size must consume exactly n bytes and return them */
    static const struct { size_t n; kg_fn f; const char *nm; } t[] = {
        {32, crypto_secretbox_keygen, "secretbox"}, {32, crypto_auth_keygen, "auth"}, {32, crypto_auth_hmacsha256_keygen, "hmacsha256"},
        {32, crypto_auth_hmacsha512_keygen, "hmacsha512"}, {32, crypto_auth_hmacsha512256_keygen, "hmacsha512256"}, {32, crypto_kdf_keygen, "kdf"},
        {32, crypto_kdf_hkdf_sha256_keygen, "hkdf256"}, {64, crypto_kdf_hkdf_sha512_keygen, "hkdf512"}, {32, crypto_onetimeauth_keygen, "onetimeauth"},
        {32, crypto_aead_chacha20poly1305_keygen, "chachapoly"}, {32, crypto_aead_chacha20poly1305_ietf_keygen, "chachapoly_ietf"},
        {32, crypto_aead_xchacha20poly1305_ietf_keygen, "xchachapoly"}, {32, crypto_aead_aes256gcm_keygen, "aes256gcm"}, {16, crypto_aead_aegis128l_keygen, "aegis128l"},
        {32, crypto_aead_aegis256_keygen, "aegis256"}, {16, crypto_shorthash_keygen, "shorthash"}, {32, crypto_secretstream_xchacha20poly1305_keygen, "secretstream"},
        {32, crypto_stream_keygen, "stream"}, {32, crypto_stream_chacha20_keygen, "chacha20"}, {32, crypto_stream_chacha20_ietf_keygen, "chacha20_ietf"},
        {32, crypto_stream_xchacha20_keygen, "xchacha20"}, {32, crypto_stream_salsa20_keygen, "salsa20"}, {32, crypto_stream_salsa2012_keygen, "salsa2012"},
        {32, crypto_stream_salsa208_keygen, "salsa208"}, {32, crypto_stream_xsalsa20_keygen, "xsalsa20"}, {32, crypto_generichash_keygen, "generichash"},
        {32, crypto_secretbox_xsalsa20poly1305_keygen, "secretbox_xsalsa"}, {0, NULL, NULL} };
    int i; unsigned char first[64]; int have = 0;
    for (i = 0; t[i].f; i++) {
        unsigned char kk[64];
        if (t[i].n != n) continue;
        install(s, sl); memset(kk, 0x5c, sizeof kk); t[i].f(kk); restore();
        if (exhausted) { return; }
        if (req_n != 1 || req_log[0] != n) fprintf(o, "BAD-REQUESTS(%s) ", t[i].nm);
        if (!have) { memcpy(first, kk, n); have = 1; } else if (memcmp(first, kk, n)) fprintf(o, "KEYGEN-DIFFERS(%s) ", t[i].nm);
    }
    memcpy(k, first, n);
}
static int op_gen_inner(int argc, char **argv, FILE *o);
static int op_gen(int argc, char **argv, FILE *out) {
    /* an exhausted script is reported as the single word "exhausted" whatever the API printed */
    static char line[1 << 20]; FILE *o = fmemopen(line, sizeof line, "w"); int r, ex;
    r = op_gen_inner(argc, argv, o); fclose(o);
    ex = exhausted;
    if (r != 0) return r;
    fputs(ex ? "exhausted" : line, out);
    return 0;
}
static int op_gen_inner(int argc, char **argv, FILE *o) {
    buf_t s; const char *api; int any_exhausted = 0;
    if (argc < 2 || hx_hex(argv[1], &s)) return -1;
    api = argv[0];
    if (!strncmp(api, "keygen", 6)) {
        size_t n = (size_t) atoi(api + 6); unsigned char k[64];
        kg_all(n, k, o, s.p, s.n);
        fprintf(o, "sizes=%zu ", n); hx_put_hex(o, k, n);
    } else if (!strcmp(api, "box_keypair")) {
        unsigned char pk[32], sk[32], pk2[32], sk2[32];
        install(s.p, s.n); crypto_box_keypair(pk, sk); put_sizes(o);
        install(s.p, s.n); crypto_box_curve25519xchacha20poly1305_keypair(pk2, sk2); restore();
        if (memcmp(pk, pk2, 32) || memcmp(sk, sk2, 32) || req_n != 1 || req_log[0] != 32) fputs(" XCHACHA-KEYPAIR-DIFFERS", o);
        fputc(' ', o); hx_put_hex(o, pk, 32); fputc(' ', o); hx_put_hex(o, sk, 32);
    } else if (!strcmp(api, "sign_keypair")) {
        unsigned char pk[32], sk[64];
        install(s.p, s.n); crypto_sign_keypair(pk, sk); restore(); put_sizes(o);
        fputc(' ', o); hx_put_hex(o, pk, 32); fputc(' ', o); hx_put_hex(o, sk, 64);
    } else if (!strcmp(api, "kx_keypair")) {
        unsigned char pk[32], sk[32];
        install(s.p, s.n); crypto_kx_keypair(pk, sk); restore(); put_sizes(o);
        fputc(' ', o); hx_put_hex(o, pk, 32); fputc(' ', o); hx_put_hex(o, sk, 32);
    } else if (!strcmp(api, "ss_init_push") && argc == 3) {
        buf_t k; crypto_secretstream_xchacha20poly1305_state st; unsigned char hdr[24];
        if (hx_hex(argv[2], &k) || k.n != 32) { hx_free(&s); return -1; }
        install(s.p, s.n); crypto_secretstream_xchacha20poly1305_init_push(&st, hdr, k.p); restore(); put_sizes(o);
        fputc(' ', o); hx_put_hex(o, hdr, 24); fputc(' ', o); hx_put_hex(o, (unsigned char *) &st, 44); hx_free(&k);
    } else if (!strcmp(api, "seal") && argc == 4) {
        buf_t m, pk; unsigned char *c; int rc;
        if (hx_hex(argv[2], &m)) { hx_free(&s); return -1; }
        if (hx_hex(argv[3], &pk) || pk.n != 32) { hx_free(&s); hx_free(&m); return -1; }
        c = (unsigned char *) malloc(m.n + 48);
        install(s.p, s.n); rc = crypto_box_seal(c, m.p, m.n, pk.p); restore(); put_sizes(o);
        if (rc != 0) fprintf(o, " %d", rc); else { fputs(" 0 ", o); hx_put_hex(o, c, m.n + 48); }
        free(c); hx_free(&m); hx_free(&pk);
    } else if (!strcmp(api, "ed25519_random")) {
        unsigned char p[32]; install(s.p, s.n); crypto_core_ed25519_random(p); restore(); put_sizes(o); fputc(' ', o); hx_put_hex(o, p, 32);
    } else if (!strcmp(api, "ristretto_random")) {
        unsigned char p[32]; install(s.p, s.n); crypto_core_ristretto255_random(p); restore(); put_sizes(o); fputc(' ', o); hx_put_hex(o, p, 32);
    } else if (!strcmp(api, "scalar_random")) {
        unsigned char r[32], r2[32];
        install(s.p, s.n); crypto_core_ed25519_scalar_random(r); restore();
        if (exhausted) { hx_free(&s); return 0; }
        put_sizes(o);
        install(s.p, s.n); crypto_core_ristretto255_scalar_random(r2); restore();
        if (memcmp(r, r2, 32)) fputs(" RISTRETTO-DIFFERS", o);
        fputc(' ', o); hx_put_hex(o, r, 32);
    } else { hx_free(&s); return -1; }
    (void) any_exhausted;
    hx_free(&s); return 0;
}

/* ---- rngint: the REAL randombytes_internal_random.c, run deterministically on a scripted outside world (wrap_sys.c) ----
   rngint <ent> <times> <pids> <devopen> <calls>
     ent     "-" or comma list, one item per getentropy() call: hex bytes (zero padded to the requested size) or "!" (= -1); past the end: -1
     times   "-" or comma list, one item per gettimeofday() call: sec.usec or "!" (= -1); past the end: -1
     pids    comma list, one item per getpid() call; the last one repeats
     devopen "ok" | "fail": whether open("/dev/random") / open("/dev/urandom") succeed
     calls   comma list: buf:N rnd stir close   = the function pointers of randombytes_internal_implementation
                         Buf:N Rnd Stir Close Uni:N Bytes:N = randombytes_buf / _random / _stir / _close / _uniform / randombytes() of randombytes.c
                         with the internal implementation installed through randombytes_set_implementation
   prints one token per call (buf: hex, rnd / Uni: decimal, stir: ok, close: the return value), then "misuse" / "abort" if the history was cut short,
   then ent=<sizes of the getentropy requests> t=<gettimeofday calls> p=<getpid calls> o=<device opens>.
   Runs in a forked child: the parent's (never used) internal generator state is the initial state of every line. */
#include <signal.h>
#include <unistd.h>
#include "wrap_sys.h"
static FILE *ri_o;
static void ri_trailer(const char *how) {
    int i;
    if (how) fprintf(ri_o, "%s ", how);
    fputs("ent=", ri_o);
    if (hxw_rng_ent_calls == 0) fputc('-', ri_o);
    for (i = 0; i < hxw_rng_ent_calls && i < HXW_RNG_MAX; i++) fprintf(ri_o, "%s%zu", i ? "," : "", hxw_rng_ent_log[i]);
    fprintf(ri_o, " t=%d p=%d o=%d", hxw_rng_time_calls, hxw_rng_pid_calls, hxw_rng_open_calls);
    fflush(ri_o);
}
static void ri_misuse(void) { ri_trailer("misuse"); _exit(0); }
static void ri_abort(int sig) { (void) sig; ri_trailer("abort"); _exit(0); }
static void ri_run(void *arg, FILE *o) {
    char *calls = (char *) arg, *p, *save; static unsigned char out[1 << 16];
    const randombytes_implementation *I = &randombytes_internal_implementation;
    ri_o = o;
    sodium_set_misuse_handler(ri_misuse); signal(SIGABRT, ri_abort);
    randombytes_set_implementation(&randombytes_internal_implementation);
    hxw_rng_on = 1;
    for (p = strtok_r(calls, ",", &save); p; p = strtok_r(NULL, ",", &save)) {
        size_t n = 0; const char *c = strchr(p, ':');
        if (c) n = (size_t) strtoull(c + 1, NULL, 10);
        if (n > sizeof out && strncmp(p, "Uni:", 4) != 0) n = sizeof out;
        if (!strncmp(p, "buf:", 4)) { memset(out, 0x5c, n); I->buf(out, n); hx_put_hex(o, out, n); }
        else if (!strcmp(p, "rnd")) fprintf(o, "%u", I->random());
        else if (!strcmp(p, "stir")) { I->stir(); fputs("ok", o); }
        else if (!strcmp(p, "close")) fprintf(o, "%d", I->close());
        else if (!strncmp(p, "Buf:", 4)) { memset(out, 0x5c, n); randombytes_buf(out, n); hx_put_hex(o, out, n); }   /* n = 0: buffer untouched, prints "-" */
        else if (!strncmp(p, "Bytes:", 6)) { memset(out, 0x5c, n); randombytes(out, (unsigned long long) n); hx_put_hex(o, out, n); }
        else if (!strcmp(p, "Rnd")) fprintf(o, "%u", randombytes_random());
        else if (!strcmp(p, "Stir")) { randombytes_stir(); fputs("ok", o); }
        else if (!strcmp(p, "Close")) fprintf(o, "%d", randombytes_close());
        else if (!strncmp(p, "Uni:", 4)) fprintf(o, "%u", randombytes_uniform((uint32_t) n));
        else fputs("?", o);
        fputc(' ', o); fflush(o);
    }
    ri_trailer(NULL);
}
static int op_rngint(int argc, char **argv, FILE *o) {
    static char outbuf[1 << 20]; static buf_t ent[HXW_RNG_MAX]; char *p, *save; int i, r, bad = 0;
    if (argc != 5) return -1;
    if (sodium_runtime_has_rdrand()) { fputs("unavailable", o); return 0; }   /* RDRAND values cannot be scripted: run with SODIUM_VERIF_CPU_DISABLE=rdrand */
    hxw_rng_nent = hxw_rng_ntime = hxw_rng_npid = 0;
    hxw_rng_ent_calls = hxw_rng_time_calls = hxw_rng_pid_calls = hxw_rng_open_calls = 0;
    if (strcmp(argv[0], "-") != 0) for (p = strtok_r(argv[0], ",", &save); p && hxw_rng_nent < HXW_RNG_MAX; p = strtok_r(NULL, ",", &save)) {
        i = hxw_rng_nent++;
        ent[i].p = NULL; ent[i].n = 0;
        if (!strcmp(p, "!")) hxw_rng_entlen[i] = -1;
        else if (hx_hex(p, &ent[i])) { bad = 1; hxw_rng_entlen[i] = -1; }
        else { hxw_rng_ent[i] = ent[i].p; hxw_rng_entlen[i] = (long) ent[i].n; }
    }
    if (strcmp(argv[1], "-") != 0) for (p = strtok_r(argv[1], ",", &save); p && hxw_rng_ntime < HXW_RNG_MAX; p = strtok_r(NULL, ",", &save)) {
        i = hxw_rng_ntime++;
        if (!strcmp(p, "!")) { hxw_rng_sec[i] = 0; hxw_rng_usec[i] = -1; }
        else { char *d = strchr(p, '.'); if (!d) { bad = 1; hxw_rng_usec[i] = -1; } else { hxw_rng_sec[i] = (long long) strtoull(p, NULL, 10); hxw_rng_usec[i] = (long long) strtoull(d + 1, NULL, 10); } }
    }
    for (p = strtok_r(argv[2], ",", &save); p && hxw_rng_npid < HXW_RNG_MAX; p = strtok_r(NULL, ",", &save)) hxw_rng_pid[hxw_rng_npid++] = strtol(p, NULL, 10);
    hxw_rng_open_fail = !strcmp(argv[3], "fail");
    if (!bad) {
        r = hx_in_child(ri_run, argv[4], outbuf, sizeof outbuf);
        if (r == 0) fputs(outbuf, o); else fprintf(o, "%s CHILD-DIED(%d)", outbuf, r);
    }
    for (i = 0; i < hxw_rng_nent; i++) if (hxw_rng_entlen[i] >= 0) hx_free(&ent[i]);
    return bad ? -1 : 0;
}
#define HIST(NAME, BASE, K) static int NAME(int c, char **v, FILE *o) { int r; rng_pre = K; r = BASE(c, v, o); rng_pre = 0; return r; }
HIST(op_gen_h1, op_gen, 1) HIST(op_gen_h2, op_gen, 2) HIST(op_gen_h3, op_gen, 3)
HIST(op_uniform_h1, op_uniform, 1) HIST(op_uniform_h2, op_uniform, 2) HIST(op_uniform_h3, op_uniform, 3)
const hx_op ops_c18[] = { {"rng.uniform", op_uniform}, {"rng.drg", op_drg}, {"rng.drg.alias", op_drg_alias}, {"rng.drg_guard", op_drg_guard}, {"rng.gen", op_gen},
    {"rng.gen.h1", op_gen_h1}, {"rng.gen.h2", op_gen_h2}, {"rng.gen.h3", op_gen_h3},
    {"rng.uniform.h1", op_uniform_h1}, {"rng.uniform.h2", op_uniform_h2}, {"rng.uniform.h3", op_uniform_h3}, {"rngint", op_rngint}, {NULL, NULL} };
