/* C15: hex and Base64 codecs */
#include "hx.h"

static int parse_ign(const char *s, char **ign) {   /* "N" = NULL, else hex of the C string */
    buf_t b;
    if (strcmp(s, "N") == 0) { *ign = NULL; return 0; }
    if (hx_hex(s, &b)) return -1;
    *ign = (char *) malloc(b.n + 1);
    memcpy(*ign, b.p, b.n); (*ign)[b.n] = 0;
    hx_free(&b);
    return 0;
}
static void dec_line(FILE *o, int rc, size_t binlen, int want_end, size_t endpos, const unsigned char *buf, size_t cap) {
    fprintf(o, "%d %llu ", rc, (unsigned long long) binlen);
    if (want_end) fprintf(o, "%llu ", (unsigned long long) endpos); else fputs("- ", o);
    hx_put_hex(o, buf, cap);
}
static void hexdec(FILE *o, size_t cap, const unsigned char *t, size_t tl, const char *ign, int want_end) {
    unsigned char *bin = (unsigned char *) malloc(cap ? cap : 1); size_t binlen = 12345; const char *end = NULL; int rc;
    memset(bin, 0xAA, cap);
    rc = sodium_hex2bin(bin, cap, (const char *) t, tl, ign, &binlen, want_end ? &end : NULL);
    dec_line(o, rc, binlen, want_end, want_end ? (size_t) (end - (const char *) t) : 0, bin, cap);
    free(bin);
}
typedef struct { size_t cap; const unsigned char *t; size_t tl; const char *ign; int want_end; int variant; } b64a;
static void b64dec_run(void *a_, FILE *o) {
    b64a *a = (b64a *) a_;
    unsigned char *bin = (unsigned char *) malloc(a->cap ? a->cap : 1); size_t binlen = 12345; const char *end = NULL; int rc;
    memset(bin, 0xAA, a->cap);
    rc = sodium_base642bin(bin, a->cap, (const char *) a->t, a->tl, a->ign, &binlen, a->want_end ? &end : NULL, a->variant);
    dec_line(o, rc, binlen, a->want_end, a->want_end ? (size_t) (end - (const char *) a->t) : 0, bin, a->cap);
    free(bin);
}
static int variant_valid(int v) { return v == 1 || v == 3 || v == 5 || v == 7; }
static void b64dec(FILE *o, b64a *a) {
    if (variant_valid(a->variant)) { b64dec_run(a, o); return; }
    {   /* invalid variant: contract violation, observe the misuse handler in a child */
        char out[65536]; int r = hx_in_child(b64dec_run, a, out, sizeof out);
        if (r == 0) fputs(out, o); else if (r == 1) fputs("misuse", o); else fputs("crash", o);
    }
}
static int op_hex2bin(int argc, char **argv, FILE *o) {
    uint64_t cap; buf_t t; char *ign;
    if (argc != 4 || hx_u64(argv[0], &cap) || hx_hex(argv[1], &t)) return -1;
    if (parse_ign(argv[2], &ign)) { hx_free(&t); return -1; }
    hexdec(o, (size_t) cap, t.p, t.n, ign, argv[3][0] == '1');
    free(ign); hx_free(&t); return 0;
}
static int op_b642bin(int argc, char **argv, FILE *o) {
    uint64_t cap, v; buf_t t; char *ign; b64a a;
    if (argc != 5 || hx_u64(argv[0], &cap) || hx_u64(argv[4], &v) || hx_hex(argv[1], &t)) return -1;
    if (parse_ign(argv[2], &ign)) { hx_free(&t); return -1; }
    a.cap = (size_t) cap; a.t = t.p; a.tl = t.n; a.ign = ign; a.want_end = argv[3][0] == '1'; a.variant = (int) v;
    b64dec(o, &a);
    free(ign); hx_free(&t); return 0;
}
typedef struct { size_t maxlen; buf_t bin; int variant; int is_hex; } enca;
static void enc_run(void *a_, FILE *o) {
    enca *a = (enca *) a_;
    char *out = (char *) malloc(a->maxlen ? a->maxlen : 1);
    memset(out, 0xAA, a->maxlen);
    if (a->is_hex) sodium_bin2hex(out, a->maxlen, a->bin.p, a->bin.n);
    else sodium_bin2base64(out, a->maxlen, a->bin.p, a->bin.n, a->variant);
    hx_put_hex(o, (unsigned char *) out, a->maxlen);
    free(out);
}
static int enc_common(enca *a, FILE *o, int contract_ok) {
    if (contract_ok) { enc_run(a, o); }
    else {
        char *out = (char *) malloc(4 * a->maxlen + 64); int r = hx_in_child(enc_run, a, out, 4 * a->maxlen + 64);
        if (r == 0) fputs(out, o); else if (r == 1) fputs("misuse", o); else fputs("crash", o);
        free(out);
    }
    hx_free(&a->bin);
    return 0;
}
static int op_bin2hex(int argc, char **argv, FILE *o) {
    enca a; uint64_t m;
    if (argc != 2 || hx_u64(argv[0], &m) || hx_hex(argv[1], &a.bin)) return -1;
    a.maxlen = (size_t) m; a.is_hex = 1; a.variant = 0;
    return enc_common(&a, o, a.maxlen > 2 * a.bin.n);
}
static int op_bin2b64(int argc, char **argv, FILE *o) {
    enca a; uint64_t m, v;
    if (argc != 3 || hx_u64(argv[0], &m) || hx_u64(argv[2], &v) || hx_hex(argv[1], &a.bin)) return -1;
    a.maxlen = (size_t) m; a.is_hex = 0; a.variant = (int) v;
    return enc_common(&a, o, variant_valid(a.variant) && a.maxlen >= sodium_base64_ENCODED_LEN(a.bin.n, a.variant));
}
typedef struct { size_t n; int v; } lena;
static void len_run(void *a_, FILE *o) {
    lena *a = (lena *) a_; size_t f = sodium_base64_encoded_len(a->n, a->v);
    fprintf(o, "%llu", (unsigned long long) f);
    if (variant_valid(a->v)) { size_t m = sodium_base64_ENCODED_LEN(a->n, a->v); if (m != f) fprintf(o, " MACRO=%llu", (unsigned long long) m); }   /* the macro and the function must agree */
}
static int op_b64len(int argc, char **argv, FILE *o) {
    uint64_t n, v; lena a;
    if (argc != 2 || hx_u64(argv[0], &n) || hx_u64(argv[1], &v)) return -1;
    a.n = (size_t) n; a.v = (int) v;
    if (variant_valid(a.v)) len_run(&a, o);
    else { char out[64]; int r = hx_in_child(len_run, &a, out, sizeof out); if (r == 0) fputs(out, o); else if (r == 1) fputs("misuse", o); else fputs("crash", o); }
    return 0;
}
static const char *ign_table[] = { NULL, "", " ", ": \n", "A", "=" };
static int enum_dec(int is_hex, int argc, char **argv, FILE *o) {
    uint64_t v = 1, len, ignidx, cap, lo, hi, i, h = FNV_INIT; int we, k = 0;
    char line[4096]; unsigned char t[8];
    if (!is_hex) { if (argc != 7 || hx_u64(argv[k++], &v)) return -1; } else if (argc != 6) return -1;
    if (hx_u64(argv[k], &len) || hx_u64(argv[k + 1], &ignidx) || hx_u64(argv[k + 3], &cap) || hx_u64(argv[k + 4], &lo) || hx_u64(argv[k + 5], &hi)) return -1;
    we = argv[k + 2][0] == '1';
    if (len > 7 || ignidx > 5 || cap > 16) return -1;
    for (i = lo; i < hi; i++) {
        FILE *m = fmemopen(line, sizeof line, "w"); size_t j;
        for (j = 0; j < len; j++) t[j] = (unsigned char) (i >> (8 * j));
        if (is_hex) hexdec(m, (size_t) cap, t, (size_t) len, ign_table[ignidx], we);
        else { b64a a; a.cap = (size_t) cap; a.t = t; a.tl = (size_t) len; a.ign = ign_table[ignidx]; a.want_end = we; a.variant = (int) v; b64dec_run(&a, m); }
        fclose(m);
        h = fnv_str(h, line);
    }
    fprintf(o, "%016llx", (unsigned long long) h);
    return 0;
}
static int op_enum_hex(int c, char **v, FILE *o) { return enum_dec(1, c, v, o); }
static int op_enum_b64(int c, char **v, FILE *o) { return enum_dec(0, c, v, o); }
const hx_op ops_c15[] = {
    {"bin2hex", op_bin2hex}, {"hex2bin", op_hex2bin}, {"bin2b64", op_bin2b64}, {"b642bin", op_b642bin},
    {"b64len", op_b64len}, {"enum.hexdec", op_enum_hex}, {"enum.b64dec", op_enum_b64}, {NULL, NULL}
};
