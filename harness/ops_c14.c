/* C14: constant-time helpers */
#include "hx.h"

static int two(int argc, char **argv, buf_t *a, buf_t *b) {
    if (argc != 2 || hx_hex(argv[0], a)) return -1;
    if (hx_hex(argv[1], b)) { hx_free(a); return -1; }
    if (a->n != b->n) { hx_free(a); hx_free(b); return -1; }
    return 0;
}
static int op_memcmp(int argc, char **argv, FILE *o) {
    buf_t a, b; if (two(argc, argv, &a, &b)) return -1;
    fprintf(o, "%d", sodium_memcmp(a.p, b.p, a.n)); hx_free(&a); hx_free(&b); return 0;
}
static int op_compare(int argc, char **argv, FILE *o) {
    buf_t a, b; if (two(argc, argv, &a, &b)) return -1;
    fprintf(o, "%d", sodium_compare(a.p, b.p, a.n)); hx_free(&a); hx_free(&b); return 0;
}
static int op_is_zero(int argc, char **argv, FILE *o) {
    buf_t a; if (argc != 1 || hx_hex(argv[0], &a)) return -1;
    fprintf(o, "%d", sodium_is_zero(a.p, a.n)); hx_free(&a); return 0;
}
static int verifyn(int argc, char **argv, FILE *o, size_t n) {
    buf_t a, b; int r;
    if (two(argc, argv, &a, &b)) return -1;
    if (a.n != n) { hx_free(&a); hx_free(&b); return -1; }
    r = n == 16 ? crypto_verify_16(a.p, b.p) : n == 32 ? crypto_verify_32(a.p, b.p) : crypto_verify_64(a.p, b.p);
    fprintf(o, "%d", r); hx_free(&a); hx_free(&b); return 0;
}
static int op_v16(int c, char **v, FILE *o) { return verifyn(c, v, o, 16); }
static int op_v32(int c, char **v, FILE *o) { return verifyn(c, v, o, 32); }
static int op_v64(int c, char **v, FILE *o) { return verifyn(c, v, o, 64); }
static int op_increment(int argc, char **argv, FILE *o) {
    buf_t a; if (argc != 1 || hx_hex(argv[0], &a)) return -1;
    sodium_increment(a.p, a.n); hx_put_hex(o, a.p, a.n); hx_free(&a); return 0;
}
static int op_add(int argc, char **argv, FILE *o) {
    buf_t a, b; if (two(argc, argv, &a, &b)) return -1;
    sodium_add(a.p, b.p, a.n); hx_put_hex(o, a.p, a.n); hx_free(&a); hx_free(&b); return 0;
}
static int op_sub(int argc, char **argv, FILE *o) {
    buf_t a, b; if (two(argc, argv, &a, &b)) return -1;
    sodium_sub(a.p, b.p, a.n); hx_put_hex(o, a.p, a.n); hx_free(&a); hx_free(&b); return 0;
}
static int op_memzero(int argc, char **argv, FILE *o) {
    buf_t m; uint64_t off, len;
    if (argc != 3 || hx_hex(argv[0], &m)) return -1;
    if (hx_u64(argv[1], &off) || hx_u64(argv[2], &len) || off + len > m.n) { hx_free(&m); return -1; }
    sodium_memzero(m.p + off, (size_t) len);
    hx_put_hex(o, m.p, m.n); hx_free(&m); return 0;
}
static void case_line(char *s, size_t cap, const unsigned char *a, const unsigned char *b, size_t len) {
    unsigned char t[8]; FILE *m = fmemopen(s, cap, "w");
    fprintf(m, "%d %d %d ", sodium_memcmp(a, b, len), sodium_compare(a, b, len), sodium_is_zero(a, len));
    memcpy(t, a, len); sodium_add(t, b, len); hx_put_hex(m, t, len); fputc(' ', m);
    memcpy(t, a, len); sodium_sub(t, b, len); hx_put_hex(m, t, len); fputc(' ', m);
    memcpy(t, a, len); sodium_increment(t, len); hx_put_hex(m, t, len);
    fclose(m);
}
static int op_case(int argc, char **argv, FILE *o) {
    buf_t a, b; char s[256];
    if (two(argc, argv, &a, &b)) return -1;
    if (a.n > 8) { hx_free(&a); hx_free(&b); return -1; }
    case_line(s, sizeof s, a.p, b.p, a.n); fputs(s, o); hx_free(&a); hx_free(&b); return 0;
}
static int op_enum(int argc, char **argv, FILE *o) {
    uint64_t len, lo, hi, i, h = FNV_INIT; char s[256];
    if (argc != 3 || hx_u64(argv[0], &len) || hx_u64(argv[1], &lo) || hx_u64(argv[2], &hi) || len < 1 || len > 3) return -1;
    for (i = lo; i < hi; i++) {
        unsigned char a[8], b[8]; uint64_t av = i & ((1ULL << (8 * len)) - 1), bv = i >> (8 * len); size_t k;
        for (k = 0; k < len; k++) { a[k] = (unsigned char) (av >> (8 * k)); b[k] = (unsigned char) (bv >> (8 * k)); }
        case_line(s, sizeof s, a, b, (size_t) len);
        h = fnv_str(h, s);
    }
    fprintf(o, "%016llx", (unsigned long long) h);
    return 0;
}
const hx_op ops_c14[] = {
    {"memcmp", op_memcmp}, {"compare", op_compare}, {"is_zero", op_is_zero},
    {"verify16", op_v16}, {"verify32", op_v32}, {"verify64", op_v64},
    {"increment", op_increment}, {"add", op_add}, {"sub", op_sub}, {"memzero", op_memzero},
    {"case.c14", op_case}, {"enum.c14", op_enum}, {NULL, NULL}
};
