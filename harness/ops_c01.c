/* C01/C02: AEADs, secretbox, box — every call form of one construction must agree */
#include "hx.h"

typedef int (*encd_fn)(unsigned char *, unsigned char *, unsigned long long *, const unsigned char *, unsigned long long,
                       const unsigned char *, unsigned long long, const unsigned char *, const unsigned char *, const unsigned char *);
typedef int (*decd_fn)(unsigned char *, unsigned char *, const unsigned char *, unsigned long long, const unsigned char *,
                       const unsigned char *, unsigned long long, const unsigned char *, const unsigned char *);
typedef int (*enc_fn)(unsigned char *, unsigned long long *, const unsigned char *, unsigned long long, const unsigned char *,
                      unsigned long long, const unsigned char *, const unsigned char *, const unsigned char *);
typedef int (*dec_fn)(unsigned char *, unsigned long long *, unsigned char *, const unsigned char *, unsigned long long,
                      const unsigned char *, unsigned long long, const unsigned char *, const unsigned char *);
typedef struct { const char *name; size_t kb, nb, ab; encd_fn encd; decd_fn decd; enc_fn enc; dec_fn dec; int (*avail)(void); } aead_t;
static int yes(void) { return 1; }
static const aead_t aeads[] = {
    {"chachapoly", 32, 8, 16, crypto_aead_chacha20poly1305_encrypt_detached, crypto_aead_chacha20poly1305_decrypt_detached, crypto_aead_chacha20poly1305_encrypt, crypto_aead_chacha20poly1305_decrypt, yes},
    {"chachapoly_ietf", 32, 12, 16, crypto_aead_chacha20poly1305_ietf_encrypt_detached, crypto_aead_chacha20poly1305_ietf_decrypt_detached, crypto_aead_chacha20poly1305_ietf_encrypt, crypto_aead_chacha20poly1305_ietf_decrypt, yes},
    {"xchachapoly", 32, 24, 16, crypto_aead_xchacha20poly1305_ietf_encrypt_detached, crypto_aead_xchacha20poly1305_ietf_decrypt_detached, crypto_aead_xchacha20poly1305_ietf_encrypt, crypto_aead_xchacha20poly1305_ietf_decrypt, yes},
    {"aes256gcm", 32, 12, 16, crypto_aead_aes256gcm_encrypt_detached, crypto_aead_aes256gcm_decrypt_detached, crypto_aead_aes256gcm_encrypt, crypto_aead_aes256gcm_decrypt, crypto_aead_aes256gcm_is_available},
    {"aegis128l", 16, 16, 32, crypto_aead_aegis128l_encrypt_detached, crypto_aead_aegis128l_decrypt_detached, crypto_aead_aegis128l_encrypt, crypto_aead_aegis128l_decrypt, yes},
    {"aegis256", 32, 32, 32, crypto_aead_aegis256_encrypt_detached, crypto_aead_aegis256_decrypt_detached, crypto_aead_aegis256_encrypt, crypto_aead_aegis256_decrypt, yes},
    {NULL, 0, 0, 0, NULL, NULL, NULL, NULL, NULL}
};
static const aead_t *find_aead(const char *op, const char **suffix) {   /* op = "aead.<name>.<suffix>" */
    const aead_t *a; const char *p = op + 5, *dot = strrchr(op, '.');
    if (strncmp(op, "aead.", 5) != 0 || dot == NULL || dot < p) return NULL;
    for (a = aeads; a->name; a++) if (strlen(a->name) == (size_t) (dot - p) && strncmp(a->name, p, (size_t) (dot - p)) == 0) { *suffix = dot + 1; return a; }
    return NULL;
}
static int nbufs(int argc, char **argv, buf_t *b, int n) {
    int i; if (argc != n) return -1;
    for (i = 0; i < n; i++) if (hx_hex(argv[i], &b[i])) { while (i--) hx_free(&b[i]); return -1; }
    return 0;
}
static void freeb(buf_t *b, int n) { int i; for (i = 0; i < n; i++) hx_free(&b[i]); }

int hx_aead(const char *op, int argc, char **argv, FILE *o) {
    const char *sfx; const aead_t *a = find_aead(op, &sfx); buf_t b[6];
    if (a == NULL) return 1;
    if (!a->avail()) { fputs("unavailable", o); return 0; }
    if (strcmp(sfx, "enc") == 0) {          /* m ad n k */
        unsigned char *c, *c2, mac[32]; unsigned long long maclen = 0, clen = 0; int rc, rc2;
        if (nbufs(argc, argv, b, 4)) return -1;
        if (b[2].n != a->nb || b[3].n != a->kb) { freeb(b, 4); return -1; }
        c = (unsigned char *) malloc(b[0].n + 1); c2 = (unsigned char *) malloc(b[0].n + a->ab + 1);
        rc = a->encd(c, mac, &maclen, b[0].p, b[0].n, b[1].n ? b[1].p : NULL, b[1].n, NULL, b[2].p, b[3].p);
        rc2 = a->enc(c2, &clen, b[0].p, b[0].n, b[1].n ? b[1].p : NULL, b[1].n, NULL, b[2].p, b[3].p);
        if (rc != 0 || rc2 != 0) fprintf(o, "RC=%d/%d ", rc, rc2);
        if (maclen != a->ab || clen != b[0].n + a->ab || memcmp(c, c2, b[0].n) || memcmp(mac, c2 + b[0].n, a->ab)) fputs("FORMS-DIFFER ", o);
        {   /* round trip through both decrypt forms */
            unsigned char *m2 = (unsigned char *) malloc(b[0].n + 1); unsigned long long ml = 0;
            if (a->decd(m2, NULL, c, b[0].n, mac, b[1].n ? b[1].p : NULL, b[1].n, b[2].p, b[3].p) != 0 || memcmp(m2, b[0].p, b[0].n)) fputs("ROUNDTRIP-DETACHED-FAIL ", o);
            memset(m2, 0, b[0].n);
            if (a->dec(m2, &ml, NULL, c2, clen, b[1].n ? b[1].p : NULL, b[1].n, b[2].p, b[3].p) != 0 || ml != b[0].n || memcmp(m2, b[0].p, b[0].n)) fputs("ROUNDTRIP-COMBINED-FAIL ", o);
            free(m2);
        }
        hx_put_hex(o, c, b[0].n); fputc(' ', o); hx_put_hex(o, mac, a->ab);
        free(c); free(c2); freeb(b, 4); return 0;
    }
    if (strcmp(sfx, "encip") == 0) {        /* in place: m ad n k -> "c mac" with c == m */
        unsigned char *buf, mac[32]; unsigned long long maclen = 0; int rc;
        if (nbufs(argc, argv, b, 4)) return -1;
        if (b[2].n != a->nb || b[3].n != a->kb) { freeb(b, 4); return -1; }
        buf = (unsigned char *) malloc(b[0].n + 1); memcpy(buf, b[0].p, b[0].n);
        rc = a->encd(buf, mac, &maclen, buf, b[0].n, b[1].n ? b[1].p : NULL, b[1].n, NULL, b[2].p, b[3].p);
        if (rc) fprintf(o, "RC=%d ", rc);
        hx_put_hex(o, buf, b[0].n); fputc(' ', o); hx_put_hex(o, mac, a->ab); free(buf); freeb(b, 4); return 0;
    }
    if (strcmp(sfx, "decip") == 0) {        /* in place decrypt: c mac ad n k -> "rc m" with m == c */
        unsigned char *buf; int rc;
        if (nbufs(argc, argv, b, 5)) return -1;
        if (b[1].n != a->ab || b[3].n != a->nb || b[4].n != a->kb) { freeb(b, 5); return -1; }
        buf = (unsigned char *) malloc(b[0].n + 1); memcpy(buf, b[0].p, b[0].n);
        rc = a->decd(buf, NULL, buf, b[0].n, b[1].p, b[2].n ? b[2].p : NULL, b[2].n, b[3].p, b[4].p);
        fprintf(o, "%d %llu ", rc, rc == 0 ? (unsigned long long) b[0].n : 0ULL); hx_put_hex(o, buf, b[0].n); free(buf); freeb(b, 5); return 0;
    }
    if (strcmp(sfx, "dec") == 0) {          /* w c mac ad n k */
        int w, rc; unsigned char *m;
        if (argc != 6) return -1;
        w = argv[0][0] == '1';
        if (nbufs(argc - 1, argv + 1, b, 5)) return -1;
        if (b[1].n != a->ab || b[3].n != a->nb || b[4].n != a->kb) { freeb(b, 5); return -1; }
        m = (unsigned char *) malloc(b[0].n + 1); memset(m, 0x5c, b[0].n);
        rc = a->decd(w ? m : NULL, NULL, b[0].p, b[0].n, b[1].p, b[2].n ? b[2].p : NULL, b[2].n, b[3].p, b[4].p);
        fprintf(o, "%d %llu ", rc, rc == 0 ? (unsigned long long) b[0].n : 0ULL); hx_put_hex(o, m, b[0].n);
        free(m); freeb(b, 5); return 0;
    }
    if (strcmp(sfx, "decc") == 0) {         /* w cm ad n k */
        int w, rc; unsigned char *m; unsigned long long mlen = 12345; size_t cap;
        if (argc != 5) return -1;
        w = argv[0][0] == '1';
        if (nbufs(argc - 1, argv + 1, b, 4)) return -1;
        if (b[2].n != a->nb || b[3].n != a->kb) { freeb(b, 4); return -1; }
        cap = b[0].n >= a->ab ? b[0].n - a->ab : 0;
        m = (unsigned char *) malloc(cap + 1); memset(m, 0x5c, cap);
        rc = a->dec(w ? m : NULL, &mlen, NULL, b[0].p, b[0].n, b[1].n ? b[1].p : NULL, b[1].n, b[2].p, b[3].p);
        fprintf(o, "%d %llu ", rc, mlen); hx_put_hex(o, m, cap);
        free(m); freeb(b, 4); return 0;
    }
    return -1;
}

/* secretbox.<xsalsa|xchacha>.<enc|dec|decc> */
static int sb_common(int xc, const char *sfx, int argc, char **argv, FILE *o) {
    buf_t b[5];
    if (strcmp(sfx, "enc") == 0) {          /* m n k */
        unsigned char *c, *e, mac[16]; int rc, rc2;
        if (nbufs(argc, argv, b, 3)) return -1;
        if (b[1].n != 24 || b[2].n != 32) { freeb(b, 3); return -1; }
        c = (unsigned char *) malloc(b[0].n + 1); e = (unsigned char *) malloc(b[0].n + 17);
        if (xc) { rc = crypto_secretbox_xchacha20poly1305_detached(c, mac, b[0].p, b[0].n, b[1].p, b[2].p); rc2 = crypto_secretbox_xchacha20poly1305_easy(e, b[0].p, b[0].n, b[1].p, b[2].p); }
        else { rc = crypto_secretbox_detached(c, mac, b[0].p, b[0].n, b[1].p, b[2].p); rc2 = crypto_secretbox_easy(e, b[0].p, b[0].n, b[1].p, b[2].p); }
        if (rc || rc2) fprintf(o, "RC=%d/%d ", rc, rc2);
        if (memcmp(e, mac, 16) || memcmp(e + 16, c, b[0].n)) fputs("FORMS-DIFFER ", o);
        {
            unsigned char *m2 = (unsigned char *) malloc(b[0].n + 1);
            int r1 = xc ? crypto_secretbox_xchacha20poly1305_open_easy(m2, e, b[0].n + 16, b[1].p, b[2].p) : crypto_secretbox_open_easy(m2, e, b[0].n + 16, b[1].p, b[2].p);
            if (r1 != 0 || memcmp(m2, b[0].p, b[0].n)) fputs("ROUNDTRIP-FAIL ", o);
            free(m2);
        }
        hx_put_hex(o, c, b[0].n); fputc(' ', o); hx_put_hex(o, mac, 16);
        free(c); free(e); freeb(b, 3); return 0;
    }
    if (strcmp(sfx, "dec") == 0) {          /* w c mac n k */
        int w, rc; unsigned char *m;
        if (argc != 5) return -1; w = argv[0][0] == '1';
        if (nbufs(argc - 1, argv + 1, b, 4)) return -1;
        if (b[1].n != 16 || b[2].n != 24 || b[3].n != 32) { freeb(b, 4); return -1; }
        m = (unsigned char *) malloc(b[0].n + 1); memset(m, 0x5c, b[0].n);
        rc = xc ? crypto_secretbox_xchacha20poly1305_open_detached(w ? m : NULL, b[0].p, b[1].p, b[0].n, b[2].p, b[3].p)
                : crypto_secretbox_open_detached(w ? m : NULL, b[0].p, b[1].p, b[0].n, b[2].p, b[3].p);
        fprintf(o, "%d %llu ", rc, rc == 0 ? (unsigned long long) b[0].n : 0ULL); hx_put_hex(o, m, b[0].n);
        free(m); freeb(b, 4); return 0;
    }
    if (strcmp(sfx, "decc") == 0) {         /* w cm n k */
        int w, rc; unsigned char *m; size_t cap;
        if (argc != 4) return -1; w = argv[0][0] == '1';
        if (nbufs(argc - 1, argv + 1, b, 3)) return -1;
        if (b[1].n != 24 || b[2].n != 32) { freeb(b, 3); return -1; }
        cap = b[0].n >= 16 ? b[0].n - 16 : 0;
        m = (unsigned char *) malloc(cap + 1); memset(m, 0x5c, cap);
        rc = xc ? crypto_secretbox_xchacha20poly1305_open_easy(w ? m : NULL, b[0].p, b[0].n, b[1].p, b[2].p)
                : crypto_secretbox_open_easy(w ? m : NULL, b[0].p, b[0].n, b[1].p, b[2].p);
        fprintf(o, "%d %llu ", rc, rc == 0 ? (unsigned long long) cap : 0ULL); hx_put_hex(o, m, cap);
        free(m); freeb(b, 3); return 0;
    }
    return -1;
}
static int op_sb_xs_enc(int c, char **v, FILE *o) { return sb_common(0, "enc", c, v, o); }
static int op_sb_xs_dec(int c, char **v, FILE *o) { return sb_common(0, "dec", c, v, o); }
static int op_sb_xs_decc(int c, char **v, FILE *o) { return sb_common(0, "decc", c, v, o); }
static int op_sb_xc_enc(int c, char **v, FILE *o) { return sb_common(1, "enc", c, v, o); }
static int op_sb_xc_dec(int c, char **v, FILE *o) { return sb_common(1, "dec", c, v, o); }
static int op_sb_xc_decc(int c, char **v, FILE *o) { return sb_common(1, "decc", c, v, o); }
static int op_nacl_box(int argc, char **argv, FILE *o) {
    buf_t b[3]; unsigned char *c; int rc;
    if (nbufs(argc, argv, b, 3)) return -1;
    if (b[1].n != 24 || b[2].n != 32) { freeb(b, 3); return -1; }
    c = (unsigned char *) malloc(b[0].n + 1); memset(c, 0x5c, b[0].n);
    rc = crypto_secretbox_xsalsa20poly1305(c, b[0].p, b[0].n, b[1].p, b[2].p);
    if (rc == 0 && crypto_secretbox(c, b[0].p, b[0].n, b[1].p, b[2].p) != 0) fputs("DEFAULT-RC ", o);
    if (rc != 0) fprintf(o, "%d", rc); else { fputs("0 ", o); hx_put_hex(o, c, b[0].n); }
    free(c); freeb(b, 3); return 0;
}
static int op_nacl_open(int argc, char **argv, FILE *o) {
    buf_t b[3]; unsigned char *m; int rc;
    if (nbufs(argc, argv, b, 3)) return -1;
    if (b[1].n != 24 || b[2].n != 32) { freeb(b, 3); return -1; }
    m = (unsigned char *) malloc(b[0].n + 1); memset(m, 0x5c, b[0].n);
    rc = crypto_secretbox_xsalsa20poly1305_open(m, b[0].p, b[0].n, b[1].p, b[2].p);
    if (rc != 0) fprintf(o, "%d", rc); else { fputs("0 ", o); hx_put_hex(o, m, b[0].n); }
    free(m); freeb(b, 3); return 0;
}
static int op_beforenm(int argc, char **argv, FILE *o) {
    buf_t b[2]; unsigned char k[32]; int rc;
    if (argc != 3 || nbufs(argc - 1, argv + 1, b, 2)) return -1;
    if (b[0].n != 32 || b[1].n != 32) { freeb(b, 2); return -1; }
    rc = strcmp(argv[0], "xsalsa") == 0 ? crypto_box_beforenm(k, b[0].p, b[1].p) : crypto_box_curve25519xchacha20poly1305_beforenm(k, b[0].p, b[1].p);
    if (rc != 0) fprintf(o, "%d", rc); else { fputs("0 ", o); hx_put_hex(o, k, 32); }
    {   /* aliased call forms of a fixed-size API: the shared key written over the secret key / over the public key (e.g. an ephemeral key replaced by the shared key) */
        unsigned char a1[32], a2[32]; int r1, r2, xs = strcmp(argv[0], "xsalsa") == 0;
        memcpy(a1, b[1].p, 32); memcpy(a2, b[0].p, 32);
        r1 = xs ? crypto_box_beforenm(a1, b[0].p, a1) : crypto_box_curve25519xchacha20poly1305_beforenm(a1, b[0].p, a1);
        r2 = xs ? crypto_box_beforenm(a2, a2, b[1].p) : crypto_box_curve25519xchacha20poly1305_beforenm(a2, a2, b[1].p);
        if (r1 != rc || (rc == 0 && memcmp(a1, k, 32))) fputs(" ALIAS-SK-DIFFERS", o);
        if (r2 != rc || (rc == 0 && memcmp(a2, k, 32))) fputs(" ALIAS-PK-DIFFERS", o);
    }
    freeb(b, 2); return 0;
}
const hx_op ops_c01[] = {
    {"secretbox.xsalsa.enc", op_sb_xs_enc}, {"secretbox.xsalsa.dec", op_sb_xs_dec}, {"secretbox.xsalsa.decc", op_sb_xs_decc},
    {"secretbox.xchacha.enc", op_sb_xc_enc}, {"secretbox.xchacha.dec", op_sb_xc_dec}, {"secretbox.xchacha.decc", op_sb_xc_decc},
    {"secretbox.nacl.box", op_nacl_box}, {"secretbox.nacl.open", op_nacl_open}, {"box.beforenm", op_beforenm}, {NULL, NULL}
};
