/* C04: hashes, MACs, KDFs. Chunk lists: each remaining argument is one update() chunk;
   exactly one chunk => the one-shot API is ALSO called and must agree (printed once if equal). */
#include "hx.h"
#include <errno.h>

static int chunks(int argc, char **argv, buf_t **out) {
    int i; buf_t *b = (buf_t *) calloc((size_t) argc + 1, sizeof *b);
    for (i = 0; i < argc; i++) if (hx_hex(argv[i], &b[i])) { while (i--) hx_free(&b[i]); free(b); return -1; }
    *out = b; return 0;
}
static void free_chunks(buf_t *b, int n) { int i; for (i = 0; i < n; i++) hx_free(&b[i]); free(b); }
static void put_pair(FILE *o, const unsigned char *multi, const unsigned char *one, size_t n, int have_one) {
    if (have_one && memcmp(multi, one, n) != 0) { fputs("ONESHOT-DIFFERS ", o); hx_put_hex(o, one, n); fputc(' ', o); }
    hx_put_hex(o, multi, n);
}
static int op_sha256(int argc, char **argv, FILE *o) {
    buf_t *c; int i; crypto_hash_sha256_state st; unsigned char h[32], h1[32];
    if (chunks(argc, argv, &c)) return -1;
    crypto_hash_sha256_init(&st); for (i = 0; i < argc; i++) crypto_hash_sha256_update(&st, c[i].p, c[i].n); crypto_hash_sha256_final(&st, h);
    if (argc == 1) crypto_hash_sha256(h1, c[0].p, c[0].n);
    put_pair(o, h, h1, 32, argc == 1); free_chunks(c, argc); return 0;
}
static int op_sha512(int argc, char **argv, FILE *o) {
    buf_t *c; int i; crypto_hash_sha512_state st; unsigned char h[64], h1[64];
    if (chunks(argc, argv, &c)) return -1;
    crypto_hash_sha512_init(&st); for (i = 0; i < argc; i++) crypto_hash_sha512_update(&st, c[i].p, c[i].n); crypto_hash_sha512_final(&st, h);
    if (argc == 1) crypto_hash_sha512(h1, c[0].p, c[0].n);
    put_pair(o, h, h1, 64, argc == 1); free_chunks(c, argc); return 0;
}
#define HMAC_OP(NAME, ALG, N) \
static int NAME(int argc, char **argv, FILE *o) { \
    buf_t *c; int i; crypto_auth_##ALG##_state st; unsigned char h[N], h1[N]; \
    if (argc < 1 || chunks(argc, argv, &c)) return -1; \
    crypto_auth_##ALG##_init(&st, c[0].p, c[0].n); \
    for (i = 1; i < argc; i++) crypto_auth_##ALG##_update(&st, c[i].p, c[i].n); \
    crypto_auth_##ALG##_final(&st, h); \
    if (argc == 2 && c[0].n == crypto_auth_##ALG##_KEYBYTES) crypto_auth_##ALG(h1, c[1].p, c[1].n, c[0].p); \
    put_pair(o, h, h1, N, argc == 2 && c[0].n == crypto_auth_##ALG##_KEYBYTES); free_chunks(c, argc); return 0; }
HMAC_OP(op_hmac256, hmacsha256, 32)
HMAC_OP(op_hmac512, hmacsha512, 64)
HMAC_OP(op_hmac512256, hmacsha512256, 32)

static int op_auth_verify(int argc, char **argv, FILE *o) {
    buf_t t, m, k; int rc = 99;
    if (argc != 4 || hx_hex(argv[1], &t)) return -1;
    if (hx_hex(argv[2], &m)) { hx_free(&t); return -1; }
    if (hx_hex(argv[3], &k)) { hx_free(&t); hx_free(&m); return -1; }
    if (k.n != 32) { rc = 98; }
    else if (!strcmp(argv[0], "hmacsha256") && t.n == 32) rc = crypto_auth_hmacsha256_verify(t.p, m.p, m.n, k.p);
    else if (!strcmp(argv[0], "hmacsha512") && t.n == 64) rc = crypto_auth_hmacsha512_verify(t.p, m.p, m.n, k.p);
    else if (!strcmp(argv[0], "hmacsha512256") && t.n == 32) {
        rc = crypto_auth_hmacsha512256_verify(t.p, m.p, m.n, k.p);
        if (rc != crypto_auth_verify(t.p, m.p, m.n, k.p)) rc = 97;   /* default crypto_auth must agree */
    }
    else if (!strcmp(argv[0], "poly1305") && t.n == 16) rc = crypto_onetimeauth_poly1305_verify(t.p, m.p, m.n, k.p);
    hx_free(&t); hx_free(&m); hx_free(&k);
    if (rc > 90) return -1;
    fprintf(o, "%d", rc); return 0;
}
static int op_generichash(int argc, char **argv, FILE *o) {
    uint64_t outlen; buf_t key, salt, pers, *c; int i, nc = argc - 4, rc, have_s, have_p; 
    crypto_generichash_blake2b_state st; unsigned char h[256], h1[256];
    if (argc < 4 || hx_u64(argv[0], &outlen) || outlen > 200) return -1;
    if (hx_hex(argv[1], &key)) return -1;
    have_s = strcmp(argv[2], "N") != 0; have_p = strcmp(argv[3], "N") != 0;
    salt.p = pers.p = NULL; salt.n = pers.n = 0;
    if (have_s && (hx_hex(argv[2], &salt) || salt.n != 16)) return -1;
    if (have_p && (hx_hex(argv[3], &pers) || pers.n != 16)) return -1;
    if (chunks(nc, argv + 4, &c)) return -1;
    memset(h, 0x5c, sizeof h); memset(h1, 0x5c, sizeof h1);
    rc = crypto_generichash_blake2b_init_salt_personal(&st, key.n ? key.p : NULL, key.n, (size_t) outlen, have_s ? salt.p : NULL, have_p ? pers.p : NULL);
    if (rc == 0) {
        for (i = 0; i < nc; i++) crypto_generichash_blake2b_update(&st, c[i].p, c[i].n);
        rc = crypto_generichash_blake2b_final(&st, h, (size_t) outlen);
    }
    if (rc != 0) { fprintf(o, "%d", rc); }
    else {
        int have_one = 0;
        if (nc == 1) {
            have_one = 1;
            if (crypto_generichash_blake2b_salt_personal(h1, (size_t) outlen, c[0].p, c[0].n, key.n ? key.p : NULL, key.n, have_s ? salt.p : NULL, have_p ? pers.p : NULL) != 0) have_one = 0, fputs("ONESHOT-RC ", o);
            if (!have_s && !have_p) {   /* the default API must agree too */
                unsigned char h2[256];
                if (crypto_generichash(h2, (size_t) outlen, c[0].p, c[0].n, key.n ? key.p : NULL, key.n) != 0 || memcmp(h2, h1, outlen)) fputs("DEFAULT-DIFFERS ", o);
            }
        }
        fputs("0 ", o); put_pair(o, h, h1, (size_t) outlen, have_one);
    }
    free_chunks(c, nc); hx_free(&key); if (have_s) hx_free(&salt); if (have_p) hx_free(&pers); return 0;
}
/* generichash.lens <outlen> <keylen>: return codes of the six BLAKE2b entry points for an (outlen, keylen) pair of ANY size ("out-of-range lengths are refused") */
static int op_generichash_lens(int argc, char **argv, FILE *o) {
    uint64_t ol, kl; unsigned char *out, *key; crypto_generichash_blake2b_state st; crypto_generichash_state gst; static const unsigned char m[3] = { 'a', 'b', 'c' };
    if (argc != 2 || hx_u64(argv[0], &ol) || hx_u64(argv[1], &kl) || ol > (1u << 24) || kl > (1u << 24)) return -1;
    out = (unsigned char *) malloc((size_t) ol + 64); key = (unsigned char *) malloc((size_t) kl + 1);
    if (!out || !key) return -1;
    memset(key, 0x42, (size_t) kl + 1);
    fprintf(o, "%d", crypto_generichash_blake2b(out, (size_t) ol, m, 3, kl ? key : NULL, (size_t) kl));
    fprintf(o, " %d", crypto_generichash_blake2b_salt_personal(out, (size_t) ol, m, 3, kl ? key : NULL, (size_t) kl, NULL, NULL));
    fprintf(o, " %d", crypto_generichash_blake2b_init(&st, kl ? key : NULL, (size_t) kl, (size_t) ol));
    fprintf(o, " %d", crypto_generichash_blake2b_init_salt_personal(&st, kl ? key : NULL, (size_t) kl, (size_t) ol, NULL, NULL));
    fprintf(o, " %d", crypto_generichash(out, (size_t) ol, m, 3, kl ? key : NULL, (size_t) kl));
    fprintf(o, " %d", crypto_generichash_init(&gst, kl ? key : NULL, (size_t) kl, (size_t) ol));
    free(out); free(key); return 0;
}
static int op_shorthash(int argc, char **argv, FILE *o) {
    buf_t k, m; unsigned char h[16];
    if (argc != 3 || hx_hex(argv[1], &k)) return -1;
    if (hx_hex(argv[2], &m) || k.n != 16) { hx_free(&k); return -1; }
    if (!strcmp(argv[0], "24")) { crypto_shorthash_siphash24(h, m.p, m.n, k.p); hx_put_hex(o, h, 8); }
    else { crypto_shorthash_siphashx24(h, m.p, m.n, k.p); hx_put_hex(o, h, 16); }
    hx_free(&k); hx_free(&m); return 0;
}
static int op_onetimeauth(int argc, char **argv, FILE *o) {
    buf_t *c; int i; crypto_onetimeauth_poly1305_state st; unsigned char h[16], h1[16];
    if (argc < 1 || chunks(argc, argv, &c)) return -1;
    if (c[0].n != 32) { free_chunks(c, argc); return -1; }
    crypto_onetimeauth_poly1305_init(&st, c[0].p);
    for (i = 1; i < argc; i++) crypto_onetimeauth_poly1305_update(&st, c[i].p, c[i].n);
    crypto_onetimeauth_poly1305_final(&st, h);
    if (argc == 2) crypto_onetimeauth_poly1305(h1, c[1].p, c[1].n, c[0].p);
    put_pair(o, h, h1, 16, argc == 2); free_chunks(c, argc); return 0;
}
#define HKDF_OPS(SFX, N) \
static int op_hkdf##SFX##_extract(int argc, char **argv, FILE *o) { \
    buf_t *c; int i; crypto_kdf_hkdf_sha##SFX##_state st; unsigned char h[N], h1[N]; \
    if (argc < 1 || chunks(argc, argv, &c)) return -1; \
    crypto_kdf_hkdf_sha##SFX##_extract_init(&st, c[0].p, c[0].n); \
    for (i = 1; i < argc; i++) crypto_kdf_hkdf_sha##SFX##_extract_update(&st, c[i].p, c[i].n); \
    crypto_kdf_hkdf_sha##SFX##_extract_final(&st, h); \
    if (argc == 2) crypto_kdf_hkdf_sha##SFX##_extract(h1, c[0].p, c[0].n, c[1].p, c[1].n); \
    put_pair(o, h, h1, N, argc == 2); free_chunks(c, argc); return 0; } \
static int op_hkdf##SFX##_expand(int argc, char **argv, FILE *o) { \
    uint64_t n; buf_t ctx, prk; unsigned char *out; int rc; \
    if (argc != 3 || hx_u64(argv[0], &n) || n > 70000 || hx_hex(argv[1], &ctx)) return -1; \
    if (hx_hex(argv[2], &prk) || prk.n != N) { hx_free(&ctx); return -1; } \
    out = (unsigned char *) malloc(n ? n : 1); \
    rc = crypto_kdf_hkdf_sha##SFX##_expand(out, (size_t) n, (const char *) ctx.p, ctx.n, prk.p); \
    if (rc != 0) fprintf(o, "%d", rc); else { fputs("0 ", o); hx_put_hex(o, out, n); } \
    free(out); hx_free(&ctx); hx_free(&prk); return 0; }
HKDF_OPS(256, 32)
HKDF_OPS(512, 64)
static int op_kdf_blake2b(int argc, char **argv, FILE *o) {
    uint64_t n, id; buf_t ctx, key; static unsigned char out[(1 << 17) + 64]; int rc;
    if (argc != 4 || hx_u64(argv[0], &n) || n > (1 << 17) || hx_u64(argv[1], &id) || hx_hex(argv[2], &ctx)) return -1;
    if (hx_hex(argv[3], &key) || key.n != 32 || ctx.n != 8) { hx_free(&ctx); return -1; }
    rc = crypto_kdf_blake2b_derive_from_key(out, (size_t) n, id, (const char *) ctx.p, key.p);
    if (rc == 0) { static unsigned char o2[(1 << 17) + 64]; if (crypto_kdf_derive_from_key(o2, (size_t) n, id, (const char *) ctx.p, key.p) != 0 || memcmp(out, o2, n)) fputs("DEFAULT-DIFFERS ", o); }
    if (rc != 0) fprintf(o, "%d", rc); else { fputs("0 ", o); hx_put_hex(o, out, n); }
    hx_free(&ctx); hx_free(&key); return 0;
}
const hx_op ops_c04[] = {
    {"hash.sha256", op_sha256}, {"hash.sha512", op_sha512}, {"auth.hmacsha256", op_hmac256}, {"auth.hmacsha512", op_hmac512},
    {"auth.hmacsha512256", op_hmac512256}, {"auth.verify", op_auth_verify}, {"generichash", op_generichash}, {"generichash.lens", op_generichash_lens}, {"shorthash", op_shorthash},
    {"onetimeauth", op_onetimeauth}, {"kdf.hkdf256.extract", op_hkdf256_extract}, {"kdf.hkdf256.expand", op_hkdf256_expand},
    {"kdf.hkdf512.extract", op_hkdf512_extract}, {"kdf.hkdf512.expand", op_hkdf512_expand}, {"kdf.blake2b", op_kdf_blake2b}, {NULL, NULL}
};
