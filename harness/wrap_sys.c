/* link-time wrappers (-Wl,--wrap=...) around the system / allocator calls libsodium makes:
   call log relative to the current mapping (C17) and failure injection (C20). Pass-through by default. */
#include <errno.h>
#include <stddef.h>
#include <stdio.h>
#include <stdlib.h>
#include <string.h>
#include <sys/mman.h>
#include "wrap_sys.h"

int hxw_log_on; char hxw_log[8192]; static size_t loglen; static unsigned char *map_base;
int hxw_fail_from = -1, hxw_fail_only = -1, hxw_count; int hxw_count_on;
int hxw_live_blocks; char hxw_events[16384]; static size_t evlen;

static void logf_(const char *fmt, unsigned long long a, unsigned long long b, const char *p) {
    if (loglen + 96 < sizeof hxw_log) loglen += (size_t) snprintf(hxw_log + loglen, sizeof hxw_log - loglen, fmt, a, b, p);
}
void hxw_log_reset(void) { loglen = 0; hxw_log[0] = 0; map_base = NULL; }
void hxw_log_keep_base(void) { loglen = 0; hxw_log[0] = 0; }
unsigned char *hxw_base(void) { return map_base; }
void hxw_ev_reset(void) { evlen = 0; hxw_events[0] = 0; hxw_count = 0; hxw_live_blocks = 0; }
static void ev(const char *s) { if (hxw_count_on && evlen + 16 < sizeof hxw_events) evlen += (size_t) snprintf(hxw_events + evlen, sizeof hxw_events - evlen, "%s", s); }
static int should_fail(void) {
    int i;
    if (!hxw_count_on) return 0;
    i = hxw_count++;
    return (hxw_fail_only >= 0 && i == hxw_fail_only) || (hxw_fail_from >= 0 && i >= hxw_fail_from);
}
static const char *prot_name(int prot) { return prot == PROT_NONE ? "none" : prot == PROT_READ ? "ro" : prot == (PROT_READ | PROT_WRITE) ? "rw" : "other"; }

void *__real_mmap(void *, size_t, int, int, int, long);
int __real_munmap(void *, size_t);
int __real_mprotect(void *, size_t, int);
int __real_mlock(const void *, size_t);
int __real_munlock(const void *, size_t);
void *__real_malloc(size_t);
void *__real_calloc(size_t, size_t);
int __real_posix_memalign(void **, size_t, size_t);
void __real_free(void *);

void *__wrap_mmap(void *addr, size_t len, int prot, int flags, int fd, long off) {
    void *p;
    if (should_fail()) { ev("M!"); errno = ENOMEM; return MAP_FAILED; }
    p = __real_mmap(addr, len, prot, flags, fd, off);
    if (hxw_count_on && p != MAP_FAILED) { ev("M"); hxw_live_blocks++; }
    if (hxw_log_on && p != MAP_FAILED) { if (map_base == NULL) map_base = (unsigned char *) p; logf_("mmap(%llu)%.0llu%s ", len, 0, ""); }
    return p;
}
int __wrap_munmap(void *addr, size_t len) {
    if (hxw_count_on) { ev("U"); hxw_live_blocks--; }
    if (hxw_log_on && map_base) logf_("munmap(%llu,%llu)%s ", (unsigned long long) ((unsigned char *) addr - map_base), len, "");
    return __real_munmap(addr, len);
}
int __wrap_mprotect(void *addr, size_t len, int prot) {
    if (hxw_log_on && map_base) logf_("mprotect(%llu,%llu,%s) ", (unsigned long long) ((unsigned char *) addr - map_base), len, prot_name(prot));
    return __real_mprotect(addr, len, prot);
}
int __wrap_mlock(const void *addr, size_t len) {
    if (hxw_log_on && map_base) logf_("mlock(%llu,%llu)%s ", (unsigned long long) ((const unsigned char *) addr - map_base), len, "");
    (void) __real_mlock(addr, len);
    return 0;     /* RLIMIT_MEMLOCK must not influence the comparison */
}
int __wrap_munlock(const void *addr, size_t len) {
    if (hxw_log_on && map_base) logf_("munlock(%llu,%llu)%s ", (unsigned long long) ((const unsigned char *) addr - map_base), len, "");
    (void) __real_munlock(addr, len);
    return 0;
}
void *__wrap_malloc(size_t n) {
    void *p;
    if (should_fail()) { ev("m!"); errno = ENOMEM; return NULL; }
    p = __real_malloc(n);
    if (hxw_count_on && p) { ev("m"); hxw_live_blocks++; }
    return p;
}
void *__wrap_calloc(size_t a, size_t b) {
    void *p;
    if (should_fail()) { ev("c!"); errno = ENOMEM; return NULL; }
    p = __real_calloc(a, b);
    if (hxw_count_on && p) { ev("c"); hxw_live_blocks++; }
    return p;
}
int __wrap_posix_memalign(void **pp, size_t al, size_t n) {
    int r;
    if (should_fail()) { ev("p!"); return ENOMEM; }
    r = __real_posix_memalign(pp, al, n);
    if (hxw_count_on && r == 0) { ev("p"); hxw_live_blocks++; }
    return r;
}
void __wrap_free(void *p) {
    if (hxw_count_on && p != NULL) { ev("f"); hxw_live_blocks--; }
    __real_free(p);
}

/* ---- scripted entropy / clock / pid (C18 rngint: the REAL randombytes_internal_random.c run deterministically).
   Pass-through unless hxw_rng_on.  Link with
   -Wl,--wrap=getentropy,--wrap=gettimeofday,--wrap=getpid,--wrap=open */
#include <fcntl.h>
#include <stdarg.h>
#include <sys/time.h>
#include <sys/types.h>
#include <unistd.h>
int hxw_rng_on, hxw_rng_open_fail;
const unsigned char *hxw_rng_ent[HXW_RNG_MAX]; long hxw_rng_entlen[HXW_RNG_MAX]; int hxw_rng_nent;   /* entlen < 0: getentropy fails */
long long hxw_rng_sec[HXW_RNG_MAX], hxw_rng_usec[HXW_RNG_MAX]; int hxw_rng_ntime;                    /* usec < 0: gettimeofday fails */
long hxw_rng_pid[HXW_RNG_MAX]; int hxw_rng_npid;                                                      /* past the end: the last one repeats */
size_t hxw_rng_ent_log[HXW_RNG_MAX]; int hxw_rng_ent_calls, hxw_rng_time_calls, hxw_rng_pid_calls, hxw_rng_open_calls;

int __real_getentropy(void *, size_t);
int __real_gettimeofday(struct timeval *, void *);
pid_t __real_getpid(void);
int __real_open(const char *, int, ...);

int __wrap_getentropy(void *buf, size_t n) {
    int k; size_t i;
    if (!hxw_rng_on) return __real_getentropy(buf, n);
    k = hxw_rng_ent_calls++;
    if (k < HXW_RNG_MAX) hxw_rng_ent_log[k] = n;
    if (k >= hxw_rng_nent || hxw_rng_entlen[k] < 0) { errno = EIO; return -1; }
    for (i = 0; i < n; i++) ((unsigned char *) buf)[i] = i < (size_t) hxw_rng_entlen[k] ? hxw_rng_ent[k][i] : 0;
    return 0;
}
int __wrap_gettimeofday(struct timeval *tv, void *tz) {
    int k;
    if (!hxw_rng_on) return __real_gettimeofday(tv, tz);
    k = hxw_rng_time_calls++;
    if (k >= hxw_rng_ntime || hxw_rng_usec[k] < 0) { errno = EINVAL; return -1; }
    tv->tv_sec = (time_t) hxw_rng_sec[k]; tv->tv_usec = (suseconds_t) hxw_rng_usec[k];
    return 0;
}
pid_t __wrap_getpid(void) {
    int k;
    if (!hxw_rng_on) return __real_getpid();
    k = hxw_rng_pid_calls++;
    if (hxw_rng_npid == 0) return 0;
    return (pid_t) hxw_rng_pid[k < hxw_rng_npid ? k : hxw_rng_npid - 1];
}
int __wrap_open(const char *path, int flags, ...) {
    mode_t mode = 0;
    if (flags & O_CREAT) { va_list ap; va_start(ap, flags); mode = (mode_t) va_arg(ap, int); va_end(ap); }
    if (hxw_rng_on && (!strcmp(path, "/dev/random") || !strcmp(path, "/dev/urandom"))) {
        if (!strcmp(path, "/dev/urandom")) hxw_rng_open_calls++;
        if (hxw_rng_open_fail) { errno = ENOENT; return -1; }
    }
    return __real_open(path, flags, mode);
}
