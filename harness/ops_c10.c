/* C10: CPU feature decoding through hook H2 (synthetic CPUID / XGETBV values) */
#include "hx.h"
int _sodium_verif_decode_cpu_features(const uint32_t in[5], int out[10]);

static void dec_line(char *s, size_t cap, const uint32_t in[5]) {
    int out[10], rc, i; size_t n;
    rc = _sodium_verif_decode_cpu_features(in, out);
    n = (size_t) snprintf(s, cap, "%d ", rc);
    for (i = 0; i < 10 && n + 2 < cap; i++) s[n++] = out[i] ? '1' : '0';
    s[n] = 0;
}
static void regs_of(uint64_t i, uint32_t in[5]) {
#define BIT(k, m) ((i >> (k)) & 1 ? (m) : 0u)
    in[0] = (i >> 17) & 1 ? 0u : 7u;
    in[1] = BIT(0, 0x00000001u) | BIT(1, 0x00000002u) | BIT(2, 0x00000200u) | BIT(3, 0x00080000u) | BIT(4, 0x02000000u) |
            BIT(5, 0x04000000u) | BIT(6, 0x08000000u) | BIT(7, 0x10000000u) | BIT(8, 0x40000000u);
    in[2] = BIT(9, 0x04000000u);
    in[3] = BIT(10, 0x00000020u) | BIT(11, 0x00010000u);
    in[4] = BIT(12, 0x2u) | BIT(13, 0x4u) | BIT(14, 0x20u) | BIT(15, 0x40u) | BIT(16, 0x80u);
}
/* first argument: "1" when the build can execute XGETBV (HAVE_AVX_ASM), informational for the model */
static int op_decode(int argc, char **argv, FILE *o) {
    uint64_t v[5]; uint32_t in[5]; char s[64]; int i;
    if (argc != 6) return -1;
    for (i = 0; i < 5; i++) { if (hx_u64(argv[i + 1], &v[i]) || v[i] > 0xffffffffULL) return -1; in[i] = (uint32_t) v[i]; }
    dec_line(s, sizeof s, in); fputs(s, o); return 0;
}
static int op_enum(int argc, char **argv, FILE *o) {
    uint64_t lo, hi, i, h = FNV_INIT; uint32_t in[5]; char s[64];
    if (argc != 3 || hx_u64(argv[1], &lo) || hx_u64(argv[2], &hi)) return -1;
    for (i = lo; i < hi; i++) { regs_of(i, in); dec_line(s, sizeof s, in); h = fnv_str(h, s); }
    fprintf(o, "%016llx", (unsigned long long) h); return 0;
}

/* Long-length cross-backend ops. The AEGIS length block holds the two 64-bit BIT lengths; their upper halves are non-zero only from 2^29 bytes on,
   which no op line can carry as hex. These ops build the long zero-filled operand themselves (calloc: untouched zero pages, nothing is written for the AD),
   so the Python side can run the same line under two CPU masks (AES-NI backend / software-AES backend) and compare the outputs.
     aegis.longad  <128l|256> <adlen> <key> <nonce> <msg>            -> "<rc> <c> <mac>"        (encrypt_detached, AD = adlen zero bytes)
     aegis.longad  <128l|256> <adlen> <key> <nonce> <msg> <c> <mac>  -> "<rc> <m>"              (decrypt_detached of a ciphertext sealed elsewhere; m pre-filled 0x5c)
     aegis.longmsg <128l|256> <mlen>  <key> <nonce> <ad>             -> "<rc> <fnv64(c)> <mac>"  (message = mlen zero bytes, encrypted in place)
     aegis.longmsg <128l|256> <mlen>  <key> <nonce> <ad> <mac>       -> "<rc> <fnv64(c)> <mac'> <rc of decrypt_detached(c, SUPPLIED mac) in place> <1 if all-zero again>"
                                                                        (the supplied tag is the one another backend computed for the same line) */
typedef struct { const char *name; size_t kb, nb;
                 int (*encd)(unsigned char *, unsigned char *, unsigned long long *, const unsigned char *, unsigned long long, const unsigned char *, unsigned long long,
                             const unsigned char *, const unsigned char *, const unsigned char *);
                 int (*decd)(unsigned char *, unsigned char *, const unsigned char *, unsigned long long, const unsigned char *, const unsigned char *, unsigned long long,
                             const unsigned char *, const unsigned char *); } aegis_t;
static const aegis_t aegis_variants[] = {
    {"128l", 16, 16, crypto_aead_aegis128l_encrypt_detached, crypto_aead_aegis128l_decrypt_detached},
    {"256", 32, 32, crypto_aead_aegis256_encrypt_detached, crypto_aead_aegis256_decrypt_detached},
    {NULL, 0, 0, NULL, NULL} };
static const aegis_t *aegis_find(const char *s) { const aegis_t *a; for (a = aegis_variants; a->name; a++) if (strcmp(a->name, s) == 0) return a; return NULL; }
#define LONG_MAX_BYTES (1ULL << 33)

static int op_longad(int argc, char **argv, FILE *o) {
    const aegis_t *a; uint64_t adlen; buf_t k, n, m, c, mac; unsigned char *ad, *out, tag[32]; unsigned long long maclen = 0; int rc, dec = argc == 7;
    if ((argc != 5 && argc != 7) || (a = aegis_find(argv[0])) == NULL || hx_u64(argv[1], &adlen) || adlen > LONG_MAX_BYTES) return -1;
    if (hx_hex(argv[2], &k)) return -1;
    if (hx_hex(argv[3], &n)) { hx_free(&k); return -1; }
    if (hx_hex(argv[4], &m)) { hx_free(&k); hx_free(&n); return -1; }
    if (k.n != a->kb || n.n != a->nb) { hx_free(&k); hx_free(&n); hx_free(&m); return -1; }
    ad = (unsigned char *) calloc(adlen ? adlen : 1, 1);
    if (ad == NULL) { fputs("no-memory", o); hx_free(&k); hx_free(&n); hx_free(&m); return 0; }
    if (!dec) {
        out = (unsigned char *) hx_alloc(m.n);
        rc = a->encd(out, tag, &maclen, m.p, m.n, adlen ? ad : NULL, adlen, NULL, n.p, k.p);
        fprintf(o, "%d ", rc); hx_put_hex(o, out, m.n); fputc(' ', o); hx_put_hex(o, tag, (size_t) (maclen <= 32 ? maclen : 32));
        hx_release(out);
    } else {
        if (hx_hex(argv[5], &c)) { free(ad); hx_free(&k); hx_free(&n); hx_free(&m); return -1; }
        if (hx_hex(argv[6], &mac)) { free(ad); hx_free(&k); hx_free(&n); hx_free(&m); hx_free(&c); return -1; }
        if (mac.n != 32) { free(ad); hx_free(&k); hx_free(&n); hx_free(&m); hx_free(&c); hx_free(&mac); return -1; }
        out = (unsigned char *) hx_alloc(c.n); memset(out, 0x5c, c.n);
        rc = a->decd(out, NULL, c.p, c.n, mac.p, adlen ? ad : NULL, adlen, n.p, k.p);
        fprintf(o, "%d ", rc); hx_put_hex(o, out, c.n);
        hx_release(out); hx_free(&c); hx_free(&mac);
    }
    free(ad); hx_free(&k); hx_free(&n); hx_free(&m); return 0;
}
static int op_longmsg(int argc, char **argv, FILE *o) {
    const aegis_t *a; uint64_t mlen, i; buf_t k, n, ad, mac; unsigned char *buf, tag[32]; unsigned long long maclen = 0; int rc, rc2, zero = 1;
    if ((argc != 5 && argc != 6) || (a = aegis_find(argv[0])) == NULL || hx_u64(argv[1], &mlen) || mlen > LONG_MAX_BYTES) return -1;
    if (hx_hex(argv[2], &k)) return -1;
    if (hx_hex(argv[3], &n)) { hx_free(&k); return -1; }
    if (hx_hex(argv[4], &ad)) { hx_free(&k); hx_free(&n); return -1; }
    if (k.n != a->kb || n.n != a->nb) { hx_free(&k); hx_free(&n); hx_free(&ad); return -1; }
    buf = (unsigned char *) calloc(mlen ? mlen : 1, 1);
    if (buf == NULL) { fputs("no-memory", o); hx_free(&k); hx_free(&n); hx_free(&ad); return 0; }
    rc = a->encd(buf, tag, &maclen, buf, mlen, ad.n ? ad.p : NULL, ad.n, NULL, n.p, k.p);
    fprintf(o, "%d %016llx ", rc, (unsigned long long) fnv_bytes(FNV_INIT, buf, (size_t) mlen)); hx_put_hex(o, tag, (size_t) (maclen <= 32 ? maclen : 32));
    if (argc == 6) {
        if (hx_hex(argv[5], &mac)) { fputs(" bad-mac", o); }
        else if (mac.n != 32) { fputs(" bad-mac", o); hx_free(&mac); }
        else {
            rc2 = a->decd(buf, NULL, buf, mlen, mac.p, ad.n ? ad.p : NULL, ad.n, n.p, k.p);
            for (i = 0; i < mlen; i++) if (buf[i]) { zero = 0; break; }
            fprintf(o, " %d %d", rc2, zero);
            hx_free(&mac);
        }
    }
    free(buf); hx_free(&k); hx_free(&n); hx_free(&ad); return 0;
}
const hx_op ops_c10[] = { {"rt.decode", op_decode}, {"enum.rt.decode", op_enum}, {"aegis.longad", op_longad}, {"aegis.longmsg", op_longmsg}, {NULL, NULL} };
