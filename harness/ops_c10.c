/* C10: CPU feature decoding through hook H2 (synthetic CPUID / XGETBV values) */
#include "hx.h"
int _sodium_verif_decode_cpu_features(const uint32_t in[5], int out[10]);

static void dec_line(char *s, size_t cap, const uint32_t in[5]) {
    int out[10], rc, i; size_t n;
    rc = _sodium_verif_decode_cpu_features(in, out);
    n = (size_t) snprintf(s, cap, "%d ", rc);
    for (i = 0; i < 10 && n + 2 < cap; i++) s[n++] = out[i] ? '1' : '0';
    s[n] = 0;
}
static void regs_of(uint64_t i, uint32_t in[5]) {
#define BIT(k, m) ((i >> (k)) & 1 ? (m) : 0u)
    in[0] = (i >> 17) & 1 ? 0u : 7u;
    in[1] = BIT(0, 0x00000001u) | BIT(1, 0x00000002u) | BIT(2, 0x00000200u) | BIT(3, 0x00080000u) | BIT(4, 0x02000000u) |
            BIT(5, 0x04000000u) | BIT(6, 0x08000000u) | BIT(7, 0x10000000u) | BIT(8, 0x40000000u);
    in[2] = BIT(9, 0x04000000u);
    in[3] = BIT(10, 0x00000020u) | BIT(11, 0x00010000u);
    in[4] = BIT(12, 0x2u) | BIT(13, 0x4u) | BIT(14, 0x20u) | BIT(15, 0x40u) | BIT(16, 0x80u);
}
/* first argument: "1" when the build can execute XGETBV (HAVE_AVX_ASM), informational for the model */
static int op_decode(int argc, char **argv, FILE *o) {
    uint64_t v[5]; uint32_t in[5]; char s[64]; int i;
    if (argc != 6) return -1;
    for (i = 0; i < 5; i++) { if (hx_u64(argv[i + 1], &v[i]) || v[i] > 0xffffffffULL) return -1; in[i] = (uint32_t) v[i]; }
    dec_line(s, sizeof s, in); fputs(s, o); return 0;
}
static int op_enum(int argc, char **argv, FILE *o) {
    uint64_t lo, hi, i, h = FNV_INIT; uint32_t in[5]; char s[64];
    if (argc != 3 || hx_u64(argv[1], &lo) || hx_u64(argv[2], &hi)) return -1;
    for (i = lo; i < hi; i++) { regs_of(i, in); dec_line(s, sizeof s, in); h = fnv_str(h, s); }
    fprintf(o, "%016llx", (unsigned long long) h); return 0;
}
const hx_op ops_c10[] = { {"rt.decode", op_decode}, {"enum.rt.decode", op_enum}, {NULL, NULL} };
