/* C20: memory exhaustion — every allocation request of the password-hashing / guarded-allocation paths is failed in turn */
#include "hx.h"
#include "wrap_sys.h"
#include <errno.h>

#define OPS 1ULL
#define MEM 8192U

static char str_id[128], str_i[128], str_sc[128]; static int have_strs;
static const char *PW = "correct horse", *PW2 = "wrong horse";
static void make_strs(void) {
    if (have_strs) return;
    crypto_pwhash_argon2id_str(str_id, PW, strlen(PW), 1, MEM);
    crypto_pwhash_argon2i_str(str_i, PW, strlen(PW), 3, MEM);
    crypto_pwhash_scryptsalsa208sha256_str(str_sc, PW, strlen(PW), 32768, 1u << 20);
    have_strs = 1;
}
static int op_fault(int argc, char **argv, FILE *o) {
    const char *api, *mode; uint64_t i = 0; int rc = 99; char extra[256] = "";
    unsigned char out[256], salt[32]; char s[128];
    if (argc < 2) return -1;
    char apibuf[64]; size_t MEMV = MEM; char str_m[128];
    api = argv[0]; mode = argv[1];
    if (argc > 2 && hx_u64(argv[2], &i)) return -1;
    make_strs();
    {   /* "<api>.m<bytes>": the same call with another memory limit (the allocation sequence does not depend on it; the mapping size does) */
        const char *dot = strstr(api, ".m");
        if (dot != NULL) {
            uint64_t mv; if ((size_t) (dot - api) >= sizeof apibuf || hx_u64(dot + 2, &mv) || mv < 8192 || mv > (64u << 20)) return -1;
            memcpy(apibuf, api, (size_t) (dot - api)); apibuf[dot - api] = 0; api = apibuf; MEMV = (size_t) mv;
            if (strstr(api, "verify") && crypto_pwhash_argon2id_str(str_m, PW, strlen(PW), 1, MEMV) != 0) return -1;
        }
    }
#undef MEM
#define MEM MEMV
#define str_id (MEMV == 8192U ? str_id : str_m)
    memset(salt, 7, sizeof salt); memset(out, 0, sizeof out); memset(s, 0x5c, sizeof s);
    hxw_ev_reset();
    hxw_fail_only = !strcmp(mode, "only") ? (int) i : -1;
    hxw_fail_from = !strcmp(mode, "from") ? (int) i : -1;
    hxw_count_on = 1;
    if (!strcmp(api, "argon2id_raw")) rc = crypto_pwhash_argon2id(out, 32, PW, strlen(PW), salt, 1, MEM, crypto_pwhash_argon2id_ALG_ARGON2ID13);
    else if (!strcmp(api, "argon2i_raw")) rc = crypto_pwhash_argon2i(out, 32, PW, strlen(PW), salt, 3, MEM, crypto_pwhash_argon2i_ALG_ARGON2I13);
    else if (!strcmp(api, "argon2id_raw65")) rc = crypto_pwhash_argon2id(out, 65, PW, strlen(PW), salt, 1, MEM, crypto_pwhash_argon2id_ALG_ARGON2ID13);   /* output longer than one BLAKE2b block */
    else if (!strcmp(api, "argon2i_raw200")) rc = crypto_pwhash_argon2i(out, 200, PW, strlen(PW), salt, 3, MEM, crypto_pwhash_argon2i_ALG_ARGON2I13);
    else if (!strcmp(api, "pwhash_raw16")) rc = crypto_pwhash(out, 16, PW, strlen(PW), salt, 1, MEM, crypto_pwhash_ALG_DEFAULT);
    else if (!strcmp(api, "pwhash_raw")) rc = crypto_pwhash(out, 32, PW, strlen(PW), salt, 1, MEM, crypto_pwhash_ALG_DEFAULT);
    else if (!strcmp(api, "argon2id_str")) { rc = crypto_pwhash_argon2id_str(s, PW, strlen(PW), 1, MEM); }
    else if (!strcmp(api, "argon2i_str")) { rc = crypto_pwhash_argon2i_str(s, PW, strlen(PW), 3, MEM); }
    else if (!strcmp(api, "pwhash_str")) { rc = crypto_pwhash_str(s, PW, strlen(PW), 1, MEM); }
    else if (!strcmp(api, "argon2id_verify_ok")) rc = crypto_pwhash_argon2id_str_verify(str_id, PW, strlen(PW));
    else if (!strcmp(api, "argon2id_verify_wrong")) rc = crypto_pwhash_argon2id_str_verify(str_id, PW2, strlen(PW2));
    else if (!strcmp(api, "argon2i_verify_ok")) rc = crypto_pwhash_argon2i_str_verify(str_i, PW, strlen(PW));
    else if (!strcmp(api, "argon2i_verify_wrong")) rc = crypto_pwhash_argon2i_str_verify(str_i, PW2, strlen(PW2));
    else if (!strcmp(api, "pwhash_verify_ok")) rc = crypto_pwhash_str_verify(str_id, PW, strlen(PW));
    else if (!strcmp(api, "pwhash_verify_wrong")) rc = crypto_pwhash_str_verify(str_id, PW2, strlen(PW2));
    else if (!strcmp(api, "argon2id_needs_rehash")) rc = crypto_pwhash_argon2id_str_needs_rehash(str_id, 1, MEM);
    else if (!strcmp(api, "argon2id_needs_rehash_diff")) rc = crypto_pwhash_argon2id_str_needs_rehash(str_id, 2, MEM);
    else if (!strcmp(api, "argon2i_needs_rehash")) rc = crypto_pwhash_argon2i_str_needs_rehash(str_i, 3, MEM);
    else if (!strcmp(api, "pwhash_needs_rehash")) rc = crypto_pwhash_str_needs_rehash(str_id, 1, MEM);
    else if (!strcmp(api, "scrypt_raw")) rc = crypto_pwhash_scryptsalsa208sha256(out, 32, PW, strlen(PW), salt, 32768, 1u << 20);
    else if (!strcmp(api, "scrypt_str")) { rc = crypto_pwhash_scryptsalsa208sha256_str(s, PW, strlen(PW), 32768, 1u << 20); }
    else if (!strcmp(api, "scrypt_verify_ok")) rc = crypto_pwhash_scryptsalsa208sha256_str_verify(str_sc, PW, strlen(PW));
    else if (!strcmp(api, "scrypt_verify_wrong")) rc = crypto_pwhash_scryptsalsa208sha256_str_verify(str_sc, PW2, strlen(PW2));
    else if (!strcmp(api, "scrypt_ll")) rc = crypto_pwhash_scryptsalsa208sha256_ll((const uint8_t *) PW, strlen(PW), salt, 32, 16, 1, 1, out, 32);
    else if (!strcmp(api, "sodium_malloc")) { void *p = sodium_malloc(100); rc = p == NULL ? -1 : 0; if (p) { hxw_count_on = 0; sodium_free(p); hxw_live_blocks--; } }
    else if (!strcmp(api, "sodium_allocarray")) { void *p = sodium_allocarray(10, 10); rc = p == NULL ? -1 : 0; if (p) { hxw_count_on = 0; sodium_free(p); hxw_live_blocks--; } }
#undef MEM
#define MEM 8192U
#undef str_id
    hxw_count_on = 0; hxw_fail_only = hxw_fail_from = -1;
    if (rc == 99) return -1;
    if (strstr(api, "_str") && !strstr(api, "verify") && !strstr(api, "rehash")) {
        /* a hash string is "reported as produced" only with rc == 0; on failure the buffer must not hold a usable string */
        snprintf(extra, sizeof extra, " str=%s", rc == 0 ? (s[0] == '$' ? "produced" : "MISSING") : (s[0] == '$' ? "LEAKED" : "none"));
    }
    fprintf(o, "rc=%d ev=%s live=%d%s", rc, hxw_events[0] ? hxw_events : "-", hxw_live_blocks, extra);
    return 0;
}
const hx_op ops_c20[] = { {"fault.run", op_fault}, {NULL, NULL} };
