/* common helpers for the correspondence harness (hx) */
#ifndef HX_H
#define HX_H
#include <stddef.h>
#include <stdint.h>
#include <stdio.h>
#include <stdlib.h>
#include <string.h>
#include <sodium.h>

typedef struct { unsigned char *p; size_t n; } buf_t;

/* parse "-" (empty) or hex; returns 0 on success. Buffer is malloc'ed with exact size
   (at least 1 byte allocated so ASan sees tight bounds for n > 0). */
int  hx_hex(const char *s, buf_t *b);
void hx_free(buf_t *b);
void *hx_alloc(size_t n);      /* exact-size block at the configured alignment offset (HX_ALIGN) */
void hx_release(void *p);
void hx_set_align(void);
void hx_put_hex(FILE *o, const unsigned char *p, size_t n);   /* prints "-" for n == 0 */
int  hx_u64(const char *s, uint64_t *v);

typedef int (*hx_fn)(int argc, char **argv, FILE *o);  /* returns 0 if handled (prints one line w/o newline), -1 bad args */
typedef struct { const char *name; hx_fn fn; } hx_op;

/* FNV-1a 64 digest, same as the Lean driver */
#define FNV_INIT 0xcbf29ce484222325ULL
static inline uint64_t fnv_bytes(uint64_t h, const void *p_, size_t n) {
    const unsigned char *p = (const unsigned char *) p_;
    size_t i;
    for (i = 0; i < n; i++) { h = (h ^ p[i]) * 0x100000001b3ULL; }
    return h;
}
static inline uint64_t fnv_str(uint64_t h, const char *s) { return fnv_bytes(h, s, strlen(s)); }

/* misuse observation: run `fn(arg)` in a forked child with a misuse handler that _exit(77)s.
   returns: 0 = returned normally (output captured in buf), 1 = misuse, 2 = crashed by signal */
int hx_in_child(void (*fn)(void *arg, FILE *o), void *arg, char *outbuf, size_t outcap);

extern const hx_op ops_c14[];
extern const hx_op ops_c16[];
extern const hx_op ops_c15[];
extern const hx_op ops_c03[];
extern const hx_op ops_c04[];
extern const hx_op ops_c09[];
extern const hx_op ops_c01[];
extern const hx_op ops_c18[];
extern const hx_op ops_c17[];
extern const hx_op ops_c20[];
extern const hx_op ops_c10[];
extern const hx_op ops_c05[];
extern const hx_op ops_c13[];
extern const hx_op ops_c08[];
extern const hx_op ops_c19[];
extern const hx_op ops_c11[];
extern const hx_op ops_c12[];
void hx_dispatch(char *line, FILE *o);
int hx_aead(const char *op, int argc, char **argv, FILE *o);  /* 1 = not an aead op */
#endif
