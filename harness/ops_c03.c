/* C03: stream ciphers and cores */
#include "hx.h"

static int get3(int argc, char **argv, uint64_t *len, buf_t *n, buf_t *k, size_t nl) {
    if (argc != 3 || hx_u64(argv[0], len) || hx_hex(argv[1], n)) return -1;
    if (hx_hex(argv[2], k)) { hx_free(n); return -1; }
    if (n->n != nl || k->n != 32 || *len > (1u << 24)) { hx_free(n); hx_free(k); return -1; }
    return 0;
}
#define STREAM_OP(NAME, FN, NL) \
static int NAME(int argc, char **argv, FILE *o) { \
    uint64_t len; buf_t n, k; unsigned char *c; \
    if (get3(argc, argv, &len, &n, &k, NL)) return -1; \
    c = (unsigned char *) malloc(len ? len : 1); memset(c, 0x5c, len); \
    FN(c, len, n.p, k.p); hx_put_hex(o, c, len); free(c); hx_free(&n); hx_free(&k); return 0; }
STREAM_OP(op_chacha20, crypto_stream_chacha20, 8)
STREAM_OP(op_chacha20_ietf, crypto_stream_chacha20_ietf, 12)
STREAM_OP(op_xchacha20, crypto_stream_xchacha20, 24)
STREAM_OP(op_salsa20, crypto_stream_salsa20, 8)
STREAM_OP(op_salsa2012, crypto_stream_salsa2012, 8)
STREAM_OP(op_salsa208, crypto_stream_salsa208, 8)
STREAM_OP(op_xsalsa20, crypto_stream_xsalsa20, 24)

static int get4(int argc, char **argv, buf_t *m, buf_t *n, uint64_t *ic, buf_t *k, size_t nl) {
    if (argc != 4 || hx_hex(argv[0], m)) return -1;
    if (hx_hex(argv[1], n)) { hx_free(m); return -1; }
    if (hx_u64(argv[2], ic) || hx_hex(argv[3], k)) { hx_free(m); hx_free(n); return -1; }
    if (n->n != nl || k->n != 32) { hx_free(m); hx_free(n); hx_free(k); return -1; }
    return 0;
}
#define XORIC_OP(NAME, FN, NL, ICT) \
static int NAME(int argc, char **argv, FILE *o) { \
    uint64_t ic; buf_t m, n, k; unsigned char *c; \
    if (get4(argc, argv, &m, &n, &ic, &k, NL)) return -1; \
    c = (unsigned char *) malloc(m.n ? m.n : 1); memset(c, 0x5c, m.n); \
    FN(c, m.p, m.n, n.p, (ICT) ic, k.p); \
    { unsigned char *ip = (unsigned char *) malloc(m.n ? m.n : 1); memcpy(ip, m.p, m.n); FN(ip, ip, m.n, n.p, (ICT) ic, k.p); /* the XOR forms may be used in place */ \
      if (memcmp(ip, c, m.n)) fputs("INPLACE-DIFFERS ", o); free(ip); } \
    hx_put_hex(o, c, m.n); free(c); hx_free(&m); hx_free(&n); hx_free(&k); return 0; }
XORIC_OP(op_chacha20_xor_ic, crypto_stream_chacha20_xor_ic, 8, uint64_t)
XORIC_OP(op_xchacha20_xor_ic, crypto_stream_xchacha20_xor_ic, 24, uint64_t)
XORIC_OP(op_salsa20_xor_ic, crypto_stream_salsa20_xor_ic, 8, uint64_t)
XORIC_OP(op_xsalsa20_xor_ic, crypto_stream_xsalsa20_xor_ic, 24, uint64_t)

typedef struct { buf_t m, n, k; uint64_t ic; } ietf_a;
static void ietf_run(void *a_, FILE *o) {
    ietf_a *a = (ietf_a *) a_; unsigned char *c = (unsigned char *) malloc(a->m.n ? a->m.n : 1);
    memset(c, 0x5c, a->m.n);
    crypto_stream_chacha20_ietf_xor_ic(c, a->m.p, a->m.n, a->n.p, (uint32_t) a->ic, a->k.p);
    hx_put_hex(o, c, a->m.n); free(c);
}
static int op_chacha20_ietf_xor_ic(int argc, char **argv, FILE *o) {
    ietf_a a;
    if (get4(argc, argv, &a.m, &a.n, &a.ic, &a.k, 12)) return -1;
    if (a.ic > 0xffffffffULL) { hx_free(&a.m); hx_free(&a.n); hx_free(&a.k); return -1; }
    /* counters close to 2^32 may legitimately be refused through the misuse handler: observe in a child */
    if (a.ic + (a.m.n + 63) / 64 >= 0xfffffff0ULL) {
        char *out = (char *) malloc(2 * a.m.n + 64); int r = hx_in_child(ietf_run, &a, out, 2 * a.m.n + 64);
        if (r == 0) fputs(out, o); else if (r == 1) fputs("misuse", o); else fputs("crash", o);
        free(out);
    } else ietf_run(&a, o);
    hx_free(&a.m); hx_free(&a.n); hx_free(&a.k); return 0;
}
/* guard-only probe: huge mlen on a small buffer; "misuse" if refused, "proceeds" otherwise (the child then faults) */
typedef struct { uint64_t mlen, ic; } guard_a;
static void guard_run(void *a_, FILE *o) {
    guard_a *a = (guard_a *) a_; static unsigned char buf[4096], n[12], k[32];
    (void) o;
    crypto_stream_chacha20_ietf_xor_ic(buf, buf, a->mlen, n, (uint32_t) a->ic, k);
}
static int op_ietf_guard(int argc, char **argv, FILE *o) {
    guard_a a; char out[16]; int r;
    if (argc != 2 || hx_u64(argv[0], &a.mlen) || hx_u64(argv[1], &a.ic) || a.ic > 0xffffffffULL) return -1;
    if (a.mlen <= 4096) return -1;   /* only meaningful for lengths beyond the probe buffer */
    r = hx_in_child(guard_run, &a, out, sizeof out);
    fputs(r == 1 ? "misuse" : "proceeds", o);
    return 0;
}
#define XOR_OP(NAME, FN) \
static int NAME(int argc, char **argv, FILE *o) { \
    buf_t m, n, k; unsigned char *c; \
    if (argc != 3 || hx_hex(argv[0], &m)) return -1; \
    if (hx_hex(argv[1], &n)) { hx_free(&m); return -1; } \
    if (hx_hex(argv[2], &k)) { hx_free(&m); hx_free(&n); return -1; } \
    if (n.n != 8 || k.n != 32) { hx_free(&m); hx_free(&n); hx_free(&k); return -1; } \
    c = (unsigned char *) malloc(m.n ? m.n : 1); memset(c, 0x5c, m.n); \
    FN(c, m.p, m.n, n.p, k.p); \
    { unsigned char *ip = (unsigned char *) malloc(m.n ? m.n : 1); memcpy(ip, m.p, m.n); FN(ip, ip, m.n, n.p, k.p); \
      if (memcmp(ip, c, m.n)) fputs("INPLACE-DIFFERS ", o); free(ip); } \
    hx_put_hex(o, c, m.n); free(c); hx_free(&m); hx_free(&n); hx_free(&k); return 0; }
XOR_OP(op_salsa2012_xor, crypto_stream_salsa2012_xor)
XOR_OP(op_salsa208_xor, crypto_stream_salsa208_xor)

static int core_common(int argc, char **argv, FILE *o, int which, int k0) {
    buf_t in, k, c; unsigned char out[64]; const unsigned char *cp = NULL; size_t ol = 32;
    if (argc != 3 + k0 || hx_hex(argv[k0], &in)) return -1;
    if (hx_hex(argv[k0 + 1], &k)) { hx_free(&in); return -1; }
    c.p = NULL; c.n = 0;
    if (strcmp(argv[k0 + 2], "N") != 0) { if (hx_hex(argv[k0 + 2], &c) || c.n != 16) { hx_free(&in); hx_free(&k); return -1; } cp = c.p; }
    if (in.n != 16 || k.n != 32) { hx_free(&in); hx_free(&k); if (cp) hx_free(&c); return -1; }
    switch (which) {
    case 0: crypto_core_hchacha20(out, in.p, k.p, cp); break;
    case 1: crypto_core_hsalsa20(out, in.p, k.p, cp); break;
    case 20: crypto_core_salsa20(out, in.p, k.p, cp); ol = 64; break;
    case 12: crypto_core_salsa2012(out, in.p, k.p, cp); ol = 64; break;
    case 8: crypto_core_salsa208(out, in.p, k.p, cp); ol = 64; break;
    default: return -1;
    }
    hx_put_hex(o, out, ol); hx_free(&in); hx_free(&k); if (cp) hx_free(&c); return 0;
}
static int op_hchacha(int c, char **v, FILE *o) { return core_common(c, v, o, 0, 0); }
static int op_hsalsa(int c, char **v, FILE *o) { return core_common(c, v, o, 1, 0); }
static int op_core_salsa(int c, char **v, FILE *o) { uint64_t r; if (c < 1 || hx_u64(v[0], &r)) return -1; return core_common(c, v, o, (int) r, 1); }

const hx_op ops_c03[] = {
    {"stream.chacha20", op_chacha20}, {"stream.chacha20_ietf", op_chacha20_ietf}, {"stream.xchacha20", op_xchacha20},
    {"stream.salsa20", op_salsa20}, {"stream.salsa2012", op_salsa2012}, {"stream.salsa208", op_salsa208}, {"stream.xsalsa20", op_xsalsa20},
    {"stream.chacha20_xor_ic", op_chacha20_xor_ic}, {"stream.xchacha20_xor_ic", op_xchacha20_xor_ic},
    {"stream.salsa20_xor_ic", op_salsa20_xor_ic}, {"stream.xsalsa20_xor_ic", op_xsalsa20_xor_ic},
    {"stream.chacha20_ietf_xor_ic", op_chacha20_ietf_xor_ic}, {"stream.ietf_guard", op_ietf_guard}, {"stream.salsa2012_xor", op_salsa2012_xor}, {"stream.salsa208_xor", op_salsa208_xor},
    {"core.hchacha20", op_hchacha}, {"core.hsalsa20", op_hsalsa}, {"core.salsa", op_core_salsa}, {NULL, NULL}
};
