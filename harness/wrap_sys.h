#ifndef WRAP_SYS_H
#define WRAP_SYS_H
extern int hxw_log_on; extern char hxw_log[8192];
extern int hxw_fail_from, hxw_fail_only, hxw_count, hxw_count_on, hxw_live_blocks; extern char hxw_events[16384];
void hxw_log_reset(void); void hxw_ev_reset(void);
#endif
