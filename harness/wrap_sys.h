#ifndef WRAP_SYS_H
#define WRAP_SYS_H
#include <stddef.h>
extern int hxw_log_on; extern char hxw_log[8192];
extern int hxw_fail_from, hxw_fail_only, hxw_count, hxw_count_on, hxw_live_blocks; extern char hxw_events[16384];
void hxw_log_reset(void); void hxw_ev_reset(void);
/* scripted getentropy / gettimeofday / getpid / open("/dev/[u]random") for C18 rngint */
#define HXW_RNG_MAX 64
extern int hxw_rng_on, hxw_rng_open_fail;
extern const unsigned char *hxw_rng_ent[HXW_RNG_MAX]; extern long hxw_rng_entlen[HXW_RNG_MAX]; extern int hxw_rng_nent;
extern long long hxw_rng_sec[HXW_RNG_MAX], hxw_rng_usec[HXW_RNG_MAX]; extern int hxw_rng_ntime;
extern long hxw_rng_pid[HXW_RNG_MAX]; extern int hxw_rng_npid;
extern size_t hxw_rng_ent_log[HXW_RNG_MAX]; extern int hxw_rng_ent_calls, hxw_rng_time_calls, hxw_rng_pid_calls, hxw_rng_open_calls;
#endif
