/* hxt: N threads race sodium_init() behind a barrier, then every thread runs the same op lines
   (each thread starting at a different offset so that different API families overlap in time).
   Usage: hxt <nthreads> <seed> [sys|internal]   (op lines on stdin; 3rd arg selects the random generator, set before any thread starts)
   Output: line 1: "init zero=<#threads that got 0> one=<#1> other=<#anything else> early=<#threads that saw
                    an uninitialised library after sodium_init returned>"
           then one line per op: the common output, or "THREAD-DIFF t<i>=<..> t<j>=<..>" when two threads disagree. */
#define _GNU_SOURCE
#include "hx.h"
#include <pthread.h>
#include <sched.h>
#include <unistd.h>

static char **lines; static size_t nlines;
static int nthreads; static unsigned seed;
static pthread_barrier_t bar;
typedef struct { int id; int ret; int early; char **out; } thr_t;

static unsigned rnd(unsigned *s) { *s = *s * 1103515245u + 12345u; return (*s >> 16) & 0x7fff; }

static void *worker(void *arg_) {
    thr_t *t = (thr_t *) arg_; size_t k; unsigned s = seed * 2654435761u + (unsigned) t->id * 40503u;
    unsigned spin = rnd(&s) % 2000, i;
    unsigned char *p;
    pthread_barrier_wait(&bar);
    for (i = 0; i < spin; i++) { if ((rnd(&s) & 255) == 0) sched_yield(); }
    t->ret = sodium_init();
    /* "no thread that has returned observes a partially initialised library": the allocator's page size / canary
       and the CPU feature table are written by the initialisation body */
    p = (unsigned char *) sodium_malloc(1);
    if (p == NULL) t->early |= 1; else { if (p[0] != 0xdb) t->early |= 2; if ((((uintptr_t) p) & ((uintptr_t) sysconf(_SC_PAGESIZE) - 1)) != (uintptr_t) sysconf(_SC_PAGESIZE) - 1) t->early |= 4; sodium_free(p); }
#if defined(__x86_64__) && !defined(HX_VARIANT_PORTABLE) && !defined(HX_VARIANT_NOASM)
    if (getenv("SODIUM_VERIF_CPU_DISABLE") == NULL || strstr(getenv("SODIUM_VERIF_CPU_DISABLE"), "sse2") == NULL) { if (!sodium_runtime_has_sse2()) t->early |= 8; }
#endif
    for (k = 0; k < nlines; k++) {
        size_t idx = (k + (size_t) t->id * (nlines / (size_t) nthreads + 1)) % nlines;
        char *copy = strdup(lines[idx]); char *buf = NULL; size_t len = 0; FILE *o = open_memstream(&buf, &len);
        hx_dispatch(copy, o); fclose(o); free(copy);
        if (len && buf[len - 1] == '\n') buf[len - 1] = 0;
        t->out[idx] = buf;
        if ((rnd(&s) & 63) == 0) sched_yield();
    }
    return NULL;
}

int main(int argc, char **argv) {
    char *line = NULL; size_t cap = 0, lcap = 0, k; ssize_t n; int i, zero = 0, one = 0, other = 0, early = 0;
    pthread_t *th; thr_t *ts;
    if (argc != 3 && argc != 4) { fprintf(stderr, "usage: hxt nthreads seed\n"); return 2; }
    nthreads = atoi(argv[1]); seed = (unsigned) strtoul(argv[2], NULL, 10);
    if (nthreads < 1 || nthreads > 64) return 2;
    if (argc == 4 && strcmp(argv[3], "internal") == 0) randombytes_set_implementation(&randombytes_internal_implementation);
    while ((n = getline(&line, &cap, stdin)) > 0) {
        if (nlines + 1 >= lcap) { lcap = lcap ? lcap * 2 : 256; lines = (char **) realloc(lines, lcap * sizeof *lines); }
        lines[nlines++] = strdup(line);
    }
    th = (pthread_t *) calloc((size_t) nthreads, sizeof *th); ts = (thr_t *) calloc((size_t) nthreads, sizeof *ts);
    pthread_barrier_init(&bar, NULL, (unsigned) nthreads);
    for (i = 0; i < nthreads; i++) { ts[i].id = i; ts[i].ret = -99; ts[i].out = (char **) calloc(nlines + 1, sizeof(char *)); pthread_create(&th[i], NULL, worker, &ts[i]); }
    for (i = 0; i < nthreads; i++) pthread_join(th[i], NULL);
    for (i = 0; i < nthreads; i++) { if (ts[i].ret == 0) zero++; else if (ts[i].ret == 1) one++; else other++; if (ts[i].early) early++; }
    printf("init zero=%d one=%d other=%d early=%d\n", zero, one, other, early);
    for (k = 0; k < nlines; k++) {
        int diff = -1;
        for (i = 1; i < nthreads; i++) if (strcmp(ts[i].out[k], ts[0].out[k]) != 0) { diff = i; break; }
        if (diff < 0) puts(ts[0].out[k]);
        else printf("THREAD-DIFF t0=%s t%d=%s\n", ts[0].out[k], diff, ts[diff].out[k]);
    }
    return 0;
}
