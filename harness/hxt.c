/* hxt: N threads race sodium_init() behind a barrier, then every thread runs the same op lines
   (each thread starting at a different offset so that different API families overlap in time).
   Usage: hxt <nthreads> <seed> [sys|internal]   (op lines on stdin; 3rd arg selects the random generator, set before any thread starts)
   Output: line 1: "init zero=<#threads that got 0> one=<#1> other=<#anything else> early=<#threads that saw
                    an uninitialised library after sodium_init returned>"
           then one line per op: the common output, or "THREAD-DIFF t<i>=<..> t<j>=<..>" when two threads disagree;
           last line: "shared rounds=<R> bad=<n> <first failure|->": R rounds in which all threads use the SAME const inputs (keys, precomputed AES-GCM state,
           messages) at once, first use of each precomputed state included, compared with single-threaded one-shot references. */
#define _GNU_SOURCE
#include "hx.h"
#include <pthread.h>
#include <sched.h>
#include <unistd.h>

static char **lines; static size_t nlines;
static int nthreads; static unsigned seed;
static pthread_barrier_t bar;
typedef struct { int id; int ret; int early; char **out; } thr_t;

/* ---- shared CONST inputs (C19: "on distinct buffers" are the OUTPUT buffers; keys, precomputed states, messages and public keys may be the same
   const objects in every thread).  Per round thread 0 prepares fresh shared inputs and single-threaded reference outputs (one-shot, key-based APIs only, so a
   precomputed state is first USED concurrently), then all threads use the same const objects at once and compare with the references. */
#define SH_ROUNDS 24
#define SH_MAX 1024
static pthread_barrier_t shbar;
static int sh_bad; static char sh_first[160];
static struct {
    unsigned char k[32], n24[24], sk[64], pk[32], bsk[32], bpk[32], bk[32], m[SH_MAX], ad[SH_MAX]; size_t mlen, adlen;
    int have_gcm; crypto_aead_aes256gcm_state gcm;
    unsigned char r_gcm_c[SH_MAX], r_gcm_mac[16], r_cp_c[SH_MAX + 16], r_box_c[SH_MAX + 16], r_sig[64], r_gh[64], r_auth[32], r_sh[8], r_sm[32], r_xc_c[SH_MAX + 16];
} sh;
static void sh_fill(unsigned char *p, size_t n, unsigned *s) { size_t i; for (i = 0; i < n; i++) p[i] = (unsigned char) (*s = *s * 1103515245u + 12345u, *s >> 16); }
static void sh_prepare(int round) {
    static const size_t lens[] = { 0, 1, 15, 16, 17, 47, 48, 49, 63, 64, 65, 111, 112, 113, 223, 224, 225, 255, 256, 257, 511, 512, 1000, 1024 };
    unsigned s = seed * 7919u + (unsigned) round * 104729u + 1u; unsigned char seedb[32];
    sh.mlen = lens[(size_t) round % (sizeof lens / sizeof lens[0])]; sh.adlen = lens[((size_t) round * 7 + 3) % (sizeof lens / sizeof lens[0])];
    sh_fill(sh.k, 32, &s); sh_fill(sh.n24, 24, &s); sh_fill(sh.m, SH_MAX, &s); sh_fill(sh.ad, SH_MAX, &s); sh_fill(seedb, 32, &s);
    crypto_sign_seed_keypair(sh.pk, sh.sk, seedb); sh_fill(seedb, 32, &s); crypto_box_seed_keypair(sh.bpk, sh.bsk, seedb);
    (void) crypto_box_beforenm(sh.bk, sh.bpk, sh.bsk);
    sh.have_gcm = crypto_aead_aes256gcm_is_available();
    if (sh.have_gcm) {
        crypto_aead_aes256gcm_encrypt_detached(sh.r_gcm_c, sh.r_gcm_mac, NULL, sh.m, sh.mlen, sh.ad, sh.adlen, NULL, sh.n24, sh.k);
        crypto_aead_aes256gcm_beforenm(&sh.gcm, sh.k);      /* prepared, not yet used */
    }
    crypto_aead_chacha20poly1305_ietf_encrypt(sh.r_cp_c, NULL, sh.m, sh.mlen, sh.ad, sh.adlen, NULL, sh.n24, sh.k);
    crypto_aead_xchacha20poly1305_ietf_encrypt(sh.r_xc_c, NULL, sh.m, sh.mlen, sh.ad, sh.adlen, NULL, sh.n24, sh.k);
    crypto_box_easy(sh.r_box_c, sh.m, sh.mlen, sh.n24, sh.bpk, sh.bsk);
    crypto_sign_detached(sh.r_sig, NULL, sh.m, sh.mlen, sh.sk);
    crypto_generichash(sh.r_gh, 64, sh.m, sh.mlen, sh.k, 32); crypto_auth(sh.r_auth, sh.m, sh.mlen, sh.k); crypto_shorthash(sh.r_sh, sh.m, sh.mlen, sh.k);
    (void) crypto_scalarmult(sh.r_sm, sh.bsk, sh.bpk);
}
static void sh_fail(int id, int round, const char *what) {
    if (__sync_fetch_and_add(&sh_bad, 1) == 0) snprintf(sh_first, sizeof sh_first, "round=%d thread=%d mlen=%zu adlen=%zu %s", round, id, sh.mlen, sh.adlen, what);
}
static void sh_use(int id, int round) {
    unsigned char c[SH_MAX + 16], mac[64], d[SH_MAX + 16]; unsigned long long l;
    if (sh.have_gcm) {
        crypto_aead_aes256gcm_encrypt_detached_afternm(c, mac, NULL, sh.m, sh.mlen, sh.ad, sh.adlen, NULL, sh.n24, &sh.gcm);
        if (memcmp(c, sh.r_gcm_c, sh.mlen) || memcmp(mac, sh.r_gcm_mac, 16)) sh_fail(id, round, "aes256gcm encrypt_detached_afternm with a shared precomputed state differs from the one-shot result");
        if (crypto_aead_aes256gcm_decrypt_detached_afternm(d, NULL, sh.r_gcm_c, sh.mlen, sh.r_gcm_mac, sh.ad, sh.adlen, sh.n24, &sh.gcm) != 0 || memcmp(d, sh.m, sh.mlen))
            sh_fail(id, round, "aes256gcm decrypt_detached_afternm with a shared precomputed state rejects / mis-decrypts a valid ciphertext");
    }
    crypto_aead_chacha20poly1305_ietf_encrypt(c, &l, sh.m, sh.mlen, sh.ad, sh.adlen, NULL, sh.n24, sh.k);
    if (memcmp(c, sh.r_cp_c, sh.mlen + 16)) sh_fail(id, round, "chacha20poly1305_ietf with shared const inputs");
    crypto_aead_xchacha20poly1305_ietf_encrypt(c, &l, sh.m, sh.mlen, sh.ad, sh.adlen, NULL, sh.n24, sh.k);
    if (memcmp(c, sh.r_xc_c, sh.mlen + 16)) sh_fail(id, round, "xchacha20poly1305_ietf with shared const inputs");
    if (crypto_box_easy_afternm(c, sh.m, sh.mlen, sh.n24, sh.bk) != 0 || memcmp(c, sh.r_box_c, sh.mlen + 16)) sh_fail(id, round, "box_easy_afternm with a shared precomputed key");
    if (crypto_box_open_easy(d, sh.r_box_c, sh.mlen + 16, sh.n24, sh.bpk, sh.bsk) != 0 || memcmp(d, sh.m, sh.mlen)) sh_fail(id, round, "box_open_easy with shared keys");
    crypto_sign_detached(mac, NULL, sh.m, sh.mlen, sh.sk);
    if (memcmp(mac, sh.r_sig, 64)) sh_fail(id, round, "sign_detached with a shared secret key");
    if (crypto_sign_verify_detached(sh.r_sig, sh.m, sh.mlen, sh.pk) != 0) sh_fail(id, round, "sign_verify_detached with shared inputs");
    crypto_generichash(mac, 64, sh.m, sh.mlen, sh.k, 32); if (memcmp(mac, sh.r_gh, 64)) sh_fail(id, round, "generichash with a shared key");
    crypto_auth(mac, sh.m, sh.mlen, sh.k); if (memcmp(mac, sh.r_auth, 32)) sh_fail(id, round, "auth with a shared key");
    crypto_shorthash(mac, sh.m, sh.mlen, sh.k); if (memcmp(mac, sh.r_sh, 8)) sh_fail(id, round, "shorthash with a shared key");
    if (crypto_scalarmult(mac, sh.bsk, sh.bpk) != 0 || memcmp(mac, sh.r_sm, 32)) sh_fail(id, round, "scalarmult with shared inputs");
}

static unsigned rnd(unsigned *s) { *s = *s * 1103515245u + 12345u; return (*s >> 16) & 0x7fff; }

static void *worker(void *arg_) {
    thr_t *t = (thr_t *) arg_; size_t k; unsigned s = seed * 2654435761u + (unsigned) t->id * 40503u;
    unsigned spin = rnd(&s) % 2000, i;
    unsigned char *p;
    pthread_barrier_wait(&bar);
    for (i = 0; i < spin; i++) { if ((rnd(&s) & 255) == 0) sched_yield(); }
    t->ret = sodium_init();
    /* "no thread that has returned observes a partially initialised library": the allocator's page size / canary
       and the CPU feature table are written by the initialisation body */
    p = (unsigned char *) sodium_malloc(1);
    if (p == NULL) t->early |= 1; else { if (p[0] != 0xdb) t->early |= 2; if ((((uintptr_t) p) & ((uintptr_t) sysconf(_SC_PAGESIZE) - 1)) != (uintptr_t) sysconf(_SC_PAGESIZE) - 1) t->early |= 4; sodium_free(p); }
#if defined(__x86_64__) && !defined(HX_VARIANT_PORTABLE) && !defined(HX_VARIANT_NOASM)
    if (getenv("SODIUM_VERIF_CPU_DISABLE") == NULL || strstr(getenv("SODIUM_VERIF_CPU_DISABLE"), "sse2") == NULL) { if (!sodium_runtime_has_sse2()) t->early |= 8; }
#endif
    for (k = 0; k < nlines; k++) {
        size_t idx = (k + (size_t) t->id * (nlines / (size_t) nthreads + 1)) % nlines;
        char *copy = strdup(lines[idx]); char *buf = NULL; size_t len = 0; FILE *o = open_memstream(&buf, &len);
        hx_dispatch(copy, o); fclose(o); free(copy);
        if (len && buf[len - 1] == '\n') buf[len - 1] = 0;
        t->out[idx] = buf;
        if ((rnd(&s) & 63) == 0) sched_yield();
    }
    { int r; for (r = 0; r < SH_ROUNDS; r++) {
        pthread_barrier_wait(&shbar);
        if (t->id == 0) sh_prepare(r);
        pthread_barrier_wait(&shbar);
        sh_use(t->id, r);
    } }
    return NULL;
}

int main(int argc, char **argv) {
    char *line = NULL; size_t cap = 0, lcap = 0, k; ssize_t n; int i, zero = 0, one = 0, other = 0, early = 0;
    pthread_t *th; thr_t *ts;
    if (argc != 3 && argc != 4) { fprintf(stderr, "usage: hxt nthreads seed\n"); return 2; }
    nthreads = atoi(argv[1]); seed = (unsigned) strtoul(argv[2], NULL, 10);
    if (nthreads < 1 || nthreads > 64) return 2;
    if (argc == 4 && strcmp(argv[3], "internal") == 0) randombytes_set_implementation(&randombytes_internal_implementation);
    while ((n = getline(&line, &cap, stdin)) > 0) {
        if (nlines + 1 >= lcap) { lcap = lcap ? lcap * 2 : 256; lines = (char **) realloc(lines, lcap * sizeof *lines); }
        lines[nlines++] = strdup(line);
    }
    th = (pthread_t *) calloc((size_t) nthreads, sizeof *th); ts = (thr_t *) calloc((size_t) nthreads, sizeof *ts);
    pthread_barrier_init(&bar, NULL, (unsigned) nthreads); pthread_barrier_init(&shbar, NULL, (unsigned) nthreads);
    for (i = 0; i < nthreads; i++) { ts[i].id = i; ts[i].ret = -99; ts[i].out = (char **) calloc(nlines + 1, sizeof(char *)); pthread_create(&th[i], NULL, worker, &ts[i]); }
    for (i = 0; i < nthreads; i++) pthread_join(th[i], NULL);
    for (i = 0; i < nthreads; i++) { if (ts[i].ret == 0) zero++; else if (ts[i].ret == 1) one++; else other++; if (ts[i].early) early++; }
    printf("init zero=%d one=%d other=%d early=%d\n", zero, one, other, early);
    for (k = 0; k < nlines; k++) {
        int diff = -1;
        for (i = 1; i < nthreads; i++) if (strcmp(ts[i].out[k], ts[0].out[k]) != 0) { diff = i; break; }
        if (diff < 0) puts(ts[0].out[k]);
        else printf("THREAD-DIFF t0=%s t%d=%s\n", ts[0].out[k], diff, ts[diff].out[k]);
    }
    printf("shared rounds=%d bad=%d %s\n", SH_ROUNDS, sh_bad, sh_bad ? sh_first : "-");
    return 0;
}
