/* C09: secretstream — stateful ops on 4 state slots */
#include "hx.h"
static crypto_secretstream_xchacha20poly1305_state slots[4];
static int slot_ok[4];

static void put_state(FILE *o, int s) { hx_put_hex(o, (const unsigned char *) &slots[s], 44); }  /* k[32] ‖ nonce[12] */
static int get_slot(const char *a, int need) { uint64_t s; if (hx_u64(a, &s) || s > 3) return -1; if (need && !slot_ok[s]) return -1; return (int) s; }

static int op_init(int argc, char **argv, FILE *o) {
    int s; buf_t k, h;
    if (argc != 3 || (s = get_slot(argv[0], 0)) < 0 || hx_hex(argv[1], &k)) return -1;
    if (hx_hex(argv[2], &h) || k.n != 32 || h.n != 24) { hx_free(&k); return -1; }
    crypto_secretstream_xchacha20poly1305_init_pull(&slots[s], h.p, k.p); slot_ok[s] = 1;
    put_state(o, s); hx_free(&k); hx_free(&h); return 0;
}
static int op_setctr(int argc, char **argv, FILE *o) {
    int s; buf_t c;
    if (argc != 2 || (s = get_slot(argv[0], 1)) < 0 || hx_hex(argv[1], &c)) return -1;
    if (c.n != 4) { hx_free(&c); return -1; }
    memcpy(slots[s].nonce, c.p, 4); put_state(o, s); hx_free(&c); return 0;
}
static int op_rekey(int argc, char **argv, FILE *o) {
    int s; if (argc != 1 || (s = get_slot(argv[0], 1)) < 0) return -1;
    crypto_secretstream_xchacha20poly1305_rekey(&slots[s]); put_state(o, s); return 0;
}
static int op_push(int argc, char **argv, FILE *o) {
    int s, rc; uint64_t tag; buf_t m, ad; unsigned char *out; unsigned long long outlen = 12345;
    if (argc != 4 || (s = get_slot(argv[0], 1)) < 0 || hx_u64(argv[1], &tag) || tag > 255 || hx_hex(argv[2], &m)) return -1;
    if (hx_hex(argv[3], &ad)) { hx_free(&m); return -1; }
    out = (unsigned char *) malloc(m.n + 17); memset(out, 0x5c, m.n + 17);
    rc = crypto_secretstream_xchacha20poly1305_push(&slots[s], out, &outlen, m.p, m.n, ad.n ? ad.p : NULL, ad.n, (unsigned char) tag);
    fprintf(o, "%d ", rc); if (outlen != m.n + 17) fprintf(o, "OUTLEN=%llu ", outlen);
    hx_put_hex(o, out, m.n + 17); fputc(' ', o); put_state(o, s);
    free(out); hx_free(&m); hx_free(&ad); return 0;
}
static int op_pull(int argc, char **argv, FILE *o) {
    int s, rc; buf_t in, ad; unsigned char *m, tag = 0x77; unsigned long long mlen = 12345; size_t cap;
    if (argc != 3 || (s = get_slot(argv[0], 1)) < 0 || hx_hex(argv[1], &in)) return -1;
    if (hx_hex(argv[2], &ad)) { hx_free(&in); return -1; }
    cap = in.n >= 17 ? in.n - 17 : 0;
    m = (unsigned char *) malloc(cap ? cap : 1); memset(m, 0x5c, cap);
    rc = crypto_secretstream_xchacha20poly1305_pull(&slots[s], m, &mlen, &tag, in.p, in.n, ad.n ? ad.p : NULL, ad.n);
    fprintf(o, "%d %llu %u ", rc, mlen, (unsigned) tag);
    hx_put_hex(o, m, rc == 0 ? (size_t) mlen : cap); fputc(' ', o); put_state(o, s);
    free(m); hx_free(&in); hx_free(&ad); return 0;
}
/* ss.pullx <slot> <chunk> <ad> <flags>: the optional-pointer call forms. flags: 1 = m == NULL (only for an empty message), 2 = mlen_p == NULL, 4 = tag_p == NULL.
   A field whose pointer was NULL is printed as "x". */
static int op_pullx(int argc, char **argv, FILE *o) {
    int s, rc; buf_t in, ad; unsigned char *m, tag = 0x77; unsigned long long mlen = 12345; size_t cap; uint64_t fl;
    if (argc != 4 || (s = get_slot(argv[0], 1)) < 0 || hx_hex(argv[1], &in)) return -1;
    if (hx_hex(argv[2], &ad)) { hx_free(&in); return -1; }
    if (hx_u64(argv[3], &fl) || fl > 7) { hx_free(&in); hx_free(&ad); return -1; }
    cap = in.n >= 17 ? in.n - 17 : 0;
    if ((fl & 1) && cap != 0) { hx_free(&in); hx_free(&ad); return -1; }
    m = (unsigned char *) malloc(cap ? cap : 1); memset(m, 0x5c, cap);
    rc = crypto_secretstream_xchacha20poly1305_pull(&slots[s], (fl & 1) ? NULL : m, (fl & 2) ? NULL : &mlen, (fl & 4) ? NULL : &tag, in.p, in.n, ad.n ? ad.p : NULL, ad.n);
    fprintf(o, "%d ", rc);
    if (fl & 2) fputs("x ", o); else fprintf(o, "%llu ", mlen);
    if (fl & 4) fputs("x ", o); else fprintf(o, "%u ", (unsigned) tag);
    hx_put_hex(o, m, cap); fputc(' ', o); put_state(o, s);
    free(m); hx_free(&in); hx_free(&ad); return 0;
}
/* ss.pushx <slot> <tag> <m> <ad> <flags>: flags 1 = m == NULL (only for an empty message), 2 = outlen_p == NULL */
static int op_pushx(int argc, char **argv, FILE *o) {
    int s, rc; uint64_t tag, fl; buf_t m, ad; unsigned char *out; unsigned long long outlen = 12345;
    if (argc != 5 || (s = get_slot(argv[0], 1)) < 0 || hx_u64(argv[1], &tag) || tag > 255 || hx_hex(argv[2], &m)) return -1;
    if (hx_hex(argv[3], &ad)) { hx_free(&m); return -1; }
    if (hx_u64(argv[4], &fl) || fl > 3 || ((fl & 1) && m.n != 0)) { hx_free(&m); hx_free(&ad); return -1; }
    out = (unsigned char *) malloc(m.n + 17); memset(out, 0x5c, m.n + 17);
    rc = crypto_secretstream_xchacha20poly1305_push(&slots[s], out, (fl & 2) ? NULL : &outlen, (fl & 1) ? NULL : m.p, m.n, ad.n ? ad.p : NULL, ad.n, (unsigned char) tag);
    fprintf(o, "%d ", rc); if (!(fl & 2) && outlen != m.n + 17) fprintf(o, "OUTLEN=%llu ", outlen);
    hx_put_hex(o, out, m.n + 17); fputc(' ', o); put_state(o, s);
    free(out); hx_free(&m); hx_free(&ad); return 0;
}
const hx_op ops_c09[] = { {"ss.pullx", op_pullx}, {"ss.pushx", op_pushx}, {"ss.init", op_init}, {"ss.setctr", op_setctr}, {"ss.rekey", op_rekey}, {"ss.push", op_push}, {"ss.pull", op_pull}, {NULL, NULL} };
