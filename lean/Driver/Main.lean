import SodiumModel.Driver.Common
import SodiumModel.Driver.C14
import SodiumModel.Driver.C16
import SodiumModel.Driver.C15
import SodiumModel.Driver.C03
import SodiumModel.Driver.C04
open Sodium.Driver

def handlers : List (String → List String → Option String) := [
  Sodium.Driver.C14.handle,
  Sodium.Driver.C16.handle,
  Sodium.Driver.C15.handle,
  Sodium.Driver.C03.handle,
  Sodium.Driver.C04.handle
]

def dispatch (line : String) : String :=
  match (line.trimAscii.toString.splitOn " ").filter (· ≠ "") with
  | [] => "empty"
  | op :: args =>
    let rec go : List (String → List String → Option String) → String
      | [] => "bad-op"
      | h :: hs => match h op args with
        | some r => r
        | none => go hs
    go handlers

partial def loop (h : IO.FS.Stream) (out : IO.FS.Stream) : IO Unit := do
  let line ← h.getLine
  if line.isEmpty then return ()
  out.putStrLn (dispatch line)
  loop h out

def main : IO Unit := do
  let out ← IO.getStdout
  loop (← IO.getStdin) out
  out.flush
