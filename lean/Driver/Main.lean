import SodiumModel.Driver.Common
import SodiumModel.Driver.C14
import SodiumModel.Driver.C16
import SodiumModel.Driver.C15
import SodiumModel.Driver.C03
import SodiumModel.Driver.C04
import SodiumModel.Driver.C09
import SodiumModel.Driver.C01
import SodiumModel.Driver.C18
import SodiumModel.Driver.C17
import SodiumModel.Driver.C20
import SodiumModel.Driver.C10
import SodiumModel.Driver.C05
import SodiumModel.Driver.C07spec
import SodiumModel.Driver.C13
import SodiumModel.Driver.C19
import SodiumModel.Driver.C12
import SodiumModel.Driver.C08
open Sodium.Driver

def handlers : List (String → List String → Option String) := [
  Sodium.Driver.C14.handle,
  Sodium.Driver.C16.handle,
  Sodium.Driver.C15.handle,
  Sodium.Driver.C03.handle,
  Sodium.Driver.C04.handle,
  Sodium.Driver.C01.handle,
  Sodium.Driver.C18.handle,
  Sodium.Driver.C17.handle,
  Sodium.Driver.C20.handle,
  Sodium.Driver.C10.handle,
  Sodium.Driver.C13.handle,
  Sodium.Driver.C19.handle,
  Sodium.Driver.C12.handle,
  Sodium.Driver.C08.handle,
  Sodium.Driver.C07spec.handle,
  Sodium.Driver.C05.handle
]

/-- state carried between op lines (stateful families only) -/
structure DState where
  ss : Sodium.Driver.C09.Slots := Array.replicate 4 none

def dispatch (st : DState) (line : String) : DState × String :=
  match (line.trimAscii.toString.splitOn " ").filter (· ≠ "") with
  | [] => (st, "empty")
  | op :: args =>
    match Sodium.Driver.C09.handle st.ss op args with
    | some (ss', r) => ({ st with ss := ss' }, r)
    | none =>
      let rec go : List (String → List String → Option String) → String
        | [] => "bad-op"
        | h :: hs => match h op args with
          | some r => r
          | none => go hs
      (st, go handlers)

partial def loop (h : IO.FS.Stream) (out : IO.FS.Stream) (st : DState) : IO Unit := do
  let line ← h.getLine
  if line.isEmpty then return ()
  let (st', r) := dispatch st line
  out.putStrLn r
  out.flush
  loop h out st'

def main : IO Unit := do
  let out ← IO.getStdout
  loop (← IO.getStdin) out {}
  out.flush
