import Generated.MiniCObligations
import SodiumModel.Model.Leak
/-
  HAND-WRITTEN companions of the generated MiniC obligations (C11, Tie B):
    * one `example` per translated function: the MiniC semantics runs the function GENERATED from the
      current source to the result C gives on a concrete input (this ties the semantics — integer
      promotions, wrap-around, shifts, pointer normalisation, calls — to C's meaning);
    * label-sensitivity controls: the same generated function is REJECTED when a length is declared Secret;
    * the non-interference corollary of `sodium_memcmp` / `crypto_verify_32` spelled out without `PubEq`;
    * cross-checks: on concrete inputs the trace of the GENERATED function under the MiniC semantics is the
      trace of the HAND-WRITTEN leakage model of `Model/Leak.lean` (the subject of `Properties/C11.lean`).
  Checked with `lake build +Generated.MiniCExamples`.
-/
open MiniC
namespace Sodium.Generated.MiniC

/-! ### the semantics computes what C computes -/

-- sodium_memcmp: 0 on equal buffers, -1 (as `int`) otherwise; the trace is the loop skeleton
example : (runFun prog_sodium_memcmp 100 fn_sodium_memcmp [3] [[1, 2, 3], [1, 2, 3]]).out = .ret 0 := by decide +kernel
example : (runFun prog_sodium_memcmp 100 fn_sodium_memcmp [3] [[1, 2, 3], [1, 2, 4]]).out = .ret (-1) := by decide +kernel
example : (runFun prog_sodium_memcmp 100 fn_sodium_memcmp [2] [[1, 2], [1, 9]]).tr =
    [.branch true, .load "b1_" 0, .load "b2_" 0, .branch true, .load "b1_" 1, .load "b2_" 1, .branch false] := by decide +kernel
-- too little fuel: both runs report `timeout`
example : (runFun prog_sodium_memcmp 5 fn_sodium_memcmp [3] [[1, 2, 3], [1, 2, 4]]).out = .timeout := by decide +kernel
example : (runFun prog_sodium_is_zero 100 fn_sodium_is_zero [3] [[0, 0, 0]]).out = .ret 1 := by decide +kernel
example : (runFun prog_sodium_is_zero 100 fn_sodium_is_zero [3] [[0, 9, 0]]).out = .ret 0 := by decide +kernel
-- sodium_compare: little-endian numbers; -1 / 0 / 1
example : (runFun prog_sodium_compare 100 fn_sodium_compare [3] [[1, 2, 3], [1, 2, 4]]).out = .ret (-1) := by decide +kernel
example : (runFun prog_sodium_compare 100 fn_sodium_compare [3] [[1, 2, 4], [1, 2, 3]]).out = .ret 1 := by decide +kernel
example : (runFun prog_sodium_compare 100 fn_sodium_compare [3] [[1, 2, 4], [1, 2, 4]]).out = .ret 0 := by decide +kernel
-- big-number helpers (little endian, carries / borrows propagate, wrap-around at the top)
example : (runFun prog_sodium_increment 100 fn_sodium_increment [3] [[255, 255, 4]]).st.arrs "n" = [0, 0, 5] := by decide +kernel
example : (runFun prog_sodium_increment 100 fn_sodium_increment [2] [[255, 255]]).st.arrs "n" = [0, 0] := by decide +kernel
example : (runFun prog_sodium_add 100 fn_sodium_add [3] [[255, 255, 4], [1, 0, 0]]).st.arrs "a" = [0, 0, 5] := by decide +kernel
example : (runFun prog_sodium_sub 100 fn_sodium_sub [3] [[0, 0, 5], [1, 0, 0]]).st.arrs "a" = [255, 255, 4] := by decide +kernel
-- sodium_pad(&len, buf, 5, blocksize 4, max 16): 0x80 then zeros up to 8 bytes, *len = 8, returns 0
example : let r := runFun prog_sodium_pad 200 fn_sodium_pad [5, 4, 16, 0] [[99], [1, 2, 3, 4, 5, 7, 7, 7, 7, 7, 7, 7, 7, 7, 7, 7]]
    r.out = .ret 0 ∧ r.st.arrs "buf" = [1, 2, 3, 4, 5, 128, 0, 0, 7, 7, 7, 7, 7, 7, 7, 7] ∧ r.st.arrs "padded_buflen_p" = [8] := by decide +kernel
-- … with a NULL length pointer nothing is stored; too small a buffer returns -1; blocksize 0 returns -1
example : let r := runFun prog_sodium_pad 200 fn_sodium_pad [5, 4, 16, 1] [[99], [1, 2, 3, 4, 5, 7, 7, 7, 7, 7, 7, 7, 7, 7, 7, 7]]
    r.out = .ret 0 ∧ r.st.arrs "padded_buflen_p" = [99] := by decide +kernel
example : (runFun prog_sodium_pad 200 fn_sodium_pad [5, 4, 7, 0] [[99], [1, 2, 3, 4, 5, 7, 7]]).out = .ret (-1) := by decide +kernel
example : (runFun prog_sodium_pad 200 fn_sodium_pad [5, 0, 16, 0] [[99], [1, 2, 3, 4, 5, 7, 7]]).out = .ret (-1) := by decide +kernel
-- sodium_unpad: valid padding → 0 and the unpadded length; invalid → -1
example : let r := runFun prog_sodium_unpad 200 fn_sodium_unpad [8, 4] [[99], [1, 2, 3, 4, 5, 128, 0, 0]]
    r.out = .ret 0 ∧ r.st.arrs "unpadded_buflen_p" = [5] := by decide +kernel
example : (runFun prog_sodium_unpad 200 fn_sodium_unpad [8, 4] [[99], [1, 2, 3, 4, 5, 1, 0, 0]]).out = .ret (-1) := by decide +kernel
-- sodium_bin2hex(hex, 7, {de ad 0f}, 3) = "dead0f\0"
example : (runFun prog_sodium_bin2hex 200 fn_sodium_bin2hex [7, 3] [[9, 9, 9, 9, 9, 9, 9], [0xde, 0xad, 0x0f]]).st.arrs "hex" =
    [100, 101, 97, 100, 48, 102, 0] := by decide +kernel
-- hex_maxlen too small: sodium_misuse()
example : (runFun prog_sodium_bin2hex 200 fn_sodium_bin2hex [6, 3] [[9, 9, 9, 9, 9, 9, 9], [0xde, 0xad, 0x0f]]).out = .abort := by decide +kernel
-- the base64 alphabets, all 64 values
example : ((List.range 64).map fun k => (runFun prog_b64_byte_to_char 20 fn_b64_byte_to_char [Int.ofNat k] []).out.retVal) =
    "ABCDEFGHIJKLMNOPQRSTUVWXYZabcdefghijklmnopqrstuvwxyz0123456789+/".toList.map (fun c => Int.ofNat c.toNat) := by decide +kernel
example : ((List.range 64).map fun k => (runFun prog_b64_byte_to_urlsafe_char 20 fn_b64_byte_to_urlsafe_char [Int.ofNat k] []).out.retVal) =
    "ABCDEFGHIJKLMNOPQRSTUVWXYZabcdefghijklmnopqrstuvwxyz0123456789-_".toList.map (fun c => Int.ofNat c.toNat) := by decide +kernel
-- decoding: 'A' → 0, 'b' → 27, '9' → 61, '+' → 62, '/' → 63, invalid ('-', '!') → 0xFF; url-safe: '-' → 62, '_' → 63, '+' → 0xFF
example : ([65, 98, 57, 43, 47, 45, 33].map fun c => (runFun prog_b64_char_to_byte 20 fn_b64_char_to_byte [c] []).out.retVal) =
    [0, 27, 61, 62, 63, 255, 255] := by decide +kernel
example : ([65, 98, 57, 45, 95, 43].map fun c => (runFun prog_b64_urlsafe_char_to_byte 20 fn_b64_urlsafe_char_to_byte [c] []).out.retVal) =
    [0, 27, 61, 62, 63, 255] := by decide +kernel
-- sodium_bin2base64("foob"): original = "Zm9vYg==\0", no-padding = "Zm9vYg\0\0\0" (the tail is zero-filled up to maxlen)
example : (runFun prog_sodium_bin2base64 2000 fn_sodium_bin2base64 [9, 4, 1] [[7, 7, 7, 7, 7, 7, 7, 7, 7], [102, 111, 111, 98]]).st.arrs "b64" =
    [90, 109, 57, 118, 89, 103, 61, 61, 0] := by decide +kernel
example : (runFun prog_sodium_bin2base64 2000 fn_sodium_bin2base64 [9, 4, 3] [[7, 7, 7, 7, 7, 7, 7, 7, 7], [102, 111, 111, 98]]).st.arrs "b64" =
    [90, 109, 57, 118, 89, 103, 0, 0, 0] := by decide +kernel
-- url-safe alphabet: {fb ff} = "-_8=" 
example : (runFun prog_sodium_bin2base64 2000 fn_sodium_bin2base64 [5, 2, 5] [[7, 7, 7, 7, 7], [0xfb, 0xff]]).st.arrs "b64" =
    [45, 95, 56, 61, 0] := by decide +kernel
-- capacity too small / invalid variant: sodium_misuse()
example : (runFun prog_sodium_bin2base64 2000 fn_sodium_bin2base64 [8, 4, 1] [[7, 7, 7, 7, 7, 7, 7, 7], [102, 111, 111, 98]]).out = .abort := by decide +kernel
example : (runFun prog_sodium_bin2base64 2000 fn_sodium_bin2base64 [9, 4, 2] [[7, 7, 7, 7, 7, 7, 7, 7, 7], [102, 111, 111, 98]]).out = .abort := by decide +kernel
-- crypto_verify_n and its three instances
example : (runFun prog_crypto_verify_n 200 fn_crypto_verify_n [4] [[1, 2, 3, 4], [1, 2, 3, 4]]).out = .ret 0 := by decide +kernel
example : (runFun prog_crypto_verify_n 200 fn_crypto_verify_n [4] [[1, 2, 3, 4], [1, 2, 3, 5]]).out = .ret (-1) := by decide +kernel
example : (runFun prog_crypto_verify_16 200 fn_crypto_verify_16 [] [List.replicate 16 5, List.replicate 16 5]).out = .ret 0 := by decide +kernel
example : (runFun prog_crypto_verify_16 200 fn_crypto_verify_16 [] [List.replicate 16 5, List.replicate 15 5 ++ [6]]).out = .ret (-1) := by decide +kernel
example : (runFun prog_crypto_verify_32 300 fn_crypto_verify_32 [] [List.replicate 32 5, 6 :: List.replicate 31 5]).out = .ret (-1) := by decide +kernel
example : (runFun prog_crypto_verify_64 600 fn_crypto_verify_64 [] [List.replicate 64 5, List.replicate 64 5]).out = .ret 0 := by decide +kernel
-- sc25519_is_canonical: L-1 is canonical, L is not
example : (runFun prog_sc25519_is_canonical 200 fn_sc25519_is_canonical []
    [[236, 211, 245, 92, 26, 99, 18, 88, 214, 156, 247, 162, 222, 249, 222, 20, 0, 0, 0, 0, 0, 0, 0, 0, 0, 0, 0, 0, 0, 0, 0, 16]]).out = .ret 1 := by decide +kernel
example : (runFun prog_sc25519_is_canonical 200 fn_sc25519_is_canonical []
    [[237, 211, 245, 92, 26, 99, 18, 88, 214, 156, 247, 162, 222, 249, 222, 20, 0, 0, 0, 0, 0, 0, 0, 0, 0, 0, 0, 0, 0, 0, 0, 16]]).out = .ret 0 := by decide +kernel
-- ge25519_is_canonical: y = p - 1 is canonical, y = p is not (with or without the sign bit)
example : (runFun prog_ge25519_is_canonical 200 fn_ge25519_is_canonical [] [[236] ++ List.replicate 30 255 ++ [127]]).out = .ret 1 := by decide +kernel
example : (runFun prog_ge25519_is_canonical 200 fn_ge25519_is_canonical [] [[237] ++ List.replicate 30 255 ++ [127]]).out = .ret 0 := by decide +kernel
example : (runFun prog_ge25519_is_canonical 200 fn_ge25519_is_canonical [] [[237] ++ List.replicate 30 255 ++ [255]]).out = .ret 0 := by decide +kernel
-- equal / negative on `signed char` arguments
example : ((runFun prog_equal 20 fn_equal [-3, -3] []).out, (runFun prog_equal 20 fn_equal [-3, 3] []).out) = (.ret 1, .ret 0) := by decide +kernel
example : ((runFun prog_negative 20 fn_negative [-3] []).out, (runFun prog_negative 20 fn_negative [3] []).out) = (.ret 1, .ret 0) := by decide +kernel
-- fe25519_cmov / cswap on 5 limbs
example : (runFun prog_fe25519_cmov 40 fn_fe25519_cmov [1] [[1, 2, 3, 4, 5], [6, 7, 8, 9, 10]]).st.arrs "f" = [6, 7, 8, 9, 10] := by decide +kernel
example : (runFun prog_fe25519_cmov 40 fn_fe25519_cmov [0] [[1, 2, 3, 4, 5], [6, 7, 8, 9, 10]]).st.arrs "f" = [1, 2, 3, 4, 5] := by decide +kernel
example : let r := runFun prog_fe25519_cswap 60 fn_fe25519_cswap [1] [[1, 2, 3, 4, 5], [6, 7, 8, 9, 10]]
    r.st.arrs "f" = [6, 7, 8, 9, 10] ∧ r.st.arrs "g" = [1, 2, 3, 4, 5] := by decide +kernel
example : let r := runFun prog_fe25519_cswap 60 fn_fe25519_cswap [0] [[1, 2, 3, 4, 5], [6, 7, 8, 9, 10]]
    r.st.arrs "f" = [1, 2, 3, 4, 5] ∧ r.st.arrs "g" = [6, 7, 8, 9, 10] := by decide +kernel

/-! ### label sensitivity: the generated functions are REJECTED under a wrong labelling -/

/-- `sodium_memcmp` with a Secret length: the loop test would branch on a secret -/
theorem memcmp_secret_len_rejected :
    ctCheck prog_sodium_memcmp "sodium_memcmp"
      [("sodium_memcmp", ⟨[], [], false⟩), ("_sodium_dummy_symbol_to_prevent_memcmp_lto", ⟨[], [], true⟩)] = false := by decide +kernel

/-- `sodium_memcmp` claiming a Public result although the buffers are Secret -/
theorem memcmp_public_result_rejected :
    ctCheck prog_sodium_memcmp "sodium_memcmp"
      [("sodium_memcmp", ⟨["len"], [], true⟩), ("_sodium_dummy_symbol_to_prevent_memcmp_lto", ⟨["len"], [], true⟩)] = false := by decide +kernel

/-- `sodium_unpad` claiming that `*unpadded_buflen_p` stays Public: the secret padding length is stored there -/
theorem unpad_public_len_rejected :
    ctCheck prog_sodium_unpad "sodium_unpad" [("sodium_unpad", ⟨["padded_buflen", "blocksize"], ["unpadded_buflen_p"], false⟩)] = false := by
  decide +kernel

/-- `sodium_bin2base64` with a Secret `variant` (it selects the alphabet by a branch) -/
theorem bin2base64_secret_variant_rejected :
    ctCheck prog_sodium_bin2base64 "sodium_bin2base64"
      [("sodium_bin2base64", ⟨["b64_maxlen", "bin_len"], [], true⟩), ("sodium_base64_check_variant", ⟨["variant"], [], true⟩),
       ("b64_byte_to_urlsafe_char", ⟨[], [], false⟩), ("b64_byte_to_char", ⟨[], [], false⟩)] = false := by decide +kernel

/-! ### the corollaries spelled out -/

/-- whatever the two pairs of buffers contain (and however long they are), `sodium_memcmp` with the same
    `len` leaves the same branch / address trace -/
theorem ni_sodium_memcmp_explicit (fuel : Nat) (len : Int) (b1 b2 b1' b2' : List Int) :
    (runFun prog_sodium_memcmp fuel fn_sodium_memcmp [len] [b1, b2]).tr =
    (runFun prog_sodium_memcmp fuel fn_sodium_memcmp [len] [b1', b2']).tr :=
  (ni_sodium_memcmp fuel [len] [b1, b2] [len] [b1', b2'] ⟨fun _ _ => rfl, fun _ h => by simp [spec_sodium_memcmp] at h⟩).1

theorem ni_crypto_verify_32_explicit (fuel : Nat) (x y x' y' : List Int) :
    (runFun prog_crypto_verify_32 fuel fn_crypto_verify_32 [] [x, y]).tr =
    (runFun prog_crypto_verify_32 fuel fn_crypto_verify_32 [] [x', y']).tr :=
  (ni_crypto_verify_32 fuel [] [x, y] [] [x', y'] ⟨fun _ _ => rfl, fun _ h => by simp [spec_crypto_verify_32] at h⟩).1

/-- `sodium_unpad`: the buffer contents are Secret, the two lengths Public -/
theorem ni_sodium_unpad_explicit (fuel : Nat) (padded_buflen blocksize : Int) (out buf out' buf' : List Int) :
    (runFun prog_sodium_unpad fuel fn_sodium_unpad [padded_buflen, blocksize] [out, buf]).tr =
    (runFun prog_sodium_unpad fuel fn_sodium_unpad [padded_buflen, blocksize] [out', buf']).tr :=
  (ni_sodium_unpad fuel [padded_buflen, blocksize] [out, buf] [padded_buflen, blocksize] [out', buf']
    ⟨fun _ _ => rfl, fun _ h => by simp [spec_sodium_unpad] at h⟩).1

/-! ### cross-check against the hand-written leakage models of `Model/Leak.lean`
    (same events in the same order; MiniC additionally records division operands and variable shift
    amounts, which are dropped here; `b1_` ↦ `b1` etc. because the hand models name the aliases) -/

def ren (s : String) : String :=
  if s = "b1_" then "b1" else if s = "b2_" then "b2" else if s = "x_" then "x" else if s = "y_" then "y" else s

def toLeak : MiniC.Trace → Sodium.Model.Leak.Trace
  | [] => []
  | .branch b :: t => .branch b :: toLeak t
  | .load a i :: t => .load (ren a) i.toNat :: toLeak t
  | .store a i :: t => .store (ren a) i.toNat :: toLeak t
  | _ :: t => toLeak t

def ints (l : List UInt8) : List Int := l.map (fun b => Int.ofNat b.toNat)

open Sodium.Model.Leak in
example : toLeak (runFun prog_sodium_memcmp 100 fn_sodium_memcmp [3] [ints [1, 2, 3], ints [1, 2, 4]]).tr = (sodium_memcmpL [1, 2, 3] [1, 2, 4]).2 := by decide +kernel
open Sodium.Model.Leak in
example : toLeak (runFun prog_sodium_compare 100 fn_sodium_compare [3] [ints [1, 2, 3], ints [1, 2, 4]]).tr = (sodium_compareL [1, 2, 3] [1, 2, 4]).2 := by decide +kernel
open Sodium.Model.Leak in
example : toLeak (runFun prog_sodium_is_zero 100 fn_sodium_is_zero [3] [ints [1, 2, 3]]).tr = (sodium_is_zeroL [1, 2, 3]).2 := by decide +kernel
open Sodium.Model.Leak in
example : toLeak (runFun prog_sodium_increment 100 fn_sodium_increment [3] [ints [1, 2, 3]]).tr = (sodium_increment_genericL [1, 2, 3]).2 := by decide +kernel
open Sodium.Model.Leak in
example : toLeak (runFun prog_sodium_add 100 fn_sodium_add [3] [ints [1, 2, 3], ints [4, 5, 6]]).tr = (sodium_add_genericL [1, 2, 3] [4, 5, 6]).2 := by decide +kernel
open Sodium.Model.Leak in
example : toLeak (runFun prog_sodium_sub 100 fn_sodium_sub [3] [ints [1, 2, 3], ints [4, 5, 6]]).tr = (sodium_sub_genericL [1, 2, 3] [4, 5, 6]).2 := by decide +kernel
open Sodium.Model.Leak in
example : toLeak (runFun prog_crypto_verify_n 100 fn_crypto_verify_n [3] [ints [1, 2, 3], ints [4, 5, 6]]).tr = (crypto_verify_nL [1, 2, 3] [4, 5, 6]).2 := by decide +kernel
open Sodium.Model.Leak in
example : toLeak (runFun prog_sodium_unpad 200 fn_sodium_unpad [8, 4] [[99], ints [1, 2, 3, 4, 5, 128, 0, 0]]).tr = (sodium_unpadL [1, 2, 3, 4, 5, 128, 0, 0] 4).2 := by decide +kernel
open Sodium.Model.Leak in
example : toLeak (runFun prog_sodium_unpad 200 fn_sodium_unpad [3, 0] [[99], ints [1, 2, 3]]).tr = (sodium_unpadL [1, 2, 3] 0).2 := by decide +kernel
-- the one systematic difference: for `if (a || b)` with `a` true MiniC records the short-circuit test AND the `if` test
-- (two events, the second determined by the first); the hand model records one
open Sodium.Model.Leak in
example : toLeak (runFun prog_sodium_unpad 200 fn_sodium_unpad [3, 4] [[99], ints [1, 2, 3]]).tr = [.branch true, .branch true] ∧
    (sodium_unpadL [1, 2, 3] 4).2 = [.branch true] := by decide +kernel
open Sodium.Model.Leak in
example : toLeak (runFun prog_sodium_bin2hex 200 fn_sodium_bin2hex [7, 3] [[9, 9, 9, 9, 9, 9, 9], ints [0xde, 0xad, 0x0f]]).tr = (sodium_bin2hexL 7 [0xde, 0xad, 0x0f]).2 := by decide +kernel
open Sodium.Model.Leak in
example : toLeak (runFun prog_sodium_bin2base64 2000 fn_sodium_bin2base64 [9, 4, 1] [List.replicate 9 7, ints [102, 111, 111, 98]]).tr = (sodium_bin2base64L 9 [102, 111, 111, 98] 1).2 := by decide +kernel
open Sodium.Model.Leak in
example : toLeak (runFun prog_sodium_bin2base64 2000 fn_sodium_bin2base64 [12, 4, 7] [List.replicate 12 7, ints [102, 111, 111, 98]]).tr = (sodium_bin2base64L 12 [102, 111, 111, 98] 7).2 := by decide +kernel
open Sodium.Model.Leak in
example : toLeak (runFun prog_sodium_bin2base64 2000 fn_sodium_bin2base64 [8, 4, 1] [List.replicate 8 7, ints [102, 111, 111, 98]]).tr = (sodium_bin2base64L 8 [102, 111, 111, 98] 1).2 := by decide +kernel
open Sodium.Model.Leak in
example : toLeak (runFun prog_fe25519_cmov 40 fn_fe25519_cmov [1] [[1, 2, 3, 4, 5], [6, 7, 8, 9, 10]]).tr =
    (fe25519_cmovCL ⟨"f", 0⟩ ⟨"g", 0⟩ ⟨1, 2, 3, 4, 5⟩ ⟨6, 7, 8, 9, 10⟩ 1).2 := by decide +kernel
open Sodium.Model.Leak in
example : toLeak (runFun prog_fe25519_cswap 60 fn_fe25519_cswap [1] [[1, 2, 3, 4, 5], [6, 7, 8, 9, 10]]).tr =
    (fe25519_cswapL ⟨"f", 0⟩ ⟨"g", 0⟩ ⟨1, 2, 3, 4, 5⟩ ⟨6, 7, 8, 9, 10⟩ 1).2 := by decide +kernel

end Sodium.Generated.MiniC
