import Generated.Pickers
import SodiumModel.Model.Pickers
/-
  Kernel-checked obligations over the tables regenerated from /repo's current source
  (tools/c2lean_pickers.py). Their meaning is given by C10.allSound_spec / C10.fallback_spec.
-/
open Sodium.Model.Pickers
namespace Sodium.Generated

/-- every picker, on every architecturally closed feature set, selects an implementation whose ISA is present -/
theorem pickers_sound : allSound pickers = true := by decide +kernel

/-- with every feature masked the portable implementations are selected -/
theorem pickers_fallback : fallbackPortable pickers = true := by decide +kernel

/-- AES-256-GCM reports itself available only under conditions that include everything its code is compiled for -/
theorem gcm_sound : gcmRequires.all (fun r => gcmAvailableCond.contains r) = true := by decide +kernel

end Sodium.Generated
