import Generated.Tables
import SodiumModel.Model.Sign
import SodiumModel.Model.Scalar
import SodiumModel.Model.Scalarmult
/-
  Kernel-checked obligations: the constant tables regenerated from /repo's current source
  (tools/c2lean_tables.py) are the tables the models — and therefore the theorems of C05, C06, C07 — are about.
  A change to one of these tables in the C source breaks the corresponding obligation on the next run.
-/
namespace Sodium.Generated

/-- crypto_scalarmult/curve25519/ref10/x25519_ref10.c: `blocklist` in has_small_order (C05.has_small_order_exact, blocklist_sound_all) -/
theorem x25519_blocklist_eq : Tables.x25519_blocklist = Sodium.Model.Scalarmult.blocklist := by decide

/-- crypto_core/ed25519/ref10/ed25519_ref10.c: `L` in sc25519_is_canonical (C06: canonical-S test) -/
theorem sc25519_L_eq : Tables.sc25519_L = Sodium.Model.Sign.scL := by decide

/-- crypto_core/ed25519/core_ed25519.c: `L` used by scalar negate / complement / add / sub (C07) -/
theorem core_ed25519_L_eq : Tables.core_ed25519_L = Sodium.Model.Scalar.Lbytes := by decide

/-- crypto_sign/ed25519/ref10/sign.c: DOM2PREFIX of Ed25519ph (C06) -/
theorem dom2prefix_eq : Tables.dom2prefix = Sodium.Model.Sign.DOM2PREFIX := by decide

end Sodium.Generated
