#!/bin/sh
# Validates the Lean intrinsic semantics (SodiumModel/Model/GcmAesni.lean, Part 1 and the macros of Part 2)
# against the real CPU (needs AES-NI, PCLMULQDQ, SSSE3, SSE4.1).
# Run from anywhere (or set VERIF_LEAN to the lake project root).  Exit 0 and "0 mismatches" required.
set -e
ROOT="${VERIF_LEAN:-$(cd "$(dirname "$0")/../.." && pwd)}"
TMP="${TMPDIR:-/tmp}/simdcheck-gcm.$$"
mkdir -p "$TMP"
trap 'rm -rf "$TMP"' EXIT
gcc -O1 -maes -mpclmul -mssse3 -msse4.1 -o "$TMP/intrinsics_check" "$ROOT/simdcheck/gcm/intrinsics_check.c"
"$TMP/intrinsics_check" > "$TMP/cpu.txt"
cd "$ROOT"
set +e
lake env lean --run simdcheck/gcm/SimdCheck.lean < "$TMP/cpu.txt"
rc=$?
exit $rc
