/* Prints, for every SSE2 / SSSE3 / AES-NI / PCLMULQDQ intrinsic (and the macros REV128, SHL128, SHUFFLE32x4,
   CLMUL*128) used by libsodium's crypto_aead/aes256gcm/aesni/aead_aes256gcm_aesni.c, the result computed by the
   REAL CPU on deterministic pseudo-random inputs and on edge inputs, one line per call:
       op arg1 [arg2 ...] = result
   128-bit values are the 32 hex chars of their MEMORY image (_mm_storeu_si128 order), immediates and scalars
   are decimal.  The lines are re-computed with the Lean definitions of SodiumModel/Model/GcmAesni.lean
   (Part 1 and Part 2) by simdcheck/gcm/SimdCheck.lean and compared (simdcheck/gcm/run.sh).
       gcc -O1 -maes -mpclmul -mssse3 -msse4.1 intrinsics_check.c */
#include <stdint.h>
#include <stdio.h>
#include <string.h>
#include <emmintrin.h>
#include <tmmintrin.h>
#include <smmintrin.h>
#include <wmmintrin.h>

/* the macros of aead_aes256gcm_aesni.c, verbatim */
typedef __m128i BlockVec;
#define LOAD128(a)                       _mm_loadu_si128((const BlockVec *) (a))
#define STORE128(a, b)                   _mm_storeu_si128((BlockVec *) (a), (b))
#define AES_ENCRYPT(block_vec, rkey)     _mm_aesenc_si128((block_vec), (rkey))
#define AES_ENCRYPTLAST(block_vec, rkey) _mm_aesenclast_si128((block_vec), (rkey))
#define AES_KEYGEN(block_vec, rc)        _mm_aeskeygenassist_si128((block_vec), (rc))
#define XOR128(a, b)                     _mm_xor_si128((a), (b))
#define AND128(a, b)                     _mm_and_si128((a), (b))
#define OR128(a, b)                      _mm_or_si128((a), (b))
#define SET64x2(a, b)                    _mm_set_epi64x((uint64_t) (a), (uint64_t) (b))
#define ZERO128                          _mm_setzero_si128()
#define ONE128                           SET64x2(0, 1)
#define ADD64x2(a, b)                    _mm_add_epi64((a), (b))
#define SUB64x2(a, b)                    _mm_sub_epi64((a), (b))
#define SHL64x2(a, b)                    _mm_slli_epi64((a), (b))
#define SHR64x2(a, b)                    _mm_srli_epi64((a), (b))
#define REV128(x) \
    _mm_shuffle_epi8((x), _mm_set_epi8(0, 1, 2, 3, 4, 5, 6, 7, 8, 9, 10, 11, 12, 13, 14, 15))
#define SHUFFLE32x4(x, a, b, c, d) _mm_shuffle_epi32((x), _MM_SHUFFLE((d), (c), (b), (a)))
#define BYTESHL128(a, b)           _mm_slli_si128(a, b)
#define BYTESHR128(a, b)           _mm_srli_si128(a, b)
#define SHL128(a, b)               OR128(SHL64x2((a), (b)), SHR64x2(BYTESHL128((a), 8), 64 - (b)))
#define CLMULLO128(a, b)           _mm_clmulepi64_si128((a), (b), 0x00)
#define CLMULHI128(a, b)           _mm_clmulepi64_si128((a), (b), 0x11)
#define CLMULLOHI128(a, b)         _mm_clmulepi64_si128((a), (b), 0x10)
#define CLMULHILO128(a, b)         _mm_clmulepi64_si128((a), (b), 0x01)

/* the seed is read through a volatile so that nothing is evaluated at compile time */
static volatile uint64_t seed = 0x9e3779b97f4a7c15ULL;
static uint64_t s;
static uint64_t rnd(void) { s ^= s << 13; s ^= s >> 7; s ^= s << 17; return s; }

#define NEDGE 26
#define NBITS 128
#define NRND  300
#define NIN   (NEDGE + NBITS + NRND)
static uint8_t IN[NIN][16];

static void __attribute__((noinline)) fill_inputs(void)
{
    int n = 0, i, j;
    s = seed;
    memset(IN, 0, sizeof IN);
    /* edge inputs */
    n++;                                                              /* 0: all-zero */
    memset(IN[n++], 0xff, 16);                                        /* 1: all-ones */
    memset(IN[n++], 0x80, 16);                                        /* 2: 0x80 0x80 ... */
    memset(IN[n++], 0x01, 16);                                        /* 3: 0x01 0x01 ... */
    memset(IN[n++], 0x7f, 16);
    memset(IN[n++], 0xfe, 16);
    memset(IN[n++], 0x55, 16);
    memset(IN[n++], 0xaa, 16);
    IN[n++][0] = 0x80;                                                /* 0x80 00 ... 00 */
    IN[n++][15] = 0x01;                                               /* 00 ... 00 0x01 */
    IN[n][0] = 0x80; IN[n++][15] = 0x01;                              /* 0x80 ... 0x01 */
    IN[n][0] = 0x01; IN[n++][15] = 0x80;                              /* 0x01 ... 0x80 */
    memset(IN[n++], 0xff, 8);                                         /* low lane all-ones */
    memset(IN[n++] + 8, 0xff, 8);                                     /* high lane all-ones */
    memset(IN[n], 0xff, 16); IN[n++][7] = 0x7f;                       /* low lane without its top bit */
    memset(IN[n], 0xff, 16); IN[n++][15] = 0x7f;                      /* high lane without its top bit */
    memset(IN[n], 0xff, 16); IN[n++][0] = 0xfe;
    memset(IN[n], 0xff, 16); IN[n++][8] = 0xfe;
    IN[n][7] = 0x80; IN[n++][15] = 0x80;                              /* top bit of both lanes */
    IN[n][0] = 0x01; IN[n++][8] = 0x01;                               /* low bit of both lanes */
    for (j = 0; j < 16; j++) { IN[n][j] = (uint8_t) j; }  n++;            /* 00 01 02 ... 0f */
    for (j = 0; j < 16; j++) { IN[n][j] = (uint8_t) (15 - j); }  n++;     /* the REV128 mask */
    for (j = 0; j < 16; j++) { IN[n][j] = (uint8_t) (0x80 | j); }  n++;   /* indices with the top bit set */
    for (j = 0; j < 16; j++) { IN[n][j] = (uint8_t) (0x70 | (15 - j)); }  n++; /* bits 4..6 set: must be ignored by PSHUFB */
    for (j = 0; j < 16; j++) { IN[n][j] = (uint8_t) (j * 0x11); }  n++;
    IN[n][7] = 0xc2; n++;                                             /* the GCM reduction constant (low lane) */
    /* single bits */
    for (i = 0; i < NBITS; i++) { IN[n][i / 8] = (uint8_t) (1U << (i % 8)); n++; }
    /* pseudo-random */
    for (i = 0; i < NRND; i++) {
        for (j = 0; j < 16; j++) IN[n][j] = (uint8_t) (rnd() >> 24);
        /* make shift / carry / top-bit corner cases likely */
        if ((rnd() & 3) == 0) for (j = 0; j < 16; j++) if (rnd() & 1) IN[n][j] = 0xff;
        if ((rnd() & 7) == 0) for (j = 0; j < 16; j++) if (rnd() & 1) IN[n][j] = 0x00;
        n++;
    }
    if (n != NIN) { fprintf(stderr, "input table: %d != %d\n", n, NIN); }
}

static void hex(const uint8_t *p, int n) { for (int i = 0; i < n; i++) printf("%02x", p[i]); }
static void P128(__m128i v) { uint8_t o[16]; _mm_storeu_si128((__m128i *) o, v); hex(o, 16); }
static __m128i L(int i) { return _mm_loadu_si128((const __m128i *) IN[i]); }

/* the second operand paired with input i in round r (covers edge x edge, edge x random, random x random) */
static int partner(int i, int r) { return (int) (((unsigned) i * 7U + 3U + 101U * (unsigned) r) % NIN); }

#define UN(label, expr) do { for (int i_ = 0; i_ < NIN; i_++) { __m128i x = L(i_); \
    printf(label " "); hex(IN[i_], 16); printf(" = "); P128(expr); printf("\n"); } } while (0)
#define IMM(name, imm) do { for (int i_ = 0; i_ < NIN; i_++) { __m128i x = L(i_); \
    printf(#name " "); hex(IN[i_], 16); printf(" %d = ", (int) (imm)); P128(name(x, imm)); printf("\n"); } } while (0)
#define BIN(label, expr, rounds) do { for (int r_ = 0; r_ < (rounds); r_++) for (int i_ = 0; i_ < NIN; i_++) { \
    int j_ = partner(i_, r_); __m128i x = L(i_), y = L(j_); \
    printf(label " "); hex(IN[i_], 16); printf(" "); hex(IN[j_], 16); printf(" = "); P128(expr); printf("\n"); } \
    for (int i_ = 0; i_ < NEDGE; i_++) for (int j_ = 0; j_ < NEDGE; j_++) { __m128i x = L(i_), y = L(j_); \
    printf(label " "); hex(IN[i_], 16); printf(" "); hex(IN[j_], 16); printf(" = "); P128(expr); printf("\n"); } } while (0)
#define CLMUL(imm) do { for (int r_ = 0; r_ < 2; r_++) for (int i_ = 0; i_ < NIN; i_++) { \
    int j_ = partner(i_, r_); __m128i x = L(i_), y = L(j_); \
    printf("_mm_clmulepi64_si128 "); hex(IN[i_], 16); printf(" "); hex(IN[j_], 16); printf(" %d = ", (int) (imm)); \
    P128(_mm_clmulepi64_si128(x, y, imm)); printf("\n"); } \
    for (int i_ = 0; i_ < NEDGE; i_++) for (int j_ = 0; j_ < NEDGE; j_++) { __m128i x = L(i_), y = L(j_); \
    printf("_mm_clmulepi64_si128 "); hex(IN[i_], 16); printf(" "); hex(IN[j_], 16); printf(" %d = ", (int) (imm)); \
    P128(_mm_clmulepi64_si128(x, y, imm)); printf("\n"); } } while (0)
#define SHUF32x4(a, b, c, d) do { for (int i_ = 0; i_ < NIN; i_++) { __m128i x = L(i_); \
    printf("SHUFFLE32x4 "); hex(IN[i_], 16); printf(" %d %d %d %d = ", a, b, c, d); \
    P128(SHUFFLE32x4(x, a, b, c, d)); printf("\n"); } } while (0)
#define SHL128T(b) do { for (int i_ = 0; i_ < NIN; i_++) { __m128i x = L(i_); \
    printf("SHL128 "); hex(IN[i_], 16); printf(" %d = ", b); P128(SHL128(x, b)); printf("\n"); } } while (0)

int main(void)
{
    fill_inputs();

    /* ---- the register views / load / store ---- */
    for (int i = 0; i < NIN; i++) {
        __m128i v = L(i); uint32_t w[4]; uint64_t q[2];
        memcpy(w, &v, 16); memcpy(q, &v, 16);
        printf("view64 "); hex(IN[i], 16);
        printf(" = %llu %llu\n", (unsigned long long) _mm_cvtsi128_si64(v), (unsigned long long) _mm_extract_epi64(v, 1));
        printf("view64m "); hex(IN[i], 16); printf(" = %llu %llu\n", (unsigned long long) q[0], (unsigned long long) q[1]);
        printf("view32 "); hex(IN[i], 16);
        printf(" = %u %u %u %u\n", (uint32_t) _mm_extract_epi32(v, 0), (uint32_t) _mm_extract_epi32(v, 1),
               (uint32_t) _mm_extract_epi32(v, 2), (uint32_t) _mm_extract_epi32(v, 3));
        printf("view32m "); hex(IN[i], 16); printf(" = %u %u %u %u\n", w[0], w[1], w[2], w[3]);
        printf("_mm_loadu_si128+_mm_storeu_si128 "); hex(IN[i], 16); printf(" = "); P128(v); printf("\n");
    }
    /* a load from an unaligned address inside a larger buffer, a store to an unaligned address */
    for (int i = 0; i + 1 < NIN; i += 3) {
        uint8_t buf[48], out[48];
        int off = 1 + (i % 15);
        memcpy(buf, IN[i], 16); memcpy(buf + 16, IN[i + 1], 16); memset(buf + 32, 0xee, 16);
        memset(out, 0x5c, sizeof out);
        __m128i v = _mm_loadu_si128((const __m128i *) (buf + off));
        _mm_storeu_si128((__m128i *) (out + off), v);
        printf("loadu_off "); hex(buf, 32); printf(" %d = ", off); hex(out + off, 16); printf("\n");
    }
    printf("_mm_setzero_si128 = "); P128(_mm_setzero_si128()); printf("\n");
    printf("ZERO128 = "); P128(ZERO128); printf("\n");
    printf("ONE128 = "); P128(ONE128); printf("\n");

    /* ---- set ---- */
    for (int i = 0; i < 300; i++) {
        uint64_t e1 = rnd(), e0 = rnd();
        if (i == 0) { e1 = 0; e0 = 1; }                                                    /* ONE128 */
        if (i == 1) { e1 = 0xc200000000000000ULL; e0 = 1; }                                /* carry */
        if (i == 2) { e1 = 0; e0 = 0xc200000000000000ULL; }                                /* p64 */
        if (i == 3) { e1 = 0xffffffffffffffffULL; e0 = 0; }
        if (i == 4) { e1 = 0; e0 = 0xffffffffffffffffULL; }
        if (i == 5) { e1 = 0x8000000000000000ULL; e0 = 0x8000000000000000ULL; }
        printf("_mm_set_epi64x %llu %llu = ", (unsigned long long) e1, (unsigned long long) e0);
        P128(_mm_set_epi64x(e1, e0)); printf("\n");
        printf("SET64x2 %llu %llu = ", (unsigned long long) e1, (unsigned long long) e0);
        P128(SET64x2(e1, e0)); printf("\n");
    }
    for (int i = 0; i < NIN; i++) {
        const uint8_t *e = IN[i];
        printf("_mm_set_epi8");
        for (int j = 15; j >= 0; j--) printf(" %u", e[j]);
        printf(" = ");
        P128(_mm_set_epi8(e[15], e[14], e[13], e[12], e[11], e[10], e[9], e[8], e[7], e[6], e[5], e[4], e[3], e[2], e[1], e[0]));
        printf("\n");
    }
    printf("rev_mask = "); P128(_mm_set_epi8(0, 1, 2, 3, 4, 5, 6, 7, 8, 9, 10, 11, 12, 13, 14, 15)); printf("\n");

    /* ---- bitwise / 64-bit lane arithmetic ---- */
    BIN("_mm_xor_si128", _mm_xor_si128(x, y), 1);
    BIN("_mm_and_si128", _mm_and_si128(x, y), 1);
    BIN("_mm_or_si128", _mm_or_si128(x, y), 1);
    BIN("_mm_add_epi64", _mm_add_epi64(x, y), 2);
    BIN("_mm_sub_epi64", _mm_sub_epi64(x, y), 2);
    UN("add_one", ADD64x2(x, ONE128));                                  /* incr_counters */
    UN("sub_from_zero", SUB64x2(ZERO128, x));                           /* precomp_for_block_count */

    /* ---- shifts ---- */
    IMM(_mm_slli_epi64, 1);  IMM(_mm_slli_epi64, 63); IMM(_mm_slli_epi64, 0);  IMM(_mm_slli_epi64, 64);
    IMM(_mm_slli_epi64, 2);  IMM(_mm_slli_epi64, 7);  IMM(_mm_slli_epi64, 32); IMM(_mm_slli_epi64, 62);
    IMM(_mm_slli_epi64, 65); IMM(_mm_slli_epi64, 127); IMM(_mm_slli_epi64, 128); IMM(_mm_slli_epi64, 255);
    IMM(_mm_srli_epi64, 1);  IMM(_mm_srli_epi64, 63); IMM(_mm_srli_epi64, 0);  IMM(_mm_srli_epi64, 64);
    IMM(_mm_srli_epi64, 2);  IMM(_mm_srli_epi64, 7);  IMM(_mm_srli_epi64, 32); IMM(_mm_srli_epi64, 62);
    IMM(_mm_srli_epi64, 65); IMM(_mm_srli_epi64, 127); IMM(_mm_srli_epi64, 128); IMM(_mm_srli_epi64, 255);
    IMM(_mm_slli_si128, 4);  IMM(_mm_slli_si128, 8);  IMM(_mm_slli_si128, 0);  IMM(_mm_slli_si128, 1);
    IMM(_mm_slli_si128, 15); IMM(_mm_slli_si128, 16); IMM(_mm_slli_si128, 17); IMM(_mm_slli_si128, 3);
    IMM(_mm_slli_si128, 12); IMM(_mm_slli_si128, 31); IMM(_mm_slli_si128, 128); IMM(_mm_slli_si128, 255);
    IMM(_mm_srli_si128, 4);  IMM(_mm_srli_si128, 8);  IMM(_mm_srli_si128, 0);  IMM(_mm_srli_si128, 1);
    IMM(_mm_srli_si128, 15); IMM(_mm_srli_si128, 16); IMM(_mm_srli_si128, 17); IMM(_mm_srli_si128, 3);
    IMM(_mm_srli_si128, 12); IMM(_mm_srli_si128, 31); IMM(_mm_srli_si128, 128); IMM(_mm_srli_si128, 255);

    /* ---- shuffles ---- */
    IMM(_mm_shuffle_epi32, _MM_SHUFFLE(3, 3, 3, 3));   /* SHUFFLE32x4(x, 3, 3, 3, 3) */
    IMM(_mm_shuffle_epi32, _MM_SHUFFLE(2, 2, 2, 2));   /* SHUFFLE32x4(x, 2, 2, 2, 2) */
    IMM(_mm_shuffle_epi32, _MM_SHUFFLE(1, 0, 3, 2));   /* SHUFFLE32x4(x, 2, 3, 0, 1) */
    IMM(_mm_shuffle_epi32, 0x00); IMM(_mm_shuffle_epi32, 0x55); IMM(_mm_shuffle_epi32, 0x1b); IMM(_mm_shuffle_epi32, 0xe4);
    IMM(_mm_shuffle_epi32, 0x93); IMM(_mm_shuffle_epi32, 0x39); IMM(_mm_shuffle_epi32, 0xc6); IMM(_mm_shuffle_epi32, 0xb1);
    IMM(_mm_shuffle_epi32, 0x27); IMM(_mm_shuffle_epi32, 0x01); IMM(_mm_shuffle_epi32, 0x40); IMM(_mm_shuffle_epi32, 0x8d);
    SHUF32x4(3, 3, 3, 3); SHUF32x4(2, 2, 2, 2); SHUF32x4(2, 3, 0, 1);
    SHUF32x4(0, 1, 2, 3); SHUF32x4(3, 2, 1, 0); SHUF32x4(1, 2, 3, 0); SHUF32x4(0, 0, 1, 3);
    BIN("_mm_shuffle_epi8", _mm_shuffle_epi8(x, y), 3);                 /* random masks, incl. bytes with the top bit set */
    UN("shuffle_rev", _mm_shuffle_epi8(x, _mm_set_epi8(0, 1, 2, 3, 4, 5, 6, 7, 8, 9, 10, 11, 12, 13, 14, 15)));
    UN("REV128", REV128(x));
    UN("REV128_twice", REV128(REV128(x)));

    /* ---- SHL128 ---- */
    SHL128T(1);                                                         /* the only use: SHL128(h0, 1) */
    SHL128T(2); SHL128T(7); SHL128T(63);

    /* ---- PCLMULQDQ ---- */
    CLMUL(0x00); CLMUL(0x01); CLMUL(0x10); CLMUL(0x11);
    CLMUL(0xee); CLMUL(0xef); CLMUL(0xfe); CLMUL(0xff); CLMUL(0x0e); CLMUL(0xe1);   /* only bits 0 and 4 count */
    BIN("CLMULLO128", CLMULLO128(x, y), 1);
    BIN("CLMULHI128", CLMULHI128(x, y), 1);
    BIN("CLMULLOHI128", CLMULLOHI128(x, y), 1);
    BIN("CLMULHILO128", CLMULHILO128(x, y), 1);
    UN("clsq_lo", CLMULLO128(x, x));
    UN("clsq_hi", CLMULHI128(x, x));
    UN("clmul_p64", CLMULLO128(x, SET64x2(0, 0xc200000000000000ULL)));  /* gcm_reduce */

    /* ---- AES-NI ---- */
    BIN("_mm_aesenc_si128", _mm_aesenc_si128(x, y), 2);
    BIN("_mm_aesenclast_si128", _mm_aesenclast_si128(x, y), 2);
    IMM(_mm_aeskeygenassist_si128, 0x01); IMM(_mm_aeskeygenassist_si128, 0x02); IMM(_mm_aeskeygenassist_si128, 0x04);
    IMM(_mm_aeskeygenassist_si128, 0x08); IMM(_mm_aeskeygenassist_si128, 0x10); IMM(_mm_aeskeygenassist_si128, 0x20);
    IMM(_mm_aeskeygenassist_si128, 0x40);
    IMM(_mm_aeskeygenassist_si128, 0x00); IMM(_mm_aeskeygenassist_si128, 0x80); IMM(_mm_aeskeygenassist_si128, 0x1b);
    IMM(_mm_aeskeygenassist_si128, 0x36); IMM(_mm_aeskeygenassist_si128, 0xa5); IMM(_mm_aeskeygenassist_si128, 0xff);
    /* every byte value through the S-box, in every byte position */
    for (int v = 0; v < 256; v++) {
        uint8_t a[16]; __m128i x;
        for (int j = 0; j < 16; j++) a[j] = (uint8_t) (v + 17 * j);
        x = _mm_loadu_si128((const __m128i *) a);
        printf("_mm_aesenclast_si128 "); hex(a, 16); printf(" "); hex(IN[0], 16); printf(" = ");
        P128(_mm_aesenclast_si128(x, L(0))); printf("\n");
        printf("_mm_aesenc_si128 "); hex(a, 16); printf(" "); hex(IN[0], 16); printf(" = ");
        P128(_mm_aesenc_si128(x, L(0))); printf("\n");
        printf("_mm_aeskeygenassist_si128 "); hex(a, 16); printf(" %d = ", 0); P128(_mm_aeskeygenassist_si128(x, 0)); printf("\n");
    }
    return 0;
}
