import SodiumModel.Model.GcmAesni
/-
  Re-computes every line printed by `simdcheck/gcm/intrinsics_check.c` (real CPU) with the Lean intrinsic / macro
  definitions of `SodiumModel/Model/GcmAesni.lean` (Part 1 and Part 2) and reports mismatches.
  Line format:  op arg1 [arg2 …] = result     (128-bit values: 32 hex chars of the memory image; scalars decimal)
  Usage (see run.sh):  intrinsics_check | lake env lean --run simdcheck/gcm/SimdCheck.lean
  Exit status 0 iff every line parses, at least one line was read and there is no mismatch.
-/
open Sodium Sodium.Model.GcmAesni

def v128? (s : String) : Option BlockVec := do
  let b ← ofHex s
  if b.length = 16 then some (mm_loadu_si128 b) else none
def h128 (v : BlockVec) : String := toHex (mm_storeu_si128 v)
def showNats (l : List Nat) : String := " ".intercalate (l.map toString)
def u8 (n : Nat) : UInt8 := UInt8.ofNat n
def u64 (n : Nat) : UInt64 := UInt64.ofNat n

def un (f : BlockVec → BlockVec) (a : String) : Option String := do
  let a ← v128? a; some (h128 (f a))
def bin (f : BlockVec → BlockVec → BlockVec) (a b : String) : Option String := do
  let a ← v128? a; let b ← v128? b; some (h128 (f a b))
def imm (f : BlockVec → Nat → BlockVec) (a i : String) : Option String := do
  let a ← v128? a; let i ← i.toNat?; some (h128 (f a i))

/-- expected result column for an operation line -/
def expected (op : String) (args : List String) : Option String :=
  match op, args with
  | "view64", [a] | "view64m", [a] => do let v ← v128? a; some (showNats [(q0 v).toNat, (q1 v).toNat])
  | "view32", [a] | "view32m", [a] => do
    let v ← v128? a; some (showNats [lane32 v 0, lane32 v 1, lane32 v 2, lane32 v 3])
  | "_mm_loadu_si128+_mm_storeu_si128", [a] => do
    let b ← ofHex a
    if b.length = 16 then some (toHex (mm_storeu_si128 (mm_loadu_si128 b))) else none
  | "loadu_off", [buf, off] => do
    -- `p + off` is `p.drop off`; the load reads the 16 bytes at that address
    let b ← ofHex buf; let off ← off.toNat?
    if off + 16 ≤ b.length then some (toHex (mm_storeu_si128 (mm_loadu_si128 (b.drop off)))) else none
  | "_mm_setzero_si128", [] => some (h128 mm_setzero_si128)
  | "ZERO128", [] => some (h128 ZERO128)
  | "ONE128", [] => some (h128 ONE128)
  | "_mm_set_epi64x", [e1, e0] => do let e1 ← e1.toNat?; let e0 ← e0.toNat?; some (h128 (mm_set_epi64x (u64 e1) (u64 e0)))
  | "SET64x2", [e1, e0] => do let e1 ← e1.toNat?; let e0 ← e0.toNat?; some (h128 (SET64x2 (u64 e1) (u64 e0)))
  | "_mm_set_epi8", es => do
    match ← es.mapM String.toNat? with
    | [e15, e14, e13, e12, e11, e10, e9, e8, e7, e6, e5, e4, e3, e2, e1, e0] =>
      if [e15, e14, e13, e12, e11, e10, e9, e8, e7, e6, e5, e4, e3, e2, e1, e0].all (· < 256) then
        some (h128 (mm_set_epi8 (u8 e15) (u8 e14) (u8 e13) (u8 e12) (u8 e11) (u8 e10) (u8 e9) (u8 e8)
          (u8 e7) (u8 e6) (u8 e5) (u8 e4) (u8 e3) (u8 e2) (u8 e1) (u8 e0)))
      else none
    | _ => none
  | "rev_mask", [] => some (h128 (mm_set_epi8 0 1 2 3 4 5 6 7 8 9 10 11 12 13 14 15))
  | "_mm_xor_si128", [a, b] => bin mm_xor_si128 a b
  | "_mm_and_si128", [a, b] => bin mm_and_si128 a b
  | "_mm_or_si128", [a, b] => bin mm_or_si128 a b
  | "_mm_add_epi64", [a, b] => bin mm_add_epi64 a b
  | "_mm_sub_epi64", [a, b] => bin mm_sub_epi64 a b
  | "add_one", [a] => un (fun x => ADD64x2 x ONE128) a
  | "sub_from_zero", [a] => un (fun x => SUB64x2 ZERO128 x) a
  | "_mm_slli_epi64", [a, i] => imm mm_slli_epi64 a i
  | "_mm_srli_epi64", [a, i] => imm mm_srli_epi64 a i
  | "_mm_slli_si128", [a, i] => imm mm_slli_si128 a i
  | "_mm_srli_si128", [a, i] => imm mm_srli_si128 a i
  | "_mm_shuffle_epi32", [a, i] => imm mm_shuffle_epi32 a i
  | "SHUFFLE32x4", [x, a, b, c, d] => do
    let x ← v128? x; let a ← a.toNat?; let b ← b.toNat?; let c ← c.toNat?; let d ← d.toNat?
    if a < 4 ∧ b < 4 ∧ c < 4 ∧ d < 4 then some (h128 (SHUFFLE32x4 x a b c d)) else none
  | "_mm_shuffle_epi8", [a, b] => bin mm_shuffle_epi8 a b
  | "shuffle_rev", [a] => un (fun x => mm_shuffle_epi8 x (mm_set_epi8 0 1 2 3 4 5 6 7 8 9 10 11 12 13 14 15)) a
  | "REV128", [a] => un REV128 a
  | "REV128_twice", [a] => un (fun x => REV128 (REV128 x)) a
  | "SHL128", [a, b] => do
    let a ← v128? a; let b ← b.toNat?
    if 0 < b ∧ b < 64 then some (h128 (SHL128 a b)) else none
  | "_mm_clmulepi64_si128", [a, b, i] => do
    let a ← v128? a; let b ← v128? b; let i ← i.toNat?
    if i < 256 then some (h128 (mm_clmulepi64_si128 a b i)) else none
  | "CLMULLO128", [a, b] => bin CLMULLO128 a b
  | "CLMULHI128", [a, b] => bin CLMULHI128 a b
  | "CLMULLOHI128", [a, b] => bin CLMULLOHI128 a b
  | "CLMULHILO128", [a, b] => bin CLMULHILO128 a b
  | "clsq_lo", [a] => un (fun x => CLMULLO128 x x) a
  | "clsq_hi", [a] => un (fun x => CLMULHI128 x x) a
  | "clmul_p64", [a] => un (fun x => CLMULLO128 x (SET64x2 0 0xc200000000000000)) a
  | "_mm_aesenc_si128", [a, b] => bin mm_aesenc_si128 a b
  | "_mm_aesenclast_si128", [a, b] => bin mm_aesenclast_si128 a b
  | "_mm_aeskeygenassist_si128", [a, i] => do
    let a ← v128? a; let i ← i.toNat?
    if i < 256 then some (h128 (mm_aeskeygenassist_si128 a (u8 i))) else none
  | _, _ => none

/-- per-operation statistics: (op, lines, mismatches), in order of first appearance (reversed) -/
abbrev Stats := List (String × Nat × Nat)

def bump (st : Stats) (op : String) (bad : Bool) : Stats :=
  if st.any (·.1 == op) then
    st.map fun (o, n, b) => if o == op then (o, n + 1, if bad then b + 1 else b) else (o, n, b)
  else (op, 1, if bad then 1 else 0) :: st

/-- split `op a1 … an = r1 … rk` into `(op, [a1 … an], "r1 … rk")` -/
def parseLine (line : String) : Option (String × List String × String) :=
  match (line.splitOn " ").filter (· ≠ "") with
  | op :: rest =>
    let args := rest.takeWhile (· ≠ "=")
    match rest.dropWhile (· ≠ "=") with
    | _ :: res@(_ :: _) => if res.contains "=" then none else some (op, args, " ".intercalate res)
    | _ => none
  | [] => none

partial def loop (h : IO.FS.Stream) (n bad : Nat) (st : Stats) : IO (Nat × Nat × Stats) := do
  let line ← h.getLine
  if line.isEmpty then return (n, bad, st)
  let line := (line.splitOn "\n").head!
  if line.isEmpty then loop h n bad st else
  match parseLine line with
  | some (op, args, res) =>
    match expected op args with
    | some e =>
      if e == res then loop h (n + 1) bad (bump st op false)
      else do
        IO.println s!"MISMATCH {line}\n   lean: {e}"
        loop h (n + 1) (bad + 1) (bump st op true)
    | none => do
      IO.println s!"UNKNOWN {line}"
      loop h (n + 1) (bad + 1) (bump st op true)
  | none => do
    IO.println s!"MALFORMED {line}"
    loop h (n + 1) (bad + 1) (bump st "MALFORMED" true)

def main : IO UInt32 := do
  let h ← IO.getStdin
  let (n, bad, st) ← loop h 0 0 []
  for (op, k, b) in st.reverse do
    IO.println s!"  {op}: {k} lines, {b} mismatches"
  IO.println s!"simdcheck/gcm: {st.length} distinct operations"
  IO.println s!"{n} lines, {bad} mismatches"
  return (if bad == 0 && n > 0 then 0 else 1)
