/* Prints, for every SSE2 / AES-NI intrinsic in the macro block of libsodium's aegis128l_aesni.c /
   aegis256_aesni.c, the result computed by the REAL CPU on pseudo-random inputs, one line per call:
       op|arg|arg|...|result
   vector arguments/results are the hex of their 16-byte memory image, scalars are decimal.
   The lines are re-computed by the Lean definitions of SodiumModel/Model/AegisAesni.lean
   (simdcheck/aegis/SimdCheck.lean) and compared.   gcc -O1 -maes -msse2 intrinsics_check.c */
#include <stdint.h>
#include <stdio.h>
#include <string.h>
#include <emmintrin.h>
#include <wmmintrin.h>

static uint64_t s = 0x9e3779b97f4a7c15ULL;
static uint64_t rnd(void) { s ^= s << 13; s ^= s >> 7; s ^= s << 17; return s; }
static void rndbytes(uint8_t *p, int n) {
    for (int i = 0; i < n; i++) p[i] = (uint8_t)(rnd() >> 24);
    /* corner cases: all-ones / all-zero bytes */
    if ((rnd() & 3) == 0) for (int i = 0; i < n; i++) if (rnd() & 1) p[i] = (rnd() & 1) ? 0xff : 0x00;
}
static void hex(const uint8_t *p, int n) { for (int i = 0; i < n; i++) printf("%02x", p[i]); }
static __m128i R128(uint8_t *buf) { rndbytes(buf, 16); return _mm_loadu_si128((const __m128i *)(const void *)buf); }
static void P128(__m128i v) { uint8_t o[16]; _mm_storeu_si128((__m128i *)(void *)o, v); hex(o, 16); }

#define BIN128(name) do { uint8_t a[16], b[16]; __m128i va = R128(a), vb = R128(b); \
    printf(#name "|"); hex(a,16); printf("|"); hex(b,16); printf("|"); P128(name(va, vb)); printf("\n"); } while (0)

int main(void)
{
    /* fixed vectors first: FIPS 197 Appendix B round 1 (state after AddRoundKey(0), round key 1):
       expected result a49c7ff2689f352b6b5bea43026a5049 */
    { static const uint8_t st[16] = {0x19,0x3d,0xe3,0xbe,0xa0,0xf4,0xe2,0x2b,0x9a,0xc6,0x8d,0x2a,0xe9,0xf8,0x48,0x08};
      static const uint8_t rk[16] = {0xa0,0xfa,0xfe,0x17,0x88,0x54,0x2c,0xb1,0x23,0xa3,0x39,0x39,0x2a,0x6c,0x76,0x05};
      __m128i a = _mm_loadu_si128((const __m128i *)(const void *)st), k = _mm_loadu_si128((const __m128i *)(const void *)rk);
      printf("_mm_aesenc_si128|"); hex(st,16); printf("|"); hex(rk,16); printf("|"); P128(_mm_aesenc_si128(a, k)); printf("\n"); }
    /* every S-box input at every byte position: 16 blocks x 16 positions covering bytes 0..255 */
    for (int j = 0; j < 16; j++) {
        uint8_t st[16], rk[16];
        for (int i = 0; i < 16; i++) { st[i] = (uint8_t)(16 * ((i + j) & 15) + j); rk[i] = 0; }
        for (int r = 0; r < 16; r++) {
            uint8_t t[16]; for (int i = 0; i < 16; i++) t[i] = st[(i + r) & 15] ^ (uint8_t)(r * 17);
            __m128i a = _mm_loadu_si128((const __m128i *)(const void *)t), k = _mm_loadu_si128((const __m128i *)(const void *)rk);
            printf("_mm_aesenc_si128|"); hex(t,16); printf("|"); hex(rk,16); printf("|"); P128(_mm_aesenc_si128(a, k)); printf("\n");
        }
    }
    for (int it = 0; it < 200; it++) {
        { uint8_t a[16]; __m128i v = R128(a);
          printf("_mm_loadu_si128+_mm_storeu_si128|"); hex(a,16); printf("|"); P128(v); printf("\n"); }
        { uint64_t e1 = rnd(), e0 = rnd();
          if ((it & 7) == 0) e1 = (uint64_t)it << 3;          /* the length-block shape: small bit counts */
          if ((it & 7) == 1) { e1 = ~0ULL; e0 = 1ULL << 63; } /* sign bit set: (long long) cast keeps the pattern */
          printf("_mm_set_epi64x|%llu %llu|", (unsigned long long)e1, (unsigned long long)e0);
          P128(_mm_set_epi64x((long long)e1, (long long)e0)); printf("\n"); }
        BIN128(_mm_xor_si128);
        BIN128(_mm_and_si128);
        BIN128(_mm_aesenc_si128);
        BIN128(_mm_aesenc_si128);
        BIN128(_mm_aesenc_si128);
    }
    return 0;
}
