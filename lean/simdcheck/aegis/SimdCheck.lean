import SodiumModel.Model.AegisAesni
/-
  Re-computes every line printed by `simdcheck/aegis/intrinsics_check.c` (real CPU) with the Lean
  intrinsic definitions of `SodiumModel/Model/AegisAesni.lean` and reports mismatches.
  Usage (see run.sh):  /tmp/intrinsics_check | lake env lean --run simdcheck/aegis/SimdCheck.lean
-/
open Sodium Sodium.Model.AegisAesni

def v128? (s : String) : Option M128i := do
  let b ← ofHex s
  if b.length = 16 then some (mm_loadu_si128 b) else none
def h128 (v : M128i) : String := toHex (mm_storeu_si128 v)
def nats? (s : String) : Option (List Nat) := (s.splitOn " ").mapM String.toNat?
def bin128 (f : M128i → M128i → M128i) (a b : String) : Option String := do
  let a ← v128? a; let b ← v128? b; some (h128 (f a b))

/-- expected result column for an operation line -/
def expected (op : String) (args : List String) : Option String :=
  match op, args with
  | "_mm_loadu_si128+_mm_storeu_si128", [a] => do let v ← v128? a; some (h128 v)
  | "_mm_set_epi64x", [e] => do
    match ← nats? e with
    | [e1, e0] => some (h128 (mm_set_epi64x (UInt64.ofNat e1) (UInt64.ofNat e0)))
    | _ => none
  | "_mm_xor_si128", [a, b] => bin128 mm_xor_si128 a b
  | "_mm_and_si128", [a, b] => bin128 mm_and_si128 a b
  | "_mm_aesenc_si128", [a, b] => bin128 mm_aesenc_si128 a b
  | _, _ => none

partial def loop (h : IO.FS.Stream) (n bad : Nat) (ops : List String) : IO (Nat × Nat × List String) := do
  let line ← h.getLine
  if line.isEmpty then return (n, bad, ops)
  let line := (line.splitOn "\n").head!
  if line.isEmpty then loop h n bad ops else
  let parts := line.splitOn "|"
  match parts with
  | op :: rest@(_ :: _) =>
    let args := rest.dropLast
    let res := rest.getLast!
    let ops := if ops.contains op then ops else op :: ops
    match expected op args with
    | some e =>
      if e == res then loop h (n + 1) bad ops
      else do
        IO.println s!"MISMATCH {line}\n   lean: {e}"
        loop h (n + 1) (bad + 1) ops
    | none => do
      IO.println s!"UNKNOWN {line}"
      loop h (n + 1) (bad + 1) ops
  | _ => do
    IO.println s!"MALFORMED {line}"
    loop h (n + 1) (bad + 1) ops

def main : IO UInt32 := do
  let h ← IO.getStdin
  let (n, bad, ops) ← loop h 0 0 []
  IO.println s!"simdcheck aegis: {n} lines, {ops.length} distinct operations, {bad} mismatches"
  return (if bad == 0 && n > 0 then 0 else 1)
