#!/bin/sh
# Validates the Lean intrinsic semantics (SodiumModel/Model/AegisAesni.lean, Part 1) against the real CPU.
# Run after `lake build` (from anywhere; or set VERIF_LEAN).  Exit 0 and "0 mismatches" required.
set -e
ROOT="${VERIF_LEAN:-$(cd "$(dirname "$0")/../.." && pwd)}"
TMP="${TMPDIR:-/tmp}/simdcheck-aegis.$$"
mkdir -p "$TMP"
gcc -O1 -maes -msse2 -Wall -o "$TMP/intrinsics_check" "$ROOT/simdcheck/aegis/intrinsics_check.c"
"$TMP/intrinsics_check" > "$TMP/cpu.txt"
cd "$ROOT" && lake env lean --run simdcheck/aegis/SimdCheck.lean < "$TMP/cpu.txt"
rc=$?
rm -rf "$TMP"
exit $rc
