import SodiumModel.Model.Argon2Simd
/-
  SimdCheck.lean -- re-computes every line printed by simdcheck/argon2/simd_vectors (the CPU's results)
  with the Lean intrinsic semantics of SodiumModel/Model/Argon2Simd.lean (Part 1: `_mm_mul_epu32`,
  `_mm256_mul_epu32`, the AVX-512F intrinsics on `M512`; and the small macros / inline functions of the
  three blamka-round-*.h headers in Parts 2-4) and reports the differences.

    lake env lean --run simdcheck/argon2/SimdCheck.lean vectors.txt

  Exit code 0 and "0 mismatches" = every intrinsic agrees with the CPU on every vector; unknown
  operation names count as mismatches.  Register <-> hex conversion is done HERE with plain `Nat`
  arithmetic (`Sodium.le` / `Sodium.toLE`), independently of the model's `epi64` / `ofEpi64` views.
-/
open Sodium Sodium.Model.Blake2bSimd Sodium.Model.Argon2Simd

def q64 (b : Bytes) : UInt64 := UInt64.ofNat (le (b.take 8))
def toM128 (b : Bytes) : M128 := ⟨q64 b, q64 (b.drop 8)⟩
def toM256 (b : Bytes) : M256 := ⟨toM128 b, toM128 (b.drop 16)⟩
def toM512 (b : Bytes) : M512 := ⟨toM256 b, toM256 (b.drop 32)⟩
def hex128 (x : M128) : String := toHex (toLE 8 x.q0.toNat ++ toLE 8 x.q1.toNat)
def hex256 (x : M256) : String := toHex (toLE 8 x.lo.q0.toNat ++ toLE 8 x.lo.q1.toNat ++ toLE 8 x.hi.q0.toNat ++ toLE 8 x.hi.q1.toNat)
def hex512 (x : M512) : String :=
  toHex (toLE 8 x.lo.lo.q0.toNat ++ toLE 8 x.lo.lo.q1.toNat ++ toLE 8 x.lo.hi.q0.toNat ++ toLE 8 x.lo.hi.q1.toNat
    ++ toLE 8 x.hi.lo.q0.toNat ++ toLE 8 x.hi.lo.q1.toNat ++ toLE 8 x.hi.hi.q0.toNat ++ toLE 8 x.hi.hi.q1.toNat)
def hexPair (p : M512 × M512) : String := hex512 p.1 ++ " " ++ hex512 p.2

def r128 (s : String) : Option M128 := do let b ← ofHex s; if b.length = 16 then some (toM128 b) else none
def r256 (s : String) : Option M256 := do let b ← ofHex s; if b.length = 32 then some (toM256 b) else none
def r512 (s : String) : Option M512 := do let b ← ofHex s; if b.length = 64 then some (toM512 b) else none
def rnat (s : String) : Option Nat := s.toNat?
def rint (s : String) : Option Int := s.toInt?
def ru64 (s : String) : Option UInt64 := do let n ← s.toNat?; if n < 2 ^ 64 then some (UInt64.ofNat n) else none
def words (l : List String) : Option (Array UInt64) := do let ws ← l.mapM ru64; some ws.toArray
def showWords (a : Array UInt64) : String := " ".intercalate (a.toList.map fun w => toString w.toNat)

/-- the model's result for one line (`args` = the tokens between the name and `=`), as the string
    that simd_vectors prints after `=` -/
def eval (name : String) (args : List String) : Option String :=
  match name, args with
  | "_MM_SHUFFLE", [a, b, c, d] => do some (toString (_MM_SHUFFLE (← rnat a) (← rnat b) (← rnat c) (← rnat d)))
  -- Part 1
  | "_mm_mul_epu32", [a, b] => do some (hex128 (_mm_mul_epu32 (← r128 a) (← r128 b)))
  | "_mm256_mul_epu32", [a, b] => do some (hex256 (_mm256_mul_epu32 (← r256 a) (← r256 b)))
  | "_mm512_mul_epu32", [a, b] => do some (hex512 (_mm512_mul_epu32 (← r512 a) (← r512 b)))
  | "_mm512_add_epi64", [a, b] => do some (hex512 (_mm512_add_epi64 (← r512 a) (← r512 b)))
  | "_mm512_xor_si512", [a, b] => do some (hex512 (_mm512_xor_si512 (← r512 a) (← r512 b)))
  | "_mm512_ror_epi64", [i, a] => do some (hex512 (_mm512_ror_epi64 (← r512 a) (← rnat i)))
  | "_mm512_permutex_epi64", [i, a] => do some (hex512 (_mm512_permutex_epi64 (← r512 a) (← rnat i)))
  | "_mm512_shuffle_i64x2", [i, a, b] => do some (hex512 (_mm512_shuffle_i64x2 (← r512 a) (← r512 b) (← rnat i)))
  | "_mm512_permutexvar_epi64", [idx, a] => do some (hex512 (_mm512_permutexvar_epi64 (← r512 idx) (← r512 a)))
  | "_mm512_setr_epi64", [e0, e1, e2, e3, e4, e5, e6, e7] => do
    some (hex512 (_mm512_setr_epi64 (← ru64 e0) (← ru64 e1) (← ru64 e2) (← ru64 e3) (← ru64 e4) (← ru64 e5)
      (← ru64 e6) (← ru64 e7)))
  | "_mm512_loadu_si512_u64", i :: mem => do some (hex512 (_mm512_loadu_si512_u64 (← words mem) (← rnat i)))
  | "_mm512_storeu_si512_u64", i :: a :: mem => do
    some (showWords (_mm512_storeu_si512_u64 (← words mem) (← rnat i) (← r512 a)))
  -- Part 2: blamka-round-avx2.h
  | "Avx2.rotr32", [a] => do some (hex256 (Avx2.rotr32 (← r256 a)))
  | "Avx2.rotr24", [a] => do some (hex256 (Avx2.rotr24 (← r256 a)))
  | "Avx2.rotr16", [a] => do some (hex256 (Avx2.rotr16 (← r256 a)))
  | "Avx2.rotr63", [a] => do some (hex256 (Avx2.rotr63 (← r256 a)))
  -- Part 3: blamka-round-ssse3.h
  | "Ssse3.r16", [] => some (hex128 Ssse3.r16)
  | "Ssse3.r24", [] => some (hex128 Ssse3.r24)
  | "Ssse3._mm_roti_epi64", [c, a] => do some (hex128 (Ssse3._mm_roti_epi64 (← r128 a) (← rint c)))
  | "Ssse3.fBlaMka", [a, b] => do some (hex128 (Ssse3.fBlaMka (← r128 a) (← r128 b)))
  -- Part 4: blamka-round-avx512f.h
  | "Avx512f.ror64", [i, a] => do some (hex512 (Avx512f.ror64 (← r512 a) (← rnat i)))
  | "Avx512f.muladd", [a, b] => do some (hex512 (Avx512f.muladd (← r512 a) (← r512 b)))
  | "Avx512f.SWAP_HALVES", [a, b] => do some (hexPair (Avx512f.SWAP_HALVES (← r512 a) (← r512 b)))
  | "Avx512f.SWAP_QUARTERS", [a, b] => do some (hexPair (Avx512f.SWAP_QUARTERS (← r512 a) (← r512 b)))
  | "Avx512f.UNSWAP_QUARTERS", [a, b] => do some (hexPair (Avx512f.UNSWAP_QUARTERS (← r512 a) (← r512 b)))
  | _, _ => none

def main (args : List String) : IO UInt32 := do
  let path := args.headD "vectors.txt"
  let text ← IO.FS.readFile path
  let mut n := 0
  let mut bad := 0
  let mut perOp : List (String × Nat) := []
  for line in text.splitOn "\n" do
    if line.isEmpty then continue
    n := n + 1
    let toks := (line.splitOn " ").filter (· ≠ "")
    let name := toks.headD ""
    let rest := toks.drop 1
    let args := rest.takeWhile (· ≠ "=")
    let expected := " ".intercalate ((rest.dropWhile (· ≠ "=")).drop 1)
    match perOp.find? (·.1 == name) with
    | some _ => perOp := perOp.map fun p => if p.1 == name then (p.1, p.2 + 1) else p
    | none => perOp := perOp ++ [(name, 1)]
    match eval name args with
    | some got =>
      if got ≠ expected then
        bad := bad + 1
        IO.println s!"MISMATCH {line}\n   model: {got}"
    | none =>
      bad := bad + 1
      IO.println s!"UNPARSED {line}"
  for p in perOp do
    IO.println s!"  {p.1}: {p.2} vectors"
  IO.println s!"{n} vectors, {perOp.length} operations, {bad} mismatches"
  return (if bad = 0 ∧ n > 0 then 0 else 1)
