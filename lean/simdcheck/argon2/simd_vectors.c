/*
 * simd_vectors.c -- prints, for every SSE2/AVX2/AVX-512F intrinsic that libsodium's vectorised Argon2
 * code uses and that simdcheck/blake2b does not cover yet (`_mm_mul_epu32`, `_mm256_mul_epu32` and the
 * AVX-512F ones), and for the small composite macros / inline functions of blamka-round-avx2.h,
 * blamka-round-ssse3.h and blamka-round-avx512f.h, the result computed BY THE CPU on pseudo-random (and a
 * few crafted) inputs, one line per evaluation:
 *
 *     <name> <arg> <arg> ... = <result>
 *
 * Registers are printed as the hex of their memory image (byte 0 first; 16, 32 or 64 bytes), 64-bit
 * scalars / array words as decimal, immediates as decimal (before the register arguments).
 * SimdCheck.lean re-computes every line with the Lean definitions of SodiumModel/Model/Argon2Simd.lean
 * (Part 1, and the macros of Parts 2-4) and reports any difference.
 *
 * Build:  gcc -O0|-O2 -msse2 -mssse3 -msse4.1 -mavx2 -mavx512f -o simd_vectors simd_vectors.c  (see run.sh)
 * Immediates must be compile-time constants, hence the X-macro lists below (they contain every
 * immediate / constant that occurs in the Argon2 code plus edge cases).
 *
 * Nothing of libsodium is #included: the macro texts below are COPIES of the ones in
 * src/libsodium/crypto_pwhash/argon2/blamka-round-{avx2,ssse3,avx512f}.h (run.sh checks with grep that
 * they are still the text of the headers if /repo is present).
 *
 * The AVX-512F section is skipped at run time (with a message on stderr) if the CPU lacks AVX-512F.
 */
#include <stdint.h>
#include <stdio.h>
#include <string.h>
#include <emmintrin.h>
#include <tmmintrin.h>
#include <smmintrin.h>
#include <immintrin.h>

/* ------------------------------------------------------------------ copied from blamka-round-avx2.h */
#define rotr32(x) _mm256_shuffle_epi32(x, _MM_SHUFFLE(2, 3, 0, 1))
#define rotr24(x) _mm256_shuffle_epi8(x, _mm256_setr_epi8(3, 4, 5, 6, 7, 0, 1, 2, 11, 12, 13, 14, 15, 8, 9, 10, 3, 4, 5, 6, 7, 0, 1, 2, 11, 12, 13, 14, 15, 8, 9, 10))
#define rotr16(x) _mm256_shuffle_epi8(x, _mm256_setr_epi8(2, 3, 4, 5, 6, 7, 0, 1, 10, 11, 12, 13, 14, 15, 8, 9, 2, 3, 4, 5, 6, 7, 0, 1, 10, 11, 12, 13, 14, 15, 8, 9))
#define rotr63(x) _mm256_xor_si256(_mm256_srli_epi64((x), 63), _mm256_add_epi64((x), (x)))

/* ------------------------------------------------------------------ copied from blamka-round-ssse3.h */
#define r16 \
    (_mm_setr_epi8(2, 3, 4, 5, 6, 7, 0, 1, 10, 11, 12, 13, 14, 15, 8, 9))
#define r24 \
    (_mm_setr_epi8(3, 4, 5, 6, 7, 0, 1, 2, 11, 12, 13, 14, 15, 8, 9, 10))

#if !(defined(_mm_roti_epi64) && defined(__XOP__))
#undef  _mm_roti_epi64
#define _mm_roti_epi64(x, c)                                         \
    (-(c) == 32)                                                     \
        ? _mm_shuffle_epi32((x), _MM_SHUFFLE(2, 3, 0, 1))            \
        : (-(c) == 24)                                               \
              ? _mm_shuffle_epi8((x), r24)                           \
              : (-(c) == 16)                                         \
                    ? _mm_shuffle_epi8((x), r16)                     \
                    : (-(c) == 63)                                   \
                          ? _mm_xor_si128(_mm_srli_epi64((x), -(c)), \
                                          _mm_add_epi64((x), (x)))   \
                          : _mm_xor_si128(_mm_srli_epi64((x), -(c)), \
                                          _mm_slli_epi64((x), 64 - (-(c))))
#endif

static inline __m128i
fBlaMka(__m128i x, __m128i y)
{
    const __m128i z = _mm_mul_epu32(x, y);
    return _mm_add_epi64(_mm_add_epi64(x, y), _mm_add_epi64(z, z));
}

/* ------------------------------------------------------------------ copied from blamka-round-avx512f.h */
#define ror64(x, n) _mm512_ror_epi64((x), (n))

static inline __m512i
muladd(__m512i x, __m512i y)
{
    __m512i z = _mm512_mul_epu32(x, y);

    return _mm512_add_epi64(_mm512_add_epi64(x, y), _mm512_add_epi64(z, z));
}

#define SWAP_HALVES(A0, A1) \
    do { \
        __m512i t0, t1; \
        t0 = _mm512_shuffle_i64x2(A0, A1, _MM_SHUFFLE(1, 0, 1, 0)); \
        t1 = _mm512_shuffle_i64x2(A0, A1, _MM_SHUFFLE(3, 2, 3, 2)); \
        A0 = t0; \
        A1 = t1; \
    } while((void)0, 0)

#define SWAP_QUARTERS(A0, A1) \
    do { \
        SWAP_HALVES(A0, A1); \
        A0 = _mm512_permutexvar_epi64(_mm512_setr_epi64(0, 1, 4, 5, 2, 3, 6, 7), A0); \
        A1 = _mm512_permutexvar_epi64(_mm512_setr_epi64(0, 1, 4, 5, 2, 3, 6, 7), A1); \
    } while((void)0, 0)

#define UNSWAP_QUARTERS(A0, A1) \
    do { \
        A0 = _mm512_permutexvar_epi64(_mm512_setr_epi64(0, 1, 4, 5, 2, 3, 6, 7), A0); \
        A1 = _mm512_permutexvar_epi64(_mm512_setr_epi64(0, 1, 4, 5, 2, 3, 6, 7), A1); \
        SWAP_HALVES(A0, A1); \
    } while((void)0, 0)
/* ------------------------------------------------------------------ end of the copied text */

static uint64_t rng_s = 0x9e3779b97f4a7c15ULL;
static uint64_t rnd64(void)
{
    rng_s ^= rng_s << 13; rng_s ^= rng_s >> 7; rng_s ^= rng_s << 17;
    return rng_s * 0x2545F4914F6CDD1DULL;
}
/* pseudo-random lane values with many carries / extreme 32-bit halves (important for mul_epu32: the
   product of two all-ones low halves is 0xfffffffe00000001, the high halves must be ignored) */
static uint64_t rndq(void)
{
    uint64_t r = rnd64();
    switch (rnd64() % 12) {
    case 0: return r | 0xffffffff00000000ULL;
    case 1: return r | 0x00000000ffffffffULL;
    case 2: return 0xffffffffffffffffULL;
    case 3: return r & 0x8000000000000001ULL;
    case 4: return r & 0xffffffff00000000ULL;   /* low half 0 */
    case 5: return r & 0x00000000ffffffffULL;   /* high half 0 */
    case 6: return r | 0x0000000080000000ULL;   /* bit 31 set: unsigned, not signed, multiplication */
    case 7: return 0xffffffff00000000ULL | (r & 0x80000001ULL);
    default: return r;
    }
}
static __m128i rnd128(void) { return _mm_set_epi64x((long long) rndq(), (long long) rndq()); }
static __m256i rnd256(void)
{
    return _mm256_set_epi64x((long long) rndq(), (long long) rndq(), (long long) rndq(), (long long) rndq());
}
static void pbytes(const uint8_t *b, int n) { int i; for (i = 0; i < n; i++) printf("%02x", b[i]); }
static void p128(__m128i x)
{
    uint8_t b[16];
    _mm_storeu_si128((__m128i *) (void *) b, x);
    pbytes(b, 16);
}
static void p256(__m256i x)
{
    uint8_t b[32];
    _mm256_storeu_si256((__m256i *) (void *) b, x);
    pbytes(b, 32);
}

#define N 64   /* vectors per operation without immediate */
#define NI 8   /* vectors per (operation, immediate) */

#define BIN128(pname, f) do { int k; for (k = 0; k < N; k++) { __m128i a = rnd128(), b = rnd128(); \
    printf(pname " "); p128(a); printf(" "); p128(b); printf(" = "); p128(f(a, b)); printf("\n"); } } while (0)
#define BIN256(pname, f) do { int k; for (k = 0; k < N; k++) { __m256i a = rnd256(), b = rnd256(); \
    printf(pname " "); p256(a); printf(" "); p256(b); printf(" = "); p256(f(a, b)); printf("\n"); } } while (0)
#define UN256(pname, f) do { int k; for (k = 0; k < N; k++) { __m256i a = rnd256(); \
    printf(pname " "); p256(a); printf(" = "); p256(f(a)); printf("\n"); } } while (0)
/* the SSSE3 rotation macro is an unparenthesised ?: chain: use it as the code does (`X = _mm_roti_epi64(X, -c);`) */
#define ROTI128(c) do { int k; for (k = 0; k < N; k++) { __m128i a = rnd128(), r; \
    r = _mm_roti_epi64(a, c); \
    printf("Ssse3._mm_roti_epi64 %d ", (c)); p128(a); printf(" = "); p128(r); printf("\n"); } } while (0)

static void section_sse_avx2(void)
{
    /* the two shuffle constants of the AVX-512F header */
    printf("_MM_SHUFFLE 1 0 1 0 = %d\n", _MM_SHUFFLE(1, 0, 1, 0));
    printf("_MM_SHUFFLE 3 2 3 2 = %d\n", _MM_SHUFFLE(3, 2, 3, 2));
    printf("_MM_SHUFFLE 0 3 2 1 = %d\n", _MM_SHUFFLE(0, 3, 2, 1));
    printf("_MM_SHUFFLE 1 0 3 2 = %d\n", _MM_SHUFFLE(1, 0, 3, 2));
    printf("_MM_SHUFFLE 2 1 0 3 = %d\n", _MM_SHUFFLE(2, 1, 0, 3));
    printf("_MM_SHUFFLE 2 3 0 1 = %d\n", _MM_SHUFFLE(2, 3, 0, 1));

    /* SSE2 */
    BIN128("_mm_mul_epu32", _mm_mul_epu32);
    /* blamka-round-ssse3.h */
    printf("Ssse3.r16 = "); p128(r16); printf("\n");
    printf("Ssse3.r24 = "); p128(r24); printf("\n");
    ROTI128(-32);
    ROTI128(-24);
    ROTI128(-16);
    ROTI128(-63);
    BIN128("Ssse3.fBlaMka", fBlaMka);

    /* AVX2 */
    BIN256("_mm256_mul_epu32", _mm256_mul_epu32);
    /* blamka-round-avx2.h */
    UN256("Avx2.rotr32", rotr32);
    UN256("Avx2.rotr24", rotr24);
    UN256("Avx2.rotr16", rotr16);
    UN256("Avx2.rotr63", rotr63);
}

/* ---------------------------------------------------------------------------------------- AVX-512F */
static __m512i rnd512(void)
{
    return _mm512_set_epi64((long long) rndq(), (long long) rndq(), (long long) rndq(), (long long) rndq(),
                            (long long) rndq(), (long long) rndq(), (long long) rndq(), (long long) rndq());
}
/* fully random 64-bit lanes (index registers: only the low 3 bits of each lane matter) */
static __m512i rnd512_full(void)
{
    return _mm512_set_epi64((long long) rnd64(), (long long) rnd64(), (long long) rnd64(), (long long) rnd64(),
                            (long long) rnd64(), (long long) rnd64(), (long long) rnd64(), (long long) rnd64());
}
static void p512(__m512i x)
{
    uint8_t b[64];
    _mm512_storeu_si512((void *) b, x);
    pbytes(b, 64);
}

#define BIN512(pname, f) do { int k; for (k = 0; k < N; k++) { __m512i a = rnd512(), b = rnd512(); \
    printf(pname " "); p512(a); printf(" "); p512(b); printf(" = "); p512(f(a, b)); printf("\n"); } } while (0)
#define IMM512(pname, f, imm) do { int k; for (k = 0; k < NI; k++) { __m512i a = rnd512(); \
    printf(pname " %d ", (imm)); p512(a); printf(" = "); p512(f(a, (imm))); printf("\n"); } } while (0)
#define BIMM512(pname, f, imm) do { int k; for (k = 0; k < NI; k++) { __m512i a = rnd512(), b = rnd512(); \
    printf(pname " %d ", (imm)); p512(a); printf(" "); p512(b); printf(" = "); p512(f(a, b, (imm))); printf("\n"); } } while (0)
/* macros with two lvalue arguments: print both new values */
#define SWAP512(pname, M) do { int k; for (k = 0; k < N; k++) { __m512i a = rnd512(), b = rnd512(); \
    printf(pname " "); p512(a); printf(" "); p512(b); printf(" = "); M(a, b); p512(a); printf(" "); p512(b); \
    printf("\n"); } } while (0)

#define RORS(F, pname, f) F(pname, f, 0); F(pname, f, 1); F(pname, f, 7); F(pname, f, 16); F(pname, f, 24); \
    F(pname, f, 31); F(pname, f, 32); F(pname, f, 33); F(pname, f, 62); F(pname, f, 63); F(pname, f, 64); \
    F(pname, f, 65); F(pname, f, 127); F(pname, f, 128); F(pname, f, 200); F(pname, f, 255)
#define ROR64S(F, pname, f) F(pname, f, 32); F(pname, f, 24); F(pname, f, 16); F(pname, f, 63)
#define PERMX(F, pname, f) F(pname, f, _MM_SHUFFLE(0, 3, 2, 1)); F(pname, f, _MM_SHUFFLE(1, 0, 3, 2)); \
    F(pname, f, _MM_SHUFFLE(2, 1, 0, 3)); F(pname, f, 0x00); F(pname, f, 0xFF); F(pname, f, 0x1B); \
    F(pname, f, 0x4E); F(pname, f, 0xE4); F(pname, f, 0x72); F(pname, f, 0x55); F(pname, f, 0xAA)
#define SHUFX2(F, pname, f) F(pname, f, _MM_SHUFFLE(1, 0, 1, 0)); F(pname, f, _MM_SHUFFLE(3, 2, 3, 2)); \
    F(pname, f, 0x00); F(pname, f, 0xFF); F(pname, f, 0x1B); F(pname, f, 0x72); F(pname, f, 0xE4); \
    F(pname, f, 0x4E); F(pname, f, 0x55); F(pname, f, 0xAA); F(pname, f, 0x93); F(pname, f, 0x39)

static void section_avx512f(void)
{
    int k, i;

    BIN512("_mm512_mul_epu32", _mm512_mul_epu32);
    BIN512("_mm512_add_epi64", _mm512_add_epi64);
    BIN512("_mm512_xor_si512", _mm512_xor_si512);
    RORS(IMM512, "_mm512_ror_epi64", _mm512_ror_epi64);
    PERMX(IMM512, "_mm512_permutex_epi64", _mm512_permutex_epi64);
    SHUFX2(BIMM512, "_mm512_shuffle_i64x2", _mm512_shuffle_i64x2);
    for (k = 0; k < N; k++) {
        __m512i idx = rnd512_full(), a = rnd512();
        printf("_mm512_permutexvar_epi64 "); p512(idx); printf(" "); p512(a); printf(" = ");
        p512(_mm512_permutexvar_epi64(idx, a)); printf("\n");
    }
    for (k = 0; k < NI; k++) {   /* the index constant of SWAP_QUARTERS / UNSWAP_QUARTERS */
        __m512i idx = _mm512_setr_epi64(0, 1, 4, 5, 2, 3, 6, 7), a = rnd512();
        printf("_mm512_permutexvar_epi64 "); p512(idx); printf(" "); p512(a); printf(" = ");
        p512(_mm512_permutexvar_epi64(idx, a)); printf("\n");
    }
    for (k = 0; k < NI; k++) {   /* the biased lane generator as index, too (all-ones lanes etc.) */
        __m512i idx = rnd512(), a = rnd512();
        printf("_mm512_permutexvar_epi64 "); p512(idx); printf(" "); p512(a); printf(" = ");
        p512(_mm512_permutexvar_epi64(idx, a)); printf("\n");
    }
    for (k = 0; k < N; k++) {
        uint64_t e[8];
        for (i = 0; i < 8; i++) e[i] = rndq();
        printf("_mm512_setr_epi64");
        for (i = 0; i < 8; i++) printf(" %llu", (unsigned long long) e[i]);
        printf(" = ");
        p512(_mm512_setr_epi64((long long) e[0], (long long) e[1], (long long) e[2], (long long) e[3],
                               (long long) e[4], (long long) e[5], (long long) e[6], (long long) e[7]));
        printf("\n");
    }
    printf("_mm512_setr_epi64 0 1 4 5 2 3 6 7 = "); p512(_mm512_setr_epi64(0, 1, 4, 5, 2, 3, 6, 7)); printf("\n");
    for (k = 0; k < N; k++) {
        uint64_t mem[12]; int idx = (int) (rnd64() % 5);   /* idx + 8 <= 12 */
        for (i = 0; i < 12; i++) mem[i] = rndq();
        printf("_mm512_loadu_si512_u64 %d", idx);
        for (i = 0; i < 12; i++) printf(" %llu", (unsigned long long) mem[i]);
        printf(" = "); p512(_mm512_loadu_si512((__m512i const *) (&mem[idx]))); printf("\n");
    }
    for (k = 0; k < N; k++) {
        uint64_t mem[12]; int idx = (int) (rnd64() % 5); __m512i a = rnd512();
        for (i = 0; i < 12; i++) mem[i] = rndq();
        printf("_mm512_storeu_si512_u64 %d ", idx); p512(a);
        for (i = 0; i < 12; i++) printf(" %llu", (unsigned long long) mem[i]);
        _mm512_storeu_si512((__m512i *) (&mem[idx]), a);
        printf(" =");
        for (i = 0; i < 12; i++) printf(" %llu", (unsigned long long) mem[i]);
        printf("\n");
    }

    /* blamka-round-avx512f.h */
    ROR64S(IMM512, "Avx512f.ror64", ror64);
    BIN512("Avx512f.muladd", muladd);
    SWAP512("Avx512f.SWAP_HALVES", SWAP_HALVES);
    SWAP512("Avx512f.SWAP_QUARTERS", SWAP_QUARTERS);
    SWAP512("Avx512f.UNSWAP_QUARTERS", UNSWAP_QUARTERS);
}

int main(void)
{
    __builtin_cpu_init();
    if (!__builtin_cpu_supports("ssse3") || !__builtin_cpu_supports("avx2")) {
        fprintf(stderr, "simd_vectors: this CPU lacks SSSE3 / AVX2: nothing can be validated\n");
        return 2;
    }
    section_sse_avx2();
    if (__builtin_cpu_supports("avx512f")) {
        section_avx512f();
    } else {
        fprintf(stderr, "simd_vectors: WARNING: this CPU lacks AVX-512F: the _mm512_* section is SKIPPED\n");
    }
    return 0;
}
