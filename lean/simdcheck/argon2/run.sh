#!/bin/sh
# Validate the Lean intrinsic semantics of SodiumModel/Model/Argon2Simd.lean (Part 1: _mm_mul_epu32,
# _mm256_mul_epu32, the AVX-512F intrinsics; plus the small macros of the three blamka-round-*.h) against
# the CPU.
#   usage: simdcheck/argon2/run.sh     (from anywhere, no arguments; needs the built .olean files)
# 0. (if the libsodium sources are present) the macro texts copied into simd_vectors.c are still the
#    text of the headers; 1. compile simd_vectors.c twice (-O0: every intrinsic is an executed
#    instruction; -O2: also the compiler's view) and require identical output; 2. re-compute every
#    line with the Lean model.  Exit code 0 and a last line "... 0 mismatches" = success.
set -e
cd "$(dirname "$0")/../.."
D=simdcheck/argon2
T="${TMPDIR:-/tmp}/simdcheck-argon2.$$"
mkdir -p "$T"
trap 'rm -rf "$T"' EXIT

# ---- 0. the copied macro text = the headers' text (every line of the blocks occurs verbatim)
H="${LIBSODIUM_SRC:-/repo/src/libsodium}/crypto_pwhash/argon2"
if [ -r "$H/blamka-round-avx2.h" ] && [ -r "$H/blamka-round-ssse3.h" ] && [ -r "$H/blamka-round-avx512f.h" ]; then
    {
        sed -n '/^#define rotr32/,/^#define rotr63/p' "$H/blamka-round-avx2.h"
        sed -n '/^#define r16/,/^}/p' "$H/blamka-round-ssse3.h"           # r16, r24, _mm_roti_epi64, fBlaMka
        sed -n '/^#define ror64/,/^}/p' "$H/blamka-round-avx512f.h"         # ror64, muladd
        sed -n '/^#define SWAP_HALVES/,/^#define BLAKE2_ROUND_1/p' "$H/blamka-round-avx512f.h" | sed '$d'
    } > "$T/hdr.txt"
    nl=0
    while IFS= read -r line; do
        [ -n "$line" ] || continue
        nl=$((nl + 1))
        if ! grep -Fxq -e "$line" "$D/simd_vectors.c"; then
            echo "simdcheck/argon2: header line not found verbatim in simd_vectors.c: $line" >&2
            exit 1
        fi
    done < "$T/hdr.txt"
    if [ "$nl" -lt 56 ]; then
        echo "simdcheck/argon2: only $nl header lines extracted (expected >= 56): the headers changed" >&2
        exit 1
    fi
    echo "macro text of simd_vectors.c = blamka-round-{avx2,ssse3,avx512f}.h ($nl lines compared)"
else
    echo "NOTE: libsodium headers not found under $H: copied macro text not compared"
fi

# ---- 1. the CPU's results
FLAGS="-msse2 -mssse3 -msse4.1 -mavx2 -mavx512f -Wall"
gcc -O0 $FLAGS -o "$T/v0" $D/simd_vectors.c
gcc -O2 $FLAGS -o "$T/v2" $D/simd_vectors.c
"$T/v0" > "$T/vectors.txt"
"$T/v2" > "$T/vectors2.txt"
cmp "$T/vectors.txt" "$T/vectors2.txt"
if ! grep -q '^_mm512_mul_epu32 ' "$T/vectors.txt"; then
    echo "WARNING: this CPU has no AVX-512F: the _mm512_* intrinsics and the Avx512f.* macros are NOT validated" >&2
    echo "WARNING: this CPU has no AVX-512F: the _mm512_* intrinsics and the Avx512f.* macros are NOT validated"
fi

# ---- 2. the Lean model's results
set +e
lake env lean --run $D/SimdCheck.lean "$T/vectors.txt"
rc=$?
exit $rc
