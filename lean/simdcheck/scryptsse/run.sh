#!/bin/sh
# Validate the intrinsic semantics defined in SodiumModel/Model/ScryptSse.lean (_mm_cvtsi128_si32, _mm_srli_si128, the aligned
# __m128i load / store memory image) against the CPU.   usage: simdcheck/scryptsse/run.sh   (needs the built .olean files)
# Exit code 0 and a last line "... 0 mismatches" = success.
set -e
cd "$(dirname "$0")/../.."
D=simdcheck/scryptsse
T="${TMPDIR:-/tmp}/simdcheck-scryptsse.$$"
mkdir -p "$T"
trap 'rm -rf "$T"' EXIT
gcc -O0 -msse2 -Wall -o "$T/v0" $D/intrin_check.c
gcc -O2 -msse2 -Wall -o "$T/v2" $D/intrin_check.c
"$T/v0" > "$T/vectors.txt"
"$T/v2" > "$T/vectors2.txt"
cmp "$T/vectors.txt" "$T/vectors2.txt"
set +e
lake env lean --run $D/SimdCheck.lean "$T/vectors.txt"
exit $?
