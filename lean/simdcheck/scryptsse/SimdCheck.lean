import SodiumModel.Model.ScryptSse
/-
  Re-computes every line printed by `intrin_check.c` (real CPU) with the Lean definitions of Model/ScryptSse.lean
  (`mm_cvtsi128_si32`, `mm_srli_si128`, `ld128`, `st128`) and reports mismatches.   Usage: see run.sh.
-/
open Sodium Sodium.Model Sodium.Model.ScryptSse Sodium.Model.ChachaSimd

def nats? (s : String) : Option (List Nat) := ((s.splitOn " ").filter (· ≠ "")).mapM String.toNat?
def showNats (l : List Nat) : String := " ".intercalate (l.map toString)
def vec (a b c d : Nat) : V128 := ld128 #[UInt32.ofNat a, UInt32.ofNat b, UInt32.ofNat c, UInt32.ofNat d] 0
def words (v : V128) : List Nat := ((st128 (Array.replicate 4 0) 0 v).toList.map UInt32.toNat)

def expected (op : String) (args : String) : Option String := do
  match op, ← nats? args with
  | "_mm_cvtsi128_si32", [a, b, c, d] => some (toString (mm_cvtsi128_si32 (vec a b c d)).toNat)
  | "_mm_srli_si128", [a, b, c, d, n] => some (showNats (words (mm_srli_si128 (vec a b c d) n)))
  | "X13", [a, b, c, d] => some (toString (mm_cvtsi128_si32 (mm_srli_si128 (vec a b c d) 4)).toNat)
  | "ld_add1_st", [a, b, c, d] => some (showNats (words (mm_add_epi32 (vec a b c d) (mm_set1_epi32 1))))
  | _, _ => none

def main (argv : List String) : IO UInt32 := do
  let some path := argv.head? | do IO.eprintln "usage: SimdCheck <vectors>"; return 2
  let lines := (← IO.FS.lines path).toList.filter (· ≠ "")
  let mut bad := 0
  let mut ops : List String := []
  for l in lines do
    match l.splitOn "|" with
    | [op, args, res] =>
      if !ops.contains op then ops := op :: ops
      match expected op args with
      | some e => if e ≠ res then do bad := bad + 1; IO.println s!"MISMATCH {l} (model: {e})"
      | none => do bad := bad + 1; IO.println s!"UNPARSED {l}"
    | _ => do bad := bad + 1; IO.println s!"UNPARSED {l}"
  IO.println s!"scryptsse intrinsics: {lines.length} vectors, {ops.length} operations, {bad} mismatches"
  return (if bad = 0 then 0 else 1)
