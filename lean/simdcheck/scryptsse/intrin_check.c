/* Validation of the two intrinsics defined in SodiumModel/Model/ScryptSse.lean (_mm_cvtsi128_si32, _mm_srli_si128) and of the
 * aligned __m128i load / store memory image (ld128 / st128: lane j = 32-bit word j) against the real CPU.
 * Each line: op|args|result.  Compiled with gcc -msse2 at -O0 and -O2 (outputs must agree). */
#include <emmintrin.h>
#include <stdint.h>
#include <stdio.h>
#include <string.h>

static uint64_t st = 0x9e3779b97f4a7c15ULL;
static uint32_t rnd(void) { st ^= st << 13; st ^= st >> 7; st ^= st << 17; return (uint32_t) (st >> 16); }

#define SRLI(n) { __m128i o = _mm_srli_si128(v, n); uint32_t ow[4]; memcpy(ow, &o, 16); \
    printf("_mm_srli_si128|%u %u %u %u %d|%u %u %u %u\n", w[0], w[1], w[2], w[3], n, ow[0], ow[1], ow[2], ow[3]); }

int main(void)
{
    int t;
    for (t = 0; t < 40; t++) {
        uint32_t w[4] __attribute__((aligned(16)));
        uint32_t o4[4] __attribute__((aligned(16)));
        __m128i  v;
        int      k;
        for (k = 0; k < 4; k++) w[k] = (t < 4) ? (t == k ? 0xffffffffU : 0) : rnd();
        v = *(const __m128i *) w;                  /* the aligned load the code does through `const __m128i *` */
        printf("_mm_cvtsi128_si32|%u %u %u %u|%u\n", w[0], w[1], w[2], w[3], (uint32_t) _mm_cvtsi128_si32(v));
        SRLI(0) SRLI(1) SRLI(3) SRLI(4) SRLI(8) SRLI(12) SRLI(15) SRLI(16) SRLI(17) SRLI(255)
        /* the code's own use: integerify's X13 */
        printf("X13|%u %u %u %u|%u\n", w[0], w[1], w[2], w[3], (uint32_t) _mm_cvtsi128_si32(_mm_srli_si128(v, 4)));
        /* load through __m128i*, lane-wise add 1 (so the value passes through a register), store through __m128i*, read as words */
        *(__m128i *) o4 = _mm_add_epi32(v, _mm_set1_epi32(1));
        printf("ld_add1_st|%u %u %u %u|%u %u %u %u\n", w[0], w[1], w[2], w[3], o4[0], o4[1], o4[2], o4[3]);
    }
    return 0;
}
