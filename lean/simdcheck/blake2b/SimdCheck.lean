import SodiumModel.Model.Blake2bSimd
/-
  SimdCheck.lean -- re-computes every line printed by simd_vectors (the CPU's results) with the Lean
  intrinsic semantics of SodiumModel/Model/Blake2bSimdIntrin.lean and reports the differences.

    lake env lean --run simdcheck/SimdCheck.lean vectors.txt

  Exit code 0 and "0 mismatches" = every intrinsic agrees with the CPU on every vector; unknown
  operation names count as mismatches.  Register <-> hex conversion is done HERE with plain `Nat`
  arithmetic (`Sodium.le` / `Sodium.toLE`), independently of the model's `epi8` / `ofEpi8` views.
-/
open Sodium Sodium.Model.Blake2bSimd

def q64 (b : Bytes) : UInt64 := UInt64.ofNat (le (b.take 8))
def toM128 (b : Bytes) : M128 := ⟨q64 b, q64 (b.drop 8)⟩
def toM256 (b : Bytes) : M256 := ⟨toM128 b, toM128 (b.drop 16)⟩
def hex128 (x : M128) : String := toHex (toLE 8 x.q0.toNat ++ toLE 8 x.q1.toNat)
def hex256 (x : M256) : String := toHex (toLE 8 x.lo.q0.toNat ++ toLE 8 x.lo.q1.toNat ++ toLE 8 x.hi.q0.toNat ++ toLE 8 x.hi.q1.toNat)

def r128 (s : String) : Option M128 := do let b ← ofHex s; if b.length = 16 then some (toM128 b) else none
def r256 (s : String) : Option M256 := do let b ← ofHex s; if b.length = 32 then some (toM256 b) else none
def rnat (s : String) : Option Nat := s.toNat?
def ru64 (s : String) : Option UInt64 := do let n ← s.toNat?; if n < 2 ^ 64 then some (UInt64.ofNat n) else none
def words (l : List String) : Option (Array UInt64) := do let ws ← l.mapM ru64; some ws.toArray
def showWords (a : Array UInt64) : String := " ".intercalate (a.toList.map fun w => toString w.toNat)
def b8 (b : Bytes) (i : Nat) : UInt8 := b.getD i 0

/-- the model's result for one line (`args` = the tokens between the name and `=`), as the string
    that simd_vectors prints after `=` -/
def eval (name : String) (args : List String) : Option String :=
  match name, args with
  | "_MM_SHUFFLE", [a, b, c, d] => do some (toString (_MM_SHUFFLE (← rnat a) (← rnat b) (← rnat c) (← rnat d)))
  | "_mm_add_epi64", [a, b] => do some (hex128 (_mm_add_epi64 (← r128 a) (← r128 b)))
  | "_mm_xor_si128", [a, b] => do some (hex128 (_mm_xor_si128 (← r128 a) (← r128 b)))
  | "_mm_unpacklo_epi64", [a, b] => do some (hex128 (_mm_unpacklo_epi64 (← r128 a) (← r128 b)))
  | "_mm_unpackhi_epi64", [a, b] => do some (hex128 (_mm_unpackhi_epi64 (← r128 a) (← r128 b)))
  | "_mm_srli_epi64", [i, a] => do some (hex128 (_mm_srli_epi64 (← r128 a) (← rnat i)))
  | "_mm_slli_epi64", [i, a] => do some (hex128 (_mm_slli_epi64 (← r128 a) (← rnat i)))
  | "_mm_shuffle_epi32", [i, a] => do some (hex128 (_mm_shuffle_epi32 (← r128 a) (← rnat i)))
  | "_mm_set_epi64x", [e1, e0] => do some (hex128 (_mm_set_epi64x (← ru64 e1) (← ru64 e0)))
  | "_mm_setr_epi8", [e] => do
    let b ← ofHex e
    some (hex128 (_mm_setr_epi8 (b8 b 0) (b8 b 1) (b8 b 2) (b8 b 3) (b8 b 4) (b8 b 5) (b8 b 6) (b8 b 7) (b8 b 8) (b8 b 9)
      (b8 b 10) (b8 b 11) (b8 b 12) (b8 b 13) (b8 b 14) (b8 b 15)))
  | "r16", [] => some (hex128 Sse.r16)
  | "r24", [] => some (hex128 Sse.r24)
  | "ROTATE16", [] => some (hex256 Avx2.ROTATE16)
  | "ROTATE24", [] => some (hex256 Avx2.ROTATE24)
  | "_mm_loadu_si128", [off, buf] => do some (hex128 (_mm_loadu_si128 (← ofHex buf).toArray (← rnat off)))
  | "loadu64", [off, buf] => do some (toString (loadu64 (← ofHex buf).toArray (← rnat off)).toNat)
  | "_mm_loadu_si128_u64", i :: mem => do some (hex128 (_mm_loadu_si128_u64 (← words mem) (← rnat i)))
  | "_mm_storeu_si128_u64", i :: a :: mem => do
    some (showWords (_mm_storeu_si128_u64 (← words mem) (← rnat i) (← r128 a)))
  | "_mm_shuffle_epi8", [a, b] => do some (hex128 (_mm_shuffle_epi8 (← r128 a) (← r128 b)))
  | "_mm_alignr_epi8", [i, a, b] => do some (hex128 (_mm_alignr_epi8 (← r128 a) (← r128 b) (← rnat i)))
  | "_mm_blend_epi16", [i, a, b] => do some (hex128 (_mm_blend_epi16 (← r128 a) (← r128 b) (← rnat i)))
  | "_mm256_add_epi64", [a, b] => do some (hex256 (_mm256_add_epi64 (← r256 a) (← r256 b)))
  | "_mm256_xor_si256", [a, b] => do some (hex256 (_mm256_xor_si256 (← r256 a) (← r256 b)))
  | "_mm256_or_si256", [a, b] => do some (hex256 (_mm256_or_si256 (← r256 a) (← r256 b)))
  | "_mm256_unpacklo_epi64", [a, b] => do some (hex256 (_mm256_unpacklo_epi64 (← r256 a) (← r256 b)))
  | "_mm256_unpackhi_epi64", [a, b] => do some (hex256 (_mm256_unpackhi_epi64 (← r256 a) (← r256 b)))
  | "_mm256_shuffle_epi8", [a, b] => do some (hex256 (_mm256_shuffle_epi8 (← r256 a) (← r256 b)))
  | "_mm256_srli_epi64", [i, a] => do some (hex256 (_mm256_srli_epi64 (← r256 a) (← rnat i)))
  | "_mm256_shuffle_epi32", [i, a] => do some (hex256 (_mm256_shuffle_epi32 (← r256 a) (← rnat i)))
  | "_mm256_permute4x64_epi64", [i, a] => do some (hex256 (_mm256_permute4x64_epi64 (← r256 a) (← rnat i)))
  | "_mm256_alignr_epi8", [i, a, b] => do some (hex256 (_mm256_alignr_epi8 (← r256 a) (← r256 b) (← rnat i)))
  | "_mm256_blend_epi32", [i, a, b] => do some (hex256 (_mm256_blend_epi32 (← r256 a) (← r256 b) (← rnat i)))
  | "_mm256_broadcastsi128_si256", [a] => do some (hex256 (_mm256_broadcastsi128_si256 (← r128 a)))
  | "_mm256_set_epi64x", [e3, e2, e1, e0] => do
    some (hex256 (_mm256_set_epi64x (← ru64 e3) (← ru64 e2) (← ru64 e1) (← ru64 e0)))
  | "_mm256_setr_epi8", [e] => do
    let b ← ofHex e
    some (hex256 (_mm256_setr_epi8 (b8 b 0) (b8 b 1) (b8 b 2) (b8 b 3) (b8 b 4) (b8 b 5) (b8 b 6) (b8 b 7) (b8 b 8) (b8 b 9)
      (b8 b 10) (b8 b 11) (b8 b 12) (b8 b 13) (b8 b 14) (b8 b 15) (b8 b 16) (b8 b 17) (b8 b 18) (b8 b 19)
      (b8 b 20) (b8 b 21) (b8 b 22) (b8 b 23) (b8 b 24) (b8 b 25) (b8 b 26) (b8 b 27) (b8 b 28) (b8 b 29)
      (b8 b 30) (b8 b 31)))
  | "_mm256_loadu_si256_u64", i :: mem => do some (hex256 (_mm256_loadu_si256_u64 (← words mem) (← rnat i)))
  | "_mm256_storeu_si256_u64", i :: a :: mem => do
    some (showWords (_mm256_storeu_si256_u64 (← words mem) (← rnat i) (← r256 a)))
  | _, _ => none

def main (args : List String) : IO UInt32 := do
  let path := args.headD "vectors.txt"
  let text ← IO.FS.readFile path
  let mut n := 0
  let mut bad := 0
  let mut perOp : List (String × Nat) := []
  for line in text.splitOn "\n" do
    if line.isEmpty then continue
    n := n + 1
    let toks := (line.splitOn " ").filter (· ≠ "")
    let name := toks.headD ""
    let rest := toks.drop 1
    let args := rest.takeWhile (· ≠ "=")
    let expected := " ".intercalate ((rest.dropWhile (· ≠ "=")).drop 1)
    match perOp.find? (·.1 == name) with
    | some _ => perOp := perOp.map fun p => if p.1 == name then (p.1, p.2 + 1) else p
    | none => perOp := perOp ++ [(name, 1)]
    match eval name args with
    | some got =>
      if got ≠ expected then
        bad := bad + 1
        IO.println s!"MISMATCH {line}\n   model: {got}"
    | none =>
      bad := bad + 1
      IO.println s!"UNPARSED {line}"
  for p in perOp do
    IO.println s!"  {p.1}: {p.2} vectors"
  IO.println s!"{n} vectors, {perOp.length} operations, {bad} mismatches"
  return (if bad = 0 ∧ n > 0 then 0 else 1)
