/*
 * simd_vectors.c -- prints, for every SSE2/SSSE3/SSE4.1/AVX2 intrinsic that libsodium's SIMD BLAKE2b
 * code uses, the result computed BY THE CPU on pseudo-random (and a few crafted) inputs, one line per
 * evaluation:
 *
 *     <name> <arg> <arg> ... = <result>
 *
 * Registers are printed as the hex of their memory image (byte 0 first; 16 or 32 bytes), 64-bit
 * scalars / array words as decimal, immediates as decimal.  SimdCheck.lean re-computes every line
 * with the Lean definitions of SodiumModel/Model/Blake2bSimdIntrin.lean and reports any difference.
 *
 * Build:  gcc -O1 -msse2 -mssse3 -msse4.1 -mavx2 -o simd_vectors simd_vectors.c   (see run.sh)
 * Immediates must be compile-time constants, hence the X-macro lists below (they contain every
 * immediate / constant that occurs in the BLAKE2b code plus edge cases).
 */
#include <stdint.h>
#include <stdio.h>
#include <string.h>
#include <emmintrin.h>
#include <tmmintrin.h>
#include <smmintrin.h>
#include <immintrin.h>

static uint64_t rng_s = 0x9e3779b97f4a7c15ULL;
static uint64_t rnd64(void)
{
    rng_s ^= rng_s << 13; rng_s ^= rng_s >> 7; rng_s ^= rng_s << 17;
    return rng_s * 0x2545F4914F6CDD1DULL;
}
/* pseudo-random lane values with many carries / extreme bytes */
static uint64_t rndq(void)
{
    uint64_t r = rnd64();
    switch (rnd64() % 8) {
    case 0: return r | 0xffffffff00000000ULL;
    case 1: return r | 0x00000000ffffffffULL;
    case 2: return 0xffffffffffffffffULL;
    case 3: return r & 0x8000000000000001ULL;
    default: return r;
    }
}
static __m128i rnd128(void) { return _mm_set_epi64x((long long) rndq(), (long long) rndq()); }
static __m256i rnd256(void)
{
    return _mm256_set_epi64x((long long) rndq(), (long long) rndq(), (long long) rndq(), (long long) rndq());
}
static void p128(__m128i x)
{
    uint8_t b[16]; int i;
    _mm_storeu_si128((__m128i *) b, x);
    for (i = 0; i < 16; i++) printf("%02x", b[i]);
}
static void p256(__m256i x)
{
    uint8_t b[32]; int i;
    _mm256_storeu_si256((__m256i *) b, x);
    for (i = 0; i < 32; i++) printf("%02x", b[i]);
}
static void pbytes(const uint8_t *b, int n) { int i; for (i = 0; i < n; i++) printf("%02x", b[i]); }

#define N 24

/* ---- 128-bit, two operands, no immediate */
#define BIN128(name) do { int k; for (k = 0; k < N; k++) { __m128i a = rnd128(), b = rnd128(); \
    printf(#name " "); p128(a); printf(" "); p128(b); printf(" = "); p128(name(a, b)); printf("\n"); } } while (0)
#define BIN256(name) do { int k; for (k = 0; k < N; k++) { __m256i a = rnd256(), b = rnd256(); \
    printf(#name " "); p256(a); printf(" "); p256(b); printf(" = "); p256(name(a, b)); printf("\n"); } } while (0)
/* ---- one operand + immediate */
#define IMM128(name, imm) do { int k; for (k = 0; k < 6; k++) { __m128i a = rnd128(); \
    printf(#name " %d ", (imm)); p128(a); printf(" = "); p128(name(a, (imm))); printf("\n"); } } while (0)
#define IMM256(name, imm) do { int k; for (k = 0; k < 6; k++) { __m256i a = rnd256(); \
    printf(#name " %d ", (imm)); p256(a); printf(" = "); p256(name(a, (imm))); printf("\n"); } } while (0)
/* ---- two operands + immediate */
#define BIMM128(name, imm) do { int k; for (k = 0; k < 6; k++) { __m128i a = rnd128(), b = rnd128(); \
    printf(#name " %d ", (imm)); p128(a); printf(" "); p128(b); printf(" = "); p128(name(a, b, (imm))); printf("\n"); } } while (0)
#define BIMM256(name, imm) do { int k; for (k = 0; k < 6; k++) { __m256i a = rnd256(), b = rnd256(); \
    printf(#name " %d ", (imm)); p256(a); printf(" "); p256(b); printf(" = "); p256(name(a, b, (imm))); printf("\n"); } } while (0)

#define SHIFTS(F, name) F(name, 0); F(name, 1); F(name, 7); F(name, 31); F(name, 32); F(name, 33); F(name, 62); \
    F(name, 63); F(name, 64); F(name, 65); F(name, 127); F(name, 255)
#define SHUF32(F, name) F(name, 0xB1); F(name, 0x4E); F(name, 0x1B); F(name, 0x00); F(name, 0xFF); F(name, 0x39); \
    F(name, 0x93); F(name, 0xE4); F(name, 0x6C)
#define ALIGNS(F, name) F(name, 0); F(name, 1); F(name, 7); F(name, 8); F(name, 9); F(name, 15); F(name, 16); \
    F(name, 17); F(name, 23); F(name, 24); F(name, 31); F(name, 32); F(name, 33); F(name, 200); F(name, 255)
#define BLENDS(F, name) F(name, 0xF0); F(name, 0x33); F(name, 0x0F); F(name, 0xCC); F(name, 0xAA); F(name, 0x5A); \
    F(name, 0x00); F(name, 0xFF); F(name, 0x81)
#define PERMS(F, name) F(name, 0x93); F(name, 0x4E); F(name, 0x39); F(name, 0x1B); F(name, 0x00); F(name, 0xFF); \
    F(name, 0xE4); F(name, 0x72)

int main(void)
{
    int k, i;

    /* _MM_SHUFFLE */
    printf("_MM_SHUFFLE 2 3 0 1 = %d\n", _MM_SHUFFLE(2, 3, 0, 1));
    printf("_MM_SHUFFLE 1 0 3 2 = %d\n", _MM_SHUFFLE(1, 0, 3, 2));
    printf("_MM_SHUFFLE 2 1 0 3 = %d\n", _MM_SHUFFLE(2, 1, 0, 3));
    printf("_MM_SHUFFLE 0 3 2 1 = %d\n", _MM_SHUFFLE(0, 3, 2, 1));
    printf("_MM_SHUFFLE 3 3 3 3 = %d\n", _MM_SHUFFLE(3, 3, 3, 3));
    printf("_MM_SHUFFLE 0 1 2 3 = %d\n", _MM_SHUFFLE(0, 1, 2, 3));

    /* SSE2 */
    BIN128(_mm_add_epi64);
    BIN128(_mm_xor_si128);
    BIN128(_mm_unpacklo_epi64);
    BIN128(_mm_unpackhi_epi64);
    SHIFTS(IMM128, _mm_srli_epi64);
    SHIFTS(IMM128, _mm_slli_epi64);
    SHUF32(IMM128, _mm_shuffle_epi32);
    for (k = 0; k < N; k++) {
        uint64_t e1 = rndq(), e0 = rndq();
        printf("_mm_set_epi64x %llu %llu = ", (unsigned long long) e1, (unsigned long long) e0);
        p128(_mm_set_epi64x((long long) e1, (long long) e0)); printf("\n");
    }
    for (k = 0; k < N; k++) {
        uint8_t e[16]; uint64_t r0 = rnd64(), r1 = rnd64();
        memcpy(e, &r0, 8); memcpy(e + 8, &r1, 8);
        printf("_mm_setr_epi8 "); pbytes(e, 16); printf(" = ");
        p128(_mm_setr_epi8((char) e[0], (char) e[1], (char) e[2], (char) e[3], (char) e[4], (char) e[5], (char) e[6],
                           (char) e[7], (char) e[8], (char) e[9], (char) e[10], (char) e[11], (char) e[12],
                           (char) e[13], (char) e[14], (char) e[15]));
        printf("\n");
    }
    /* the two constants of the code */
    printf("r16 = "); p128(_mm_setr_epi8(2, 3, 4, 5, 6, 7, 0, 1, 10, 11, 12, 13, 14, 15, 8, 9)); printf("\n");
    printf("r24 = "); p128(_mm_setr_epi8(3, 4, 5, 6, 7, 0, 1, 2, 11, 12, 13, 14, 15, 8, 9, 10)); printf("\n");
    /* loads / stores: byte buffer and uint64_t array */
    for (k = 0; k < N; k++) {
        uint8_t buf[40]; int off = (int) (rnd64() % 24);
        for (i = 0; i < 40; i += 8) { uint64_t r = rnd64(); memcpy(buf + i, &r, 8); }
        printf("_mm_loadu_si128 %d ", off); pbytes(buf, 40); printf(" = ");
        p128(_mm_loadu_si128((const __m128i *) (const void *) (buf + off))); printf("\n");
    }
    for (k = 0; k < N; k++) {
        uint8_t buf[40]; int idx = (int) (rnd64() % 4); uint64_t v;
        for (i = 0; i < 40; i += 8) { uint64_t r = rnd64(); memcpy(buf + i, &r, 8); }
        memcpy(&v, buf + 8 * idx, 8);   /* ((const uint64_t *) block)[idx] */
        printf("loadu64 %d ", 8 * idx); pbytes(buf, 40); printf(" = %llu\n", (unsigned long long) v);
    }
    for (k = 0; k < N; k++) {
        uint64_t mem[8]; int idx = (int) (rnd64() % 7);
        for (i = 0; i < 8; i++) mem[i] = rndq();
        printf("_mm_loadu_si128_u64 %d", idx);
        for (i = 0; i < 8; i++) printf(" %llu", (unsigned long long) mem[i]);
        printf(" = "); p128(_mm_loadu_si128((const __m128i *) (const void *) &mem[idx])); printf("\n");
    }
    for (k = 0; k < N; k++) {
        uint64_t mem[8]; int idx = (int) (rnd64() % 7); __m128i a = rnd128();
        for (i = 0; i < 8; i++) mem[i] = rndq();
        printf("_mm_storeu_si128_u64 %d ", idx); p128(a);
        for (i = 0; i < 8; i++) printf(" %llu", (unsigned long long) mem[i]);
        _mm_storeu_si128((__m128i *) (void *) &mem[idx], a);
        printf(" =");
        for (i = 0; i < 8; i++) printf(" %llu", (unsigned long long) mem[i]);
        printf("\n");
    }

    /* SSSE3 */
    BIN128(_mm_shuffle_epi8);        /* random control bytes, including bit 7 set */
    for (k = 0; k < N; k++) {
        __m128i a = rnd128();
        __m128i r16 = _mm_setr_epi8(2, 3, 4, 5, 6, 7, 0, 1, 10, 11, 12, 13, 14, 15, 8, 9);
        __m128i r24 = _mm_setr_epi8(3, 4, 5, 6, 7, 0, 1, 2, 11, 12, 13, 14, 15, 8, 9, 10);
        printf("_mm_shuffle_epi8 "); p128(a); printf(" "); p128(r16); printf(" = "); p128(_mm_shuffle_epi8(a, r16)); printf("\n");
        printf("_mm_shuffle_epi8 "); p128(a); printf(" "); p128(r24); printf(" = "); p128(_mm_shuffle_epi8(a, r24)); printf("\n");
    }
    ALIGNS(BIMM128, _mm_alignr_epi8);

    /* SSE4.1 */
    BLENDS(BIMM128, _mm_blend_epi16);

    /* AVX2 */
    BIN256(_mm256_add_epi64);
    BIN256(_mm256_xor_si256);
    BIN256(_mm256_or_si256);
    BIN256(_mm256_unpacklo_epi64);
    BIN256(_mm256_unpackhi_epi64);
    BIN256(_mm256_shuffle_epi8);
    for (k = 0; k < N; k++) {
        __m256i a = rnd256();
        __m256i r16 = _mm256_setr_epi8(2, 3, 4, 5, 6, 7, 0, 1, 10, 11, 12, 13, 14, 15, 8, 9, 2, 3, 4, 5, 6, 7, 0, 1, 10,
                                       11, 12, 13, 14, 15, 8, 9);
        __m256i r24 = _mm256_setr_epi8(3, 4, 5, 6, 7, 0, 1, 2, 11, 12, 13, 14, 15, 8, 9, 10, 3, 4, 5, 6, 7, 0, 1, 2,
                                       11, 12, 13, 14, 15, 8, 9, 10);
        printf("_mm256_shuffle_epi8 "); p256(a); printf(" "); p256(r16); printf(" = "); p256(_mm256_shuffle_epi8(a, r16)); printf("\n");
        printf("_mm256_shuffle_epi8 "); p256(a); printf(" "); p256(r24); printf(" = "); p256(_mm256_shuffle_epi8(a, r24)); printf("\n");
        if (k == 0) {
            printf("ROTATE16 = "); p256(r16); printf("\n");
            printf("ROTATE24 = "); p256(r24); printf("\n");
        }
    }
    SHIFTS(IMM256, _mm256_srli_epi64);
    SHUF32(IMM256, _mm256_shuffle_epi32);
    PERMS(IMM256, _mm256_permute4x64_epi64);
    ALIGNS(BIMM256, _mm256_alignr_epi8);
    BLENDS(BIMM256, _mm256_blend_epi32);
    for (k = 0; k < N; k++) {
        __m128i a = rnd128();
        printf("_mm256_broadcastsi128_si256 "); p128(a); printf(" = "); p256(_mm256_broadcastsi128_si256(a)); printf("\n");
    }
    for (k = 0; k < N; k++) {
        uint64_t e3 = rndq(), e2 = rndq(), e1 = rndq(), e0 = rndq();
        printf("_mm256_set_epi64x %llu %llu %llu %llu = ", (unsigned long long) e3, (unsigned long long) e2,
               (unsigned long long) e1, (unsigned long long) e0);
        p256(_mm256_set_epi64x((long long) e3, (long long) e2, (long long) e1, (long long) e0)); printf("\n");
    }
    for (k = 0; k < N; k++) {
        uint8_t e[32];
        for (i = 0; i < 32; i += 8) { uint64_t r = rnd64(); memcpy(e + i, &r, 8); }
        printf("_mm256_setr_epi8 "); pbytes(e, 32); printf(" = ");
        p256(_mm256_setr_epi8((char) e[0], (char) e[1], (char) e[2], (char) e[3], (char) e[4], (char) e[5], (char) e[6],
                              (char) e[7], (char) e[8], (char) e[9], (char) e[10], (char) e[11], (char) e[12],
                              (char) e[13], (char) e[14], (char) e[15], (char) e[16], (char) e[17], (char) e[18],
                              (char) e[19], (char) e[20], (char) e[21], (char) e[22], (char) e[23], (char) e[24],
                              (char) e[25], (char) e[26], (char) e[27], (char) e[28], (char) e[29], (char) e[30],
                              (char) e[31]));
        printf("\n");
    }
    for (k = 0; k < N; k++) {
        uint64_t mem[12] __attribute__((aligned(32))); int idx = (int) (rnd64() % 9);
        for (i = 0; i < 12; i++) mem[i] = rndq();
        printf("_mm256_loadu_si256_u64 %d", idx);
        for (i = 0; i < 12; i++) printf(" %llu", (unsigned long long) mem[i]);
        printf(" = "); p256(_mm256_loadu_si256((const __m256i *) (const void *) &mem[idx])); printf("\n");
        /* the aligned load LOAD(&blake2b_IV[0]) / LOAD(&blake2b_IV[4]) gives the same value */
        idx = 4 * (int) (rnd64() % 3);
        printf("_mm256_loadu_si256_u64 %d", idx);
        for (i = 0; i < 12; i++) printf(" %llu", (unsigned long long) mem[i]);
        printf(" = "); p256(_mm256_load_si256((const __m256i *) (const void *) &mem[idx])); printf("\n");
    }
    for (k = 0; k < N; k++) {
        uint64_t mem[12]; int idx = (int) (rnd64() % 9); __m256i a = rnd256();
        for (i = 0; i < 12; i++) mem[i] = rndq();
        printf("_mm256_storeu_si256_u64 %d ", idx); p256(a);
        for (i = 0; i < 12; i++) printf(" %llu", (unsigned long long) mem[i]);
        _mm256_storeu_si256((__m256i *) (void *) &mem[idx], a);
        printf(" =");
        for (i = 0; i < 12; i++) printf(" %llu", (unsigned long long) mem[i]);
        printf("\n");
    }
    return 0;
}
