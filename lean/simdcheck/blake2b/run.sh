#!/bin/sh
# Validate the Lean intrinsic semantics (SodiumModel/Model/Blake2bSimdIntrin.lean) against the CPU.
#   usage: simdcheck/run.sh            (from the lake project directory, after `lake build`)
# 1. compile simd_vectors.c twice (-O0: every intrinsic is an executed instruction; -O2: also the
#    compiler's view) and require identical output; 2. re-compute every line with the Lean model.
set -e
cd "$(dirname "$0")/.."
T="${TMPDIR:-/tmp}/simdcheck.$$"
mkdir -p "$T"
gcc -O0 -msse2 -mssse3 -msse4.1 -mavx2 -Wall -o "$T/v0" simdcheck/simd_vectors.c
gcc -O2 -msse2 -mssse3 -msse4.1 -mavx2 -Wall -o "$T/v2" simdcheck/simd_vectors.c
"$T/v0" > "$T/vectors.txt"
"$T/v2" > "$T/vectors2.txt"
cmp "$T/vectors.txt" "$T/vectors2.txt"
lake env lean --run simdcheck/SimdCheck.lean "$T/vectors.txt"
rc=$?
rm -rf "$T"
exit $rc
