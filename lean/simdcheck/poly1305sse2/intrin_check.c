/* Prints, for every SSE2 intrinsic used by libsodium's crypto_onetimeauth/poly1305/sse2/poly1305_sse2.c,
   the result computed by the REAL CPU on pseudo-random inputs, one line per call:
       op|arg|arg|...|result
   vector arguments/results are the hex of their 16-byte memory image, scalars are decimal.
   The lines are re-computed by the Lean definitions of SodiumModel/Model/Poly1305Sse2.lean (Part 1,
   the intrinsics ADDED there) and of SodiumModel/Model/Blake2bSimdIntrin.lean (the ones reused, at
   the immediates poly1305_sse2.c uses) by simdcheck/poly1305sse2/SimdCheck.lean and compared.
   Same calling convention as simdcheck/chacha (stdin pipe).   gcc -O1 -msse2 intrin_check.c
   (run.sh also builds it with -O0 and requires identical output) */
#include <stdint.h>
#include <stdio.h>
#include <string.h>
#include <emmintrin.h>

static uint64_t s = 0x9e3779b97f4a7c15ULL;
static uint64_t rnd(void) { s ^= s << 13; s ^= s >> 7; s ^= s << 17; return s; }
static void rndbytes(uint8_t *p, int n) {
    for (int i = 0; i < n; i++) p[i] = (uint8_t)(rnd() >> 24);
    /* make carry / high-bit corner cases likely */
    if ((rnd() & 3) == 0) for (int i = 0; i < n; i++) if (rnd() & 1) p[i] = 0xff;
    if ((rnd() & 7) == 0) for (int i = 0; i < n; i++) if (rnd() & 1) p[i] = 0x00;
}
static void hex(const uint8_t *p, int n) { for (int i = 0; i < n; i++) printf("%02x", p[i]); }
static __m128i R128(uint8_t *buf) { rndbytes(buf, 16); return _mm_loadu_si128((const __m128i *)buf); }
static void P128(__m128i v) { uint8_t o[16]; _mm_storeu_si128((__m128i *)o, v); hex(o, 16); }

#define BIN128(name) do { uint8_t a[16], b[16]; __m128i va = R128(a), vb = R128(b); \
    printf(#name "|"); hex(a,16); printf("|"); hex(b,16); printf("|"); P128(name(va, vb)); printf("\n"); } while (0)
#define IMM128(name, imm) do { uint8_t a[16]; __m128i va = R128(a); \
    printf(#name "|"); hex(a,16); printf("|%d|", imm); P128(name(va, imm)); printf("\n"); } while (0)

int main(void)
{
    for (int it = 0; it < 32; it++) {
        /* the 32-bit and 64-bit views of a register loaded from 16 bytes (little-endian memory image) */
        { uint8_t a[16]; uint32_t w[4]; uint64_t q[2]; __m128i v = R128(a);
          memcpy(w, &v, 16); memcpy(q, &v, 16);
          printf("view32|"); hex(a,16); printf("|%u %u %u %u\n", w[0], w[1], w[2], w[3]);
          printf("view64|"); hex(a,16); printf("|%llu %llu\n", (unsigned long long)q[0], (unsigned long long)q[1]);
          printf("_mm_loadu_si128|"); hex(a,16); printf("|"); P128(v); printf("\n"); }
        /* added intrinsics */
        printf("_mm_setzero_si128|"); P128(_mm_setzero_si128()); printf("\n");
        { uint32_t a = (uint32_t)rnd(); if (it % 5 == 0) a |= 0x80000000u;
          printf("_mm_cvtsi32_si128|%u|", a); P128(_mm_cvtsi32_si128((int)a)); printf("\n"); }
        { uint8_t a[16]; __m128i v = R128(a);
          printf("_mm_cvtsi128_si32|"); hex(a,16); printf("|%u\n", (uint32_t)_mm_cvtsi128_si32(v)); }
        BIN128(_mm_and_si128);
        BIN128(_mm_or_si128);
        BIN128(_mm_mul_epu32);
        BIN128(_mm_mul_epu32);
        BIN128(_mm_unpacklo_epi32);
        BIN128(_mm_unpackhi_epi32);
        { uint8_t a[16]; rndbytes(a, 16);
          printf("_mm_loadl_epi64|"); hex(a,8); printf("|"); P128(_mm_loadl_epi64((const __m128i *)(const void *)a)); printf("\n"); }
        { uint32_t x[4]; for (int i = 0; i < 4; i++) x[i] = (uint32_t)rnd();
          printf("_mm_loadu_si128_u32|%u %u %u %u|", x[0], x[1], x[2], x[3]);
          P128(_mm_loadu_si128((const __m128i *)(const void *)x)); printf("\n"); }
        { uint8_t a[16]; uint64_t q[2]; __m128i v = R128(a);
          _mm_storeu_si128((__m128i *)(void *)q, v);
          printf("_mm_storeu_si128_u64|"); hex(a,16); printf("|%llu %llu\n", (unsigned long long)q[0], (unsigned long long)q[1]);
          q[0] = 1; q[1] = 2; _mm_storel_epi64((__m128i *)(void *)q, v);
          printf("_mm_storel_epi64_u64|"); hex(a,16); printf("|%llu %llu\n", (unsigned long long)q[0], (unsigned long long)q[1]); }
        /* the struct-overrun load of poly1305_blocks: 16 bytes at &hh[8] = hh[8], hh[9], R[0], R[1] */
        { struct { uint64_t h[5]; uint32_t R[5]; } st; for (int i = 0; i < 5; i++) { st.h[i] = rnd(); st.R[i] = (uint32_t)rnd(); }
          printf("load_hh8|%llu %u %u|", (unsigned long long)st.h[4], st.R[0], st.R[1]);
          P128(_mm_loadu_si128((const __m128i *)(const void *)&st.h[4])); printf("\n"); }
        IMM128(_mm_srli_si128, 0);  IMM128(_mm_srli_si128, 1);  IMM128(_mm_srli_si128, 3);
        IMM128(_mm_srli_si128, 7);  IMM128(_mm_srli_si128, 8);  IMM128(_mm_srli_si128, 8);
        IMM128(_mm_srli_si128, 9);  IMM128(_mm_srli_si128, 15); IMM128(_mm_srli_si128, 16);
        IMM128(_mm_srli_si128, 17); IMM128(_mm_srli_si128, 200); IMM128(_mm_srli_si128, 255);
        /* reused intrinsics at the immediates of poly1305_sse2.c */
        BIN128(_mm_add_epi64);
        BIN128(_mm_unpacklo_epi64);
        IMM128(_mm_srli_epi64, 26); IMM128(_mm_srli_epi64, 52); IMM128(_mm_srli_epi64, 14); IMM128(_mm_srli_epi64, 40);
        IMM128(_mm_slli_epi64, 12); IMM128(_mm_slli_epi64, 6);  IMM128(_mm_slli_epi64, 18);
        IMM128(_mm_shuffle_epi32, _MM_SHUFFLE(1, 0, 1, 0)); IMM128(_mm_shuffle_epi32, _MM_SHUFFLE(1, 1, 0, 0));
        IMM128(_mm_shuffle_epi32, _MM_SHUFFLE(3, 3, 2, 2)); IMM128(_mm_shuffle_epi32, _MM_SHUFFLE(0, 0, 0, 0));
        IMM128(_mm_shuffle_epi32, _MM_SHUFFLE(1, 1, 1, 1)); IMM128(_mm_shuffle_epi32, _MM_SHUFFLE(2, 2, 2, 2));
        IMM128(_mm_shuffle_epi32, _MM_SHUFFLE(3, 3, 3, 3)); IMM128(_mm_shuffle_epi32, _MM_SHUFFLE(0, 0, 2, 0));
    }
    /* the three constants of poly1305_blocks */
    printf("HIBIT|"); P128(_mm_shuffle_epi32(_mm_cvtsi32_si128(1 << 24), _MM_SHUFFLE(1, 0, 1, 0))); printf("\n");
    printf("MMASK|"); P128(_mm_shuffle_epi32(_mm_cvtsi32_si128((1 << 26) - 1), _MM_SHUFFLE(1, 0, 1, 0))); printf("\n");
    printf("FIVE|"); P128(_mm_shuffle_epi32(_mm_cvtsi32_si128(5), _MM_SHUFFLE(1, 0, 1, 0))); printf("\n");
    return 0;
}
