import SodiumModel.Model.Poly1305Sse2
/-
  Re-computes every line printed by `intrin_check.c` (real CPU) with the Lean intrinsic definitions of
  `SodiumModel/Model/Poly1305Sse2.lean` (Part 1) and `SodiumModel/Model/Blake2bSimdIntrin.lean`, and
  reports mismatches.  Usage (see run.sh; same convention as simdcheck/chacha):
      /tmp/intrin_check | lake env lean --run simdcheck/poly1305sse2/SimdCheck.lean
-/
open Sodium Sodium.Model Sodium.Model.Poly1305Sse2
open Sodium.Model.Blake2bSimd (M128 _mm_add_epi64 _mm_srli_epi64 _mm_slli_epi64 _mm_shuffle_epi32 _mm_unpacklo_epi64)

/-- a register from its 16-byte memory image, through the model's byte load -/
def v128? (s : String) : Option M128 := do
  let b ← ofHex s
  if b.length = 16 then some (_mm_loadu_si128 b) else none
/-- the 16-byte memory image of a register: its two 64-bit lanes, little-endian -/
def h128 (v : M128) : String := toHex (store64 (v.epi64 0) ++ store64 (v.epi64 1))
def nats? (s : String) : Option (List Nat) := (s.splitOn " ").mapM String.toNat?
def showNats (l : List Nat) : String := " ".intercalate (l.map toString)
def u32 (n : Nat) : UInt32 := UInt32.ofNat n
def u64 (n : Nat) : UInt64 := UInt64.ofNat n

def bin128 (f : M128 → M128 → M128) (a b : String) : Option String := do
  let a ← v128? a; let b ← v128? b; some (h128 (f a b))
def imm128 (f : M128 → Nat → M128) (a i : String) : Option String := do
  let a ← v128? a; let i ← i.toNat?; some (h128 (f a i))

/-- expected result column for an operation line -/
def expected (op : String) (args : List String) : Option String :=
  match op, args with
  | "view32", [a] => do
    let v ← v128? a; some (showNats [(v.epi32 0).toNat, (v.epi32 1).toNat, (v.epi32 2).toNat, (v.epi32 3).toNat])
  | "view64", [a] => do let v ← v128? a; some (showNats [(v.epi64 0).toNat, (v.epi64 1).toNat])
  | "_mm_loadu_si128", [a] => do let v ← v128? a; some (h128 v)
  | "_mm_setzero_si128", [] => some (h128 _mm_setzero_si128)
  | "_mm_cvtsi32_si128", [a] => do let a ← a.toNat?; some (h128 (_mm_cvtsi32_si128 (u32 a)))
  | "_mm_cvtsi128_si32", [a] => do let v ← v128? a; some (toString (_mm_cvtsi128_si32 v).toNat)
  | "_mm_and_si128", [a, b] => bin128 _mm_and_si128 a b
  | "_mm_or_si128", [a, b] => bin128 _mm_or_si128 a b
  | "_mm_mul_epu32", [a, b] => bin128 _mm_mul_epu32 a b
  | "_mm_unpacklo_epi32", [a, b] => bin128 _mm_unpacklo_epi32 a b
  | "_mm_unpackhi_epi32", [a, b] => bin128 _mm_unpackhi_epi32 a b
  | "_mm_loadl_epi64", [a] => do let b ← ofHex a; some (h128 (_mm_loadl_epi64 b))
  | "_mm_loadu_si128_u32", [w] => do
    match ← nats? w with
    | [a, b, c, d] => some (h128 (_mm_loadu_si128_u32 (u32 a) (u32 b) (u32 c) (u32 d)))
    | _ => none
  | "_mm_storeu_si128_u64", [a] => do
    let v ← v128? a; let r := _mm_storeu_si128_u64 v; some (showNats [r.1.toNat, r.2.toNat])
  | "_mm_storel_epi64_u64", [a] => do
    let v ← v128? a; some (showNats [(_mm_storel_epi64_u64 v).toNat, 2])
  | "load_hh8", [w] => do
    match ← nats? w with
    | [h4, r0, r1] =>
      -- the expression `blocks_load_H` uses for the 16 bytes at &st->H.hh[8]
      some (h128 (M128.ofEpi64 fun j => [u64 h4, (u32 r0).toUInt64 ||| ((u32 r1).toUInt64 <<< 32)].getD j 0))
    | _ => none
  | "_mm_srli_si128", [a, i] => imm128 _mm_srli_si128 a i
  | "_mm_add_epi64", [a, b] => bin128 _mm_add_epi64 a b
  | "_mm_unpacklo_epi64", [a, b] => bin128 _mm_unpacklo_epi64 a b
  | "_mm_srli_epi64", [a, i] => imm128 _mm_srli_epi64 a i
  | "_mm_slli_epi64", [a, i] => imm128 _mm_slli_epi64 a i
  | "_mm_shuffle_epi32", [a, i] => imm128 _mm_shuffle_epi32 a i
  | "HIBIT", [] => some (h128 HIBIT0)
  | "MMASK", [] => some (h128 MMASK)
  | "FIVE", [] => some (h128 FIVE)
  | _, _ => none

partial def loop (h : IO.FS.Stream) (n bad : Nat) (ops : List String) : IO (Nat × Nat × List String) := do
  let line ← h.getLine
  if line.isEmpty then return (n, bad, ops)
  let line := (line.splitOn "\n").head!
  if line.isEmpty then loop h n bad ops else
  let parts := line.splitOn "|"
  match parts with
  | op :: rest@(_ :: _) =>
    let args := rest.dropLast
    let res := rest.getLast!
    let ops := if ops.contains op then ops else op :: ops
    match expected op args with
    | some e =>
      if e == res then loop h (n + 1) bad ops
      else do
        IO.println s!"MISMATCH {line}\n   lean: {e}"
        loop h (n + 1) (bad + 1) ops
    | none => do
      IO.println s!"UNKNOWN {line}"
      loop h (n + 1) (bad + 1) ops
  | _ => do
    IO.println s!"MALFORMED {line}"
    loop h (n + 1) (bad + 1) ops

def main : IO UInt32 := do
  let h ← IO.getStdin
  let (n, bad, ops) ← loop h 0 0 []
  IO.println s!"simdcheck(poly1305sse2): {n} lines, {ops.length} distinct operations, {bad} mismatches"
  return (if bad == 0 && n > 0 then 0 else 1)
