#!/bin/sh
# Validates the Lean intrinsic semantics used by SodiumModel/Model/Poly1305Sse2.lean (Part 1: the
# intrinsics added there; plus the reused ones of Model/Blake2bSimdIntrin.lean at the immediates
# poly1305_sse2.c uses) against the real CPU.  Same calling convention as simdcheck/chacha/run.sh:
# run from anywhere (or set VERIF_LEAN to the lake project root) after `lake build`;
# exit 0 and "0 mismatches" required.
set -e
ROOT="${VERIF_LEAN:-$(cd "$(dirname "$0")/../.." && pwd)}"
TMP="${TMPDIR:-/tmp}/simdcheck-p1305.$$"
mkdir -p "$TMP"
gcc -O0 -msse2 -Wall -o "$TMP/c0" "$ROOT/simdcheck/poly1305sse2/intrin_check.c"
gcc -O1 -msse2 -Wall -o "$TMP/c1" "$ROOT/simdcheck/poly1305sse2/intrin_check.c"
"$TMP/c0" > "$TMP/cpu0.txt"
"$TMP/c1" > "$TMP/cpu.txt"
cmp "$TMP/cpu0.txt" "$TMP/cpu.txt"
cd "$ROOT" && lake env lean --run simdcheck/poly1305sse2/SimdCheck.lean < "$TMP/cpu.txt"
rc=$?
rm -rf "$TMP"
exit $rc
