/* Prints, for every SSE2/SSSE3/AVX2 intrinsic used by libsodium's dolbeau ChaCha20 code and xmm6int Salsa20 code, the result
   computed by the REAL CPU on pseudo-random inputs, one line per call:
       op|arg|arg|...|result
   vector arguments/results are the hex of their memory image (16 or 32 bytes), scalars are decimal.
   The lines are re-computed by the Lean definitions of SodiumModel/Model/ChachaSimd.lean
   (simdcheck/SimdCheck.lean) and compared.   gcc -O1 -mavx2 -mssse3 -msse4.1 intrinsics_check.c */
#include <stdint.h>
#include <stdio.h>
#include <string.h>
#include <emmintrin.h>
#include <tmmintrin.h>
#include <smmintrin.h>
#include <immintrin.h>

static uint64_t s = 0x9e3779b97f4a7c15ULL;
static uint64_t rnd(void) { s ^= s << 13; s ^= s >> 7; s ^= s << 17; return s; }
static void rndbytes(uint8_t *p, int n) {
    for (int i = 0; i < n; i++) p[i] = (uint8_t)(rnd() >> 24);
    /* make shift/carry corner cases likely */
    if ((rnd() & 3) == 0) for (int i = 0; i < n; i++) if (rnd() & 1) p[i] = 0xff;
}
static void hex(const uint8_t *p, int n) { for (int i = 0; i < n; i++) printf("%02x", p[i]); }
static __m128i R128(uint8_t *buf) { rndbytes(buf, 16); return _mm_loadu_si128((const __m128i *)buf); }
static __m256i R256(uint8_t *buf) { rndbytes(buf, 32); return _mm256_loadu_si256((const __m256i *)buf); }
static void P128(__m128i v) { uint8_t o[16]; _mm_storeu_si128((__m128i *)o, v); hex(o, 16); }
static void P256(__m256i v) { uint8_t o[32]; _mm256_storeu_si256((__m256i *)o, v); hex(o, 32); }

#define BIN128(name) do { uint8_t a[16], b[16]; __m128i va = R128(a), vb = R128(b); \
    printf(#name "|"); hex(a,16); printf("|"); hex(b,16); printf("|"); P128(name(va, vb)); printf("\n"); } while (0)
#define BIN256(name) do { uint8_t a[32], b[32]; __m256i va = R256(a), vb = R256(b); \
    printf(#name "|"); hex(a,32); printf("|"); hex(b,32); printf("|"); P256(name(va, vb)); printf("\n"); } while (0)
#define IMM128(name, imm) do { uint8_t a[16]; __m128i va = R128(a); \
    printf(#name "|"); hex(a,16); printf("|%d|", imm); P128(name(va, imm)); printf("\n"); } while (0)
#define IMM256(name, imm) do { uint8_t a[32]; __m256i va = R256(a); \
    printf(#name "|"); hex(a,32); printf("|%d|", imm); P256(name(va, imm)); printf("\n"); } while (0)
#define P2X128(imm) do { uint8_t a[32], b[32]; __m256i va = R256(a), vb = R256(b); \
    printf("_mm256_permute2x128_si256|"); hex(a,32); printf("|"); hex(b,32); printf("|%d|", imm); \
    P256(_mm256_permute2x128_si256(va, vb, imm)); printf("\n"); } while (0)

int main(void)
{
    for (int it = 0; it < 24; it++) {
        /* views: the 32-bit and 64-bit lanes of a register loaded from 16 bytes; and a store */
        { uint8_t a[16]; uint32_t w[4]; uint64_t q[2]; __m128i v = R128(a);
          memcpy(w, &v, 16); memcpy(q, &v, 16);
          printf("view32|"); hex(a,16); printf("|%u %u %u %u\n", w[0], w[1], w[2], w[3]);
          printf("view32x|"); hex(a,16); printf("|%u %u %u %u\n", (uint32_t)_mm_extract_epi32(v,0),
              (uint32_t)_mm_extract_epi32(v,1), (uint32_t)_mm_extract_epi32(v,2), (uint32_t)_mm_extract_epi32(v,3));
          printf("view64|"); hex(a,16); printf("|%llu %llu\n", (unsigned long long)_mm_extract_epi64(v,0),
              (unsigned long long)_mm_extract_epi64(v,1));
          printf("_mm_loadu_si128+_mm_storeu_si128|"); hex(a,16); printf("|"); P128(v); printf("\n"); }
        { uint8_t a[32]; uint32_t w[8]; __m256i v = R256(a); memcpy(w, &v, 32);
          printf("view32_256|"); hex(a,32); printf("|%u %u %u %u %u %u %u %u\n", w[0], w[1], w[2], w[3], w[4], w[5], w[6], w[7]);
          printf("view64_256|"); hex(a,32); printf("|%llu %llu %llu %llu\n",
              (unsigned long long)_mm256_extract_epi64(v,0), (unsigned long long)_mm256_extract_epi64(v,1),
              (unsigned long long)_mm256_extract_epi64(v,2), (unsigned long long)_mm256_extract_epi64(v,3));
          printf("_mm256_loadu_si256+_mm256_storeu_si256|"); hex(a,32); printf("|"); P256(v); printf("\n"); }
        /* a load from uint32_t x[4] (the context words) */
        { uint32_t x[4]; for (int i = 0; i < 4; i++) x[i] = (uint32_t)rnd();
          printf("loadu_words|%u %u %u %u|", x[0], x[1], x[2], x[3]); P128(_mm_loadu_si128((const __m128i *)x)); printf("\n"); }
        { uint8_t e[32]; rndbytes(e, 32);
          printf("_mm_set_epi8|"); hex(e,16); printf("|");
          P128(_mm_set_epi8(e[15],e[14],e[13],e[12],e[11],e[10],e[9],e[8],e[7],e[6],e[5],e[4],e[3],e[2],e[1],e[0])); printf("\n");
          printf("_mm256_set_epi8|"); hex(e,32); printf("|");
          P256(_mm256_set_epi8(e[31],e[30],e[29],e[28],e[27],e[26],e[25],e[24],e[23],e[22],e[21],e[20],e[19],e[18],e[17],e[16],
                               e[15],e[14],e[13],e[12],e[11],e[10],e[9],e[8],e[7],e[6],e[5],e[4],e[3],e[2],e[1],e[0])); printf("\n"); }
        { uint32_t a = (uint32_t)rnd();
          printf("_mm_set1_epi32|%u|", a); P128(_mm_set1_epi32(a)); printf("\n");
          printf("_mm256_set1_epi32|%u|", a); P256(_mm256_set1_epi32(a)); printf("\n"); }
        { uint32_t e[8]; for (int i = 0; i < 8; i++) e[i] = (uint32_t)rnd();
          printf("_mm256_set_epi32|%u %u %u %u %u %u %u %u|", e[7],e[6],e[5],e[4],e[3],e[2],e[1],e[0]);
          P256(_mm256_set_epi32(e[7],e[6],e[5],e[4],e[3],e[2],e[1],e[0])); printf("\n"); }
        { uint64_t e[4]; for (int i = 0; i < 4; i++) e[i] = rnd();
          printf("_mm_set_epi64x|%llu %llu|", (unsigned long long)e[1], (unsigned long long)e[0]);
          P128(_mm_set_epi64x(e[1], e[0])); printf("\n");
          printf("_mm_set1_epi64x|%llu|", (unsigned long long)e[0]); P128(_mm_set1_epi64x(e[0])); printf("\n");
          printf("_mm_cvtsi64_si128|%llu|", (unsigned long long)e[2]); P128(_mm_cvtsi64_si128(e[2])); printf("\n");
          printf("_mm256_set_epi64x|%llu %llu %llu %llu|", (unsigned long long)e[3], (unsigned long long)e[2],
                 (unsigned long long)e[1], (unsigned long long)e[0]);
          P256(_mm256_set_epi64x(e[3], e[2], e[1], e[0])); printf("\n"); }
        { uint8_t a[16]; __m128i v = R128(a);
          printf("_mm256_broadcastq_epi64|"); hex(a,16); printf("|"); P256(_mm256_broadcastq_epi64(v)); printf("\n"); }
        BIN128(_mm_add_epi32); BIN128(_mm_add_epi64); BIN128(_mm_xor_si128); BIN128(_mm_or_si128);
        BIN128(_mm_unpacklo_epi32); BIN128(_mm_unpackhi_epi32); BIN128(_mm_unpacklo_epi64); BIN128(_mm_unpackhi_epi64);
        BIN128(_mm_shuffle_epi8);
        BIN256(_mm256_add_epi32); BIN256(_mm256_add_epi64); BIN256(_mm256_xor_si256); BIN256(_mm256_or_si256);
        BIN256(_mm256_unpacklo_epi32); BIN256(_mm256_unpackhi_epi32); BIN256(_mm256_unpacklo_epi64); BIN256(_mm256_unpackhi_epi64);
        BIN256(_mm256_shuffle_epi8); BIN256(_mm256_permutevar8x32_epi32);
        IMM128(_mm_slli_epi32, 12); IMM128(_mm_slli_epi32, 7); IMM128(_mm_slli_epi32, 0); IMM128(_mm_slli_epi32, 1);
        IMM128(_mm_slli_epi32, 31); IMM128(_mm_slli_epi32, 32); IMM128(_mm_slli_epi32, 33); IMM128(_mm_slli_epi32, 255);
        IMM128(_mm_srli_epi32, 20); IMM128(_mm_srli_epi32, 25); IMM128(_mm_srli_epi32, 0); IMM128(_mm_srli_epi32, 1);
        IMM128(_mm_srli_epi32, 31); IMM128(_mm_srli_epi32, 32); IMM128(_mm_srli_epi32, 40); IMM128(_mm_srli_epi32, 255);
        IMM256(_mm256_slli_epi32, 12); IMM256(_mm256_slli_epi32, 7); IMM256(_mm256_slli_epi32, 0); IMM256(_mm256_slli_epi32, 31);
        IMM256(_mm256_slli_epi32, 32); IMM256(_mm256_slli_epi32, 200);
        IMM256(_mm256_srli_epi32, 20); IMM256(_mm256_srli_epi32, 25); IMM256(_mm256_srli_epi32, 0); IMM256(_mm256_srli_epi32, 31);
        IMM256(_mm256_srli_epi32, 32); IMM256(_mm256_srli_epi32, 200);
        IMM128(_mm_shuffle_epi32, 0x93); IMM128(_mm_shuffle_epi32, 0x4e); IMM128(_mm_shuffle_epi32, 0x39);
        IMM128(_mm_shuffle_epi32, 0x1b); IMM128(_mm_shuffle_epi32, 0x00); IMM128(_mm_shuffle_epi32, 0xff); IMM128(_mm_shuffle_epi32, 0xc6);
        /* --- additions for the xmm6int Salsa20 code (Model/SalsaSimd.lean) --- */
        /* the one new intrinsic: _mm_cvtsi128_si32 (u1.h / u0.h ONEQUAD_SHUFFLE), printed as the uint32_t it is assigned to */
        { uint8_t a[16]; __m128i v = R128(a); uint32_t w = _mm_cvtsi128_si32(v);
          printf("_mm_cvtsi128_si32|"); hex(a,16); printf("|%u\n", w); }
        /* the `*(uint32_t *) (p + off)` accesses of u1.h / u0.h: a 4-byte load and a 4-byte store */
        { uint8_t a[16]; uint32_t w; rndbytes(a, 16); memcpy(&w, a + 4, 4);
          printf("load_u32|"); hex(a,16); printf("|4|%u\n", w);
          w = (uint32_t) rnd(); memcpy(a + 8, &w, 4);
          printf("store_u32|%u|", w); hex(a + 8, 4); printf("\n"); }
        /* shift counts and shuffle immediates that only the Salsa20 code uses */
        IMM128(_mm_slli_epi32, 9); IMM128(_mm_slli_epi32, 13); IMM128(_mm_slli_epi32, 18);
        IMM128(_mm_srli_epi32, 23); IMM128(_mm_srli_epi32, 19); IMM128(_mm_srli_epi32, 14);
        IMM256(_mm256_slli_epi32, 9); IMM256(_mm256_slli_epi32, 13); IMM256(_mm256_slli_epi32, 18);
        IMM256(_mm256_srli_epi32, 23); IMM256(_mm256_srli_epi32, 19); IMM256(_mm256_srli_epi32, 14);
        IMM128(_mm_shuffle_epi32, 0x55); IMM128(_mm_shuffle_epi32, 0xaa);
        P2X128(0x20); P2X128(0x31); P2X128(0x02); P2X128(0x13); P2X128(0x08); P2X128(0x80); P2X128(0x28); P2X128(0x9d);
    }
    /* the constants of the code, verbatim */
    { uint8_t a[16]; __m128i v = R128(a);
      const __m128i rot16 = _mm_set_epi8(13, 12, 15, 14, 9, 8, 11, 10, 5, 4, 7, 6, 1, 0, 3, 2);
      const __m128i rot8 = _mm_set_epi8(14, 13, 12, 15, 10, 9, 8, 11, 6, 5, 4, 7, 2, 1, 0, 3);
      printf("shuffle_rot16|"); hex(a,16); printf("|"); P128(_mm_shuffle_epi8(v, rot16)); printf("\n");
      printf("shuffle_rot8|"); hex(a,16); printf("|"); P128(_mm_shuffle_epi8(v, rot8)); printf("\n"); }
    { uint8_t a[32]; __m256i v = R256(a);
      __m256i rot16 = _mm256_set_epi8(13, 12, 15, 14, 9, 8, 11, 10, 5, 4, 7, 6, 1, 0, 3, 2,
                                      13, 12, 15, 14, 9, 8, 11, 10, 5, 4, 7, 6, 1, 0, 3, 2);
      __m256i rot8 = _mm256_set_epi8(14, 13, 12, 15, 10, 9, 8, 11, 6, 5, 4, 7, 2, 1, 0, 3,
                                     14, 13, 12, 15, 10, 9, 8, 11, 6, 5, 4, 7, 2, 1, 0, 3);
      const __m256i permute = _mm256_set_epi32(7, 6, 3, 2, 5, 4, 1, 0);
      printf("shuffle_rot16_256|"); hex(a,32); printf("|"); P256(_mm256_shuffle_epi8(v, rot16)); printf("\n");
      printf("shuffle_rot8_256|"); hex(a,32); printf("|"); P256(_mm256_shuffle_epi8(v, rot8)); printf("\n");
      printf("permutevar_permute|"); hex(a,32); printf("|"); P256(_mm256_permutevar8x32_epi32(v, permute)); printf("\n"); }
    return 0;
}
