import SodiumModel.Model.ChachaSimd
import SodiumModel.Model.SalsaSimd
/-
  Re-computes every line printed by `intrinsics_check.c` (real CPU) with the Lean intrinsic definitions of
  `SodiumModel/Model/ChachaSimd.lean` and reports mismatches.
  Usage (see run.sh):  /tmp/intrinsics_check | lake env lean --run simdcheck/SimdCheck.lean
-/
open Sodium Sodium.Model.CoresRef Sodium.Model.ChachaSimd

def v128? (s : String) : Option V128 := do
  let b ← ofHex s
  if b.length = 16 then some (mm_loadu_si128 b) else none
def m256? (s : String) : Option M256 := do
  let b ← ofHex s
  if b.length = 32 then some (mm256_loadu_si256 b) else none
def h128 (v : V128) : String := toHex (mm_storeu_si128 (zeros 16) 0 v)
def h256 (v : M256) : String := toHex (mm256_storeu_si256 (zeros 32) 0 v)
def nats? (s : String) : Option (List Nat) := (s.splitOn " ").mapM String.toNat?
def showNats (l : List Nat) : String := " ".intercalate (l.map toString)
def u8 (n : Nat) : UInt8 := UInt8.ofNat n
def u32 (n : Nat) : UInt32 := UInt32.ofNat n
def u64 (n : Nat) : UInt64 := UInt64.ofNat n

def bin128 (f : V128 → V128 → V128) (a b : String) : Option String := do
  let a ← v128? a; let b ← v128? b; some (h128 (f a b))
def bin256 (f : M256 → M256 → M256) (a b : String) : Option String := do
  let a ← m256? a; let b ← m256? b; some (h256 (f a b))

/-- expected result column for an operation line -/
def expected (op : String) (args : List String) : Option String :=
  match op, args with
  | "view32", [a] | "view32x", [a] => do
    let v ← v128? a; some (showNats [v.e0.toNat, v.e1.toNat, v.e2.toNat, v.e3.toNat])
  | "view64", [a] => do let v ← v128? a; some (showNats [v.q0.toNat, v.q1.toNat])
  | "_mm_loadu_si128+_mm_storeu_si128", [a] => do let v ← v128? a; some (h128 v)
  | "view32_256", [a] => do
    let v ← m256? a; some (showNats ((List.range 8).map fun i => (v.lane i).toNat))
  | "view64_256", [a] => do
    let v ← m256? a; some (showNats [v.lo.q0.toNat, v.lo.q1.toNat, v.hi.q0.toNat, v.hi.q1.toNat])
  | "_mm256_loadu_si256+_mm256_storeu_si256", [a] => do let v ← m256? a; some (h256 v)
  | "loadu_words", [w] => do
    match ← nats? w with
    | [a, b, c, d] => some (h128 (mm_loadu_si128 (words_mem (u32 a) (u32 b) (u32 c) (u32 d))))
    | _ => none
  | "_mm_set_epi8", [e] => do
    match ← ofHex e with
    | [e0, e1, e2, e3, e4, e5, e6, e7, e8, e9, e10, e11, e12, e13, e14, e15] =>
      some (h128 (mm_set_epi8 e15 e14 e13 e12 e11 e10 e9 e8 e7 e6 e5 e4 e3 e2 e1 e0))
    | _ => none
  | "_mm256_set_epi8", [e] => do
    match ← ofHex e with
    | [e0, e1, e2, e3, e4, e5, e6, e7, e8, e9, e10, e11, e12, e13, e14, e15,
       e16, e17, e18, e19, e20, e21, e22, e23, e24, e25, e26, e27, e28, e29, e30, e31] =>
      some (h256 (mm256_set_epi8 e31 e30 e29 e28 e27 e26 e25 e24 e23 e22 e21 e20 e19 e18 e17 e16
        e15 e14 e13 e12 e11 e10 e9 e8 e7 e6 e5 e4 e3 e2 e1 e0))
    | _ => none
  | "_mm_set1_epi32", [a] => do let a ← a.toNat?; some (h128 (mm_set1_epi32 (u32 a)))
  | "_mm256_set1_epi32", [a] => do let a ← a.toNat?; some (h256 (mm256_set1_epi32 (u32 a)))
  | "_mm256_set_epi32", [e] => do
    match ← nats? e with
    | [e7, e6, e5, e4, e3, e2, e1, e0] =>
      some (h256 (mm256_set_epi32 (u32 e7) (u32 e6) (u32 e5) (u32 e4) (u32 e3) (u32 e2) (u32 e1) (u32 e0)))
    | _ => none
  | "_mm_set_epi64x", [e] => do
    match ← nats? e with
    | [e1, e0] => some (h128 (mm_set_epi64x (u64 e1) (u64 e0)))
    | _ => none
  | "_mm_set1_epi64x", [a] => do let a ← a.toNat?; some (h128 (mm_set1_epi64x (u64 a)))
  | "_mm_cvtsi64_si128", [a] => do let a ← a.toNat?; some (h128 (mm_cvtsi64_si128 (u64 a)))
  | "_mm256_set_epi64x", [e] => do
    match ← nats? e with
    | [e3, e2, e1, e0] => some (h256 (mm256_set_epi64x (u64 e3) (u64 e2) (u64 e1) (u64 e0)))
    | _ => none
  | "_mm256_broadcastq_epi64", [a] => do let a ← v128? a; some (h256 (mm256_broadcastq_epi64 a))
  | "_mm_add_epi32", [a, b] => bin128 mm_add_epi32 a b
  | "_mm_add_epi64", [a, b] => bin128 mm_add_epi64 a b
  | "_mm_xor_si128", [a, b] => bin128 mm_xor_si128 a b
  | "_mm_or_si128", [a, b] => bin128 mm_or_si128 a b
  | "_mm_unpacklo_epi32", [a, b] => bin128 mm_unpacklo_epi32 a b
  | "_mm_unpackhi_epi32", [a, b] => bin128 mm_unpackhi_epi32 a b
  | "_mm_unpacklo_epi64", [a, b] => bin128 mm_unpacklo_epi64 a b
  | "_mm_unpackhi_epi64", [a, b] => bin128 mm_unpackhi_epi64 a b
  | "_mm_shuffle_epi8", [a, b] => bin128 mm_shuffle_epi8 a b
  | "_mm256_add_epi32", [a, b] => bin256 mm256_add_epi32 a b
  | "_mm256_add_epi64", [a, b] => bin256 mm256_add_epi64 a b
  | "_mm256_xor_si256", [a, b] => bin256 mm256_xor_si256 a b
  | "_mm256_or_si256", [a, b] => bin256 mm256_or_si256 a b
  | "_mm256_unpacklo_epi32", [a, b] => bin256 mm256_unpacklo_epi32 a b
  | "_mm256_unpackhi_epi32", [a, b] => bin256 mm256_unpackhi_epi32 a b
  | "_mm256_unpacklo_epi64", [a, b] => bin256 mm256_unpacklo_epi64 a b
  | "_mm256_unpackhi_epi64", [a, b] => bin256 mm256_unpackhi_epi64 a b
  | "_mm256_shuffle_epi8", [a, b] => bin256 mm256_shuffle_epi8 a b
  | "_mm256_permutevar8x32_epi32", [a, b] => bin256 mm256_permutevar8x32_epi32 a b
  | "_mm_slli_epi32", [a, i] => do let a ← v128? a; let i ← i.toNat?; some (h128 (mm_slli_epi32 a (u32 i)))
  | "_mm_srli_epi32", [a, i] => do let a ← v128? a; let i ← i.toNat?; some (h128 (mm_srli_epi32 a (u32 i)))
  | "_mm256_slli_epi32", [a, i] => do let a ← m256? a; let i ← i.toNat?; some (h256 (mm256_slli_epi32 a (u32 i)))
  | "_mm256_srli_epi32", [a, i] => do let a ← m256? a; let i ← i.toNat?; some (h256 (mm256_srli_epi32 a (u32 i)))
  | "_mm_shuffle_epi32", [a, i] => do let a ← v128? a; let i ← i.toNat?; some (h128 (mm_shuffle_epi32 a i))
  | "_mm256_permute2x128_si256", [a, b, i] => do
    let a ← m256? a; let b ← m256? b; let i ← i.toNat?; some (h256 (mm256_permute2x128_si256 a b i))
  | "_mm_cvtsi128_si32", [a] => do
    let a ← v128? a; some (toString (Sodium.Model.SalsaSimd.mm_cvtsi128_si32 a).toNat)
  | "load_u32", [a, off] => do
    let b ← ofHex a; let off ← off.toNat?; some (toString (load32_le (b.drop off)).toNat)
  | "store_u32", [w] => do
    let w ← w.toNat?; some (toHex ((Sodium.Model.SalsaSimd.store_u32 (zeros 4) 0 (u32 w))))
  | "shuffle_rot16", [a] => do let a ← v128? a; some (h128 (mm_shuffle_epi8 a rot16))
  | "shuffle_rot8", [a] => do let a ← v128? a; some (h128 (mm_shuffle_epi8 a rot8))
  | "shuffle_rot16_256", [a] => do let a ← m256? a; some (h256 (mm256_shuffle_epi8 a rot16_256))
  | "shuffle_rot8_256", [a] => do let a ← m256? a; some (h256 (mm256_shuffle_epi8 a rot8_256))
  | "permutevar_permute", [a] => do
    let a ← m256? a; some (h256 (mm256_permutevar8x32_epi32 a (mm256_set_epi32 7 6 3 2 5 4 1 0)))
  | _, _ => none

partial def loop (h : IO.FS.Stream) (n bad : Nat) (ops : List String) : IO (Nat × Nat × List String) := do
  let line ← h.getLine
  if line.isEmpty then return (n, bad, ops)
  let line := (line.splitOn "\n").head!
  if line.isEmpty then loop h n bad ops else
  let parts := line.splitOn "|"
  match parts with
  | op :: rest@(_ :: _) =>
    let args := rest.dropLast
    let res := rest.getLast!
    let ops := if ops.contains op then ops else op :: ops
    match expected op args with
    | some e =>
      if e == res then loop h (n + 1) bad ops
      else do
        IO.println s!"MISMATCH {line}\n   lean: {e}"
        loop h (n + 1) (bad + 1) ops
    | none => do
      IO.println s!"UNKNOWN {line}"
      loop h (n + 1) (bad + 1) ops
  | _ => do
    IO.println s!"MALFORMED {line}"
    loop h (n + 1) (bad + 1) ops

def main : IO UInt32 := do
  let h ← IO.getStdin
  let (n, bad, ops) ← loop h 0 0 []
  IO.println s!"simdcheck: {n} lines, {ops.length} distinct operations, {bad} mismatches"
  return (if bad == 0 && n > 0 then 0 else 1)
