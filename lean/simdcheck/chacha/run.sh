#!/bin/sh
# Validates the Lean intrinsic semantics (SodiumModel/Model/ChachaSimd.lean, Part 1) against the real CPU.
# Run from the lake project root (or set VERIF_LEAN).  Exit 0 and "0 mismatches" required.
set -e
ROOT="${VERIF_LEAN:-$(cd "$(dirname "$0")/.." && pwd)}"
TMP="${TMPDIR:-/tmp}/simdcheck.$$"
mkdir -p "$TMP"
gcc -O1 -mavx2 -mssse3 -msse4.1 -o "$TMP/intrinsics_check" "$ROOT/simdcheck/intrinsics_check.c"
"$TMP/intrinsics_check" > "$TMP/cpu.txt"
cd "$ROOT" && lake env lean --run simdcheck/SimdCheck.lean < "$TMP/cpu.txt"
rc=$?
rm -rf "$TMP"
exit $rc
