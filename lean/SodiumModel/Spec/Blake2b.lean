/-
  BLAKE2b, executable reference specification (RFC 7693), with the salt and
  personalisation fields of the BLAKE2 parameter block (BLAKE2 paper §2.5–2.8) as used by
  libsodium's crypto_generichash_blake2b_salt_personal.
  Core Lean only; total; no panics.

  RFC 7693 §2.1 parameters for BLAKE2b: w = 64 bits, r = 12 rounds, bb = 128 block bytes,
  1 ≤ nn ≤ 64 hash bytes, 0 ≤ kk ≤ 64 key bytes, rotations (R1,R2,R3,R4) = (32,24,16,63).
-/
import SodiumModel.Basic

namespace Sodium.Spec.Blake2b

/-- The chained state h[0..7]: eight 64-bit words (always size 8). -/
abbrev State := Array UInt64

/-- §2.3 (x >>> n): rotation to the right, 0 < n < 64 -/
def rotr (x : UInt64) (n : UInt64) : UInt64 := (x >>> n) ||| (x <<< (64 - n))

/-- §2.6 initialisation vector IV[0..7] (the SHA-512 initial hash value) -/
def ivWords : Array UInt64 := #[
    0x6a09e667f3bcc908, 0xbb67ae8584caa73b, 0x3c6ef372fe94f82b, 0xa54ff53a5f1d36f1,
    0x510e527fade682d1, 0x9b05688c2b3e6c1f, 0x1f83d9abfb41bd6b, 0x5be0cd19137e2179]

/-- §2.7 message schedule SIGMA[0..9] (rounds 10 and 11 reuse rows 0 and 1) -/
def sigma : Array (Array Nat) := #[
    #[ 0,  1,  2,  3,  4,  5,  6,  7,  8,  9, 10, 11, 12, 13, 14, 15],
    #[14, 10,  4,  8,  9, 15, 13,  6,  1, 12,  0,  2, 11,  7,  5,  3],
    #[11,  8, 12,  0,  5,  2, 15, 13, 10, 14,  3,  6,  7,  1,  9,  4],
    #[ 7,  9,  3,  1, 13, 12, 11, 14,  2,  6,  5, 10,  4,  0, 15,  8],
    #[ 9,  0,  5,  7,  2,  4, 10, 15, 14,  1, 11, 12,  6,  8,  3, 13],
    #[ 2, 12,  6, 10,  0, 11,  8,  3,  4, 13,  7,  5, 15, 14,  1,  9],
    #[12,  5,  1, 15, 14, 13,  4, 10,  0,  7,  6,  3,  9,  2,  8, 11],
    #[13, 11,  7, 14, 12,  1,  3,  9,  5,  0, 15,  4,  8,  6,  2, 10],
    #[ 6, 15, 14,  9, 11,  3,  0,  8, 12,  2, 13,  7,  1,  4, 10,  5],
    #[10,  2,  8,  4,  7,  6,  1,  5, 15, 11,  9, 14,  3, 12, 13,  0]]

/-- little-endian 64-bit word at byte offset `i` (§2.4); bytes past the end read as 0 -/
def load64le (b : Array UInt8) (i : Nat) : UInt64 :=
  (List.range 8).foldr (fun j acc => (acc <<< 8) ||| (b.getD (i + j) 0).toUInt64) 0

/-! ### parameter block (§2.5) and initial state (§2.8 / §3.3) -/

/-- a 16-byte field: `[]` means all-zero (shorter input is zero-extended, longer truncated) -/
def field16 (x : Bytes) : Bytes := (x ++ zeros 16).take 16

/-- The 64-byte BLAKE2b parameter block for sequential hashing. -/
def paramBlock (outlen keylen : Nat) (salt personal : Bytes) : Bytes :=
  [UInt8.ofNat outlen,        -- digest_length
   UInt8.ofNat keylen,        -- key_length
   1,                         -- fanout
   1]                         -- depth
  ++ zeros 4                  -- leaf_length
  ++ zeros 8                  -- node_offset
  ++ [0,                      -- node_depth
      0]                      -- inner_length
  ++ zeros 14                 -- reserved
  ++ field16 salt             -- salt
  ++ field16 personal         -- personal

/-- h[i] = IV[i] ^ p[i], p = the parameter block read as eight little-endian words.
    With empty salt/personal this is RFC 7693 §3.3: h[0] ^= 0x01010000 ^ (kk << 8) ^ nn. -/
def paramInit (outlen keylen : Nat) (salt personal : Bytes) : State :=
  let p := (paramBlock outlen keylen salt personal).toArray
  (Array.range 8).map fun i => ivWords.getD i 0 ^^^ load64le p (8 * i)

/-! ### §3.1 mixing function G and §3.2 compression function F -/

/-- §3.1 G(v, a, b, c, d, x, y) -/
def G (v : Array UInt64) (a b c d : Nat) (x y : UInt64) : Array UInt64 :=
  let va := v.getD a 0; let vb := v.getD b 0; let vc := v.getD c 0; let vd := v.getD d 0
  let va := va + vb + x
  let vd := rotr (vd ^^^ va) 32
  let vc := vc + vd
  let vb := rotr (vb ^^^ vc) 24
  let va := va + vb + y
  let vd := rotr (vd ^^^ va) 16
  let vc := vc + vd
  let vb := rotr (vb ^^^ vc) 63
  (((v.setIfInBounds a va).setIfInBounds b vb).setIfInBounds c vc).setIfInBounds d vd

/-- §3.2 one round `i` of F: message word selection s = SIGMA[i mod 10], eight G calls -/
def round (m : Array UInt64) (v : Array UInt64) (i : Nat) : Array UInt64 :=
  let s := sigma.getD (i % 10) #[]
  let ms (j : Nat) : UInt64 := m.getD (s.getD j 0) 0
  let v := G v 0 4  8 12 (ms  0) (ms  1)
  let v := G v 1 5  9 13 (ms  2) (ms  3)
  let v := G v 2 6 10 14 (ms  4) (ms  5)
  let v := G v 3 7 11 15 (ms  6) (ms  7)
  let v := G v 0 5 10 15 (ms  8) (ms  9)
  let v := G v 1 6 11 12 (ms 10) (ms 11)
  let v := G v 2 7  8 13 (ms 12) (ms 13)
  let v := G v 3 4  9 14 (ms 14) (ms 15)
  v

/-- §3.2 F(h, m, t, f): compress one 128-byte block (a shorter `block` is read as if
    zero-extended). `t` is the 128-bit byte offset counter, `last` the final-block flag. -/
def compress (h : State) (block : Bytes) (t : Nat) (last : Bool) : State :=
  let b := block.toArray
  let m : Array UInt64 := (Array.range 16).map fun i => load64le b (8 * i)
  -- v[0..7] = h[0..7], v[8..15] = IV[0..7]
  let v : Array UInt64 := (Array.range 16).map fun i =>
    if i < 8 then h.getD i 0 else ivWords.getD (i - 8) 0
  -- v[12] ^= t mod 2^w; v[13] ^= t >> w
  let v := v.setIfInBounds 12 (v.getD 12 0 ^^^ UInt64.ofNat (t % 2 ^ 64))
  let v := v.setIfInBounds 13 (v.getD 13 0 ^^^ UInt64.ofNat (t / 2 ^ 64))
  -- if last block: v[14] ^= 0xFF..FF
  let v := if last then v.setIfInBounds 14 (v.getD 14 0 ^^^ 0xFFFFFFFFFFFFFFFF) else v
  -- twelve rounds
  let v := (List.range 12).foldl (round m) v
  -- h[i] ^= v[i] ^ v[i + 8]
  (Array.range 8).map fun i => h.getD i 0 ^^^ v.getD i 0 ^^^ v.getD (i + 8) 0

/-- §3.3 output: the first `outlen` bytes of little-endian h[0..7] -/
def digest (h : State) (outlen : Nat) : Bytes :=
  ((List.range 8).flatMap fun i => toLE 8 (h.getD i 0).toNat).take outlen

/-! ### §3.3 padding data and computing the hash -/

def blocksAux (n : Nat) : Nat → Bytes → List Bytes
  | 0, _ => []
  | fuel + 1, m => if m.isEmpty then [] else m.take n :: blocksAux n fuel (m.drop n)

/-- split `m` into consecutive `n`-byte blocks (the last may be shorter) -/
def blocks (n : Nat) (m : Bytes) : List Bytes := blocksAux n m.length m

/-- §3.3 main loop over the data blocks d[0..dd-1]; `t` = bytes compressed so far.
    All blocks but the last are full and compressed with f = false and t advanced by bb;
    the last block d[dd-1] (zero-padded by `compress`) is compressed with the total
    length and f = true. -/
def absorb (h : State) (t : Nat) : List Bytes → State
  | [] => h
  | [b] => compress h b (t + b.length) true
  | b :: b' :: bs => absorb (compress h b (t + 128) false) (t + 128) (b' :: bs)

/-- BLAKE2b( d[0..dd-1], ll, kk, nn ) of RFC 7693 §3.3, with salt and personalisation
    (16 bytes each, or `[]` for none). 1 ≤ outlen ≤ 64, key.length ≤ 64. -/
def hash (outlen : Nat) (key salt personal msg : Bytes) : Bytes :=
  let h := paramInit outlen key.length salt personal
  -- if kk > 0 the key, zero-padded to bb bytes, is block d[0]
  let keyBlock := if key.isEmpty then [] else key ++ zeros (128 - key.length)
  -- if kk = 0 and ll = 0 the data is a single all-zero block (dd = 1), with t = 0
  let d := match blocks 128 (keyBlock ++ msg) with
    | [] => [[]]
    | bs => bs
  digest (absorb h 0 d) outlen

end Sodium.Spec.Blake2b
