/-
  SipHash-2-4, executable reference specification
  (Aumasson & Bernstein, "SipHash: a fast short-input PRF", §2), with 64-bit output
  (crypto_shorthash_siphash24) and the 128-bit output variant of the reference
  implementation (crypto_shorthash_siphashx24).
  Core Lean only; total; no panics.
-/
import SodiumModel.Basic

namespace Sodium.Spec.SipHash

/-- The internal state: four 64-bit words v0 v1 v2 v3. -/
structure State where
  v0 : UInt64
  v1 : UInt64
  v2 : UInt64
  v3 : UInt64

/-- x <<< n: rotation to the left, 0 < n < 64 -/
def rotl (x : UInt64) (n : UInt64) : UInt64 := (x <<< n) ||| (x >>> (64 - n))

/-- little-endian 64-bit word from (up to) 8 bytes -/
def load64le (b : Bytes) : UInt64 := UInt64.ofNat (le (b.take 8))

/-- §2.2 SipRound (Figure 2.1) -/
def sipRound (s : State) : State :=
  let ⟨v0, v1, v2, v3⟩ := s
  let v0 := v0 + v1;        let v2 := v2 + v3
  let v1 := rotl v1 13;     let v3 := rotl v3 16
  let v1 := v1 ^^^ v0;      let v3 := v3 ^^^ v2
  let v0 := rotl v0 32
  let v2 := v2 + v1;        let v0 := v0 + v3
  let v1 := rotl v1 17;     let v3 := rotl v3 21
  let v1 := v1 ^^^ v2;      let v3 := v3 ^^^ v0
  let v2 := rotl v2 32
  ⟨v0, v1, v2, v3⟩

/-- §2.1 initialisation from the 16-byte key k = k0 ‖ k1 (little-endian words):
    the constants are the ASCII string "somepseudorandomlygeneratedbytes". -/
def init (key : Bytes) : State :=
  let k0 := load64le key
  let k1 := load64le (key.drop 8)
  { v0 := k0 ^^^ 0x736f6d6570736575
    v1 := k1 ^^^ 0x646f72616e646f6d
    v2 := k0 ^^^ 0x6c7967656e657261
    v3 := k1 ^^^ 0x7465646279746573 }

/-- §2.2 compression of one message word mᵢ with c = 2 rounds:
    v3 ^= mᵢ; 2 × SipRound; v0 ^= mᵢ -/
def compress (s : State) (m : UInt64) : State :=
  let s := { s with v3 := s.v3 ^^^ m }
  let s := sipRound (sipRound s)
  { s with v0 := s.v0 ^^^ m }

def wordsAux : Nat → Bytes → List UInt64
  | 0, _ => []
  | fuel + 1, m => if m.isEmpty then [] else load64le m :: wordsAux fuel (m.drop 8)

/-- §2.2 parsing: the b-byte message becomes w = ⌈(b+1)/8⌉ little-endian 64-bit words
    m₀ … m_{w-1}; the last word holds the remaining b mod 8 bytes, null padding, and
    b mod 256 in its most significant byte. -/
def words (msg : Bytes) : List UInt64 :=
  let b := msg.length
  let padded := msg ++ zeros (7 - b % 8) ++ [UInt8.ofNat (b % 256)]
  wordsAux padded.length padded

/-- d = 4 finalisation rounds -/
def finalRounds (s : State) : State := sipRound (sipRound (sipRound (sipRound s)))

/-- v0 ^ v1 ^ v2 ^ v3, as 8 little-endian bytes -/
def output (s : State) : Bytes := toLE 8 (s.v0 ^^^ s.v1 ^^^ s.v2 ^^^ s.v3).toNat

/-- SipHash-2-4 (§2): 16-byte key, 8-byte tag (little-endian). -/
def siphash24 (key msg : Bytes) : Bytes :=
  let s := (words msg).foldl compress (init key)
  -- §2.3 finalisation: v2 ^= 0xff; 4 × SipRound; return v0 ^ v1 ^ v2 ^ v3
  let s := finalRounds { s with v2 := s.v2 ^^^ 0xff }
  output s

/-- SipHash-2-4 with 128-bit output (reference implementation's 16-byte mode):
    v1 ^= 0xee after initialisation; finalisation with v2 ^= 0xee gives the first
    8 bytes; then v1 ^= 0xdd and 4 more SipRounds give the second 8 bytes. -/
def siphashx24 (key msg : Bytes) : Bytes :=
  let s := init key
  let s := { s with v1 := s.v1 ^^^ 0xee }
  let s := (words msg).foldl compress s
  let s := finalRounds { s with v2 := s.v2 ^^^ 0xee }
  let s' := finalRounds { s with v1 := s.v1 ^^^ 0xdd }
  output s ++ output s'

end Sodium.Spec.SipHash
