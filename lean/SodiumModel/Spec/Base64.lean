import SodiumModel.Basic
/-
  RFC 4648 Base64 (§4 standard alphabet, §5 URL-safe alphabet; with or without '=' padding, §3.2)
  and lower-case hexadecimal (§8, lower-case digits as libsodium documents), as reference
  specifications by 24-bit groups.
-/
namespace Sodium.Spec.Base64

/-- Table 1 / Table 2 of RFC 4648: the character for a 6-bit value -/
def sextetChar (urlsafe : Bool) (x : Nat) : UInt8 :=
  if x < 26 then UInt8.ofNat (65 + x)            -- 'A'..'Z'
  else if x < 52 then UInt8.ofNat (97 + (x - 26)) -- 'a'..'z'
  else if x < 62 then UInt8.ofNat (48 + (x - 52)) -- '0'..'9'
  else if x = 62 then (if urlsafe then 45 else 43) -- '-' / '+'
  else (if urlsafe then 95 else 47)                -- '_' / '/'

/-- the 6-bit value of an alphabet character, `none` for any other byte -/
def charSextet (urlsafe : Bool) (c : UInt8) : Option Nat :=
  if 65 ≤ c ∧ c ≤ 90 then some (c.toNat - 65)
  else if 97 ≤ c ∧ c ≤ 122 then some (c.toNat - 97 + 26)
  else if 48 ≤ c ∧ c ≤ 57 then some (c.toNat - 48 + 52)
  else if c = (if urlsafe then 45 else 43) then some 62
  else if c = (if urlsafe then 95 else 47) then some 63
  else none

def padChar : UInt8 := 61  -- '='

/-- RFC 4648 §4: encode by 24-bit groups; the final 1- or 2-byte group yields 2 or 3 characters
    (zero bits appended) and, in padded variants, '=' up to 4 characters. -/
def encode (urlsafe pad : Bool) : Bytes → Bytes
  | a :: b :: c :: rest =>
    sextetChar urlsafe (a.toNat / 4) :: sextetChar urlsafe ((a.toNat % 4) * 16 + b.toNat / 16) ::
    sextetChar urlsafe ((b.toNat % 16) * 4 + c.toNat / 64) :: sextetChar urlsafe (c.toNat % 64) ::
    encode urlsafe pad rest
  | [a, b] =>
    [sextetChar urlsafe (a.toNat / 4), sextetChar urlsafe ((a.toNat % 4) * 16 + b.toNat / 16),
     sextetChar urlsafe ((b.toNat % 16) * 4)] ++ (if pad then [padChar] else [])
  | [a] =>
    [sextetChar urlsafe (a.toNat / 4), sextetChar urlsafe ((a.toNat % 4) * 16)] ++
      (if pad then [padChar, padChar] else [])
  | [] => []

/-- documented encoded length (without the terminating NUL) -/
def encodedLen (pad : Bool) (n : Nat) : Nat :=
  if pad then (n + 2) / 3 * 4 else (n * 4 + 2) / 3

/-- lower-case hex digit of a nibble -/
def hexNibbleChar (n : Nat) : UInt8 := if n < 10 then UInt8.ofNat (48 + n) else UInt8.ofNat (87 + n)

def hexEncode (b : Bytes) : Bytes := b.flatMap fun x => [hexNibbleChar (x.toNat / 16), hexNibbleChar (x.toNat % 16)]

/-- value of a hex digit (either case), `none` otherwise -/
def hexCharVal (c : UInt8) : Option Nat :=
  if 48 ≤ c ∧ c ≤ 57 then some (c.toNat - 48)
  else if 97 ≤ c ∧ c ≤ 102 then some (c.toNat - 87)
  else if 65 ≤ c ∧ c ≤ 70 then some (c.toNat - 55)
  else none

end Sodium.Spec.Base64
