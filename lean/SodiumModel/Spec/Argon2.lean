/-
  Argon2 (RFC 9106), version 0x13 — executable reference specification.

  Hand-transcribed from RFC 9106 §3.  The underlying hash H (unkeyed BLAKE2b with a
  variable output length 1 ≤ outlen ≤ 64) is a *parameter*: nothing in this file fixes it.

  Conventions
  * a 1024-byte block is an `Array UInt64` of 128 words, word k being bytes 8k … 8k+7 in
    little-endian order (RFC 9106 §3.5/§3.6: all conversions are little-endian);
  * the memory B[i][j] (i = lane 0…p-1, j = column 0…q-1) is ONE flat `Array UInt64` of
    m′·128 words, block B[i][j] occupying words 128·(i·q + j) … 128·(i·q + j) + 127;
  * the type y is 0 = Argon2d, 1 = Argon2i, 2 = Argon2id.

  Core Lean only; everything is total and computable.
-/
import SodiumModel.Basic

namespace Sodium.Spec.Argon2

/-- LE32(a): 4-byte little-endian encoding (RFC 9106 §1.1 notation) -/
def le32 (a : Nat) : Bytes := toLE 4 a

/-! ## §3.3  Variable-length hash function H′ -/

/--
H′^T(A), RFC 9106 §3.3.

    if T ≤ 64:  H′^T(A) = H^T(LE32(T) ‖ A)
    else        r = ⌈T/32⌉ − 2
                V_1 = H^64(LE32(T) ‖ A),  V_i = H^64(V_{i−1})  (2 ≤ i ≤ r),
                V_{r+1} = H^{T − 32r}(V_r)
                H′^T(A) = W_1 ‖ W_2 ‖ … ‖ W_r ‖ V_{r+1},   W_i = first 32 bytes of V_i.
-/
def hPrime (blake2b : (outlen : Nat) → (msg : Bytes) → Bytes)
    (outlen : Nat) (msg : Bytes) : Bytes :=
  if outlen ≤ 64 then
    blake2b outlen (le32 outlen ++ msg)
  else
    let r := (outlen + 31) / 32 - 2
    let v1 := blake2b 64 (le32 outlen ++ msg)
    go (outlen - 32 * r) (r - 1) v1
where
  /-- `go last n v` with v = V_{r−n}: emits W_{r−n} ‖ … ‖ W_r ‖ V_{r+1} -/
  go (last : Nat) : Nat → Bytes → Bytes
    | 0,     v => v.take 32 ++ blake2b last v
    | n + 1, v => v.take 32 ++ go last n (blake2b 64 v)

/-! ## §3.5–3.6  Compression function G and permutation P -/

/-- a 1024-byte block as 128 little-endian 64-bit words -/
abbrev Block := Array UInt64

/-- the all-zero block -/
def zeroBlock : Block := Array.replicate 128 0

/-- bytes (little-endian) → `n` 64-bit words -/
def wordsOfBytes : (n : Nat) → Bytes → List UInt64
  | 0,     _ => []
  | n + 1, b => UInt64.ofNat (le (b.take 8)) :: wordsOfBytes n (b.drop 8)

/-- 1024 bytes → block -/
def blockOfBytes (b : Bytes) : Block := (wordsOfBytes 128 b).toArray

/-- block → 1024 bytes -/
def bytesOfBlock (b : Block) : Bytes := b.toList.flatMap fun w => toLE 8 w.toNat

/-- word-wise XOR of two blocks (length of the first) -/
def xorBlock (x y : Block) : Block := x.mapIdx fun k w => w ^^^ y[k]!

/-- x_L: the 32 least significant bits of a 64-bit word (§3.6) -/
def lo (x : UInt64) : UInt64 := x &&& 0xFFFFFFFF

/-- x >>> n: 64-bit rotation to the right, 0 < n < 64 (§3.6) -/
def rotr (x n : UInt64) : UInt64 := (x >>> n) ||| (x <<< (64 - n))

/--
GB(a, b, c, d), RFC 9106 §3.6 (the BLAKE2b round function with the additions replaced by
the multiply-add a + b + 2·a_L·b_L, all mod 2^64):

    a = (a + b + 2 * trunc(a) * trunc(b)) mod 2^(64)
    d = (d XOR a) >>> 32
    c = (c + d + 2 * trunc(c) * trunc(d)) mod 2^(64)
    b = (b XOR c) >>> 24
    a = (a + b + 2 * trunc(a) * trunc(b)) mod 2^(64)
    d = (d XOR a) >>> 16
    c = (c + d + 2 * trunc(c) * trunc(d)) mod 2^(64)
    b = (b XOR c) >>> 63
-/
def GB (a b c d : UInt64) : UInt64 × UInt64 × UInt64 × UInt64 :=
  let a := a + b + 2 * lo a * lo b
  let d := rotr (d ^^^ a) 32
  let c := c + d + 2 * lo c * lo d
  let b := rotr (b ^^^ c) 24
  let a := a + b + 2 * lo a * lo b
  let d := rotr (d ^^^ a) 16
  let c := c + d + 2 * lo c * lo d
  let b := rotr (b ^^^ c) 63
  (a, b, c, d)

/-- (v_a, v_b, v_c, v_d) := GB(v_a, v_b, v_c, v_d) on a word array -/
def gbAt (v : Array UInt64) (a b c d : Nat) : Array UInt64 :=
  let (x, y, z, w) := GB v[a]! v[b]! v[c]! v[d]!
  v |>.set! a x |>.set! b y |>.set! c z |>.set! d w

/--
Permutation P, RFC 9106 §3.6, on eight 16-byte registers S_0 … S_7 viewed as the 4×4
matrix of 64-bit words v_0 … v_15 (S_i = v_{2i+1} ‖ v_{2i}, i.e. word 2i is the low half):

    GB(v_0, v_4, v_8,  v_12)   GB(v_1, v_5, v_9,  v_13)
    GB(v_2, v_6, v_10, v_14)   GB(v_3, v_7, v_11, v_15)
    GB(v_0, v_5, v_10, v_15)   GB(v_1, v_6, v_11, v_12)
    GB(v_2, v_7, v_8,  v_13)   GB(v_3, v_4, v_9,  v_14)

`v` has 16 words.
-/
def P (v : Array UInt64) : Array UInt64 :=
  let v := gbAt v 0 4 8 12
  let v := gbAt v 1 5 9 13
  let v := gbAt v 2 6 10 14
  let v := gbAt v 3 7 11 15
  let v := gbAt v 0 5 10 15
  let v := gbAt v 1 6 11 12
  let v := gbAt v 2 7 8 13
  let v := gbAt v 3 4 9 14
  v

/-- word positions of row i of the 8×8 matrix of 16-byte registers: R_{8i} … R_{8i+7} -/
def rowIdx (i : Nat) : Array Nat := (Array.range 16).map fun k => 16 * i + k

/-- word positions of column i of the 8×8 matrix: R_i, R_{i+8}, …, R_{i+56} -/
def colIdx (i : Nat) : Array Nat := (Array.range 16).map fun k => 16 * (k / 2) + 2 * i + k % 2

/-- apply P to the 16 words of `R` at positions `ix`, writing the result back in place -/
def applyP (R : Block) (ix : Array Nat) : Block := Id.run do
  let v := P (ix.map fun k => R[k]!)
  let mut R := R
  for k in [0:16] do
    R := R.set! ix[k]! v[k]!
  return R

/--
Compression function G(X, Y), RFC 9106 §3.5:

    R = X XOR Y, viewed as an 8×8 matrix of 16-byte registers R_0 … R_63;
    P is applied to each row     (Q_{8i} … Q_{8i+7}) = P(R_{8i} … R_{8i+7}),
    then to each column          (Z_i, Z_{i+8}, …, Z_{i+56}) = P(Q_i, Q_{i+8}, …, Q_{i+56});
    G(X, Y) = Z XOR R.
-/
def G (X Y : Block) : Block := Id.run do
  let R := xorBlock X Y
  let mut Q := R
  for i in [0:8] do
    Q := applyP Q (rowIdx i)
  let mut Z := Q
  for i in [0:8] do
    Z := applyP Z (colIdx i)
  return xorBlock Z R

/-! ## memory access -/

/-- block number `n` of the flat memory -/
def getBlock (mem : Array UInt64) (n : Nat) : Block := mem.extract (128 * n) (128 * n + 128)

/-- overwrite block number `n` of the flat memory (in place when `mem` is unshared) -/
def setBlock (mem : Array UInt64) (n : Nat) (b : Block) : Array UInt64 := Id.run do
  let mut mem := mem
  for k in [0:128] do
    mem := mem.set! (128 * n + k) b[k]!
  return mem

/-! ## §3.4  Indexing -/

/--
§3.4.1.2: the k-th (k ≥ 1) 1024-byte block of data-independent pseudo-random values for
the segment (pass r, lane l, slice sl):

    G( ZERO(1024), G( ZERO(1024),
       LE64(r) ‖ LE64(l) ‖ LE64(sl) ‖ LE64(m′) ‖ LE64(t) ‖ LE64(y) ‖ LE64(k) ‖ ZERO(968) ) )

Word i of the result gives J_1 (low 32 bits) and J_2 (high 32 bits) for the i-th block of
the k-th group of 128 blocks in the segment.
-/
def addressBlock (r l sl mPrime t y k : Nat) : Block :=
  let input : Block :=
    #[.ofNat r, .ofNat l, .ofNat sl, .ofNat mPrime, .ofNat t, .ofNat y, .ofNat k]
      ++ Array.replicate 121 0
  G zeroBlock (G zeroBlock input)

/--
§3.4.2: mapping (J_1, J_2) to the reference block index [l][z], for the block at position
`idx` of the segment (pass `r`, slice `sl`) of lane `lane`; p lanes of q columns.

* l = J_2 mod p, except in the first slice of the first pass where l is the current lane.
* W, the set of referenceable blocks in lane l, consists of
  - the blocks of the last SL − 1 = 3 segments computed and finished (in the first pass:
    the `sl` segments computed so far), plus,
  - if l is the current lane, the `idx` blocks of the current segment computed so far
    minus B[i][j−1];
  - if l is another lane and B[i][j] is the first block of its segment, the very last
    index is excluded.
* x = J_1² / 2^32,  y = (|W|·x) / 2^32,  zz = |W| − 1 − y ; z is the zz-th element of W in
  order of construction: W starts at column 0 in the first pass and at the beginning of
  the segment following the current one (cyclically) in later passes.
-/
def refIndex (p q r lane sl idx J1 J2 : Nat) : Nat × Nat :=
  let segLen := q / 4
  let l := if r = 0 ∧ sl = 0 then lane else J2 % p
  let finished := (if r = 0 then sl else 3) * segLen
  let sizeW :=
    if l = lane then finished + idx - 1
    else if idx = 0 then finished - 1
    else finished
  let x := J1 * J1 / 2 ^ 32
  let y := sizeW * x / 2 ^ 32
  let zz := sizeW - 1 - y
  let start := if r = 0 ∨ sl = 3 then 0 else (sl + 1) * segLen
  (l, (start + zz) % q)

/--
Fill one segment (pass `r`, slice `sl`, lane `lane`): RFC 9106 §3.2 steps 5–6 with the
index computation of §3.4.

    B[i][j] = G(B[i][j−1], B[l][z])                 (first pass; j ≥ 2)
    B[i][j] = G(B[i][j−1], B[l][z]) XOR B[i][j]     (later passes; B[i][−1] means B[i][q−1])

(J_1, J_2) is data-independent (§3.4.1.2) for Argon2i, and for Argon2id in the first two
slices of the first pass; otherwise data-dependent (§3.4.1.1): the first and second 32 bits
of B[i][j−1].
-/
def fillSegment (y t mPrime p q r sl lane : Nat) (mem : Array UInt64) : Array UInt64 := Id.run do
  let segLen := q / 4
  let dataIndependent := y = 1 ∨ (y = 2 ∧ r = 0 ∧ sl < 2)
  -- B[i][0] and B[i][1] are given by step 3–4 of §3.2
  let first := if r = 0 ∧ sl = 0 then 2 else 0
  let mut mem := mem
  let mut addr : Block := #[]
  for idx in [first:segLen] do
    let j := sl * segLen + idx
    let jPrev := if j = 0 then q - 1 else j - 1
    let prev := getBlock mem (lane * q + jPrev)
    -- §3.4.1.2: a fresh address block for every 128 blocks of the segment
    if dataIndependent ∧ (idx % 128 = 0 ∨ idx = first) then
      addr := addressBlock r lane sl mPrime t y (idx / 128 + 1)
    let w := if dataIndependent then addr[idx % 128]! else prev[0]!
    let J1 := (lo w).toNat
    let J2 := (w >>> 32).toNat
    let (l, z) := refIndex p q r lane sl idx J1 J2
    let ref := getBlock mem (l * q + z)
    let new := G prev ref
    let new := if r = 0 then new else xorBlock new (getBlock mem (lane * q + j))
    mem := setBlock mem (lane * q + j) new
  return mem

/-! ## §3.2  Argon2 operation -/

/--
Argon2 (RFC 9106 §3.2), version v = 0x13.

* `ty` = y: 0 Argon2d, 1 Argon2i, 2 Argon2id
* `pwd` = P, `salt` = S, `secret` = K, `ad` = X
* `tCost` = t passes, `mCost` = m KiB, `lanes` = p, `outlen` = T tag bytes

The memory has m′ = 4·p·⌊m/(4p)⌋ blocks in p lanes of q = m′/p columns (RFC: m ≥ 8p; a
smaller m is hashed into H_0 as given but raised to 8p for the memory size, like the
reference implementation).  Lanes of one slice are independent of each other (§3.4.2 only
lets a block refer to finished segments of other lanes), so they are filled one after
another here.
-/
def argon2 (blake2b : (outlen : Nat) → (msg : Bytes) → Bytes)
    (ty : Nat) (pwd salt secret ad : Bytes) (tCost mCost lanes outlen : Nat) : Bytes := Id.run do
  -- step 1: H_0
  let h0 := blake2b 64 <|
    le32 lanes ++ le32 outlen ++ le32 mCost ++ le32 tCost ++ le32 0x13 ++ le32 ty ++
    le32 pwd.length ++ pwd ++ le32 salt.length ++ salt ++
    le32 secret.length ++ secret ++ le32 ad.length ++ ad
  -- step 2: memory size
  let q := (max mCost (8 * lanes)) / (4 * lanes) * 4
  let mPrime := q * lanes
  let mut mem : Array UInt64 := Array.replicate (mPrime * 128) 0
  -- steps 3–4: B[i][0] = H′^1024(H_0 ‖ LE32(0) ‖ LE32(i)),  B[i][1] = H′^1024(H_0 ‖ LE32(1) ‖ LE32(i))
  for i in [0:lanes] do
    mem := setBlock mem (i * q + 0) (blockOfBytes (hPrime blake2b 1024 (h0 ++ le32 0 ++ le32 i)))
    mem := setBlock mem (i * q + 1) (blockOfBytes (hPrime blake2b 1024 (h0 ++ le32 1 ++ le32 i)))
  -- steps 5–6: t passes, each of SL = 4 slices
  for r in [0:tCost] do
    for sl in [0:4] do
      for lane in [0:lanes] do
        mem := fillSegment ty tCost mPrime lanes q r sl lane mem
  -- step 7: C = B[0][q−1] XOR … XOR B[p−1][q−1]
  let mut c := zeroBlock
  for i in [0:lanes] do
    c := xorBlock c (getBlock mem (i * q + (q - 1)))
  -- step 8: Tag = H′^T(C)
  return hPrime blake2b outlen (bytesOfBlock c)

end Sodium.Spec.Argon2
