import SodiumModel.Basic
/-
  ChaCha20 (RFC 8439 §2.1–2.3; the original 64-bit-counter layout of Bernstein's ChaCha and the
  IETF 32-bit-counter/96-bit-nonce layout differ only in how words 12..15 are filled) and
  HChaCha20 (draft-irtf-cfrg-xchacha §2.2). Executable reference specification.
-/
namespace Sodium.Spec.Chacha

def rotl (x : UInt32) (n : UInt32) : UInt32 := (x <<< n) ||| (x >>> (32 - n))

/-- RFC 8439 §2.1 quarter round on state words a b c d -/
def qr (s : Array UInt32) (a b c d : Nat) : Array UInt32 :=
  let s := s.setIfInBounds a (s.getD a 0 + s.getD b 0)
  let s := s.setIfInBounds d (rotl (s.getD d 0 ^^^ s.getD a 0) 16)
  let s := s.setIfInBounds c (s.getD c 0 + s.getD d 0)
  let s := s.setIfInBounds b (rotl (s.getD b 0 ^^^ s.getD c 0) 12)
  let s := s.setIfInBounds a (s.getD a 0 + s.getD b 0)
  let s := s.setIfInBounds d (rotl (s.getD d 0 ^^^ s.getD a 0) 8)
  let s := s.setIfInBounds c (s.getD c 0 + s.getD d 0)
  s.setIfInBounds b (rotl (s.getD b 0 ^^^ s.getD c 0) 7)

/-- §2.3: one column round followed by one diagonal round -/
def doubleRound (s : Array UInt32) : Array UInt32 :=
  let s := qr s 0 4 8 12
  let s := qr s 1 5 9 13
  let s := qr s 2 6 10 14
  let s := qr s 3 7 11 15
  let s := qr s 0 5 10 15
  let s := qr s 1 6 11 12
  let s := qr s 2 7 8 13
  qr s 3 4 9 14

def iter {α : Type} (f : α → α) : Nat → α → α
  | 0, x => x
  | n + 1, x => iter f n (f x)

def load32le (b : Bytes) : UInt32 := UInt32.ofNat (le (b.take 4))
def store32le (w : UInt32) : Bytes := toLE 4 w.toNat

def words (n : Nat) (b : Bytes) : List UInt32 :=
  (List.range n).map fun i => load32le (b.drop (4 * i))

/-- "expand 32-byte k" -/
def sigma : List UInt32 := [0x61707865, 0x3320646e, 0x79622d32, 0x6b206574]

/-- §2.3: constants ‖ key ‖ words 12..15 -/
def initState (key : Bytes) (w12 w13 w14 w15 : UInt32) : Array UInt32 :=
  (sigma ++ words 8 key ++ [w12, w13, w14, w15]).toArray

def serialize (s : Array UInt32) : Bytes := s.toList.flatMap store32le

/-- §2.3 block function: 20 rounds, add the input state, serialise little-endian -/
def blockWords (key : Bytes) (w12 w13 w14 w15 : UInt32) : Bytes :=
  let s0 := initState key w12 w13 w14 w15
  let s := iter doubleRound 10 s0
  serialize ((List.range 16).map fun i => s.getD i 0 + s0.getD i 0).toArray

/-- original ChaCha20: 64-bit block counter in words 12–13, 64-bit nonce in words 14–15 -/
def blockOrig (key nonce8 : Bytes) (counter : Nat) : Bytes :=
  blockWords key (UInt32.ofNat (counter % 2 ^ 32)) (UInt32.ofNat (counter / 2 ^ 32 % 2 ^ 32))
    (load32le nonce8) (load32le (nonce8.drop 4))

/-- RFC 8439: 32-bit block counter in word 12, 96-bit nonce in words 13–15 -/
def blockIetf (key nonce12 : Bytes) (counter : Nat) : Bytes :=
  blockWords key (UInt32.ofNat (counter % 2 ^ 32)) (load32le nonce12) (load32le (nonce12.drop 4))
    (load32le (nonce12.drop 8))

/-- keystream bytes [start, start+len) where block i is `blk i` -/
def streamFrom (blk : Nat → Bytes) (start len : Nat) : Bytes :=
  let first := start / 64
  let nblocks := (start % 64 + len + 63) / 64
  (((List.range nblocks).flatMap fun i => blk (first + i)).drop (start % 64)).take len

/-- HChaCha20: 20 rounds on constants ‖ key ‖ 16-byte input, output words 0..3 and 12..15,
    no final addition. `c` optionally replaces the constants (libsodium's crypto_core_hchacha20). -/
def hchacha20 (inp key : Bytes) (c : Option Bytes) : Bytes :=
  let cst := match c with | none => sigma | some cb => words 4 cb
  let s0 := (cst ++ words 8 key ++ words 4 inp).toArray
  let s := iter doubleRound 10 s0
  serialize #[s.getD 0 0, s.getD 1 0, s.getD 2 0, s.getD 3 0, s.getD 12 0, s.getD 13 0, s.getD 14 0, s.getD 15 0]

/-- XChaCha20 (draft §2.3): subkey = HChaCha20(key, nonce[0..16]); nonce' = nonce[16..24] -/
def xchachaBlock (key nonce24 : Bytes) (counter : Nat) : Bytes :=
  blockOrig (hchacha20 (nonce24.take 16) key none) (nonce24.drop 16) counter

end Sodium.Spec.Chacha
