import SodiumModel.Basic
/-
  Salsa20 family (Bernstein, "The Salsa20 family of stream ciphers"): core with 20/12/8 rounds,
  HSalsa20 and XSalsa20 ("Extending the Salsa20 nonce"). Executable reference specification.
-/
namespace Sodium.Spec.Salsa

def rotl (x : UInt32) (n : UInt32) : UInt32 := (x <<< n) ||| (x >>> (32 - n))
def load32le (b : Bytes) : UInt32 := UInt32.ofNat (le (b.take 4))
def store32le (w : UInt32) : Bytes := toLE 4 w.toNat
def words (n : Nat) (b : Bytes) : List UInt32 := (List.range n).map fun i => load32le (b.drop (4 * i))
def serialize (s : Array UInt32) : Bytes := s.toList.flatMap store32le

/-- quarterround(y0,y1,y2,y3) on indices a b c d: b ^= (a+d)<<<7; c ^= (b+a)<<<9; d ^= (c+b)<<<13; a ^= (d+c)<<<18 -/
def qr (s : Array UInt32) (a b c d : Nat) : Array UInt32 :=
  let s := s.setIfInBounds b (s.getD b 0 ^^^ rotl (s.getD a 0 + s.getD d 0) 7)
  let s := s.setIfInBounds c (s.getD c 0 ^^^ rotl (s.getD b 0 + s.getD a 0) 9)
  let s := s.setIfInBounds d (s.getD d 0 ^^^ rotl (s.getD c 0 + s.getD b 0) 13)
  s.setIfInBounds a (s.getD a 0 ^^^ rotl (s.getD d 0 + s.getD c 0) 18)

/-- columnround then rowround -/
def doubleRound (s : Array UInt32) : Array UInt32 :=
  let s := qr s 0 4 8 12
  let s := qr s 5 9 13 1
  let s := qr s 10 14 2 6
  let s := qr s 15 3 7 11
  let s := qr s 0 1 2 3
  let s := qr s 5 6 7 4
  let s := qr s 10 11 8 9
  qr s 15 12 13 14

def iter {α : Type} (f : α → α) : Nat → α → α
  | 0, x => x
  | n + 1, x => iter f n (f x)

def sigma : List UInt32 := [0x61707865, 0x3320646e, 0x79622d32, 0x6b206574]

/-- state layout: c0 k0..k3 c1 in0..in3 c2 k4..k7 c3 -/
def initState (inp key : Bytes) (c : Option Bytes) : Array UInt32 :=
  let cst := match c with | none => sigma | some cb => words 4 cb
  let k := words 8 key
  let n := words 4 inp
  ([cst.getD 0 0] ++ k.take 4 ++ [cst.getD 1 0] ++ n ++ [cst.getD 2 0] ++ k.drop 4 ++ [cst.getD 3 0]).toArray

/-- Salsa20 core with `rounds` rounds (crypto_core_salsa20 / 2012 / 208): 64-byte output -/
def core (rounds : Nat) (inp key : Bytes) (c : Option Bytes) : Bytes :=
  let s0 := initState inp key c
  let s := iter doubleRound (rounds / 2) s0
  serialize ((List.range 16).map fun i => s.getD i 0 + s0.getD i 0).toArray

/-- keystream block number `counter` under an 8-byte nonce: input = nonce ‖ le64 counter -/
def block (rounds : Nat) (key nonce8 : Bytes) (counter : Nat) : Bytes :=
  core rounds (nonce8.take 8 ++ toLE 8 counter) key none

/-- HSalsa20: 20 rounds, output words 0,5,10,15,6,7,8,9, no final addition -/
def hsalsa20 (inp key : Bytes) (c : Option Bytes) : Bytes :=
  let s := iter doubleRound 10 (initState inp key c)
  serialize #[s.getD 0 0, s.getD 5 0, s.getD 10 0, s.getD 15 0, s.getD 6 0, s.getD 7 0, s.getD 8 0, s.getD 9 0]

/-- XSalsa20: subkey = HSalsa20(key, nonce[0..16]), then Salsa20 with nonce[16..24] -/
def xsalsaBlock (key nonce24 : Bytes) (counter : Nat) : Bytes :=
  block 20 (hsalsa20 (nonce24.take 16) key none) (nonce24.drop 16) counter

end Sodium.Spec.Salsa
