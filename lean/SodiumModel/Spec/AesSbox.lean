/-
  Check that the S-box table of `Aes.lean` (FIPS 197 Figure 7) is the algebraic construction of
  FIPS 197 §5.1.1.  Kept in its own file because the kernel evaluation takes a while.
-/
import SodiumModel.Spec.Aes

namespace Sodium.Spec.Aes

/-- The table is the §5.1.1 construction: SBOX(b) = affine(b⁻¹). -/
theorem sbox_eq_formula :
    sbox = Array.ofFn (n := 256) fun i => affine (gfInv (UInt8.ofNat i.val)) := by
  decide +kernel

end Sodium.Spec.Aes
