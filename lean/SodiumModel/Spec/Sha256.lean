/-
  SHA-256, executable reference specification (FIPS 180-4).
  Core Lean only; total; no panics.
-/
import SodiumModel.Basic

namespace Sodium.Spec.Sha256

/-- The hash value H⁽ⁱ⁾ = (H₀,…,H₇): eight 32-bit words (always size 8). -/
abbrev State := Array UInt32

/-! ### §4.1.2 / §3.2 logical functions -/

/-- §3.2 ROTRⁿ(x), 0 < n < 32 -/
def rotr (x : UInt32) (n : UInt32) : UInt32 := (x >>> n) ||| (x <<< (32 - n))

/-- §4.1.2 (4.2) -/
def ch (x y z : UInt32) : UInt32 := (x &&& y) ^^^ (~~~x &&& z)
/-- §4.1.2 (4.3) -/
def maj (x y z : UInt32) : UInt32 := (x &&& y) ^^^ (x &&& z) ^^^ (y &&& z)
/-- §4.1.2 (4.4) Σ₀ -/
def bigSigma0 (x : UInt32) : UInt32 := rotr x 2 ^^^ rotr x 13 ^^^ rotr x 22
/-- §4.1.2 (4.5) Σ₁ -/
def bigSigma1 (x : UInt32) : UInt32 := rotr x 6 ^^^ rotr x 11 ^^^ rotr x 25
/-- §4.1.2 (4.6) σ₀ -/
def smallSigma0 (x : UInt32) : UInt32 := rotr x 7 ^^^ rotr x 18 ^^^ (x >>> 3)
/-- §4.1.2 (4.7) σ₁ -/
def smallSigma1 (x : UInt32) : UInt32 := rotr x 17 ^^^ rotr x 19 ^^^ (x >>> 10)

/-! ### constants -/

/-- §4.2.2 K₀ … K₆₃ (fractional parts of the cube roots of the first 64 primes) -/
def K : Array UInt32 := #[
    0x428a2f98, 0x71374491, 0xb5c0fbcf, 0xe9b5dba5, 0x3956c25b, 0x59f111f1, 0x923f82a4, 0xab1c5ed5,
    0xd807aa98, 0x12835b01, 0x243185be, 0x550c7dc3, 0x72be5d74, 0x80deb1fe, 0x9bdc06a7, 0xc19bf174,
    0xe49b69c1, 0xefbe4786, 0x0fc19dc6, 0x240ca1cc, 0x2de92c6f, 0x4a7484aa, 0x5cb0a9dc, 0x76f988da,
    0x983e5152, 0xa831c66d, 0xb00327c8, 0xbf597fc7, 0xc6e00bf3, 0xd5a79147, 0x06ca6351, 0x14292967,
    0x27b70a85, 0x2e1b2138, 0x4d2c6dfc, 0x53380d13, 0x650a7354, 0x766a0abb, 0x81c2c92e, 0x92722c85,
    0xa2bfe8a1, 0xa81a664b, 0xc24b8b70, 0xc76c51a3, 0xd192e819, 0xd6990624, 0xf40e3585, 0x106aa070,
    0x19a4c116, 0x1e376c08, 0x2748774c, 0x34b0bcb5, 0x391c0cb3, 0x4ed8aa4a, 0x5b9cca4f, 0x682e6ff3,
    0x748f82ee, 0x78a5636f, 0x84c87814, 0x8cc70208, 0x90befffa, 0xa4506ceb, 0xbef9a3f7, 0xc67178f2]

/-- §5.3.3 initial hash value H⁽⁰⁾ -/
def iv : State := #[
    0x6a09e667, 0xbb67ae85, 0x3c6ef372, 0xa54ff53a, 0x510e527f, 0x9b05688c, 0x1f83d9ab, 0x5be0cd19]

/-! ### §6.2.2 hash computation for one block -/

/-- big-endian 32-bit word at byte offset `i` (§3.1); bytes past the end read as 0 -/
def load32be (b : Array UInt8) (i : Nat) : UInt32 :=
  (List.range 4).foldl (fun acc j => (acc <<< 8) ||| (b.getD (i + j) 0).toUInt32) 0

/-- §6.2.2 step 1: the message schedule W₀ … W₆₃ -/
def schedule (block : Bytes) : Array UInt32 :=
  let b := block.toArray
  -- Wₜ = Mₜ for 0 ≤ t ≤ 15
  let w : Array UInt32 := (List.range 16).foldl (fun w t => w.push (load32be b (4 * t))) #[]
  -- Wₜ = σ₁(Wₜ₋₂) + Wₜ₋₇ + σ₀(Wₜ₋₁₅) + Wₜ₋₁₆ for 16 ≤ t ≤ 63
  (List.range 48).foldl (fun w i =>
    let t := i + 16
    w.push (smallSigma1 (w.getD (t - 2) 0) + w.getD (t - 7) 0
            + smallSigma0 (w.getD (t - 15) 0) + w.getD (t - 16) 0)) w

/-- §6.2.2 step 3: one round on the working variables (a,b,c,d,e,f,g,h) -/
def round (w : Array UInt32) (v : State) (t : Nat) : State :=
  let a := v.getD 0 0; let b := v.getD 1 0; let c := v.getD 2 0; let d := v.getD 3 0
  let e := v.getD 4 0; let f := v.getD 5 0; let g := v.getD 6 0; let h := v.getD 7 0
  let T1 := h + bigSigma1 e + ch e f g + K.getD t 0 + w.getD t 0
  let T2 := bigSigma0 a + maj a b c
  #[T1 + T2, a, b, c, d + T1, e, f, g]

/-- §6.2.2: H⁽ⁱ⁾ from H⁽ⁱ⁻¹⁾ and the 64-byte block M⁽ⁱ⁾
    (a shorter `block` is read as if zero-extended). -/
def compress (s : State) (block : Bytes) : State :=
  let w := schedule block
  -- step 2: initialise working variables with H⁽ⁱ⁻¹⁾; step 3: 64 rounds
  let v := (List.range 64).foldl (round w) s
  -- step 4: H⁽ⁱ⁾ⱼ = vⱼ + H⁽ⁱ⁻¹⁾ⱼ
  (Array.range 8).map fun j => v.getD j 0 + s.getD j 0

/-- §6.2.2 final step: H₀ ‖ … ‖ H₇, each word big-endian (32 bytes) -/
def digest (s : State) : Bytes :=
  (List.range 8).flatMap fun j => toBE 4 (s.getD j 0).toNat

/-! ### §5 preprocessing -/

/-- §5.1.1 padding for a message of `len` bytes: 0x80, k zero bytes, 64-bit big-endian
    bit length, with k minimal such that `len + (pad len).length ≡ 0 (mod 64)`. -/
def pad (len : Nat) : Bytes :=
  let k := (119 - len % 64) % 64
  0x80 :: zeros k ++ toBE 8 (8 * len)

def blocksAux (n : Nat) : Nat → Bytes → List Bytes
  | 0, _ => []
  | fuel + 1, m => if m.isEmpty then [] else m.take n :: blocksAux n fuel (m.drop n)

/-- §5.2: split `m` into consecutive `n`-byte blocks (the last may be shorter) -/
def blocks (n : Nat) (m : Bytes) : List Bytes := blocksAux n m.length m

/-- §6.2: SHA-256 of a byte string -/
def hash (m : Bytes) : Bytes :=
  digest ((blocks 64 (m ++ pad m.length)).foldl compress iv)

end Sodium.Spec.Sha256
