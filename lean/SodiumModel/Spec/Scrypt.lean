/-
  scrypt (RFC 7914) — executable reference specification.

  Hand-transcribed from RFC 7914 §3–§6 (and RFC 8018 §5.2 for PBKDF2).  The PRF
  HMAC-SHA-256 is a *parameter*: nothing in this file fixes it.

  Conventions
  * a 64-byte Salsa20 block is an `Array UInt32` of 16 little-endian words;
  * a 128·r-byte scryptBlockMix block B[0] ‖ … ‖ B[2r−1] is an `Array UInt32` of 32·r words.

  Core Lean only; everything is total and computable.
-/
import SodiumModel.Basic

namespace Sodium.Spec.Scrypt

/-! ## PBKDF2-HMAC-SHA-256 (RFC 8018 §5.2; RFC 7914 §2: hLen = 32) -/

/--
F(P, S, c, i) = U_1 XOR U_2 XOR … XOR U_c,
U_1 = PRF(P, S ‖ INT(i)),  U_k = PRF(P, U_{k−1});  INT(i) is the 4-byte big-endian i.
(For c = 0 this returns U_1, as for c = 1; PBKDF2 requires c ≥ 1.)
-/
def pbkdf2F (hmacSha256 : (key msg : Bytes) → Bytes) (pwd salt : Bytes) (c i : Nat) : Bytes :=
  let u1 := hmacSha256 pwd (salt ++ toBE 4 i)
  go (c - 1) u1 u1
where
  /-- `go n u acc`: n further iterations from U_k = u, acc = U_1 XOR … XOR U_k -/
  go : Nat → Bytes → Bytes → Bytes
    | 0,     _, acc => acc
    | n + 1, u, acc =>
      let u' := hmacSha256 pwd u
      go n u' (xorBytes acc u')

/--
PBKDF2(P, S, c, dkLen) with PRF = HMAC-SHA-256:
l = ⌈dkLen / hLen⌉,  DK = first dkLen bytes of T_1 ‖ T_2 ‖ … ‖ T_l,  T_i = F(P, S, c, i).
-/
def pbkdf2HmacSha256 (hmacSha256 : (key msg : Bytes) → Bytes)
    (pwd salt : Bytes) (c dkLen : Nat) : Bytes :=
  let l := (dkLen + 31) / 32
  ((List.range l).flatMap fun k => pbkdf2F hmacSha256 pwd salt c (k + 1)).take dkLen

/-! ## bytes ↔ little-endian 32-bit words -/

/-- bytes (little-endian) → `n` 32-bit words -/
def wordsOfBytes : (n : Nat) → Bytes → List UInt32
  | 0,     _ => []
  | n + 1, b => UInt32.ofNat (le (b.take 4)) :: wordsOfBytes n (b.drop 4)

/-- 32-bit words → bytes (little-endian) -/
def bytesOfWords (w : Array UInt32) : Bytes := w.toList.flatMap fun x => toLE 4 x.toNat

/-- word-wise XOR (length of the first argument) -/
def xorWords (x y : Array UInt32) : Array UInt32 := x.mapIdx fun k w => w ^^^ y[k]!

/-! ## §3  Salsa20/8 core -/

/-- R(a, b) = (a << b) | (a >> (32 − b)), 0 < b < 32 -/
def R (a b : UInt32) : UInt32 := (a <<< b) ||| (a >>> (32 - b))

/-- `x[t] ^= R(x[a] + x[b], k)` -/
def step (x : Array UInt32) (t a b : Nat) (k : UInt32) : Array UInt32 :=
  x.set! t (x[t]! ^^^ R (x[a]! + x[b]!) k)

/--
One Salsa20 quarter-round on the words (a, b, c, d) — one line of the RFC 7914 §3 listing:

    x[b] ^= R(x[a]+x[d], 7);  x[c] ^= R(x[b]+x[a], 9);
    x[d] ^= R(x[c]+x[b],13);  x[a] ^= R(x[d]+x[c],18);
-/
def quarter (x : Array UInt32) (a b c d : Nat) : Array UInt32 :=
  let x := step x b a d 7
  let x := step x c b a 9
  let x := step x d c b 13
  let x := step x a d c 18
  x

/-- one double round of RFC 7914 §3: four column quarter-rounds, then four row quarter-rounds -/
def doubleRound (x : Array UInt32) : Array UInt32 :=
  -- x[ 4] ^= R(x[ 0]+x[12], 7); x[ 8] ^= R(x[ 4]+x[ 0], 9); x[12] ^= R(x[ 8]+x[ 4],13); x[ 0] ^= R(x[12]+x[ 8],18);
  let x := quarter x 0 4 8 12
  -- x[ 9] ^= R(x[ 5]+x[ 1], 7); x[13] ^= R(x[ 9]+x[ 5], 9); x[ 1] ^= R(x[13]+x[ 9],13); x[ 5] ^= R(x[ 1]+x[13],18);
  let x := quarter x 5 9 13 1
  -- x[14] ^= R(x[10]+x[ 6], 7); x[ 2] ^= R(x[14]+x[10], 9); x[ 6] ^= R(x[ 2]+x[14],13); x[10] ^= R(x[ 6]+x[ 2],18);
  let x := quarter x 10 14 2 6
  -- x[ 3] ^= R(x[15]+x[11], 7); x[ 7] ^= R(x[ 3]+x[15], 9); x[11] ^= R(x[ 7]+x[ 3],13); x[15] ^= R(x[11]+x[ 7],18);
  let x := quarter x 15 3 7 11
  -- x[ 1] ^= R(x[ 0]+x[ 3], 7); x[ 2] ^= R(x[ 1]+x[ 0], 9); x[ 3] ^= R(x[ 2]+x[ 1],13); x[ 0] ^= R(x[ 3]+x[ 2],18);
  let x := quarter x 0 1 2 3
  -- x[ 6] ^= R(x[ 5]+x[ 4], 7); x[ 7] ^= R(x[ 6]+x[ 5], 9); x[ 4] ^= R(x[ 7]+x[ 6],13); x[ 5] ^= R(x[ 4]+x[ 7],18);
  let x := quarter x 5 6 7 4
  -- x[11] ^= R(x[10]+x[ 9], 7); x[ 8] ^= R(x[11]+x[10], 9); x[ 9] ^= R(x[ 8]+x[11],13); x[10] ^= R(x[ 9]+x[ 8],18);
  let x := quarter x 10 11 8 9
  -- x[12] ^= R(x[15]+x[14], 7); x[13] ^= R(x[12]+x[15], 9); x[14] ^= R(x[13]+x[12],13); x[15] ^= R(x[14]+x[13],18);
  let x := quarter x 15 12 13 14
  x

/--
Salsa20/8 core (RFC 7914 §3) on 16 words: x = in; 4 double rounds (`for (i = 0; i < 8; i += 2)`);
out[i] = x[i] + in[i].
-/
def salsa20_8 (b : Array UInt32) : Array UInt32 :=
  let x := doubleRound (doubleRound (doubleRound (doubleRound b)))
  x.mapIdx fun i xi => xi + b[i]!

/-! ## §4  scryptBlockMix -/

/--
scryptBlockMix (RFC 7914 §4) on B[0] ‖ … ‖ B[2r−1] (32·r words):

    1. X = B[2r−1]
    2. for i = 0 … 2r−1:  T = X XOR B[i];  X = Salsa(T);  Y[i] = X
    3. B′ = Y[0] ‖ Y[2] ‖ … ‖ Y[2r−2] ‖ Y[1] ‖ Y[3] ‖ … ‖ Y[2r−1]
-/
def blockMix (r : Nat) (B : Array UInt32) : Array UInt32 := Id.run do
  let mut X := B.extract (16 * (2 * r - 1)) (16 * (2 * r))
  let mut even : Array UInt32 := Array.mkEmpty (32 * r)
  let mut odd : Array UInt32 := Array.mkEmpty (16 * r)
  for i in [0:2 * r] do
    let T := xorWords X (B.extract (16 * i) (16 * i + 16))
    X := salsa20_8 T
    if i % 2 = 0 then even := even ++ X else odd := odd ++ X
  return even ++ odd

/-! ## §5  scryptROMix -/

/--
Integerify(B[0] … B[2r−1]) (RFC 7914 §5): B[2r−1] interpreted as a little-endian integer.
-/
def integerify (r : Nat) (X : Array UInt32) : Nat :=
  (X.extract (16 * (2 * r - 1)) (16 * (2 * r))).foldr (fun w acc => w.toNat + 2 ^ 32 * acc) 0

/--
scryptROMix (RFC 7914 §5) on a block of 32·r words:

    1. X = B
    2. for i = 0 … N−1:  V[i] = X;  X = scryptBlockMix(X)
    3. for i = 0 … N−1:  j = Integerify(X) mod N;  T = X XOR V[j];  X = scryptBlockMix(T)
    4. B′ = X
-/
def roMix (r N : Nat) (B : Array UInt32) : Array UInt32 := Id.run do
  let mut X := B
  let mut V : Array (Array UInt32) := Array.mkEmpty N
  for _ in [0:N] do
    V := V.push X
    X := blockMix r X
  for _ in [0:N] do
    let j := integerify r X % N
    let T := xorWords X V[j]!
    X := blockMix r T
  return X

/-! ## §6  scrypt -/

/--
scrypt(P, S, N, r, p, dkLen) (RFC 7914 §6):

    1. B[0] ‖ … ‖ B[p−1] = PBKDF2-HMAC-SHA256(P, S, 1, p·128·r)
    2. for i = 0 … p−1:  B[i] = scryptROMix(r, B[i], N)
    3. DK = PBKDF2-HMAC-SHA256(P, B[0] ‖ … ‖ B[p−1], 1, dkLen)
-/
def scrypt (hmacSha256 : (key msg : Bytes) → Bytes)
    (pwd salt : Bytes) (N r p dkLen : Nat) : Bytes :=
  let B := pbkdf2HmacSha256 hmacSha256 pwd salt 1 (p * 128 * r)
  let B' := (List.range p).flatMap fun i =>
    let Bi := (wordsOfBytes (32 * r) (B.drop (128 * r * i))).toArray
    bytesOfWords (roMix r N Bi)
  pbkdf2HmacSha256 hmacSha256 pwd B' 1 dkLen

end Sodium.Spec.Scrypt
