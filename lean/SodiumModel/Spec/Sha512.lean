/-
  SHA-512, executable reference specification (FIPS 180-4).
  Core Lean only; total; no panics.
-/
import SodiumModel.Basic

namespace Sodium.Spec.Sha512

/-- The hash value H⁽ⁱ⁾ = (H₀,…,H₇): eight 64-bit words (always size 8). -/
abbrev State := Array UInt64

/-! ### §4.1.3 / §3.2 logical functions -/

/-- §3.2 ROTRⁿ(x), 0 < n < 64 -/
def rotr (x : UInt64) (n : UInt64) : UInt64 := (x >>> n) ||| (x <<< (64 - n))

/-- §4.1.3 (4.8) -/
def ch (x y z : UInt64) : UInt64 := (x &&& y) ^^^ (~~~x &&& z)
/-- §4.1.3 (4.9) -/
def maj (x y z : UInt64) : UInt64 := (x &&& y) ^^^ (x &&& z) ^^^ (y &&& z)
/-- §4.1.3 (4.10) Σ₀ -/
def bigSigma0 (x : UInt64) : UInt64 := rotr x 28 ^^^ rotr x 34 ^^^ rotr x 39
/-- §4.1.3 (4.11) Σ₁ -/
def bigSigma1 (x : UInt64) : UInt64 := rotr x 14 ^^^ rotr x 18 ^^^ rotr x 41
/-- §4.1.3 (4.12) σ₀ -/
def smallSigma0 (x : UInt64) : UInt64 := rotr x 1 ^^^ rotr x 8 ^^^ (x >>> 7)
/-- §4.1.3 (4.13) σ₁ -/
def smallSigma1 (x : UInt64) : UInt64 := rotr x 19 ^^^ rotr x 61 ^^^ (x >>> 6)

/-! ### constants -/

/-- §4.2.3 K₀ … K₇₉ (fractional parts of the cube roots of the first 80 primes) -/
def K : Array UInt64 := #[
    0x428a2f98d728ae22, 0x7137449123ef65cd, 0xb5c0fbcfec4d3b2f, 0xe9b5dba58189dbbc,
    0x3956c25bf348b538, 0x59f111f1b605d019, 0x923f82a4af194f9b, 0xab1c5ed5da6d8118,
    0xd807aa98a3030242, 0x12835b0145706fbe, 0x243185be4ee4b28c, 0x550c7dc3d5ffb4e2,
    0x72be5d74f27b896f, 0x80deb1fe3b1696b1, 0x9bdc06a725c71235, 0xc19bf174cf692694,
    0xe49b69c19ef14ad2, 0xefbe4786384f25e3, 0x0fc19dc68b8cd5b5, 0x240ca1cc77ac9c65,
    0x2de92c6f592b0275, 0x4a7484aa6ea6e483, 0x5cb0a9dcbd41fbd4, 0x76f988da831153b5,
    0x983e5152ee66dfab, 0xa831c66d2db43210, 0xb00327c898fb213f, 0xbf597fc7beef0ee4,
    0xc6e00bf33da88fc2, 0xd5a79147930aa725, 0x06ca6351e003826f, 0x142929670a0e6e70,
    0x27b70a8546d22ffc, 0x2e1b21385c26c926, 0x4d2c6dfc5ac42aed, 0x53380d139d95b3df,
    0x650a73548baf63de, 0x766a0abb3c77b2a8, 0x81c2c92e47edaee6, 0x92722c851482353b,
    0xa2bfe8a14cf10364, 0xa81a664bbc423001, 0xc24b8b70d0f89791, 0xc76c51a30654be30,
    0xd192e819d6ef5218, 0xd69906245565a910, 0xf40e35855771202a, 0x106aa07032bbd1b8,
    0x19a4c116b8d2d0c8, 0x1e376c085141ab53, 0x2748774cdf8eeb99, 0x34b0bcb5e19b48a8,
    0x391c0cb3c5c95a63, 0x4ed8aa4ae3418acb, 0x5b9cca4f7763e373, 0x682e6ff3d6b2b8a3,
    0x748f82ee5defb2fc, 0x78a5636f43172f60, 0x84c87814a1f0ab72, 0x8cc702081a6439ec,
    0x90befffa23631e28, 0xa4506cebde82bde9, 0xbef9a3f7b2c67915, 0xc67178f2e372532b,
    0xca273eceea26619c, 0xd186b8c721c0c207, 0xeada7dd6cde0eb1e, 0xf57d4f7fee6ed178,
    0x06f067aa72176fba, 0x0a637dc5a2c898a6, 0x113f9804bef90dae, 0x1b710b35131c471b,
    0x28db77f523047d84, 0x32caab7b40c72493, 0x3c9ebe0a15c9bebc, 0x431d67c49c100d4c,
    0x4cc5d4becb3e42b6, 0x597f299cfc657e2a, 0x5fcb6fab3ad6faec, 0x6c44198c4a475817]

/-- §5.3.5 initial hash value H⁽⁰⁾ -/
def iv : State := #[
    0x6a09e667f3bcc908, 0xbb67ae8584caa73b, 0x3c6ef372fe94f82b, 0xa54ff53a5f1d36f1,
    0x510e527fade682d1, 0x9b05688c2b3e6c1f, 0x1f83d9abfb41bd6b, 0x5be0cd19137e2179]

/-! ### §6.4.2 hash computation for one block -/

/-- big-endian 64-bit word at byte offset `i` (§3.1); bytes past the end read as 0 -/
def load64be (b : Array UInt8) (i : Nat) : UInt64 :=
  (List.range 8).foldl (fun acc j => (acc <<< 8) ||| (b.getD (i + j) 0).toUInt64) 0

/-- §6.4.2 step 1: the message schedule W₀ … W₇₉ -/
def schedule (block : Bytes) : Array UInt64 :=
  let b := block.toArray
  -- Wₜ = Mₜ for 0 ≤ t ≤ 15
  let w : Array UInt64 := (List.range 16).foldl (fun w t => w.push (load64be b (8 * t))) #[]
  -- Wₜ = σ₁(Wₜ₋₂) + Wₜ₋₇ + σ₀(Wₜ₋₁₅) + Wₜ₋₁₆ for 16 ≤ t ≤ 79
  (List.range 64).foldl (fun w i =>
    let t := i + 16
    w.push (smallSigma1 (w.getD (t - 2) 0) + w.getD (t - 7) 0
            + smallSigma0 (w.getD (t - 15) 0) + w.getD (t - 16) 0)) w

/-- §6.4.2 step 3: one round on the working variables (a,b,c,d,e,f,g,h) -/
def round (w : Array UInt64) (v : State) (t : Nat) : State :=
  let a := v.getD 0 0; let b := v.getD 1 0; let c := v.getD 2 0; let d := v.getD 3 0
  let e := v.getD 4 0; let f := v.getD 5 0; let g := v.getD 6 0; let h := v.getD 7 0
  let T1 := h + bigSigma1 e + ch e f g + K.getD t 0 + w.getD t 0
  let T2 := bigSigma0 a + maj a b c
  #[T1 + T2, a, b, c, d + T1, e, f, g]

/-- §6.4.2: H⁽ⁱ⁾ from H⁽ⁱ⁻¹⁾ and the 128-byte block M⁽ⁱ⁾
    (a shorter `block` is read as if zero-extended). -/
def compress (s : State) (block : Bytes) : State :=
  let w := schedule block
  -- step 2: initialise working variables with H⁽ⁱ⁻¹⁾; step 3: 80 rounds
  let v := (List.range 80).foldl (round w) s
  -- step 4: H⁽ⁱ⁾ⱼ = vⱼ + H⁽ⁱ⁻¹⁾ⱼ
  (Array.range 8).map fun j => v.getD j 0 + s.getD j 0

/-- §6.4.2 final step: H₀ ‖ … ‖ H₇, each word big-endian (64 bytes) -/
def digest (s : State) : Bytes :=
  (List.range 8).flatMap fun j => toBE 8 (s.getD j 0).toNat

/-! ### §5 preprocessing -/

/-- §5.1.2 padding for a message of `len` bytes: 0x80, k zero bytes, 128-bit big-endian
    bit length, with k minimal such that `len + (pad len).length ≡ 0 (mod 128)`. -/
def pad (len : Nat) : Bytes :=
  let k := (239 - len % 128) % 128
  0x80 :: zeros k ++ toBE 16 (8 * len)

def blocksAux (n : Nat) : Nat → Bytes → List Bytes
  | 0, _ => []
  | fuel + 1, m => if m.isEmpty then [] else m.take n :: blocksAux n fuel (m.drop n)

/-- §5.2: split `m` into consecutive `n`-byte blocks (the last may be shorter) -/
def blocks (n : Nat) (m : Bytes) : List Bytes := blocksAux n m.length m

/-- §6.4: SHA-512 of a byte string -/
def hash (m : Bytes) : Bytes :=
  digest ((blocks 128 (m ++ pad m.length)).foldl compress iv)

end Sodium.Spec.Sha512
