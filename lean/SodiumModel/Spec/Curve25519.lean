/-
  X25519 (RFC 7748 §5) as an executable reference specification.

  libsodium entry points specified here:
    crypto_scalarmult_curve25519(q, n, p)       ↔ `scalarmult n p`
    crypto_scalarmult_curve25519_base(q, n)     ↔ `x25519Base n`
-/
import SodiumModel.Basic
import SodiumModel.Spec.Field25519

namespace Sodium.Spec.X25519

open Sodium.Spec.F25519

/-- a24 = (486662 - 2) / 4 (RFC 7748 §5). -/
def a24 : Nat := 121665

/-- `decodeScalar25519` (RFC 7748 §5): clear bits 0,1,2 and 255, set bit 254. -/
def decodeScalar (k : Bytes) : Nat :=
  let n := le (k.take 32)
  let n := n - n % 8                 -- k[0]  &= 248
  let n := n % 2 ^ 255               -- k[31] &= 127
  n % 2 ^ 254 + 2 ^ 254              -- k[31] |= 64

/-- `decodeUCoordinate` (RFC 7748 §5): mask bit 255; non-canonical values
    (2^255-19 .. 2^255-1) are accepted and reduced mod p. -/
def decodeU (u : Bytes) : Nat := (le (u.take 32) % 2 ^ 255) % p

/-- `encodeUCoordinate` (RFC 7748 §5). -/
def encodeU (u : Nat) : Bytes := toLE 32 (u % p)

/-- Ladder state (x_2, z_2, x_3, z_3, swap). -/
structure Ladder where
  x2 : Nat
  z2 : Nat
  x3 : Nat
  z3 : Nat
  swap : Bool

/-- cswap(swap, a, b) of RFC 7748 §5. -/
def cswap (swap : Bool) (a b : Nat) : Nat × Nat := if swap then (b, a) else (a, b)

/-- One iteration of the RFC 7748 §5 ladder for scalar bit `kt`. -/
def ladderStep (x1 : Nat) (kt : Bool) (s : Ladder) : Ladder :=
  let swap := s.swap != kt                       -- swap ^= k_t
  let (x2, x3) := cswap swap s.x2 s.x3
  let (z2, z3) := cswap swap s.z2 s.z3
  let A := add x2 z2
  let AA := sqr A
  let B := sub x2 z2
  let BB := sqr B
  let E := sub AA BB
  let C := add x3 z3
  let D := sub x3 z3
  let DA := mul D A
  let CB := mul C B
  { x3 := sqr (add DA CB)
    z3 := mul x1 (sqr (sub DA CB))
    x2 := mul AA BB
    z2 := mul E (add AA (mul a24 E))
    swap := kt }

/-- `For t = n-1 down to 0` (structural recursion on the number of remaining bits). -/
def ladderLoop (x1 k : Nat) : (n : Nat) → Ladder → Ladder
  | 0, s => s
  | t + 1, s => ladderLoop x1 k t (ladderStep x1 (k.testBit t) s)

/-- The X25519 function on decoded integers: 255 ladder steps (bits 254 … 0),
    final cswap, and x_2 · z_2^(p-2). -/
def ladder (k u : Nat) : Nat :=
  let x1 := u % p
  let s := ladderLoop x1 k 255 { x2 := 1, z2 := 0, x3 := x1, z3 := 1, swap := false }
  let (x2, _) := cswap s.swap s.x2 s.x3
  let (z2, _) := cswap s.swap s.z2 s.z3
  mul x2 (pow z2 (p - 2))

/-- X25519(k, u) of RFC 7748 §5 on 32-byte strings. -/
def x25519 (k u : Bytes) : Bytes := encodeU (ladder (decodeScalar k) (decodeU u))

/-- X25519(k, 9). -/
def x25519Base (k : Bytes) : Bytes := encodeU (ladder (decodeScalar k) 9)

/--
  `crypto_scalarmult_curve25519`: X25519 with the all-zero check of RFC 7748 §6.1.
  `none` ↔ return value -1 (the shared secret is all-zero, which happens exactly
  when `u` is one of the small-order points, canonical or not).
-/
def scalarmult (k u : Bytes) : Option Bytes :=
  let q := x25519 k u
  if q == zeros 32 then none else some q

end Sodium.Spec.X25519
