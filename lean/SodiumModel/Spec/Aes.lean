/-
  AES (FIPS 197) — executable reference specification, core Lean only.

  The 16-byte state is a `Bytes` in FIPS 197 input order (§3.4): byte `r + 4c` of the list is
  the state element s[r,c] (column-major).  This is also the memory byte order of the 128-bit
  register operand of the x86 `AESENC` instruction, so `aesRound` below *is* `AESENC`.
-/
import SodiumModel.Basic

namespace Sodium.Spec.Aes

/-! ### Helpers -/

/-- Split a byte string into consecutive `n`-byte pieces; the last piece may be shorter.
    (`fuel` only makes the recursion structural; `chunks` supplies enough of it.) -/
def chunksAux (n : Nat) : Nat → Bytes → List Bytes
  | 0, _ => []
  | fuel + 1, l => if l.isEmpty then [] else l.take n :: chunksAux n fuel (l.drop n)

def chunks (n : Nat) (l : Bytes) : List Bytes := chunksAux n l.length l

/-! ### GF(2^8) arithmetic (FIPS 197 §4) -/

/-- §4.2.1 `xtime`: multiplication by `x` modulo m(x) = x^8 + x^4 + x^3 + x + 1. -/
def xtime (b : UInt8) : UInt8 :=
  (b <<< 1) ^^^ (if b &&& 0x80 != 0 then 0x1b else 0)

def gfMulAux : Nat → UInt8 → UInt8 → UInt8 → UInt8
  | 0, _, _, acc => acc
  | n + 1, a, b, acc =>
    gfMulAux n (xtime a) (b >>> 1) (if b &&& 1 != 0 then acc ^^^ a else acc)

/-- §4.2 multiplication in GF(2^8) by repeated `xtime` (§4.2.1). -/
def gfMul (a b : UInt8) : UInt8 := gfMulAux 8 a b 0

def gfPow (a : UInt8) : Nat → UInt8
  | 0 => 1
  | n + 1 => gfMul a (gfPow a n)

/-- §4.2 multiplicative inverse, extended by 0 ↦ 0 (§5.1.1): b⁻¹ = b^254, since the multiplicative
    group has order 255.  Computed as b^2 · b^4 · b^8 · b^16 · b^32 · b^64 · b^128. -/
def gfInv (b : UInt8) : UInt8 :=
  let sq (x : UInt8) := gfMul x x
  let b2 := sq b
  let b4 := sq b2
  let b8 := sq b4
  let b16 := sq b8
  let b32 := sq b16
  let b64 := sq b32
  let b128 := sq b64
  gfMul b2 (gfMul b4 (gfMul b8 (gfMul b16 (gfMul b32 (gfMul b64 b128)))))

/-! ### S-box (FIPS 197 §5.1.1) -/

def rotl8 (b : UInt8) (n : UInt8) : UInt8 := (b <<< n) ||| (b >>> (8 - n))

/-- §5.1.1 eq. (5.1)/(5.2): b'_i = b_i ⊕ b_(i+4) ⊕ b_(i+5) ⊕ b_(i+6) ⊕ b_(i+7) ⊕ c_i (indices mod 8),
    c = 0x63. -/
def affine (b : UInt8) : UInt8 :=
  b ^^^ rotl8 b 1 ^^^ rotl8 b 2 ^^^ rotl8 b 3 ^^^ rotl8 b 4 ^^^ 0x63

/-- §5.1.1 Figure 7: the S-box as a table; entry `16·x + y` is row x, column y of Figure 7. -/
def sbox : Array UInt8 := #[
    0x63, 0x7c, 0x77, 0x7b, 0xf2, 0x6b, 0x6f, 0xc5, 0x30, 0x01, 0x67, 0x2b, 0xfe, 0xd7, 0xab, 0x76,
    0xca, 0x82, 0xc9, 0x7d, 0xfa, 0x59, 0x47, 0xf0, 0xad, 0xd4, 0xa2, 0xaf, 0x9c, 0xa4, 0x72, 0xc0,
    0xb7, 0xfd, 0x93, 0x26, 0x36, 0x3f, 0xf7, 0xcc, 0x34, 0xa5, 0xe5, 0xf1, 0x71, 0xd8, 0x31, 0x15,
    0x04, 0xc7, 0x23, 0xc3, 0x18, 0x96, 0x05, 0x9a, 0x07, 0x12, 0x80, 0xe2, 0xeb, 0x27, 0xb2, 0x75,
    0x09, 0x83, 0x2c, 0x1a, 0x1b, 0x6e, 0x5a, 0xa0, 0x52, 0x3b, 0xd6, 0xb3, 0x29, 0xe3, 0x2f, 0x84,
    0x53, 0xd1, 0x00, 0xed, 0x20, 0xfc, 0xb1, 0x5b, 0x6a, 0xcb, 0xbe, 0x39, 0x4a, 0x4c, 0x58, 0xcf,
    0xd0, 0xef, 0xaa, 0xfb, 0x43, 0x4d, 0x33, 0x85, 0x45, 0xf9, 0x02, 0x7f, 0x50, 0x3c, 0x9f, 0xa8,
    0x51, 0xa3, 0x40, 0x8f, 0x92, 0x9d, 0x38, 0xf5, 0xbc, 0xb6, 0xda, 0x21, 0x10, 0xff, 0xf3, 0xd2,
    0xcd, 0x0c, 0x13, 0xec, 0x5f, 0x97, 0x44, 0x17, 0xc4, 0xa7, 0x7e, 0x3d, 0x64, 0x5d, 0x19, 0x73,
    0x60, 0x81, 0x4f, 0xdc, 0x22, 0x2a, 0x90, 0x88, 0x46, 0xee, 0xb8, 0x14, 0xde, 0x5e, 0x0b, 0xdb,
    0xe0, 0x32, 0x3a, 0x0a, 0x49, 0x06, 0x24, 0x5c, 0xc2, 0xd3, 0xac, 0x62, 0x91, 0x95, 0xe4, 0x79,
    0xe7, 0xc8, 0x37, 0x6d, 0x8d, 0xd5, 0x4e, 0xa9, 0x6c, 0x56, 0xf4, 0xea, 0x65, 0x7a, 0xae, 0x08,
    0xba, 0x78, 0x25, 0x2e, 0x1c, 0xa6, 0xb4, 0xc6, 0xe8, 0xdd, 0x74, 0x1f, 0x4b, 0xbd, 0x8b, 0x8a,
    0x70, 0x3e, 0xb5, 0x66, 0x48, 0x03, 0xf6, 0x0e, 0x61, 0x35, 0x57, 0xb9, 0x86, 0xc1, 0x1d, 0x9e,
    0xe1, 0xf8, 0x98, 0x11, 0x69, 0xd9, 0x8e, 0x94, 0x9b, 0x1e, 0x87, 0xe9, 0xce, 0x55, 0x28, 0xdf,
    0x8c, 0xa1, 0x89, 0x0d, 0xbf, 0xe6, 0x42, 0x68, 0x41, 0x99, 0x2d, 0x0f, 0xb0, 0x54, 0xbb, 0x16 ]

theorem sbox_size : sbox.size = 256 := by decide +kernel

def subByte (b : UInt8) : UInt8 :=
  sbox[b.toNat]'(by rw [sbox_size]; exact b.toNat_lt)

/-! ### Round transformations (FIPS 197 §5.1) -/

/-- §5.1.1 SubBytes. -/
def subBytes (state : Bytes) : Bytes := state.map subByte

/-- §5.1.2 ShiftRows: s'[r,c] = s[r, (c + r) mod 4]; with byte index `r + 4c` this is
    out[i] = in[(i + 4·(i mod 4)) mod 16]. -/
def shiftRows : Bytes → Bytes
  | [s0, s1, s2, s3, s4, s5, s6, s7, s8, s9, s10, s11, s12, s13, s14, s15] =>
    [s0, s5, s10, s15, s4, s9, s14, s3, s8, s13, s2, s7, s12, s1, s6, s11]
  | s => s

/-- {02}·b and {03}·b in GF(2^8). -/
def mul2 (b : UInt8) : UInt8 := xtime b
def mul3 (b : UInt8) : UInt8 := xtime b ^^^ b

/-- §5.1.3 eq. (5.6): one column times the fixed matrix [02 03 01 01; 01 02 03 01; 01 01 02 03; 03 01 01 02]. -/
def mixColumn (a0 a1 a2 a3 : UInt8) : Bytes :=
  [ mul2 a0 ^^^ mul3 a1 ^^^ a2 ^^^ a3,
    a0 ^^^ mul2 a1 ^^^ mul3 a2 ^^^ a3,
    a0 ^^^ a1 ^^^ mul2 a2 ^^^ mul3 a3,
    mul3 a0 ^^^ a1 ^^^ a2 ^^^ mul2 a3 ]

/-- §5.1.3 MixColumns (each group of four consecutive bytes is one column). -/
def mixColumns : Bytes → Bytes
  | a0 :: a1 :: a2 :: a3 :: rest => mixColumn a0 a1 a2 a3 ++ mixColumns rest
  | _ => []

/-- §5.1.4 AddRoundKey. -/
def addRoundKey (state roundKey : Bytes) : Bytes := xorBytes state roundKey

/-- One full AES round = the x86 `AESENC state, roundKey` instruction = `AESRound(in, rk)` of
    draft-irtf-cfrg-aegis-aead §1.1: MixColumns(ShiftRows(SubBytes(state))) ⊕ roundKey. -/
def aesRound (state roundKey : Bytes) : Bytes :=
  addRoundKey (mixColumns (shiftRows (subBytes state))) roundKey

/-- The final round (no MixColumns) = x86 `AESENCLAST`. -/
def aesFinalRound (state roundKey : Bytes) : Bytes :=
  addRoundKey (shiftRows (subBytes state)) roundKey

/-! ### Key expansion (FIPS 197 §5.2), Nk = 8, Nr = 14 -/

/-- §5.2 SubWord / RotWord on a 4-byte word. -/
def subWord (w : Bytes) : Bytes := w.map subByte
def rotWord (w : Bytes) : Bytes := w.drop 1 ++ w.take 1

/-- §5.2 Rcon[j] = [x^(j-1), 0, 0, 0], j ≥ 1. -/
def rcon (j : Nat) : Bytes := [gfPow 2 (j - 1), 0, 0, 0]

/-- §5.2 Figure 11 with Nk = 8: the 60 words w[0..59]. -/
def keyWords256 (key : Bytes) : Array Bytes :=
  (List.range 52).foldl (init := (chunks 4 key).toArray) fun w j =>
    let i := j + 8
    let temp := w[i - 1]!
    let temp :=
      if i % 8 = 0 then xorBytes (subWord (rotWord temp)) (rcon (i / 8))
      else if i % 8 = 4 then subWord temp
      else temp
    w.push (xorBytes w[i - 8]! temp)

/-- AES-256 key schedule: the 15 round keys (16 bytes each), round key r = w[4r..4r+3]. -/
def keyExpansion256 (key : Bytes) : List Bytes :=
  let w := keyWords256 key
  (List.range 15).map fun r => w[4 * r]! ++ w[4 * r + 1]! ++ w[4 * r + 2]! ++ w[4 * r + 3]!

/-! ### Cipher (FIPS 197 §5.1, Figure 5) -/

/-- Cipher() given the expanded key `rk0 :: … :: rkNr`:
    AddRoundKey rk0; Nr−1 full rounds; final round without MixColumns. -/
def cipher (roundKeys : List Bytes) (block : Bytes) : Bytes :=
  match roundKeys with
  | [] => block
  | rk0 :: rks =>
    let s := addRoundKey block rk0
    let s := rks.dropLast.foldl aesRound s
    aesFinalRound s (rks.getLastD [])

/-- AES-256 encryption of one 16-byte block under a 32-byte key. -/
def encryptBlock256 (key block : Bytes) : Bytes := cipher (keyExpansion256 key) block

end Sodium.Spec.Aes
