/-
  ristretto255 (RFC 9496 §4) as an executable reference specification.

  Internal representation: a point of edwards25519 in extended coordinates
  (`Ed25519.Point`); two internal representations denote the same ristretto255
  element iff `eq` holds (RFC 9496 §4.3.3).

  libsodium entry points specified here:
    crypto_core_ristretto255_is_valid_point   ↔ `isValidPoint`
    crypto_core_ristretto255_add / _sub       ↔ `coreAdd` / `coreSub`
    crypto_core_ristretto255_from_hash        ↔ `fromUniform`
    crypto_scalarmult_ristretto255            ↔ `scalarmult`
    crypto_scalarmult_ristretto255_base       ↔ `scalarmultBase`
-/
import SodiumModel.Basic
import SodiumModel.Spec.Field25519
import SodiumModel.Spec.Ed25519

namespace Sodium.Spec.Ristretto

open Sodium.Spec.F25519


abbrev Point := Ed25519.Point

/-! ## Constants (RFC 9496 §4.1) -/

/-- D = -121665/121666. -/
def D : Nat := Ed25519.d

/-- SQRT_AD_MINUS_ONE = sqrt(a·d - 1) with a = -1
    = 25063068953384623474111414158702152701244531502492656460079210482610430750235 -/
def sqrtAdMinusOne : Nat :=
  25063068953384623474111414158702152701244531502492656460079210482610430750235

/-- INVSQRT_A_MINUS_D = 1/sqrt(a - d)
    = 54469307008909316920995813868745141605393597292927456921205312896311721017578 -/
def invsqrtAMinusD : Nat :=
  54469307008909316920995813868745141605393597292927456921205312896311721017578

/-- ONE_MINUS_D_SQ = 1 - d²
    = 1159843021668779879193775521855586647937357759715417654439879720876111806838 -/
def oneMinusDSq : Nat := sub 1 (sqr D)

/-- D_MINUS_ONE_SQ = (d - 1)²
    = 40440834346308536858101042469323190826248399146238708352240133220865137265952 -/
def dMinusOneSq : Nat := sqr (sub D 1)

/-! ## Decode (RFC 9496 §4.3.1) -/

def decode (b : Bytes) : Option Point :=
  if b.length != 32 then none
  else
    let s := le b
    -- step 1–2: canonical (s < p) and non-negative
    if s ≥ p || isNegative s then none
    else
      let ss := sqr s
      let u1 := sub 1 ss
      let u2 := add 1 ss
      let u2Sqr := sqr u2
      let v := sub (neg (mul D (sqr u1))) u2Sqr            -- v = -(D·u1²) - u2²
      let (wasSquare, invsqrt) := sqrtRatioM1 1 (mul v u2Sqr)
      let denX := mul invsqrt u2
      let denY := mul (mul invsqrt denX) v
      let x := abs (mul (mul 2 s) denX)
      let y := mul u1 denY
      let t := mul x y
      if !wasSquare || isNegative t || y == 0 then none
      else some { X := x, Y := y, Z := 1, T := t }

/-! ## Encode (RFC 9496 §4.3.2) -/

def encode (P : Point) : Bytes :=
  let x0 := P.X
  let y0 := P.Y
  let z0 := P.Z
  let t0 := P.T
  let u1 := mul (add z0 y0) (sub z0 y0)
  let u2 := mul x0 y0
  let (_, invsqrt) := sqrtRatioM1 1 (mul u1 (sqr u2))
  let den1 := mul invsqrt u1
  let den2 := mul invsqrt u2
  let zInv := mul (mul den1 den2) t0
  let ix0 := mul x0 sqrtM1
  let iy0 := mul y0 sqrtM1
  let enchantedDenominator := mul den1 invsqrtAMinusD
  let rotate := isNegative (mul t0 zInv)
  let x := if rotate then iy0 else x0
  let y := if rotate then ix0 else y0
  let z := z0
  let denInv := if rotate then enchantedDenominator else den2
  let y := if isNegative (mul x zInv) then neg y else y
  let s := abs (mul denInv (sub z y))
  toLE 32 s

/-! ## Element derivation (RFC 9496 §4.3.4) -/

/-- MAP(t): the Elligator map to a point of edwards25519. -/
def map (t : Nat) : Point :=
  let r := mul sqrtM1 (sqr t)
  let u := mul (add r 1) oneMinusDSq
  let v := mul (sub (F25519.neg 1) (mul r D)) (add r D)     -- (-1 - r·D)·(r + D)
  let (wasSquare, s) := sqrtRatioM1 u v
  let sPrime := F25519.neg (abs (mul s t))
  let s := if wasSquare then s else sPrime
  let c := if wasSquare then F25519.neg 1 else r
  let N := sub (mul (mul c (sub r 1)) dMinusOneSq) v
  let w0 := mul (mul 2 s) v
  let w1 := mul N sqrtAdMinusOne
  let w2 := sub 1 (sqr s)
  let w3 := add 1 (sqr s)
  { X := mul w0 w3, Y := mul w2 w1, Z := mul w1 w3, T := mul w0 w2 }

/-! ## Group operations (RFC 9496 §4.3.3, §4.4) -/

/-- Equality of ristretto255 elements: x1·y2 = y1·x2 or y1·y2 = x1·x2. -/
def eq (P Q : Point) : Bool :=
  mul P.X Q.Y == mul P.Y Q.X || mul P.Y Q.Y == mul P.X Q.X

def add (P Q : Point) : Point := Ed25519.add P Q
def sub (P Q : Point) : Point := Ed25519.sub P Q
def neg (P : Point) : Point := Ed25519.neg P
def scalarMult (n : Nat) (P : Point) : Point := Ed25519.scalarMult n P
def identity : Point := Ed25519.identity
/-- The canonical generator is the Ed25519 base point (RFC 9496 §4). -/
def generator : Point := Ed25519.basePoint

/-- The one-way map on 64 uniform bytes, as a point:
    t0 = b[0..32], t1 = b[32..64], each with bit 255 masked and reduced mod p;
    result MAP(t0) + MAP(t1). -/
def fromUniformPoint (b : Bytes) : Point :=
  let t0 := fromBytesMasked (b.take 32)
  let t1 := fromBytesMasked ((b.drop 32).take 32)
  add (map t0) (map t1)

/-- `crypto_core_ristretto255_from_hash`: 64 bytes ↦ encoded element. -/
def fromUniform (b : Bytes) : Bytes := encode (fromUniformPoint b)

/-! ## libsodium byte-level API -/

/-- `crypto_core_ristretto255_is_valid_point`. -/
def isValidPoint (b : Bytes) : Bool := (decode b).isSome

/-- `crypto_core_ristretto255_add`: `none` ↔ -1 (an operand fails to decode). -/
def coreAdd (a b : Bytes) : Option Bytes :=
  match decode a, decode b with
  | some P, some Q => some (encode (add P Q))
  | _, _ => none

/-- `crypto_core_ristretto255_sub`. -/
def coreSub (a b : Bytes) : Option Bytes :=
  match decode a, decode b with
  | some P, some Q => some (encode (sub P Q))
  | _, _ => none

/-- `crypto_scalarmult_ristretto255(q, n, p)`: scalar = n mod 2^255 (no clamping, no
    reduction mod L needed); `none` ↔ -1 (p invalid or the result is the identity,
    whose encoding is all-zero). -/
def scalarmult (n p' : Bytes) : Option Bytes :=
  match decode p' with
  | none => none
  | some P =>
    let q := encode (scalarMult (le (n.take 32) % 2 ^ 255) P)
    if q == zeros 32 then none else some q

/-- `crypto_scalarmult_ristretto255_base(q, n)`. -/
def scalarmultBase (n : Bytes) : Option Bytes :=
  let q := encode (scalarMult (le (n.take 32) % 2 ^ 255) generator)
  if q == zeros 32 then none else some q

end Sodium.Spec.Ristretto
