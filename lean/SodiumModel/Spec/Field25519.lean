/-
  Reference specification of the prime field GF(2^255 - 19).

  Elements are represented by `Nat`.  Every operation accepts arbitrary
  naturals and returns the canonical representative in `[0, p)`.
  Core Lean only; everything is total and computable.

  References: RFC 7748 §4.1 / §5, RFC 8032 §5.1, RFC 9496 §4.1–4.2.
-/
import SodiumModel.Basic

namespace Sodium.Spec.F25519

/-- The field prime p = 2^255 - 19 (RFC 7748 §4.1, RFC 8032 §5.1). -/
def p : Nat := 2 ^ 255 - 19

/-- Canonical representative of `a` modulo p. -/
def reduce (a : Nat) : Nat := a % p

def add (a b : Nat) : Nat := (a + b) % p

/-- Additive inverse. -/
def neg (a : Nat) : Nat := (p - a % p) % p

def sub (a b : Nat) : Nat := (a % p + (p - b % p)) % p

def mul (a b : Nat) : Nat := (a * b) % p

def sqr (a : Nat) : Nat := (a * a) % p

/--
  Right-to-left square-and-multiply.  `fuel` bounds the number of exponent
  bits that are processed; `pow` supplies `log2 e + 1`, which is exactly the
  bit length of `e`, so the recursion is structural and total.

  Invariant: `acc * b^e` (mod p) is constant.
-/
def powLoop : (fuel : Nat) → (b e acc : Nat) → Nat
  | 0, _, _, acc => acc
  | fuel + 1, b, e, acc =>
    if e = 0 then acc
    else powLoop fuel (sqr b) (e / 2) (if e % 2 = 1 then mul acc b else acc)

/-- `pow a e = a^e mod p` (fast modular exponentiation by squaring). -/
def pow (a e : Nat) : Nat := powLoop (e.log2 + 1) (a % p) e 1

/-- Multiplicative inverse by Fermat: a^(p-2).  `inv 0 = 0` (this is also the
    `inv0` of RFC 9380 §4). -/
def inv (a : Nat) : Nat := pow a (p - 2)

/-- a / b, with the convention x / 0 = 0. -/
def div (a b : Nat) : Nat := mul a (inv b)

/-- Equality in the field. -/
def eq (a b : Nat) : Bool := a % p == b % p

def isZero (a : Nat) : Bool := a % p == 0

/-- IS_NEGATIVE of RFC 9496 §4.1 = `sgn0` of RFC 9380 §4.1 (m = 1) = the
    "x_0" sign bit of RFC 8032 §5.1.2: least significant bit of the canonical
    representative. -/
def isNegative (a : Nat) : Bool := (a % p) % 2 == 1

/-- CT_ABS of RFC 9496 §4.1. -/
def abs (a : Nat) : Nat := if isNegative a then neg a else a % p

/-- Euler criterion: `a` is a square (0 counts as a square); RFC 9380 §4 `is_square`. -/
def isSquare (a : Nat) : Bool :=
  let l := pow a ((p - 1) / 2)
  l == 0 || l == 1

/-- SQRT_M1 = 2^((p-1)/4), a square root of -1 (RFC 8032 §5.1.3, RFC 9496 §4.1).
    = 19681161376707505956807079304988542015446066515923890162744021073123829784752 -/
def sqrtM1 : Nat := pow 2 ((p - 1) / 4)

/--
  Square root per RFC 8032 §5.1.3 step 3 (p ≡ 5 mod 8):
  candidate x = a^((p+3)/8); if x² = a return x; if x² = -a return x·sqrt(-1);
  otherwise `a` is not a square.
  The sign of the returned root is not normalised.
-/
def sqrt (a : Nat) : Option Nat :=
  let a := a % p
  let x := pow a ((p + 3) / 8)
  let xx := sqr x
  if xx == a then some x
  else if xx == neg a then some (mul x sqrtM1)
  else none

/--
  Square root of the ratio u/v per RFC 8032 §5.1.3:
  x = u·v³·(u·v⁷)^((p-5)/8); then v·x² = u → x, v·x² = -u → x·sqrt(-1), else none.
  (v is assumed non-zero; for v = 0 the result is `some 0` iff u = 0.)
  The sign of the returned root is not normalised.
-/
def sqrtRatio8032 (u v : Nat) : Option Nat :=
  let u := u % p
  let v3 := mul (sqr v) v
  let v7 := mul (sqr v3) v
  let x := mul (mul u v3) (pow (mul u v7) ((p - 5) / 8))
  let vxx := mul v (sqr x)
  if vxx == u then some x
  else if vxx == neg u then some (mul x sqrtM1)
  else none

/--
  SQRT_RATIO_M1(u, v) of RFC 9496 §4.2.  Returns `(was_square, r)` where
  * (true,  +sqrt(u/v))        if u/v is a non-zero square,
  * (true,  0)                 if u = 0,
  * (false, 0)                 if v = 0 and u ≠ 0,
  * (false, +sqrt(SQRT_M1·u/v)) otherwise,
  and "+" means the non-negative root.
-/
def sqrtRatioM1 (u v : Nat) : Bool × Nat :=
  let u := u % p
  let v3 := mul (sqr v) v
  let v7 := mul (sqr v3) v
  let r := mul (mul u v3) (pow (mul u v7) ((p - 5) / 8))
  let check := mul v (sqr r)
  let correctSignSqrt := check == u
  let flippedSignSqrt := check == neg u
  let flippedSignSqrtI := check == neg (mul u sqrtM1)
  let r' := mul sqrtM1 r
  let r := if flippedSignSqrt || flippedSignSqrtI then r' else r
  (correctSignSqrt || flippedSignSqrt, abs r)

/-- 32-byte little-endian encoding of the canonical representative. -/
def toBytes (a : Nat) : Bytes := toLE 32 (a % p)

/-- Decode 32 little-endian bytes ignoring bit 255 and reducing mod p
    (this is what `fe25519_frombytes` and RFC 7748 `decodeUCoordinate` do). -/
def fromBytesMasked (b : Bytes) : Nat := (le (b.take 32) % 2 ^ 255) % p

end Sodium.Spec.F25519
