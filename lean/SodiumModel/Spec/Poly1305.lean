import SodiumModel.Basic
/-
  Poly1305 (RFC 8439 §2.5) over unbounded naturals.
-/
namespace Sodium.Spec.Poly1305

def p : Nat := 2 ^ 130 - 5

/-- §2.5.1: clamp r -/
def clampR (r : Nat) : Nat := r &&& 0x0ffffffc0ffffffc0ffffffc0fffffff

def chunks16 : Nat → Bytes → List Bytes
  | 0, _ => []
  | fuel + 1, m => if m.isEmpty then [] else m.take 16 :: chunks16 fuel (m.drop 16)

/-- §2.5.1: acc = ((acc + block ‖ 0x01) * r) mod p for each 16-byte block (last may be short) -/
def mac (key msg : Bytes) : Bytes :=
  let r := clampR (le (key.take 16))
  let s := le ((key.drop 16).take 16)
  let acc := (chunks16 (msg.length + 1) msg).foldl
    (fun a blk => ((a + le blk + 2 ^ (8 * blk.length)) * r) % p) 0
  toLE 16 ((acc + s) % 2 ^ 128)

end Sodium.Spec.Poly1305
