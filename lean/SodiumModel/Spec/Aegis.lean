/-
  AEGIS-128L and AEGIS-256 (draft-irtf-cfrg-aegis-aead) — executable reference specification,
  core Lean only, with the 256-bit (32-byte) tag used by libsodium's
  crypto_aead_aegis128l_* / crypto_aead_aegis256_* (`*_ABYTES` = 32).

  All state words, message blocks and constants are 16-byte `Bytes`; `AESRound(in, rk)` is
  `Aes.aesRound` (one `AESENC`).
-/
import SodiumModel.Basic
import SodiumModel.Spec.Aes

namespace Sodium.Spec.Aegis

open Sodium.Spec.Aes (aesRound chunks)

/-! ### Conventions (draft §1.1 "Conventions and Definitions") -/

/-- bytewise AND of two byte strings -/
def andBytes : Bytes → Bytes → Bytes
  | x :: xs, y :: ys => (x &&& y) :: andBytes xs ys
  | _, _ => []

-- Within this file `a ⊻ b` and `a & b` on byte strings are the draft's `a ^ b` and `a & b`
-- (plain notation for `xorBytes` / `andBytes`).
local infixl:58 " ⊻ " => xorBytes
local infixl:60 " & " => andBytes

/-- ZeroPad(x, n): pad `x` with zero bytes to a multiple of `n` bytes (n given in bytes here). -/
def zeroPad (x : Bytes) (n : Nat) : Bytes := x ++ zeros ((n - x.length % n) % n)

/-- LE64(x) -/
def le64 (x : Nat) : Bytes := toLE 8 x

/-- C0, C1: the Fibonacci-sequence constants (draft §2.1 / §3.1). -/
def C0 : Bytes :=
  [0x00, 0x01, 0x01, 0x02, 0x03, 0x05, 0x08, 0x0d, 0x15, 0x22, 0x37, 0x59, 0x90, 0xe9, 0x79, 0x62]
def C1 : Bytes :=
  [0xdb, 0x3d, 0x18, 0x55, 0x6d, 0xc2, 0x2f, 0xf1, 0x20, 0x11, 0x31, 0x42, 0x73, 0xb5, 0x28, 0xdd]

/-- Repeat(n, F) -/
def repeatN {σ : Type} (n : Nat) (f : σ → σ) (s : σ) : σ := Nat.repeat f n s

/-! ## AEGIS-128L (draft §2): 8 × 128-bit state, 256-bit rate -/

namespace Aegis128L

structure State where
  s0 : Bytes
  s1 : Bytes
  s2 : Bytes
  s3 : Bytes
  s4 : Bytes
  s5 : Bytes
  s6 : Bytes
  s7 : Bytes

/-- §2.5.1 (the Update function): Update(M0, M1). -/
def update (S : State) (m0 m1 : Bytes) : State :=
  { s0 := aesRound S.s7 (S.s0 ⊻ m0)
    s1 := aesRound S.s0 S.s1
    s2 := aesRound S.s1 S.s2
    s3 := aesRound S.s2 S.s3
    s4 := aesRound S.s3 (S.s4 ⊻ m1)
    s5 := aesRound S.s4 S.s5
    s6 := aesRound S.s5 S.s6
    s7 := aesRound S.s6 S.s7 }

/-- The Init function: Init(key, nonce). -/
def init (key nonce : Bytes) : State :=
  let S : State :=
    { s0 := key ⊻ nonce
      s1 := C1
      s2 := C0
      s3 := C1
      s4 := key ⊻ nonce
      s5 := key ⊻ C0
      s6 := key ⊻ C1
      s7 := key ⊻ C0 }
  repeatN 10 (fun S => update S nonce key) S

/-- The Absorb function: Absorb(ai), |ai| = 32 bytes. -/
def absorb (S : State) (ai : Bytes) : State :=
  update S (ai.take 16) (ai.drop 16)

/-- The keystream blocks z0, z1 shared by Enc / Dec / DecPartial. -/
def z0 (S : State) : Bytes := S.s1 ⊻ S.s6 ⊻ (S.s2 & S.s3)
def z1 (S : State) : Bytes := S.s2 ⊻ S.s5 ⊻ (S.s6 & S.s7)

/-- The Enc function: Enc(xi), |xi| = 32 bytes; returns the new state and ci. -/
def enc (S : State) (xi : Bytes) : State × Bytes :=
  let t0 := xi.take 16
  let t1 := xi.drop 16
  let out0 := t0 ⊻ z0 S
  let out1 := t1 ⊻ z1 S
  (update S t0 t1, out0 ++ out1)

/-- The Dec function: Dec(ci), |ci| = 32 bytes; returns the new state and xi. -/
def dec (S : State) (ci : Bytes) : State × Bytes :=
  let t0 := ci.take 16
  let t1 := ci.drop 16
  let out0 := t0 ⊻ z0 S
  let out1 := t1 ⊻ z1 S
  (update S out0 out1, out0 ++ out1)

/-- The DecPartial function: DecPartial(cn), 0 < |cn| < 32 bytes. -/
def decPartial (S : State) (cn : Bytes) : State × Bytes :=
  let t := zeroPad cn 32
  let out0 := t.take 16 ⊻ z0 S
  let out1 := t.drop 16 ⊻ z1 S
  let xn := (out0 ++ out1).take cn.length
  let v := zeroPad xn 32
  (update S (v.take 16) (v.drop 16), xn)

/-- The Finalize function with tag_len_bits = 256; lengths are in bits. -/
def finalize (S : State) (adLenBits msgLenBits : Nat) : Bytes :=
  let t := S.s2 ⊻ (le64 adLenBits ++ le64 msgLenBits)
  let S := repeatN 7 (fun S => update S t t) S
  (S.s0 ⊻ S.s1 ⊻ S.s2 ⊻ S.s3) ++ (S.s4 ⊻ S.s5 ⊻ S.s6 ⊻ S.s7)

end Aegis128L

/-- Run a per-block step (Enc / Dec) over the blocks in order, threading the state and
    concatenating the outputs. -/
def mapBlocks {σ : Type} (step : σ → Bytes → σ × Bytes) : σ → List Bytes → σ × Bytes
  | S, [] => (S, [])
  | S, b :: bs =>
    let (S, o) := step S b
    let (S, os) := mapBlocks step S bs
    (S, o ++ os)

/-- §2.2 Encrypt(msg, ad, key, nonce) for AEGIS-128L, 32-byte tag. -/
def aegis128l_encrypt (key nonce ad msg : Bytes) : Bytes × Bytes :=
  let S := Aegis128L.init key nonce
  let S := (chunks 32 (zeroPad ad 32)).foldl Aegis128L.absorb S
  let (S, ct) := mapBlocks Aegis128L.enc S (chunks 32 (zeroPad msg 32))
  let tag := Aegis128L.finalize S (8 * ad.length) (8 * msg.length)
  (ct.take msg.length, tag)

/-- §2.3 Decrypt(ct, tag, ad, key, nonce) for AEGIS-128L; `none` is "verification failed". -/
def aegis128l_decrypt (key nonce ad ct tag : Bytes) : Option Bytes :=
  let S := Aegis128L.init key nonce
  let S := (chunks 32 (zeroPad ad 32)).foldl Aegis128L.absorb S
  let full := ct.length / 32 * 32
  let (S, msg) := mapBlocks Aegis128L.dec S (chunks 32 (ct.take full))
  let cn := ct.drop full
  let (S, msg) := if cn.isEmpty then (S, msg) else
    let (S', xn) := Aegis128L.decPartial S cn
    (S', msg ++ xn)
  let expected := Aegis128L.finalize S (8 * ad.length) (8 * msg.length)
  if tag = expected then some msg else none

/-! ## AEGIS-256 (draft §3): 6 × 128-bit state, 128-bit rate -/

namespace Aegis256

structure State where
  s0 : Bytes
  s1 : Bytes
  s2 : Bytes
  s3 : Bytes
  s4 : Bytes
  s5 : Bytes

/-- The Update function: Update(M). -/
def update (S : State) (m : Bytes) : State :=
  { s0 := aesRound S.s5 (S.s0 ⊻ m)
    s1 := aesRound S.s0 S.s1
    s2 := aesRound S.s1 S.s2
    s3 := aesRound S.s2 S.s3
    s4 := aesRound S.s3 S.s4
    s5 := aesRound S.s4 S.s5 }

/-- The Init function: Init(key, nonce), 32-byte key and nonce. -/
def init (key nonce : Bytes) : State :=
  let k0 := key.take 16
  let k1 := key.drop 16
  let n0 := nonce.take 16
  let n1 := nonce.drop 16
  let S : State :=
    { s0 := k0 ⊻ n0
      s1 := k1 ⊻ n1
      s2 := C1
      s3 := C0
      s4 := k0 ⊻ C0
      s5 := k1 ⊻ C1 }
  repeatN 4 (fun S =>
    let S := update S k0
    let S := update S k1
    let S := update S (k0 ⊻ n0)
    update S (k1 ⊻ n1)) S

/-- The Absorb function: Absorb(ai), |ai| = 16 bytes. -/
def absorb (S : State) (ai : Bytes) : State := update S ai

/-- The keystream block z. -/
def z (S : State) : Bytes := S.s1 ⊻ S.s4 ⊻ S.s5 ⊻ (S.s2 & S.s3)

/-- The Enc function: Enc(xi), |xi| = 16 bytes. -/
def enc (S : State) (xi : Bytes) : State × Bytes :=
  (update S xi, xi ⊻ z S)

/-- The Dec function: Dec(ci), |ci| = 16 bytes. -/
def dec (S : State) (ci : Bytes) : State × Bytes :=
  let xi := ci ⊻ z S
  (update S xi, xi)

/-- The DecPartial function: DecPartial(cn), 0 < |cn| < 16 bytes. -/
def decPartial (S : State) (cn : Bytes) : State × Bytes :=
  let t := zeroPad cn 16
  let out := t ⊻ z S
  let xn := out.take cn.length
  let v := zeroPad xn 16
  (update S v, xn)

/-- The Finalize function with tag_len_bits = 256; lengths are in bits. -/
def finalize (S : State) (adLenBits msgLenBits : Nat) : Bytes :=
  let t := S.s3 ⊻ (le64 adLenBits ++ le64 msgLenBits)
  let S := repeatN 7 (fun S => update S t) S
  (S.s0 ⊻ S.s1 ⊻ S.s2) ++ (S.s3 ⊻ S.s4 ⊻ S.s5)

end Aegis256

/-- §3.2 Encrypt(msg, ad, key, nonce) for AEGIS-256, 32-byte tag. -/
def aegis256_encrypt (key nonce ad msg : Bytes) : Bytes × Bytes :=
  let S := Aegis256.init key nonce
  let S := (chunks 16 (zeroPad ad 16)).foldl Aegis256.absorb S
  let (S, ct) := mapBlocks Aegis256.enc S (chunks 16 (zeroPad msg 16))
  let tag := Aegis256.finalize S (8 * ad.length) (8 * msg.length)
  (ct.take msg.length, tag)

/-- §3.3 Decrypt(ct, tag, ad, key, nonce) for AEGIS-256; `none` is "verification failed". -/
def aegis256_decrypt (key nonce ad ct tag : Bytes) : Option Bytes :=
  let S := Aegis256.init key nonce
  let S := (chunks 16 (zeroPad ad 16)).foldl Aegis256.absorb S
  let full := ct.length / 16 * 16
  let (S, msg) := mapBlocks Aegis256.dec S (chunks 16 (ct.take full))
  let cn := ct.drop full
  let (S, msg) := if cn.isEmpty then (S, msg) else
    let (S', xn) := Aegis256.decPartial S cn
    (S', msg ++ xn)
  let expected := Aegis256.finalize S (8 * ad.length) (8 * msg.length)
  if tag = expected then some msg else none

end Sodium.Spec.Aegis
