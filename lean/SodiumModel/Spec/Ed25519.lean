/-
  edwards25519 group and Ed25519 signatures (RFC 8032 §5.1) as an executable
  reference specification, together with the exact accept/reject behaviour of
  libsodium's default (non-ED25519_COMPAT) verification.

  Curve:  -x² + y² = 1 + d·x²·y²   over GF(2^255 - 19).
  Points are kept in extended homogeneous coordinates (X : Y : Z : T),
  x = X/Z, y = Y/Z, x·y = T/Z (RFC 8032 §5.1.4).

  SHA-512 is a parameter (`sha512 : Bytes → Bytes`) everywhere.

  libsodium entry points specified here:
    crypto_sign_seed_keypair                    ↔ `publicKey`
    crypto_sign_detached                        ↔ `sign`
    crypto_sign_init/update/final_create        ↔ `signPh`
    crypto_sign_verify_detached                 ↔ `verifyStrict`
    crypto_sign_init/update/final_verify        ↔ `verifyStrictPh`
    crypto_sign_ed25519_pk_to_curve25519        ↔ `pkToCurve25519`
    crypto_sign_ed25519_sk_to_curve25519        ↔ `skToCurve25519`
    crypto_core_ed25519_is_valid_point          ↔ `isValidPoint`
    crypto_core_ed25519_add / _sub              ↔ `coreAdd` / `coreSub`
    crypto_scalarmult_ed25519[_noclamp]         ↔ `scalarmult` / `scalarmultNoclamp`
    crypto_scalarmult_ed25519_base[_noclamp]    ↔ `scalarmultBase` / `scalarmultBaseNoclamp`
-/
import SodiumModel.Basic
import SodiumModel.Spec.Field25519

namespace Sodium.Spec.Ed25519

open Sodium.Spec.F25519

/-! ## Parameters (RFC 8032 §5.1) -/

/-- d = -121665/121666
    = 37095705934669439343138083508754565189542113879843219016388785533085940283555 -/
def d : Nat := neg (div 121665 121666)

/-- Order of the prime-order subgroup: L = 2^252 + 27742317777372353535851937790883648493. -/
def L : Nat := 2 ^ 252 + 27742317777372353535851937790883648493

/-- Extended homogeneous coordinates, all entries reduced mod p. -/
structure Point where
  X : Nat
  Y : Nat
  Z : Nat
  T : Nat
deriving Repr

/-- Build a point from affine coordinates. -/
def ofAffine (x y : Nat) : Point := { X := x % p, Y := y % p, Z := 1, T := mul x y }

/-- The neutral element (0, 1). -/
def identity : Point := { X := 0, Y := 1, Z := 1, T := 0 }

/-- The base point B = (x, 4/5) with x "positive" (even) (RFC 8032 §5.1). -/
def basePoint : Point :=
  ofAffine 15112221349535400772501151409588531511454012693041857206046113283949847762202
           46316835694926478169428394003475163141307993866256225615783033603165251855960

/-- Affine coordinates (x, y) = (X/Z, Y/Z). -/
def toAffine (P : Point) : Nat × Nat :=
  let zinv := inv P.Z
  (mul P.X zinv, mul P.Y zinv)

/-- Curve membership of a projective point: (-X² + Y²)·Z² = Z⁴ + d·X²·Y², and T·Z = X·Y. -/
def isOnCurve (P : Point) : Bool :=
  let x2 := sqr P.X
  let y2 := sqr P.Y
  let z2 := sqr P.Z
  mul (sub y2 x2) z2 == add (sqr z2) (mul d (mul x2 y2)) &&
  mul P.T P.Z == mul P.X P.Y && P.Z % p != 0

/-- Point equality: X1·Z2 = X2·Z1 and Y1·Z2 = Y2·Z1 (RFC 8032 §6 `point_equal`). -/
def pointEq (P Q : Point) : Bool :=
  mul P.X Q.Z == mul Q.X P.Z && mul P.Y Q.Z == mul Q.Y P.Z

/-! ## Group law (RFC 8032 §5.1.4) -/

/-- Point addition; the formulas are complete on edwards25519 (a = -1 is a square,
    d is a non-square), so they are also valid for doubling and small-order points. -/
def add (P Q : Point) : Point :=
  let A := mul (sub P.Y P.X) (sub Q.Y Q.X)
  let B := mul (F25519.add P.Y P.X) (F25519.add Q.Y Q.X)
  let C := mul (mul P.T (mul 2 d)) Q.T
  let D := mul (mul P.Z 2) Q.Z
  let E := sub B A
  let F := sub D C
  let G := F25519.add D C
  let H := F25519.add B A
  { X := mul E F, Y := mul G H, T := mul E H, Z := mul F G }

/-- Dedicated doubling (RFC 8032 §5.1.4). -/
def double (P : Point) : Point :=
  let A := sqr P.X
  let B := sqr P.Y
  let C := mul 2 (sqr P.Z)
  let H := F25519.add A B
  let E := sub H (sqr (F25519.add P.X P.Y))
  let G := sub A B
  let F := F25519.add C G
  { X := mul E F, Y := mul G H, T := mul E H, Z := mul F G }

/-- -(x, y) = (-x, y). -/
def neg (P : Point) : Point := { X := F25519.neg P.X, Y := P.Y % p, Z := P.Z % p, T := F25519.neg P.T }

def sub (P Q : Point) : Point := add P (neg Q)

/--
  `point_mul` of RFC 8032 §6 (right-to-left double-and-add):
      Q = 0; while s > 0: if s & 1: Q += P;  P += P;  s >>= 1
  `fuel` bounds the number of scalar bits processed.
-/
def scalarMultLoop : (fuel : Nat) → (s : Nat) → (Q P : Point) → Point
  | 0, _, Q, _ => Q
  | fuel + 1, s, Q, P =>
    if s = 0 then Q
    else scalarMultLoop fuel (s / 2) (if s % 2 = 1 then add Q P else Q) (double P)

/-- [n]P for an arbitrary natural number n. -/
def scalarMult (n : Nat) (P : Point) : Point := scalarMultLoop (n.log2 + 1) n identity P

/-- [8]P (cofactor clearing). -/
def mulByCofactor (P : Point) : Point := double (double (double P))

/-! ## Encoding and decoding (RFC 8032 §5.1.2, §5.1.3) -/

/-- Encoding: 255-bit little-endian y, with the least significant bit of x in bit 255. -/
def encode (P : Point) : Bytes :=
  let (x, y) := toAffine P
  toLE 32 (y + 2 ^ 255 * (x % 2))

/-- `isCanonicalY b`: the 255-bit y field of the encoding is < p
    (libsodium `ge25519_is_canonical`). -/
def isCanonicalY (b : Bytes) : Bool := le (b.take 32) % 2 ^ 255 < p

/--
  x-coordinate recovery (RFC 8032 §5.1.3 steps 2–4) for a reduced y and the sign bit x_0.
  `strict = true` additionally performs the RFC check "x = 0 and x_0 = 1 ⇒ fail".
-/
def recoverX (y : Nat) (sign : Bool) (strict : Bool) : Option Nat :=
  let u := F25519.sub (sqr y) 1               -- u = y² - 1
  let v := F25519.add (mul d (sqr y)) 1       -- v = d·y² + 1
  match sqrtRatio8032 u v with
  | none => none
  | some x =>
    if x == 0 && sign && strict then none
    else if isNegative x != sign then some (F25519.neg x) else some x

/--
  Decoding exactly per RFC 8032 §5.1.3: fails if the string is not 32 bytes,
  if y ≥ p, if x² = (y²-1)/(dy²+1) has no solution, or if x = 0 and x_0 = 1.
-/
def decodeRfc (b : Bytes) : Option Point :=
  if b.length != 32 then none
  else
    let n := le b
    let sign := n / 2 ^ 255 == 1
    let y := n % 2 ^ 255
    if y ≥ p then none
    else (recoverX y sign true).map (fun x => ofAffine x y)

/-- The RFC name. -/
def decode (b : Bytes) : Option Point := decodeRfc b

/--
  Decoding as libsodium's `ge25519_frombytes` / `ge25519_frombytes_negate_vartime`
  do it: the 255-bit y is silently reduced mod p (non-canonical encodings are
  accepted) and x = 0 with sign bit 1 is accepted (as x = 0).  Fails only when
  the curve equation has no solution.  On every input accepted by `decodeRfc`
  both functions return the same point.
-/
def decodeLax (b : Bytes) : Option Point :=
  if b.length != 32 then none
  else
    let n := le b
    let sign := n / 2 ^ 255 == 1
    let y := (n % 2 ^ 255) % p
    (recoverX y sign false).map (fun x => ofAffine x y)

/-! ## Subgroup predicates -/

/-- P has order dividing 8, i.e. [8]P = identity.  (For affine input, Z = 1, this
    is what libsodium's `ge25519_has_small_order` computes.) -/
def isSmallOrder (P : Point) : Bool := pointEq (mulByCofactor P) identity

/-- P is in the prime-order subgroup: [L]P = identity. -/
def isOnMainSubgroup (P : Point) : Bool := pointEq (scalarMult L P) identity

/--
  What libsodium's `ge25519_is_on_main_subgroup` actually tests: the
  x-coordinate of [L]P is zero.  Since L ≡ 5 (mod 8), this holds iff the torsion
  component of P is the identity **or the point (0, -1) of order 2**.
  So it is strictly weaker than `isOnMainSubgroup`: it also accepts P' + (0,-1)
  for P' in the prime-order subgroup.
-/
def libsodiumIsOnMainSubgroup (P : Point) : Bool := (scalarMult L P).X % p == 0

/-- A generator of the 8-torsion subgroup (order 8); encoding `c7176a70…ac037a`. -/
def torsionGenerator : Point :=
  ofAffine 14399317868200118260347934320527232580618823971194345261214217575416788799818
           55188659117513257062467267217118295137698188065244968500265048394206261417927

/-- The eight points of small order: [i]·torsionGenerator, i = 0..7
    (orders 1, 8, 4, 8, 2, 8, 4, 8). -/
def smallOrderPoints : List Point :=
  (List.range 8).map (fun i => scalarMult i torsionGenerator)

/--
  Canonical encodings of the eight small-order points, in the order of `smallOrderPoints`:
    0100000000000000000000000000000000000000000000000000000000000000  (order 1)
    c7176a703d4dd84fba3c0b760d10670f2a2053fa2c39ccc64ec7fd7792ac037a  (order 8)
    0000000000000000000000000000000000000000000000000000000000000080  (order 4)
    26e8958fc2b227b045c3f489f2ef98f0d5dfac05d3c63339b13802886d53fc05  (order 8)
    ecffffffffffffffffffffffffffffffffffffffffffffffffffffffffffff7f  (order 2)
    26e8958fc2b227b045c3f489f2ef98f0d5dfac05d3c63339b13802886d53fc85  (order 8)
    0000000000000000000000000000000000000000000000000000000000000000  (order 4)
    c7176a703d4dd84fba3c0b760d10670f2a2053fa2c39ccc64ec7fd7792ac03fa  (order 8)
-/
def smallOrderEncodings : List Bytes := smallOrderPoints.map encode

/-! ## Keys and signing (RFC 8032 §5.1.5, §5.1.6) -/

/-- Clamp ("prune") the lower 32 bytes of the hash: clear bits 0,1,2,255, set bit 254. -/
def clamp (b : Bytes) : Nat :=
  let n := le (b.take 32)
  let n := n - n % 8
  n % 2 ^ 254 + 2 ^ 254

/-- RFC 8032 §5.1.5 steps 1–2: (clamped scalar a, prefix = h[32..64]). -/
def secretExpand (sha512 : Bytes → Bytes) (seed : Bytes) : Nat × Bytes :=
  let h := sha512 (seed.take 32)
  (clamp h, (h.drop 32).take 32)

/-- RFC 8032 §5.1.5: A = [a]B, encoded.  (`crypto_sign_seed_keypair`: pk; sk = seed ‖ pk.) -/
def publicKey (sha512 : Bytes → Bytes) (seed : Bytes) : Bytes :=
  encode (scalarMult (secretExpand sha512 seed).1 basePoint)

/-- dom2(1, "") of RFC 8032 §2 / §5.1 for Ed25519ph with an empty context:
    "SigEd25519 no Ed25519 collisions" ‖ 0x01 ‖ 0x00. -/
def dom2Ph : Bytes := "SigEd25519 no Ed25519 collisions".toUTF8.toList ++ [1, 0]

/-- Signing with an explicit domain-separation prefix `dom` (empty for pure Ed25519).
    RFC 8032 §5.1.6:  r = H(dom ‖ prefix ‖ M) mod L;  R = [r]B;
    k = H(dom ‖ R ‖ A ‖ M) mod L;  S = (r + k·a) mod L;  signature = R ‖ S. -/
def signWith (sha512 : Bytes → Bytes) (dom : Bytes) (seed msg : Bytes) : Bytes :=
  let (a, pre) := secretExpand sha512 seed
  let A := encode (scalarMult a basePoint)
  let r := le (sha512 (dom ++ pre ++ msg)) % L
  let R := encode (scalarMult r basePoint)
  let k := le (sha512 (dom ++ R ++ A ++ msg)) % L
  let S := (r + k * a) % L
  R ++ toLE 32 S

/-- Pure Ed25519 signature (64 bytes) — `crypto_sign_detached` with sk = seed ‖ pk. -/
def sign (sha512 : Bytes → Bytes) (seed msg : Bytes) : Bytes := signWith sha512 [] seed msg

/-- Ed25519ph as produced by libsodium's multi-part API
    (`crypto_sign_init/update/final_create`): PH(M) = SHA-512(M), dom2(1, ""). -/
def signPh (sha512 : Bytes → Bytes) (seed msg : Bytes) : Bytes :=
  signWith sha512 dom2Ph seed (sha512 msg)

/-! ## Verification exactly as libsodium does it (crypto_sign/ed25519/ref10/open.c) -/

/--
  The final acceptance test of libsodium, as a predicate on the true difference
  Δ = R - ([S]B - [h]A):   Δ has order dividing 4, i.e.  x(Δ) = 0  ∨  y(Δ) = 0
  (the four points (0,1), (0,-1), (±sqrt(-1), 0)).

  Why this and not "Δ has small order" (order dividing 8), which is what the
  source appears to intend (`return ge25519_has_small_order(&check) - 1`):

  * `ge25519_double_scalarmult_vartime` returns [S]B - [h]A in P2 coordinates
    (X : Y : Z); `ge25519_p2_to_p3` turns it into P3 by setting T := X·Y while
    keeping Z, i.e. T is too large by a factor Z (a valid P3 needs T = X·Y/Z).
  * `ge25519_p3_sub(&check, &expected_r, &sb_ah)` then evaluates the unified
    addition law with that T.  With R = (x1, y1) affine and [S]B-[h]A = (x2, y2),
    k = x1·y1·x2·y2, the affine coordinates of the computed `check` are
        x = (x1·y2 - y1·x2) / (1 - d·k·Z)      y = (y1·y2 - x1·x2) / (1 + d·k·Z)
    whereas the true Δ has the same numerators over (1 ∓ d·k).
  * `ge25519_has_small_order(check)` tests  x = 0 ∨ y = 0 ∨ y·sqrt(-1) = ±x
    (and, separately, its last disjunct compares against the projective -X
    instead of the affine -x).  The first two tests only depend on the
    numerators, so they are exactly x(Δ) = 0 and y(Δ) = 0.  The order-8 tests
    involve the spoiled denominators and succeed only if the (essentially
    random) Z of the double-scalar-multiplication output hits one specific value
    (probability ≈ 2^-255); they are modelled as never succeeding.

  Consequence (confirmed against the compiled library): a signature whose
  difference Δ is one of the four points of order 8 is REJECTED, although
  `ge25519_has_small_order` is meant to accept it.  For honestly generated
  signatures Δ is the identity and nothing changes.
-/
def libsodiumCheckAccepts (Δ : Point) : Bool :=
  let (x, y) := toAffine Δ
  x == 0 || y == 0

/--
  Verification with an explicit domain-separation prefix.  Mirrors
  `_crypto_sign_ed25519_verify_detached` (default build, no ED25519_COMPAT):
   1. reject if S ≥ L;
   2. reject if pk is a non-canonical encoding (y ≥ p);
   3. reject if pk does not decode, or A has small order;
   4. reject if R = sig[0..32] does not decode (lax decoding: a non-canonical y is
      reduced mod p, *not* rejected) or has small order;
   5. h = SHA-512(dom ‖ R ‖ pk ‖ M) mod L, with the bytes of R and pk as given;
   6. accept iff Δ = R - ([S]B - [h]A) passes `libsodiumCheckAccepts`
      (Δ has order dividing 4 — see there for why not "order dividing 8").
-/
def verifyStrictWith (sha512 : Bytes → Bytes) (dom : Bytes) (sig msg pk : Bytes) : Bool :=
  if sig.length != 64 || pk.length != 32 then false
  else
    let Rb := sig.take 32
    let S := le (sig.drop 32)
    if S ≥ L then false
    else if !isCanonicalY pk then false
    else
      match decodeLax pk with
      | none => false
      | some A =>
        if isSmallOrder A then false
        else
          match decodeLax Rb with
          | none => false
          | some R =>
            if isSmallOrder R then false
            else
              let h := le (sha512 (dom ++ Rb ++ pk ++ msg)) % L
              let sbAh := sub (scalarMult S basePoint) (scalarMult h A)
              libsodiumCheckAccepts (sub R sbAh)

/-- `crypto_sign_verify_detached(sig, msg, pk) == 0`. -/
def verifyStrict (sha512 : Bytes → Bytes) (sig msg pk : Bytes) : Bool :=
  verifyStrictWith sha512 [] sig msg pk

/-- `crypto_sign_final_verify` (Ed25519ph, multi-part API). -/
def verifyStrictPh (sha512 : Bytes → Bytes) (sig msg pk : Bytes) : Bool :=
  verifyStrictWith sha512 dom2Ph sig (sha512 msg) pk

/-- RFC 8032 §5.1.7 verification (cofactored form [8][S]B = [8]R + [8][k]A, strict
    decoding of R and A, S < L) — for reference; libsodium is stricter. -/
def verifyRfc (sha512 : Bytes → Bytes) (sig msg pk : Bytes) : Bool :=
  if sig.length != 64 || pk.length != 32 then false
  else
    let Rb := sig.take 32
    let S := le (sig.drop 32)
    match decodeRfc Rb, decodeRfc pk with
    | some R, some A =>
      if S ≥ L then false
      else
        let k := le (sha512 (Rb ++ pk ++ msg)) % L
        pointEq (mulByCofactor (scalarMult S basePoint))
                (add (mulByCofactor R) (mulByCofactor (scalarMult k A)))
    | _, _ => false

/-! ## Ed25519 → Curve25519 key conversion -/

/--
  `crypto_sign_ed25519_pk_to_curve25519`: `none` ↔ return -1.
  The public key is decoded laxly (no canonicity check), rejected when it has
  small order or fails libsodium's main-subgroup test, then mapped by the
  birational map u = (1 + y) / (1 - y) (RFC 7748 §4.1).
-/
def pkToCurve25519 (pk : Bytes) : Option Bytes :=
  match decodeLax pk with
  | none => none
  | some A =>
    if isSmallOrder A || !libsodiumIsOnMainSubgroup A then none
    else
      let (_, y) := toAffine A
      some (toLE 32 (div (F25519.add 1 y) (F25519.sub 1 y)))

/-- `crypto_sign_ed25519_sk_to_curve25519`: the clamped lower half of SHA-512(seed). -/
def skToCurve25519 (sha512 : Bytes → Bytes) (seed : Bytes) : Bytes :=
  toLE 32 (clamp (sha512 (seed.take 32)))

/-! ## crypto_core_ed25519 point API -/

/-- `crypto_core_ed25519_is_valid_point`: canonical, on the curve, not of small
    order, and passing libsodium's main-subgroup test. -/
def isValidPoint (b : Bytes) : Bool :=
  isCanonicalY b &&
  match decodeLax b with
  | none => false
  | some P => !isSmallOrder P && libsodiumIsOnMainSubgroup P

/-- `crypto_core_ed25519_add`: `none` ↔ -1 (an operand is not on the curve).
    Non-canonical and mixed-order operands are accepted. -/
def coreAdd (a b : Bytes) : Option Bytes :=
  match decodeLax a, decodeLax b with
  | some P, some Q => some (encode (add P Q))
  | _, _ => none

/-- `crypto_core_ed25519_sub`. -/
def coreSub (a b : Bytes) : Option Bytes :=
  match decodeLax a, decodeLax b with
  | some P, some Q => some (encode (sub P Q))
  | _, _ => none

/-! ## crypto_scalarmult_ed25519 -/

/-- Scalar clamping of `crypto_scalarmult_ed25519`: k[0] &= 248, k[31] |= 64, k[31] &= 127. -/
def clampScalarmult (n : Bytes) : Nat := clamp n

/-- Shared body: validity checks on P as in `_crypto_scalarmult_ed25519`, then
    Q = [k]P; `none` ↔ -1 (invalid P, Q = identity, or n is the all-zero string). -/
def scalarmultCore (k : Nat) (n p' : Bytes) : Option Bytes :=
  if !isCanonicalY p' then none
  else
    match decodeLax p' with
    | none => none
    | some P =>
      if isSmallOrder P || !libsodiumIsOnMainSubgroup P then none
      else
        let Q := scalarMult k P
        if pointEq Q identity || le (n.take 32) == 0 then none else some (encode Q)

/-- `crypto_scalarmult_ed25519(q, n, p)`. -/
def scalarmult (n p' : Bytes) : Option Bytes := scalarmultCore (clamp n) n p'

/-- `crypto_scalarmult_ed25519_noclamp(q, n, p)`: scalar = n mod 2^255. -/
def scalarmultNoclamp (n p' : Bytes) : Option Bytes :=
  scalarmultCore (le (n.take 32) % 2 ^ 255) n p'

def scalarmultBaseCore (k : Nat) (n : Bytes) : Option Bytes :=
  let Q := scalarMult k basePoint
  if pointEq Q identity || le (n.take 32) == 0 then none else some (encode Q)

/-- `crypto_scalarmult_ed25519_base(q, n)`. -/
def scalarmultBase (n : Bytes) : Option Bytes := scalarmultBaseCore (clamp n) n

/-- `crypto_scalarmult_ed25519_base_noclamp(q, n)`. -/
def scalarmultBaseNoclamp (n : Bytes) : Option Bytes :=
  scalarmultBaseCore (le (n.take 32) % 2 ^ 255) n

end Sodium.Spec.Ed25519
