/-
  Hashing to edwards25519 (RFC 9380) as an executable reference specification:
  expand_message_xmd (§5.3.1, §5.3.3), hash_to_field (§5.2), the Elligator 2 map
  for curve25519 (§6.7.1) composed with the rational map to edwards25519
  (§6.8.1, Appendix D.1), cofactor clearing (§7), and the suites
      edwards25519_XMD:SHA-512_ELL2_NU_ / _RO_            (§8.5)
  plus the same constructions instantiated with SHA-256, as libsodium offers.

  The hash function is a parameter everywhere: `hash : Bytes → Bytes` with
  output size `bInBytes` and input block size `sInBytes`
  (SHA-512: 64 / 128, SHA-256: 32 / 64).

  libsodium entry points specified here:
    crypto_core_ed25519_from_uniform                  ↔ `fromUniform`
    crypto_core_ed25519_from_string   (hash_alg)      ↔ `fromStringSha512` / `fromStringSha256`
    crypto_core_ed25519_from_string_ro(hash_alg)      ↔ `fromStringRoSha512` / `fromStringRoSha256`
    crypto_core_ristretto255_from_string[_ro]         ↔ `ristrettoFromStringSha512` / `…Sha256`
-/
import SodiumModel.Basic
import SodiumModel.Spec.Field25519
import SodiumModel.Spec.Ed25519
import SodiumModel.Spec.Ristretto255

namespace Sodium.Spec.H2c

open Sodium.Spec.F25519

abbrev Point := Ed25519.Point

/-! ## expand_message_xmd (RFC 9380 §5.3.1) -/

/-- ASCII bytes of a string literal. -/
def ascii (s : String) : Bytes := s.toUTF8.toList

/-- §5.3.3: a DST longer than 255 bytes is replaced by H("H2C-OVERSIZE-DST-" ‖ DST). -/
def effectiveDst (hash : Bytes → Bytes) (dst : Bytes) : Bytes :=
  if dst.length > 255 then hash (ascii "H2C-OVERSIZE-DST-" ++ dst) else dst

/-- b_i = H(strxor(b_0, b_(i-1)) ‖ I2OSP(i, 1) ‖ DST_prime) for i = idx, idx+1, …
    (`n` further blocks), concatenated.  `prev` is b_(idx-1). -/
def xmdBlocks (hash : Bytes → Bytes) (b0 dstPrime : Bytes) : (n idx : Nat) → (prev : Bytes) → Bytes
  | 0, _, _ => []
  | n + 1, idx, prev =>
    let bi := hash (xorBytes b0 prev ++ toBE 1 idx ++ dstPrime)
    bi ++ xmdBlocks hash b0 dstPrime n (idx + 1) bi

/--
  Common body of expand_message_xmd.  `dstPrime0` is the DST_prime used in
  msg_prime (for b_0); `dstPrimeOf b0` is the DST_prime used in b_1 … b_ell.
  In RFC 9380 both are the same string.
-/
def xmdCore (hash : Bytes → Bytes) (bInBytes sInBytes : Nat) (msg : Bytes)
    (dstPrime0 : Bytes) (dstPrimeOf : Bytes → Bytes) (lenInBytes : Nat) : Bytes :=
  let ell := (lenInBytes + bInBytes - 1) / bInBytes
  if bInBytes == 0 || ell > 255 || lenInBytes > 65535 then []
  else
    let zPad := zeros sInBytes                                   -- Z_pad = I2OSP(0, s_in_bytes)
    let libStr := toBE 2 lenInBytes                              -- l_i_b_str = I2OSP(len_in_bytes, 2)
    let msgPrime := zPad ++ msg ++ libStr ++ toBE 1 0 ++ dstPrime0
    let b0 := hash msgPrime
    let dstPrime := dstPrimeOf b0
    let b1 := hash (b0 ++ toBE 1 1 ++ dstPrime)
    let uniformBytes := b1 ++ xmdBlocks hash b0 dstPrime (ell - 1) 2 b1
    uniformBytes.take lenInBytes

/--
  expand_message_xmd(msg, DST, len_in_bytes) of RFC 9380 §5.3.1 for a hash H with
  output size `bInBytes` and block size `sInBytes`, including the §5.3.3 rule for
  DSTs longer than 255 bytes.
  The RFC aborts when ell > 255 or len_in_bytes > 65535; in that case this
  function returns the empty string.
-/
def expandMessageXmd (hash : Bytes → Bytes) (bInBytes sInBytes : Nat)
    (msg dst : Bytes) (lenInBytes : Nat) : Bytes :=
  let dst := effectiveDst hash dst
  let dstPrime := dst ++ toBE 1 dst.length                       -- DST_prime = DST ‖ I2OSP(len(DST), 1)
  xmdCore hash bInBytes sInBytes msg dstPrime (fun _ => dstPrime) lenInBytes

/--
  expand_message_xmd as implemented by libsodium's `core_h2c_string_to_hash`.
  Identical to `expandMessageXmd` when the DST is at most 255 bytes long.

  For an oversize DST libsodium stores H("H2C-OVERSIZE-DST-" ‖ DST) in the buffer
  `u0`, lets `ctx` point to it, and later overwrites the same buffer with b_0.
  Hence msg_prime (and b_0) are computed with the correct hashed DST, but
  b_1 … b_ell are computed with  DST_prime = b_0 ‖ I2OSP(b_in_bytes, 1)  instead of
  H("H2C-OVERSIZE-DST-" ‖ DST) ‖ I2OSP(b_in_bytes, 1).  This deviates from RFC 9380
  §5.3.3 (upstream behaviour, frozen in test/default/core_ed25519_h2c.exp).
-/
def expandMessageXmdLibsodium (hash : Bytes → Bytes) (bInBytes sInBytes : Nat)
    (msg dst : Bytes) (lenInBytes : Nat) : Bytes :=
  let oversize := dst.length > 255
  let dst := effectiveDst hash dst
  let dstPrime := dst ++ toBE 1 dst.length
  xmdCore hash bInBytes sInBytes msg dstPrime
    (fun b0 => if oversize then b0 ++ toBE 1 bInBytes else dstPrime) lenInBytes

/-! ## hash_to_field (RFC 9380 §5.2) for GF(2^255-19): m = 1, L = 48 -/

/-- L = ceil((ceil(log2 p) + k) / 8) = 48 for k = 128. -/
def fieldL : Nat := 48

/-- u_i = OS2IP(uniform_bytes[48·i .. 48·i+48]) mod p, i = 0 .. count-1. -/
def fieldElems (uniform : Bytes) : (count : Nat) → List Nat
  | 0 => []
  | n + 1 => be (uniform.take fieldL) % p :: fieldElems (uniform.drop fieldL) n

/-- The type of expand_message: msg → DST → len_in_bytes → uniform bytes. -/
abbrev Expander := Bytes → Bytes → Nat → Bytes

def hashToField (expand : Expander) (msg dst : Bytes) (count : Nat) : List Nat :=
  fieldElems (expand msg dst (count * fieldL)) count

/-! ## Elligator 2 (RFC 9380 §6.7.1) for curve25519: J = 486662, K = 1, Z = 2 -/

def montA : Nat := 486662

/-- g(x) = x³ + A·x² + x. -/
def montRhs (x : Nat) : Nat := add (add (mul (sqr x) x) (mul montA (sqr x))) x

/--
  map_to_curve_elligator2 onto the Montgomery curve v² = u³ + 486662·u² + u.
  Returns (s, t, gx1_is_square).
    x1 = -A / (1 + 2u²)   (1 + 2u² ≠ 0 always, since -1/2 is a non-square)
    if gx1 square: x = x1, y = sqrt(gx1) with sgn0(y) = 1
    else:          x = x2 = -x1 - A, y = sqrt(gx2) with sgn0(y) = 0
-/
def elligator2 (u : Nat) : Nat × Nat × Bool :=
  let x1 := neg (mul montA (inv (add 1 (mul 2 (sqr u)))))
  let x1 := if x1 == 0 then neg montA else x1
  let gx1 := montRhs x1
  let x2 := sub (neg x1) montA
  let gx2 := montRhs x2
  let e := isSquare gx1
  let x := if e then x1 else x2
  let y := (sqrt (if e then gx1 else gx2)).getD 0
  let y := if isNegative y != e then neg y else y
  (x, y, e)

/-- sqrt(-486664) with sgn0 = 0 (RFC 9380 §6.8.1)
    = 6853475219497561581579357271197624642482790079785650197046958215289687604742 -/
def sqrtNeg486664 : Nat :=
  6853475219497561581579357271197624642482790079785650197046958215289687604742

/-- Rational map curve25519 → edwards25519 (RFC 9380 Appendix D.1), affine:
    (v, w) = (sqrt(-486664)·s/t, (s-1)/(s+1)); exceptional case (s+1)·t = 0 ↦ (0, 1). -/
def montToEdwards (s t : Nat) : Nat × Nat :=
  let den := mul (add s 1) t
  if den == 0 then (0, 1)
  else
    let dinv := inv den
    (mul (mul (mul sqrtNeg486664 s) (add s 1)) dinv,     -- c·s/t     = c·s·(s+1)/((s+1)·t)
     mul (mul (sub s 1) t) dinv)                         -- (s-1)/(s+1) = (s-1)·t/((s+1)·t)

/-- map_to_curve_elligator2_edwards25519 (RFC 9380 §6.8.2). -/
def mapToCurveElligator2Edwards25519 (u : Nat) : Point :=
  let (s, t, _) := elligator2 u
  let (v, w) := montToEdwards s t
  Ed25519.ofAffine v w

/-- clear_cofactor: h_eff = 8 (RFC 9380 §8.5). -/
def clearCofactor (P : Point) : Point := Ed25519.mulByCofactor P

/-! ## encode_to_curve / hash_to_curve (RFC 9380 §3), returning the 32-byte encoding -/

/-- Nonuniform encoding (…_NU_) for a given expand_message: one field element. -/
def encodeToCurveWith (expand : Expander) (msg dst : Bytes) : Bytes :=
  match hashToField expand msg dst 1 with
  | [u] => Ed25519.encode (clearCofactor (mapToCurveElligator2Edwards25519 u))
  | _ => []

/-- Random-oracle encoding (…_RO_) for a given expand_message: two field elements,
    Q0 + Q1, cofactor cleared. -/
def hashToCurveWith (expand : Expander) (msg dst : Bytes) : Bytes :=
  match hashToField expand msg dst 2 with
  | [u0, u1] =>
    let Q0 := mapToCurveElligator2Edwards25519 u0
    let Q1 := mapToCurveElligator2Edwards25519 u1
    Ed25519.encode (clearCofactor (Ed25519.add Q0 Q1))
  | _ => []

/-- encode_to_curve of RFC 9380 with expand_message_xmd over `hash`
    (edwards25519_XMD:SHA-512_ELL2_NU_ for SHA-512, b = 64, s = 128). -/
def encodeToCurve (hash : Bytes → Bytes) (bInBytes sInBytes : Nat) (msg dst : Bytes) : Bytes :=
  encodeToCurveWith (expandMessageXmd hash bInBytes sInBytes) msg dst

/-- hash_to_curve of RFC 9380 with expand_message_xmd over `hash`
    (edwards25519_XMD:SHA-512_ELL2_RO_ for SHA-512, b = 64, s = 128). -/
def hashToCurve (hash : Bytes → Bytes) (bInBytes sInBytes : Nat) (msg dst : Bytes) : Bytes :=
  hashToCurveWith (expandMessageXmd hash bInBytes sInBytes) msg dst

/-! ## libsodium API

  All `fromString*` functions use `expandMessageXmdLibsodium`; they equal the RFC
  9380 suites whenever `ctx` is at most 255 bytes long.  `ctx` is a C string in
  libsodium (no NUL bytes; NULL ↦ empty).  The return value is always 0.
-/

/-- `crypto_core_ed25519_from_string(p, ctx, msg, msg_len, crypto_core_ed25519_H2CSHA512)`:
    edwards25519_XMD:SHA-512_ELL2_NU_ with DST = ctx. -/
def fromStringSha512 (sha512 : Bytes → Bytes) (ctx msg : Bytes) : Bytes :=
  encodeToCurveWith (expandMessageXmdLibsodium sha512 64 128) msg ctx

/-- `crypto_core_ed25519_from_string_ro(…, H2CSHA512)`: edwards25519_XMD:SHA-512_ELL2_RO_. -/
def fromStringRoSha512 (sha512 : Bytes → Bytes) (ctx msg : Bytes) : Bytes :=
  hashToCurveWith (expandMessageXmdLibsodium sha512 64 128) msg ctx

/-- `crypto_core_ed25519_from_string(…, H2CSHA256)` (non-standard suite: XMD with SHA-256). -/
def fromStringSha256 (sha256 : Bytes → Bytes) (ctx msg : Bytes) : Bytes :=
  encodeToCurveWith (expandMessageXmdLibsodium sha256 32 64) msg ctx

/-- `crypto_core_ed25519_from_string_ro(…, H2CSHA256)`. -/
def fromStringRoSha256 (sha256 : Bytes → Bytes) (ctx msg : Bytes) : Bytes :=
  hashToCurveWith (expandMessageXmdLibsodium sha256 32 64) msg ctx

/--
  `crypto_core_ed25519_from_uniform(p, r)` for 32 bytes r (libsodium's legacy map):
  bit 255 of r selects the sign of the Edwards x-coordinate, the remaining 255
  bits (reduced mod p) go through Elligator 2; the cofactor is cleared.
-/
def fromUniform (r : Bytes) : Bytes :=
  let n := le (r.take 32)
  let xSign := n / 2 ^ 255 % 2 == 1
  let (s, t, _) := elligator2 ((n % 2 ^ 255) % p)
  let (v, w) := montToEdwards s t
  let v := if isNegative v != xSign then neg v else v
  Ed25519.encode (clearCofactor (Ed25519.ofAffine v w))

/-- `ge25519_from_hash` (internal to libsodium): 64 little-endian bytes reduced mod p,
    then map_to_curve and cofactor clearing. -/
def fromHash64 (h : Bytes) : Bytes :=
  Ed25519.encode (clearCofactor (mapToCurveElligator2Edwards25519 (le (h.take 64) % p)))

/-- `crypto_core_ristretto255_from_string[_ro](…, H2CSHA512)`:
    ristretto255 one-way map applied to expand_message_xmd(msg, ctx, 64)
    (hash_to_ristretto255, RFC 9380 Appendix B), with libsodium's expander. -/
def ristrettoFromStringSha512 (sha512 : Bytes → Bytes) (ctx msg : Bytes) : Bytes :=
  Ristretto.fromUniform (expandMessageXmdLibsodium sha512 64 128 msg ctx 64)

/-- `crypto_core_ristretto255_from_string[_ro](…, H2CSHA256)`. -/
def ristrettoFromStringSha256 (sha256 : Bytes → Bytes) (ctx msg : Bytes) : Bytes :=
  Ristretto.fromUniform (expandMessageXmdLibsodium sha256 32 64 msg ctx 64)

end Sodium.Spec.H2c
