/-
  Arithmetic modulo the group order L of edwards25519 / ristretto255 on
  little-endian byte strings (crypto_core_ed25519_scalar_* and, identically,
  crypto_core_ristretto255_scalar_*).

  All results are canonical 32-byte little-endian encodings of a value in [0, L).
-/
import SodiumModel.Basic

namespace Sodium.Spec.Scalar

/-- L = 2^252 + 27742317777372353535851937790883648493 (RFC 8032 §5.1). -/
def L : Nat := 2 ^ 252 + 27742317777372353535851937790883648493

/-- Encode a value (reduced mod L) as 32 little-endian bytes. -/
def encode (n : Nat) : Bytes := toLE 32 (n % L)

/-- `crypto_core_ed25519_scalar_reduce`: 64-byte little-endian integer mod L. -/
def reduce64 (b : Bytes) : Bytes := encode (le (b.take 64))

/-- `crypto_core_ed25519_scalar_is_canonical`: le b < L. -/
def isCanonical (b : Bytes) : Bool := le (b.take 32) < L

/-- `crypto_core_ed25519_scalar_mul`: x·y mod L (inputs are arbitrary 256-bit integers). -/
def mul (x y : Bytes) : Bytes := encode (le (x.take 32) * le (y.take 32))

/-- x + y mod L — the mathematical specification. -/
def add (x y : Bytes) : Bytes := encode (le (x.take 32) + le (y.take 32))

/-- `crypto_core_ed25519_scalar_negate`: -x mod L (exact for every 256-bit x). -/
def negate (x : Bytes) : Bytes := encode (L - le (x.take 32) % L)

/-- `crypto_core_ed25519_scalar_complement`: 1 - x mod L (exact for every 256-bit x). -/
def complement (x : Bytes) : Bytes := encode (1 + (L - le (x.take 32) % L))

/-- x - y mod L — the mathematical specification. -/
def sub (x y : Bytes) : Bytes := encode (le (x.take 32) + (L - le (y.take 32) % L))

/--
  `crypto_core_ed25519_scalar_add` exactly as implemented: the two operands are
  added as 32-byte integers (`sodium_add(x_, y_, 32)`), so the carry out of bit
  255 is dropped before the reduction:  ((x + y) mod 2^256) mod L.
  Coincides with `add` whenever x + y < 2^256, in particular for canonical
  operands.
-/
def addWrap (x y : Bytes) : Bytes := encode ((le (x.take 32) + le (y.take 32)) % 2 ^ 256)

/--
  `crypto_core_ed25519_scalar_sub` exactly as implemented: `addWrap x (negate y)`.
  Coincides with `sub` whenever x + (-y mod L) < 2^256, in particular for x < 2^255.
-/
def subWrap (x y : Bytes) : Bytes := addWrap x (negate y)

/-- Square-and-multiply modulo L; `fuel` bounds the exponent bit length. -/
def powLoop : (fuel : Nat) → (b e acc : Nat) → Nat
  | 0, _, _, acc => acc
  | fuel + 1, b, e, acc =>
    if e = 0 then acc
    else powLoop fuel (b * b % L) (e / 2) (if e % 2 = 1 then acc * b % L else acc)

/-- a^e mod L. -/
def pow (a e : Nat) : Nat := powLoop (e.log2 + 1) (a % L) e 1

/-- Multiplicative inverse mod L by Fermat (x^(L-2)); 0 ↦ 0.  This is the output
    buffer of `crypto_core_ed25519_scalar_invert` for every input. -/
def invert (x : Bytes) : Bytes := encode (pow (le (x.take 32)) (L - 2))

/-- `crypto_core_ed25519_scalar_invert` with its return code: `none` ↔ -1, which is
    returned exactly when the input is the all-zero string (note: *not* when the
    input is a non-zero multiple of L). -/
def invertChecked (x : Bytes) : Option Bytes :=
  if le (x.take 32) == 0 then none else some (invert x)

end Sodium.Spec.Scalar
