/-
  AES-256-GCM (NIST SP 800-38D) — executable reference specification, core Lean only.

  Blocks are 16-byte `Bytes`; bit 0 of a block is the most significant bit of its first byte
  (SP 800-38D §5.2.1 / §6.3).  For arithmetic a block is held as two big-endian 64-bit halves.
-/
import SodiumModel.Basic
import SodiumModel.Spec.Aes

namespace Sodium.Spec.Gcm

open Sodium.Spec.Aes (chunks)

/-! ### Blocks as 128-bit strings -/

/-- A 128-bit block x_0 x_1 … x_127: `hi` holds x_0..x_63 (x_0 = msb), `lo` holds x_64..x_127. -/
structure Block where
  hi : UInt64
  lo : UInt64

def be64 (b : Bytes) : UInt64 := b.foldl (fun acc x => (acc <<< 8) ||| x.toUInt64) 0

def Block.ofBytes (b : Bytes) : Block := ⟨be64 (b.take 8), be64 ((b.drop 8).take 8)⟩
def Block.toBytes (x : Block) : Bytes := toBE 8 x.hi.toNat ++ toBE 8 x.lo.toNat

def Block.xor (a b : Block) : Block := ⟨a.hi ^^^ b.hi, a.lo ^^^ b.lo⟩

/-- bit x_i, 0 ≤ i < 128 (leftmost bit first) -/
def Block.bit (x : Block) (i : Nat) : Bool :=
  if i < 64 then (x.hi >>> (63 - i).toUInt64) &&& 1 != 0
  else (x.lo >>> (127 - i).toUInt64) &&& 1 != 0

/-- rightmost bit x_127 -/
def Block.lsb (x : Block) : Bool := x.lo &&& 1 != 0

/-- `x >> 1` on the 128-bit string (towards higher bit indices) -/
def Block.shr1 (x : Block) : Block := ⟨x.hi >>> 1, (x.lo >>> 1) ||| (x.hi <<< 63)⟩

/-- §6.3: R = 11100001 ‖ 0^120 -/
def R : Block := ⟨0xe100000000000000, 0⟩

/-! ### Multiplication in GF(2^128) (SP 800-38D §6.3, Algorithm 1) -/

/-- Algorithm 1, steps 2–3: Z_0 = 0, V_0 = Y;
    Z_{i+1} = Z_i ⊕ V_i if x_i = 1 else Z_i;
    V_{i+1} = V_i >> 1 if LSB(V_i) = 0 else (V_i >> 1) ⊕ R.   Returns Z_128. -/
def Block.mul (x y : Block) : Block :=
  let (z, _) := (List.range 128).foldl (init := ((⟨0, 0⟩ : Block), y)) fun (z, v) i =>
    let z' := if x.bit i then z.xor v else z
    let v' := if v.lsb then v.shr1.xor R else v.shr1
    (z', v')
  z

/-- X • Y on 16-byte blocks. -/
def gmul (x y : Bytes) : Bytes := ((Block.ofBytes x).mul (Block.ofBytes y)).toBytes

/-! ### GHASH (§6.4, Algorithm 2) -/

/-- Y_0 = 0^128, Y_i = (Y_{i-1} ⊕ X_i) • H; returns Y_m.  `data` is a whole number of blocks. -/
def ghash (h : Bytes) (data : Bytes) : Bytes :=
  let H := Block.ofBytes h
  let y := (chunks 16 data).foldl (init := (⟨0, 0⟩ : Block)) fun y x =>
    (y.xor (Block.ofBytes x)).mul H
  y.toBytes

/-! ### GCTR (§6.5, Algorithm 3) -/

/-- §6.2 inc_32: increment the rightmost 32 bits (big-endian) modulo 2^32. -/
def inc32 (x : Bytes) : Bytes := x.take 12 ++ toBE 4 (be (x.drop 12) + 1)

/-- Algorithm 3 steps 2–6 on the block list X_1 … X_n: CB_1 = ICB, CB_i = inc_32(CB_{i-1});
    Y_i = X_i ⊕ CIPH_K(CB_i), the last (possibly partial) block using the leading bytes of
    CIPH_K(CB_n)  (`xorBytes` truncates to the shorter argument). -/
def gctrBlocks (ciph : Bytes → Bytes) : Bytes → List Bytes → List Bytes
  | _, [] => []
  | cb, x :: xs => xorBytes x (ciph cb) :: gctrBlocks ciph (inc32 cb) xs

/-- GCTR_K(ICB, X) = Y_1 ‖ … ‖ Y_n. -/
def gctr (ciph : Bytes → Bytes) (icb : Bytes) (x : Bytes) : Bytes :=
  (gctrBlocks ciph icb (chunks 16 x)).flatten

/-! ### GCM-AE / GCM-AD (§7.1 Algorithm 4, §7.2 Algorithm 5) with AES-256, 96-bit IV, t = 128 -/

/-- 0^s with s the least number of bytes that pads `n` bytes to a multiple of 16 -/
def pad16 (n : Nat) : Bytes := zeros ((16 - n % 16) % 16)

/-- §7.1 steps 4–5: S = GHASH_H(A ‖ 0^v ‖ C ‖ 0^u ‖ [len(A)]_64 ‖ [len(C)]_64) (lengths in bits) -/
def authBlock (h ad ct : Bytes) : Bytes :=
  ghash h (ad ++ pad16 ad.length ++ ct ++ pad16 ct.length
           ++ toBE 8 (8 * ad.length) ++ toBE 8 (8 * ct.length))

/-- AES-256-GCM authenticated encryption (Algorithm 4): returns (C, T). -/
def encrypt (key nonce ad msg : Bytes) : Bytes × Bytes :=
  let ciph := Aes.cipher (Aes.keyExpansion256 key)
  let h := ciph (zeros 16)                          -- 1. H = CIPH_K(0^128)
  let j0 := nonce ++ [0, 0, 0, 1]                   -- 2. J_0 = IV ‖ 0^31 ‖ 1   (len(IV) = 96)
  let ct := gctr ciph (inc32 j0) msg                -- 3. C = GCTR_K(inc_32(J_0), P)
  let s := authBlock h ad ct                        -- 4–5.
  let tag := gctr ciph j0 s                         -- 6. T = MSB_t(GCTR_K(J_0, S)), t = 128
  (ct, tag)

/-- AES-256-GCM authenticated decryption (Algorithm 5): `none` is FAIL. -/
def decrypt (key nonce ad ct tag : Bytes) : Option Bytes :=
  let ciph := Aes.cipher (Aes.keyExpansion256 key)
  let h := ciph (zeros 16)
  let j0 := nonce ++ [0, 0, 0, 1]
  let msg := gctr ciph (inc32 j0) ct
  let s := authBlock h ad ct
  let tag' := gctr ciph j0 s
  if tag = tag' then some msg else none

end Sodium.Spec.Gcm
