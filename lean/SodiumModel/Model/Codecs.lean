import SodiumModel.Basic
/-
  Model of sodium/codecs.c: bin2hex, hex2bin, bin2base64, base642bin, written to the structure
  of the C code. `unsigned int` = UInt32, `unsigned char` = UInt8, `size_t` quantities that are
  only counted (positions, lengths) are `Nat`; the two `size_t` comparisons that can overflow
  (`bin_len >= SIZE_MAX / 2`, `hex_maxlen <= bin_len * 2U`) are modelled in UInt64.
  The ignore set: `none` = NULL pointer, `some s` = C string `s` (no NUL inside). Every
  `strchr(ignore, c)` test is guarded by `c != 0` (fix for DESIGN §4-O1: before the fix
  `strchr(s, 0)` found the terminator, so a NUL byte in the text was silently skipped).
-/
namespace Sodium.Model

/-- `ignore != NULL && c != 0 && strchr(ignore, c) != NULL` -/
def inIgnore (ign : Option Bytes) (c : UInt8) : Bool :=
  match ign with
  | none => false
  | some s => c != 0 && s.contains c

/-! ### bin2hex -/

/-- `(unsigned char) (87U + v + (((v - 10U) >> 8) & ~38U))` for a nibble `v` -/
def hexChar (v : UInt32) : UInt8 := ((87 : UInt32) + v + (((v - 10) >>> 8) &&& ~~~(38 : UInt32))).toUInt8

/-- the two characters written for one input byte: `hex[2i]` (high nibble), `hex[2i+1]` (low nibble) -/
def hexPair (x : UInt8) : Bytes :=
  let c : UInt32 := x.toUInt32 &&& 0xf
  let b : UInt32 := x.toUInt32 >>> 4
  let w : UInt32 := ((hexChar c).toUInt32 <<< 8) ||| (hexChar b).toUInt32
  [w.toUInt8, (w >>> 8).toUInt8]

inductive EncResult where
  | misuse
  | ok (written : Bytes)     -- the bytes written from offset 0 (including the NUL terminator / zero fill)
  deriving DecidableEq, Repr

def sodium_bin2hex (hexMaxlen : UInt64) (bin : Bytes) : EncResult :=
  let n := UInt64.ofNat bin.length
  if n ≥ (0xFFFFFFFFFFFFFFFF : UInt64) / 2 ∨ hexMaxlen ≤ n * 2 then .misuse
  else .ok (bin.flatMap hexPair ++ [0])

/-! ### hex2bin -/

/-- digit classification exactly as computed in the loop body; returns `(c_num0 | c_alpha0, c_val)` -/
def hexClassify (c : UInt8) : UInt8 × UInt8 :=
  let c_num : UInt8 := c ^^^ 48
  let c_num0 : UInt8 := ((c_num.toUInt32 - 10) >>> 8).toUInt8
  let c_alpha : UInt8 := ((c.toUInt32 &&& ~~~(32 : UInt32)) - 55).toUInt8
  let c_alpha0 : UInt8 := (((c_alpha.toUInt32 - 10) ^^^ (c_alpha.toUInt32 - 16)) >>> 8).toUInt8
  (c_num0 ||| c_alpha0, (c_num0 &&& c_num) ||| (c_alpha0 &&& c_alpha))

structure HexLoop where
  ret : Int32          -- 0 or -1 (capacity exceeded)
  pos : Nat            -- hex_pos when the loop stops
  bin : Bytes          -- bytes written so far, in order
  state : Bool         -- `state != 0`: a high nibble is pending
  deriving DecidableEq, Repr

/-- the `while (hex_pos < hex_len)` loop; `bin` accumulates in reverse -/
def hexLoop (cap : Nat) (ign : Option Bytes) : Bytes → Nat → Bytes → UInt8 → Bool → HexLoop
  | [], pos, binRev, _, st => ⟨0, pos, binRev.reverse, st⟩
  | c :: rest, pos, binRev, cAcc, st =>
    let cl := hexClassify c
    if cl.1 = 0 then
      if !st && inIgnore ign c then hexLoop cap ign rest (pos + 1) binRev cAcc st
      else ⟨0, pos, binRev.reverse, st⟩                       -- break
    else if binRev.length ≥ cap then ⟨-1, pos, binRev.reverse, st⟩   -- ERANGE, break
    else if !st then hexLoop cap ign rest (pos + 1) binRev (cl.2 * 16) true
    else hexLoop cap ign rest (pos + 1) ((cAcc ||| cl.2) :: binRev) cAcc false

structure DecResult where
  rc : Int32
  binLen : Nat          -- `*bin_len`
  endPos : Nat          -- `*hex_end - hex` / `*b64_end - b64` (meaningful only when the end pointer is requested)
  written : Bytes       -- bytes stored into `bin[0 ..]` (may be non-empty even when rc = -1)
  deriving DecidableEq, Repr

def sodium_hex2bin (cap : Nat) (hex : Bytes) (ign : Option Bytes) (wantEnd : Bool) : DecResult :=
  let l := hexLoop cap ign hex 0 [] 0 false
  let pos := if l.state then l.pos - 1 else l.pos
  let ret : Int32 := if l.state then -1 else l.ret
  let binPos := if ret ≠ 0 then 0 else l.bin.length
  let ret2 : Int32 := if !wantEnd && pos ≠ hex.length then -1 else ret
  ⟨ret2, binPos, pos, l.bin⟩

/-! ### Base64 character maps (Pornin's branch-free comparisons over `unsigned int`) -/

def EQm (x y : UInt32) : UInt32 := ((((0 : UInt32) - (x ^^^ y)) >>> 8) &&& 0xFF) ^^^ 0xFF
def GTm (x y : UInt32) : UInt32 := ((y - x) >>> 8) &&& 0xFF
def GEm (x y : UInt32) : UInt32 := GTm y x ^^^ 0xFF
def LTm (x y : UInt32) : UInt32 := GTm y x
def LEm (x y : UInt32) : UInt32 := GEm y x

def b64_byte_to_char (x : UInt32) : UInt32 :=
  (LTm x 26 &&& (x + 65)) ||| (GEm x 26 &&& LTm x 52 &&& (x + (97 - 26))) |||
  (GEm x 52 &&& LTm x 62 &&& (x + (48 - 52))) ||| (EQm x 62 &&& 43) ||| (EQm x 63 &&& 47)

def b64_byte_to_urlsafe_char (x : UInt32) : UInt32 :=
  (LTm x 26 &&& (x + 65)) ||| (GEm x 26 &&& LTm x 52 &&& (x + (97 - 26))) |||
  (GEm x 52 &&& LTm x 62 &&& (x + (48 - 52))) ||| (EQm x 62 &&& 45) ||| (EQm x 63 &&& 95)

/-- the text byte is converted through `(unsigned char)` before it reaches the character map
    (second C15 fix: before it, a signed `char` ≥ 0x80 was sign-extended, and the EQ() macro, valid
    only for operands in 0..255, made every such byte decode as the sextet 63) -/
def charToU32 (c : UInt8) : UInt32 := c.toUInt32

def b64_char_to_byte (c : UInt32) : UInt32 :=
  let x := (GEm c 65 &&& LEm c 90 &&& (c - 65)) ||| (GEm c 97 &&& LEm c 122 &&& (c - (97 - 26))) |||
           (GEm c 48 &&& LEm c 57 &&& (c - (48 - 52))) ||| (EQm c 43 &&& 62) ||| (EQm c 47 &&& 63)
  x ||| (EQm x 0 &&& (EQm c 65 ^^^ 0xFF))

def b64_urlsafe_char_to_byte (c : UInt32) : UInt32 :=
  let x := (GEm c 65 &&& LEm c 90 &&& (c - 65)) ||| (GEm c 97 &&& LEm c 122 &&& (c - (97 - 26))) |||
           (GEm c 48 &&& LEm c 57 &&& (c - (48 - 52))) ||| (EQm c 45 &&& 62) ||| (EQm c 95 &&& 63)
  x ||| (EQm x 0 &&& (EQm c 65 ^^^ 0xFF))

/-- variant: 1 = original, 3 = original no padding, 5 = urlsafe, 7 = urlsafe no padding -/
def variantOk (v : UInt32) : Bool := (v &&& ~~~(0x6 : UInt32)) == 0x1
def isNoPad (v : UInt32) : Bool := (v &&& 0x2) != 0
def isUrlsafe (v : UInt32) : Bool := (v &&& 0x4) != 0

def encChar (v : UInt32) (x : UInt32) : UInt8 :=
  (if isUrlsafe v then b64_byte_to_urlsafe_char x else b64_byte_to_char x).toUInt8

def decChar (v : UInt32) (c : UInt8) : UInt32 :=
  if isUrlsafe v then b64_urlsafe_char_to_byte (charToU32 c) else b64_char_to_byte (charToU32 c)

/-! ### bin2base64 -/

/-- `b64_len` as computed in the function (also `sodium_base64_ENCODED_LEN - 1`) -/
def b64Len (v : UInt32) (binLen : Nat) : Nat :=
  let nibbles := binLen / 3
  let remainder := binLen - 3 * nibbles
  nibbles * 4 + (if remainder ≠ 0 then (if !isNoPad v then 4 else 2 + remainder / 2) else 0)

/-- `while (acc_len >= 6) { acc_len -= 6; emit((acc >> acc_len) & 0x3F); }` -/
def encDrain (v : UInt32) (acc : UInt32) : Nat → Bytes × Nat
  | n + 6 =>
    let r := encDrain v acc n
    (encChar v ((acc >>> (UInt32.ofNat n)) &&& 0x3F) :: r.1, r.2)
  | n => ([], n)

/-- the `while (bin_pos < bin_len)` loop followed by the `if (acc_len > 0)` tail -/
def encLoop (v : UInt32) : Bytes → UInt32 → Nat → Bytes
  | [], acc, accLen =>
    if accLen > 0 then [encChar v ((acc <<< (UInt32.ofNat (6 - accLen))) &&& 0x3F)] else []
  | b :: rest, acc, accLen =>
    let acc' := (acc <<< 8) + b.toUInt32
    let d := encDrain v acc' (accLen + 8)
    d.1 ++ encLoop v rest acc' d.2

/-- sodium_bin2base64(b64, b64_maxlen, bin, bin_len, variant): everything written into b64[0..b64_maxlen) -/
def sodium_bin2base64 (maxlen : Nat) (bin : Bytes) (v : UInt32) : EncResult :=
  if !variantOk v then .misuse else
  let bl := b64Len v bin.length
  if maxlen ≤ bl then .misuse else
  let chars := encLoop v bin 0 0
  -- `while (b64_pos < b64_len) '='`, then `do { 0 } while (b64_pos < b64_maxlen)`
  .ok (chars ++ List.replicate (bl - chars.length) 61 ++ List.replicate (maxlen - bl) 0)

/-! ### base642bin -/

structure B64Loop where
  ret : Int32
  pos : Nat
  bin : Bytes
  acc : UInt32
  accLen : Nat
  deriving DecidableEq, Repr

/-- main decoding loop -/
def b64Loop (v : UInt32) (cap : Nat) (ign : Option Bytes) : Bytes → Nat → Bytes → UInt32 → Nat → B64Loop
  | [], pos, binRev, acc, accLen => ⟨0, pos, binRev.reverse, acc, accLen⟩
  | c :: rest, pos, binRev, acc, accLen =>
    let d := decChar v c
    if d = 0xFF then
      if inIgnore ign c then b64Loop v cap ign rest (pos + 1) binRev acc accLen
      else ⟨0, pos, binRev.reverse, acc, accLen⟩
    else
      let acc' := (acc <<< 6) + d
      let accLen' := accLen + 6
      if accLen' ≥ 8 then
        if binRev.length ≥ cap then ⟨-1, pos, binRev.reverse, acc', accLen' - 8⟩     -- ERANGE, break
        else b64Loop v cap ign rest (pos + 1)
               (((acc' >>> (UInt32.ofNat (accLen' - 8))) &&& 0xFF).toUInt8 :: binRev) acc' (accLen' - 8)
      else b64Loop v cap ign rest (pos + 1) binRev acc' accLen'

/-- `_sodium_base642bin_skip_padding`: returns (rc, new position) -/
def skipPadding (ign : Option Bytes) : Bytes → Nat → Nat → Int32 × Nat
  | _, pos, 0 => (0, pos)
  | [], pos, _ + 1 => (-1, pos)                       -- ERANGE
  | c :: rest, pos, k + 1 =>
    if c = 61 then skipPadding ign rest (pos + 1) k
    else if !inIgnore ign c then (-1, pos)            -- EINVAL (position not advanced)
    else skipPadding ign rest (pos + 1) (k + 1)

/-- trailing `while (b64_pos < b64_len && strchr(ignore, b64[b64_pos]) != NULL) b64_pos++` (ignore non-NULL) -/
def skipIgnored (ign : Option Bytes) : Bytes → Nat → Nat
  | [], pos => pos
  | c :: rest, pos => if inIgnore ign c then skipIgnored ign rest (pos + 1) else pos

inductive B64Dec where
  | misuse
  | res (r : DecResult)
  deriving DecidableEq, Repr

def sodium_base642bin (cap : Nat) (b64 : Bytes) (ign : Option Bytes) (wantEnd : Bool) (v : UInt32) : B64Dec :=
  if !variantOk v then .misuse else
  let l := b64Loop v cap ign b64 0 [] 0 0
  let bad := l.accLen > 4 ∨ (l.acc &&& ((1 <<< (UInt32.ofNat l.accLen)) - 1)) ≠ 0
  let s1 : Int32 × Nat :=
    if bad then (-1, l.pos)
    else if l.ret = 0 ∧ !isNoPad v then skipPadding ign (b64.drop l.pos) l.pos (l.accLen / 2)
    else (l.ret, l.pos)
  let pos2 := if s1.1 ≠ 0 then s1.2 else (if ign.isSome then skipIgnored ign (b64.drop s1.2) s1.2 else s1.2)
  let binPos := if s1.1 ≠ 0 then 0 else l.bin.length
  let ret2 : Int32 := if !wantEnd && pos2 ≠ b64.length then -1 else s1.1
  .res ⟨ret2, binPos, pos2, l.bin⟩

end Sodium.Model
