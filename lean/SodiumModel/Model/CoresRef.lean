import SodiumModel.Basic
/-
  Models of the REFERENCE block/core functions of the stream ciphers, written after the C text:

  * `crypto_stream/chacha20/ref/chacha20_ref.c`: `chacha_keysetup`, `chacha_ivsetup`,
    `chacha_ietf_ivsetup`, `chacha20_encrypt_bytes` (one block = `chacha20_block`; the `for (;;)`
    loop with the zero-padded `tmp` for a short last block = `chacha20_encrypt_bytes`), and the four
    entry points `stream_ref`, `stream_ietf_ext_ref`, `stream_ref_xor_ic`, `stream_ietf_ext_ref_xor_ic`;
  * `crypto_core/salsa/ref/core_salsa_ref.c`: `crypto_core_salsa(out, in, k, c, rounds)`;
  * `crypto_core/hsalsa20/ref2/core_hsalsa20_ref2.c`: `crypto_core_hsalsa20`;
  * `crypto_core/hchacha20/core_hchacha20.c`: `crypto_core_hchacha20`.

  Conventions. `uint32_t` is `UInt32` (wrapping `+`, shifts by constants < 32). The sixteen locals
  `x0..x15` / `j0..j15` / `ctx->input[0..15]` are the sixteen fields of `W16`. A pointer `p + n` into a
  byte buffer is the list suffix `p.drop n`; a byte read past the end of a list reads as 0 (the
  specifications use the same convention, so no theorem needs a length hypothesis; the C callers always
  pass buffers of the full size). A `NULL`-able pointer is an `Option`. Core Lean only.
-/
namespace Sodium.Model.CoresRef

/-! ### `private/common.h` -/

/-- `rotl32`: `(x << b) | (x >> (32 - b))` -/
@[inline] def ROTL32 (x : UInt32) (b : UInt32) : UInt32 := (x <<< b) ||| (x >>> (32 - b))

/-- `load32_le` (the portable branch; the `memcpy` branch is the same function on a little-endian
    machine): `w = src[0]; w |= src[1] << 8; w |= src[2] << 16; w |= src[3] << 24` -/
def load32_le (src : Bytes) : UInt32 :=
  let w := (src.getD 0 0).toUInt32
  let w := w ||| ((src.getD 1 0).toUInt32 <<< 8)
  let w := w ||| ((src.getD 2 0).toUInt32 <<< 16)
  let w := w ||| ((src.getD 3 0).toUInt32 <<< 24)
  w

/-- `store32_le`: `dst[0] = (uint8_t) w; w >>= 8; dst[1] = (uint8_t) w; w >>= 8; …` -/
def store32_le (w : UInt32) : Bytes :=
  let d0 := w.toUInt8
  let w := w >>> 8
  let d1 := w.toUInt8
  let w := w >>> 8
  let d2 := w.toUInt8
  let w := w >>> 8
  let d3 := w.toUInt8
  [d0, d1, d2, d3]

/-- sixteen 32-bit words: the locals `x0..x15`, `j0..j15`, or `ctx->input[0..15]` -/
structure W16 where
  x0 : UInt32
  x1 : UInt32
  x2 : UInt32
  x3 : UInt32
  x4 : UInt32
  x5 : UInt32
  x6 : UInt32
  x7 : UInt32
  x8 : UInt32
  x9 : UInt32
  x10 : UInt32
  x11 : UInt32
  x12 : UInt32
  x13 : UInt32
  x14 : UInt32
  x15 : UInt32
  deriving DecidableEq, Repr

namespace W16

def zero : W16 := ⟨0, 0, 0, 0, 0, 0, 0, 0, 0, 0, 0, 0, 0, 0, 0, 0⟩

/-- sixteen statements `x_i = f(x_i, y_i)` -/
@[inline] def zipWith (f : UInt32 → UInt32 → UInt32) (x y : W16) : W16 :=
  ⟨f x.x0 y.x0, f x.x1 y.x1, f x.x2 y.x2, f x.x3 y.x3, f x.x4 y.x4, f x.x5 y.x5, f x.x6 y.x6, f x.x7 y.x7,
   f x.x8 y.x8, f x.x9 y.x9, f x.x10 y.x10, f x.x11 y.x11, f x.x12 y.x12, f x.x13 y.x13, f x.x14 y.x14,
   f x.x15 y.x15⟩

/-- `LOAD32_LE(m + 0)`, `LOAD32_LE(m + 4)`, …, `LOAD32_LE(m + 60)` -/
def load (m : Bytes) : W16 :=
  ⟨load32_le m, load32_le (m.drop 4), load32_le (m.drop 8), load32_le (m.drop 12),
   load32_le (m.drop 16), load32_le (m.drop 20), load32_le (m.drop 24), load32_le (m.drop 28),
   load32_le (m.drop 32), load32_le (m.drop 36), load32_le (m.drop 40), load32_le (m.drop 44),
   load32_le (m.drop 48), load32_le (m.drop 52), load32_le (m.drop 56), load32_le (m.drop 60)⟩

/-- `STORE32_LE(c + 0, x0)`, `STORE32_LE(c + 4, x1)`, …, `STORE32_LE(c + 60, x15)` -/
def store (x : W16) : Bytes :=
  store32_le x.x0 ++ (store32_le x.x1 ++ (store32_le x.x2 ++ (store32_le x.x3 ++
  (store32_le x.x4 ++ (store32_le x.x5 ++ (store32_le x.x6 ++ (store32_le x.x7 ++
  (store32_le x.x8 ++ (store32_le x.x9 ++ (store32_le x.x10 ++ (store32_le x.x11 ++
  (store32_le x.x12 ++ (store32_le x.x13 ++ (store32_le x.x14 ++ store32_le x.x15))))))))))))))

end W16

/-! ### `chacha20_ref.c` -/

/-- `#define U32V(v) ((uint32_t)(v) & U32C(0xFFFFFFFF))` -/
@[inline] def U32V (v : UInt32) : UInt32 := v &&& 0xFFFFFFFF
/-- `#define ROTATE(v, c) (ROTL32(v, c))` -/
@[inline] def ROTATE (v c : UInt32) : UInt32 := ROTL32 v c
/-- `#define XOR(v, w) ((v) ^ (w))` -/
@[inline] def XOR (v w : UInt32) : UInt32 := v ^^^ w
/-- `#define PLUS(v, w) (U32V((v) + (w)))` -/
@[inline] def PLUS (v w : UInt32) : UInt32 := U32V (v + w)
/-- `#define PLUSONE(v) (PLUS((v), 1))` -/
@[inline] def PLUSONE (v : UInt32) : UInt32 := PLUS v 1

/-- the `QUARTERROUND(a, b, c, d)` macro: eight assignments to the four named locals; the new values
    of `(a, b, c, d)` are returned -/
@[inline] def QUARTERROUND (a b c d : UInt32) : UInt32 × UInt32 × UInt32 × UInt32 :=
  let a := PLUS a b
  let d := ROTATE (XOR d a) 16
  let c := PLUS c d
  let b := ROTATE (XOR b c) 12
  let a := PLUS a b
  let d := ROTATE (XOR d a) 8
  let c := PLUS c d
  let b := ROTATE (XOR b c) 7
  (a, b, c, d)

/-- the body of `for (i = 20; i > 0; i -= 2)`: four column then four diagonal quarter rounds,
    in the order written -/
def chachaDoubleRound (x : W16) : W16 :=
  let ⟨x0, x1, x2, x3, x4, x5, x6, x7, x8, x9, x10, x11, x12, x13, x14, x15⟩ := x
  let (x0, x4, x8, x12) := QUARTERROUND x0 x4 x8 x12
  let (x1, x5, x9, x13) := QUARTERROUND x1 x5 x9 x13
  let (x2, x6, x10, x14) := QUARTERROUND x2 x6 x10 x14
  let (x3, x7, x11, x15) := QUARTERROUND x3 x7 x11 x15
  let (x0, x5, x10, x15) := QUARTERROUND x0 x5 x10 x15
  let (x1, x6, x11, x12) := QUARTERROUND x1 x6 x11 x12
  let (x2, x7, x8, x13) := QUARTERROUND x2 x7 x8 x13
  let (x3, x4, x9, x14) := QUARTERROUND x3 x4 x9 x14
  ⟨x0, x1, x2, x3, x4, x5, x6, x7, x8, x9, x10, x11, x12, x13, x14, x15⟩

/-- `for (i = START; i > 0; i -= 2) body` (used with START = 20 in `chacha20_encrypt_bytes`, where `i` is
    `unsigned int`, and in `crypto_core_hsalsa20`, where `i` is `int`; for the even START used no
    subtraction wraps or goes negative) -/
def forDownBy2 (body : W16 → W16) (i : Nat) (x : W16) : W16 :=
  if i > 0 then forDownBy2 body (i - 2) (body x) else x
termination_by i
decreasing_by omega

/-- `chacha_keysetup`: constants "expand 32-byte k" and the eight key words -/
def chacha_keysetup (ctx : W16) (k : Bytes) : W16 :=
  { ctx with
    x0 := 0x61707865, x1 := 0x3320646e, x2 := 0x79622d32, x3 := 0x6b206574,
    x4 := load32_le k, x5 := load32_le (k.drop 4), x6 := load32_le (k.drop 8), x7 := load32_le (k.drop 12),
    x8 := load32_le (k.drop 16), x9 := load32_le (k.drop 20), x10 := load32_le (k.drop 24),
    x11 := load32_le (k.drop 28) }

/-- `chacha_ivsetup`: `input[12..13] = counter == NULL ? 0 : LOAD32_LE(counter + 0/4)`, `input[14..15]` = iv -/
def chacha_ivsetup (ctx : W16) (iv : Bytes) (counter : Option Bytes) : W16 :=
  { ctx with
    x12 := match counter with | none => 0 | some ctr => load32_le ctr,
    x13 := match counter with | none => 0 | some ctr => load32_le (ctr.drop 4),
    x14 := load32_le iv, x15 := load32_le (iv.drop 4) }

/-- `chacha_ietf_ivsetup`: `input[12] = counter == NULL ? 0 : LOAD32_LE(counter)`, `input[13..15]` = iv -/
def chacha_ietf_ivsetup (ctx : W16) (iv : Bytes) (counter : Option Bytes) : W16 :=
  { ctx with
    x12 := match counter with | none => 0 | some ctr => load32_le ctr,
    x13 := load32_le iv, x14 := load32_le (iv.drop 4), x15 := load32_le (iv.drop 8) }

/-- One pass through the body of `for (;;)` in `chacha20_encrypt_bytes`, from `x0 = j0` to the last
    `STORE32_LE`, on the 64 message bytes at `m`: returns the 64 bytes written at `c` and the `j` locals
    after `j12 = PLUSONE(j12); if (!j12) { j13 = PLUSONE(j13); }`. -/
def chacha20_block (j : W16) (m : Bytes) : Bytes × W16 :=
  let x := j                                        -- x0 = j0; … x15 = j15;
  let x := forDownBy2 chachaDoubleRound 20 x        -- for (i = 20; i > 0; i -= 2) { … }
  let x := W16.zipWith PLUS x j                     -- x0 = PLUS(x0, j0); …
  let x := W16.zipWith XOR x (W16.load m)           -- x0 = XOR(x0, LOAD32_LE(m + 0)); …
  let j12 := PLUSONE j.x12
  let j13 := if j12 = 0 then PLUSONE j.x13 else j.x13
  (W16.store x, { j with x12 := j12, x13 := j13 })  -- STORE32_LE(c + 0, x0); …

/-- The `for (;;)` loop of `chacha20_encrypt_bytes`. `bytes` is `m.length`. If `bytes < 64` the message
    is copied into the zeroed `tmp[64]` and the block is computed from and into `tmp`; after the block,
    `bytes <= 64` copies `bytes` output bytes and returns, otherwise `bytes -= 64; c += 64; m += 64`.
    `fuel` bounds the number of iterations (use `m.length`). Returns the output and the final `j`. -/
def chacha20_loop : Nat → W16 → Bytes → Bytes × W16
  | 0, j, _ => ([], j)
  | fuel + 1, j, m =>
    let bytes := m.length
    let mblk := if bytes < 64 then m ++ zeros (64 - bytes) else m
    let (c, j) := chacha20_block j mblk
    if bytes ≤ 64 then (c.take bytes, j)
    else
      let (rest, j) := chacha20_loop fuel j (m.drop 64)
      (c ++ rest, j)

/-- `chacha20_encrypt_bytes(ctx, m, c, bytes)`: returns the `bytes` output bytes and the context with
    `ctx->input[12] = j12; ctx->input[13] = j13` written back -/
def chacha20_encrypt_bytes (ctx : W16) (m : Bytes) : Bytes × W16 :=
  if m.length = 0 then ([], ctx) else
  let (c, j) := chacha20_loop m.length ctx m
  (c, { ctx with x12 := j.x12, x13 := j.x13 })

/-- `stream_ref(c, clen, n, k)`: the context starts uninitialised (every word is written by the two
    setup calls); `memset(c, 0, clen)` then encrypt in place -/
def stream_ref (clen : Nat) (n k : Bytes) : Bytes :=
  if clen = 0 then [] else
  let ctx := chacha_ivsetup (chacha_keysetup W16.zero k) n none
  (chacha20_encrypt_bytes ctx (zeros clen)).1

def stream_ietf_ext_ref (clen : Nat) (n k : Bytes) : Bytes :=
  if clen = 0 then [] else
  let ctx := chacha_ietf_ivsetup (chacha_keysetup W16.zero k) n none
  (chacha20_encrypt_bytes ctx (zeros clen)).1

/-- `stream_ref_xor_ic`: `ic_high = U32V(ic >> 32); ic_low = U32V(ic)`, stored into `ic_bytes[8]` and
    loaded back by `chacha_ivsetup` -/
def stream_ref_xor_ic (m n : Bytes) (ic : UInt64) (k : Bytes) : Bytes :=
  if m.length = 0 then [] else
  let ic_high := U32V (ic >>> 32).toUInt32
  let ic_low := U32V ic.toUInt32
  let ic_bytes := store32_le ic_low ++ store32_le ic_high
  let ctx := chacha_ivsetup (chacha_keysetup W16.zero k) n (some ic_bytes)
  (chacha20_encrypt_bytes ctx m).1

def stream_ietf_ext_ref_xor_ic (m n : Bytes) (ic : UInt32) (k : Bytes) : Bytes :=
  if m.length = 0 then [] else
  let ic_bytes := store32_le ic
  let ctx := chacha_ietf_ivsetup (chacha_keysetup W16.zero k) n (some ic_bytes)
  (chacha20_encrypt_bytes ctx m).1

/-- the block function in the shape the driver model `Model/Stream.lean` takes it (`BlockFn`): the 64
    keystream bytes for counter words `(j12, j13)` under context `ctx`, i.e. one block on a zero message -/
def chacha20_blockfn (ctx : W16) : UInt32 → UInt32 → Bytes := fun j12 j13 =>
  (chacha20_block { ctx with x12 := j12, x13 := j13 } (zeros 64)).1

/-! ### `core_salsa_ref.c`, `core_hsalsa20_ref2.c` -/

/-- the 32 statements of the loop body shared by `crypto_core_salsa` and `crypto_core_hsalsa20`,
    in the order written -/
def salsaDoubleRound (x : W16) : W16 :=
  let ⟨x0, x1, x2, x3, x4, x5, x6, x7, x8, x9, x10, x11, x12, x13, x14, x15⟩ := x
  let x4 := x4 ^^^ ROTL32 (x0 + x12) 7
  let x8 := x8 ^^^ ROTL32 (x4 + x0) 9
  let x12 := x12 ^^^ ROTL32 (x8 + x4) 13
  let x0 := x0 ^^^ ROTL32 (x12 + x8) 18
  let x9 := x9 ^^^ ROTL32 (x5 + x1) 7
  let x13 := x13 ^^^ ROTL32 (x9 + x5) 9
  let x1 := x1 ^^^ ROTL32 (x13 + x9) 13
  let x5 := x5 ^^^ ROTL32 (x1 + x13) 18
  let x14 := x14 ^^^ ROTL32 (x10 + x6) 7
  let x2 := x2 ^^^ ROTL32 (x14 + x10) 9
  let x6 := x6 ^^^ ROTL32 (x2 + x14) 13
  let x10 := x10 ^^^ ROTL32 (x6 + x2) 18
  let x3 := x3 ^^^ ROTL32 (x15 + x11) 7
  let x7 := x7 ^^^ ROTL32 (x3 + x15) 9
  let x11 := x11 ^^^ ROTL32 (x7 + x3) 13
  let x15 := x15 ^^^ ROTL32 (x11 + x7) 18
  let x1 := x1 ^^^ ROTL32 (x0 + x3) 7
  let x2 := x2 ^^^ ROTL32 (x1 + x0) 9
  let x3 := x3 ^^^ ROTL32 (x2 + x1) 13
  let x0 := x0 ^^^ ROTL32 (x3 + x2) 18
  let x6 := x6 ^^^ ROTL32 (x5 + x4) 7
  let x7 := x7 ^^^ ROTL32 (x6 + x5) 9
  let x4 := x4 ^^^ ROTL32 (x7 + x6) 13
  let x5 := x5 ^^^ ROTL32 (x4 + x7) 18
  let x11 := x11 ^^^ ROTL32 (x10 + x9) 7
  let x8 := x8 ^^^ ROTL32 (x11 + x10) 9
  let x9 := x9 ^^^ ROTL32 (x8 + x11) 13
  let x10 := x10 ^^^ ROTL32 (x9 + x8) 18
  let x12 := x12 ^^^ ROTL32 (x15 + x14) 7
  let x13 := x13 ^^^ ROTL32 (x12 + x15) 9
  let x14 := x14 ^^^ ROTL32 (x13 + x12) 13
  let x15 := x15 ^^^ ROTL32 (x14 + x13) 18
  ⟨x0, x1, x2, x3, x4, x5, x6, x7, x8, x9, x10, x11, x12, x13, x14, x15⟩

/-- `for (i = START; i < rounds; i += 2) body` (`int i`, `const int rounds`; START = 0) -/
def forUpBy2 (body : W16 → W16) (rounds i : Nat) (x : W16) : W16 :=
  if i < rounds then forUpBy2 body rounds (i + 2) (body x) else x
termination_by rounds - i
decreasing_by omega

/-- the initial words shared by `crypto_core_salsa` and `crypto_core_hsalsa20`: constants (default or
    from `c`) in 0, 5, 10, 15; key in 1..4 and 11..14; input in 6..9 -/
def salsaInit (inp k : Bytes) (c : Option Bytes) : W16 :=
  let x0 : UInt32 := 0x61707865
  let x5 : UInt32 := 0x3320646e
  let x10 : UInt32 := 0x79622d32
  let x15 : UInt32 := 0x6b206574
  let (x0, x5, x10, x15) :=
    match c with
    | none => (x0, x5, x10, x15)
    | some c => (load32_le c, load32_le (c.drop 4), load32_le (c.drop 8), load32_le (c.drop 12))
  { x0 := x0, x5 := x5, x10 := x10, x15 := x15,
    x1 := load32_le k, x2 := load32_le (k.drop 4), x3 := load32_le (k.drop 8), x4 := load32_le (k.drop 12),
    x11 := load32_le (k.drop 16), x12 := load32_le (k.drop 20), x13 := load32_le (k.drop 24),
    x14 := load32_le (k.drop 28),
    x6 := load32_le inp, x7 := load32_le (inp.drop 4), x8 := load32_le (inp.drop 8),
    x9 := load32_le (inp.drop 12) }

/-- `crypto_core_salsa(out, in, k, c, rounds)`: `j_i = x_i = …`; the rounds loop; `STORE32_LE(out + 4i, x_i + j_i)` -/
def crypto_core_salsa (inp k : Bytes) (c : Option Bytes) (rounds : Nat) : Bytes :=
  let j := salsaInit inp k c
  let x := j
  let x := forUpBy2 salsaDoubleRound rounds 0 x
  W16.store (W16.zipWith (· + ·) x j)

def crypto_core_salsa20 (inp k : Bytes) (c : Option Bytes) : Bytes := crypto_core_salsa inp k c 20
def crypto_core_salsa2012 (inp k : Bytes) (c : Option Bytes) : Bytes := crypto_core_salsa inp k c 12
def crypto_core_salsa208 (inp k : Bytes) (c : Option Bytes) : Bytes := crypto_core_salsa inp k c 8

/-- `crypto_core_hsalsa20`: same initial words, `for (i = ROUNDS; i > 0; i -= 2)` with ROUNDS = 20, then
    words 0, 5, 10, 15, 6, 7, 8, 9 are stored (no final addition) -/
def crypto_core_hsalsa20 (inp k : Bytes) (c : Option Bytes) : Bytes :=
  let x := salsaInit inp k c
  let x := forDownBy2 salsaDoubleRound 20 x
  store32_le x.x0 ++ (store32_le x.x5 ++ (store32_le x.x10 ++ (store32_le x.x15 ++
  (store32_le x.x6 ++ (store32_le x.x7 ++ (store32_le x.x8 ++ store32_le x.x9))))))

/-! ### `core_hchacha20.c` -/

/-- this file's own `QUARTERROUND(A, B, C, D)`: `A += B; D = ROTL32(D ^ A, 16); C += D; B = ROTL32(B ^ C, 12);
    A += B; D = ROTL32(D ^ A, 8); C += D; B = ROTL32(B ^ C, 7);` (plain `+=`, no `U32V` mask) -/
@[inline] def HQUARTERROUND (a b c d : UInt32) : UInt32 × UInt32 × UInt32 × UInt32 :=
  let a := a + b
  let d := ROTL32 (d ^^^ a) 16
  let c := c + d
  let b := ROTL32 (b ^^^ c) 12
  let a := a + b
  let d := ROTL32 (d ^^^ a) 8
  let c := c + d
  let b := ROTL32 (b ^^^ c) 7
  (a, b, c, d)

def hchachaDoubleRound (x : W16) : W16 :=
  let ⟨x0, x1, x2, x3, x4, x5, x6, x7, x8, x9, x10, x11, x12, x13, x14, x15⟩ := x
  let (x0, x4, x8, x12) := HQUARTERROUND x0 x4 x8 x12
  let (x1, x5, x9, x13) := HQUARTERROUND x1 x5 x9 x13
  let (x2, x6, x10, x14) := HQUARTERROUND x2 x6 x10 x14
  let (x3, x7, x11, x15) := HQUARTERROUND x3 x7 x11 x15
  let (x0, x5, x10, x15) := HQUARTERROUND x0 x5 x10 x15
  let (x1, x6, x11, x12) := HQUARTERROUND x1 x6 x11 x12
  let (x2, x7, x8, x13) := HQUARTERROUND x2 x7 x8 x13
  let (x3, x4, x9, x14) := HQUARTERROUND x3 x4 x9 x14
  ⟨x0, x1, x2, x3, x4, x5, x6, x7, x8, x9, x10, x11, x12, x13, x14, x15⟩

/-- `for (i = START; i < n; i++) body` (START = 0, n = 10 in `crypto_core_hchacha20`) -/
def forUp (body : W16 → W16) (n i : Nat) (x : W16) : W16 :=
  if i < n then forUp body n (i + 1) (body x) else x
termination_by n - i
decreasing_by omega

/-- `crypto_core_hchacha20(out, in, k, c)`: constants (default or from `c`) in 0..3, key in 4..11, input in
    12..15; ten double rounds; words 0..3 and 12..15 are stored -/
def crypto_core_hchacha20 (inp k : Bytes) (c : Option Bytes) : Bytes :=
  let (x0, x1, x2, x3) : UInt32 × UInt32 × UInt32 × UInt32 :=
    match c with
    | none => (0x61707865, 0x3320646e, 0x79622d32, 0x6b206574)
    | some c => (load32_le c, load32_le (c.drop 4), load32_le (c.drop 8), load32_le (c.drop 12))
  let x : W16 :=
    { x0 := x0, x1 := x1, x2 := x2, x3 := x3,
      x4 := load32_le k, x5 := load32_le (k.drop 4), x6 := load32_le (k.drop 8), x7 := load32_le (k.drop 12),
      x8 := load32_le (k.drop 16), x9 := load32_le (k.drop 20), x10 := load32_le (k.drop 24),
      x11 := load32_le (k.drop 28),
      x12 := load32_le inp, x13 := load32_le (inp.drop 4), x14 := load32_le (inp.drop 8),
      x15 := load32_le (inp.drop 12) }
  let x := forUp hchachaDoubleRound 10 0 x
  store32_le x.x0 ++ (store32_le x.x1 ++ (store32_le x.x2 ++ (store32_le x.x3 ++
  (store32_le x.x12 ++ (store32_le x.x13 ++ (store32_le x.x14 ++ store32_le x.x15))))))

end Sodium.Model.CoresRef
