import SodiumModel.Basic
/-
  Model of the constant-time helpers of sodium/utils.c and crypto_verify/verify.c,
  written to the structure of the C code (fixed-width arithmetic, C's integer promotions).
  `unsigned char` = UInt8, `uint16_t` = UInt16, `unsigned int` = UInt32, `int` = Int32,
  `uint_fast16_t` = `size_t` = UInt64 (x86-64 glibc).
-/
namespace Sodium.Model

/-- `for (i…) d |= b1[i] ^ b2[i];` with `volatile unsigned char d` -/
def orXor (d : UInt8) : Bytes → Bytes → UInt8
  | x :: xs, y :: ys => orXor (d ||| (x ^^^ y)) xs ys
  | _, _ => d

/-- `(1 & ((d - 1) >> 8)) - 1` : d is promoted to `int`, `>>` is arithmetic on negative ints -/
def memcmpFinal (d : UInt8) : Int32 :=
  ((1 : Int32) &&& ((d.toUInt32.toInt32 - 1) >>> 8)) - 1

def sodium_memcmp (b1 b2 : Bytes) : Int32 := memcmpFinal (orXor 0 b1 b2)

/-- `for (i…) d |= n[i];` -/
def orAll (d : UInt8) : Bytes → UInt8
  | x :: xs => orAll (d ||| x) xs
  | [] => d

/-- `1 & ((d - 1) >> 8)` -/
def isZeroFinal (d : UInt8) : Int32 := (1 : Int32) &&& ((d.toUInt32.toInt32 - 1) >>> 8)

def sodium_is_zero (n : Bytes) : Int32 := isZeroFinal (orAll 0 n)

/-! ### crypto_verify_n, generic body (`volatile uint16_t d`) -/

def orXor16 (d : UInt16) : Bytes → Bytes → UInt16
  | x :: xs, y :: ys => orXor16 (d ||| (x ^^^ y).toUInt16) xs ys
  | _, _ => d

/-- `d--; d = ((d >> 13) ^ optblocker_u16) >> 2; return (int) d - 1;` (optblocker_u16 = 0) -/
def verifyFinal16 (d : UInt16) : Int32 :=
  let d1 := d - 1
  let d2 := ((d1 >>> 13) ^^^ 0) >>> 2
  d2.toUInt32.toInt32 - 1

def verify_n_generic (x y : Bytes) : Int32 := verifyFinal16 (orXor16 0 x y)

/-! ### crypto_verify_n, SSE2 body.  A 128-bit register is a list of 16 bytes. -/

def xorLane (a b : Bytes) : Bytes := xorBytes a b

def orLane : Bytes → Bytes → Bytes
  | x :: xs, y :: ys => (x ||| y) :: orLane xs ys
  | _, _ => []

/-- `z = x[0]^y[0]; for (i = 1; i < n/16; i++) z |= x[i]^y[i]` ; `lanes` = the n/16 lane pairs -/
def sseAccum (z : Bytes) : List (Bytes × Bytes) → Bytes
  | [] => z
  | (a, b) :: rest => sseAccum (orLane z (xorLane a b)) rest

/-- `_mm_cmpeq_epi32(z, zero)` then `_mm_movemask_epi8`: bit j of the mask is set iff the
    32-bit lane containing byte j is zero. -/
def dwordZero (z : Bytes) (k : Nat) : Bool :=
  ((z.drop (4 * k)).take 4).all (· == 0)

def movemaskCmpeq32 (z : Bytes) : UInt32 :=
  (if dwordZero z 0 then 0x000f else 0) ||| (if dwordZero z 1 then 0x00f0 else 0) |||
  (if dwordZero z 2 then 0x0f00 else 0) ||| (if dwordZero z 3 then 0xf000 else 0)

/-- `(int) (((uint32_t) m + 1U) >> 16) - 1` -/
def verifyFinalSse (m : UInt32) : Int32 := ((m + 1) >>> 16).toInt32 - 1

def chunks16 : Nat → Bytes → List Bytes
  | 0, _ => []
  | k + 1, b => b.take 16 :: chunks16 k (b.drop 16)

/-- SSE2 `crypto_verify_n` for n = 16·k (k ≥ 1): first lane initialises z. -/
def verify_n_sse2 (k : Nat) (x y : Bytes) : Int32 :=
  match (chunks16 k x).zip (chunks16 k y) with
  | [] => 0   -- unreachable for n ∈ {16, 32, 64}
  | (a, b) :: rest => verifyFinalSse (movemaskCmpeq32 (sseAccum (xorLane a b) rest))

/-! ### sodium_compare -/

/-- one iteration of the `while (i != 0)` loop body (processing byte pair x1 = b1[i], x2 = b2[i]) -/
def compareStep (st : UInt8 × UInt8) (x1b x2b : UInt8) : UInt8 × UInt8 :=
  let gt := st.1
  let eq := st.2
  let x1 : UInt16 := x1b.toUInt16
  let x2 : UInt16 := x2b.toUInt16
  let gt' : UInt8 := (gt.toUInt32 ||| (((x2.toUInt32 - x1.toUInt32) >>> 8) &&& eq.toUInt32)).toUInt8
  let eq' : UInt8 := (eq.toUInt32 &&& (((x2 ^^^ x1).toUInt32 - 1) >>> 8)).toUInt8
  (gt', eq')

/-- the loop runs from the last byte down to the first: process the tail first -/
def compareLoop : Bytes → Bytes → UInt8 × UInt8
  | x :: xs, y :: ys => compareStep (compareLoop xs ys) x y
  | _, _ => (0, 1)

/-- `(int) (gt + gt + eq) - 1` -/
def sodium_compare (b1 b2 : Bytes) : Int32 :=
  let (gt, eq) := compareLoop b1 b2
  (gt.toUInt32 + gt.toUInt32 + eq.toUInt32).toInt32 - 1

/-! ### increment / add / sub: generic loops (`uint_fast16_t c` is 64 bits wide) -/

def incLoop (c : UInt64) : Bytes → Bytes
  | [] => []
  | x :: xs =>
    let c1 := c + x.toUInt64
    c1.toUInt8 :: incLoop (c1 >>> 8) xs

def sodium_increment_generic (n : Bytes) : Bytes := incLoop 1 n

def addLoop (c : UInt64) : Bytes → Bytes → Bytes
  | x :: xs, y :: ys =>
    let c1 := c + (x.toUInt64 + y.toUInt64)
    c1.toUInt8 :: addLoop (c1 >>> 8) xs ys
  | _, _ => []

def sodium_add_generic (a b : Bytes) : Bytes := addLoop 0 a b

def subLoop (c : UInt64) : Bytes → Bytes → Bytes
  | x :: xs, y :: ys =>
    let c1 := x.toUInt64 - y.toUInt64 - c
    c1.toUInt8 :: subLoop ((c1 >>> 8) &&& 1) xs ys
  | _, _ => []

def sodium_sub_generic (a b : Bytes) : Bytes := subLoop 0 a b

/-! ### amd64 fast paths, transcribed from the inline assembly.
   Registers are UInt64 / UInt32; the carry flag is a Bool. -/

def load64 (b : Bytes) : UInt64 := UInt64.ofNat (le (b.take 8))
def load32 (b : Bytes) : UInt32 := UInt32.ofNat (le (b.take 4))
def store64 (v : UInt64) : Bytes := toLE 8 v.toNat
def store32 (v : UInt32) : Bytes := toLE 4 v.toNat

/-- `adc dst, src` : returns (result, carry-out) -/
def adc64 (a b : UInt64) (cf : Bool) : UInt64 × Bool :=
  let c : Nat := if cf then 1 else 0
  (a + b + UInt64.ofNat c, decide (2 ^ 64 ≤ a.toNat + b.toNat + c))

def adc32 (a b : UInt32) (cf : Bool) : UInt32 × Bool :=
  let c : Nat := if cf then 1 else 0
  (a + b + UInt32.ofNat c, decide (2 ^ 32 ≤ a.toNat + b.toNat + c))

/-- `sbb dst, src` : dst - src - cf, borrow-out -/
def sbb64 (a b : UInt64) (cf : Bool) : UInt64 × Bool :=
  let c : Nat := if cf then 1 else 0
  (a - b - UInt64.ofNat c, decide (a.toNat < b.toNat + c))

/-- nlen == 8 : `incq (out)` -/
def increment_asm8 (n : Bytes) : Bytes := store64 (load64 n + 1)

/-- nlen == 12 : t64 = 0; t32 = 0; stc; adcq t64,(out); adcl t32,8(out) -/
def increment_asm12 (n : Bytes) : Bytes :=
  let r0 := adc64 (load64 n) 0 true
  let r1 := adc32 (load32 (n.drop 8)) 0 r0.2
  store64 r0.1 ++ store32 r1.1

/-- nlen == 24 : addq $1,(out); adcq $0,8(out); adcq $0,16(out) -/
def increment_asm24 (n : Bytes) : Bytes :=
  let r0 := adc64 (load64 n) 1 false
  let r1 := adc64 (load64 (n.drop 8)) 0 r0.2
  let r2 := adc64 (load64 (n.drop 16)) 0 r1.2
  store64 r0.1 ++ store64 r1.1 ++ store64 r2.1

def add_asm8 (a b : Bytes) : Bytes := store64 (adc64 (load64 a) (load64 b) false).1

def add_asm12 (a b : Bytes) : Bytes :=
  let r0 := adc64 (load64 a) (load64 b) false
  let r1 := adc32 (load32 (a.drop 8)) (load32 (b.drop 8)) r0.2
  store64 r0.1 ++ store32 r1.1

def add_asm24 (a b : Bytes) : Bytes :=
  let r0 := adc64 (load64 a) (load64 b) false
  let r1 := adc64 (load64 (a.drop 8)) (load64 (b.drop 8)) r0.2
  let r2 := adc64 (load64 (a.drop 16)) (load64 (b.drop 16)) r1.2
  store64 r0.1 ++ store64 r1.1 ++ store64 r2.1

/-- generic k-quadword subtract-with-borrow chain (len == 64 uses k = 8) -/
def sbbChain : Nat → Bool → Bytes → Bytes → Bytes
  | 0, _, _, _ => []
  | k + 1, cf, a, b =>
    let r := sbb64 (load64 a) (load64 b) cf
    store64 r.1 ++ sbbChain k r.2 (a.drop 8) (b.drop 8)

def sub_asm64 (a b : Bytes) : Bytes := sbbChain 8 false a b

/-- the dispatch on the length as compiled with HAVE_AMD64_ASM -/
def sodium_increment_amd64 (n : Bytes) : Bytes :=
  if n.length = 12 then increment_asm12 n
  else if n.length = 24 then increment_asm24 n
  else if n.length = 8 then increment_asm8 n
  else sodium_increment_generic n

def sodium_add_amd64 (a b : Bytes) : Bytes :=
  if a.length = 12 then add_asm12 a b
  else if a.length = 24 then add_asm24 a b
  else if a.length = 8 then add_asm8 a b
  else sodium_add_generic a b

def sodium_sub_amd64 (a b : Bytes) : Bytes :=
  if a.length = 64 then sub_asm64 a b else sodium_sub_generic a b

/-! ### sodium_memzero over a flat memory: zero exactly `[off, off+len)` -/

def memzeroAt (mem : Bytes) (off len : Nat) : Bytes :=
  mem.take off ++ zeros (min len (mem.length - off)) ++ mem.drop (off + len)

end Sodium.Model
