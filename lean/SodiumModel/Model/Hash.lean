import SodiumModel.Basic
import SodiumModel.Spec.Poly1305
/-
  Streaming models of the hash / MAC / KDF front-ends, written to the structure of the C code:
  SHA-256 / SHA-512 (count, buf, the three-way split of update, the two-branch padding),
  BLAKE2b (lazy two-block buffer, counter, last-block flag, key block), Poly1305 (leftover buffer),
  HMAC (inner / outer contexts, long-key hashing), HKDF expand (counter byte, T(i) chaining),
  the BLAKE2b subkey derivation and the generichash range checks.
  Compression / block functions are parameters.
-/
namespace Sodium.Model

/-! ### SHA-2 (Merkle–Damgård) streaming.  W = block bytes (64 / 128), cbits = width of the bit counter (64 / 128) -/

structure MdState (σ : Type) where
  h : σ
  count : Nat          -- the bit counter as the C code keeps it (mod 2^cbits)
  buf : Bytes          -- the pending bytes buf[0 .. r), r = (count / 8) % W

def mdInit {σ : Type} (iv : σ) : MdState σ := ⟨iv, 0, []⟩

/-- `while (inlen >= W) { Transform(state, in); in += W; inlen -= W; }` : returns new h and the tail -/
def mdBlocks {σ : Type} (C : σ → Bytes → σ) (W : Nat) : Nat → σ → Bytes → σ × Bytes
  | 0, h, m => (h, m)
  | fuel + 1, h, m => if m.length ≥ W ∧ W > 0 then mdBlocks C W fuel (C h (m.take W)) (m.drop W) else (h, m)

def mdUpdate {σ : Type} (C : σ → Bytes → σ) (W cbits : Nat) (s : MdState σ) (inp : Bytes) : MdState σ :=
  if inp.isEmpty then s else
  let r := (s.count / 8) % W
  let count' := (s.count + 8 * inp.length) % 2 ^ cbits
  if inp.length < W - r then { s with count := count', buf := s.buf ++ inp }
  else
    let h1 := C s.h (s.buf ++ inp.take (W - r))
    let rest := inp.drop (W - r)
    let t := mdBlocks C W rest.length h1 rest
    { h := t.1, count := count', buf := t.2 }

/-- `SHA*_Pad` + final transform(s): lenBytes = cbits / 8 (8 or 16); returns the final chaining value -/
def mdPadFinal {σ : Type} (C : σ → Bytes → σ) (W cbits : Nat) (s : MdState σ) : σ :=
  let lenBytes := cbits / 8
  let r := (s.count / 8) % W
  if r < W - lenBytes then
    C s.h (s.buf ++ 0x80 :: zeros (W - lenBytes - r - 1) ++ toBE lenBytes s.count)
  else
    let h1 := C s.h (s.buf ++ 0x80 :: zeros (W - r - 1))
    C h1 (zeros (W - lenBytes) ++ toBE lenBytes s.count)

/-! ### BLAKE2b streaming.  `F h block t last` is the compression function. -/

structure B2State (σ : Type) where
  h : σ
  t : Nat              -- byte counter (128-bit in C)
  buf : Bytes          -- buf[0 .. buflen), buflen ≤ 256
  last : Bool          -- f[0] set

/-- one pass of the `while (inlen > 0)` loop of blake2b_update -/
def b2Update {σ : Type} (F : σ → Bytes → Nat → Bool → σ) : Nat → B2State σ → Bytes → B2State σ
  | 0, s, _ => s
  | fuel + 1, s, inp =>
    if inp.isEmpty then s else
    let left := s.buf.length
    let fill := 256 - left
    if inp.length > fill then
      let full := s.buf ++ inp.take fill            -- 256 bytes
      let t' := s.t + 128
      let h' := F s.h (full.take 128) t' false
      b2Update F fuel { s with h := h', t := t', buf := full.drop 128 } (inp.drop fill)
    else { s with buf := s.buf ++ inp }

inductive B2Final where
  | err                      -- already finalised: return -1
  | ok (out : Bytes)
  deriving DecidableEq, Repr

def b2Final {σ : Type} (F : σ → Bytes → Nat → Bool → σ) (digest : σ → Nat → Bytes) (s : B2State σ) (outlen : Nat) : B2Final :=
  if s.last then .err else
  let s1 : B2State σ :=
    if s.buf.length > 128 then
      let t' := s.t + 128
      { s with h := F s.h (s.buf.take 128) t' false, t := t', buf := s.buf.drop 128 }
    else s
  let t2 := s1.t + s1.buf.length
  let blk := s1.buf ++ zeros (128 - s1.buf.length)
  .ok (digest (F s1.h blk t2 true) outlen)

/-- blake2b_init / blake2b_init_key (+ salt / personal): parameter block, then the padded key block -/
def b2Init {σ : Type} (F : σ → Bytes → Nat → Bool → σ) (paramInit : Nat → Nat → Bytes → Bytes → σ)
    (outlen : Nat) (key salt personal : Bytes) : B2State σ :=
  let s0 : B2State σ := ⟨paramInit outlen key.length salt personal, 0, [], false⟩
  if key.isEmpty then s0 else b2Update F 2 s0 (key ++ zeros (128 - key.length))

inductive HashResult where
  | err                      -- return -1
  | misuse
  | ok (out : Bytes)
  deriving DecidableEq, Repr

/-- crypto_generichash_blake2b(_salt_personal): range checks, then init / update / final -/
def generichash {σ : Type} (F : σ → Bytes → Nat → Bool → σ) (paramInit : Nat → Nat → Bytes → Bytes → σ)
    (digest : σ → Nat → Bytes) (outlen : Nat) (msg key salt personal : Bytes) : HashResult :=
  if outlen = 0 ∨ outlen > 64 ∨ key.length > 64 then .err else
  let s := b2Update F (msg.length + 1) (b2Init F paramInit outlen key salt personal) msg
  match b2Final F digest s outlen with
  | .err => .err
  | .ok o => .ok o

/-! ### Poly1305 streaming (donna front-end).  `blk st block hibit` absorbs one 16-byte block. -/

structure PolyState (σ : Type) where
  st : σ
  buffer : Bytes       -- buffer[0 .. leftover)

def polyBlocks {σ : Type} (blk : σ → Bytes → Bool → σ) : Nat → σ → Bytes → σ × Bytes
  | 0, st, m => (st, m)
  | fuel + 1, st, m => if m.length ≥ 16 then polyBlocks blk fuel (blk st (m.take 16) true) (m.drop 16) else (st, m)

def polyUpdate {σ : Type} (blk : σ → Bytes → Bool → σ) (s : PolyState σ) (m : Bytes) : PolyState σ :=
  -- handle leftover
  let want := min (16 - s.buffer.length) m.length
  let s1m : Option (PolyState σ) × Bytes :=
    if s.buffer.length > 0 then
      let buf := s.buffer ++ m.take want
      if buf.length < 16 then (none, [])                   -- return early; state = buffer only
      else (some ⟨blk s.st buf true, []⟩, m.drop want)
    else (some s, m)
  match s1m with
  | (none, _) => { s with buffer := s.buffer ++ m.take want }
  | (some s1, m1) =>
    -- process full blocks, store leftover
    let r := polyBlocks blk m1.length s1.st m1
    ⟨r.1, s1.buffer ++ r.2⟩

/-- poly1305_finish: a pending partial block is padded with 0x01 0* and absorbed with hibit = 0 -/
def polyFinish {σ : Type} (blk : σ → Bytes → Bool → σ) (fin : σ → Bytes) (s : PolyState σ) : Bytes :=
  if s.buffer.length > 0 then
    fin (blk s.st (s.buffer ++ 1 :: zeros (16 - s.buffer.length - 1)) false)
  else fin s.st

/-- The limb arithmetic of poly1305_blocks / poly1305_finish abstracted to naturals
    (state = (r, s, acc)); the limb code itself is tied to this by the correspondence run. -/
abbrev PolyNat := Nat × Nat × Nat
def polyInitNat (key : Bytes) : PolyState PolyNat :=
  ⟨(Spec.Poly1305.clampR (le (key.take 16)), le ((key.drop 16).take 16), 0), []⟩
def polyBlkNat (st : PolyNat) (b : Bytes) (hibit : Bool) : PolyNat :=
  (st.1, st.2.1, ((st.2.2 + le b + (if hibit then 2 ^ 128 else 0)) * st.1) % Spec.Poly1305.p)
def polyFinNat (st : PolyNat) : Bytes := toLE 16 ((st.2.2 + st.2.1) % 2 ^ 128)

/-! ### HMAC over a Merkle–Damgård hash given as init/update/final on `MdState` -/

structure HashOps (σ : Type) where
  W : Nat                                  -- block size
  outLen : Nat
  init : MdState σ
  update : MdState σ → Bytes → MdState σ
  final : MdState σ → Bytes

structure HmacState (σ : Type) where
  ictx : MdState σ
  octx : MdState σ

def xorPad (b : UInt8) (W : Nat) (key : Bytes) : Bytes :=
  (List.range W).map fun i => b ^^^ (key.getD i 0)

def hmacInit {σ : Type} (H : HashOps σ) (key : Bytes) : HmacState σ :=
  let key' := if key.length > H.W then H.final (H.update H.init key) else key
  ⟨H.update H.init (xorPad 0x36 H.W key'), H.update H.init (xorPad 0x5c H.W key')⟩

def hmacUpdate {σ : Type} (H : HashOps σ) (s : HmacState σ) (m : Bytes) : HmacState σ :=
  { s with ictx := H.update s.ictx m }

def hmacFinal {σ : Type} (H : HashOps σ) (s : HmacState σ) : Bytes :=
  H.final (H.update s.octx (H.final s.ictx))

def hmac {σ : Type} (H : HashOps σ) (key msg : Bytes) : Bytes :=
  hmacFinal H (hmacUpdate H (hmacInit H key) msg)

/-! ### HKDF (crypto_kdf_hkdf_*): extract = HMAC(salt, ikm); expand with the counter byte -/

/-- the `for` loop of expand: `n` full blocks already produced in `out`; `counter` as `unsigned char` -/
def hkdfExpandLoop {σ : Type} (H : HashOps σ) (prk ctx : Bytes) : Nat → Bytes → UInt8 → Bytes → Bytes
  | 0, _, _, out => out
  | k + 1, prev, counter, out =>
    let t := hmacFinal H (hmacUpdate H (hmacUpdate H (hmacUpdate H (hmacInit H prk) prev) ctx) [counter])
    hkdfExpandLoop H prk ctx k t (counter + 1) (out ++ t)

def hkdfExpand {σ : Type} (H : HashOps σ) (outLen : Nat) (ctx prk : Bytes) : HashResult :=
  if outLen > 255 * H.outLen then .err else      -- EINVAL
  let nfull := outLen / H.outLen
  let full := hkdfExpandLoop H prk ctx nfull [] 1 []
  let left := outLen % H.outLen
  if left ≠ 0 then
    let prev := full.drop (full.length - (if nfull = 0 then 0 else H.outLen))
    let t := hmacFinal H (hmacUpdate H (hmacUpdate H (hmacUpdate H (hmacInit H prk) prev) ctx) [UInt8.ofNat (nfull + 1)])
    .ok (full ++ t.take left)
  else .ok full

/-! ### crypto_kdf_blake2b_derive_from_key -/

def kdfBlake2b {σ : Type} (F : σ → Bytes → Nat → Bool → σ) (paramInit : Nat → Nat → Bytes → Bytes → σ)
    (digest : σ → Nat → Bytes) (subkeyLen : Nat) (subkeyId : UInt64) (ctx8 key32 : Bytes) : HashResult :=
  if subkeyLen < 16 ∨ subkeyLen > 64 then .err else
  generichash F paramInit digest subkeyLen [] key32 (toLE 8 subkeyId.toNat ++ zeros 8) (ctx8.take 8 ++ zeros 8)

end Sodium.Model
