import SodiumModel.Model.Blake2bSimdIntrin
import SodiumModel.Model.Argon2Ref
/-
  The VECTORISED Argon2 block-filling code of libsodium, modelled macro by macro:

  * `crypto_pwhash/argon2/argon2-fill-block-avx2.c`    + `blamka-round-avx2.h`    (namespace `Avx2`)
  * `crypto_pwhash/argon2/argon2-fill-block-ssse3.c`   + `blamka-round-ssse3.h`   (namespace `Ssse3`)
  * `crypto_pwhash/argon2/argon2-fill-block-avx512f.c` + `blamka-round-avx512f.h` (namespace `Avx512f`)
  * `crypto_pwhash/argon2/argon2-core.c`: the function pointer `fill_segment` (set by
    `argon2_pick_best_implementation`) as a parameter of `argon2_fill_memory_blocks` / `argon2_ctx`.

  Part 1 adds the intrinsics that `Model/Blake2bSimdIntrin.lean` does not define yet (`_mm_mul_epu32`,
  `_mm256_mul_epu32`, and the AVX-512F ones on a new register type `M512`).  They are TRUSTED BASE, in the
  same style: a transcription of the Intel "Operation" pseudo-code quoted in the doc-comment, validated
  against the CPU by `simdcheck/argon2/` (same calling convention as `simdcheck/blake2b/`).

  Conventions (beyond those of Model/Argon2Ref.lean)
  * a macro whose arguments are lvalues (`G1_AVX2(A0, A1, B0, …)`) is a function from the values of its
    arguments to their new values, collected in a structure `V8` whose fields carry the names of the
    formal parameters.  In each of the three headers every macro passes its formals on to the macros it
    calls under the same names, so only the call sites in `fill_block` bind names to `state[…]` entries;
  * `__m256i state[32]` is an `Array M256` (`Array M128` of 64, `Array M512` of 16); a block behind a
    `uint8_t *` that was cast from `block->v` is still the `Array UInt64` of its words:
    `_mm256_loadu_si256((__m256i const *) &ref_block[32 * i])` is the load of `v[4i … 4i+3]` (little-endian
    host, `_mm256_loadu_si256_u64`); `memcpy(state, block->v, 1024)` is the 32 (64, 16) loads of the block;
  * `block_XY` is uninitialised in C until the first loop has written all its entries (here: zero);
  * `generate_addresses` and `argon2_fill_segment_<isa>` are TEXTUALLY THE SAME in the three files except
    for the vector type and the name of the array-length macro (`diff` shows 3 hunks: the two
    `zero_block` / `zero2_block` declarations, the function name, the `state` declaration), so they are
    modelled once over a `Backend` (the state type, `memcpy` into it, `memset` of it, the two static
    block functions of the file).
  Core Lean only.
-/
namespace Sodium.Model.Argon2Simd
open Sodium Sodium.Model Sodium.Model.Blake2bSimd
open Sodium.Model.Argon2Ref (Block forLoop Instance Position State)

/-! ## Part 1: additional intrinsics (trusted, CPU-validated by simdcheck/argon2) -/

/-- `__m512i`: two 256-bit halves `lo` (bits 255:0), `hi` (bits 511:256) -/
structure M512 where
  /-- bits 255:0 -/
  lo : M256
  /-- bits 511:256 -/
  hi : M256
  deriving DecidableEq, Repr, Inhabited

namespace M512

/-- 256-bit half `k` (`a[256k+255 : 256k]`), `k < 2` -/
@[inline] def half (a : M512) (k : Nat) : M256 :=
  match k with
  | 0 => a.lo
  | 1 => a.hi
  | _ => ⟨⟨0, 0⟩, ⟨0, 0⟩⟩

/-- 64-bit lane `j`, `j < 8` -/
@[inline] def epi64 (a : M512) (j : Nat) : UInt64 := (a.half (j / 4)).epi64 (j % 4)
@[inline] def ofEpi64 (f : Nat → UInt64) : M512 := ⟨M256.ofEpi64 f, M256.ofEpi64 fun j => f (j + 4)⟩
/-- 32-bit lane `j`, `j < 16` -/
@[inline] def epi32 (a : M512) (j : Nat) : UInt32 := (a.half (j / 8)).epi32 (j % 8)
/-- 128-bit lane `k` (`a[128k+127 : 128k]`), `k < 4` -/
@[inline] def lane128 (a : M512) (k : Nat) : M128 := (a.half (k / 2)).lane (k % 2)
@[inline] def ofLane128 (f : Nat → M128) : M512 := ⟨⟨f 0, f 1⟩, ⟨f 2, f 3⟩⟩

end M512

/-- `_mm_mul_epu32(a, b)` (PMULUDQ): `dst[63:0] := a[31:0] * b[31:0]; dst[127:64] := a[95:64] * b[95:64]`
    (unsigned 32×32 → 64-bit products of the low halves of the 64-bit lanes) -/
@[inline] def _mm_mul_epu32 (a b : M128) : M128 :=
  M128.ofEpi64 fun j => (a.epi32 (2 * j)).toUInt64 * (b.epi32 (2 * j)).toUInt64

/-- `_mm256_mul_epu32(a, b)` (VPMULUDQ): `FOR j := 0 to 3; i := j*64; dst[i+63:i] := a[i+31:i] * b[i+31:i]; ENDFOR` -/
@[inline] def _mm256_mul_epu32 (a b : M256) : M256 :=
  M256.ofEpi64 fun j => (a.epi32 (2 * j)).toUInt64 * (b.epi32 (2 * j)).toUInt64

/-- `_mm512_mul_epu32(a, b)` (VPMULUDQ): `FOR j := 0 to 7; i := j*64; dst[i+63:i] := a[i+31:i] * b[i+31:i]; ENDFOR` -/
@[inline] def _mm512_mul_epu32 (a b : M512) : M512 :=
  M512.ofEpi64 fun j => (a.epi32 (2 * j)).toUInt64 * (b.epi32 (2 * j)).toUInt64

/-- `_mm512_add_epi64(a, b)`: `FOR j := 0 to 7; i := j*64; dst[i+63:i] := a[i+63:i] + b[i+63:i]; ENDFOR` -/
@[inline] def _mm512_add_epi64 (a b : M512) : M512 := M512.ofEpi64 fun j => a.epi64 j + b.epi64 j

/-- `_mm512_xor_si512(a, b)`: `dst[511:0] := (a[511:0] XOR b[511:0])` -/
@[inline] def _mm512_xor_si512 (a b : M512) : M512 := M512.ofEpi64 fun j => a.epi64 j ^^^ b.epi64 j

/-- `_mm512_ror_epi64(a, imm8)` (VPRORQ):
    `DEFINE RIGHT_ROTATE_QWORDS(src, count_src) { count := count_src % 64; RETURN (src >> count) OR (src << (64 - count)) }
     FOR j := 0 to 7; i := j*64; dst[i+63:i] := RIGHT_ROTATE_QWORDS(a[i+63:i], imm8[7:0]); ENDFOR`
    (for `count = 0` the 64-bit value `src << 64` is 0 and the result is `src`) -/
@[inline] def _mm512_ror_epi64 (a : M512) (imm8 : Nat) : M512 :=
  M512.ofEpi64 fun j =>
    let count := imm8 % 256 % 64
    (a.epi64 j >>> UInt64.ofNat count) ||| (if count = 0 then 0 else a.epi64 j <<< UInt64.ofNat (64 - count))

/-- `_mm512_permutex_epi64(a, imm8)` (VPERMQ): the SELECT4 of `_mm256_permute4x64_epi64` within each 256-bit half:
    `dst[63:0] := SELECT4(a[255:0], imm8[1:0]); … dst[255:192] := SELECT4(a[255:0], imm8[7:6]);
     dst[319:256] := SELECT4(a[511:256], imm8[1:0]); … dst[511:448] := SELECT4(a[511:256], imm8[7:6])` -/
@[inline] def _mm512_permutex_epi64 (a : M512) (imm8 : Nat) : M512 :=
  ⟨_mm256_permute4x64_epi64 a.lo imm8, _mm256_permute4x64_epi64 a.hi imm8⟩

/-- `_mm512_shuffle_i64x2(a, b, imm8)` (VSHUFI64X2):
    `DEFINE SELECT4(src, control) { CASE(control[1:0]) OF 0: tmp[127:0] := src[127:0]; 1: tmp[127:0] := src[255:128];
       2: tmp[127:0] := src[383:256]; 3: tmp[127:0] := src[511:384]; ESAC; RETURN tmp[127:0] }
     dst[127:0] := SELECT4(a[511:0], imm8[1:0]); dst[255:128] := SELECT4(a[511:0], imm8[3:2]);
     dst[383:256] := SELECT4(b[511:0], imm8[5:4]); dst[511:384] := SELECT4(b[511:0], imm8[7:6])` -/
@[inline] def _mm512_shuffle_i64x2 (a b : M512) (imm8 : Nat) : M512 :=
  M512.ofLane128 fun k => (if k < 2 then a else b).lane128 ((imm8 >>> (2 * k)) % 4)

/-- `_mm512_permutexvar_epi64(idx, a)` (VPERMQ):
    `FOR j := 0 to 7; i := j*64; id := idx[i+2:i]*64; dst[i+63:i] := a[id+63:id]; ENDFOR` -/
@[inline] def _mm512_permutexvar_epi64 (idx a : M512) : M512 :=
  M512.ofEpi64 fun j => a.epi64 ((idx.epi64 j).toNat % 8)

/-- `_mm512_setr_epi64(e0, …, e7)`: `dst[63:0] := e0; dst[127:64] := e1; …; dst[511:448] := e7` -/
@[inline] def _mm512_setr_epi64 (e0 e1 e2 e3 e4 e5 e6 e7 : UInt64) : M512 :=
  M512.ofEpi64 fun j => [e0, e1, e2, e3, e4, e5, e6, e7].getD j 0

/-- `_mm512_loadu_si512((__m512i const *) &mem[i])` with `mem` a `uint64_t` array:
    `dst[511:0] := MEM[mem_addr+511:mem_addr]`; on the little-endian x86 the 64-bit lanes of the result are
    `mem[i] … mem[i+7]` -/
@[inline] def _mm512_loadu_si512_u64 (mem : Array UInt64) (i : Nat) : M512 := M512.ofEpi64 fun j => mem.getD (i + j) 0

/-- `_mm512_storeu_si512((__m512i *) &mem[i], a)` with `mem` a `uint64_t` array:
    `MEM[mem_addr+511:mem_addr] := a[511:0]` -/
@[inline] def _mm512_storeu_si512_u64 (mem : Array UInt64) (i : Nat) (a : M512) : Array UInt64 :=
  (((((((mem.setIfInBounds (i + 0) (a.epi64 0)).setIfInBounds (i + 1) (a.epi64 1)).setIfInBounds (i + 2)
    (a.epi64 2)).setIfInBounds (i + 3) (a.epi64 3)).setIfInBounds (i + 4) (a.epi64 4)).setIfInBounds (i + 5)
    (a.epi64 5)).setIfInBounds (i + 6) (a.epi64 6)).setIfInBounds (i + 7) (a.epi64 7)

/-! ## Part 2: blamka-round-avx2.h / argon2-fill-block-avx2.c -/
namespace Avx2

/-- `ARGON2_HWORDS_IN_BLOCK` = `ARGON2_BLOCK_SIZE / 32` -/
def ARGON2_HWORDS_IN_BLOCK : Nat := 32

/-- `#define rotr32(x) _mm256_shuffle_epi32(x, _MM_SHUFFLE(2, 3, 0, 1))` -/
def rotr32 (x : M256) : M256 := _mm256_shuffle_epi32 x (_MM_SHUFFLE 2 3 0 1)
/-- `#define rotr24(x) _mm256_shuffle_epi8(x, _mm256_setr_epi8(3, 4, 5, 6, 7, 0, 1, 2, 11, 12, 13, 14, 15, 8, 9, 10, 3, 4, …))` -/
def rotr24 (x : M256) : M256 :=
  _mm256_shuffle_epi8 x (_mm256_setr_epi8 3 4 5 6 7 0 1 2 11 12 13 14 15 8 9 10 3 4 5 6 7 0 1 2 11 12 13 14 15 8 9 10)
/-- `#define rotr16(x) _mm256_shuffle_epi8(x, _mm256_setr_epi8(2, 3, 4, 5, 6, 7, 0, 1, 10, 11, 12, 13, 14, 15, 8, 9, 2, 3, …))` -/
def rotr16 (x : M256) : M256 :=
  _mm256_shuffle_epi8 x (_mm256_setr_epi8 2 3 4 5 6 7 0 1 10 11 12 13 14 15 8 9 2 3 4 5 6 7 0 1 10 11 12 13 14 15 8 9)
/-- `#define rotr63(x) _mm256_xor_si256(_mm256_srli_epi64((x), 63), _mm256_add_epi64((x), (x)))` -/
def rotr63 (x : M256) : M256 := _mm256_xor_si256 (_mm256_srli_epi64 x 63) (_mm256_add_epi64 x x)

/-- the eight lvalues `A0, A1, B0, B1, C0, C1, D0, D1` of the round macros -/
structure V8 where
  A0 : M256
  A1 : M256
  B0 : M256
  B1 : M256
  C0 : M256
  C1 : M256
  D0 : M256
  D1 : M256

/-- `G1_AVX2(A0, A1, B0, B1, C0, C1, D0, D1)` -/
def G1_AVX2 (v : V8) : V8 :=
  let ⟨A0, A1, B0, B1, C0, C1, D0, D1⟩ := v
  let ml := _mm256_mul_epu32 A0 B0
  let ml := _mm256_add_epi64 ml ml
  let A0 := _mm256_add_epi64 A0 (_mm256_add_epi64 B0 ml)
  let D0 := _mm256_xor_si256 D0 A0
  let D0 := rotr32 D0
  let ml := _mm256_mul_epu32 C0 D0
  let ml := _mm256_add_epi64 ml ml
  let C0 := _mm256_add_epi64 C0 (_mm256_add_epi64 D0 ml)
  let B0 := _mm256_xor_si256 B0 C0
  let B0 := rotr24 B0
  let ml := _mm256_mul_epu32 A1 B1
  let ml := _mm256_add_epi64 ml ml
  let A1 := _mm256_add_epi64 A1 (_mm256_add_epi64 B1 ml)
  let D1 := _mm256_xor_si256 D1 A1
  let D1 := rotr32 D1
  let ml := _mm256_mul_epu32 C1 D1
  let ml := _mm256_add_epi64 ml ml
  let C1 := _mm256_add_epi64 C1 (_mm256_add_epi64 D1 ml)
  let B1 := _mm256_xor_si256 B1 C1
  let B1 := rotr24 B1
  ⟨A0, A1, B0, B1, C0, C1, D0, D1⟩

/-- `G2_AVX2(A0, A1, B0, B1, C0, C1, D0, D1)` -/
def G2_AVX2 (v : V8) : V8 :=
  let ⟨A0, A1, B0, B1, C0, C1, D0, D1⟩ := v
  let ml := _mm256_mul_epu32 A0 B0
  let ml := _mm256_add_epi64 ml ml
  let A0 := _mm256_add_epi64 A0 (_mm256_add_epi64 B0 ml)
  let D0 := _mm256_xor_si256 D0 A0
  let D0 := rotr16 D0
  let ml := _mm256_mul_epu32 C0 D0
  let ml := _mm256_add_epi64 ml ml
  let C0 := _mm256_add_epi64 C0 (_mm256_add_epi64 D0 ml)
  let B0 := _mm256_xor_si256 B0 C0
  let B0 := rotr63 B0
  let ml := _mm256_mul_epu32 A1 B1
  let ml := _mm256_add_epi64 ml ml
  let A1 := _mm256_add_epi64 A1 (_mm256_add_epi64 B1 ml)
  let D1 := _mm256_xor_si256 D1 A1
  let D1 := rotr16 D1
  let ml := _mm256_mul_epu32 C1 D1
  let ml := _mm256_add_epi64 ml ml
  let C1 := _mm256_add_epi64 C1 (_mm256_add_epi64 D1 ml)
  let B1 := _mm256_xor_si256 B1 C1
  let B1 := rotr63 B1
  ⟨A0, A1, B0, B1, C0, C1, D0, D1⟩

/-- `DIAGONALIZE_1(A0, B0, C0, D0, A1, B1, C1, D1)` -/
def DIAGONALIZE_1 (v : V8) : V8 :=
  let ⟨A0, A1, B0, B1, C0, C1, D0, D1⟩ := v
  let B0 := _mm256_permute4x64_epi64 B0 (_MM_SHUFFLE 0 3 2 1)
  let C0 := _mm256_permute4x64_epi64 C0 (_MM_SHUFFLE 1 0 3 2)
  let D0 := _mm256_permute4x64_epi64 D0 (_MM_SHUFFLE 2 1 0 3)
  let B1 := _mm256_permute4x64_epi64 B1 (_MM_SHUFFLE 0 3 2 1)
  let C1 := _mm256_permute4x64_epi64 C1 (_MM_SHUFFLE 1 0 3 2)
  let D1 := _mm256_permute4x64_epi64 D1 (_MM_SHUFFLE 2 1 0 3)
  ⟨A0, A1, B0, B1, C0, C1, D0, D1⟩

/-- `DIAGONALIZE_2(A0, A1, B0, B1, C0, C1, D0, D1)` -/
def DIAGONALIZE_2 (v : V8) : V8 :=
  let ⟨A0, A1, B0, B1, C0, C1, D0, D1⟩ := v
  let tmp1 := _mm256_blend_epi32 B0 B1 0xCC
  let tmp2 := _mm256_blend_epi32 B0 B1 0x33
  let B1 := _mm256_permute4x64_epi64 tmp1 (_MM_SHUFFLE 2 3 0 1)
  let B0 := _mm256_permute4x64_epi64 tmp2 (_MM_SHUFFLE 2 3 0 1)
  let tmp1 := C0
  let C0 := C1
  let C1 := tmp1
  let tmp1 := _mm256_blend_epi32 D0 D1 0xCC
  let tmp2 := _mm256_blend_epi32 D0 D1 0x33
  let D0 := _mm256_permute4x64_epi64 tmp1 (_MM_SHUFFLE 2 3 0 1)
  let D1 := _mm256_permute4x64_epi64 tmp2 (_MM_SHUFFLE 2 3 0 1)
  ⟨A0, A1, B0, B1, C0, C1, D0, D1⟩

/-- `UNDIAGONALIZE_1(A0, B0, C0, D0, A1, B1, C1, D1)` -/
def UNDIAGONALIZE_1 (v : V8) : V8 :=
  let ⟨A0, A1, B0, B1, C0, C1, D0, D1⟩ := v
  let B0 := _mm256_permute4x64_epi64 B0 (_MM_SHUFFLE 2 1 0 3)
  let C0 := _mm256_permute4x64_epi64 C0 (_MM_SHUFFLE 1 0 3 2)
  let D0 := _mm256_permute4x64_epi64 D0 (_MM_SHUFFLE 0 3 2 1)
  let B1 := _mm256_permute4x64_epi64 B1 (_MM_SHUFFLE 2 1 0 3)
  let C1 := _mm256_permute4x64_epi64 C1 (_MM_SHUFFLE 1 0 3 2)
  let D1 := _mm256_permute4x64_epi64 D1 (_MM_SHUFFLE 0 3 2 1)
  ⟨A0, A1, B0, B1, C0, C1, D0, D1⟩

/-- `UNDIAGONALIZE_2(A0, A1, B0, B1, C0, C1, D0, D1)` -/
def UNDIAGONALIZE_2 (v : V8) : V8 :=
  let ⟨A0, A1, B0, B1, C0, C1, D0, D1⟩ := v
  let tmp1 := _mm256_blend_epi32 B0 B1 0xCC
  let tmp2 := _mm256_blend_epi32 B0 B1 0x33
  let B0 := _mm256_permute4x64_epi64 tmp1 (_MM_SHUFFLE 2 3 0 1)
  let B1 := _mm256_permute4x64_epi64 tmp2 (_MM_SHUFFLE 2 3 0 1)
  let tmp1 := C0
  let C0 := C1
  let C1 := tmp1
  let tmp1 := _mm256_blend_epi32 D0 D1 0x33
  let tmp2 := _mm256_blend_epi32 D0 D1 0xCC
  let D0 := _mm256_permute4x64_epi64 tmp1 (_MM_SHUFFLE 2 3 0 1)
  let D1 := _mm256_permute4x64_epi64 tmp2 (_MM_SHUFFLE 2 3 0 1)
  ⟨A0, A1, B0, B1, C0, C1, D0, D1⟩

/-- `BLAKE2_ROUND_1(A0, A1, B0, B1, C0, C1, D0, D1)` -/
def BLAKE2_ROUND_1 (v : V8) : V8 :=
  let v := G1_AVX2 v
  let v := G2_AVX2 v
  let v := DIAGONALIZE_1 v
  let v := G1_AVX2 v
  let v := G2_AVX2 v
  UNDIAGONALIZE_1 v

/-- `BLAKE2_ROUND_2(A0, A1, B0, B1, C0, C1, D0, D1)` -/
def BLAKE2_ROUND_2 (v : V8) : V8 :=
  let v := G1_AVX2 v
  let v := G2_AVX2 v
  let v := DIAGONALIZE_2 v
  let v := G1_AVX2 v
  let v := G2_AVX2 v
  UNDIAGONALIZE_2 v

/-- the body of `for (i = 0; i < 4; ++i) BLAKE2_ROUND_1(state[8 * i + 0], state[8 * i + 4], state[8 * i + 1],
    state[8 * i + 5], state[8 * i + 2], state[8 * i + 6], state[8 * i + 3], state[8 * i + 7]);` -/
def round_1_at (i : Nat) (state : Array M256) : Array M256 :=
  let r := BLAKE2_ROUND_1
    { A0 := state[8 * i + 0]!, A1 := state[8 * i + 4]!, B0 := state[8 * i + 1]!, B1 := state[8 * i + 5]!,
      C0 := state[8 * i + 2]!, C1 := state[8 * i + 6]!, D0 := state[8 * i + 3]!, D1 := state[8 * i + 7]! }
  state |>.set! (8 * i + 0) r.A0 |>.set! (8 * i + 1) r.B0 |>.set! (8 * i + 2) r.C0 |>.set! (8 * i + 3) r.D0
    |>.set! (8 * i + 4) r.A1 |>.set! (8 * i + 5) r.B1 |>.set! (8 * i + 6) r.C1 |>.set! (8 * i + 7) r.D1

/-- the body of `for (i = 0; i < 4; ++i) BLAKE2_ROUND_2(state[0 + i], state[4 + i], state[8 + i], state[12 + i],
    state[16 + i], state[20 + i], state[24 + i], state[28 + i]);` -/
def round_2_at (i : Nat) (state : Array M256) : Array M256 :=
  let r := BLAKE2_ROUND_2
    { A0 := state[0 + i]!, A1 := state[4 + i]!, B0 := state[8 + i]!, B1 := state[12 + i]!,
      C0 := state[16 + i]!, C1 := state[20 + i]!, D0 := state[24 + i]!, D1 := state[28 + i]! }
  state |>.set! (0 + i) r.A0 |>.set! (4 + i) r.A1 |>.set! (8 + i) r.B0 |>.set! (12 + i) r.B1
    |>.set! (16 + i) r.C0 |>.set! (20 + i) r.C1 |>.set! (24 + i) r.D0 |>.set! (28 + i) r.D1

/-- the two `for (i = 0; i < 4; ++i)` loops of `fill_block` / `fill_block_with_xor` -/
def blake2_rounds (state : Array M256) : Array M256 :=
  let state := forLoop round_1_at 4 0 state
  forLoop round_2_at 4 0 state

/-- the last loop of both functions:
    `state[i] = _mm256_xor_si256(state[i], block_XY[i]); _mm256_storeu_si256((__m256i *) (&next_block[32 * i]), state[i]);` -/
def xor_store (block_XY : Array M256) (state : Array M256) (next_block : Block) : Array M256 × Block :=
  forLoop (fun i (s : Array M256 × Block) =>
    let v := _mm256_xor_si256 s.1[i]! block_XY[i]!
    (s.1.set! i v, _mm256_storeu_si256_u64 s.2 (4 * i) v)) ARGON2_HWORDS_IN_BLOCK 0 (state, next_block)

/-- `fill_block(state, ref_block, next_block)`: the new `state[0..32)` and `*next_block` -/
def fill_block (state : Array M256) (ref_block next_block : Block) : Array M256 × Block :=
  let block_XY : Array M256 := Array.replicate ARGON2_HWORDS_IN_BLOCK ⟨⟨0, 0⟩, ⟨0, 0⟩⟩
  let r := forLoop (fun i (s : Array M256 × Array M256) =>
    let v := _mm256_xor_si256 s.1[i]! (_mm256_loadu_si256_u64 ref_block (4 * i))
    (s.1.set! i v, s.2.set! i v)) ARGON2_HWORDS_IN_BLOCK 0 (state, block_XY)
  let state := r.1
  let block_XY := r.2
  let state := blake2_rounds state
  xor_store block_XY state next_block

/-- `fill_block_with_xor(state, ref_block, next_block)`: the new `state[0..32)` and `*next_block` -/
def fill_block_with_xor (state : Array M256) (ref_block next_block : Block) : Array M256 × Block :=
  let block_XY : Array M256 := Array.replicate ARGON2_HWORDS_IN_BLOCK ⟨⟨0, 0⟩, ⟨0, 0⟩⟩
  let r := forLoop (fun i (s : Array M256 × Array M256) =>
    let v := _mm256_xor_si256 s.1[i]! (_mm256_loadu_si256_u64 ref_block (4 * i))
    (s.1.set! i v, s.2.set! i (_mm256_xor_si256 v (_mm256_loadu_si256_u64 next_block (4 * i)))))
    ARGON2_HWORDS_IN_BLOCK 0 (state, block_XY)
  let state := r.1
  let block_XY := r.2
  let state := blake2_rounds state
  xor_store block_XY state next_block

end Avx2

/-! ## Part 3: blamka-round-ssse3.h / argon2-fill-block-ssse3.c -/
namespace Ssse3

/-- `ARGON2_OWORDS_IN_BLOCK` = `ARGON2_BLOCK_SIZE / 16` -/
def ARGON2_OWORDS_IN_BLOCK : Nat := 64

/-- `#define r16 (_mm_setr_epi8(2, 3, 4, 5, 6, 7, 0, 1, 10, 11, 12, 13, 14, 15, 8, 9))` -/
def r16 : M128 := _mm_setr_epi8 2 3 4 5 6 7 0 1 10 11 12 13 14 15 8 9
/-- `#define r24 (_mm_setr_epi8(3, 4, 5, 6, 7, 0, 1, 2, 11, 12, 13, 14, 15, 8, 9, 10))` -/
def r24 : M128 := _mm_setr_epi8 3 4 5 6 7 0 1 2 11 12 13 14 15 8 9 10

/-- the macro `_mm_roti_epi64(x, c)` (non-XOP definition), a chain of `?:` on the constant `-(c)`:
    ```
    (-(c) == 32) ? _mm_shuffle_epi32((x), _MM_SHUFFLE(2, 3, 0, 1))
    : (-(c) == 24) ? _mm_shuffle_epi8((x), r24)
    : (-(c) == 16) ? _mm_shuffle_epi8((x), r16)
    : (-(c) == 63) ? _mm_xor_si128(_mm_srli_epi64((x), -(c)), _mm_add_epi64((x), (x)))
    : _mm_xor_si128(_mm_srli_epi64((x), -(c)), _mm_slli_epi64((x), 64 - (-(c))))
    ```
    (`int` arguments of the shift intrinsics: only the low 8 bits are used) -/
def _mm_roti_epi64 (x : M128) (c : Int) : M128 :=
  if -c = 32 then _mm_shuffle_epi32 x (_MM_SHUFFLE 2 3 0 1)
  else if -c = 24 then _mm_shuffle_epi8 x r24
  else if -c = 16 then _mm_shuffle_epi8 x r16
  else if -c = 63 then _mm_xor_si128 (_mm_srli_epi64 x ((-c) % 256).toNat) (_mm_add_epi64 x x)
  else _mm_xor_si128 (_mm_srli_epi64 x ((-c) % 256).toNat) (_mm_slli_epi64 x ((64 - (-c)) % 256).toNat)

/-- `static inline __m128i fBlaMka(__m128i x, __m128i y)`:
    `const __m128i z = _mm_mul_epu32(x, y); return _mm_add_epi64(_mm_add_epi64(x, y), _mm_add_epi64(z, z));` -/
def fBlaMka (x y : M128) : M128 :=
  let z := _mm_mul_epu32 x y
  _mm_add_epi64 (_mm_add_epi64 x y) (_mm_add_epi64 z z)

/-- the eight lvalues of the round macros -/
structure V8 where
  A0 : M128
  A1 : M128
  B0 : M128
  B1 : M128
  C0 : M128
  C1 : M128
  D0 : M128
  D1 : M128

/-- `G1(A0, B0, C0, D0, A1, B1, C1, D1)` -/
def G1 (v : V8) : V8 :=
  let ⟨A0, A1, B0, B1, C0, C1, D0, D1⟩ := v
  let A0 := fBlaMka A0 B0
  let A1 := fBlaMka A1 B1
  let D0 := _mm_xor_si128 D0 A0
  let D1 := _mm_xor_si128 D1 A1
  let D0 := _mm_roti_epi64 D0 (-32)
  let D1 := _mm_roti_epi64 D1 (-32)
  let C0 := fBlaMka C0 D0
  let C1 := fBlaMka C1 D1
  let B0 := _mm_xor_si128 B0 C0
  let B1 := _mm_xor_si128 B1 C1
  let B0 := _mm_roti_epi64 B0 (-24)
  let B1 := _mm_roti_epi64 B1 (-24)
  ⟨A0, A1, B0, B1, C0, C1, D0, D1⟩

/-- `G2(A0, B0, C0, D0, A1, B1, C1, D1)` -/
def G2 (v : V8) : V8 :=
  let ⟨A0, A1, B0, B1, C0, C1, D0, D1⟩ := v
  let A0 := fBlaMka A0 B0
  let A1 := fBlaMka A1 B1
  let D0 := _mm_xor_si128 D0 A0
  let D1 := _mm_xor_si128 D1 A1
  let D0 := _mm_roti_epi64 D0 (-16)
  let D1 := _mm_roti_epi64 D1 (-16)
  let C0 := fBlaMka C0 D0
  let C1 := fBlaMka C1 D1
  let B0 := _mm_xor_si128 B0 C0
  let B1 := _mm_xor_si128 B1 C1
  let B0 := _mm_roti_epi64 B0 (-63)
  let B1 := _mm_roti_epi64 B1 (-63)
  ⟨A0, A1, B0, B1, C0, C1, D0, D1⟩

/-- `DIAGONALIZE(A0, B0, C0, D0, A1, B1, C1, D1)` -/
def DIAGONALIZE (v : V8) : V8 :=
  let ⟨A0, A1, B0, B1, C0, C1, D0, D1⟩ := v
  let t0 := _mm_alignr_epi8 B1 B0 8
  let t1 := _mm_alignr_epi8 B0 B1 8
  let B0 := t0
  let B1 := t1
  let t0 := C0
  let C0 := C1
  let C1 := t0
  let t0 := _mm_alignr_epi8 D1 D0 8
  let t1 := _mm_alignr_epi8 D0 D1 8
  let D0 := t1
  let D1 := t0
  ⟨A0, A1, B0, B1, C0, C1, D0, D1⟩

/-- `UNDIAGONALIZE(A0, B0, C0, D0, A1, B1, C1, D1)` -/
def UNDIAGONALIZE (v : V8) : V8 :=
  let ⟨A0, A1, B0, B1, C0, C1, D0, D1⟩ := v
  let t0 := _mm_alignr_epi8 B0 B1 8
  let t1 := _mm_alignr_epi8 B1 B0 8
  let B0 := t0
  let B1 := t1
  let t0 := C0
  let C0 := C1
  let C1 := t0
  let t0 := _mm_alignr_epi8 D0 D1 8
  let t1 := _mm_alignr_epi8 D1 D0 8
  let D0 := t1
  let D1 := t0
  ⟨A0, A1, B0, B1, C0, C1, D0, D1⟩

/-- `BLAKE2_ROUND(A0, A1, B0, B1, C0, C1, D0, D1)` -/
def BLAKE2_ROUND (v : V8) : V8 :=
  let v := G1 v
  let v := G2 v
  let v := DIAGONALIZE v
  let v := G1 v
  let v := G2 v
  UNDIAGONALIZE v

/-- the body of `for (i = 0; i < 8; ++i) BLAKE2_ROUND(state[8 * i + 0], state[8 * i + 1], …, state[8 * i + 7]);` -/
def round_1_at (i : Nat) (state : Array M128) : Array M128 :=
  let r := BLAKE2_ROUND
    { A0 := state[8 * i + 0]!, A1 := state[8 * i + 1]!, B0 := state[8 * i + 2]!, B1 := state[8 * i + 3]!,
      C0 := state[8 * i + 4]!, C1 := state[8 * i + 5]!, D0 := state[8 * i + 6]!, D1 := state[8 * i + 7]! }
  state |>.set! (8 * i + 0) r.A0 |>.set! (8 * i + 1) r.A1 |>.set! (8 * i + 2) r.B0 |>.set! (8 * i + 3) r.B1
    |>.set! (8 * i + 4) r.C0 |>.set! (8 * i + 5) r.C1 |>.set! (8 * i + 6) r.D0 |>.set! (8 * i + 7) r.D1

/-- the body of `for (i = 0; i < 8; ++i) BLAKE2_ROUND(state[8 * 0 + i], state[8 * 1 + i], …, state[8 * 7 + i]);` -/
def round_2_at (i : Nat) (state : Array M128) : Array M128 :=
  let r := BLAKE2_ROUND
    { A0 := state[8 * 0 + i]!, A1 := state[8 * 1 + i]!, B0 := state[8 * 2 + i]!, B1 := state[8 * 3 + i]!,
      C0 := state[8 * 4 + i]!, C1 := state[8 * 5 + i]!, D0 := state[8 * 6 + i]!, D1 := state[8 * 7 + i]! }
  state |>.set! (8 * 0 + i) r.A0 |>.set! (8 * 1 + i) r.A1 |>.set! (8 * 2 + i) r.B0 |>.set! (8 * 3 + i) r.B1
    |>.set! (8 * 4 + i) r.C0 |>.set! (8 * 5 + i) r.C1 |>.set! (8 * 6 + i) r.D0 |>.set! (8 * 7 + i) r.D1

/-- the two `for (i = 0; i < 8; ++i)` loops of `fill_block` / `fill_block_with_xor` -/
def blake2_rounds (state : Array M128) : Array M128 :=
  let state := forLoop round_1_at 8 0 state
  forLoop round_2_at 8 0 state

/-- the last loop: `state[i] = _mm_xor_si128(state[i], block_XY[i]); _mm_storeu_si128((__m128i *) (&next_block[16 * i]), state[i]);` -/
def xor_store (block_XY : Array M128) (state : Array M128) (next_block : Block) : Array M128 × Block :=
  forLoop (fun i (s : Array M128 × Block) =>
    let v := _mm_xor_si128 s.1[i]! block_XY[i]!
    (s.1.set! i v, _mm_storeu_si128_u64 s.2 (2 * i) v)) ARGON2_OWORDS_IN_BLOCK 0 (state, next_block)

/-- `fill_block(state, ref_block, next_block)` -/
def fill_block (state : Array M128) (ref_block next_block : Block) : Array M128 × Block :=
  let block_XY : Array M128 := Array.replicate ARGON2_OWORDS_IN_BLOCK ⟨0, 0⟩
  let r := forLoop (fun i (s : Array M128 × Array M128) =>
    let v := _mm_xor_si128 s.1[i]! (_mm_loadu_si128_u64 ref_block (2 * i))
    (s.1.set! i v, s.2.set! i v)) ARGON2_OWORDS_IN_BLOCK 0 (state, block_XY)
  let state := r.1
  let block_XY := r.2
  let state := blake2_rounds state
  xor_store block_XY state next_block

/-- `fill_block_with_xor(state, ref_block, next_block)` -/
def fill_block_with_xor (state : Array M128) (ref_block next_block : Block) : Array M128 × Block :=
  let block_XY : Array M128 := Array.replicate ARGON2_OWORDS_IN_BLOCK ⟨0, 0⟩
  let r := forLoop (fun i (s : Array M128 × Array M128) =>
    let v := _mm_xor_si128 s.1[i]! (_mm_loadu_si128_u64 ref_block (2 * i))
    (s.1.set! i v, s.2.set! i (_mm_xor_si128 v (_mm_loadu_si128_u64 next_block (2 * i)))))
    ARGON2_OWORDS_IN_BLOCK 0 (state, block_XY)
  let state := r.1
  let block_XY := r.2
  let state := blake2_rounds state
  xor_store block_XY state next_block

end Ssse3

/-! ## Part 4: blamka-round-avx512f.h / argon2-fill-block-avx512f.c -/
namespace Avx512f

/-- `ARGON2_512BIT_WORDS_IN_BLOCK` = `ARGON2_BLOCK_SIZE / 64` -/
def ARGON2_512BIT_WORDS_IN_BLOCK : Nat := 16

/-- `#define ror64(x, n) _mm512_ror_epi64((x), (n))` -/
def ror64 (x : M512) (n : Nat) : M512 := _mm512_ror_epi64 x n

/-- `static inline __m512i muladd(__m512i x, __m512i y)`:
    `__m512i z = _mm512_mul_epu32(x, y); return _mm512_add_epi64(_mm512_add_epi64(x, y), _mm512_add_epi64(z, z));` -/
def muladd (x y : M512) : M512 :=
  let z := _mm512_mul_epu32 x y
  _mm512_add_epi64 (_mm512_add_epi64 x y) (_mm512_add_epi64 z z)

/-- the eight lvalues of the round macros -/
structure V8 where
  A0 : M512
  B0 : M512
  C0 : M512
  D0 : M512
  A1 : M512
  B1 : M512
  C1 : M512
  D1 : M512

/-- `G1_AVX512F(A0, B0, C0, D0, A1, B1, C1, D1)` -/
def G1_AVX512F (v : V8) : V8 :=
  let ⟨A0, B0, C0, D0, A1, B1, C1, D1⟩ := v
  let A0 := muladd A0 B0
  let A1 := muladd A1 B1
  let D0 := _mm512_xor_si512 D0 A0
  let D1 := _mm512_xor_si512 D1 A1
  let D0 := ror64 D0 32
  let D1 := ror64 D1 32
  let C0 := muladd C0 D0
  let C1 := muladd C1 D1
  let B0 := _mm512_xor_si512 B0 C0
  let B1 := _mm512_xor_si512 B1 C1
  let B0 := ror64 B0 24
  let B1 := ror64 B1 24
  ⟨A0, B0, C0, D0, A1, B1, C1, D1⟩

/-- `G2_AVX512F(A0, B0, C0, D0, A1, B1, C1, D1)` -/
def G2_AVX512F (v : V8) : V8 :=
  let ⟨A0, B0, C0, D0, A1, B1, C1, D1⟩ := v
  let A0 := muladd A0 B0
  let A1 := muladd A1 B1
  let D0 := _mm512_xor_si512 D0 A0
  let D1 := _mm512_xor_si512 D1 A1
  let D0 := ror64 D0 16
  let D1 := ror64 D1 16
  let C0 := muladd C0 D0
  let C1 := muladd C1 D1
  let B0 := _mm512_xor_si512 B0 C0
  let B1 := _mm512_xor_si512 B1 C1
  let B0 := ror64 B0 63
  let B1 := ror64 B1 63
  ⟨A0, B0, C0, D0, A1, B1, C1, D1⟩

/-- `DIAGONALIZE(A0, B0, C0, D0, A1, B1, C1, D1)` -/
def DIAGONALIZE (v : V8) : V8 :=
  let ⟨A0, B0, C0, D0, A1, B1, C1, D1⟩ := v
  let B0 := _mm512_permutex_epi64 B0 (_MM_SHUFFLE 0 3 2 1)
  let B1 := _mm512_permutex_epi64 B1 (_MM_SHUFFLE 0 3 2 1)
  let C0 := _mm512_permutex_epi64 C0 (_MM_SHUFFLE 1 0 3 2)
  let C1 := _mm512_permutex_epi64 C1 (_MM_SHUFFLE 1 0 3 2)
  let D0 := _mm512_permutex_epi64 D0 (_MM_SHUFFLE 2 1 0 3)
  let D1 := _mm512_permutex_epi64 D1 (_MM_SHUFFLE 2 1 0 3)
  ⟨A0, B0, C0, D0, A1, B1, C1, D1⟩

/-- `UNDIAGONALIZE(A0, B0, C0, D0, A1, B1, C1, D1)` -/
def UNDIAGONALIZE (v : V8) : V8 :=
  let ⟨A0, B0, C0, D0, A1, B1, C1, D1⟩ := v
  let B0 := _mm512_permutex_epi64 B0 (_MM_SHUFFLE 2 1 0 3)
  let B1 := _mm512_permutex_epi64 B1 (_MM_SHUFFLE 2 1 0 3)
  let C0 := _mm512_permutex_epi64 C0 (_MM_SHUFFLE 1 0 3 2)
  let C1 := _mm512_permutex_epi64 C1 (_MM_SHUFFLE 1 0 3 2)
  let D0 := _mm512_permutex_epi64 D0 (_MM_SHUFFLE 0 3 2 1)
  let D1 := _mm512_permutex_epi64 D1 (_MM_SHUFFLE 0 3 2 1)
  ⟨A0, B0, C0, D0, A1, B1, C1, D1⟩

/-- `BLAKE2_ROUND(A0, B0, C0, D0, A1, B1, C1, D1)` -/
def BLAKE2_ROUND (v : V8) : V8 :=
  let v := G1_AVX512F v
  let v := G2_AVX512F v
  let v := DIAGONALIZE v
  let v := G1_AVX512F v
  let v := G2_AVX512F v
  UNDIAGONALIZE v

/-- `SWAP_HALVES(A0, A1)`: the new values of (A0, A1) -/
def SWAP_HALVES (A0 A1 : M512) : M512 × M512 :=
  let t0 := _mm512_shuffle_i64x2 A0 A1 (_MM_SHUFFLE 1 0 1 0)
  let t1 := _mm512_shuffle_i64x2 A0 A1 (_MM_SHUFFLE 3 2 3 2)
  let A0 := t0
  let A1 := t1
  (A0, A1)

/-- `SWAP_QUARTERS(A0, A1)` -/
def SWAP_QUARTERS (A0 A1 : M512) : M512 × M512 :=
  let (A0, A1) := SWAP_HALVES A0 A1
  let A0 := _mm512_permutexvar_epi64 (_mm512_setr_epi64 0 1 4 5 2 3 6 7) A0
  let A1 := _mm512_permutexvar_epi64 (_mm512_setr_epi64 0 1 4 5 2 3 6 7) A1
  (A0, A1)

/-- `UNSWAP_QUARTERS(A0, A1)` -/
def UNSWAP_QUARTERS (A0 A1 : M512) : M512 × M512 :=
  let A0 := _mm512_permutexvar_epi64 (_mm512_setr_epi64 0 1 4 5 2 3 6 7) A0
  let A1 := _mm512_permutexvar_epi64 (_mm512_setr_epi64 0 1 4 5 2 3 6 7) A1
  SWAP_HALVES A0 A1

/-- `BLAKE2_ROUND_1(A0, C0, B0, D0, A1, C1, B1, D1)` -/
def BLAKE2_ROUND_1 (v : V8) : V8 :=
  let ⟨A0, B0, C0, D0, A1, B1, C1, D1⟩ := v
  let (A0, B0) := SWAP_HALVES A0 B0
  let (C0, D0) := SWAP_HALVES C0 D0
  let (A1, B1) := SWAP_HALVES A1 B1
  let (C1, D1) := SWAP_HALVES C1 D1
  let ⟨A0, B0, C0, D0, A1, B1, C1, D1⟩ := BLAKE2_ROUND ⟨A0, B0, C0, D0, A1, B1, C1, D1⟩
  let (A0, B0) := SWAP_HALVES A0 B0
  let (C0, D0) := SWAP_HALVES C0 D0
  let (A1, B1) := SWAP_HALVES A1 B1
  let (C1, D1) := SWAP_HALVES C1 D1
  ⟨A0, B0, C0, D0, A1, B1, C1, D1⟩

/-- `BLAKE2_ROUND_2(A0, A1, B0, B1, C0, C1, D0, D1)` -/
def BLAKE2_ROUND_2 (v : V8) : V8 :=
  let ⟨A0, B0, C0, D0, A1, B1, C1, D1⟩ := v
  let (A0, A1) := SWAP_QUARTERS A0 A1
  let (B0, B1) := SWAP_QUARTERS B0 B1
  let (C0, C1) := SWAP_QUARTERS C0 C1
  let (D0, D1) := SWAP_QUARTERS D0 D1
  let ⟨A0, B0, C0, D0, A1, B1, C1, D1⟩ := BLAKE2_ROUND ⟨A0, B0, C0, D0, A1, B1, C1, D1⟩
  let (A0, A1) := UNSWAP_QUARTERS A0 A1
  let (B0, B1) := UNSWAP_QUARTERS B0 B1
  let (C0, C1) := UNSWAP_QUARTERS C0 C1
  let (D0, D1) := UNSWAP_QUARTERS D0 D1
  ⟨A0, B0, C0, D0, A1, B1, C1, D1⟩

/-- the body of `for (i = 0; i < 2; ++i) BLAKE2_ROUND_1(state[8 * i + 0], state[8 * i + 1], …, state[8 * i + 7]);`
    (formal parameters in the order A0, C0, B0, D0, A1, C1, B1, D1) -/
def round_1_at (i : Nat) (state : Array M512) : Array M512 :=
  let r := BLAKE2_ROUND_1
    { A0 := state[8 * i + 0]!, C0 := state[8 * i + 1]!, B0 := state[8 * i + 2]!, D0 := state[8 * i + 3]!,
      A1 := state[8 * i + 4]!, C1 := state[8 * i + 5]!, B1 := state[8 * i + 6]!, D1 := state[8 * i + 7]! }
  state |>.set! (8 * i + 0) r.A0 |>.set! (8 * i + 1) r.C0 |>.set! (8 * i + 2) r.B0 |>.set! (8 * i + 3) r.D0
    |>.set! (8 * i + 4) r.A1 |>.set! (8 * i + 5) r.C1 |>.set! (8 * i + 6) r.B1 |>.set! (8 * i + 7) r.D1

/-- the body of `for (i = 0; i < 2; ++i) BLAKE2_ROUND_2(state[2 * 0 + i], state[2 * 1 + i], …, state[2 * 7 + i]);`
    (formal parameters in the order A0, A1, B0, B1, C0, C1, D0, D1) -/
def round_2_at (i : Nat) (state : Array M512) : Array M512 :=
  let r := BLAKE2_ROUND_2
    { A0 := state[2 * 0 + i]!, A1 := state[2 * 1 + i]!, B0 := state[2 * 2 + i]!, B1 := state[2 * 3 + i]!,
      C0 := state[2 * 4 + i]!, C1 := state[2 * 5 + i]!, D0 := state[2 * 6 + i]!, D1 := state[2 * 7 + i]! }
  state |>.set! (2 * 0 + i) r.A0 |>.set! (2 * 1 + i) r.A1 |>.set! (2 * 2 + i) r.B0 |>.set! (2 * 3 + i) r.B1
    |>.set! (2 * 4 + i) r.C0 |>.set! (2 * 5 + i) r.C1 |>.set! (2 * 6 + i) r.D0 |>.set! (2 * 7 + i) r.D1

/-- the two `for (i = 0; i < 2; ++i)` loops of `fill_block` / `fill_block_with_xor` -/
def blake2_rounds (state : Array M512) : Array M512 :=
  let state := forLoop round_1_at 2 0 state
  forLoop round_2_at 2 0 state

/-- the last loop: `state[i] = _mm512_xor_si512(state[i], block_XY[i]); _mm512_storeu_si512((__m512i *) (&next_block[64 * i]), state[i]);` -/
def xor_store (block_XY : Array M512) (state : Array M512) (next_block : Block) : Array M512 × Block :=
  forLoop (fun i (s : Array M512 × Block) =>
    let v := _mm512_xor_si512 s.1[i]! block_XY[i]!
    (s.1.set! i v, _mm512_storeu_si512_u64 s.2 (8 * i) v)) ARGON2_512BIT_WORDS_IN_BLOCK 0 (state, next_block)

/-- `fill_block(state, ref_block, next_block)` -/
def fill_block (state : Array M512) (ref_block next_block : Block) : Array M512 × Block :=
  let block_XY : Array M512 := Array.replicate ARGON2_512BIT_WORDS_IN_BLOCK default
  let r := forLoop (fun i (s : Array M512 × Array M512) =>
    let v := _mm512_xor_si512 s.1[i]! (_mm512_loadu_si512_u64 ref_block (8 * i))
    (s.1.set! i v, s.2.set! i v)) ARGON2_512BIT_WORDS_IN_BLOCK 0 (state, block_XY)
  let state := r.1
  let block_XY := r.2
  let state := blake2_rounds state
  xor_store block_XY state next_block

/-- `fill_block_with_xor(state, ref_block, next_block)` -/
def fill_block_with_xor (state : Array M512) (ref_block next_block : Block) : Array M512 × Block :=
  let block_XY : Array M512 := Array.replicate ARGON2_512BIT_WORDS_IN_BLOCK default
  let r := forLoop (fun i (s : Array M512 × Array M512) =>
    let v := _mm512_xor_si512 s.1[i]! (_mm512_loadu_si512_u64 ref_block (8 * i))
    (s.1.set! i v, s.2.set! i (_mm512_xor_si512 v (_mm512_loadu_si512_u64 next_block (8 * i)))))
    ARGON2_512BIT_WORDS_IN_BLOCK 0 (state, block_XY)
  let state := r.1
  let block_XY := r.2
  let state := blake2_rounds state
  xor_store block_XY state next_block

end Avx512f

/-! ## Part 5: generate_addresses, argon2_fill_segment_<isa> (the same text in the three files) -/

/-- what differs between the three files for `generate_addresses` / `argon2_fill_segment_<isa>`: the type of
    `state` (`__m256i state[ARGON2_HWORDS_IN_BLOCK]` …), `memcpy(state, block->v, ARGON2_BLOCK_SIZE)`,
    `memset(zero_block, 0, sizeof(zero_block))`, and the file's static `fill_block` / `fill_block_with_xor` -/
structure Backend where
  σ : Type
  memcpy_state : Block → σ
  zero_state : σ
  fill_block : σ → Block → Block → σ × Block
  fill_block_with_xor : σ → Block → Block → σ × Block

@[reducible] def Avx2.backend : Backend :=
  { σ := Array M256
    memcpy_state := fun v => (Array.range Avx2.ARGON2_HWORDS_IN_BLOCK).map fun i => _mm256_loadu_si256_u64 v (4 * i)
    zero_state := Array.replicate Avx2.ARGON2_HWORDS_IN_BLOCK ⟨⟨0, 0⟩, ⟨0, 0⟩⟩
    fill_block := Avx2.fill_block
    fill_block_with_xor := Avx2.fill_block_with_xor }

@[reducible] def Ssse3.backend : Backend :=
  { σ := Array M128
    memcpy_state := fun v => (Array.range Ssse3.ARGON2_OWORDS_IN_BLOCK).map fun i => _mm_loadu_si128_u64 v (2 * i)
    zero_state := Array.replicate Ssse3.ARGON2_OWORDS_IN_BLOCK ⟨0, 0⟩
    fill_block := Ssse3.fill_block
    fill_block_with_xor := Ssse3.fill_block_with_xor }

@[reducible] def Avx512f.backend : Backend :=
  { σ := Array M512
    memcpy_state := fun v => (Array.range Avx512f.ARGON2_512BIT_WORDS_IN_BLOCK).map fun i => _mm512_loadu_si512_u64 v (8 * i)
    zero_state := Array.replicate Avx512f.ARGON2_512BIT_WORDS_IN_BLOCK ⟨⟨⟨0, 0⟩, ⟨0, 0⟩⟩, ⟨⟨0, 0⟩, ⟨0, 0⟩⟩⟩
    fill_block := Avx512f.fill_block
    fill_block_with_xor := Avx512f.fill_block_with_xor }

/-- the body of `for (i = 0; i < instance->segment_length; ++i)` in `generate_addresses` (vector files):
    `zero_block` / `zero2_block` are declared and `memset` inside the `if`, `address_block` and `tmp_block` are
    re-initialised, the counter is bumped, and the two `fill_block_with_xor` calls run on the fresh zero states -/
def generate_addresses_step (B : Backend) (i : Nat) (s : Argon2Ref.GenState) : Argon2Ref.GenState :=
  let s :=
    if i % Argon2Ref.ARGON2_ADDRESSES_IN_BLOCK = 0 then
      let zero_block := B.zero_state
      let zero2_block := B.zero_state
      let address_block := Argon2Ref.init_block_value 0
      let tmp_block := Argon2Ref.init_block_value 0
      let input_block := s.input_block.set! 6 (s.input_block[6]! + 1)
      let tmp_block := (B.fill_block_with_xor zero_block input_block tmp_block).2
      let address_block := (B.fill_block_with_xor zero2_block tmp_block address_block).2
      { s with input_block := input_block, address_block := address_block }
    else s
  { s with pseudo_rands := s.pseudo_rands.set! i s.address_block[i % Argon2Ref.ARGON2_ADDRESSES_IN_BLOCK]! }

/-- `generate_addresses(instance, position, pseudo_rands)` of the vector files (both pointers non-NULL) -/
def generate_addresses (B : Backend) (inst : Instance) (position : Position) (pseudo_rands : Array UInt64) :
    Array UInt64 :=
  let address_block := Argon2Ref.init_block_value 0
  let input_block := Argon2Ref.init_block_value 0
  let input_block := input_block.set! 0 position.pass.toUInt64
  let input_block := input_block.set! 1 position.lane.toUInt64
  let input_block := input_block.set! 2 position.slice.toUInt64
  let input_block := input_block.set! 3 inst.memory_blocks.toUInt64
  let input_block := input_block.set! 4 inst.passes.toUInt64
  let input_block := input_block.set! 5 inst.type.toUInt64
  (forLoop (generate_addresses_step B) inst.segment_length.toNat 0
    { input_block := input_block, address_block := address_block, pseudo_rands := pseudo_rands }).pseudo_rands

/-- loop state of `argon2_fill_segment_<isa>`: `curr_offset`, `prev_offset`, the memory, `state` -/
structure SegState (σ : Type) where
  curr_offset : UInt32
  prev_offset : UInt32
  memory : Array Block
  state : σ

/-- the body of `for (i = starting_index; i < instance->segment_length; ++i, ++curr_offset, ++prev_offset)`:
    as in the reference file, except that the previous block is NOT read from memory: `state` holds it
    (`prev_offset` is still maintained and used for the data-dependent `pseudo_rand`) -/
def fill_segment_step (B : Backend) (inst : Instance) (position : Position) (data_independent_addressing : Bool)
    (pseudo_rands : Array UInt64) (i : Nat) (s : SegState B.σ) : SegState B.σ :=
  let curr_offset := s.curr_offset
  let memory := s.memory
  -- 1.1 Rotating prev_offset if needed
  let prev_offset := if curr_offset % inst.lane_length = 1 then curr_offset - 1 else s.prev_offset
  -- 1.2.1 Taking pseudo-random value from the previous block
  let pseudo_rand : UInt64 :=
    if data_independent_addressing then pseudo_rands[i]! else memory[prev_offset.toNat]![0]!
  -- 1.2.2 Computing the lane of the reference block
  let ref_lane : UInt64 := (pseudo_rand >>> 32) % inst.lanes.toUInt64
  let ref_lane := if position.pass = 0 ∧ position.slice = 0 then position.lane.toUInt64 else ref_lane
  -- 1.2.3 Computing the number of possible reference block within the lane
  let position := { position with index := UInt32.ofNat i }
  let ref_index : UInt64 :=
    (Argon2Ref.index_alpha inst position (pseudo_rand &&& 0xFFFFFFFF).toUInt32
      (ref_lane == position.lane.toUInt64)).toUInt64
  -- 2 Creating a new block
  let ref_block := memory[(inst.lane_length.toUInt64 * ref_lane + ref_index).toNat]!
  let curr_block := memory[curr_offset.toNat]!
  let r :=
    if position.pass ≠ 0 then B.fill_block_with_xor s.state ref_block curr_block
    else B.fill_block s.state ref_block curr_block
  { curr_offset := curr_offset + 1, prev_offset := prev_offset + 1,
    memory := memory.set! curr_offset.toNat r.2, state := r.1 }

/-- `argon2_fill_segment_<isa>(instance, position)`: the set-up is `Argon2Ref.fill_segment_init` with the file's own
    `generate_addresses`, followed by `memcpy(state, (instance->region->memory + prev_offset)->v, ARGON2_BLOCK_SIZE)` -/
def argon2_fill_segment (B : Backend) (inst : Instance) (position : Position) (st : State) : State :=
  let data_independent_addressing : Bool :=
    !(inst.type == Argon2Ref.Argon2_id &&
      (position.pass != 0 || position.slice.toUInt32 >= Argon2Ref.ARGON2_SYNC_POINTS / 2))
  let pseudo_rands :=
    if data_independent_addressing then generate_addresses B inst position st.pseudo_rands else st.pseudo_rands
  let starting_index : UInt32 := if position.pass = 0 ∧ position.slice = 0 then 2 else 0
  -- Offset of the current block
  let curr_offset : UInt32 :=
    position.lane * inst.lane_length + position.slice.toUInt32 * inst.segment_length + starting_index
  let prev_offset : UInt32 :=
    if curr_offset % inst.lane_length = 0 then curr_offset + inst.lane_length - 1 else curr_offset - 1
  let state := B.memcpy_state st.memory[prev_offset.toNat]!
  let s := forLoop (fill_segment_step B inst position data_independent_addressing pseudo_rands)
    (inst.segment_length.toNat - starting_index.toNat) starting_index.toNat
    { curr_offset := curr_offset, prev_offset := prev_offset, memory := st.memory, state := state }
  { memory := s.memory, pseudo_rands := pseudo_rands }

/-- `argon2_fill_segment_avx2` -/
def argon2_fill_segment_avx2 : Instance → Position → State → State := argon2_fill_segment Avx2.backend
/-- `argon2_fill_segment_ssse3` -/
def argon2_fill_segment_ssse3 : Instance → Position → State → State := argon2_fill_segment Ssse3.backend
/-- `argon2_fill_segment_avx512f` -/
def argon2_fill_segment_avx512f : Instance → Position → State → State := argon2_fill_segment Avx512f.backend

/-! ## Part 6: argon2-core.c / argon2.c with the function pointer `fill_segment` as a parameter -/

/-- `argon2_fill_memory_blocks(instance, pass)`; `fill_segment` = the `static fill_segment_fn fill_segment` of
    argon2-core.c (`argon2_fill_segment_ref` until `argon2_pick_best_implementation` replaces it) -/
def argon2_fill_memory_blocks (fill_segment : Instance → Position → State → State) (inst : Instance) (pass : UInt32)
    (st : State) : State :=
  if inst.lanes = 0 then st else
  forLoop (fun s st =>
    forLoop (fun l st =>
      fill_segment inst
        { pass := pass, slice := (UInt32.ofNat s).toUInt8, lane := UInt32.ofNat l, index := 0 } st)
      inst.lanes.toNat 0 st) Argon2Ref.ARGON2_SYNC_POINTS.toNat 0 st

/-- steps 2–5 of `argon2_ctx` (as `Argon2Ref.argon2_ctx_core`) with the selected `fill_segment` -/
def argon2_ctx_core (fill_segment : Instance → Position → State → State) (H : Nat → Bytes → Bytes)
    (c : Pwhash.Context) (pwd salt secret ad : Bytes) (type : UInt32) : Bytes :=
  let I := Pwhash.argon2_instance (UInt32.ofNat c.t_cost) (UInt32.ofNat c.m_cost) (UInt32.ofNat c.lanes)
    (UInt32.ofNat c.threads)
  let inst : Instance :=
    { passes := I.passes, memory_blocks := I.memory_blocks, segment_length := I.segment_length,
      lane_length := I.lane_length, lanes := I.lanes, threads := I.threads, type := type }
  let st := Argon2Ref.argon2_initialize H inst c pwd salt secret ad
  let st := forLoop (fun pass st => argon2_fill_memory_blocks fill_segment inst (UInt32.ofNat pass) st)
    inst.passes.toNat 0 st
  Argon2Ref.argon2_finalize H (UInt32.ofNat c.outlen) inst st

/-- the Argon2 core in the shape of `Pwhash.Prims.argon2`, over the selected `fill_segment` -/
def argon2_hash_model (fill_segment : Instance → Position → State → State) (H : Nat → Bytes → Bytes) (y : Nat)
    (pwd salt : Bytes) (t m lanes outlen : Nat) : Bytes :=
  argon2_ctx_core fill_segment H
    { outlen := outlen, pwdlen := pwd.length, saltlen := salt.length, t_cost := t, m_cost := m,
      lanes := lanes, threads := lanes }
    pwd salt [] [] (UInt32.ofNat y)

end Sodium.Model.Argon2Simd
