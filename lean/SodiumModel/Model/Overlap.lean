import SodiumModel.Model.Aead
/-
  Pointer-level models for C13 (in-place and overlapping buffers).

  A FLAT MEMORY `Mem := Nat → UInt8`; an address is a `Nat` (the theorems assume every region ends
  below 2^64, so the `uintptr_t` arithmetic of the C code is exact).  `read` returns the bytes of a
  region, `write` stores a byte string; `memmove` reads the whole source before it writes (which is
  the definition of memmove), `memset` stores a constant.

  On this memory, written to the structure of the C code:
    crypto_secretbox_detached / _easy / _open_detached / _open_easy   (crypto_secretbox_easy.c)
    crypto_sign_ed25519 / crypto_sign_ed25519_open                   (ref10/sign.c, ref10/open.c)
  and two models of a stream XOR on memory: the whole-region one (`streamXor`: read all of the input,
  XOR, write all of the output — it answers `none` = "not specified" when the two regions overlap
  partially) and the chunk-by-chunk one (`xorChunks`: what every implementation does: load a chunk
  of `m`, XOR it with the keystream, store it to `c`, advance; chunk sizes 1 (ref), 64, 256, 512...).

  Everything that is a pointer in C is an address here — including the nonce and the keys, so that
  the theorems have to say where these may live.  The primitives are the `Aead.Prims` parameters of
  `Model/Aead.lean`; the detached Ed25519 sign / verify functions are parameters on byte strings.

  `block0` is an uninitialised 64-byte stack array of which only the first 32 bytes are cleared:
  the bytes `block0[32 + mlen0 .. 64)` really are whatever the stack held (`stk` below, the previous
  contents of the 64-byte slot) when they go through `crypto_stream_salsa20_xor`.
-/
namespace Sodium.Model.Overlap
open Sodium Sodium.Model Sodium.Model.Aead

abbrev Mem := Nat → UInt8

/-- the `len` bytes at addresses `off, off+1, …` -/
def read (mem : Mem) (off len : Nat) : Bytes := (List.range len).map fun i => mem (off + i)

/-- store `bs` at `off` -/
def write (mem : Mem) (off : Nat) (bs : Bytes) : Mem :=
  fun a => if a < off then mem a else (bs[a - off]?).getD (mem a)

/-- `memmove(dst, src, len)`: the source is read completely, then written -/
def memmove (mem : Mem) (dst src len : Nat) : Mem := write mem dst (read mem src len)

/-- `memset(dst, v, len)` -/
def memset (mem : Mem) (dst : Nat) (v : UInt8) (len : Nat) : Mem := write mem dst (List.replicate len v)

/-- `((uintptr_t) c > (uintptr_t) m && (uintptr_t) c - (uintptr_t) m < mlen) ||
     ((uintptr_t) m > (uintptr_t) c && (uintptr_t) m - (uintptr_t) c < mlen)`
    with `uintptr_t` = `unsigned long long` = 64 bits (wrapping subtraction) -/
def distTest (c m mlen : Nat) : Bool :=
  let c' := UInt64.ofNat c
  let m' := UInt64.ofNat m
  let l := UInt64.ofNat mlen
  (decide (c' > m') && decide (c' - m' < l)) || (decide (m' > c') && decide (m' - c' < l))

/-! ### stream XOR on memory -/

/-- `crypto_stream_*_xor_ic(c, m, len, …)` as one step: all of `m` is read, XORed with the keystream
    `ks`, and stored to `c`.  That description is only right when the regions are identical or
    disjoint (the documented contract); otherwise the result is not specified: `none`. -/
def streamXor (mem : Mem) (c m len : Nat) (ks : Bytes) : Option Mem :=
  if c = m ∨ c + len ≤ m ∨ m + len ≤ c then some (write mem c (xorBytes (read mem m len) ks)) else none

/-- what the implementations do: for each chunk size `s` in turn, load `s` bytes of `m`, XOR them
    with the next `s` keystream bytes, store `s` bytes to `c`, advance all three
    (ref code: all sizes 1, `c[i] = m[i] ^ block[i]`; SIMD code: 512/256/128/64-byte chunks, then bytes) -/
def xorChunks (mem : Mem) (c m : Nat) (ks : Bytes) : List Nat → Mem
  | [] => mem
  | s :: ss => xorChunks (write mem c (xorBytes (read mem m s) (ks.take s))) (c + s) (m + s) (ks.drop s) ss

/-! ### crypto_aead_chacha20poly1305*_{encrypt,decrypt}_detached (same shape for the xchacha20 variant)

  Here `ad`, `npub`, `k` are byte strings: they are only read, and are taken not to alias the outputs. -/

/-- encrypt_detached(c, mac, m, mlen, ad, npub, k): keystream block 0 → Poly1305 key, stream XOR from
    block 1 (`c` written), MAC over the `c` region, stored at `mac` -/
def aeadEncryptDetached (P : Prims) (f : Flavor) (mem : Mem) (c mac m mlen : Nat) (ad npub k : Bytes) : Option Mem :=
  let polykey := (P.ks k npub 0 64).take 32
  (streamXor mem c m mlen (P.ks k npub 1 mlen)).map fun mem1 =>
    write mem1 mac (P.mac polykey (macData f ad (read mem1 c mlen)))

/-- decrypt_detached(m, c, clen, mac, ad, npub, k): (return value, memory); `m = 0` is NULL -/
def aeadDecryptDetached (P : Prims) (f : Flavor) (mem : Mem) (m c clen mac : Nat) (ad npub k : Bytes) :
    Int32 × Option Mem :=
  let polykey := (P.ks k npub 0 64).take 32
  let computed := P.mac polykey (macData f ad (read mem c clen))
  let ret := Sodium.Model.verify_n_sse2 1 computed (read mem mac 16)
  if m = 0 then (ret, some mem)
  else if ret ≠ 0 then (-1, some (memset mem m 0 clen))
  else (0, streamXor mem m c clen (P.ks k npub 1 clen))

/-! ### crypto_secretbox_easy.c -/

/-- crypto_secretbox_detached(c, mac, m, mlen, n, k).  `stk` = previous contents of the stack slot of
    `block0`.  Result: the memory afterwards (`none`: the inner stream XOR was reached with partially
    overlapping regions). -/
def secretboxDetached (P : Prims) (stk : Bytes) (mem : Mem) (c mac m mlen n k : Nat) : Option Mem :=
  -- crypto_core_hsalsa20(subkey, n, k, NULL)
  let subkey := P.hcore (read mem n 16) (read mem k 32)
  -- if (distance test) { memmove(c, m, mlen); m = c; }
  let ov := distTest c m mlen
  let mem1 := if ov then memmove mem c m mlen else mem
  let m1 := if ov then c else m
  -- memset(block0, 0, 32); mlen0 = min(mlen, 32); block0[32 + i] = m[i]
  let mlen0 := if mlen > 32 then 32 else mlen
  let block0 := zeros 32 ++ read mem1 m1 mlen0 ++ stk.drop (32 + mlen0)
  -- crypto_stream_salsa20_xor(block0, block0, 64, n + 16, subkey)
  let block0 := xorBytes block0 (P.ks subkey (read mem1 (n + 16) 8) 0 64)
  -- crypto_onetimeauth_poly1305_init(&state, block0)
  let polykey := block0.take 32
  -- c[i] = block0[32 + i]
  let mem2 := write mem1 c ((block0.drop 32).take mlen0)
  -- if (mlen > mlen0) crypto_stream_salsa20_xor_ic(c + mlen0, m + mlen0, mlen - mlen0, n + 16, 1, subkey)
  let r := if mlen > mlen0 then
      streamXor mem2 (c + mlen0) (m1 + mlen0) (mlen - mlen0) (P.ks subkey (read mem2 (n + 16) 8) 1 (mlen - mlen0))
    else some mem2
  -- poly1305_update(&state, c, mlen); poly1305_final(&state, mac)
  r.map fun mem3 => write mem3 mac (P.mac polykey (read mem3 c mlen))

/-- crypto_secretbox_easy(c, m, mlen, n, k): `mlen > crypto_secretbox_MESSAGEBYTES_MAX` (= SIZE_MAX − 16)
    is `sodium_misuse()` (abort: `none`), else the detached form with mac at `c`, ciphertext at `c + 16` -/
def secretboxEasy (P : Prims) (stk : Bytes) (mem : Mem) (c m mlen n k : Nat) : Option Mem :=
  if mlen > 2 ^ 64 - 1 - 16 then none
  else secretboxDetached P stk mem (c + 16) c m mlen n k

/-- crypto_secretbox_open_detached(m, c, mac, clen, n, k): (return value, memory afterwards).
    `m = 0` is the NULL pointer (verify only). -/
def secretboxOpenDetached (P : Prims) (stk : Bytes) (mem : Mem) (m c mac clen n k : Nat) : Int32 × Option Mem :=
  let subkey := P.hcore (read mem n 16) (read mem k 32)
  let mlen0 := if clen > 32 then 32 else clen
  let block0 := zeros 32 ++ read mem c mlen0 ++ stk.drop (32 + mlen0)
  let block0 := xorBytes block0 (P.ks subkey (read mem (n + 16) 8) 0 64)
  -- crypto_onetimeauth_poly1305_verify(mac, c, clen, block0) = crypto_verify_16(mac, computed)
  if Sodium.Model.verify_n_sse2 1 (read mem mac 16) (P.mac (block0.take 32) (read mem c clen)) ≠ 0 then (-1, some mem)
  else if m = 0 then (0, some mem)
  else
    -- if (distance test) { memmove(m, c, clen); c = m; }
    let ov := distTest c m clen
    let mem1 := if ov then memmove mem m c clen else mem
    let c1 := if ov then m else c
    -- m[i] = block0[32 + i]
    let mem2 := write mem1 m ((block0.drop 32).take mlen0)
    -- if (clen > mlen0) crypto_stream_salsa20_xor_ic(m + mlen0, c + mlen0, clen - mlen0, n + 16, 1, subkey)
    let r := if clen > mlen0 then
        streamXor mem2 (m + mlen0) (c1 + mlen0) (clen - mlen0) (P.ks subkey (read mem2 (n + 16) 8) 1 (clen - mlen0))
      else some mem2
    (0, r)

/-- crypto_secretbox_open_easy(m, c, clen, n, k) -/
def secretboxOpenEasy (P : Prims) (stk : Bytes) (mem : Mem) (m c clen n k : Nat) : Int32 × Option Mem :=
  if clen < 16 then (-1, some mem)
  else secretboxOpenDetached P stk mem m (c + 16) c (clen - 16) n k

/-! ### crypto_sign/ed25519/ref10: sign.c, open.c

  `sgn m sk` = the 64-byte signature written by crypto_sign_ed25519_detached (which always returns 0
  and sets siglen = 64: the error branch of crypto_sign_ed25519 is unreachable, LCOV_EXCL in the
  source, and not modelled); `vfy sig m pk` = "crypto_sign_ed25519_verify_detached returns 0".
  Both read their inputs and (sgn) then write: as one step on byte strings. -/

/-- crypto_sign_ed25519(sm, &smlen, m, mlen, sk): (memory afterwards, `smlen`) -/
def sign (sgn : Bytes → Bytes → Bytes) (mem : Mem) (sm m mlen sk : Nat) : Mem × Nat :=
  -- memmove(sm + 64, m, mlen)
  let mem1 := memmove mem (sm + 64) m mlen
  -- crypto_sign_ed25519_detached(sm, &siglen, sm + 64, mlen, sk)
  let sig := sgn (read mem1 (sm + 64) mlen) (read mem1 sk 64)
  (write mem1 sm sig, (mlen + 64) % 2 ^ 64)

/-- crypto_sign_ed25519_open(m, &mlen, sm, smlen, pk): (return value, `mlen`, memory afterwards); `m = 0` is NULL -/
def signOpen (vfy : Bytes → Bytes → Bytes → Bool) (mem : Mem) (m sm smlen pk : Nat) : Int32 × Nat × Mem :=
  -- smlen < 64 || smlen - 64 > crypto_sign_ed25519_MESSAGEBYTES_MAX (= SIZE_MAX − 64)
  if smlen < 64 ∨ smlen - 64 > 2 ^ 64 - 1 - 64 then (-1, 0, mem)
  else
    let mlen := smlen - 64
    if vfy (read mem sm 64) (read mem (sm + 64) mlen) (read mem pk 32) then
      (0, mlen, if m ≠ 0 then memmove mem m (sm + 64) mlen else mem)
    else
      (-1, 0, if m ≠ 0 then memset mem m 0 mlen else mem)

/-! ### value-level references for signing (what the calls produce with disjoint buffers) -/

/-- sm = sig ‖ m -/
def signV (sgn : Bytes → Bytes → Bytes) (m sk : Bytes) : Bytes := sgn m sk ++ m

/-- return value, `*mlen_p`, contents written to `m` (`none` = untouched) -/
def signOpenV (vfy : Bytes → Bytes → Bytes → Bool) (wantM : Bool) (sm pk : Bytes) : DecResult :=
  if sm.length < 64 then ⟨-1, 0, none⟩
  else if vfy (sm.take 64) (sm.drop 64) pk then ⟨0, sm.length - 64, if wantM then some (sm.drop 64) else none⟩
  else ⟨-1, 0, if wantM then some (zeros (sm.length - 64)) else none⟩

end Sodium.Model.Overlap
