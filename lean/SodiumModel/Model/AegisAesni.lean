import SodiumModel.Basic
import SodiumModel.Spec.Aes
import SodiumModel.Model.AegisRef
/-
  The AES-NI instantiation of libsodium's AEGIS code:

    crypto_aead/aegis128l/aegis128l_aesni.c, crypto_aead/aegis256/aegis256_aesni.c

  Both files consist of (1) a macro block defining `aes_block_t` = `__m128i` and AES_BLOCK_XOR / AND /
  LOAD / LOAD_64x2 / STORE / AES_ENC as SSE2 / AES-NI intrinsics, (2) `aegis128l_update` /
  `aegis256_update`, whose text is identical to the one in `*_soft.c`, and (3) `#include "aegis*_common.h"`
  — the very file the soft backend includes.  So the code is `Model/AegisRef.lean`'s generic model
  (`A128L.variant`, `A256.variant`, `encrypt_detached`, `decrypt_detached`, wrappers) over the
  `Backend` defined here.

  Part 1 gives the intrinsics a semantics on a 16-byte register model, each transcribing the
  "Operation" section of the Intel SDM / Intrinsics Guide (quoted).  THESE DEFINITIONS ARE TRUSTED
  BASE: nothing in Lean ties them to the CPU.  They are validated against the real CPU by
  `simdcheck/aegis/` (C program compiled with -maes -msse2, recomputed line by line in Lean).
-/
namespace Sodium.Model.AegisAesni
open Sodium Sodium.Spec.Aes

/-! ## Part 1: `__m128i` and the intrinsics (trusted base) -/

/-- `__m128i`: the register as its 16-byte memory image, byte i = bits 8i+7 .. 8i (x86 is
    little-endian, so this is what `_mm_loadu_si128` / `_mm_storeu_si128` move) -/
structure M128i where
  bytes : Bytes
  len : bytes.length = 16

/-- bytewise AND -/
def andB : Bytes → Bytes → Bytes
  | x :: xs, y :: ys => (x &&& y) :: andB xs ys
  | _, _ => []

theorem xorBytes_len : ∀ a b : Bytes, (xorBytes a b).length = min a.length b.length
  | [], b => by cases b <;> simp [xorBytes]
  | _ :: _, [] => by simp [xorBytes]
  | x :: a, y :: b => by simp [xorBytes, xorBytes_len a b]

theorem andB_len : ∀ a b : Bytes, (andB a b).length = min a.length b.length
  | [], b => by cases b <;> simp [andB]
  | _ :: _, [] => by simp [andB]
  | x :: a, y :: b => by simp [andB, andB_len a b]

theorem toLE_len : ∀ n v : Nat, (toLE n v).length = n
  | 0, _ => rfl
  | n + 1, v => by simp [toLE, toLE_len n]

/-- SDM AESENC, Operation:
      STATE := SRC1; RoundKey := SRC2;
      STATE := ShiftRows(STATE); STATE := SubBytes(STATE); STATE := MixColumns(STATE);
      DEST[127:0] := STATE XOR RoundKey
    with the FIPS 197 transformations of `Spec/Aes.lean` on the 16-byte state (byte r + 4c = s[r,c]). -/
def aesencBytes (state roundKey : Bytes) : Bytes :=
  let state := shiftRows state
  let state := subBytes state
  let state := mixColumns state
  xorBytes state roundKey

theorem aesencBytes_len (a k : Bytes) (ha : a.length = 16) (hk : k.length = 16) :
    (aesencBytes a k).length = 16 := by
  match a, ha with
  | [_, _, _, _, _, _, _, _, _, _, _, _, _, _, _, _], _ =>
    simp [aesencBytes, shiftRows, subBytes, mixColumns, mixColumn, xorBytes_len, hk]

/-- `_mm_loadu_si128(mem_addr)`: "dst[127:0] := MEM[mem_addr+127:mem_addr]" (bytes beyond the end of the
    modelled buffer read as 0; never happens for the callers, which pass ≥ 16 bytes) -/
def mm_loadu_si128 (p : Bytes) : M128i :=
  ⟨p.take 16 ++ zeros (16 - (p.take 16).length), by simp [zeros]; omega⟩

/-- `_mm_storeu_si128(mem_addr, a)`: "MEM[mem_addr+127:mem_addr] := a[127:0]" — the 16 bytes written -/
def mm_storeu_si128 (a : M128i) : Bytes := a.bytes

/-- `_mm_xor_si128(a, b)`: "dst[127:0] := (a[127:0] XOR b[127:0])" -/
def mm_xor_si128 (a b : M128i) : M128i :=
  ⟨xorBytes a.bytes b.bytes, by rw [xorBytes_len, a.len, b.len]; rfl⟩

/-- `_mm_and_si128(a, b)`: "dst[127:0] := (a[127:0] AND b[127:0])" -/
def mm_and_si128 (a b : M128i) : M128i :=
  ⟨andB a.bytes b.bytes, by rw [andB_len, a.len, b.len]; rfl⟩

/-- `_mm_set_epi64x(e1, e0)`: "dst[63:0] := e0; dst[127:64] := e1" -/
def mm_set_epi64x (e1 e0 : UInt64) : M128i :=
  ⟨toLE 8 e0.toNat ++ toLE 8 e1.toNat, by simp [toLE_len]⟩

/-- `_mm_aesenc_si128(a, RoundKey)`: "a[127:0] := ShiftRows(a[127:0]); a[127:0] := SubBytes(a[127:0]);
    a[127:0] := MixColumns(a[127:0]); dst[127:0] := a[127:0] XOR RoundKey[127:0]" -/
def mm_aesenc_si128 (a roundKey : M128i) : M128i :=
  ⟨aesencBytes a.bytes roundKey.bytes, aesencBytes_len _ _ a.len roundKey.len⟩

/-! ## Part 2: the macro block of aegis128l_aesni.c / aegis256_aesni.c (identical in both files)

    typedef __m128i aes_block_t;
    #define AES_BLOCK_XOR(A, B)       _mm_xor_si128((A), (B))
    #define AES_BLOCK_AND(A, B)       _mm_and_si128((A), (B))
    #define AES_BLOCK_LOAD(A)         _mm_loadu_si128((const aes_block_t *) (const void *) (A))
    #define AES_BLOCK_LOAD_64x2(A, B) _mm_set_epi64x((long long) (A), (long long) (B))
    #define AES_BLOCK_STORE(A, B)     _mm_storeu_si128((aes_block_t *) (void *) (A), (B))
    #define AES_ENC(A, B)             _mm_aesenc_si128((A), (B))

    (`(long long)` of a `uint64_t` keeps the bit pattern.)  -/

open Sodium.Model.AegisRef in
def aesni : Backend M128i :=
  { XOR := fun a b => mm_xor_si128 a b
    AND := fun a b => mm_and_si128 a b
    LOAD := fun p => mm_loadu_si128 p
    LOAD_64x2 := fun a b => mm_set_epi64x a b
    STORE := fun v => mm_storeu_si128 v
    ENC := fun a b => mm_aesenc_si128 a b }

end Sodium.Model.AegisAesni
