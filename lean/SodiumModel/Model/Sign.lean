import SodiumModel.Basic
/-
  Model of crypto_sign (Ed25519), written to the structure of the C code:

    crypto_core/ed25519/ref10/ed25519_ref10.c   sc25519_is_canonical, ge25519_is_canonical
    crypto_sign/ed25519/ref10/open.c            _crypto_sign_ed25519_verify_detached (default build,
                                                no ED25519_COMPAT), crypto_sign_ed25519_open
    crypto_sign/ed25519/ref10/sign.c            _crypto_sign_ed25519_ref10_hinit, _crypto_sign_ed25519_detached
                                                (default build, no ED25519_NONDETERMINISTIC), crypto_sign_ed25519
    crypto_sign/ed25519/ref10/keypair.c         crypto_sign_ed25519_seed_keypair
    crypto_sign/ed25519/sign_ed25519.c          crypto_sign_ed25519ph_final_create / _final_verify

  `unsigned char` = UInt8, `unsigned int` = UInt32, `int` = Int32 (`>>` on a negative `int` is the
  arithmetic shift, as gcc/clang implement it).  Integer promotion `unsigned char → int` is `u8i`,
  the conversion back on assignment to an `unsigned char` is `i2u8`.

  The field / group / scalar / hash primitives are parameters (`Ops`): the model fixes the
  DECISION LOGIC and the DATA FLOW of the C functions, not the curve arithmetic.
-/
namespace Sodium.Model.Sign

/-- integer promotion `unsigned char → int` -/
def u8i (x : UInt8) : Int32 := x.toUInt32.toInt32

/-- conversion `int → unsigned char` (on assignment) -/
def i2u8 (x : Int32) : UInt8 := x.toUInt32.toUInt8

/-! ### sc25519_is_canonical -/

/-- `static const unsigned char L[32]` : 2^252+27742317777372353535851937790883648493, little endian -/
def scL : Bytes :=
  [0xed, 0xd3, 0xf5, 0x5c, 0x1a, 0x63, 0x12, 0x58, 0xd6, 0x9c, 0xf7,
   0xa2, 0xde, 0xf9, 0xde, 0x14, 0x00, 0x00, 0x00, 0x00, 0x00, 0x00,
   0x00, 0x00, 0x00, 0x00, 0x00, 0x00, 0x00, 0x00, 0x00, 0x10]

/-- one iteration of the `do { i--; … } while (i != 0)` body on the bytes `si = s[i]`, `li = L[i]`:
      c |= ((s[i] - L[i]) >> 8) & n;
      n &= ((s[i] ^ L[i]) - 1) >> 8;
    (all operands promoted to `int`; the results converted back to `unsigned char`) -/
def scStep (st : UInt8 × UInt8) (si li : UInt8) : UInt8 × UInt8 :=
  let c := st.1
  let n := st.2
  let c' : UInt8 := i2u8 (u8i c ||| (((u8i si - u8i li) >>> 8) &&& u8i n))
  let n' : UInt8 := i2u8 (u8i n &&& (((u8i si ^^^ u8i li) - 1) >>> 8))
  (c', n')

/-- the loop runs from i = 31 down to i = 0: the tail of the list is processed first;
    initial state `c = 0`, `n = 1` -/
def scLoop : Bytes → Bytes → UInt8 × UInt8
  | x :: xs, y :: ys => scStep (scLoop xs ys) x y
  | _, _ => (0, 1)

/-- `return (c != 0);` -/
def sc25519_is_canonical (s : Bytes) : Int32 :=
  if (scLoop s scL).1 ≠ 0 then 1 else 0

/-! ### ge25519_is_canonical -/

/-- `for (i = 30; i > 0; i--) c |= s[i] ^ 0xff;` over the list `s[1..30]` (tail = higher index first);
    `c0` is the value of `c` before the loop -/
def geOrLoop (c0 : UInt8) : Bytes → UInt8
  | [] => c0
  | x :: xs => i2u8 (u8i (geOrLoop c0 xs) ||| (u8i x ^^^ 0xff))

/--
    c = (s[31] & 0x7f) ^ 0x7f;
    for (i = 30; i > 0; i--) c |= s[i] ^ 0xff;
    c = (((unsigned int) c) - 1U) >> 8;
    d = (0xed - 1U - (unsigned int) s[0]) >> 8;
    return 1 - (c & d & 1);
-/
def ge25519_is_canonical (s : Bytes) : Int32 :=
  let c : UInt8 := i2u8 ((u8i (s.getD 31 0) &&& 0x7f) ^^^ 0x7f)
  let c : UInt8 := geOrLoop c ((s.drop 1).take 30)
  let c : UInt8 := ((c.toUInt32 - 1) >>> 8).toUInt8
  let d : UInt8 := (((0xed : UInt32) - 1 - (s.getD 0 0).toUInt32) >>> 8).toUInt8
  1 - (u8i c &&& u8i d &&& 1)

/-! ### the primitives the signing code is written over -/

/--
  The interface of ed25519_ref10.c / SHA-512 used by sign.c, open.c and keypair.c.
  `P3` = `ge25519_p3` (extended coordinates), `P2` = `ge25519_p2` (projective coordinates).
  Functions returning `int` return `Int32`; a function that fills `*h` and returns a status returns the pair.
-/
structure Ops (P3 P2 : Type) where
  /-- one-shot SHA-512; the streaming `init/update*/final` hashes the concatenation of the updates -/
  sha512 : Bytes → Bytes
  /-- `sc25519_reduce(s)`: the 64-byte string reduced mod L, 32 bytes -/
  scReduce : Bytes → Bytes
  /-- `sc25519_muladd(s, a, b, c)`: (ab + c) mod L on 32-byte strings -/
  scMuladd : Bytes → Bytes → Bytes → Bytes
  /-- `ge25519_frombytes_negate_vartime(&h, s)`: status (0 / -1) and the point -/
  frombytesNegateVartime : Bytes → Int32 × P3
  /-- `ge25519_frombytes(&h, s)` -/
  frombytes : Bytes → Int32 × P3
  /-- `ge25519_has_small_order(&p)` -/
  hasSmallOrder : P3 → Int32
  /-- `ge25519_double_scalarmult_vartime(&r, a, &A, b)` : r = a·A + b·B -/
  doubleScalarmultVartime : Bytes → P3 → Bytes → P2
  /-- `ge25519_p2_to_p3(&r, &p)` -/
  p2ToP3 : P2 → P3
  /-- `ge25519_p3_sub(&r, &p, &q)` : r = p - q -/
  p3Sub : P3 → P3 → P3
  /-- `ge25519_scalarmult_base(&h, a)` -/
  scalarmultBase : Bytes → P3
  /-- `ge25519_p3_tobytes(s, &h)` -/
  p3Tobytes : P3 → Bytes

/-- a primitive that writes exactly `n` bytes into a fixed-size buffer -/
def fit (n : Nat) (b : Bytes) : Bytes := (b ++ zeros n).take n

/-- `DOM2PREFIX[32 + 2]` = "SigEd25519 no Ed25519 collisions" ‖ 1 ‖ 0 -/
def DOM2PREFIX : Bytes :=
  [0x53, 0x69, 0x67, 0x45, 0x64, 0x32, 0x35, 0x35, 0x31, 0x39, 0x20,
   0x6e, 0x6f, 0x20,
   0x45, 0x64, 0x32, 0x35, 0x35, 0x31, 0x39, 0x20,
   0x63, 0x6f, 0x6c, 0x6c, 0x69, 0x73, 0x69, 0x6f, 0x6e, 0x73, 1, 0]

/-- `_crypto_sign_ed25519_ref10_hinit(&hs, prehashed)`: the hash state is represented by the bytes
    absorbed so far -/
def hinit (prehashed : Bool) : Bytes := if prehashed then DOM2PREFIX else []

/-! ### _crypto_sign_ed25519_verify_detached -/

section
variable {P3 P2 : Type} (G : Ops P3 P2)

/--
  `_crypto_sign_ed25519_verify_detached(sig, m, mlen, pk, prehashed)`, `#else` branch of
  `#ifdef ED25519_COMPAT`.  `sig` points to at least 64 bytes, `pk` to at least 32.
-/
def verify_detached (sig m pk : Bytes) (prehashed : Bool) : Int32 :=
  -- if ((sig[63] & 240) != 0 && sc25519_is_canonical(sig + 32) == 0) return -1;
  if (u8i (sig.getD 63 0) &&& 240) ≠ 0 ∧ sc25519_is_canonical ((sig.drop 32).take 32) = 0 then -1 else
  -- if (ge25519_is_canonical(pk) == 0) return -1;
  if ge25519_is_canonical pk = 0 then -1 else
  -- if (ge25519_frombytes_negate_vartime(&A, pk) != 0 || ge25519_has_small_order(&A) != 0) return -1;
  let A := G.frombytesNegateVartime (pk.take 32)
  if A.1 ≠ 0 ∨ G.hasSmallOrder A.2 ≠ 0 then -1 else
  -- if (ge25519_frombytes(&expected_r, sig) != 0 || ge25519_has_small_order(&expected_r) != 0) return -1;
  let expected_r := G.frombytes (sig.take 32)
  if expected_r.1 ≠ 0 ∨ G.hasSmallOrder expected_r.2 ≠ 0 then -1 else
  -- hinit; update(sig, 32); update(pk, 32); update(m, mlen); final(h); sc25519_reduce(h);
  let h := G.scReduce (G.sha512 (hinit prehashed ++ sig.take 32 ++ pk.take 32 ++ m))
  -- ge25519_double_scalarmult_vartime(&sb_ah_p2, h, &A, sig + 32);
  let sb_ah_p2 := G.doubleScalarmultVartime h A.2 ((sig.drop 32).take 32)
  -- ge25519_p2_to_p3(&sb_ah, &sb_ah_p2);
  let sb_ah := G.p2ToP3 sb_ah_p2
  -- ge25519_p3_sub(&check, &expected_r, &sb_ah);
  let check := G.p3Sub expected_r.2 sb_ah
  -- return ge25519_has_small_order(&check) - 1;
  G.hasSmallOrder check - 1

/-- `crypto_sign_ed25519_verify_detached` -/
def crypto_sign_verify_detached (sig m pk : Bytes) : Int32 := verify_detached G sig m pk false

/-- `crypto_sign_ed25519ph_final_verify(state, sig, pk)`; `absorbed` = concatenation of all `update`s -/
def ph_final_verify (absorbed sig pk : Bytes) : Int32 :=
  let ph := fit 64 (G.sha512 absorbed)
  verify_detached G sig ph pk true

/-! ### crypto_sign_ed25519_open -/

/-- `crypto_sign_ed25519_MESSAGEBYTES_MAX` = SODIUM_SIZE_MAX - 64 (64-bit `size_t`) -/
def MESSAGEBYTES_MAX : Nat := 2 ^ 64 - 1 - 64

/-- what `crypto_sign_open` leaves behind: the return value, the value stored to `*mlen_p`
    (when `mlen_p != NULL`) and the contents of the output buffer `m` (`none` = `m == NULL`) -/
structure OpenResult where
  rc : Int32
  mlen : Nat
  m : Option Bytes
  deriving DecidableEq, Repr

/--
  `crypto_sign_ed25519_open(m, mlen_p, sm, smlen, pk)`.  `m0` = contents of the output buffer
  before the call (`none` = NULL); only its first `mlen` bytes are ever written.
-/
def crypto_sign_open (m0 : Option Bytes) (sm pk : Bytes) : OpenResult :=
  -- if (smlen < 64 || smlen - 64 > MESSAGEBYTES_MAX) goto badsig;   (m is not touched)
  if sm.length < 64 ∨ sm.length - 64 > MESSAGEBYTES_MAX then ⟨-1, 0, m0⟩ else
  let mlen := sm.length - 64
  -- if (verify_detached(sm, sm + 64, mlen, pk) != 0) { if (m != NULL) memset(m, 0, mlen); goto badsig; }
  if crypto_sign_verify_detached G sm (sm.drop 64) pk ≠ 0 then
    ⟨-1, 0, m0.map fun b => zeros mlen ++ b.drop mlen⟩
  else
  -- *mlen_p = mlen; if (m != NULL) memmove(m, sm + 64, mlen); return 0;
    ⟨0, mlen, m0.map fun b => sm.drop 64 ++ b.drop mlen⟩

/-! ### signing -/

/-- `_crypto_sign_ed25519_clamp(k)`: k[0] &= 248; k[31] &= 127; k[31] |= 64; (other bytes untouched) -/
def clamp (k : Bytes) : Bytes :=
  let k := k.set 0 (i2u8 (u8i (k.getD 0 0) &&& 248))
  let k := k.set 31 (i2u8 (u8i (k.getD 31 0) &&& 127))
  k.set 31 (i2u8 (u8i (k.getD 31 0) ||| 64))

/-- return value, `*siglen_p`, and the 64 bytes written to `sig` -/
structure SigResult where
  rc : Int32
  siglen : Nat
  sig : Bytes
  deriving DecidableEq, Repr

/-- `_crypto_sign_ed25519_detached(sig, siglen_p, m, mlen, sk, prehashed)` (deterministic build) -/
def sign_detached (m sk : Bytes) (prehashed : Bool) : SigResult :=
  -- crypto_hash_sha512(az, sk, 32);
  let az := fit 64 (G.sha512 (sk.take 32))
  -- hinit; update(az + 32, 32); update(m, mlen); final(nonce);
  let nonce := G.sha512 (hinit prehashed ++ az.drop 32 ++ m)
  -- memmove(sig + 32, sk + 32, 32);
  let sigHi := fit 32 (sk.drop 32)
  -- sc25519_reduce(nonce); ge25519_scalarmult_base(&R, nonce); ge25519_p3_tobytes(sig, &R);
  let nonce := fit 32 (G.scReduce nonce)
  let sigLo := fit 32 (G.p3Tobytes (G.scalarmultBase nonce))
  -- hinit; update(sig, 64); update(m, mlen); final(hram); sc25519_reduce(hram);
  let hram := fit 32 (G.scReduce (G.sha512 (hinit prehashed ++ (sigLo ++ sigHi) ++ m)))
  -- clamp(az); sc25519_muladd(sig + 32, hram, az, nonce);
  let az := clamp az
  let sigHi := fit 32 (G.scMuladd hram (az.take 32) nonce)
  -- *siglen_p = 64U; return 0;
  ⟨0, 64, sigLo ++ sigHi⟩

/-- `crypto_sign_ed25519_detached` -/
def crypto_sign_detached (m sk : Bytes) : SigResult := sign_detached G m sk false

/-- `crypto_sign_ed25519ph_final_create(state, sig, siglen_p, sk)` -/
def ph_final_create (absorbed sk : Bytes) : SigResult :=
  sign_detached G (fit 64 (G.sha512 absorbed)) sk true

/-- return value, `*smlen_p`, and the contents of `sm[0 .. mlen + 64)` -/
structure SmResult where
  rc : Int32
  smlen : Nat
  sm : Bytes
  deriving DecidableEq, Repr

/--
  `crypto_sign_ed25519(sm, smlen_p, m, mlen, sk)`:
     memmove(sm + 64, m, mlen);
     if (detached(sm, &siglen, sm + 64, mlen, sk) != 0 || siglen != 64) { *smlen_p = 0; memset(sm, 0, mlen + 64); return -1; }
     *smlen_p = mlen + siglen; return 0;
-/
def crypto_sign (m sk : Bytes) : SmResult :=
  let body := m                                      -- sm[64 ..] after the memmove
  let r := crypto_sign_detached G body sk            -- writes sm[0 .. 64)
  if r.rc ≠ 0 ∨ r.siglen ≠ 64 then ⟨-1, 0, zeros (m.length + 64)⟩
  else ⟨0, m.length + r.siglen, r.sig ++ body⟩

/-- `crypto_sign_ed25519_seed_keypair(pk, sk, seed)`: returns (pk, sk) -/
def seed_keypair (seed : Bytes) : Bytes × Bytes :=
  -- crypto_hash_sha512(sk, seed, 32); sk[0] &= 248; sk[31] &= 127; sk[31] |= 64;
  let sk := clamp (fit 64 (G.sha512 (seed.take 32)))
  -- ge25519_scalarmult_base(&A, sk); ge25519_p3_tobytes(pk, &A);
  let pk := fit 32 (G.p3Tobytes (G.scalarmultBase (sk.take 32)))
  -- memmove(sk, seed, 32); memmove(sk + 32, pk, 32);
  (pk, fit 32 seed ++ pk)

end

end Sodium.Model.Sign
