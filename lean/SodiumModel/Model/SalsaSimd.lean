import SodiumModel.Basic
import SodiumModel.Model.CoresRef
import SodiumModel.Model.ChachaSimd
/-
  Model of the VECTORISED Salsa20 of libsodium, written after the C text of

    crypto_stream/salsa20/xmm6int/salsa20_xmm6int-avx2.c   (u8.h, u4.h, u1.h, u0.h)
    crypto_stream/salsa20/xmm6int/salsa20_xmm6int-sse2.c   (      u4.h, u1.h, u0.h)

  Intrinsics. The register types (`V128`, `M256`), the memory conventions (`storeBytes`, `words_mem`,
  pointers = list suffixes, reads past the end read 0) and every intrinsic but one are those of
  `Model/ChachaSimd.lean` Part 1 (validated against the CPU by `simdcheck/chacha`). The single NEW intrinsic
  is `_mm_cvtsi128_si32` (below); it is validated by the same program (`simdcheck/chacha/intrinsics_check.c`
  lines `_mm_cvtsi128_si32|…`, recomputed by `simdcheck/chacha/SimdCheck.lean`), which also exercises the shift
  counts 9 / 13 / 18 / 23 / 19 / 14 and the `_mm_shuffle_epi32` immediates 0x55 / 0xaa that only this code uses.

  Scalar memory accesses. u1.h / u0.h read and write the buffers through `*(uint32_t *) (p + 4A)`: on the
  little-endian x86 these are `load32_le` of the four bytes at `p + 4A` and a store of `store32_le w` there.

  The context. `ctx->input[0..15]` are the sixteen fields `x0..x15` of `W16` IN MEMORY ORDER; `salsa_keysetup` /
  `salsa_ivsetup` write standard Salsa20 word `i` to `input[TR[i]]` (the "diagonal" layout), and the block
  counter is `input[8]` (low) and `input[13]` (high) (`TR[8] = 8`, `TR[9] = 13`).

  Loop bodies. The straight-line bodies of the rounds loops (`row_body`: u1.h lines 15-157 = u0.h lines 14-156,
  124 statements; `u4_doubleRound`: u4.h lines 105-359, 224 statements; `u8_doubleRound`: u8.h lines 105-359, 224
  statements) are MECHANICAL transcriptions, one `let` per C statement in the order written, produced by
  `gen/gen_rounds.py (fragments gen/*.lean.in)` from the header text.

  Hoisting: u4.h / u8.h compute `orig0..7`, `orig10..15` once before their `while`; the model recomputes them in
  every pass of the body. The words they read (all but `x[8]`, `x[13]`) are never written
  (`C03SalsaSimd.origs_ignore_counter`).

  In the main model `m` and `c` are separate values; the in-place forms (`stream_*`: `m == c`) of the loop bodies
  are transcribed a second time (`*_inplace`) with every load reading the buffer as left by the stores that
  precede it, and proved equal to the separate-buffer bodies (`C03SalsaSimd.inplace_bodies_eq`).
-/
namespace Sodium.Model.SalsaSimd
open Sodium Sodium.Model.CoresRef Sodium.Model.ChachaSimd

/-! ## Part 1: the new intrinsic (trusted base) -/

/-- MOVD `_mm_cvtsi128_si32(a)`: "dst[31:0] := a[31:0]" (the `int` result is assigned to a `uint32_t`: same bits) -/
def mm_cvtsi128_si32 (a : V128) : UInt32 := a.e0

/-! ## Part 2: the context -/

/-- `# define ROUNDS 20` -/
def ROUNDS : Nat := 20

/-- `static const int TR[16] = { 0, 5, 10, 15, 12, 1, 6, 11, 8, 13, 2, 7, 4, 9, 14, 3 };` -/
def TR : List Nat := [0, 5, 10, 15, 12, 1, 6, 11, 8, 13, 2, 7, 4, 9, 14, 3]

/-- `TR[i]` -/
def tr (i : Nat) : Nat := TR.getD i 0

/-- `ctx->input[i] = v` -/
def setInput (x : W16) (i : Nat) (v : UInt32) : W16 :=
  match i with
  | 0 => { x with x0 := v } | 1 => { x with x1 := v } | 2 => { x with x2 := v } | 3 => { x with x3 := v }
  | 4 => { x with x4 := v } | 5 => { x with x5 := v } | 6 => { x with x6 := v } | 7 => { x with x7 := v }
  | 8 => { x with x8 := v } | 9 => { x with x9 := v } | 10 => { x with x10 := v } | 11 => { x with x11 := v }
  | 12 => { x with x12 := v } | 13 => { x with x13 := v } | 14 => { x with x14 := v } | 15 => { x with x15 := v }
  | _ => x

/-- `ctx->input[i]` -/
def getInput (x : W16) (i : Nat) : UInt32 :=
  match i with
  | 0 => x.x0 | 1 => x.x1 | 2 => x.x2 | 3 => x.x3 | 4 => x.x4 | 5 => x.x5 | 6 => x.x6 | 7 => x.x7
  | 8 => x.x8 | 9 => x.x9 | 10 => x.x10 | 11 => x.x11 | 12 => x.x12 | 13 => x.x13 | 14 => x.x14 | 15 => x.x15
  | _ => 0

/-- `salsa_keysetup(ctx, k)`, the twelve assignments in the order written -/
def salsa_keysetup (ctx : W16) (k : Bytes) : W16 :=
  let ctx := setInput ctx (tr 1) (load32_le (k.drop 0))
  let ctx := setInput ctx (tr 2) (load32_le (k.drop 4))
  let ctx := setInput ctx (tr 3) (load32_le (k.drop 8))
  let ctx := setInput ctx (tr 4) (load32_le (k.drop 12))
  let ctx := setInput ctx (tr 11) (load32_le (k.drop 16))
  let ctx := setInput ctx (tr 12) (load32_le (k.drop 20))
  let ctx := setInput ctx (tr 13) (load32_le (k.drop 24))
  let ctx := setInput ctx (tr 14) (load32_le (k.drop 28))
  let ctx := setInput ctx (tr 0) 0x61707865
  let ctx := setInput ctx (tr 5) 0x3320646e
  let ctx := setInput ctx (tr 10) 0x79622d32
  let ctx := setInput ctx (tr 15) 0x6b206574
  ctx

/-- `salsa_ivsetup(ctx, iv, counter)`: `counter == NULL ? 0 : LOAD32_LE(counter + 0 / 4)` -/
def salsa_ivsetup (ctx : W16) (iv : Bytes) (counter : Option Bytes) : W16 :=
  let ctx := setInput ctx (tr 6) (load32_le (iv.drop 0))
  let ctx := setInput ctx (tr 7) (load32_le (iv.drop 4))
  let ctx := setInput ctx (tr 8) (match counter with | none => 0 | some ctr => load32_le (ctr.drop 0))
  let ctx := setInput ctx (tr 9) (match counter with | none => 0 | some ctr => load32_le (ctr.drop 4))
  ctx

/-! ## Part 3: the loop bodies -/

/-- `for (i = 0; i < ROUNDS; i += 4) body` (`fuel` ≥ the number of iterations) -/
def forUpBy4Aux {α : Type} (body : α → α) (rounds : Nat) : Nat → Nat → α → α
  | 0, _, x => x
  | fuel + 1, i, x => if i < rounds then forUpBy4Aux body rounds fuel (i + 4) (body x) else x

def forUpBy4 {α : Type} (body : α → α) (rounds i : Nat) (x : α) : α :=
  forUpBy4Aux body rounds rounds i x

/-! ### u1.h / u0.h: one block in diagonal form -/

/-- the locals of u1.h / u0.h that are live across loop iterations: `diag0..diag3` and `a0` (`a1..a7`, `b0..b7` are
    assigned before they are read in every pass) -/
structure Diag where
  diag0 : V128
  diag1 : V128
  diag2 : V128
  diag3 : V128
  a0 : V128

/-- body of `for (i = 0; i < ROUNDS; i += 4)` in u1.h (lines 15-157) and, same text, u0.h: four rounds -/
def row_body (s : Diag) : Diag :=
  let ⟨diag0, diag1, diag2, diag3, a0⟩ := s
  let a0 := mm_add_epi32 a0 diag0
  let a1 := diag0
  let b0 := a0
  let a0 := mm_slli_epi32 a0 7
  let b0 := mm_srli_epi32 b0 25
  let diag3 := mm_xor_si128 diag3 a0
  let diag3 := mm_xor_si128 diag3 b0
  let a1 := mm_add_epi32 a1 diag3
  let a2 := diag3
  let b1 := a1
  let a1 := mm_slli_epi32 a1 9
  let b1 := mm_srli_epi32 b1 23
  let diag2 := mm_xor_si128 diag2 a1
  let diag3 := mm_shuffle_epi32 diag3 0x93
  let diag2 := mm_xor_si128 diag2 b1
  let a2 := mm_add_epi32 a2 diag2
  let a3 := diag2
  let b2 := a2
  let a2 := mm_slli_epi32 a2 13
  let b2 := mm_srli_epi32 b2 19
  let diag1 := mm_xor_si128 diag1 a2
  let diag2 := mm_shuffle_epi32 diag2 0x4e
  let diag1 := mm_xor_si128 diag1 b2
  let a3 := mm_add_epi32 a3 diag1
  let a4 := diag3
  let b3 := a3
  let a3 := mm_slli_epi32 a3 18
  let b3 := mm_srli_epi32 b3 14
  let diag0 := mm_xor_si128 diag0 a3
  let diag1 := mm_shuffle_epi32 diag1 0x39
  let diag0 := mm_xor_si128 diag0 b3
  let a4 := mm_add_epi32 a4 diag0
  let a5 := diag0
  let b4 := a4
  let a4 := mm_slli_epi32 a4 7
  let b4 := mm_srli_epi32 b4 25
  let diag1 := mm_xor_si128 diag1 a4
  let diag1 := mm_xor_si128 diag1 b4
  let a5 := mm_add_epi32 a5 diag1
  let a6 := diag1
  let b5 := a5
  let a5 := mm_slli_epi32 a5 9
  let b5 := mm_srli_epi32 b5 23
  let diag2 := mm_xor_si128 diag2 a5
  let diag1 := mm_shuffle_epi32 diag1 0x93
  let diag2 := mm_xor_si128 diag2 b5
  let a6 := mm_add_epi32 a6 diag2
  let a7 := diag2
  let b6 := a6
  let a6 := mm_slli_epi32 a6 13
  let b6 := mm_srli_epi32 b6 19
  let diag3 := mm_xor_si128 diag3 a6
  let diag2 := mm_shuffle_epi32 diag2 0x4e
  let diag3 := mm_xor_si128 diag3 b6
  let a7 := mm_add_epi32 a7 diag3
  let a0 := diag1
  let b7 := a7
  let a7 := mm_slli_epi32 a7 18
  let b7 := mm_srli_epi32 b7 14
  let diag0 := mm_xor_si128 diag0 a7
  let diag3 := mm_shuffle_epi32 diag3 0x39
  let diag0 := mm_xor_si128 diag0 b7
  let a0 := mm_add_epi32 a0 diag0
  let a1 := diag0
  let b0 := a0
  let a0 := mm_slli_epi32 a0 7
  let b0 := mm_srli_epi32 b0 25
  let diag3 := mm_xor_si128 diag3 a0
  let diag3 := mm_xor_si128 diag3 b0
  let a1 := mm_add_epi32 a1 diag3
  let a2 := diag3
  let b1 := a1
  let a1 := mm_slli_epi32 a1 9
  let b1 := mm_srli_epi32 b1 23
  let diag2 := mm_xor_si128 diag2 a1
  let diag3 := mm_shuffle_epi32 diag3 0x93
  let diag2 := mm_xor_si128 diag2 b1
  let a2 := mm_add_epi32 a2 diag2
  let a3 := diag2
  let b2 := a2
  let a2 := mm_slli_epi32 a2 13
  let b2 := mm_srli_epi32 b2 19
  let diag1 := mm_xor_si128 diag1 a2
  let diag2 := mm_shuffle_epi32 diag2 0x4e
  let diag1 := mm_xor_si128 diag1 b2
  let a3 := mm_add_epi32 a3 diag1
  let a4 := diag3
  let b3 := a3
  let a3 := mm_slli_epi32 a3 18
  let b3 := mm_srli_epi32 b3 14
  let diag0 := mm_xor_si128 diag0 a3
  let diag1 := mm_shuffle_epi32 diag1 0x39
  let diag0 := mm_xor_si128 diag0 b3
  let a4 := mm_add_epi32 a4 diag0
  let a5 := diag0
  let b4 := a4
  let a4 := mm_slli_epi32 a4 7
  let b4 := mm_srli_epi32 b4 25
  let diag1 := mm_xor_si128 diag1 a4
  let diag1 := mm_xor_si128 diag1 b4
  let a5 := mm_add_epi32 a5 diag1
  let a6 := diag1
  let b5 := a5
  let a5 := mm_slli_epi32 a5 9
  let b5 := mm_srli_epi32 b5 23
  let diag2 := mm_xor_si128 diag2 a5
  let diag1 := mm_shuffle_epi32 diag1 0x93
  let diag2 := mm_xor_si128 diag2 b5
  let a6 := mm_add_epi32 a6 diag2
  let a7 := diag2
  let b6 := a6
  let a6 := mm_slli_epi32 a6 13
  let b6 := mm_srli_epi32 b6 19
  let diag3 := mm_xor_si128 diag3 a6
  let diag2 := mm_shuffle_epi32 diag2 0x4e
  let diag3 := mm_xor_si128 diag3 b6
  let a7 := mm_add_epi32 a7 diag3
  let a0 := diag1
  let b7 := a7
  let a7 := mm_slli_epi32 a7 18
  let b7 := mm_srli_epi32 b7 14
  let diag0 := mm_xor_si128 diag0 a7
  let diag3 := mm_shuffle_epi32 diag3 0x39
  let diag0 := mm_xor_si128 diag0 b7
  ⟨diag0, diag1, diag2, diag3, a0⟩

/-- u1.h / u0.h from `diag0 = _mm_loadu_si128(x + 0)` to `diag3 = _mm_add_epi32(diag3, _mm_loadu_si128(x + 12))` -/
def row_block (x : W16) : Diag :=
  let diag0 := mm_loadu_si128 (words_mem x.x0 x.x1 x.x2 x.x3)
  let diag1 := mm_loadu_si128 (words_mem x.x4 x.x5 x.x6 x.x7)
  let diag2 := mm_loadu_si128 (words_mem x.x8 x.x9 x.x10 x.x11)
  let diag3 := mm_loadu_si128 (words_mem x.x12 x.x13 x.x14 x.x15)
  let a0 := diag1
  let r := forUpBy4 row_body ROUNDS 0 ⟨diag0, diag1, diag2, diag3, a0⟩
  let diag0 := mm_add_epi32 r.diag0 (mm_loadu_si128 (words_mem x.x0 x.x1 x.x2 x.x3))
  let diag1 := mm_add_epi32 r.diag1 (mm_loadu_si128 (words_mem x.x4 x.x5 x.x6 x.x7))
  let diag2 := mm_add_epi32 r.diag2 (mm_loadu_si128 (words_mem x.x8 x.x9 x.x10 x.x11))
  let diag3 := mm_add_epi32 r.diag3 (mm_loadu_si128 (words_mem x.x12 x.x13 x.x14 x.x15))
  ⟨diag0, diag1, diag2, diag3, r.a0⟩

/-- `*(uint32_t *) (c + off) = w` on the little-endian machine -/
def store_u32 (c : Bytes) (off : Nat) (w : UInt32) : Bytes := storeBytes c off (store32_le w)

/-- u1.h `ONEQUAD(A, B, C, D)` = `ONEQUAD_SHUFFLE(A, B, C, D)`: the low lanes of the four registers are XORed with the
    message words `A, B, C, D` and stored at those words of `c`; the registers are rotated by one lane -/
def u1_ONEQUAD (A B C D : Nat) (diag0 diag1 diag2 diag3 : V128) (m c : Bytes) :
    V128 × V128 × V128 × V128 × Bytes :=
  let inA := mm_cvtsi128_si32 diag0
  let inB := mm_cvtsi128_si32 diag1
  let inC := mm_cvtsi128_si32 diag2
  let inD := mm_cvtsi128_si32 diag3
  let diag0 := mm_shuffle_epi32 diag0 0x39
  let diag1 := mm_shuffle_epi32 diag1 0x39
  let diag2 := mm_shuffle_epi32 diag2 0x39
  let diag3 := mm_shuffle_epi32 diag3 0x39
  let inA := inA ^^^ load32_le (m.drop (A * 4))
  let inB := inB ^^^ load32_le (m.drop (B * 4))
  let inC := inC ^^^ load32_le (m.drop (C * 4))
  let inD := inD ^^^ load32_le (m.drop (D * 4))
  let c := store_u32 c (A * 4) inA
  let c := store_u32 c (B * 4) inB
  let c := store_u32 c (C * 4) inC
  let c := store_u32 c (D * 4) inD
  (diag0, diag1, diag2, diag3, c)

/-- one pass through the body of `while (bytes >= 64)` in u1.h: the buffer at `c` after the sixteen 4-byte
    stores, and the context after `in8 = x[8]; in9 = x[13]; in8++; if (in8 == 0) in9++; x[8] = in8; x[13] = in9` -/
def u1_iter (x : W16) (m c : Bytes) : Bytes × W16 :=
  let r := row_block x
  let (diag0, diag1, diag2, diag3, c) := u1_ONEQUAD 0 12 8 4 r.diag0 r.diag1 r.diag2 r.diag3 m c
  let (diag0, diag1, diag2, diag3, c) := u1_ONEQUAD 5 1 13 9 diag0 diag1 diag2 diag3 m c
  let (diag0, diag1, diag2, diag3, c) := u1_ONEQUAD 10 6 2 14 diag0 diag1 diag2 diag3 m c
  let (_, _, _, _, c) := u1_ONEQUAD 15 11 7 3 diag0 diag1 diag2 diag3 m c
  let in8 := x.x8
  let in9 := x.x13
  let in8 := in8 + 1
  let in9 := if in8 = 0 then in9 + 1 else in9
  (c, { x with x8 := in8, x13 := in9 })

/-- `while (bytes >= 64) { …; c += 64; m += 64; bytes -= 64; }` (`bytes` is `m.length`). Returns the bytes
    written, the context, and the advanced `m`, `c`. `fuel` bounds the iterations (use `m.length`). -/
def u1_loop : Nat → W16 → Bytes → Bytes → Bytes × W16 × Bytes × Bytes
  | 0, x, m, c => ([], x, m, c)
  | fuel + 1, x, m, c =>
    if m.length ≥ 64 then
      let (c, x) := u1_iter x m c
      let (out, x, m', c') := u1_loop fuel x (m.drop 64) (c.drop 64)
      (c.take 64 ++ out, x, m', c')
    else ([], x, m, c)

/-- u0.h `ONEQUAD(A, B, C, D)`: as in u1.h but the words go to `partialblock` and no message is XORed -/
def u0_ONEQUAD (A B C D : Nat) (diag0 diag1 diag2 diag3 : V128) (partialblock : Bytes) :
    V128 × V128 × V128 × V128 × Bytes :=
  let inA := mm_cvtsi128_si32 diag0
  let inB := mm_cvtsi128_si32 diag1
  let inC := mm_cvtsi128_si32 diag2
  let inD := mm_cvtsi128_si32 diag3
  let diag0 := mm_shuffle_epi32 diag0 0x39
  let diag1 := mm_shuffle_epi32 diag1 0x39
  let diag2 := mm_shuffle_epi32 diag2 0x39
  let diag3 := mm_shuffle_epi32 diag3 0x39
  let partialblock := store_u32 partialblock (A * 4) inA
  let partialblock := store_u32 partialblock (B * 4) inB
  let partialblock := store_u32 partialblock (C * 4) inC
  let partialblock := store_u32 partialblock (D * 4) inD
  (diag0, diag1, diag2, diag3, partialblock)

/-- u0.h: `if (bytes > 0) { … }`: the keystream block goes to `uint8_t partialblock[64] = { 0 }`, then
    `for (i = 0; i < bytes; i++) c[i] = m[i] ^ partialblock[i];` (`ChachaSimd.u0_xorloop` is that loop).
    No counter update: `x[8]`, `x[13]` are left alone. -/
def u0 (x : W16) (m c : Bytes) : Bytes :=
  let bytes := m.length
  if bytes > 0 then
    let r := row_block x
    let partialblock := zeros 64
    let (diag0, diag1, diag2, diag3, partialblock) := u0_ONEQUAD 0 12 8 4 r.diag0 r.diag1 r.diag2 r.diag3 partialblock
    let (diag0, diag1, diag2, diag3, partialblock) := u0_ONEQUAD 5 1 13 9 diag0 diag1 diag2 diag3 partialblock
    let (diag0, diag1, diag2, diag3, partialblock) := u0_ONEQUAD 10 6 2 14 diag0 diag1 diag2 diag3 partialblock
    let (_, _, _, _, partialblock) := u0_ONEQUAD 15 11 7 3 diag0 diag1 diag2 diag3 partialblock
    u0_xorloop bytes m partialblock 0 c
  else c

/-! ### u4.h: four blocks, one per 32-bit lane. `X16` field `x_i` is the local `z<i>` / `orig<i>` -/

/-- body of `for (i = 0; i < ROUNDS; i += 2)` in u4.h (lines 105-359): two rounds on four blocks -/
def u4_doubleRound (s : X16 V128) : X16 V128 :=
  let ⟨z0, z1, z2, z3, z4, z5, z6, z7, z8, z9, z10, z11, z12, z13, z14, z15⟩ := s
  let y4 := z12
  let y4 := mm_add_epi32 y4 z0
  let r4 := y4
  let y4 := mm_slli_epi32 y4 7
  let z4 := mm_xor_si128 z4 y4
  let r4 := mm_srli_epi32 r4 25
  let z4 := mm_xor_si128 z4 r4
  let y9 := z1
  let y9 := mm_add_epi32 y9 z5
  let r9 := y9
  let y9 := mm_slli_epi32 y9 7
  let z9 := mm_xor_si128 z9 y9
  let r9 := mm_srli_epi32 r9 25
  let z9 := mm_xor_si128 z9 r9
  let y8 := z0
  let y8 := mm_add_epi32 y8 z4
  let r8 := y8
  let y8 := mm_slli_epi32 y8 9
  let z8 := mm_xor_si128 z8 y8
  let r8 := mm_srli_epi32 r8 23
  let z8 := mm_xor_si128 z8 r8
  let y13 := z5
  let y13 := mm_add_epi32 y13 z9
  let r13 := y13
  let y13 := mm_slli_epi32 y13 9
  let z13 := mm_xor_si128 z13 y13
  let r13 := mm_srli_epi32 r13 23
  let z13 := mm_xor_si128 z13 r13
  let y12 := z4
  let y12 := mm_add_epi32 y12 z8
  let r12 := y12
  let y12 := mm_slli_epi32 y12 13
  let z12 := mm_xor_si128 z12 y12
  let r12 := mm_srli_epi32 r12 19
  let z12 := mm_xor_si128 z12 r12
  let y1 := z9
  let y1 := mm_add_epi32 y1 z13
  let r1 := y1
  let y1 := mm_slli_epi32 y1 13
  let z1 := mm_xor_si128 z1 y1
  let r1 := mm_srli_epi32 r1 19
  let z1 := mm_xor_si128 z1 r1
  let y0 := z8
  let y0 := mm_add_epi32 y0 z12
  let r0 := y0
  let y0 := mm_slli_epi32 y0 18
  let z0 := mm_xor_si128 z0 y0
  let r0 := mm_srli_epi32 r0 14
  let z0 := mm_xor_si128 z0 r0
  let y5 := z13
  let y5 := mm_add_epi32 y5 z1
  let r5 := y5
  let y5 := mm_slli_epi32 y5 18
  let z5 := mm_xor_si128 z5 y5
  let r5 := mm_srli_epi32 r5 14
  let z5 := mm_xor_si128 z5 r5
  let y14 := z6
  let y14 := mm_add_epi32 y14 z10
  let r14 := y14
  let y14 := mm_slli_epi32 y14 7
  let z14 := mm_xor_si128 z14 y14
  let r14 := mm_srli_epi32 r14 25
  let z14 := mm_xor_si128 z14 r14
  let y3 := z11
  let y3 := mm_add_epi32 y3 z15
  let r3 := y3
  let y3 := mm_slli_epi32 y3 7
  let z3 := mm_xor_si128 z3 y3
  let r3 := mm_srli_epi32 r3 25
  let z3 := mm_xor_si128 z3 r3
  let y2 := z10
  let y2 := mm_add_epi32 y2 z14
  let r2 := y2
  let y2 := mm_slli_epi32 y2 9
  let z2 := mm_xor_si128 z2 y2
  let r2 := mm_srli_epi32 r2 23
  let z2 := mm_xor_si128 z2 r2
  let y7 := z15
  let y7 := mm_add_epi32 y7 z3
  let r7 := y7
  let y7 := mm_slli_epi32 y7 9
  let z7 := mm_xor_si128 z7 y7
  let r7 := mm_srli_epi32 r7 23
  let z7 := mm_xor_si128 z7 r7
  let y6 := z14
  let y6 := mm_add_epi32 y6 z2
  let r6 := y6
  let y6 := mm_slli_epi32 y6 13
  let z6 := mm_xor_si128 z6 y6
  let r6 := mm_srli_epi32 r6 19
  let z6 := mm_xor_si128 z6 r6
  let y11 := z3
  let y11 := mm_add_epi32 y11 z7
  let r11 := y11
  let y11 := mm_slli_epi32 y11 13
  let z11 := mm_xor_si128 z11 y11
  let r11 := mm_srli_epi32 r11 19
  let z11 := mm_xor_si128 z11 r11
  let y10 := z2
  let y10 := mm_add_epi32 y10 z6
  let r10 := y10
  let y10 := mm_slli_epi32 y10 18
  let z10 := mm_xor_si128 z10 y10
  let r10 := mm_srli_epi32 r10 14
  let z10 := mm_xor_si128 z10 r10
  let y1 := z3
  let y1 := mm_add_epi32 y1 z0
  let r1 := y1
  let y1 := mm_slli_epi32 y1 7
  let z1 := mm_xor_si128 z1 y1
  let r1 := mm_srli_epi32 r1 25
  let z1 := mm_xor_si128 z1 r1
  let y15 := z7
  let y15 := mm_add_epi32 y15 z11
  let r15 := y15
  let y15 := mm_slli_epi32 y15 18
  let z15 := mm_xor_si128 z15 y15
  let r15 := mm_srli_epi32 r15 14
  let z15 := mm_xor_si128 z15 r15
  let y6 := z4
  let y6 := mm_add_epi32 y6 z5
  let r6 := y6
  let y6 := mm_slli_epi32 y6 7
  let z6 := mm_xor_si128 z6 y6
  let r6 := mm_srli_epi32 r6 25
  let z6 := mm_xor_si128 z6 r6
  let y2 := z0
  let y2 := mm_add_epi32 y2 z1
  let r2 := y2
  let y2 := mm_slli_epi32 y2 9
  let z2 := mm_xor_si128 z2 y2
  let r2 := mm_srli_epi32 r2 23
  let z2 := mm_xor_si128 z2 r2
  let y7 := z5
  let y7 := mm_add_epi32 y7 z6
  let r7 := y7
  let y7 := mm_slli_epi32 y7 9
  let z7 := mm_xor_si128 z7 y7
  let r7 := mm_srli_epi32 r7 23
  let z7 := mm_xor_si128 z7 r7
  let y3 := z1
  let y3 := mm_add_epi32 y3 z2
  let r3 := y3
  let y3 := mm_slli_epi32 y3 13
  let z3 := mm_xor_si128 z3 y3
  let r3 := mm_srli_epi32 r3 19
  let z3 := mm_xor_si128 z3 r3
  let y4 := z6
  let y4 := mm_add_epi32 y4 z7
  let r4 := y4
  let y4 := mm_slli_epi32 y4 13
  let z4 := mm_xor_si128 z4 y4
  let r4 := mm_srli_epi32 r4 19
  let z4 := mm_xor_si128 z4 r4
  let y0 := z2
  let y0 := mm_add_epi32 y0 z3
  let r0 := y0
  let y0 := mm_slli_epi32 y0 18
  let z0 := mm_xor_si128 z0 y0
  let r0 := mm_srli_epi32 r0 14
  let z0 := mm_xor_si128 z0 r0
  let y5 := z7
  let y5 := mm_add_epi32 y5 z4
  let r5 := y5
  let y5 := mm_slli_epi32 y5 18
  let z5 := mm_xor_si128 z5 y5
  let r5 := mm_srli_epi32 r5 14
  let z5 := mm_xor_si128 z5 r5
  let y11 := z9
  let y11 := mm_add_epi32 y11 z10
  let r11 := y11
  let y11 := mm_slli_epi32 y11 7
  let z11 := mm_xor_si128 z11 y11
  let r11 := mm_srli_epi32 r11 25
  let z11 := mm_xor_si128 z11 r11
  let y12 := z14
  let y12 := mm_add_epi32 y12 z15
  let r12 := y12
  let y12 := mm_slli_epi32 y12 7
  let z12 := mm_xor_si128 z12 y12
  let r12 := mm_srli_epi32 r12 25
  let z12 := mm_xor_si128 z12 r12
  let y8 := z10
  let y8 := mm_add_epi32 y8 z11
  let r8 := y8
  let y8 := mm_slli_epi32 y8 9
  let z8 := mm_xor_si128 z8 y8
  let r8 := mm_srli_epi32 r8 23
  let z8 := mm_xor_si128 z8 r8
  let y13 := z15
  let y13 := mm_add_epi32 y13 z12
  let r13 := y13
  let y13 := mm_slli_epi32 y13 9
  let z13 := mm_xor_si128 z13 y13
  let r13 := mm_srli_epi32 r13 23
  let z13 := mm_xor_si128 z13 r13
  let y9 := z11
  let y9 := mm_add_epi32 y9 z8
  let r9 := y9
  let y9 := mm_slli_epi32 y9 13
  let z9 := mm_xor_si128 z9 y9
  let r9 := mm_srli_epi32 r9 19
  let z9 := mm_xor_si128 z9 r9
  let y14 := z12
  let y14 := mm_add_epi32 y14 z13
  let r14 := y14
  let y14 := mm_slli_epi32 y14 13
  let z14 := mm_xor_si128 z14 y14
  let r14 := mm_srli_epi32 r14 19
  let z14 := mm_xor_si128 z14 r14
  let y10 := z8
  let y10 := mm_add_epi32 y10 z9
  let r10 := y10
  let y10 := mm_slli_epi32 y10 18
  let z10 := mm_xor_si128 z10 y10
  let r10 := mm_srli_epi32 r10 14
  let z10 := mm_xor_si128 z10 r10
  let y15 := z13
  let y15 := mm_add_epi32 y15 z14
  let r15 := y15
  let y15 := mm_slli_epi32 y15 18
  let z15 := mm_xor_si128 z15 y15
  let r15 := mm_srli_epi32 r15 14
  let z15 := mm_xor_si128 z15 r15
  ⟨z0, z1, z2, z3, z4, z5, z6, z7, z8, z9, z10, z11, z12, z13, z14, z15⟩

/-- u4.h lines 15-48, from `z0 = _mm_loadu_si128(x + 0)` to `orig15 = z15`: the fourteen broadcast registers
    (`x_8`, `x_9` = `orig8`, `orig9` are filled by `u4_counters`; they are given the dummy value 0 here) -/
def u4_origs (x : W16) : X16 V128 :=
  let z0 := mm_loadu_si128 (words_mem x.x0 x.x1 x.x2 x.x3)
  let z5 := mm_shuffle_epi32 z0 0x55
  let z10 := mm_shuffle_epi32 z0 0xaa
  let z15 := mm_shuffle_epi32 z0 0xff
  let z0 := mm_shuffle_epi32 z0 0x00
  let z1 := mm_loadu_si128 (words_mem x.x4 x.x5 x.x6 x.x7)
  let z6 := mm_shuffle_epi32 z1 0xaa
  let z11 := mm_shuffle_epi32 z1 0xff
  let z12 := mm_shuffle_epi32 z1 0x00
  let z1 := mm_shuffle_epi32 z1 0x55
  let z2 := mm_loadu_si128 (words_mem x.x8 x.x9 x.x10 x.x11)
  let z7 := mm_shuffle_epi32 z2 0xff
  let z13 := mm_shuffle_epi32 z2 0x55
  let z2 := mm_shuffle_epi32 z2 0xaa
  let z3 := mm_loadu_si128 (words_mem x.x12 x.x13 x.x14 x.x15)
  let z4 := mm_shuffle_epi32 z3 0x00
  let z14 := mm_shuffle_epi32 z3 0xaa
  let z3 := mm_shuffle_epi32 z3 0xff
  ⟨z0, z1, z2, z3, z4, z5, z6, z7, ⟨0, 0, 0, 0⟩, ⟨0, 0, 0, 0⟩, z10, z11, z12, z13, z14, z15⟩

/-- the counter lanes of u4.h: from `in8 = x[8]` to `z9 = _mm_unpackhi_epi32(t8, t9)` -/
def u4_counters (in8 in9 : UInt32) : V128 × V128 × UInt64 :=
  let addv8 := mm_set_epi64x 1 0
  let addv9 := mm_set_epi64x 3 2
  let in89 : UInt64 := in8.toUInt64 ||| (in9.toUInt64 <<< 32)
  let t8 := mm_set1_epi64x in89
  let t9 := mm_set1_epi64x in89
  let z8 := mm_add_epi64 addv8 t8
  let z9 := mm_add_epi64 addv9 t9
  let t8 := mm_unpacklo_epi32 z8 z9
  let t9 := mm_unpackhi_epi32 z8 z9
  let z8 := mm_unpacklo_epi32 t8 t9
  let z9 := mm_unpackhi_epi32 t8 t9
  (z8, z9, in89)

/-- u4.h `ONEQUAD(A, B, C, D)` = `ONEQUAD_TRANSPOSE(A, B, C, D)` with the pointers `m`, `c + coff`: add the
    originals, transpose the 4×4 words, XOR with the message and store at `c + 0 / 64 / 128 / 192` -/
def u4_ONEQUAD (z_A z_B z_C z_D orig_A orig_B orig_C orig_D : V128) (m c : Bytes) (coff : Nat) : Bytes :=
  let z_A := mm_add_epi32 z_A orig_A
  let z_B := mm_add_epi32 z_B orig_B
  let z_C := mm_add_epi32 z_C orig_C
  let z_D := mm_add_epi32 z_D orig_D
  let y_A := mm_unpacklo_epi32 z_A z_B
  let y_B := mm_unpacklo_epi32 z_C z_D
  let y_C := mm_unpackhi_epi32 z_A z_B
  let y_D := mm_unpackhi_epi32 z_C z_D
  let z_A := mm_unpacklo_epi64 y_A y_B
  let z_B := mm_unpackhi_epi64 y_A y_B
  let z_C := mm_unpacklo_epi64 y_C y_D
  let z_D := mm_unpackhi_epi64 y_C y_D
  let y_A := mm_xor_si128 z_A (mm_loadu_si128 (m.drop 0))
  let c := mm_storeu_si128 c (coff + 0) y_A
  let y_B := mm_xor_si128 z_B (mm_loadu_si128 (m.drop 64))
  let c := mm_storeu_si128 c (coff + 64) y_B
  let y_C := mm_xor_si128 z_C (mm_loadu_si128 (m.drop 128))
  let c := mm_storeu_si128 c (coff + 128) y_C
  let y_D := mm_xor_si128 z_D (mm_loadu_si128 (m.drop 192))
  let c := mm_storeu_si128 c (coff + 192) y_D
  c

/-- one pass through the body of `while (bytes >= 256)` in u4.h: the buffer at `c` after the sixteen stores and
    the context after `in89 += 4; x[8] = in89 & 0xFFFFFFFF; x[13] = (in89 >> 32) & 0xFFFFFFFF` -/
def u4_iter (x : W16) (m c : Bytes) : Bytes × W16 :=
  let o := u4_origs x
  let in8 := x.x8
  let in9 := x.x13
  let (z8, z9, in89) := u4_counters in8 in9
  let orig8 := z8
  let orig9 := z9
  let in89 := in89 + 4
  let x := { x with x8 := (in89 &&& 0xFFFFFFFF).toUInt32, x13 := ((in89 >>> 32) &&& 0xFFFFFFFF).toUInt32 }
  let s := ChachaSimd.forUpBy2 u4_doubleRound ROUNDS 0
      ⟨o.x_0, o.x_1, o.x_2, o.x_3, o.x_4, o.x_5, o.x_6, o.x_7, orig8, orig9, o.x_10, o.x_11,
       o.x_12, o.x_13, o.x_14, o.x_15⟩
  let c := u4_ONEQUAD s.x_0 s.x_1 s.x_2 s.x_3 o.x_0 o.x_1 o.x_2 o.x_3 m c 0
  let m := m.drop 16                                    -- m += 16; c += 16;
  let c := u4_ONEQUAD s.x_4 s.x_5 s.x_6 s.x_7 o.x_4 o.x_5 o.x_6 o.x_7 m c 16
  let m := m.drop 16
  let c := u4_ONEQUAD s.x_8 s.x_9 s.x_10 s.x_11 orig8 orig9 o.x_10 o.x_11 m c 32
  let m := m.drop 16
  let c := u4_ONEQUAD s.x_12 s.x_13 s.x_14 s.x_15 o.x_12 o.x_13 o.x_14 o.x_15 m c 48
  (c, x)

/-- `if (bytes >= 256) { … while (bytes >= 256) { …; bytes -= 256; c += 256; m += 256; } }` -/
def u4_loop : Nat → W16 → Bytes → Bytes → Bytes × W16 × Bytes × Bytes
  | 0, x, m, c => ([], x, m, c)
  | fuel + 1, x, m, c =>
    if m.length ≥ 256 then
      let (c, x) := u4_iter x m c
      let (out, x, m', c') := u4_loop fuel x (m.drop 256) (c.drop 256)
      (c.take 256 ++ out, x, m', c')
    else ([], x, m, c)

/-! ### u8.h: eight blocks, one per 32-bit lane of a 256-bit register -/

/-- body of `for (i = 0; i < ROUNDS; i += 2)` in u8.h (lines 105-359): the u4.h text with `_mm256_` intrinsics -/
def u8_doubleRound (s : X16 M256) : X16 M256 :=
  let ⟨z0, z1, z2, z3, z4, z5, z6, z7, z8, z9, z10, z11, z12, z13, z14, z15⟩ := s
  let y4 := z12
  let y4 := mm256_add_epi32 y4 z0
  let r4 := y4
  let y4 := mm256_slli_epi32 y4 7
  let z4 := mm256_xor_si256 z4 y4
  let r4 := mm256_srli_epi32 r4 25
  let z4 := mm256_xor_si256 z4 r4
  let y9 := z1
  let y9 := mm256_add_epi32 y9 z5
  let r9 := y9
  let y9 := mm256_slli_epi32 y9 7
  let z9 := mm256_xor_si256 z9 y9
  let r9 := mm256_srli_epi32 r9 25
  let z9 := mm256_xor_si256 z9 r9
  let y8 := z0
  let y8 := mm256_add_epi32 y8 z4
  let r8 := y8
  let y8 := mm256_slli_epi32 y8 9
  let z8 := mm256_xor_si256 z8 y8
  let r8 := mm256_srli_epi32 r8 23
  let z8 := mm256_xor_si256 z8 r8
  let y13 := z5
  let y13 := mm256_add_epi32 y13 z9
  let r13 := y13
  let y13 := mm256_slli_epi32 y13 9
  let z13 := mm256_xor_si256 z13 y13
  let r13 := mm256_srli_epi32 r13 23
  let z13 := mm256_xor_si256 z13 r13
  let y12 := z4
  let y12 := mm256_add_epi32 y12 z8
  let r12 := y12
  let y12 := mm256_slli_epi32 y12 13
  let z12 := mm256_xor_si256 z12 y12
  let r12 := mm256_srli_epi32 r12 19
  let z12 := mm256_xor_si256 z12 r12
  let y1 := z9
  let y1 := mm256_add_epi32 y1 z13
  let r1 := y1
  let y1 := mm256_slli_epi32 y1 13
  let z1 := mm256_xor_si256 z1 y1
  let r1 := mm256_srli_epi32 r1 19
  let z1 := mm256_xor_si256 z1 r1
  let y0 := z8
  let y0 := mm256_add_epi32 y0 z12
  let r0 := y0
  let y0 := mm256_slli_epi32 y0 18
  let z0 := mm256_xor_si256 z0 y0
  let r0 := mm256_srli_epi32 r0 14
  let z0 := mm256_xor_si256 z0 r0
  let y5 := z13
  let y5 := mm256_add_epi32 y5 z1
  let r5 := y5
  let y5 := mm256_slli_epi32 y5 18
  let z5 := mm256_xor_si256 z5 y5
  let r5 := mm256_srli_epi32 r5 14
  let z5 := mm256_xor_si256 z5 r5
  let y14 := z6
  let y14 := mm256_add_epi32 y14 z10
  let r14 := y14
  let y14 := mm256_slli_epi32 y14 7
  let z14 := mm256_xor_si256 z14 y14
  let r14 := mm256_srli_epi32 r14 25
  let z14 := mm256_xor_si256 z14 r14
  let y3 := z11
  let y3 := mm256_add_epi32 y3 z15
  let r3 := y3
  let y3 := mm256_slli_epi32 y3 7
  let z3 := mm256_xor_si256 z3 y3
  let r3 := mm256_srli_epi32 r3 25
  let z3 := mm256_xor_si256 z3 r3
  let y2 := z10
  let y2 := mm256_add_epi32 y2 z14
  let r2 := y2
  let y2 := mm256_slli_epi32 y2 9
  let z2 := mm256_xor_si256 z2 y2
  let r2 := mm256_srli_epi32 r2 23
  let z2 := mm256_xor_si256 z2 r2
  let y7 := z15
  let y7 := mm256_add_epi32 y7 z3
  let r7 := y7
  let y7 := mm256_slli_epi32 y7 9
  let z7 := mm256_xor_si256 z7 y7
  let r7 := mm256_srli_epi32 r7 23
  let z7 := mm256_xor_si256 z7 r7
  let y6 := z14
  let y6 := mm256_add_epi32 y6 z2
  let r6 := y6
  let y6 := mm256_slli_epi32 y6 13
  let z6 := mm256_xor_si256 z6 y6
  let r6 := mm256_srli_epi32 r6 19
  let z6 := mm256_xor_si256 z6 r6
  let y11 := z3
  let y11 := mm256_add_epi32 y11 z7
  let r11 := y11
  let y11 := mm256_slli_epi32 y11 13
  let z11 := mm256_xor_si256 z11 y11
  let r11 := mm256_srli_epi32 r11 19
  let z11 := mm256_xor_si256 z11 r11
  let y10 := z2
  let y10 := mm256_add_epi32 y10 z6
  let r10 := y10
  let y10 := mm256_slli_epi32 y10 18
  let z10 := mm256_xor_si256 z10 y10
  let r10 := mm256_srli_epi32 r10 14
  let z10 := mm256_xor_si256 z10 r10
  let y1 := z3
  let y1 := mm256_add_epi32 y1 z0
  let r1 := y1
  let y1 := mm256_slli_epi32 y1 7
  let z1 := mm256_xor_si256 z1 y1
  let r1 := mm256_srli_epi32 r1 25
  let z1 := mm256_xor_si256 z1 r1
  let y15 := z7
  let y15 := mm256_add_epi32 y15 z11
  let r15 := y15
  let y15 := mm256_slli_epi32 y15 18
  let z15 := mm256_xor_si256 z15 y15
  let r15 := mm256_srli_epi32 r15 14
  let z15 := mm256_xor_si256 z15 r15
  let y6 := z4
  let y6 := mm256_add_epi32 y6 z5
  let r6 := y6
  let y6 := mm256_slli_epi32 y6 7
  let z6 := mm256_xor_si256 z6 y6
  let r6 := mm256_srli_epi32 r6 25
  let z6 := mm256_xor_si256 z6 r6
  let y2 := z0
  let y2 := mm256_add_epi32 y2 z1
  let r2 := y2
  let y2 := mm256_slli_epi32 y2 9
  let z2 := mm256_xor_si256 z2 y2
  let r2 := mm256_srli_epi32 r2 23
  let z2 := mm256_xor_si256 z2 r2
  let y7 := z5
  let y7 := mm256_add_epi32 y7 z6
  let r7 := y7
  let y7 := mm256_slli_epi32 y7 9
  let z7 := mm256_xor_si256 z7 y7
  let r7 := mm256_srli_epi32 r7 23
  let z7 := mm256_xor_si256 z7 r7
  let y3 := z1
  let y3 := mm256_add_epi32 y3 z2
  let r3 := y3
  let y3 := mm256_slli_epi32 y3 13
  let z3 := mm256_xor_si256 z3 y3
  let r3 := mm256_srli_epi32 r3 19
  let z3 := mm256_xor_si256 z3 r3
  let y4 := z6
  let y4 := mm256_add_epi32 y4 z7
  let r4 := y4
  let y4 := mm256_slli_epi32 y4 13
  let z4 := mm256_xor_si256 z4 y4
  let r4 := mm256_srli_epi32 r4 19
  let z4 := mm256_xor_si256 z4 r4
  let y0 := z2
  let y0 := mm256_add_epi32 y0 z3
  let r0 := y0
  let y0 := mm256_slli_epi32 y0 18
  let z0 := mm256_xor_si256 z0 y0
  let r0 := mm256_srli_epi32 r0 14
  let z0 := mm256_xor_si256 z0 r0
  let y5 := z7
  let y5 := mm256_add_epi32 y5 z4
  let r5 := y5
  let y5 := mm256_slli_epi32 y5 18
  let z5 := mm256_xor_si256 z5 y5
  let r5 := mm256_srli_epi32 r5 14
  let z5 := mm256_xor_si256 z5 r5
  let y11 := z9
  let y11 := mm256_add_epi32 y11 z10
  let r11 := y11
  let y11 := mm256_slli_epi32 y11 7
  let z11 := mm256_xor_si256 z11 y11
  let r11 := mm256_srli_epi32 r11 25
  let z11 := mm256_xor_si256 z11 r11
  let y12 := z14
  let y12 := mm256_add_epi32 y12 z15
  let r12 := y12
  let y12 := mm256_slli_epi32 y12 7
  let z12 := mm256_xor_si256 z12 y12
  let r12 := mm256_srli_epi32 r12 25
  let z12 := mm256_xor_si256 z12 r12
  let y8 := z10
  let y8 := mm256_add_epi32 y8 z11
  let r8 := y8
  let y8 := mm256_slli_epi32 y8 9
  let z8 := mm256_xor_si256 z8 y8
  let r8 := mm256_srli_epi32 r8 23
  let z8 := mm256_xor_si256 z8 r8
  let y13 := z15
  let y13 := mm256_add_epi32 y13 z12
  let r13 := y13
  let y13 := mm256_slli_epi32 y13 9
  let z13 := mm256_xor_si256 z13 y13
  let r13 := mm256_srli_epi32 r13 23
  let z13 := mm256_xor_si256 z13 r13
  let y9 := z11
  let y9 := mm256_add_epi32 y9 z8
  let r9 := y9
  let y9 := mm256_slli_epi32 y9 13
  let z9 := mm256_xor_si256 z9 y9
  let r9 := mm256_srli_epi32 r9 19
  let z9 := mm256_xor_si256 z9 r9
  let y14 := z12
  let y14 := mm256_add_epi32 y14 z13
  let r14 := y14
  let y14 := mm256_slli_epi32 y14 13
  let z14 := mm256_xor_si256 z14 y14
  let r14 := mm256_srli_epi32 r14 19
  let z14 := mm256_xor_si256 z14 r14
  let y10 := z8
  let y10 := mm256_add_epi32 y10 z9
  let r10 := y10
  let y10 := mm256_slli_epi32 y10 18
  let z10 := mm256_xor_si256 z10 y10
  let r10 := mm256_srli_epi32 r10 14
  let z10 := mm256_xor_si256 z10 r10
  let y15 := z13
  let y15 := mm256_add_epi32 y15 z14
  let r15 := y15
  let y15 := mm256_slli_epi32 y15 18
  let z15 := mm256_xor_si256 z15 y15
  let r15 := mm256_srli_epi32 r15 14
  let z15 := mm256_xor_si256 z15 r15
  ⟨z0, z1, z2, z3, z4, z5, z6, z7, z8, z9, z10, z11, z12, z13, z14, z15⟩

/-- u8.h lines 6-38, `z0 = _mm256_set1_epi32(x[0])` … `orig15 = z15` (`z8`, `z9` "useless": dummy 0 here) -/
def u8_origs (x : W16) : X16 M256 :=
  let z0 := mm256_set1_epi32 x.x0
  let z5 := mm256_set1_epi32 x.x1
  let z10 := mm256_set1_epi32 x.x2
  let z15 := mm256_set1_epi32 x.x3
  let z12 := mm256_set1_epi32 x.x4
  let z1 := mm256_set1_epi32 x.x5
  let z6 := mm256_set1_epi32 x.x6
  let z11 := mm256_set1_epi32 x.x7
  let z13 := mm256_set1_epi32 x.x9
  let z2 := mm256_set1_epi32 x.x10
  let z7 := mm256_set1_epi32 x.x11
  let z4 := mm256_set1_epi32 x.x12
  let z14 := mm256_set1_epi32 x.x14
  let z3 := mm256_set1_epi32 x.x15
  ⟨z0, z1, z2, z3, z4, z5, z6, z7, mm256_set1_epi32 0, mm256_set1_epi32 0, z10, z11, z12, z13, z14, z15⟩

/-- the counter lanes of u8.h: from `in8 = x[8]` to `z9 = _mm256_permutevar8x32_epi32(t9, permute)` -/
def u8_counters (in8 in9 : UInt32) : M256 × M256 × UInt64 :=
  let addv8 := mm256_set_epi64x 3 2 1 0
  let addv9 := mm256_set_epi64x 7 6 5 4
  let permute := mm256_set_epi32 7 6 3 2 5 4 1 0
  let in89 : UInt64 := in8.toUInt64 ||| (in9.toUInt64 <<< 32)
  let z9 := mm256_broadcastq_epi64 (mm_cvtsi64_si128 in89)
  let z8 := z9
  let t8 := mm256_add_epi64 addv8 z8
  let t9 := mm256_add_epi64 addv9 z9
  let z8 := mm256_unpacklo_epi32 t8 t9
  let z9 := mm256_unpackhi_epi32 t8 t9
  let t8 := mm256_unpacklo_epi32 z8 z9
  let t9 := mm256_unpackhi_epi32 z8 z9
  let z8 := mm256_permutevar8x32_epi32 t8 permute
  let z9 := mm256_permutevar8x32_epi32 t9 permute
  (z8, z9, in89)

/-- `ONEQUAD_UNPCK(A, B, C, D)`: add the originals and transpose 4×4 inside each 128-bit half -/
def u8_ONEQUAD_UNPCK (z_A z_B z_C z_D orig_A orig_B orig_C orig_D : M256) : M256 × M256 × M256 × M256 :=
  let z_A := mm256_add_epi32 z_A orig_A
  let z_B := mm256_add_epi32 z_B orig_B
  let z_C := mm256_add_epi32 z_C orig_C
  let z_D := mm256_add_epi32 z_D orig_D
  let y_A := mm256_unpacklo_epi32 z_A z_B
  let y_B := mm256_unpacklo_epi32 z_C z_D
  let y_C := mm256_unpackhi_epi32 z_A z_B
  let y_D := mm256_unpackhi_epi32 z_C z_D
  let z_A := mm256_unpacklo_epi64 y_A y_B
  let z_B := mm256_unpackhi_epi64 y_A y_B
  let z_C := mm256_unpacklo_epi64 y_C y_D
  let z_D := mm256_unpackhi_epi64 y_C y_D
  (z_A, z_B, z_C, z_D)

/-- `ONEOCTO(A, B, C, D, A2, B2, C2, D2)` with the pointers `m`, `c + coff`: two `ONEQUAD_UNPCK`, the eight
    `_mm256_permute2x128_si256`, the eight XORs with the message, the eight 32-byte stores -/
def u8_ONEOCTO (z_A z_B z_C z_D z_A2 z_B2 z_C2 z_D2 orig_A orig_B orig_C orig_D orig_A2 orig_B2 orig_C2 orig_D2 : M256)
    (m c : Bytes) (coff : Nat) : Bytes :=
  let (z_A, z_B, z_C, z_D) := u8_ONEQUAD_UNPCK z_A z_B z_C z_D orig_A orig_B orig_C orig_D
  let (z_A2, z_B2, z_C2, z_D2) := u8_ONEQUAD_UNPCK z_A2 z_B2 z_C2 z_D2 orig_A2 orig_B2 orig_C2 orig_D2
  let y_A := mm256_permute2x128_si256 z_A z_A2 0x20
  let y_A2 := mm256_permute2x128_si256 z_A z_A2 0x31
  let y_B := mm256_permute2x128_si256 z_B z_B2 0x20
  let y_B2 := mm256_permute2x128_si256 z_B z_B2 0x31
  let y_C := mm256_permute2x128_si256 z_C z_C2 0x20
  let y_C2 := mm256_permute2x128_si256 z_C z_C2 0x31
  let y_D := mm256_permute2x128_si256 z_D z_D2 0x20
  let y_D2 := mm256_permute2x128_si256 z_D z_D2 0x31
  let y_A := mm256_xor_si256 y_A (mm256_loadu_si256 (m.drop 0))
  let y_B := mm256_xor_si256 y_B (mm256_loadu_si256 (m.drop 64))
  let y_C := mm256_xor_si256 y_C (mm256_loadu_si256 (m.drop 128))
  let y_D := mm256_xor_si256 y_D (mm256_loadu_si256 (m.drop 192))
  let y_A2 := mm256_xor_si256 y_A2 (mm256_loadu_si256 (m.drop 256))
  let y_B2 := mm256_xor_si256 y_B2 (mm256_loadu_si256 (m.drop 320))
  let y_C2 := mm256_xor_si256 y_C2 (mm256_loadu_si256 (m.drop 384))
  let y_D2 := mm256_xor_si256 y_D2 (mm256_loadu_si256 (m.drop 448))
  let c := mm256_storeu_si256 c (coff + 0) y_A
  let c := mm256_storeu_si256 c (coff + 64) y_B
  let c := mm256_storeu_si256 c (coff + 128) y_C
  let c := mm256_storeu_si256 c (coff + 192) y_D
  let c := mm256_storeu_si256 c (coff + 256) y_A2
  let c := mm256_storeu_si256 c (coff + 320) y_B2
  let c := mm256_storeu_si256 c (coff + 384) y_C2
  let c := mm256_storeu_si256 c (coff + 448) y_D2
  c

/-- one pass through the body of `while (bytes >= 512)` in u8.h -/
def u8_iter (x : W16) (m c : Bytes) : Bytes × W16 :=
  let o := u8_origs x
  let in8 := x.x8
  let in9 := x.x13
  let (z8, z9, in89) := u8_counters in8 in9
  let orig8 := z8
  let orig9 := z9
  let in89 := in89 + 8
  let x := { x with x8 := (in89 &&& 0xFFFFFFFF).toUInt32, x13 := ((in89 >>> 32) &&& 0xFFFFFFFF).toUInt32 }
  let s := ChachaSimd.forUpBy2 u8_doubleRound ROUNDS 0
      ⟨o.x_0, o.x_1, o.x_2, o.x_3, o.x_4, o.x_5, o.x_6, o.x_7, orig8, orig9, o.x_10, o.x_11,
       o.x_12, o.x_13, o.x_14, o.x_15⟩
  let c := u8_ONEOCTO s.x_0 s.x_1 s.x_2 s.x_3 s.x_4 s.x_5 s.x_6 s.x_7
    o.x_0 o.x_1 o.x_2 o.x_3 o.x_4 o.x_5 o.x_6 o.x_7 m c 0
  let m := m.drop 32                                    -- m += 32; c += 32;
  let c := u8_ONEOCTO s.x_8 s.x_9 s.x_10 s.x_11 s.x_12 s.x_13 s.x_14 s.x_15
    orig8 orig9 o.x_10 o.x_11 o.x_12 o.x_13 o.x_14 o.x_15 m c 32
  (c, x)

/-- `if (bytes >= 512) { … while (bytes >= 512) { …; bytes -= 512; c += 512; m += 512; } }` -/
def u8_loop : Nat → W16 → Bytes → Bytes → Bytes × W16 × Bytes × Bytes
  | 0, x, m, c => ([], x, m, c)
  | fuel + 1, x, m, c =>
    if m.length ≥ 512 then
      let (c, x) := u8_iter x m c
      let (out, x, m', c') := u8_loop fuel x (m.drop 512) (c.drop 512)
      (c.take 512 ++ out, x, m', c')
    else ([], x, m, c)

/-! ### the same loop bodies when `m == c` (`stream_sse2`, `stream_avx2`: `salsa20_encrypt_bytes(&ctx, c, c, clen)`)

  Every load of `m + off` reads the buffer AS IT IS AT THAT POINT of the statement sequence. -/

/-- u1.h `ONEQUAD` with `m == c`: the four loads precede the four stores (to the same four words) -/
def u1_ONEQUAD_inplace (A B C D : Nat) (diag0 diag1 diag2 diag3 : V128) (c : Bytes) :
    V128 × V128 × V128 × V128 × Bytes :=
  let inA := mm_cvtsi128_si32 diag0
  let inB := mm_cvtsi128_si32 diag1
  let inC := mm_cvtsi128_si32 diag2
  let inD := mm_cvtsi128_si32 diag3
  let diag0 := mm_shuffle_epi32 diag0 0x39
  let diag1 := mm_shuffle_epi32 diag1 0x39
  let diag2 := mm_shuffle_epi32 diag2 0x39
  let diag3 := mm_shuffle_epi32 diag3 0x39
  let inA := inA ^^^ load32_le (c.drop (A * 4))
  let inB := inB ^^^ load32_le (c.drop (B * 4))
  let inC := inC ^^^ load32_le (c.drop (C * 4))
  let inD := inD ^^^ load32_le (c.drop (D * 4))
  let c := store_u32 c (A * 4) inA
  let c := store_u32 c (B * 4) inB
  let c := store_u32 c (C * 4) inC
  let c := store_u32 c (D * 4) inD
  (diag0, diag1, diag2, diag3, c)

/-- u1.h body with `m == c`: each `ONEQUAD` reads the buffer left by the previous ones -/
def u1_iter_inplace (x : W16) (c : Bytes) : Bytes × W16 :=
  let r := row_block x
  let (diag0, diag1, diag2, diag3, c) := u1_ONEQUAD_inplace 0 12 8 4 r.diag0 r.diag1 r.diag2 r.diag3 c
  let (diag0, diag1, diag2, diag3, c) := u1_ONEQUAD_inplace 5 1 13 9 diag0 diag1 diag2 diag3 c
  let (diag0, diag1, diag2, diag3, c) := u1_ONEQUAD_inplace 10 6 2 14 diag0 diag1 diag2 diag3 c
  let (_, _, _, _, c) := u1_ONEQUAD_inplace 15 11 7 3 diag0 diag1 diag2 diag3 c
  let in8 := x.x8
  let in9 := x.x13
  let in8 := in8 + 1
  let in9 := if in8 = 0 then in9 + 1 else in9
  (c, { x with x8 := in8, x13 := in9 })

/-- u4.h `ONEQUAD_TRANSPOSE` with `m == c` (both at `c + coff`): load, store, load, store, … -/
def u4_ONEQUAD_inplace (z_A z_B z_C z_D orig_A orig_B orig_C orig_D : V128) (c : Bytes) (coff : Nat) : Bytes :=
  let z_A := mm_add_epi32 z_A orig_A
  let z_B := mm_add_epi32 z_B orig_B
  let z_C := mm_add_epi32 z_C orig_C
  let z_D := mm_add_epi32 z_D orig_D
  let y_A := mm_unpacklo_epi32 z_A z_B
  let y_B := mm_unpacklo_epi32 z_C z_D
  let y_C := mm_unpackhi_epi32 z_A z_B
  let y_D := mm_unpackhi_epi32 z_C z_D
  let z_A := mm_unpacklo_epi64 y_A y_B
  let z_B := mm_unpackhi_epi64 y_A y_B
  let z_C := mm_unpacklo_epi64 y_C y_D
  let z_D := mm_unpackhi_epi64 y_C y_D
  let y_A := mm_xor_si128 z_A (mm_loadu_si128 (c.drop (coff + 0)))
  let c := mm_storeu_si128 c (coff + 0) y_A
  let y_B := mm_xor_si128 z_B (mm_loadu_si128 (c.drop (coff + 64)))
  let c := mm_storeu_si128 c (coff + 64) y_B
  let y_C := mm_xor_si128 z_C (mm_loadu_si128 (c.drop (coff + 128)))
  let c := mm_storeu_si128 c (coff + 128) y_C
  let y_D := mm_xor_si128 z_D (mm_loadu_si128 (c.drop (coff + 192)))
  let c := mm_storeu_si128 c (coff + 192) y_D
  c

/-- u4.h loop body with `m == c` -/
def u4_iter_inplace (x : W16) (c : Bytes) : Bytes × W16 :=
  let o := u4_origs x
  let in8 := x.x8
  let in9 := x.x13
  let (z8, z9, in89) := u4_counters in8 in9
  let orig8 := z8
  let orig9 := z9
  let in89 := in89 + 4
  let x := { x with x8 := (in89 &&& 0xFFFFFFFF).toUInt32, x13 := ((in89 >>> 32) &&& 0xFFFFFFFF).toUInt32 }
  let s := ChachaSimd.forUpBy2 u4_doubleRound ROUNDS 0
      ⟨o.x_0, o.x_1, o.x_2, o.x_3, o.x_4, o.x_5, o.x_6, o.x_7, orig8, orig9, o.x_10, o.x_11,
       o.x_12, o.x_13, o.x_14, o.x_15⟩
  let c := u4_ONEQUAD_inplace s.x_0 s.x_1 s.x_2 s.x_3 o.x_0 o.x_1 o.x_2 o.x_3 c 0
  let c := u4_ONEQUAD_inplace s.x_4 s.x_5 s.x_6 s.x_7 o.x_4 o.x_5 o.x_6 o.x_7 c 16
  let c := u4_ONEQUAD_inplace s.x_8 s.x_9 s.x_10 s.x_11 orig8 orig9 o.x_10 o.x_11 c 32
  let c := u4_ONEQUAD_inplace s.x_12 s.x_13 s.x_14 s.x_15 o.x_12 o.x_13 o.x_14 o.x_15 c 48
  (c, x)

/-- u8.h loop body with `m == c`: inside one `ONEOCTO` the eight loads precede the eight stores, so it is
    `u8_ONEOCTO` reading the current buffer at `c + coff`; the second one reads the buffer left by the first -/
def u8_iter_inplace (x : W16) (c : Bytes) : Bytes × W16 :=
  let o := u8_origs x
  let in8 := x.x8
  let in9 := x.x13
  let (z8, z9, in89) := u8_counters in8 in9
  let orig8 := z8
  let orig9 := z9
  let in89 := in89 + 8
  let x := { x with x8 := (in89 &&& 0xFFFFFFFF).toUInt32, x13 := ((in89 >>> 32) &&& 0xFFFFFFFF).toUInt32 }
  let s := ChachaSimd.forUpBy2 u8_doubleRound ROUNDS 0
      ⟨o.x_0, o.x_1, o.x_2, o.x_3, o.x_4, o.x_5, o.x_6, o.x_7, orig8, orig9, o.x_10, o.x_11,
       o.x_12, o.x_13, o.x_14, o.x_15⟩
  let c := u8_ONEOCTO s.x_0 s.x_1 s.x_2 s.x_3 s.x_4 s.x_5 s.x_6 s.x_7
    o.x_0 o.x_1 o.x_2 o.x_3 o.x_4 o.x_5 o.x_6 o.x_7 (c.drop 0) c 0
  let c := u8_ONEOCTO s.x_8 s.x_9 s.x_10 s.x_11 s.x_12 s.x_13 s.x_14 s.x_15
    orig8 orig9 o.x_10 o.x_11 o.x_12 o.x_13 o.x_14 o.x_15 (c.drop 32) c 32
  (c, x)

/-! ## Part 4: `salsa20_encrypt_bytes` and the entry points -/

/-- salsa20_xmm6int-sse2.c `salsa20_encrypt_bytes(ctx, m, c, bytes)`: `if (!bytes) return;` then u4.h, u1.h,
    u0.h. `bytes` is `m.length`; `c` is the output buffer (old contents; at least `bytes` long). Returns the
    first `bytes` bytes of the buffer afterwards, and the context. -/
def salsa20_encrypt_bytes_sse2 (ctx : W16) (m c : Bytes) : Bytes × W16 :=
  if m.length = 0 then ([], ctx) else
  let x := ctx
  let (o4, x, m, c) := u4_loop m.length x m c
  let (o1, x, m, c) := u1_loop m.length x m c
  let o0 := (u0 x m c).take m.length
  (o4 ++ (o1 ++ o0), x)

/-- salsa20_xmm6int-avx2.c `salsa20_encrypt_bytes`: u8.h, u4.h, u1.h, u0.h -/
def salsa20_encrypt_bytes_avx2 (ctx : W16) (m c : Bytes) : Bytes × W16 :=
  if m.length = 0 then ([], ctx) else
  let x := ctx
  let (o8, x, m, c) := u8_loop m.length x m c
  let (o4, x, m, c) := u4_loop m.length x m c
  let (o1, x, m, c) := u1_loop m.length x m c
  let o0 := (u0 x m c).take m.length
  (o8 ++ (o4 ++ (o1 ++ o0)), x)

/-- the two entry points, parametrised by the file's `salsa20_encrypt_bytes` -/
structure Impl where
  encrypt_bytes : W16 → Bytes → Bytes → Bytes × W16

/-- `stream_sse2` / `stream_avx2 (c, clen, n, k)`: the context starts uninitialised (every word is written by the
    two setup calls); `memset(c, 0, clen)` then encrypt in place -/
def Impl.stream (I : Impl) (clen : Nat) (n k : Bytes) : Bytes :=
  if clen = 0 then [] else
  let ctx := salsa_ivsetup (salsa_keysetup W16.zero k) n none
  let c := zeros clen
  (I.encrypt_bytes ctx c c).1

/-- `stream_sse2_xor_ic` / `stream_avx2_xor_ic (c, m, mlen, n, ic, k)`: `ic_high = (uint32_t) (ic >> 32);
    ic_low = (uint32_t) ic;` stored to `ic_bytes[8]`; `c` is the caller's output buffer (old contents) -/
def Impl.stream_xor_ic (I : Impl) (c m n : Bytes) (ic : UInt64) (k : Bytes) : Bytes :=
  if m.length = 0 then [] else
  let ic_high := (ic >>> 32).toUInt32
  let ic_low := ic.toUInt32
  let ic_bytes := store32_le ic_low ++ store32_le ic_high
  let ctx := salsa_ivsetup (salsa_keysetup W16.zero k) n (some ic_bytes)
  (I.encrypt_bytes ctx m c).1

def sse2 : Impl := ⟨salsa20_encrypt_bytes_sse2⟩
def avx2 : Impl := ⟨salsa20_encrypt_bytes_avx2⟩

end Sodium.Model.SalsaSimd
