import SodiumModel.Basic
/-
  Model of sodium_pad / sodium_unpad (sodium/utils.c), `size_t` = UInt64,
  `unsigned int` = UInt32, `unsigned char` = UInt8, with C's integer conversions.
-/
namespace Sodium.Model

inductive PadResult where
  | misuse                                   -- sodium_misuse()
  | err                                      -- return -1, nothing written
  | ok (paddedLen : UInt64) (buf : Bytes)    -- return 0, *padded_buflen_p, new buffer contents
  deriving DecidableEq, Repr

/-- `(unsigned char) (((i ^ xpadlen) - 1U) >> ((sizeof(size_t) - 1) * CHAR_BIT))` -/
def padBarrier (i xpadlen : UInt64) : UInt8 := (((i ^^^ xpadlen) - 1) >>> 56).toUInt8

/-- the `for (i = 0; i < blocksize; i++)` loop, `k` iterations left, current index `i` -/
def padLoop (tail xpadlen : UInt64) : Nat → UInt64 → UInt8 → Bytes → Bytes
  | 0, _, _, buf => buf
  | k + 1, i, mask, buf =>
    let bm := padBarrier i xpadlen
    let idx := (tail - i).toNat
    let old := buf[idx]?.getD 0        -- in bounds by `pad_indices_in_bounds`
    padLoop tail xpadlen k (i + 1) (mask ||| bm) (buf.set idx ((old &&& mask) ||| (0x80 &&& bm)))

/-- xpadlen as computed by the two branches (power of two: `&`, otherwise `%`) -/
def padXpadlen (n bs : UInt64) : UInt64 :=
  if bs &&& (bs - 1) = 0 then (bs - 1) - (n &&& (bs - 1)) else (bs - 1) - (n % bs)

/-- sodium_pad(&padded, buf, n, bs, cap) where `buf` is the whole capacity -/
def sodium_pad (buf : Bytes) (n bs cap : UInt64) : PadResult :=
  if bs = 0 then .err else
  let xpadlen := padXpadlen n bs
  if (0xFFFFFFFFFFFFFFFF : UInt64) - n ≤ xpadlen then .misuse else
  let xpaddedLen := n + xpadlen
  if xpaddedLen ≥ cap then .err else
  .ok (xpaddedLen + 1) (padLoop xpaddedLen xpadlen bs.toNat 0 0 buf)

/-- closed form of `sodium_pad` (proved equal to the loop model in `C16.pad_eq_closed`); the driver
    uses it for block sizes where running the byte-wise loop over lists would be too slow -/
def sodium_pad_closed (buf : Bytes) (n bs cap : UInt64) : PadResult :=
  let pl := n.toNat + bs.toNat - n.toNat % bs.toNat
  if bs = 0 then .err
  else if 2 ^ 64 - 1 - n.toNat ≤ bs.toNat - 1 - n.toNat % bs.toNat then .misuse
  else if cap.toNat < pl then .err
  else .ok (UInt64.ofNat pl) (buf.take n.toNat ++ 0x80 :: zeros (pl - n.toNat - 1) ++ buf.drop pl)

/-- the buffer indices written/read by the loop -/
def padIndices (n bs : UInt64) : List Nat :=
  (List.range bs.toNat).map fun i => ((n + padXpadlen n bs) - UInt64.ofNat i).toNat

/-! ### unpad -/

structure UnpadState where
  acc : UInt8
  padLen : UInt64
  valid : UInt8
  deriving DecidableEq, Repr

/-- is_barrier = (((acc - 1U) & (pad_len - 1U) & ((c ^ 0x80) - 1U)) >> 8) & 1U -/
def unpadBarrier (acc : UInt8) (padLen : UInt64) (c : UInt8) : UInt64 :=
  ((((acc.toUInt32 - 1).toUInt64 &&& (padLen - 1)) &&& ((c ^^^ 0x80).toUInt32 - 1).toUInt64) >>> 8) &&& 1

def unpadStep (s : UnpadState) (i : UInt64) (c : UInt8) : UnpadState :=
  let b := unpadBarrier s.acc s.padLen c
  { acc := s.acc ||| c, padLen := s.padLen ||| (i &&& (1 + ~~~b)), valid := s.valid ||| b.toUInt8 }

/-- loop over the final block, last byte first: `t` = the bytes `tail[0], tail[-1], …` -/
def unpadLoop : UnpadState → UInt64 → Bytes → UnpadState
  | s, _, [] => s
  | s, i, c :: cs => unpadLoop (unpadStep s i c) (i + 1) cs

inductive UnpadResult where
  | err                                   -- -1 before touching the output
  | done (rc : Int32) (unpaddedLen : UInt64)
  deriving DecidableEq, Repr

/-- the bytes the loop reads: `buf[len-1], buf[len-2], …, buf[len-bs]` -/
def unpadBlock (buf : Bytes) (bs : Nat) : Bytes := (buf.drop (buf.length - bs)).reverse

def sodium_unpad (buf : Bytes) (bs : UInt64) : UnpadResult :=
  let len := UInt64.ofNat buf.length
  if len < bs ∨ bs = 0 then .err else
  let s := unpadLoop ⟨0, 0, 0⟩ 0 (unpadBlock buf bs.toNat)
  .done ((s.valid.toUInt32 - 1).toInt32) (len - 1 - s.padLen)

end Sodium.Model
