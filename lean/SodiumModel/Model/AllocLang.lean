import SodiumModel.Model.Fault
/-
  AllocLang — a small deep-embedded language for the ALLOCATION SKELETON of C functions, the target of
  `tools_new/c2lean_alloc.py` (Tie B of C20).  A program mentions only: allocation requests (malloc / calloc /
  mmap) stored in a variable, releases (free / munmap) of a variable, assignments between variables / constants,
  tests of variables against constants (`p == NULL`, `result != ARGON2_OK`), every OTHER condition as a named
  boolean input, `return`, calls of noreturn functions (`crash`) and (inlined) calls of other skeleton functions.

  Values are integers: a pointer is `0` (NULL), `-1` (MAP_FAILED), `-2` (some address that is not a tracked
  heap block: `&local`, a caller's buffer) or `k+1` for the block obtained by request number `k`; return codes
  are themselves.  The interpreter `exec` runs a program against an oracle `ok : Nat → Bool` (does request
  number i succeed) and a valuation `ι : Nat → Bool` of the named inputs, through `Fault.request` /
  `Fault.release`, i.e. it produces the same `Fault.St` event list as the hand-written programs of
  `Model/Fault.lean`.  `explore` is the non-deterministic version (both answers for every request and every
  consulted input) that the decidable check `goodAll` runs.
-/
namespace Sodium.Model.AllocLang
open Sodium.Model.Fault

abbrev Var := Nat
abbrev Inp := Nat
abbrev Env := Var → Int

def upd (e : Env) (v : Var) (x : Int) : Env := fun w => if w = v then x else e w

inductive Cond where
  | tt | ff
  | input (i : Inp)
  | eq (v : Var) (c : Int)
  | not (c : Cond)
  | and (a b : Cond)
  | or (a b : Cond)
  deriving Repr

inductive Rhs where
  | const (c : Int)
  | var (w : Var)
  deriving Repr

inductive Prog where
  | skip
  | req (k : Kind) (v : Var)                      -- v = malloc / calloc / mmap (…)
  | rel (unmap : Bool) (v : Var)                  -- free(v) / munmap(v, …)
  | set (v : Var) (e : Rhs)
  | seq (a b : Prog)
  | ite (c : Cond) (t e : Prog)
  | ret (e : Rhs)
  | crash                                         -- sodium_misuse() / abort()
  | call (fn : Nat) (dst : Option Var) (body : Prog)   -- inlined call: `ret` inside ends the body only
  deriving Repr

/-- `{ s1; s2; … }` -/
def blk : List Prog → Prog
  | [] => .skip
  | [p] => p
  | p :: ps => .seq p (blk ps)

inductive Out where
  | norm | ret (r : Int) | crash
  deriving DecidableEq, Repr

def Rhs.eval (e : Env) : Rhs → Int
  | .const c => c
  | .var w => e w

def Cond.eval (ι : Inp → Bool) (e : Env) : Cond → Bool
  | .tt => true
  | .ff => false
  | .input i => ι i
  | .eq v c => decide (e v = c)
  | .not c => !(c.eval ι e)
  | .and a b => a.eval ι e && b.eval ι e
  | .or a b => a.eval ι e || b.eval ι e

/-- value stored by a FAILED request: `NULL` for malloc / calloc, `MAP_FAILED = (void *) -1` for mmap -/
def failVal : Kind → Int
  | .mmap => -1
  | _ => 0

/-- the block a pointer value designates (`none` for NULL / MAP_FAILED / untracked addresses) -/
def blockOf (x : Int) : Option Nat :=
  match x.toNat with
  | 0 => none
  | n + 1 => some n

/-- the kind with which block `id` was obtained (so that `free` of a calloc'ed block is reported like the hand model) -/
def kindOf (evs : List Ev) (id : Nat) : Kind :=
  match evs.find? (fun e => match e with | .alloc _ i => i == id | _ => false) with
  | some (.alloc k _) => k
  | _ => .malloc

def doReq (b : Bool) (k : Kind) (v : Var) (e : Env) (s : St) : Env × St :=
  let r := request (fun _ => b) k s
  (upd e v (match r.1 with | some id => (id : Int) + 1 | none => failVal k), r.2)

def doRel (unmap : Bool) (x : Int) (s : St) : St :=
  (release (if unmap then .mmap else match blockOf x with | some id => kindOf s.evs id | none => .malloc)
    (blockOf x) s).2

def finishCall (dst : Option Var) (r : Out × Env × St) : Out × Env × St :=
  match r.1 with
  | .crash => (.crash, r.2.1, r.2.2)
  | .norm => (.norm, (match dst with | some d => upd r.2.1 d 0 | none => r.2.1), r.2.2)
  | .ret x => (.norm, (match dst with | some d => upd r.2.1 d x | none => r.2.1), r.2.2)

/-- the deterministic interpreter -/
def exec (ok : Nat → Bool) (ι : Inp → Bool) : Prog → Env → St → Out × Env × St
  | .skip, e, s => (.norm, e, s)
  | .req k v, e, s => let r := doReq (ok s.next) k v e s; (.norm, r.1, r.2)
  | .rel u v, e, s => (.norm, e, doRel u (e v) s)
  | .set v r, e, s => (.norm, upd e v (r.eval e), s)
  | .seq a b, e, s =>
    let r := exec ok ι a e s
    match r.1 with
    | .norm => exec ok ι b r.2.1 r.2.2
    | _ => r
  | .ite c t f, e, s => if c.eval ι e then exec ok ι t e s else exec ok ι f e s
  | .ret r, e, s => (.ret (r.eval e), e, s)
  | .crash, e, s => (.crash, e, s)
  | .call _ dst body, e, s => finishCall dst (exec ok ι body e s)

/-- (may be true, may be false) for some valuation of the inputs -/
def Cond.poss (e : Env) : Cond → Bool × Bool
  | .tt => (true, false)
  | .ff => (false, true)
  | .input _ => (true, true)
  | .eq v c => (decide (e v = c), !decide (e v = c))
  | .not c => ((c.poss e).2, (c.poss e).1)
  | .and a b => ((a.poss e).1 && (b.poss e).1, (a.poss e).2 || (b.poss e).2)
  | .or a b => ((a.poss e).1 || (b.poss e).1, (a.poss e).2 && (b.poss e).2)

/-- the non-deterministic interpreter: every request both succeeds and fails, every consulted input takes
    both values -/
def explore : Prog → Env → St → List (Out × Env × St)
  | .skip, e, s => [(.norm, e, s)]
  | .req k v, e, s =>
    [(.norm, (doReq true k v e s).1, (doReq true k v e s).2),
     (.norm, (doReq false k v e s).1, (doReq false k v e s).2)]
  | .rel u v, e, s => [(.norm, e, doRel u (e v) s)]
  | .set v r, e, s => [(.norm, upd e v (r.eval e), s)]
  | .seq a b, e, s =>
    (explore a e s).flatMap fun r =>
      match r.1 with
      | .norm => explore b r.2.1 r.2.2
      | _ => [r]
  | .ite c t f, e, s =>
    (if (c.poss e).1 then explore t e s else []) ++ (if (c.poss e).2 then explore f e s else [])
  | .ret r, e, s => [(.ret (r.eval e), e, s)]
  | .crash, e, s => [(.crash, e, s)]
  | .call _ dst body, e, s => (explore body e s).map (finishCall dst)

/-- the number of `req` nodes: an upper bound of the number of requests issued -/
def reqCount : Prog → Nat
  | .seq a b => reqCount a + reqCount b
  | .ite _ t f => reqCount t + reqCount f
  | .call _ _ b => reqCount b
  | .req _ _ => 1
  | _ => 0

/-- return code reported for a crash (abort) -/
def crashRc : Int := -99

def rcOf : Out → Int
  | .norm => 0
  | .ret r => r
  | .crash => crashRc

def env0 : Env := fun _ => 0

/-- observable result of running a whole entry point -/
def runWith (ok : Nat → Bool) (ι : Inp → Bool) (p : Prog) : Run :=
  let r := exec ok ι p env0 {}
  ⟨rcOf r.1, r.2.2.evs.reverse⟩

/-- all observable results -/
def allRuns (p : Prog) : List Run :=
  (explore p env0 {}).map fun r => ⟨rcOf r.1, r.2.2.evs.reverse⟩

/-- what "error" means for the return value of an entry point -/
inductive RetKind where
  | api      -- public `int` API: error = -1 (0 = success / match, 1 = "needs rehash")
  | code     -- internal ARGON2_* code: error = anything but ARGON2_OK = 0
  | ptr      -- pointer: error = NULL; on success the returned block stays live (sodium_malloc)
  deriving DecidableEq, Repr

/-- the fail-closed property of one run -/
def goodRun : RetKind → Run → Bool
  | .api, r => (!anyFailed r.evs || r.rc == -1) && live r.evs == [] && !badRelease r.evs
  | .code, r => (!anyFailed r.evs || (r.rc != 0 && r.rc != crashRc)) && live r.evs == [] && !badRelease r.evs
  | .ptr, r => (!anyFailed r.evs || r.rc == 0) && !badRelease r.evs &&
      live r.evs == (match blockOf r.rc with | some id => [id] | none => [])

/-- the decidable check: every explored run is good -/
def goodAll (k : RetKind) (p : Prog) : Bool := (allRuns p).all (goodRun k)

/-- an abort (`sodium_misuse`) happens only before the first allocation request (parameter misuse, not exhaustion) -/
def crashOnlyBeforeRequests (p : Prog) : Bool := (allRuns p).all fun r => r.rc != crashRc || r.evs == []

/-- the largest request number consulted on any explored path stays below `n` -/
def requestsBelow (n : Nat) (p : Prog) : Bool := (explore p env0 {}).all fun r => r.2.2.next ≤ n

structure Entry where
  name : String
  kind : RetKind
  prog : Prog

/-! ### diagnostics (not used by the theorems): explored paths together with the decisions taken -/

structure Trace where
  out : Out
  env : Env
  st : St
  inputs : List (Inp × Bool)     -- most recent first

def Cond.branches (e : Env) : Cond → List (Bool × List (Inp × Bool))
  | .tt => [(true, [])]
  | .ff => [(false, [])]
  | .input i => [(true, [(i, true)]), (false, [(i, false)])]
  | .eq v c => [(decide (e v = c), [])]
  | .not c => (c.branches e).map fun x => (!x.1, x.2)
  | .and a b => (a.branches e).flatMap fun x =>
      if x.1 then (b.branches e).map fun y => (y.1, y.2 ++ x.2) else [(false, x.2)]
  | .or a b => (a.branches e).flatMap fun x =>
      if x.1 then [(true, x.2)] else (b.branches e).map fun y => (y.1, y.2 ++ x.2)

def exploreT : Prog → Trace → List Trace
  | .skip, t => [{ t with out := .norm }]
  | .req k v, t =>
    [true, false].map fun b => let r := doReq b k v t.env t.st; { t with out := .norm, env := r.1, st := r.2 }
  | .rel u v, t => [{ t with out := .norm, st := doRel u (t.env v) t.st }]
  | .set v r, t => [{ t with out := .norm, env := upd t.env v (r.eval t.env) }]
  | .seq a b, t => (exploreT a t).flatMap fun r => match r.out with | .norm => exploreT b r | _ => [r]
  | .ite c p q, t => (c.branches t.env).flatMap fun x =>
      if x.1 then exploreT p { t with inputs := x.2 ++ t.inputs }
      else exploreT q { t with inputs := x.2 ++ t.inputs }
  | .ret r, t => [{ t with out := .ret (r.eval t.env) }]
  | .crash, t => [{ t with out := .crash }]
  | .call _ dst body, t => (exploreT body t).map fun r =>
      let f := finishCall dst (r.out, r.env, r.st); { r with out := f.1, env := f.2.1, st := f.2.2 }

def evStr : Ev → String
  | .alloc .malloc i => s!"malloc#{i}" | .alloc .calloc i => s!"calloc#{i}" | .alloc .mmap i => s!"mmap#{i}"
  | .failed .malloc i => s!"malloc#{i}:FAILS" | .failed .calloc i => s!"calloc#{i}:FAILS"
  | .failed .mmap i => s!"mmap#{i}:FAILS"
  | .release .mmap i => s!"munmap(#{i})" | .release _ i => s!"free(#{i})"

/-- the bad paths of an entry point: (oracle prefix, inputs decided, rc, events, live blocks, bad release) -/
def badPaths (k : RetKind) (p : Prog) :
    List (List Bool × List (Inp × Bool) × Int × List Ev × List Nat × Bool) :=
  (exploreT p ⟨.norm, env0, {}, []⟩).filterMap fun t =>
    let evs := t.st.evs.reverse
    let run : Run := ⟨rcOf t.out, evs⟩
    if goodRun k run then none else
      some (evs.filterMap (fun e => match e with | .alloc _ _ => some true | .failed _ _ => some false | _ => none),
            t.inputs.reverse, run.rc, evs, live evs, badRelease evs)

end Sodium.Model.AllocLang
