import SodiumModel.Basic
import SodiumModel.Model.CoresRef
import SodiumModel.Model.Random
/-
  Model of `randombytes/internal/randombytes_internal_random.c` (the ChaCha20-based generator with fast key
  erasure) and of the dispatch layer `randombytes/randombytes.c`, in the structure of the C code, for the build
  configuration of /repo/Makefile:  HAVE_GETENTROPY, HAVE_GETPID, HAVE_RDRAND, !_WIN32, LP64 little endian
  (`sizeof(size_t) = 8`; `&stream.nonce` and `&size` are read as 8 little-endian bytes; asserts are active).
  Under HAVE_GETENTROPY the `#elif` branches for getrandom / arc4random / the `/dev/urandom` read in `stir` and
  the `close(fd)` in `close` are NOT compiled; they are not modelled.

  Everything the code obtains from outside is an explicit input, `Env`: the result of the k-th
  `getentropy()` call, of the k-th `gettimeofday()` call, of the k-th `getpid()` call, the k-th RDRAND value,
  `sodium_runtime_has_rdrand()`, and the result of the k-th `randombytes_internal_random_random_dev_open()`.
  The counters `Ctr` (part of the state) say how many calls have been made; `Ctr.ent` additionally logs the
  size of every entropy request.  The stream cipher is a parameter (`Cipher`), instantiated by `chacha20`
  with the reference-structured model of `Model/CoresRef.lean`.
-/
namespace Sodium.Model.RngInt
open Sodium Sodium.Model

/-- how many outside calls have been made; `ent` = sizes of the `getentropy` calls, oldest first -/
structure Ctr where
  ent : List Nat := []
  time : Nat := 0
  pid : Nat := 0
  rd : Nat := 0
  opn : Nat := 0
  deriving DecidableEq, Repr

/-- outcome of a call: `sodium_misuse()` (abort through the misuse handler), a failed `assert`, or a value.
    The two aborts carry the log of outside calls made up to the abort (what an observer of the process sees). -/
inductive Res (α : Type) where
  | misuse (log : Ctr)
  | assertFail (log : Ctr)
  | ok (a : α)
  deriving DecidableEq, Repr

def Res.bind {α β : Type} : Res α → (α → Res β) → Res β
  | .misuse c, _ => .misuse c
  | .assertFail c, _ => .assertFail c
  | .ok a, f => f a

instance : Monad Res where
  pure := .ok
  bind := Res.bind

/-- scripted outside world -/
structure Env where
  /-- k-th call `getentropy(buf, n)`: `none` = -1, `some b` = success with the bytes written -/
  getentropy : Nat → Nat → Option Bytes
  /-- k-th call `gettimeofday(&tv, NULL)`: `none` = failure, `some (tv_sec, tv_usec)` (already as uint64_t) -/
  gettimeofday : Nat → Option (UInt64 × UInt64)
  /-- k-th call `getpid()` -/
  getpid : Nat → Int
  /-- k-th `_rdrand32_step(&r)`: the value left in `r` (the status is ignored by the code) -/
  rdrand : Nat → UInt32
  /-- `sodium_runtime_has_rdrand()` -/
  hasRdrand : Bool
  /-- k-th call of `randombytes_internal_random_random_dev_open()`: `none` = -1, `some fd` -/
  devOpen : Nat → Option Int

/-- `InternalRandomGlobal global` -/
structure Global where
  initialized : Bool := false
  fd : Int := -1
  getentropyAvail : Bool := false
  getrandomAvail : Bool := false
  rdrandAvail : Bool := false
  pid : Int := 0
  deriving DecidableEq, Repr

/-- `InternalRandom stream` (thread local). `outleft` is a `size_t`. -/
structure Stream where
  initialized : Bool := false
  outleft : UInt64 := 0
  key : Bytes := zeros 32
  rnd32 : Bytes := zeros 512
  nonce : UInt64 := 0
  deriving DecidableEq, Repr

structure St where
  g : Global := {}
  s : Stream := {}
  c : Ctr := {}
  deriving DecidableEq, Repr

/-- static initialisers of `global` and `stream` -/
def St.init : St := {}

/-- `crypto_stream_chacha20(c, clen, n, k)` and `crypto_stream_chacha20_xor(c, m, mlen, n, k)` -/
structure Cipher where
  stream : Nat → Bytes → Bytes → Bytes
  xor : Bytes → Bytes → Bytes → Bytes

/-- the ChaCha20 (original 64-bit nonce layout) reference implementation, `chacha20_ref.c` as modelled in
    `Model/CoresRef.lean` (`Properties/C03Cores.lean`: equal to RFC/DJB ChaCha20; `C03Simd`: the vectorised
    implementations are equal to it) -/
def chacha20 : Cipher where
  stream := fun clen n k => CoresRef.stream_ref clen n k
  xor := fun m n k => CoresRef.stream_ref_xor_ic m n 0 k

/-- exactly `n` bytes of an answer of the outside world (a successful `getentropy(buf, n)` writes n bytes) -/
def fit (n : Nat) (b : Bytes) : Bytes := (b ++ zeros n).take n

/-- `(unsigned char *) &stream.nonce` on a little-endian machine -/
def nonceBytes (n : UInt64) : Bytes := toLE 8 n.toNat

/-- overwrite `v.length` bytes of `l` at offset `off` (memcpy / memset into an array) -/
def setRange (l : Bytes) (off : Nat) (v : Bytes) : Bytes := l.take off ++ v ++ l.drop (off + v.length)

/-- `memcpy(&val, p, 4)` into a `uint32_t` on a little-endian machine -/
def le32 (b : Bytes) : UInt32 := UInt32.ofNat (le (b.take 4))

/-! ### sodium_hrtime -/

/-- `sodium_hrtime()`: `gettimeofday` failure → misuse; `tv_sec * 1000000U + tv_usec` in uint64_t -/
def hrtime (E : Env) (st : St) : Res (UInt64 × St) :=
  match E.gettimeofday st.c.time with
  | none => .misuse { st.c with time := st.c.time + 1 }
  | some (sec, usec) => .ok (sec * 1000000 + usec, { st with c := { st.c with time := st.c.time + 1 } })

/-! ### the entropy source -/

/-- `_randombytes_getentropy(buf, size)`: `assert(size <= 256U)`, then one `getentropy` call; the request is logged -/
def getentropy1 (E : Env) (size : Nat) (st : St) : Res (Option Bytes × St) :=
  if size > 256 then .assertFail st.c else
  .ok ((E.getentropy st.c.ent.length size).map (fit size), { st with c := { st.c with ent := st.c.ent ++ [size] } })

/-- `randombytes_getentropy(buf, size)`: `do { if (size < chunk) { chunk = size; assert(chunk > 0); } … } while (size > 0)`
    with `chunk_size = 256U`. Result `none` = -1 (what was written before the failure is not used by any caller). -/
def getentropyLoop (E : Env) : Nat → Nat → Nat → Bytes → St → Res (Option Bytes × St)
  | 0, _, _, acc, st => .ok (some acc, st)       -- unreachable with fuel = size / 256 + 1
  | fuel + 1, size, chunk, acc, st =>
    let chunk' := if size < chunk then size else chunk
    if size < chunk ∧ chunk' = 0 then .assertFail st.c else
    match getentropy1 E chunk' st with
    | .misuse c => .misuse c
    | .assertFail c => .assertFail c
    | .ok (none, st1) => .ok (none, st1)
    | .ok (some b, st1) =>
      let size' := size - chunk'
      if size' > 0 then getentropyLoop E fuel size' chunk' (acc ++ b) st1 else .ok (some (acc ++ b), st1)

def randombytes_getentropy (E : Env) (size : Nat) (st : St) : Res (Option Bytes × St) :=
  getentropyLoop E (size / 256 + 1) size 256 [] st

/-- `randombytes_internal_random_init()`: probe `getentropy` with a 16-byte `fodder`; if that fails open the
    random device (misuse if that fails too) -/
def init (E : Env) (st : St) : Res St :=
  let st := { st with g := { st.g with rdrandAvail := E.hasRdrand, getentropyAvail := false, getrandomAvail := false } }
  match randombytes_getentropy E 16 st with
  | .misuse c => .misuse c
  | .assertFail c => .assertFail c
  | .ok (some _, st1) => .ok { st1 with g := { st1.g with getentropyAvail := true } }
  | .ok (none, st1) =>
    let st2 := { st1 with c := { st1.c with opn := st1.c.opn + 1 } }
    match E.devOpen st1.c.opn with
    | none => .misuse st2.c    -- `global.random_data_source_fd = -1` has been stored before the abort
    | some fd => .ok { st2 with g := { st2.g with fd := fd } }

/-! ### stir / stir_if_needed / close -/

/-- `stream.nonce = t; memset(stream.rnd32, 0, sizeof stream.rnd32); stream.rnd32_outleft = 0;` -/
def stirReset (t : UInt64) (st : St) : St :=
  { st with s := { st.s with nonce := t, rnd32 := zeros 512, outleft := 0 } }

/-- `if (global.initialized == 0) { randombytes_internal_random_init(); global.initialized = 1; }` -/
def stirInit (E : Env) (st : St) : Res St :=
  if st.g.initialized then .ok st
  else (init E st).bind fun st' => .ok { st' with g := { st'.g with initialized := true } }

/-- `const pid_t pid = getpid(); if (global.pid != pid) { global.pid = pid; }` -/
def stirPid (E : Env) (st : St) : St :=
  let pid := E.getpid st.c.pid
  { st with g := { st.g with pid := if st.g.pid ≠ pid then pid else st.g.pid }, c := { st.c with pid := st.c.pid + 1 } }

/-- `#ifdef HAVE_GETENTROPY  if (global.getentropy_available != 0) { if (randombytes_getentropy(stream.key, 32) != 0) sodium_misuse(); }`
    — there is NO else branch: when `getentropy` was found unavailable by `init` the key is left as it is -/
def stirSeed (E : Env) (st : St) : Res St :=
  if st.g.getentropyAvail then
    (randombytes_getentropy E 32 st).bind fun r =>
      match r.1 with
      | none => .misuse r.2.c
      | some k => .ok { r.2 with s := { r.2.s with key := k } }
  else .ok st

/-- `randombytes_internal_random_stir()` -/
def stir (E : Env) (st : St) : Res St :=
  (hrtime E st).bind fun r =>
    if r.1 = 0 then .assertFail r.2.c else            -- assert(stream.nonce != 0)
    (stirInit E (stirReset r.1 r.2)).bind fun st =>
      (stirSeed E (stirPid E st)).bind fun st =>
        .ok { st with s := { st.s with initialized := true } }

/-- `randombytes_internal_random_stir_if_needed()` (HAVE_GETPID): a changed pid is a MISUSE, not a re-stir -/
def stirIfNeeded (E : Env) (st : St) : Res St :=
  if !st.s.initialized then stir E st
  else
    let pid := E.getpid st.c.pid
    let st := { st with c := { st.c with pid := st.c.pid + 1 } }
    if st.g.pid ≠ pid then .misuse st.c else .ok st

/-- `sodium_memzero(&stream, sizeof stream)` -/
def Stream.zero : Stream := { initialized := false, outleft := 0, key := zeros 32, rnd32 := zeros 512, nonce := 0 }

/-- `randombytes_internal_random_close()` under HAVE_GETENTROPY: `global` is left untouched
    (`global.initialized` stays 1, an opened descriptor is never closed) -/
def close (st : St) : Int × St :=
  ((if st.g.getentropyAvail then 0 else -1), { st with s := Stream.zero })

/-! ### key mixing -/

/-- `randombytes_internal_random_xorhwrand()`: `*(uint32_t *) &stream.key[28] ^= r` -/
def xorhwrand (E : Env) (st : St) : St :=
  if !st.g.rdrandAvail then st else
  let r := E.rdrand st.c.rd
  { st with s := { st.s with key := setRange st.s.key 28 (xorBytes ((st.s.key.drop 28).take 4) (toLE 4 r.toNat)) },
            c := { st.c with rd := st.c.rd + 1 } }

/-- `randombytes_internal_random_xorkey(mix)`: `for (i = 0; i < 32; i++) key[i] ^= mix[i]` -/
def xorkey (mix : Bytes) (st : St) : St :=
  { st with s := { st.s with key := xorBytes st.s.key (mix.take 32) } }

/-- `for (i = 0; i < sizeof size; i++) stream.key[i] ^= ((unsigned char *) &size)[i]` -/
def xorsize (size : Nat) (key : Bytes) : Bytes := setRange key 0 (xorBytes (key.take 8) (toLE 8 size))

/-! ### buf / random -/

/-- the part of `randombytes_internal_random_buf` after `stir_if_needed` -/
def bufCore (C : Cipher) (E : Env) (size : Nat) (st : St) : Bytes × St :=
  let out := C.stream size (nonceBytes st.s.nonce) st.s.key
  let st := { st with s := { st.s with key := xorsize size st.s.key } }
  let st := xorhwrand E st
  let st := { st with s := { st.s with nonce := st.s.nonce + 1 } }
  -- crypto_stream_chacha20_xor(key, key, 32, nonce, key): the key is expanded into the cipher context first
  (out, { st with s := { st.s with key := C.xor st.s.key (nonceBytes st.s.nonce) st.s.key } })

/-- `randombytes_internal_random_buf(buf, size)` -/
def buf (C : Cipher) (E : Env) (size : Nat) (st : St) : Res (Bytes × St) :=
  (stirIfNeeded E st).bind fun st => .ok (bufCore C E size st)

/-- the refill block of `randombytes_internal_random` after `stir_if_needed` -/
def refillCore (C : Cipher) (E : Env) (st : St) : St :=
  let st := { st with s := { st.s with rnd32 := C.stream 512 (nonceBytes st.s.nonce) st.s.key } }
  let st := { st with s := { st.s with outleft := 480 } }    -- (sizeof stream.rnd32) - (sizeof stream.key)
  let st := xorhwrand E st
  let st := xorkey (st.s.rnd32.drop st.s.outleft.toNat) st
  let st := { st with s := { st.s with rnd32 := setRange st.s.rnd32 st.s.outleft.toNat (zeros 32) } }
  { st with s := { st.s with nonce := st.s.nonce + 1 } }

/-- the pop at the end of `randombytes_internal_random`: `outleft -= 4` (size_t arithmetic), memcpy, memset -/
def popCore (st : St) : UInt32 × St :=
  let o := st.s.outleft - 4
  let val := le32 (st.s.rnd32.drop o.toNat)
  (val, { st with s := { st.s with outleft := o, rnd32 := setRange st.s.rnd32 o.toNat (zeros 4) } })

/-- `randombytes_internal_random()` -/
def random (C : Cipher) (E : Env) (st : St) : Res (UInt32 × St) :=
  if st.s.outleft ≤ 0 then
    (stirIfNeeded E st).bind fun st => .ok (popCore (refillCore C E st))
  else .ok (popCore st)

/-! ### histories of calls on `randombytes_internal_implementation` -/

inductive Call where
  | stir | buf (n : Nat) | random | close
  deriving DecidableEq, Repr

inductive Out where
  | unit | bytes (b : Bytes) | u32 (v : UInt32) | int (r : Int)
  deriving DecidableEq, Repr

def step (C : Cipher) (E : Env) : Call → St → Res (Out × St)
  | .stir, st => (stir E st).bind fun st => .ok (.unit, st)
  | .buf n, st => (buf C E n st).bind fun r => .ok (.bytes r.1, r.2)
  | .random, st => (random C E st).bind fun r => .ok (.u32 r.1, r.2)
  | .close, st => let r := close st; .ok (.int r.1, r.2)

/-- run a history; the outputs produced before an abort are kept; the last component is the final state or
    the kind of abort -/
def run (C : Cipher) (E : Env) : List Call → St → List Out × Res St
  | [], st => ([], .ok st)
  | c :: cs, st =>
    match step C E c st with
    | .misuse c => ([], .misuse c)
    | .assertFail c => ([], .assertFail c)
    | .ok (o, st') => let r := run C E cs st'; (o :: r.1, r.2)

/-! ## the dispatch layer `randombytes.c` -/

/-- `struct randombytes_implementation` over an abstract world state σ (`implementation_name` omitted) -/
structure Impl (σ : Type) where
  random : σ → Res (UInt32 × σ)
  stir : Option (σ → Res σ)
  uniform : Option (UInt32 → σ → Res (UInt32 × σ))
  buf : Nat → σ → Res (Bytes × σ)
  close : Option (σ → Res (Int × σ))

/-- `static const randombytes_implementation *implementation` plus the world the implementations act on -/
structure DSt (σ : Type) where
  impl : Option (Impl σ)
  w : σ

namespace Dispatch
variable {σ : Type}

/-- `randombytes_stir()` once `implementation` is known to be set -/
def stirSet (i : Impl σ) (w : σ) : Res σ :=
  match i.stir with
  | none => .ok w
  | some f => f w

/-- `randombytes_init_if_needed()`: installs the default and calls `randombytes_stir()` (whose own
    `init_if_needed` then finds the pointer set). Returns the implementation now installed. -/
def initIfNeeded (dflt : Impl σ) (d : DSt σ) : Res (Impl σ × DSt σ) :=
  match d.impl with
  | some i => .ok (i, d)
  | none => (stirSet dflt d.w).bind fun w => .ok (dflt, { impl := some dflt, w := w })

/-- `randombytes_set_implementation(impl)`: stores the pointer, returns 0; nothing is closed or stirred -/
def setImplementation (i : Impl σ) (d : DSt σ) : Int × DSt σ := (0, { d with impl := some i })

def randombytes_random (dflt : Impl σ) (d : DSt σ) : Res (UInt32 × DSt σ) :=
  (initIfNeeded dflt d).bind fun (i, d) => (i.random d.w).bind fun (v, w) => .ok (v, { d with w := w })

/-- `randombytes_stir()`: note that on the very first use the default implementation is stirred TWICE
    (once inside `init_if_needed`, once here) -/
def randombytes_stir (dflt : Impl σ) (d : DSt σ) : Res (DSt σ) :=
  (initIfNeeded dflt d).bind fun (i, d) => (stirSet i d.w).bind fun w => .ok { d with w := w }

/-- `do { r = randombytes_random(); } while (r < min);` — `fuel` bounds the number of draws (the C loop is unbounded) -/
def uniformLoop (dflt : Impl σ) (n min : UInt32) : Nat → DSt σ → Res (Option UInt32 × DSt σ)
  | 0, d => .ok (none, d)
  | fuel + 1, d =>
    (randombytes_random dflt d).bind fun (r, d) =>
      if r < min then uniformLoop dflt n min fuel d else .ok (some (r % n), d)

/-- `randombytes_uniform(upper_bound)`; `none` = the fuel ran out while every draw was rejected -/
def randombytes_uniform (dflt : Impl σ) (fuel : Nat) (n : UInt32) (d : DSt σ) : Res (Option UInt32 × DSt σ) :=
  (initIfNeeded dflt d).bind fun (i, d) =>
    match i.uniform with
    | some u => (u n d.w).bind fun (v, w) => .ok (some v, { d with w := w })
    | none =>
      if n < 2 then .ok (some 0, d)
      else uniformLoop dflt n (uniformMin n) fuel d

/-- `randombytes_buf(buf, size)`: `if (size > 0) implementation->buf(buf, size)`; `none` = buffer untouched -/
def randombytes_buf (dflt : Impl σ) (size : Nat) (d : DSt σ) : Res (Option Bytes × DSt σ) :=
  (initIfNeeded dflt d).bind fun (i, d) =>
    if size > 0 then (i.buf size d.w).bind fun (b, w) => .ok (some b, { d with w := w })
    else .ok (none, d)

/-- `randombytes(buf, buf_len)`: `assert(buf_len <= SIZE_MAX)` (with a 64-bit `size_t` never false for an
    `unsigned long long`), then `randombytes_buf(buf, (size_t) buf_len)`. No 2^32 limit, no chunking. -/
def randombytes (dflt : Impl σ) (bufLen : Nat) (d : DSt σ) : Res (Option Bytes × DSt σ) :=
  if bufLen > 2 ^ 64 - 1 then .assertFail {} else randombytes_buf dflt bufLen d

/-- `randombytes_close()`: the pointer stays installed -/
def randombytes_close (d : DSt σ) : Res (Int × DSt σ) :=
  match d.impl with
  | none => .ok (0, d)
  | some i =>
    match i.close with
    | none => .ok (0, d)
    | some f => (f d.w).bind fun (r, w) => .ok (r, { d with w := w })

end Dispatch

/-- `randombytes_internal_implementation` (`.uniform = NULL`) -/
def internalImpl (C : Cipher) (E : Env) : Impl St where
  random := random C E
  stir := some (stir E)
  uniform := none
  buf := buf C E
  close := some fun st => .ok (close st)

end Sodium.Model.RngInt
