import SodiumModel.Basic
import SodiumModel.Model.Stream
/-
  Model of randombytes.c (bounded generation by rejection, the deterministic generator) and of the
  generating APIs as functions of the bytes they request from the installed source.
  The random source is a parameter: a script of 32-bit draws (for `randombytes_random`) or of byte
  blocks (for `randombytes_buf`).
-/
namespace Sodium.Model

/-- `min = (1U + ~upper_bound) % upper_bound` -/
def uniformMin (n : UInt32) : UInt32 := (1 + ~~~n) % n

/-- `do { r = randombytes_random(); } while (r < min); return r % upper_bound;`
    over a script of draws; returns the value and how many draws were consumed -/
def uniformLoop (n min : UInt32) : List UInt32 → Option (UInt32 × Nat)
  | [] => none
  | r :: rs =>
    if r < min then (uniformLoop n min rs).map fun t => (t.1, t.2 + 1)
    else some (r % n, 1)

def randombytes_uniform (n : UInt32) (draws : List UInt32) : Option (UInt32 × Nat) :=
  if n < 2 then some (0, 0) else uniformLoop n (uniformMin n) draws

/-- crypto_core_ed25519_scalar_random over a script of 32-byte blocks: mask the top byte with 0x1f,
    redraw while the value is not canonical (≥ L) or zero. `isCanon` is sc25519_is_canonical. -/
def scalarRandomLoop (isCanon : Bytes → Bool) : List Bytes → Option (Bytes × Nat)
  | [] => none
  | b :: bs =>
    let r := b.take 31 ++ [(b.getD 31 0) &&& 0x1f]
    if !isCanon r || r.all (· == 0) then (scalarRandomLoop isCanon bs).map fun t => (t.1, t.2 + 1)
    else some (r, 1)

inductive DrgResult where
  | misuse
  | ok (out : Bytes)
  deriving DecidableEq, Repr

/-- randombytes_buf_deterministic: ChaCha20-IETF keystream, nonce "LibsodiumDRG", counter 0;
    sizes above 2^38 go to the misuse handler. `Bi` = IETF block function of (counter, nonce word 0). -/
def drgNonce : Bytes := [76, 105, 98, 115, 111, 100, 105, 117, 109, 68, 82, 71]

def randombytes_buf_deterministic (Bi : BlockFn) (n0 : UInt32) (size : Nat) : DrgResult :=
  if size > 0x4000000000 then .misuse else .ok (chacha_ietf_ext_xor_ic Bi n0 0 (zeros size))

/-- a key / nonce / salt generator: requests exactly `n` bytes and returns them -/
def keygen (n : Nat) (script : Bytes) : List Nat × Bytes := ([n], script.take n)

end Sodium.Model
