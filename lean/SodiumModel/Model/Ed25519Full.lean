import SodiumModel.Model.Sign
import SodiumModel.Model.Ge25519Ref10
import SodiumModel.Model.ScReduce
import SodiumModel.Driver.C04Ref
/-
  Ed25519 END TO END: `crypto_sign_ed25519_seed_keypair` (keypair.c), `_crypto_sign_ed25519_detached` (sign.c,
  deterministic build) and `_crypto_sign_ed25519_verify_detached` (open.c, the `#else` branch of
  `#ifdef ED25519_COMPAT`), written in the statement order of the C code and ASSEMBLED from the existing
  C-structured models:

    crypto_hash_sha512_init / _update / _final   `Model/Hash.lean` (Merkle–Damgård buffering) over `SHA512_Transform`
                                                 of `Model/CompressRef.lean`   (= `Driver.C04Ref.H512`)
    sc25519_reduce, sc25519_muladd               `Model/ScReduce.lean` (the 21-bit limb code over `Int64`)
    sc25519_is_canonical, ge25519_is_canonical   `Model/Sign.lean` (the byte loops)
    ge25519_frombytes, ge25519_frombytes_negate_vartime, ge25519_has_small_order, ge25519_scalarmult_base,
    ge25519_double_scalarmult_vartime, ge25519_p2_to_p3, ge25519_p3_sub, ge25519_p3_tobytes
                                                 `Model/Ge25519Ref10.lean` over the specification field `specGe`

  Every C temporary is a `let`; buffers are byte lists (`sig + 32` is `sig.drop 32`, a read of n bytes is `.take n`).

  NOTE (the code that exists).  The final test of this libsodium version is NOT the classical
  `crypto_verify_32(rcheck, sig) | sodium_memcmp(sig, rcheck, 32)` byte comparison of R' = [S]B − [h]A with R:
  open.c computes `check = expected_r − p2_to_p3([h](−A) + [S]B)` and returns `ge25519_has_small_order(&check) − 1`.
-/
namespace Sodium.Model.Ed25519Full
open Sodium Sodium.Model Sodium.Model.Sign Sodium.Model.Ge25519 Sodium.Model.ScReduce
open Sodium.Driver.C04Ref (H512)

/-- `crypto_hash_sha512_state` -/
abbrev HashState := MdState Spec.Sha512.State

/-- `crypto_hash_sha512_init(&hs)` -/
def crypto_hash_sha512_init : HashState := H512.init
/-- `crypto_hash_sha512_update(&hs, in, inlen)` -/
def crypto_hash_sha512_update (hs : HashState) (inp : Bytes) : HashState := H512.update hs inp
/-- `crypto_hash_sha512_final(&hs, out)` -/
def crypto_hash_sha512_final (hs : HashState) : Bytes := H512.final hs

/-- `crypto_hash_sha512(out, in, inlen)`: init; update; final -/
def crypto_hash_sha512 (inp : Bytes) : Bytes :=
  let hs := crypto_hash_sha512_init
  let hs := crypto_hash_sha512_update hs inp
  crypto_hash_sha512_final hs

/-- `_crypto_sign_ed25519_ref10_hinit(&hs, prehashed)` -/
def _crypto_sign_ed25519_ref10_hinit (prehashed : Bool) : HashState :=
  let hs := crypto_hash_sha512_init                              -- crypto_hash_sha512_init(hs);
  if prehashed then                                              -- if (prehashed) {
    crypto_hash_sha512_update hs DOM2PREFIX                      --   crypto_hash_sha512_update(hs, DOM2PREFIX, sizeof DOM2PREFIX); }
  else hs

/-- `crypto_sign_ed25519_seed_keypair(pk, sk, seed)`: returns (pk, sk) (the return value is always 0) -/
def crypto_sign_ed25519_seed_keypair (seed : Bytes) : Bytes × Bytes :=
  let sk := crypto_hash_sha512 (seed.take 32)                    -- crypto_hash_sha512(sk, seed, 32);
  let sk := Sign.clamp sk                                        -- sk[0] &= 248; sk[31] &= 127; sk[31] |= 64;
  let A := ge25519_scalarmult_base specGe (sk.take 32)           -- ge25519_scalarmult_base(&A, sk);
  let pk := ge25519_p3_tobytes specGe A                          -- ge25519_p3_tobytes(pk, &A);
  let sk := seed.take 32 ++ sk.drop 32                           -- memmove(sk, seed, 32);
  let sk := sk.take 32 ++ pk.take 32                             -- memmove(sk + 32, pk, 32);
  (pk, sk)

/-- `_crypto_sign_ed25519_detached(sig, siglen_p, m, mlen, sk, prehashed)` (no ED25519_NONDETERMINISTIC):
    the 64 bytes written to `sig` (`*siglen_p = 64`, return value 0) -/
def _crypto_sign_ed25519_detached (m sk : Bytes) (prehashed : Bool) : Bytes :=
  let hs := _crypto_sign_ed25519_ref10_hinit prehashed           -- _crypto_sign_ed25519_ref10_hinit(&hs, prehashed);
  let az := crypto_hash_sha512 (sk.take 32)                      -- crypto_hash_sha512(az, sk, 32);
  let hs := crypto_hash_sha512_update hs ((az.drop 32).take 32)  -- crypto_hash_sha512_update(&hs, az + 32, 32);
  let hs := crypto_hash_sha512_update hs m                       -- crypto_hash_sha512_update(&hs, m, mlen);
  let nonce := crypto_hash_sha512_final hs                       -- crypto_hash_sha512_final(&hs, nonce);
  let sigHi := (sk.drop 32).take 32                              -- memmove(sig + 32, sk + 32, 32);
  let nonce := sc25519_reduce nonce                              -- sc25519_reduce(nonce);
  let R := ge25519_scalarmult_base specGe nonce                  -- ge25519_scalarmult_base(&R, nonce);
  let sigLo := ge25519_p3_tobytes specGe R                       -- ge25519_p3_tobytes(sig, &R);
  let hs := _crypto_sign_ed25519_ref10_hinit prehashed           -- _crypto_sign_ed25519_ref10_hinit(&hs, prehashed);
  let hs := crypto_hash_sha512_update hs (sigLo ++ sigHi)        -- crypto_hash_sha512_update(&hs, sig, 64);
  let hs := crypto_hash_sha512_update hs m                       -- crypto_hash_sha512_update(&hs, m, mlen);
  let hram := crypto_hash_sha512_final hs                        -- crypto_hash_sha512_final(&hs, hram);
  let hram := sc25519_reduce hram                                -- sc25519_reduce(hram);
  let az := Sign.clamp az                                        -- _crypto_sign_ed25519_clamp(az);
  let sigHi := sc25519_muladd hram (az.take 32) nonce            -- sc25519_muladd(sig + 32, hram, az, nonce);
  sigLo ++ sigHi

/-- `crypto_sign_ed25519_detached(sig, siglen_p, m, mlen, sk)` -/
def crypto_sign_ed25519_detached (m sk : Bytes) : Bytes := _crypto_sign_ed25519_detached m sk false

/-- `_crypto_sign_ed25519_verify_detached(sig, m, mlen, pk, prehashed)`, default build (no ED25519_COMPAT) -/
def _crypto_sign_ed25519_verify_detached (sig m pk : Bytes) (prehashed : Bool) : Int32 :=
  -- if ((sig[63] & 240) != 0 && sc25519_is_canonical(sig + 32) == 0) return -1;
  if (u8i (sig.getD 63 0) &&& 240) ≠ 0 ∧ sc25519_is_canonical ((sig.drop 32).take 32) = 0 then -1 else
  -- if (ge25519_is_canonical(pk) == 0) return -1;
  if ge25519_is_canonical pk = 0 then -1 else
  -- if (ge25519_frombytes_negate_vartime(&A, pk) != 0 || ge25519_has_small_order(&A) != 0) return -1;
  let A := ge25519_frombytes_negate_vartime specGe (pk.take 32)
  if A.1 ≠ 0 ∨ ge25519_has_small_order specGe A.2 ≠ 0 then -1 else
  -- if (ge25519_frombytes(&expected_r, sig) != 0 || ge25519_has_small_order(&expected_r) != 0) return -1;
  let expected_r := ge25519_frombytes specGe (sig.take 32)
  if expected_r.1 ≠ 0 ∨ ge25519_has_small_order specGe expected_r.2 ≠ 0 then -1 else
  let hs := _crypto_sign_ed25519_ref10_hinit prehashed           -- _crypto_sign_ed25519_ref10_hinit(&hs, prehashed);
  let hs := crypto_hash_sha512_update hs (sig.take 32)           -- crypto_hash_sha512_update(&hs, sig, 32);
  let hs := crypto_hash_sha512_update hs (pk.take 32)            -- crypto_hash_sha512_update(&hs, pk, 32);
  let hs := crypto_hash_sha512_update hs m                       -- crypto_hash_sha512_update(&hs, m, mlen);
  let h := crypto_hash_sha512_final hs                           -- crypto_hash_sha512_final(&hs, h);
  let h := sc25519_reduce h                                      -- sc25519_reduce(h);
  -- ge25519_double_scalarmult_vartime(&sb_ah_p2, h, &A, sig + 32);
  let sb_ah_p2 := ge25519_double_scalarmult_vartime specGe h A.2 ((sig.drop 32).take 32)
  let sb_ah := ge25519_p2_to_p3 specGe sb_ah_p2                  -- ge25519_p2_to_p3(&sb_ah, &sb_ah_p2);
  let check := ge25519_p3_sub specGe expected_r.2 sb_ah          -- ge25519_p3_sub(&check, &expected_r, &sb_ah);
  ge25519_has_small_order specGe check - 1                       -- return ge25519_has_small_order(&check) - 1;

/-- `crypto_sign_ed25519_verify_detached(sig, m, mlen, pk)` -/
def crypto_sign_ed25519_verify_detached (sig m pk : Bytes) : Int32 :=
  _crypto_sign_ed25519_verify_detached sig m pk false

/-- the primitives of `Model.Sign.Ops` assembled from the C-structured models (what `Driver/C06.lean` runs the
    remaining entry points — `crypto_sign`, `crypto_sign_open`, the `ph` wrappers — with) -/
def fullOps : Sign.Ops (P3 Nat) (P2 Nat) where
  sha512 := crypto_hash_sha512
  scReduce := sc25519_reduce
  scMuladd := sc25519_muladd
  frombytesNegateVartime := ge25519_frombytes_negate_vartime specGe
  frombytes := ge25519_frombytes specGe
  hasSmallOrder := ge25519_has_small_order specGe
  doubleScalarmultVartime := fun a A b => ge25519_double_scalarmult_vartime specGe a A b
  p2ToP3 := ge25519_p2_to_p3 specGe
  p3Sub := ge25519_p3_sub specGe
  scalarmultBase := ge25519_scalarmult_base specGe
  p3Tobytes := ge25519_p3_tobytes specGe

end Sodium.Model.Ed25519Full
