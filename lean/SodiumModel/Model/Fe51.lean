import SodiumModel.Basic
import SodiumModel.Model.Utils
import SodiumModel.Model.LadderRef10
/-
  The radix-2^51 field arithmetic behind X25519 (HAVE_TI_MODE builds), statement by statement:

    include/sodium/private/ed25519_ref10_fe_51.h   fe25519_0 fe25519_1 fe25519_add fe25519_sub fe25519_neg
                                                   fe25519_cmov fe25519_cswap fe25519_copy fe25519_isnegative
                                                   fe25519_iszero fe25519_mul fe25519_sq fe25519_sq2 fe25519_mul32
    crypto_core/ed25519/ref10/fe_51/fe.h           fe25519_frombytes fe25519_reduce fe25519_tobytes
    crypto_core/ed25519/ref10/ed25519_ref10.c      fe25519_invert

  `fe25519` = `uint64_t[5]` = the structure `Fe` (limbs `l0 … l4`, value l0 + l1·2^51 + … + l4·2^204).
  `uint64_t` = `UInt64` (wrapping).  `uint128_t` = a `Nat` that is reduced `% 2^128` after EVERY
  operation that the C code performs in 128 bits (`mul128`, `add128`, `shl128`); casts to `uint64_t`
  (`lo64`) truncate.  The carry chain that `fe25519_mul`, `fe25519_sq`, `fe25519_sq2` repeat verbatim is
  written once (`carry_chain`), likewise the accumulators of `fe25519_sq`/`fe25519_sq2` (`sq_products`)
  and the carry pass that `fe25519_reduce` repeats four times (`carry_pass`, `fold19`); the statement
  order inside each is that of the C text.  Nothing is assumed about the absence of overflow: that is a theorem
  (`Properties/C05Fe51.lean`, `mul_spec` …).  Output-first C signatures `op(h, f, g)` become `h := op f g`.
  Core Lean only.
-/
namespace Sodium.Model.Fe51
open Sodium Sodium.Model Sodium.Model.LadderRef10

/-- `typedef uint64_t fe25519[5];` -/
structure Fe where
  l0 : UInt64
  l1 : UInt64
  l2 : UInt64
  l3 : UInt64
  l4 : UInt64
deriving DecidableEq, Repr

/-! ### `uint128_t` -/

/-- `(uint128_t) x` for a `uint64_t x` -/
@[inline] def u128 (x : UInt64) : Nat := x.toNat
/-- `x % 2^128` (`Proofs/Fe51.lean`, `trunc128_eq`), written with a comparison first because the
    compiled driver then avoids a bignum division in the common case -/
@[inline] def trunc128 (x : Nat) : Nat := if x < 2 ^ 128 then x else x % 2 ^ 128
/-- `a * b` in 128 bits -/
@[inline] def mul128 (a b : Nat) : Nat := trunc128 (a * b)
/-- `a + b` in 128 bits -/
@[inline] def add128 (a b : Nat) : Nat := trunc128 (a + b)
/-- `a << k` in 128 bits -/
@[inline] def shl128 (a k : Nat) : Nat := (a <<< k) % 2 ^ 128
/-- `a >> k` in 128 bits -/
@[inline] def shr128 (a k : Nat) : Nat := a >>> k
/-- `(uint64_t) a` -/
@[inline] def lo64 (a : Nat) : UInt64 := UInt64.ofNat a

/-- `const uint64_t mask = 0x7ffffffffffffULL;` -/
def mask : UInt64 := 0x7ffffffffffff

/-- `LOAD64_LE(s + off)` (bytes beyond the end of the list read as 0) -/
def LOAD64_LE (s : Bytes) (off : Nat) : UInt64 := load64 (s.drop off)

/-- `STORE64_LE(dst, w)`: the 8 bytes written -/
def STORE64_LE (w : UInt64) : Bytes := store64 w

/-! ### ed25519_ref10_fe_51.h -/

/-- `fe25519_0(h)` -/
def fe25519_0 : Fe := ⟨0, 0, 0, 0, 0⟩          -- memset(&h[0], 0, 5 * sizeof h[0]);

/-- `fe25519_1(h)` -/
def fe25519_1 : Fe := ⟨1, 0, 0, 0, 0⟩          -- h[0] = 1; memset(&h[1], 0, 4 * sizeof h[0]);

/-- `fe25519_add(h, f, g)`: limb-wise, NOT carried -/
def fe25519_add (f g : Fe) : Fe :=
  let h0 := f.l0 + g.l0                        -- uint64_t h0 = f[0] + g[0];
  let h1 := f.l1 + g.l1
  let h2 := f.l2 + g.l2
  let h3 := f.l3 + g.l3
  let h4 := f.l4 + g.l4
  ⟨h0, h1, h2, h3, h4⟩

/-- `fe25519_sub(h, f, g)`: `g` is carried first, then subtracted from `f + 2p` limb-wise -/
def fe25519_sub (f g : Fe) : Fe :=
  let h0 := g.l0                               -- h0 = g[0]; …
  let h1 := g.l1
  let h2 := g.l2
  let h3 := g.l3
  let h4 := g.l4
  let h1 := h1 + (h0 >>> 51)                   -- h1 += h0 >> 51;
  let h0 := h0 &&& mask                        -- h0 &= mask;
  let h2 := h2 + (h1 >>> 51)                   -- h2 += h1 >> 51;
  let h1 := h1 &&& mask                        -- h1 &= mask;
  let h3 := h3 + (h2 >>> 51)                   -- h3 += h2 >> 51;
  let h2 := h2 &&& mask                        -- h2 &= mask;
  let h4 := h4 + (h3 >>> 51)                   -- h4 += h3 >> 51;
  let h3 := h3 &&& mask                        -- h3 &= mask;
  let h0 := h0 + (19 : UInt64) * (h4 >>> 51)             -- h0 += 19ULL * (h4 >> 51);
  let h4 := h4 &&& mask                        -- h4 &= mask;
  let h0 := (f.l0 + 0xfffffffffffda) - h0      -- h0 = (f[0] + 0xfffffffffffdaULL) - h0;
  let h1 := (f.l1 + 0xffffffffffffe) - h1      -- h1 = (f[1] + 0xffffffffffffeULL) - h1;
  let h2 := (f.l2 + 0xffffffffffffe) - h2
  let h3 := (f.l3 + 0xffffffffffffe) - h3
  let h4 := (f.l4 + 0xffffffffffffe) - h4
  ⟨h0, h1, h2, h3, h4⟩

/-- `fe25519_neg(h, f)` -/
def fe25519_neg (f : Fe) : Fe :=
  let zero := fe25519_0                        -- fe25519_0(zero);
  fe25519_sub zero f                           -- fe25519_sub(h, zero, f);

/-- `fe25519_cmov(f, g, b)`, the portable branch (`#else` of HAVE_AMD64_ASM): the new `f`.
    `mask = (uint64_t) (-(int64_t) b)` is `0 - b` in 64 bits, for EVERY `b`. -/
def fe25519_cmov (f g : Fe) (b : UInt32) : Fe :=
  let mask : UInt64 := 0 - b.toUInt64          -- uint64_t mask = (uint64_t) (-(int64_t) b);
  let f0 := f.l0; let f1 := f.l1; let f2 := f.l2; let f3 := f.l3; let f4 := f.l4
  let x0 := f0 ^^^ g.l0                        -- x0 = f0 ^ g[0];
  let x1 := f1 ^^^ g.l1
  let x2 := f2 ^^^ g.l2
  let x3 := f3 ^^^ g.l3
  let x4 := f4 ^^^ g.l4
  let x0 := x0 &&& mask                        -- x0 &= mask;
  let x1 := x1 &&& mask
  let x2 := x2 &&& mask
  let x3 := x3 &&& mask
  let x4 := x4 &&& mask
  ⟨f0 ^^^ x0, f1 ^^^ x1, f2 ^^^ x2, f3 ^^^ x3, f4 ^^^ x4⟩   -- f[0] = f0 ^ x0; …

/-- `fe25519_cmov(f, g, b)`, the HAVE_AMD64_ASM branch (`test c, c; cmoveq (a), t`): keeps `f`
    iff `b == 0` -/
def fe25519_cmov_asm (f g : Fe) (b : UInt32) : Fe := if b = 0 then f else g

/-- `fe25519_cswap(f, g, b)`: the new `(f, g)`, for EVERY `b` (the C contract is `b ∈ {0, 1}`) -/
def fe25519_cswap (f g : Fe) (b : UInt32) : Fe × Fe :=
  let mask : UInt64 := 0 - b.toUInt64          -- uint64_t mask = (uint64_t) (-(int64_t) b);
  let f0 := f.l0; let f1 := f.l1; let f2 := f.l2; let f3 := f.l3; let f4 := f.l4
  let g0 := g.l0; let g1 := g.l1; let g2 := g.l2; let g3 := g.l3; let g4 := g.l4
  let x0 := f0 ^^^ g0                          -- x0 = f0 ^ g0;
  let x1 := f1 ^^^ g1
  let x2 := f2 ^^^ g2
  let x3 := f3 ^^^ g3
  let x4 := f4 ^^^ g4
  let x0 := x0 &&& mask                        -- x0 &= mask;
  let x1 := x1 &&& mask
  let x2 := x2 &&& mask
  let x3 := x3 &&& mask
  let x4 := x4 &&& mask
  (⟨f0 ^^^ x0, f1 ^^^ x1, f2 ^^^ x2, f3 ^^^ x3, f4 ^^^ x4⟩,    -- f[0] = f0 ^ x0; …
   ⟨g0 ^^^ x0, g1 ^^^ x1, g2 ^^^ x2, g3 ^^^ x3, g4 ^^^ x4⟩)    -- g[0] = g0 ^ x0; …

/-- `fe25519_copy(h, f)` -/
def fe25519_copy (f : Fe) : Fe := f            -- memcpy(h, f, 5 * sizeof h[0]);

/-- the carry chain shared (as duplicated text) by `fe25519_mul`, `fe25519_sq`, `fe25519_sq2`:
    from `r00 = ((uint64_t) r0) & mask;` to `h[4] = r04;` -/
def carry_chain (r0 r1 r2 r3 r4 : Nat) : Fe :=
  let r00 := lo64 r0 &&& mask                  -- r00    = ((uint64_t) r0) & mask;
  let carry := lo64 (shr128 r0 51)             -- carry  = (uint64_t) (r0 >> 51);
  let r1 := add128 r1 (u128 carry)             -- r1    += carry;
  let r01 := lo64 r1 &&& mask                  -- r01    = ((uint64_t) r1) & mask;
  let carry := lo64 (shr128 r1 51)             -- carry  = (uint64_t) (r1 >> 51);
  let r2 := add128 r2 (u128 carry)             -- r2    += carry;
  let r02 := lo64 r2 &&& mask                  -- r02    = ((uint64_t) r2) & mask;
  let carry := lo64 (shr128 r2 51)             -- carry  = (uint64_t) (r2 >> 51);
  let r3 := add128 r3 (u128 carry)             -- r3    += carry;
  let r03 := lo64 r3 &&& mask                  -- r03    = ((uint64_t) r3) & mask;
  let carry := lo64 (shr128 r3 51)             -- carry  = (uint64_t) (r3 >> 51);
  let r4 := add128 r4 (u128 carry)             -- r4    += carry;
  let r04 := lo64 r4 &&& mask                  -- r04    = ((uint64_t) r4) & mask;
  let carry := lo64 (shr128 r4 51)             -- carry  = (uint64_t) (r4 >> 51);
  let r00 := r00 + (19 : UInt64) * carry                -- r00   += 19ULL * carry;
  let carry := r00 >>> 51                      -- carry  = r00 >> 51;
  let r00 := r00 &&& mask                      -- r00   &= mask;
  let r01 := r01 + carry                       -- r01   += carry;
  let carry := r01 >>> 51                      -- carry  = r01 >> 51;
  let r01 := r01 &&& mask                      -- r01   &= mask;
  let r02 := r02 + carry                       -- r02   += carry;
  ⟨r00, r01, r02, r03, r04⟩                    -- h[0] = r00; … h[4] = r04;

/-- `fe25519_mul(h, f, g)` -/
def fe25519_mul (f g : Fe) : Fe :=
  let f0 := u128 f.l0                          -- f0 = (uint128_t) f[0]; …
  let f1 := u128 f.l1
  let f2 := u128 f.l2
  let f3 := u128 f.l3
  let f4 := u128 f.l4
  let g0 := u128 g.l0                          -- g0 = (uint128_t) g[0]; …
  let g1 := u128 g.l1
  let g2 := u128 g.l2
  let g3 := u128 g.l3
  let g4 := u128 g.l4
  let f1_19 := mul128 19 f1                    -- f1_19 = 19ULL * f1;
  let f2_19 := mul128 19 f2
  let f3_19 := mul128 19 f3
  let f4_19 := mul128 19 f4
  -- r0 = f0 * g0 + f1_19 * g4 + f2_19 * g3 + f3_19 * g2 + f4_19 * g1;
  let r0 := add128 (add128 (add128 (add128 (mul128 f0 g0) (mul128 f1_19 g4)) (mul128 f2_19 g3)) (mul128 f3_19 g2)) (mul128 f4_19 g1)
  -- r1 = f0 * g1 +    f1 * g0 + f2_19 * g4 + f3_19 * g3 + f4_19 * g2;
  let r1 := add128 (add128 (add128 (add128 (mul128 f0 g1) (mul128 f1 g0)) (mul128 f2_19 g4)) (mul128 f3_19 g3)) (mul128 f4_19 g2)
  -- r2 = f0 * g2 +    f1 * g1 +    f2 * g0 + f3_19 * g4 + f4_19 * g3;
  let r2 := add128 (add128 (add128 (add128 (mul128 f0 g2) (mul128 f1 g1)) (mul128 f2 g0)) (mul128 f3_19 g4)) (mul128 f4_19 g3)
  -- r3 = f0 * g3 +    f1 * g2 +    f2 * g1 +    f3 * g0 + f4_19 * g4;
  let r3 := add128 (add128 (add128 (add128 (mul128 f0 g3) (mul128 f1 g2)) (mul128 f2 g1)) (mul128 f3 g0)) (mul128 f4_19 g4)
  -- r4 = f0 * g4 +    f1 * g3 +    f2 * g2 +    f3 * g1 +    f4 * g0;
  let r4 := add128 (add128 (add128 (add128 (mul128 f0 g4) (mul128 f1 g3)) (mul128 f2 g2)) (mul128 f3 g1)) (mul128 f4 g0)
  carry_chain r0 r1 r2 r3 r4

/-- the five 128-bit accumulators of `fe25519_sq` / `fe25519_sq2` (identical text in both) -/
def sq_products (f : Fe) : Nat × Nat × Nat × Nat × Nat :=
  let f0 := u128 f.l0                          -- f0 = (uint128_t) f[0]; …
  let f1 := u128 f.l1
  let f2 := u128 f.l2
  let f3 := u128 f.l3
  let f4 := u128 f.l4
  let f0_2 := shl128 f0 1                      -- f0_2 = f0 << 1;
  let f1_2 := shl128 f1 1                      -- f1_2 = f1 << 1;
  let f1_38 := mul128 38 f1                    -- f1_38 = 38ULL * f1;
  let f2_38 := mul128 38 f2
  let f3_38 := mul128 38 f3
  let f3_19 := mul128 19 f3                    -- f3_19 = 19ULL * f3;
  let f4_19 := mul128 19 f4
  let r0 := add128 (add128 (mul128 f0 f0) (mul128 f1_38 f4)) (mul128 f2_38 f3)    -- r0 =   f0 * f0 + f1_38 * f4 + f2_38 * f3;
  let r1 := add128 (add128 (mul128 f0_2 f1) (mul128 f2_38 f4)) (mul128 f3_19 f3)  -- r1 = f0_2 * f1 + f2_38 * f4 + f3_19 * f3;
  let r2 := add128 (add128 (mul128 f0_2 f2) (mul128 f1 f1)) (mul128 f3_38 f4)     -- r2 = f0_2 * f2 +    f1 * f1 + f3_38 * f4;
  let r3 := add128 (add128 (mul128 f0_2 f3) (mul128 f1_2 f2)) (mul128 f4_19 f4)   -- r3 = f0_2 * f3 +  f1_2 * f2 + f4_19 * f4;
  let r4 := add128 (add128 (mul128 f0_2 f4) (mul128 f1_2 f3)) (mul128 f2 f2)      -- r4 = f0_2 * f4 +  f1_2 * f3 +    f2 * f2;
  (r0, r1, r2, r3, r4)

/-- `fe25519_sq(h, f)` -/
def fe25519_sq (f : Fe) : Fe :=
  let r := sq_products f
  carry_chain r.1 r.2.1 r.2.2.1 r.2.2.2.1 r.2.2.2.2

/-- `fe25519_sq2(h, f)` -/
def fe25519_sq2 (f : Fe) : Fe :=
  let r := sq_products f
  let r0 := shl128 r.1 1                       -- r0 <<= 1;
  let r1 := shl128 r.2.1 1
  let r2 := shl128 r.2.2.1 1
  let r3 := shl128 r.2.2.2.1 1
  let r4 := shl128 r.2.2.2.2 1
  carry_chain r0 r1 r2 r3 r4

/-- `fe25519_mul32(h, f, n)` -/
def fe25519_mul32 (f : Fe) (n : UInt32) : Fe :=
  let sn : Nat := n.toNat                                        -- uint128_t sn = (uint128_t) n;
  let a := mul128 (u128 f.l0) sn                                 -- a  = f[0] * sn;
  let h0 := lo64 a &&& mask                                      -- h0 = ((uint64_t) a) & mask;
  let a := add128 (mul128 (u128 f.l1) sn) (u128 (lo64 (shr128 a 51)))   -- a  = f[1] * sn + ((uint64_t) (a >> 51));
  let h1 := lo64 a &&& mask
  let a := add128 (mul128 (u128 f.l2) sn) (u128 (lo64 (shr128 a 51)))
  let h2 := lo64 a &&& mask
  let a := add128 (mul128 (u128 f.l3) sn) (u128 (lo64 (shr128 a 51)))
  let h3 := lo64 a &&& mask
  let a := add128 (mul128 (u128 f.l4) sn) (u128 (lo64 (shr128 a 51)))
  let h4 := lo64 a &&& mask
  let h0 := lo64 (add128 (u128 h0) (mul128 (shr128 a 51) 19))   -- h0 += (a >> 51) * 19ULL;
  ⟨h0, h1, h2, h3, h4⟩

/-! ### fe_51/fe.h -/

/-- `fe25519_frombytes(h, s)` -/
def fe25519_frombytes (s : Bytes) : Fe :=
  let h0 := LOAD64_LE s 0 &&& mask                     -- h0 = (LOAD64_LE(s     )      ) & mask;
  let h1 := (LOAD64_LE s 6 >>> 3) &&& mask             -- h1 = (LOAD64_LE(s +  6) >>  3) & mask;
  let h2 := (LOAD64_LE s 12 >>> 6) &&& mask            -- h2 = (LOAD64_LE(s + 12) >>  6) & mask;
  let h3 := (LOAD64_LE s 19 >>> 1) &&& mask            -- h3 = (LOAD64_LE(s + 19) >>  1) & mask;
  let h4 := (LOAD64_LE s 24 >>> 12) &&& mask           -- h4 = (LOAD64_LE(s + 24) >> 12) & mask;
  ⟨h0, h1, h2, h3, h4⟩

/-- one carry pass on `uint128_t t[5]`: `t[1] += t[0] >> 51; t[0] &= mask; …; t[4] += t[3] >> 51;
    t[3] &= mask;` (the part common to the four passes of `fe25519_reduce`) -/
def carry_pass (t : Nat × Nat × Nat × Nat × Nat) : Nat × Nat × Nat × Nat × Nat :=
  let t0 := t.1; let t1 := t.2.1; let t2 := t.2.2.1; let t3 := t.2.2.2.1; let t4 := t.2.2.2.2
  let t1 := add128 t1 (shr128 t0 51)           -- t[1] += t[0] >> 51;
  let t0 := t0 &&& mask.toNat                  -- t[0] &= mask;
  let t2 := add128 t2 (shr128 t1 51)           -- t[2] += t[1] >> 51;
  let t1 := t1 &&& mask.toNat                  -- t[1] &= mask;
  let t3 := add128 t3 (shr128 t2 51)           -- t[3] += t[2] >> 51;
  let t2 := t2 &&& mask.toNat                  -- t[2] &= mask;
  let t4 := add128 t4 (shr128 t3 51)           -- t[4] += t[3] >> 51;
  let t3 := t3 &&& mask.toNat                  -- t[3] &= mask;
  (t0, t1, t2, t3, t4)

/-- `t[0] += 19 * (t[4] >> 51); t[4] &= mask;` -/
def fold19 (t : Nat × Nat × Nat × Nat × Nat) : Nat × Nat × Nat × Nat × Nat :=
  let t0 := t.1; let t4 := t.2.2.2.2
  let t0 := add128 t0 (mul128 19 (shr128 t4 51))   -- t[0] += 19 * (t[4] >> 51);
  let t4 := t4 &&& mask.toNat                      -- t[4] &= mask;
  (t0, t.2.1, t.2.2.1, t.2.2.2.1, t4)

/-- `fe25519_reduce(h, f)` -/
def fe25519_reduce (f : Fe) : Fe :=
  -- t[0] = f[0]; … t[4] = f[4];
  let t : Nat × Nat × Nat × Nat × Nat := (u128 f.l0, u128 f.l1, u128 f.l2, u128 f.l3, u128 f.l4)
  let t := fold19 (carry_pass t)               -- first pass
  let t := fold19 (carry_pass t)               -- second pass
  /- now t is between 0 and 2^255-1, properly carried. -/
  let t := (add128 t.1 19, t.2)                -- t[0] += 19ULL;
  let t := fold19 (carry_pass t)               -- third pass
  /- now between 19 and 2^255-1 in both cases, and offset by 19. -/
  let t := (add128 t.1 (0x8000000000000 - 19),         -- t[0] += 0x8000000000000 - 19ULL;
            add128 t.2.1 (0x8000000000000 - 1),         -- t[1] += 0x8000000000000 - 1ULL;
            add128 t.2.2.1 (0x8000000000000 - 1),
            add128 t.2.2.2.1 (0x8000000000000 - 1),
            add128 t.2.2.2.2 (0x8000000000000 - 1))
  /- now between 2^255 and 2^256-20, and offset by 2^255. -/
  let t := carry_pass t                        -- fourth pass, no wrap-around
  let t4 := t.2.2.2.2 &&& mask.toNat           -- t[4] &= mask;
  ⟨lo64 t.1, lo64 t.2.1, lo64 t.2.2.1, lo64 t.2.2.2.1, lo64 t4⟩   -- h[0] = t[0]; …

/-- `fe25519_tobytes(s, h)`: the 32 bytes written to `s` -/
def fe25519_tobytes (h : Fe) : Bytes :=
  let t := fe25519_reduce h                            -- fe25519_reduce(t, h);
  let t0 := t.l0 ||| (t.l1 <<< 51)                     -- t0 = t[0] | (t[1] << 51);
  let t1 := (t.l1 >>> 13) ||| (t.l2 <<< 38)            -- t1 = (t[1] >> 13) | (t[2] << 38);
  let t2 := (t.l2 >>> 26) ||| (t.l3 <<< 25)            -- t2 = (t[2] >> 26) | (t[3] << 25);
  let t3 := (t.l3 >>> 39) ||| (t.l4 <<< 12)            -- t3 = (t[3] >> 39) | (t[4] << 12);
  STORE64_LE t0 ++ STORE64_LE t1 ++ STORE64_LE t2 ++ STORE64_LE t3

/-- `fe25519_isnegative(f)` -/
def fe25519_isnegative (f : Fe) : Int32 :=
  let s := fe25519_tobytes f                           -- fe25519_tobytes(s, f);
  ((s.getD 0 0) &&& 1).toUInt32.toInt32                -- return s[0] & 1;

/-- `fe25519_iszero(f)` -/
def fe25519_iszero (f : Fe) : Int32 :=
  let s := fe25519_tobytes f                           -- fe25519_tobytes(s, f);
  sodium_is_zero s                                     -- return sodium_is_zero(s, 32);

/-! ### ed25519_ref10.c: fe25519_invert -/

/-- `for (i = 1; i < n + 1; ++i) { fe25519_sq(t, t); }`: `n` squarings in place -/
def sqN : Nat → Fe → Fe
  | 0, t => t
  | n + 1, t => sqN n (fe25519_sq t)

/-- `fe25519_invert(out, z)` -/
def fe25519_invert (z : Fe) : Fe :=
  let t0 := fe25519_sq z                       -- fe25519_sq(t0, z);
  let t1 := fe25519_sq t0                      -- fe25519_sq(t1, t0);
  let t1 := fe25519_sq t1                      -- fe25519_sq(t1, t1);
  let t1 := fe25519_mul z t1                   -- fe25519_mul(t1, z, t1);
  let t0 := fe25519_mul t0 t1                  -- fe25519_mul(t0, t0, t1);
  let t2 := fe25519_sq t0                      -- fe25519_sq(t2, t0);
  let t1 := fe25519_mul t1 t2                  -- fe25519_mul(t1, t1, t2);
  let t2 := fe25519_sq t1                      -- fe25519_sq(t2, t1);
  let t2 := sqN 4 t2                           -- for (i = 1; i < 5; ++i) fe25519_sq(t2, t2);
  let t1 := fe25519_mul t2 t1                  -- fe25519_mul(t1, t2, t1);
  let t2 := fe25519_sq t1                      -- fe25519_sq(t2, t1);
  let t2 := sqN 9 t2                           -- for (i = 1; i < 10; ++i) fe25519_sq(t2, t2);
  let t2 := fe25519_mul t2 t1                  -- fe25519_mul(t2, t2, t1);
  let t3 := fe25519_sq t2                      -- fe25519_sq(t3, t2);
  let t3 := sqN 19 t3                          -- for (i = 1; i < 20; ++i) fe25519_sq(t3, t3);
  let t2 := fe25519_mul t3 t2                  -- fe25519_mul(t2, t3, t2);
  let t2 := sqN 10 t2                          -- for (i = 1; i < 11; ++i) fe25519_sq(t2, t2);
  let t1 := fe25519_mul t2 t1                  -- fe25519_mul(t1, t2, t1);
  let t2 := fe25519_sq t1                      -- fe25519_sq(t2, t1);
  let t2 := sqN 49 t2                          -- for (i = 1; i < 50; ++i) fe25519_sq(t2, t2);
  let t2 := fe25519_mul t2 t1                  -- fe25519_mul(t2, t2, t1);
  let t3 := fe25519_sq t2                      -- fe25519_sq(t3, t2);
  let t3 := sqN 99 t3                          -- for (i = 1; i < 100; ++i) fe25519_sq(t3, t3);
  let t2 := fe25519_mul t3 t2                  -- fe25519_mul(t2, t3, t2);
  let t2 := sqN 50 t2                          -- for (i = 1; i < 51; ++i) fe25519_sq(t2, t2);
  let t1 := fe25519_mul t2 t1                  -- fe25519_mul(t1, t2, t1);
  let t1 := sqN 5 t1                           -- for (i = 1; i < 6; ++i) fe25519_sq(t1, t1);
  fe25519_mul t1 t0                            -- fe25519_mul(out, t1, t0);

/-! ### the `fe25519_*` operations as used by x25519_ref10.c -/

/-- the limb-level field as `FieldOps` -/
def fe51Field : FieldOps Fe where
  add := fe25519_add
  sub := fe25519_sub
  mul := fe25519_mul
  sq := fe25519_sq
  mul32 := fe25519_mul32
  invert := fe25519_invert
  frombytes := fe25519_frombytes
  tobytes := fe25519_tobytes
  cswap := fe25519_cswap
  one := fe25519_1
  zero := fe25519_0

/-- `crypto_scalarmult_curve25519_ref10` from `fe25519_frombytes` to `fe25519_tobytes` over the
    radix-2^51 limb arithmetic: `t` = the clamped scalar copy, `p` = the point encoding -/
def x25519_fe51 (t p : Bytes) : Bytes := ladder fe51Field t p

end Sodium.Model.Fe51
