import SodiumModel.Basic
import SodiumModel.Model.Utils
import SodiumModel.Model.LadderRef10
import SodiumModel.Model.Fe25Gen
/-
  The radix-2^25.5 field arithmetic behind X25519 / Ed25519 in builds WITHOUT 128-bit integers
  (`HAVE_TI_MODE` undefined: harness variants `noti`, `portable`), statement by statement:

    include/sodium/private/ed25519_ref10_fe_25_5.h   fe25519_0 fe25519_1 fe25519_add fe25519_sub fe25519_neg
                                                     fe25519_cmov fe25519_cswap fe25519_copy fe25519_isnegative
                                                     fe25519_iszero            (this file, hand-transcribed)
                                                     fe25519_mul fe25519_sq fe25519_sq2 fe25519_mul32
                                                                               (`Model/Fe25Gen.lean`, GENERATED from the header)
    crypto_core/ed25519/ref10/fe_25_5/fe.h           fe25519_reduce fe25519_tobytes      (this file)
                                                     fe25519_frombytes                   (`Model/Fe25Gen.lean`, generated)
    crypto_core/ed25519/ref10/ed25519_ref10.c        fe25519_invert fe25519_pow22523     (this file)

  `fe25519` = `int32_t[10]` = the structure `Fe` (limbs `l0 … l9`, value Σ l_i·2^⌈25.5 i⌉, limbs SIGNED).
  `int32_t` = `Int32`, `int64_t` = `Int64`, `uint32_t` = `UInt32`: all wrapping.  In C, signed overflow is undefined
  behaviour: that none occurs under the stated limb bounds is a theorem (`Properties/C10Fe25.lean`), not an assumption of
  the model.  `>>` on a negative signed value is implementation-defined in C; gcc and clang shift arithmetically,
  which is what `>>>` on `Int32`/`Int64` does.  Conversions to a signed type of an out-of-range value
  (`h0 -= carry0 * ((uint32_t) 1L << 26)` computes in `uint32_t` and stores into `int32_t`) are
  implementation-defined; gcc and clang reduce modulo 2^32, which is what `toInt32` does.  Mixed signed/unsigned
  operands follow the usual arithmetic conversions and are written out (`toUInt32`).
  Output-first C signatures `op(h, f, g)` become `h := op f g`.  Core Lean only.
-/
namespace Sodium.Model.Fe25
open Sodium Sodium.Model Sodium.Model.LadderRef10

/-! ### ed25519_ref10_fe_25_5.h -/

/-- `fe25519_0(h)` -/
def fe25519_0 : Fe := ⟨0, 0, 0, 0, 0, 0, 0, 0, 0, 0⟩      -- memset(&h[0], 0, 10 * sizeof h[0]);

/-- `fe25519_1(h)` -/
def fe25519_1 : Fe := ⟨1, 0, 0, 0, 0, 0, 0, 0, 0, 0⟩      -- h[0] = 1; h[1] = 0; memset(&h[2], 0, 8 * sizeof h[0]);

/-- `fe25519_add(h, f, g)`: limb-wise, not carried -/
def fe25519_add (f g : Fe) : Fe :=
  let h0 := f.l0 + g.l0    -- int32_t h0 = f[0] + g[0];
  let h1 := f.l1 + g.l1    -- int32_t h1 = f[1] + g[1];
  let h2 := f.l2 + g.l2    -- int32_t h2 = f[2] + g[2];
  let h3 := f.l3 + g.l3    -- int32_t h3 = f[3] + g[3];
  let h4 := f.l4 + g.l4    -- int32_t h4 = f[4] + g[4];
  let h5 := f.l5 + g.l5    -- int32_t h5 = f[5] + g[5];
  let h6 := f.l6 + g.l6    -- int32_t h6 = f[6] + g[6];
  let h7 := f.l7 + g.l7    -- int32_t h7 = f[7] + g[7];
  let h8 := f.l8 + g.l8    -- int32_t h8 = f[8] + g[8];
  let h9 := f.l9 + g.l9    -- int32_t h9 = f[9] + g[9];
  ⟨h0, h1, h2, h3, h4, h5, h6, h7, h8, h9⟩    -- h[0] = h0; … h[9] = h9;

/-- `fe25519_sub(h, f, g)`: limb-wise, not carried (no bias: the limbs are signed) -/
def fe25519_sub (f g : Fe) : Fe :=
  let h0 := f.l0 - g.l0    -- int32_t h0 = f[0] - g[0];
  let h1 := f.l1 - g.l1    -- int32_t h1 = f[1] - g[1];
  let h2 := f.l2 - g.l2    -- int32_t h2 = f[2] - g[2];
  let h3 := f.l3 - g.l3    -- int32_t h3 = f[3] - g[3];
  let h4 := f.l4 - g.l4    -- int32_t h4 = f[4] - g[4];
  let h5 := f.l5 - g.l5    -- int32_t h5 = f[5] - g[5];
  let h6 := f.l6 - g.l6    -- int32_t h6 = f[6] - g[6];
  let h7 := f.l7 - g.l7    -- int32_t h7 = f[7] - g[7];
  let h8 := f.l8 - g.l8    -- int32_t h8 = f[8] - g[8];
  let h9 := f.l9 - g.l9    -- int32_t h9 = f[9] - g[9];
  ⟨h0, h1, h2, h3, h4, h5, h6, h7, h8, h9⟩    -- h[0] = h0; … h[9] = h9;

/-- `fe25519_neg(h, f)` -/
def fe25519_neg (f : Fe) : Fe :=
  let h0 := -f.l0    -- int32_t h0 = -f[0];
  let h1 := -f.l1    -- int32_t h1 = -f[1];
  let h2 := -f.l2    -- int32_t h2 = -f[2];
  let h3 := -f.l3    -- int32_t h3 = -f[3];
  let h4 := -f.l4    -- int32_t h4 = -f[4];
  let h5 := -f.l5    -- int32_t h5 = -f[5];
  let h6 := -f.l6    -- int32_t h6 = -f[6];
  let h7 := -f.l7    -- int32_t h7 = -f[7];
  let h8 := -f.l8    -- int32_t h8 = -f[8];
  let h9 := -f.l9    -- int32_t h9 = -f[9];
  ⟨h0, h1, h2, h3, h4, h5, h6, h7, h8, h9⟩    -- h[0] = h0; … h[9] = h9;

/-- `fe25519_cmov(f, g, b)`: the new `f`, for EVERY `b` (the C contract is `b ∈ {0, 1}`).
    `x0 &= mask` has an `int32_t` left and a `uint32_t` right operand: computed in `uint32_t`, stored to `int32_t`. -/
def fe25519_cmov (f g : Fe) (b : UInt32) : Fe :=
  let mask : UInt32 := (-(b.toInt32)).toUInt32          -- uint32_t mask = (uint32_t) (-(int32_t) b);
  let f0 := f.l0                                     -- f0 = f[0];
  let f1 := f.l1                                     -- f1 = f[1];
  let f2 := f.l2                                     -- f2 = f[2];
  let f3 := f.l3                                     -- f3 = f[3];
  let f4 := f.l4                                     -- f4 = f[4];
  let f5 := f.l5                                     -- f5 = f[5];
  let f6 := f.l6                                     -- f6 = f[6];
  let f7 := f.l7                                     -- f7 = f[7];
  let f8 := f.l8                                     -- f8 = f[8];
  let f9 := f.l9                                     -- f9 = f[9];
  let x0 := f0 ^^^ g.l0                              -- x0 = f0 ^ g[0];
  let x1 := f1 ^^^ g.l1                              -- x1 = f1 ^ g[1];
  let x2 := f2 ^^^ g.l2                              -- x2 = f2 ^ g[2];
  let x3 := f3 ^^^ g.l3                              -- x3 = f3 ^ g[3];
  let x4 := f4 ^^^ g.l4                              -- x4 = f4 ^ g[4];
  let x5 := f5 ^^^ g.l5                              -- x5 = f5 ^ g[5];
  let x6 := f6 ^^^ g.l6                              -- x6 = f6 ^ g[6];
  let x7 := f7 ^^^ g.l7                              -- x7 = f7 ^ g[7];
  let x8 := f8 ^^^ g.l8                              -- x8 = f8 ^ g[8];
  let x9 := f9 ^^^ g.l9                              -- x9 = f9 ^ g[9];
  let x0 := (x0.toUInt32 &&& mask).toInt32            -- x0 &= mask;
  let x1 := (x1.toUInt32 &&& mask).toInt32            -- x1 &= mask;
  let x2 := (x2.toUInt32 &&& mask).toInt32            -- x2 &= mask;
  let x3 := (x3.toUInt32 &&& mask).toInt32            -- x3 &= mask;
  let x4 := (x4.toUInt32 &&& mask).toInt32            -- x4 &= mask;
  let x5 := (x5.toUInt32 &&& mask).toInt32            -- x5 &= mask;
  let x6 := (x6.toUInt32 &&& mask).toInt32            -- x6 &= mask;
  let x7 := (x7.toUInt32 &&& mask).toInt32            -- x7 &= mask;
  let x8 := (x8.toUInt32 &&& mask).toInt32            -- x8 &= mask;
  let x9 := (x9.toUInt32 &&& mask).toInt32            -- x9 &= mask;
  ⟨f0 ^^^ x0, f1 ^^^ x1, f2 ^^^ x2, f3 ^^^ x3, f4 ^^^ x4, f5 ^^^ x5, f6 ^^^ x6, f7 ^^^ x7, f8 ^^^ x8, f9 ^^^ x9⟩    -- f[0] = f0 ^ x0; …

/-- `fe25519_cswap(f, g, b)`: the new `(f, g)`, for EVERY `b` (the C contract is `b ∈ {0, 1}`) -/
def fe25519_cswap (f g : Fe) (b : UInt32) : Fe × Fe :=
  let mask : UInt32 := (-(b.toUInt64.toInt64)).toInt32.toUInt32    -- uint32_t mask = (uint32_t) (-(int64_t) b);
  let f0 := f.l0                                     -- f0 = f[0];
  let f1 := f.l1                                     -- f1 = f[1];
  let f2 := f.l2                                     -- f2 = f[2];
  let f3 := f.l3                                     -- f3 = f[3];
  let f4 := f.l4                                     -- f4 = f[4];
  let f5 := f.l5                                     -- f5 = f[5];
  let f6 := f.l6                                     -- f6 = f[6];
  let f7 := f.l7                                     -- f7 = f[7];
  let f8 := f.l8                                     -- f8 = f[8];
  let f9 := f.l9                                     -- f9 = f[9];
  let g0 := g.l0                                     -- g0 = g[0];
  let g1 := g.l1                                     -- g1 = g[1];
  let g2 := g.l2                                     -- g2 = g[2];
  let g3 := g.l3                                     -- g3 = g[3];
  let g4 := g.l4                                     -- g4 = g[4];
  let g5 := g.l5                                     -- g5 = g[5];
  let g6 := g.l6                                     -- g6 = g[6];
  let g7 := g.l7                                     -- g7 = g[7];
  let g8 := g.l8                                     -- g8 = g[8];
  let g9 := g.l9                                     -- g9 = g[9];
  let x0 := f0 ^^^ g0                                -- x0 = f0 ^ g0;
  let x1 := f1 ^^^ g1                                -- x1 = f1 ^ g1;
  let x2 := f2 ^^^ g2                                -- x2 = f2 ^ g2;
  let x3 := f3 ^^^ g3                                -- x3 = f3 ^ g3;
  let x4 := f4 ^^^ g4                                -- x4 = f4 ^ g4;
  let x5 := f5 ^^^ g5                                -- x5 = f5 ^ g5;
  let x6 := f6 ^^^ g6                                -- x6 = f6 ^ g6;
  let x7 := f7 ^^^ g7                                -- x7 = f7 ^ g7;
  let x8 := f8 ^^^ g8                                -- x8 = f8 ^ g8;
  let x9 := f9 ^^^ g9                                -- x9 = f9 ^ g9;
  let x0 := (x0.toUInt32 &&& mask).toInt32            -- x0 &= mask;
  let x1 := (x1.toUInt32 &&& mask).toInt32            -- x1 &= mask;
  let x2 := (x2.toUInt32 &&& mask).toInt32            -- x2 &= mask;
  let x3 := (x3.toUInt32 &&& mask).toInt32            -- x3 &= mask;
  let x4 := (x4.toUInt32 &&& mask).toInt32            -- x4 &= mask;
  let x5 := (x5.toUInt32 &&& mask).toInt32            -- x5 &= mask;
  let x6 := (x6.toUInt32 &&& mask).toInt32            -- x6 &= mask;
  let x7 := (x7.toUInt32 &&& mask).toInt32            -- x7 &= mask;
  let x8 := (x8.toUInt32 &&& mask).toInt32            -- x8 &= mask;
  let x9 := (x9.toUInt32 &&& mask).toInt32            -- x9 &= mask;
  (⟨f0 ^^^ x0, f1 ^^^ x1, f2 ^^^ x2, f3 ^^^ x3, f4 ^^^ x4, f5 ^^^ x5, f6 ^^^ x6, f7 ^^^ x7, f8 ^^^ x8, f9 ^^^ x9⟩,    -- f[0] = f0 ^ x0; …
   ⟨g0 ^^^ x0, g1 ^^^ x1, g2 ^^^ x2, g3 ^^^ x3, g4 ^^^ x4, g5 ^^^ x5, g6 ^^^ x6, g7 ^^^ x7, g8 ^^^ x8, g9 ^^^ x9⟩)    -- g[0] = g0 ^ x0; …

/-- `fe25519_copy(h, f)` -/
def fe25519_copy (f : Fe) : Fe := f            -- memcpy(h, f, 10 * sizeof h[0]);

/-! ### fe_25_5/fe.h -/

/-- `fe25519_reduce(h, f)`.
    NOTE the first statement: `19 * h9` is an `int`, `(uint32_t) 1L << 24` is `((uint32_t) 1L) << 24`, an `unsigned int`;
    the sum is therefore computed in `uint32_t` and the `>> 25` is a LOGICAL shift of that unsigned value (original
    ref10 has `((crypto_int32) 1) << 24` and an arithmetic shift).  For `19·h9 + 2^24 < 0` the first `q` is 128
    too large (`Properties/C10Fe25.lean`, `reduce_first_q`). -/
def fe25519_reduce (f : Fe) : Fe :=
  let h0 := f.l0                                      -- int32_t h0 = f[0];
  let h1 := f.l1                                      -- int32_t h1 = f[1];
  let h2 := f.l2                                      -- int32_t h2 = f[2];
  let h3 := f.l3                                      -- int32_t h3 = f[3];
  let h4 := f.l4                                      -- int32_t h4 = f[4];
  let h5 := f.l5                                      -- int32_t h5 = f[5];
  let h6 := f.l6                                      -- int32_t h6 = f[6];
  let h7 := f.l7                                      -- int32_t h7 = f[7];
  let h8 := f.l8                                      -- int32_t h8 = f[8];
  let h9 := f.l9                                      -- int32_t h9 = f[9];
  let q : Int32 := (((19 * h9).toUInt32 + ((1 : UInt32) <<< 24)) >>> 25).toInt32    -- q = (19 * h9 + ((uint32_t) 1L << 24)) >> 25;
  let q := (h0 + q) >>> 26                              -- q = (h0 + q) >> 26;
  let q := (h1 + q) >>> 25                              -- q = (h1 + q) >> 25;
  let q := (h2 + q) >>> 26                              -- q = (h2 + q) >> 26;
  let q := (h3 + q) >>> 25                              -- q = (h3 + q) >> 25;
  let q := (h4 + q) >>> 26                              -- q = (h4 + q) >> 26;
  let q := (h5 + q) >>> 25                              -- q = (h5 + q) >> 25;
  let q := (h6 + q) >>> 26                              -- q = (h6 + q) >> 26;
  let q := (h7 + q) >>> 25                              -- q = (h7 + q) >> 25;
  let q := (h8 + q) >>> 26                              -- q = (h8 + q) >> 26;
  let q := (h9 + q) >>> 25                              -- q = (h9 + q) >> 25;
  let h0 := h0 + 19 * q                                 -- h0 += 19 * q;
  let carry0 := h0 >>> 26                               -- carry0 = h0 >> 26;
  let h1 := h1 + carry0                                -- h1 += carry0;
  let h0 := (h0.toUInt32 - carry0.toUInt32 * ((1 : UInt32) <<< 26)).toInt32    -- h0 -= carry0 * ((uint32_t) 1L << 26);
  let carry1 := h1 >>> 25                               -- carry1 = h1 >> 25;
  let h2 := h2 + carry1                                -- h2 += carry1;
  let h1 := (h1.toUInt32 - carry1.toUInt32 * ((1 : UInt32) <<< 25)).toInt32    -- h1 -= carry1 * ((uint32_t) 1L << 25);
  let carry2 := h2 >>> 26                               -- carry2 = h2 >> 26;
  let h3 := h3 + carry2                                -- h3 += carry2;
  let h2 := (h2.toUInt32 - carry2.toUInt32 * ((1 : UInt32) <<< 26)).toInt32    -- h2 -= carry2 * ((uint32_t) 1L << 26);
  let carry3 := h3 >>> 25                               -- carry3 = h3 >> 25;
  let h4 := h4 + carry3                                -- h4 += carry3;
  let h3 := (h3.toUInt32 - carry3.toUInt32 * ((1 : UInt32) <<< 25)).toInt32    -- h3 -= carry3 * ((uint32_t) 1L << 25);
  let carry4 := h4 >>> 26                               -- carry4 = h4 >> 26;
  let h5 := h5 + carry4                                -- h5 += carry4;
  let h4 := (h4.toUInt32 - carry4.toUInt32 * ((1 : UInt32) <<< 26)).toInt32    -- h4 -= carry4 * ((uint32_t) 1L << 26);
  let carry5 := h5 >>> 25                               -- carry5 = h5 >> 25;
  let h6 := h6 + carry5                                -- h6 += carry5;
  let h5 := (h5.toUInt32 - carry5.toUInt32 * ((1 : UInt32) <<< 25)).toInt32    -- h5 -= carry5 * ((uint32_t) 1L << 25);
  let carry6 := h6 >>> 26                               -- carry6 = h6 >> 26;
  let h7 := h7 + carry6                                -- h7 += carry6;
  let h6 := (h6.toUInt32 - carry6.toUInt32 * ((1 : UInt32) <<< 26)).toInt32    -- h6 -= carry6 * ((uint32_t) 1L << 26);
  let carry7 := h7 >>> 25                               -- carry7 = h7 >> 25;
  let h8 := h8 + carry7                                -- h8 += carry7;
  let h7 := (h7.toUInt32 - carry7.toUInt32 * ((1 : UInt32) <<< 25)).toInt32    -- h7 -= carry7 * ((uint32_t) 1L << 25);
  let carry8 := h8 >>> 26                               -- carry8 = h8 >> 26;
  let h9 := h9 + carry8                                -- h9 += carry8;
  let h8 := (h8.toUInt32 - carry8.toUInt32 * ((1 : UInt32) <<< 26)).toInt32    -- h8 -= carry8 * ((uint32_t) 1L << 26);
  let carry9 := h9 >>> 25                               -- carry9 = h9 >> 25;
  let h9 := (h9.toUInt32 - carry9.toUInt32 * ((1 : UInt32) <<< 25)).toInt32    -- h9 -= carry9 * ((uint32_t) 1L << 25);
  ⟨h0, h1, h2, h3, h4, h5, h6, h7, h8, h9⟩              -- h[0] = h0; … h[9] = h9;

/-- `fe25519_tobytes(s, h)`: the 32 bytes written to `s`.  `t[i] >> k` is an `int`; `t[j] * ((uint32_t) 1 << m)` is an
    `unsigned int`, so the `|` is computed in `uint32_t`; the store to `unsigned char` keeps the low 8 bits. -/
def fe25519_tobytes (h : Fe) : Bytes :=
  let t := fe25519_reduce h                              -- fe25519_reduce(t, h);
  let s0 := (t.l0 >>> 0).toUInt32.toUInt8    -- s[0] = t[0] >> 0;
  let s1 := (t.l0 >>> 8).toUInt32.toUInt8    -- s[1] = t[0] >> 8;
  let s2 := (t.l0 >>> 16).toUInt32.toUInt8    -- s[2] = t[0] >> 16;
  let s3 := ((t.l0 >>> 24).toUInt32 ||| (t.l1.toUInt32 * ((1 : UInt32) <<< 2))).toUInt8    -- s[3] = (t[0] >> 24) | (t[1] * ((uint32_t) 1 << 2));
  let s4 := (t.l1 >>> 6).toUInt32.toUInt8    -- s[4] = t[1] >> 6;
  let s5 := (t.l1 >>> 14).toUInt32.toUInt8    -- s[5] = t[1] >> 14;
  let s6 := ((t.l1 >>> 22).toUInt32 ||| (t.l2.toUInt32 * ((1 : UInt32) <<< 3))).toUInt8    -- s[6] = (t[1] >> 22) | (t[2] * ((uint32_t) 1 << 3));
  let s7 := (t.l2 >>> 5).toUInt32.toUInt8    -- s[7] = t[2] >> 5;
  let s8 := (t.l2 >>> 13).toUInt32.toUInt8    -- s[8] = t[2] >> 13;
  let s9 := ((t.l2 >>> 21).toUInt32 ||| (t.l3.toUInt32 * ((1 : UInt32) <<< 5))).toUInt8    -- s[9] = (t[2] >> 21) | (t[3] * ((uint32_t) 1 << 5));
  let s10 := (t.l3 >>> 3).toUInt32.toUInt8    -- s[10] = t[3] >> 3;
  let s11 := (t.l3 >>> 11).toUInt32.toUInt8    -- s[11] = t[3] >> 11;
  let s12 := ((t.l3 >>> 19).toUInt32 ||| (t.l4.toUInt32 * ((1 : UInt32) <<< 6))).toUInt8    -- s[12] = (t[3] >> 19) | (t[4] * ((uint32_t) 1 << 6));
  let s13 := (t.l4 >>> 2).toUInt32.toUInt8    -- s[13] = t[4] >> 2;
  let s14 := (t.l4 >>> 10).toUInt32.toUInt8    -- s[14] = t[4] >> 10;
  let s15 := (t.l4 >>> 18).toUInt32.toUInt8    -- s[15] = t[4] >> 18;
  let s16 := (t.l5 >>> 0).toUInt32.toUInt8    -- s[16] = t[5] >> 0;
  let s17 := (t.l5 >>> 8).toUInt32.toUInt8    -- s[17] = t[5] >> 8;
  let s18 := (t.l5 >>> 16).toUInt32.toUInt8    -- s[18] = t[5] >> 16;
  let s19 := ((t.l5 >>> 24).toUInt32 ||| (t.l6.toUInt32 * ((1 : UInt32) <<< 1))).toUInt8    -- s[19] = (t[5] >> 24) | (t[6] * ((uint32_t) 1 << 1));
  let s20 := (t.l6 >>> 7).toUInt32.toUInt8    -- s[20] = t[6] >> 7;
  let s21 := (t.l6 >>> 15).toUInt32.toUInt8    -- s[21] = t[6] >> 15;
  let s22 := ((t.l6 >>> 23).toUInt32 ||| (t.l7.toUInt32 * ((1 : UInt32) <<< 3))).toUInt8    -- s[22] = (t[6] >> 23) | (t[7] * ((uint32_t) 1 << 3));
  let s23 := (t.l7 >>> 5).toUInt32.toUInt8    -- s[23] = t[7] >> 5;
  let s24 := (t.l7 >>> 13).toUInt32.toUInt8    -- s[24] = t[7] >> 13;
  let s25 := ((t.l7 >>> 21).toUInt32 ||| (t.l8.toUInt32 * ((1 : UInt32) <<< 4))).toUInt8    -- s[25] = (t[7] >> 21) | (t[8] * ((uint32_t) 1 << 4));
  let s26 := (t.l8 >>> 4).toUInt32.toUInt8    -- s[26] = t[8] >> 4;
  let s27 := (t.l8 >>> 12).toUInt32.toUInt8    -- s[27] = t[8] >> 12;
  let s28 := ((t.l8 >>> 20).toUInt32 ||| (t.l9.toUInt32 * ((1 : UInt32) <<< 6))).toUInt8    -- s[28] = (t[8] >> 20) | (t[9] * ((uint32_t) 1 << 6));
  let s29 := (t.l9 >>> 2).toUInt32.toUInt8    -- s[29] = t[9] >> 2;
  let s30 := (t.l9 >>> 10).toUInt32.toUInt8    -- s[30] = t[9] >> 10;
  let s31 := (t.l9 >>> 18).toUInt32.toUInt8    -- s[31] = t[9] >> 18;
  [s0, s1, s2, s3, s4, s5, s6, s7, s8, s9, s10, s11, s12, s13, s14, s15, s16, s17, s18, s19, s20, s21, s22, s23, s24, s25, s26, s27, s28, s29, s30, s31]

/-! ### ed25519_ref10_fe_25_5.h, continued -/

/-- `fe25519_isnegative(f)` -/
def fe25519_isnegative (f : Fe) : Int32 :=
  let s := fe25519_tobytes f                           -- fe25519_tobytes(s, f);
  ((s.getD 0 0) &&& 1).toUInt32.toInt32                -- return s[0] & 1;

/-- `fe25519_iszero(f)` -/
def fe25519_iszero (f : Fe) : Int32 :=
  let s := fe25519_tobytes f                           -- fe25519_tobytes(s, f);
  sodium_is_zero s                                     -- return sodium_is_zero(s, 32);

/-! ### ed25519_ref10.c: fe25519_invert, fe25519_pow22523 -/

/-- `n` applications of `g` in place -/
def iter (g : Fe → Fe) : Nat → Fe → Fe
  | 0, t => t
  | n + 1, t => iter g n (g t)

/-- `for (i = 1; i < n + 1; ++i) { fe25519_sq(t, t); }`: `n` squarings in place -/
def sqN (n : Nat) (t : Fe) : Fe := iter fe25519_sq n t

/-- `fe25519_invert(out, z)` -/
def fe25519_invert (z : Fe) : Fe :=
  let t0 := fe25519_sq z                       -- fe25519_sq(t0, z);
  let t1 := fe25519_sq t0                      -- fe25519_sq(t1, t0);
  let t1 := fe25519_sq t1                      -- fe25519_sq(t1, t1);
  let t1 := fe25519_mul z t1                   -- fe25519_mul(t1, z, t1);
  let t0 := fe25519_mul t0 t1                  -- fe25519_mul(t0, t0, t1);
  let t2 := fe25519_sq t0                      -- fe25519_sq(t2, t0);
  let t1 := fe25519_mul t1 t2                  -- fe25519_mul(t1, t1, t2);
  let t2 := fe25519_sq t1                      -- fe25519_sq(t2, t1);
  let t2 := sqN 4 t2                           -- for (i = 1; i < 5; ++i) fe25519_sq(t2, t2);
  let t1 := fe25519_mul t2 t1                  -- fe25519_mul(t1, t2, t1);
  let t2 := fe25519_sq t1                      -- fe25519_sq(t2, t1);
  let t2 := sqN 9 t2                           -- for (i = 1; i < 10; ++i) fe25519_sq(t2, t2);
  let t2 := fe25519_mul t2 t1                  -- fe25519_mul(t2, t2, t1);
  let t3 := fe25519_sq t2                      -- fe25519_sq(t3, t2);
  let t3 := sqN 19 t3                          -- for (i = 1; i < 20; ++i) fe25519_sq(t3, t3);
  let t2 := fe25519_mul t3 t2                  -- fe25519_mul(t2, t3, t2);
  let t2 := sqN 10 t2                          -- for (i = 1; i < 11; ++i) fe25519_sq(t2, t2);
  let t1 := fe25519_mul t2 t1                  -- fe25519_mul(t1, t2, t1);
  let t2 := fe25519_sq t1                      -- fe25519_sq(t2, t1);
  let t2 := sqN 49 t2                          -- for (i = 1; i < 50; ++i) fe25519_sq(t2, t2);
  let t2 := fe25519_mul t2 t1                  -- fe25519_mul(t2, t2, t1);
  let t3 := fe25519_sq t2                      -- fe25519_sq(t3, t2);
  let t3 := sqN 99 t3                          -- for (i = 1; i < 100; ++i) fe25519_sq(t3, t3);
  let t2 := fe25519_mul t3 t2                  -- fe25519_mul(t2, t3, t2);
  let t2 := sqN 50 t2                          -- for (i = 1; i < 51; ++i) fe25519_sq(t2, t2);
  let t1 := fe25519_mul t2 t1                  -- fe25519_mul(t1, t2, t1);
  let t1 := sqN 5 t1                           -- for (i = 1; i < 6; ++i) fe25519_sq(t1, t1);
  fe25519_mul t1 t0                            -- fe25519_mul(out, t1, t0);

/-- `fe25519_pow22523(out, z)`: z^((p-5)/8) = z^(2^252 - 3) -/
def fe25519_pow22523 (z : Fe) : Fe :=
  let t0 := fe25519_sq z                       -- fe25519_sq(t0, z);
  let t1 := fe25519_sq t0                      -- fe25519_sq(t1, t0);
  let t1 := fe25519_sq t1                      -- fe25519_sq(t1, t1);
  let t1 := fe25519_mul z t1                   -- fe25519_mul(t1, z, t1);
  let t0 := fe25519_mul t0 t1                  -- fe25519_mul(t0, t0, t1);
  let t0 := fe25519_sq t0                      -- fe25519_sq(t0, t0);
  let t0 := fe25519_mul t1 t0                  -- fe25519_mul(t0, t1, t0);
  let t1 := fe25519_sq t0                      -- fe25519_sq(t1, t0);
  let t1 := sqN 4 t1                           -- for (i = 1; i < 5; ++i) fe25519_sq(t1, t1);
  let t0 := fe25519_mul t1 t0                  -- fe25519_mul(t0, t1, t0);
  let t1 := fe25519_sq t0                      -- fe25519_sq(t1, t0);
  let t1 := sqN 9 t1                           -- for (i = 1; i < 10; ++i) fe25519_sq(t1, t1);
  let t1 := fe25519_mul t1 t0                  -- fe25519_mul(t1, t1, t0);
  let t2 := fe25519_sq t1                      -- fe25519_sq(t2, t1);
  let t2 := sqN 19 t2                          -- for (i = 1; i < 20; ++i) fe25519_sq(t2, t2);
  let t1 := fe25519_mul t2 t1                  -- fe25519_mul(t1, t2, t1);
  let t1 := sqN 10 t1                          -- for (i = 1; i < 11; ++i) fe25519_sq(t1, t1);
  let t0 := fe25519_mul t1 t0                  -- fe25519_mul(t0, t1, t0);
  let t1 := fe25519_sq t0                      -- fe25519_sq(t1, t0);
  let t1 := sqN 49 t1                          -- for (i = 1; i < 50; ++i) fe25519_sq(t1, t1);
  let t1 := fe25519_mul t1 t0                  -- fe25519_mul(t1, t1, t0);
  let t2 := fe25519_sq t1                      -- fe25519_sq(t2, t1);
  let t2 := sqN 99 t2                          -- for (i = 1; i < 100; ++i) fe25519_sq(t2, t2);
  let t1 := fe25519_mul t2 t1                  -- fe25519_mul(t1, t2, t1);
  let t1 := sqN 50 t1                          -- for (i = 1; i < 51; ++i) fe25519_sq(t1, t1);
  let t0 := fe25519_mul t1 t0                  -- fe25519_mul(t0, t1, t0);
  let t0 := fe25519_sq t0                      -- fe25519_sq(t0, t0);
  let t0 := fe25519_sq t0                      -- fe25519_sq(t0, t0);
  fe25519_mul t0 z                             -- fe25519_mul(out, t0, z);

/-! ### the `fe25519_*` operations as used by x25519_ref10.c -/

/-- the radix-2^25.5 limb-level field as `FieldOps` -/
def fe25Field : FieldOps Fe where
  add := fe25519_add
  sub := fe25519_sub
  mul := fe25519_mul
  sq := fe25519_sq
  mul32 := fe25519_mul32
  invert := fe25519_invert
  frombytes := fe25519_frombytes
  tobytes := fe25519_tobytes
  cswap := fe25519_cswap
  one := fe25519_1
  zero := fe25519_0

/-- `crypto_scalarmult_curve25519_ref10` from `fe25519_frombytes` to `fe25519_tobytes` over the
    radix-2^25.5 limb arithmetic: `t` = the clamped scalar copy, `p` = the point encoding -/
def x25519_fe25 (t p : Bytes) : Bytes := ladder fe25Field t p

end Sodium.Model.Fe25
