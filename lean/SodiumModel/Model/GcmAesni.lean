import SodiumModel.Basic
import SodiumModel.Spec.Aes
/-
  Model of libsodium's AES-256-GCM (the only implementation of `crypto_aead_aes256gcm_*` on x86),
  written after the C text of

    crypto_aead/aes256gcm/aesni/aead_aes256gcm_aesni.c

  Part 1 is a small explicit library of the SSE2 / SSSE3 / AES-NI / PCLMULQDQ intrinsics that occur in
  that file, each transcribing the "Operation" section of the Intel Intrinsics Guide (quoted in the
  doc-comment).  THESE DEFINITIONS ARE PART OF THE TRUSTED BASE: nothing in Lean ties them to the CPU.
  They are validated against the real CPU by `simdcheck/gcm/intrinsics_check.c` (gcc -maes -mpclmul
  -mssse3) and `simdcheck/gcm/SimdCheck.lean` (run by `simdcheck/gcm/run.sh`).
  `_mm_aesenc_si128`, `_mm_aesenclast_si128` and `_mm_aeskeygenassist_si128` are EXPRESSED WITH the
  FIPS-197 round transformations of `Spec/Aes.lean` (SubBytes / ShiftRows / MixColumns / AddRoundKey,
  SubWord / RotWord), so their link to the specification is by definition + CPU validation.

  Registers.  `__m128i` (`BlockVec`) is `BitVec 128`: bit k of the register is bit k of the number.
  The sixteen-byte view / memory image is little-endian: byte i = bits 8i+7..8i (`mm_loadu_si128`,
  `mm_storeu_si128`); the two 64-bit lanes are `q0` (bits 63..0) and `q1` (bits 127..64).

  Memory.  A `const unsigned char *p` is the list suffix starting at `p` (`p + n` = `p.drop n`); a load
  reads 16 bytes (reading past the end reads 0).  Every function of the file writes its output buffer
  strictly sequentially (the store at `dst + i` always happens when exactly `i` bytes have been written),
  so the output buffer is the list of the bytes written so far and a store at `dst + i` appends.
  `size_t` values that only index or measure buffers are `Nat` (= list lengths); the places where the C
  arithmetic can wrap (`required_blocks`, `ad_len * 8`) use `UInt64`.

  Loops are recursion (`forLoop`: `for (; cond(i); i += step) body`, with fuel) or folds over the index
  range for the fixed-trip-count `for (j = …)` loops.

  Part 2 transcribes the macros, Part 3 the functions (same names), Part 4 the API entry points.
  Core Lean only.
-/
namespace Sodium.Model.GcmAesni
open Sodium Sodium.Spec

/-! ## Part 1: registers and intrinsics (trusted base) -/

/-- `__m128i` -/
abbrev BlockVec := BitVec 128

/-- 64-bit lane 0 = bits 63..0 -/
def q0 (a : BlockVec) : UInt64 := UInt64.ofNat (a.toNat % 2 ^ 64)
/-- 64-bit lane 1 = bits 127..64 -/
def q1 (a : BlockVec) : UInt64 := UInt64.ofNat (a.toNat / 2 ^ 64)
/-- the register whose 64-bit lanes are `e0` (low) and `e1` (high) -/
def ofQ (e1 e0 : UInt64) : BlockVec := BitVec.ofNat 128 (e1.toNat * 2 ^ 64 + e0.toNat)
/-- 32-bit lane `k` (0..3) as a number -/
def lane32 (a : BlockVec) (k : Nat) : Nat := (a.toNat >>> (32 * k)) % 2 ^ 32

/-- MOVDQU load: "dst[127:0] := MEM[mem_addr+127:mem_addr]" (little-endian) -/
def mm_loadu_si128 (mem : Bytes) : BlockVec := BitVec.ofNat 128 (le (mem.take 16))

/-- MOVDQU store: "MEM[mem_addr+127:mem_addr] := a[127:0]": the 16 bytes written -/
def mm_storeu_si128 (a : BlockVec) : Bytes := toLE 16 a.toNat

/-- `_mm_xor_si128`: "dst[127:0] := (a[127:0] XOR b[127:0])" -/
def mm_xor_si128 (a b : BlockVec) : BlockVec := a ^^^ b
/-- `_mm_and_si128`: "dst[127:0] := (a[127:0] AND b[127:0])" -/
def mm_and_si128 (a b : BlockVec) : BlockVec := a &&& b
/-- `_mm_or_si128`: "dst[127:0] := (a[127:0] OR b[127:0])" -/
def mm_or_si128 (a b : BlockVec) : BlockVec := a ||| b
/-- `_mm_setzero_si128` -/
def mm_setzero_si128 : BlockVec := 0

/-- `_mm_set_epi64x(e1, e0)`: "dst[63:0] := e0; dst[127:64] := e1" -/
def mm_set_epi64x (e1 e0 : UInt64) : BlockVec := ofQ e1 e0

/-- `_mm_set_epi8(e15, …, e0)`: "dst[7:0] := e0; dst[15:8] := e1; …; dst[127:120] := e15" -/
def mm_set_epi8 (e15 e14 e13 e12 e11 e10 e9 e8 e7 e6 e5 e4 e3 e2 e1 e0 : UInt8) : BlockVec :=
  mm_loadu_si128 [e0, e1, e2, e3, e4, e5, e6, e7, e8, e9, e10, e11, e12, e13, e14, e15]

/-- `_mm_add_epi64`: "FOR j := 0 to 1: dst[64j+63:64j] := a[64j+63:64j] + b[64j+63:64j]" -/
def mm_add_epi64 (a b : BlockVec) : BlockVec := ofQ (q1 a + q1 b) (q0 a + q0 b)
/-- `_mm_sub_epi64`: "FOR j := 0 to 1: dst[64j+63:64j] := a[64j+63:64j] - b[64j+63:64j]" -/
def mm_sub_epi64 (a b : BlockVec) : BlockVec := ofQ (q1 a - q1 b) (q0 a - q0 b)

/-- `_mm_slli_epi64(a, imm8)`: "FOR j := 0 to 1: IF imm8[7:0] > 63 dst[64j+63:64j] := 0
    ELSE dst[64j+63:64j] := ZeroExtend64(a[64j+63:64j] << imm8[7:0])" -/
def mm_slli_epi64 (a : BlockVec) (imm8 : Nat) : BlockVec :=
  if imm8 % 256 > 63 then 0 else ofQ (q1 a <<< UInt64.ofNat (imm8 % 256)) (q0 a <<< UInt64.ofNat (imm8 % 256))
/-- `_mm_srli_epi64(a, imm8)`: same with `>>` -/
def mm_srli_epi64 (a : BlockVec) (imm8 : Nat) : BlockVec :=
  if imm8 % 256 > 63 then 0 else ofQ (q1 a >>> UInt64.ofNat (imm8 % 256)) (q0 a >>> UInt64.ofNat (imm8 % 256))

/-- `_mm_slli_si128(a, imm8)`: "tmp := imm8[7:0]; IF tmp > 15 tmp := 16; dst[127:0] := a[127:0] << (tmp*8)" -/
def mm_slli_si128 (a : BlockVec) (imm8 : Nat) : BlockVec :=
  let tmp := if imm8 % 256 > 15 then 16 else imm8 % 256
  a <<< (tmp * 8)
/-- `_mm_srli_si128(a, imm8)`: "tmp := imm8[7:0]; IF tmp > 15 tmp := 16; dst[127:0] := a[127:0] >> (tmp*8)" -/
def mm_srli_si128 (a : BlockVec) (imm8 : Nat) : BlockVec :=
  let tmp := if imm8 % 256 > 15 then 16 else imm8 % 256
  a >>> (tmp * 8)

/-- `_mm_shuffle_epi32(a, imm8)`: "dst[31:0] := SELECT4(a, imm8[1:0]); dst[63:32] := SELECT4(a, imm8[3:2]);
    dst[95:64] := SELECT4(a, imm8[5:4]); dst[127:96] := SELECT4(a, imm8[7:6])" -/
def mm_shuffle_epi32 (a : BlockVec) (imm8 : Nat) : BlockVec :=
  BitVec.ofNat 128
    (lane32 a (imm8 % 4) + 2 ^ 32 * lane32 a (imm8 / 4 % 4) + 2 ^ 64 * lane32 a (imm8 / 16 % 4)
      + 2 ^ 96 * lane32 a (imm8 / 64 % 4))

/-- `_MM_SHUFFLE(z, y, x, w) = (z << 6) | (y << 4) | (x << 2) | w` (arguments 0..3) -/
def MM_SHUFFLE (z y x w : Nat) : Nat := z * 64 + y * 16 + x * 4 + w

/-- `_mm_shuffle_epi8(a, b)` (PSHUFB): "FOR j := 0 to 15: IF b[8j+7] == 1 dst[8j+7:8j] := 0
    ELSE index[3:0] := b[8j+3:8j]; dst[8j+7:8j] := a[index*8+7:index*8]" -/
def mm_shuffle_epi8 (a b : BlockVec) : BlockVec :=
  let ab := mm_storeu_si128 a
  let bb := mm_storeu_si128 b
  mm_loadu_si128 ((List.range 16).map fun j =>
    let m := bb.getD j 0
    if m &&& 0x80 != 0 then 0 else ab.getD (m &&& 0x0f).toNat 0)

/-- carry-less product of the low `n` bits of `x` with `y`:  XOR over the set bits `i < n` of `x` of `y << i` -/
def clmulNat : Nat → Nat → Nat → Nat
  | 0, _, _ => 0
  | n + 1, x, y => clmulNat n x y ^^^ (if x.testBit n then y <<< n else 0)

/-- `_mm_clmulepi64_si128(a, b, imm8)` (PCLMULQDQ): "IF imm8[0] == 0 TEMP1 := a[63:0] ELSE TEMP1 := a[127:64];
    IF imm8[4] == 0 TEMP2 := b[63:0] ELSE TEMP2 := b[127:64];
    FOR i := 0 to 63: TEMP[i] := (TEMP1[0] AND TEMP2[i]); FOR j := 1 to i: TEMP[i] := TEMP[i] XOR (TEMP1[j] AND TEMP2[i-j]); …
    (bit i of the result is the XOR of TEMP1[j] AND TEMP2[i-j] over all j: the carry-less product)" -/
def mm_clmulepi64_si128 (a b : BlockVec) (imm8 : Nat) : BlockVec :=
  let t1 := if imm8 % 2 = 0 then q0 a else q1 a
  let t2 := if imm8 / 16 % 2 = 0 then q0 b else q1 b
  BitVec.ofNat 128 (clmulNat 64 t1.toNat t2.toNat)

/-- `_mm_aesenc_si128(a, RoundKey)` (AESENC): "a[127:0] := ShiftRows(a[127:0]); a[127:0] := SubBytes(a[127:0]);
    a[127:0] := MixColumns(a[127:0]); dst[127:0] := a[127:0] XOR RoundKey[127:0]"
    (ShiftRows and SubBytes commute); the state is the little-endian byte image of the register, which is the
    FIPS-197 input order. -/
def mm_aesenc_si128 (a rk : BlockVec) : BlockVec :=
  mm_loadu_si128 (Aes.aesRound (mm_storeu_si128 a) (mm_storeu_si128 rk))

/-- `_mm_aesenclast_si128(a, RoundKey)` (AESENCLAST): "a := ShiftRows(a); a := SubBytes(a); dst := a XOR RoundKey" -/
def mm_aesenclast_si128 (a rk : BlockVec) : BlockVec :=
  mm_loadu_si128 (Aes.aesFinalRound (mm_storeu_si128 a) (mm_storeu_si128 rk))

/-- `_mm_aeskeygenassist_si128(a, imm8)` (AESKEYGENASSIST): "X3 := a[127:96]; X2 := a[95:64]; X1 := a[63:32]; X0 := a[31:0];
    RCON[31:0] := ZeroExtend32(imm8[7:0]);
    dst[31:0] := SubWord(X1); dst[63:32] := RotWord(SubWord(X1)) XOR RCON;
    dst[95:64] := SubWord(X3); dst[127:96] := RotWord(SubWord(X3)) XOR RCON"
    (RotWord on the little-endian dword [b0,b1,b2,b3] gives [b1,b2,b3,b0] = FIPS-197 RotWord on the byte sequence). -/
def mm_aeskeygenassist_si128 (a : BlockVec) (imm8 : UInt8) : BlockVec :=
  let s := mm_storeu_si128 a
  let x1 := (s.drop 4).take 4
  let x3 := (s.drop 12).take 4
  let rcon : Bytes := [imm8, 0, 0, 0]
  mm_loadu_si128 (Aes.subWord x1 ++ xorBytes (Aes.rotWord (Aes.subWord x1)) rcon
    ++ Aes.subWord x3 ++ xorBytes (Aes.rotWord (Aes.subWord x3)) rcon)

/-! ## Part 2: the macros of aead_aes256gcm_aesni.c -/

def ABYTES : Nat := 16
def NPUBBYTES : Nat := 12
def KEYBYTES : Nat := 32
def PARALLEL_BLOCKS : Nat := 7
def ROUNDS : Nat := 14
def PC_COUNT : Nat := 2 * PARALLEL_BLOCKS

def LOAD128 (a : Bytes) : BlockVec := mm_loadu_si128 a
def STORE128 (b : BlockVec) : Bytes := mm_storeu_si128 b
def AES_ENCRYPT (block_vec rkey : BlockVec) : BlockVec := mm_aesenc_si128 block_vec rkey
def AES_ENCRYPTLAST (block_vec rkey : BlockVec) : BlockVec := mm_aesenclast_si128 block_vec rkey
def AES_KEYGEN (block_vec : BlockVec) (rc : UInt8) : BlockVec := mm_aeskeygenassist_si128 block_vec rc
def XOR128 (a b : BlockVec) : BlockVec := mm_xor_si128 a b
def AND128 (a b : BlockVec) : BlockVec := mm_and_si128 a b
def OR128 (a b : BlockVec) : BlockVec := mm_or_si128 a b
def SET64x2 (a b : UInt64) : BlockVec := mm_set_epi64x a b
def ZERO128 : BlockVec := mm_setzero_si128
def ONE128 : BlockVec := SET64x2 0 1
def ADD64x2 (a b : BlockVec) : BlockVec := mm_add_epi64 a b
def SUB64x2 (a b : BlockVec) : BlockVec := mm_sub_epi64 a b
def SHL64x2 (a : BlockVec) (b : Nat) : BlockVec := mm_slli_epi64 a b
def SHR64x2 (a : BlockVec) (b : Nat) : BlockVec := mm_srli_epi64 a b
/-- `_mm_shuffle_epi8((x), _mm_set_epi8(0, 1, 2, …, 15))` -/
def REV128 (x : BlockVec) : BlockVec :=
  mm_shuffle_epi8 x (mm_set_epi8 0 1 2 3 4 5 6 7 8 9 10 11 12 13 14 15)
/-- `_mm_shuffle_epi32((x), _MM_SHUFFLE((d), (c), (b), (a)))` -/
def SHUFFLE32x4 (x : BlockVec) (a b c d : Nat) : BlockVec := mm_shuffle_epi32 x (MM_SHUFFLE d c b a)
def BYTESHL128 (a : BlockVec) (b : Nat) : BlockVec := mm_slli_si128 a b
def BYTESHR128 (a : BlockVec) (b : Nat) : BlockVec := mm_srli_si128 a b
/-- `OR128(SHL64x2((a), (b)), SHR64x2(BYTESHL128((a), 8), 64 - (b)))` -/
def SHL128 (a : BlockVec) (b : Nat) : BlockVec := OR128 (SHL64x2 a b) (SHR64x2 (BYTESHL128 a 8) (64 - b))
def CLMULLO128 (a b : BlockVec) : BlockVec := mm_clmulepi64_si128 a b 0x00
def CLMULHI128 (a b : BlockVec) : BlockVec := mm_clmulepi64_si128 a b 0x11
def CLMULLOHI128 (a b : BlockVec) : BlockVec := mm_clmulepi64_si128 a b 0x10
def CLMULHILO128 (a b : BlockVec) : BlockVec := mm_clmulepi64_si128 a b 0x01

/-- private/common.h `STORE32_BE(dst, w)`: the four bytes written -/
def STORE32_BE (w : UInt32) : Bytes :=
  [(w >>> 24).toUInt8, (w >>> 16).toUInt8, (w >>> 8).toUInt8, w.toUInt8]

structure I256 where
  hi : BlockVec
  lo : BlockVec
  mid : BlockVec

abbrev Precomp := BlockVec

/-- `State`: `rkeys[ROUNDS + 1]`, `hx[PC_COUNT]` (reads are `getD · 0`) -/
structure State where
  rkeys : List BlockVec
  hx : List Precomp

/-- `for (; cond(i); i += step) s = body(i, s)`; returns the final `i` and state -/
def forLoop {σ : Type} (cond : Nat → Bool) (step : Nat) (body : Nat → σ → σ) : Nat → Nat → σ → Nat × σ
  | 0, i, s => (i, s)
  | fuel + 1, i, s => if cond i then forLoop cond step body fuel (i + step) (body i s) else (i, s)

/-! ## Part 3: the functions -/

/-- the local variables of `expand256` -/
structure KS where
  rkeys : List BlockVec
  t1 : BlockVec
  t2 : BlockVec

/-- `EXPAND_KEY_1(RC)` -/
def EXPAND_KEY_1 (RC : UInt8) (v : KS) : KS :=
  let rkeys := v.rkeys ++ [v.t2]                       -- rkeys[i++] = t2;
  let s := AES_KEYGEN v.t2 RC
  let t1 := XOR128 v.t1 (BYTESHL128 v.t1 4)
  let t1 := XOR128 t1 (BYTESHL128 t1 8)
  let t1 := XOR128 t1 (SHUFFLE32x4 s 3 3 3 3)
  { rkeys := rkeys, t1 := t1, t2 := v.t2 }

/-- `EXPAND_KEY_2(RC)` -/
def EXPAND_KEY_2 (RC : UInt8) (v : KS) : KS :=
  let rkeys := v.rkeys ++ [v.t1]                       -- rkeys[i++] = t1;
  let s := AES_KEYGEN v.t1 RC
  let t2 := XOR128 v.t2 (BYTESHL128 v.t2 4)
  let t2 := XOR128 t2 (BYTESHL128 t2 8)
  let t2 := XOR128 t2 (SHUFFLE32x4 s 2 2 2 2)
  { rkeys := rkeys, t1 := v.t1, t2 := t2 }

/-- `expand256(key, rkeys)`: the 15 round keys -/
def expand256 (key : Bytes) : List BlockVec :=
  let t1 := LOAD128 key
  let t2 := LOAD128 (key.drop 16)
  let v : KS := { rkeys := [t1], t1 := t1, t2 := t2 }  -- rkeys[i++] = t1;
  let v := EXPAND_KEY_1 0x01 v
  let v := EXPAND_KEY_2 0x01 v
  let v := EXPAND_KEY_1 0x02 v
  let v := EXPAND_KEY_2 0x02 v
  let v := EXPAND_KEY_1 0x04 v
  let v := EXPAND_KEY_2 0x04 v
  let v := EXPAND_KEY_1 0x08 v
  let v := EXPAND_KEY_2 0x08 v
  let v := EXPAND_KEY_1 0x10 v
  let v := EXPAND_KEY_2 0x10 v
  let v := EXPAND_KEY_1 0x20 v
  let v := EXPAND_KEY_2 0x20 v
  let v := EXPAND_KEY_1 0x40 v
  v.rkeys ++ [v.t1]                                    -- rkeys[i++] = t1;

/-- the common round sequence of `encrypt` / `encrypt_xor_block`:
    `t = XOR128(t, rkeys[0]); for (i = 1; i < ROUNDS; i++) t = AES_ENCRYPT(t, rkeys[i]); t = AES_ENCRYPTLAST(t, rkeys[ROUNDS])` -/
def rounds (rkeys : List BlockVec) (t : BlockVec) : BlockVec :=
  let t := XOR128 t (rkeys.getD 0 0)
  let t := (List.range' 1 (ROUNDS - 1)).foldl (fun t i => AES_ENCRYPT t (rkeys.getD i 0)) t
  AES_ENCRYPTLAST t (rkeys.getD ROUNDS 0)

/-- `encrypt(st, dst, src)`: the 16 bytes stored to `dst` -/
def encrypt (st : State) (src : Bytes) : Bytes :=
  STORE128 (rounds st.rkeys (LOAD128 src))

/-- `encrypt_xor_block(st, dst, src, counter)`: the 16 bytes stored to `dst`
    (the loop leaves `i = ROUNDS`, so `rkeys[i]` in the C is `rkeys[ROUNDS]`) -/
def encrypt_xor_block (st : State) (src : Bytes) (counter : BlockVec) : Bytes :=
  let ts := rounds st.rkeys counter
  let ts := XOR128 ts (LOAD128 src)
  STORE128 ts

/-- `encrypt_xor_wide(st, dst, src, counters)`: the `16 * PARALLEL_BLOCKS` bytes stored to `dst` -/
def encrypt_xor_wide (st : State) (src : Bytes) (counters : List BlockVec) : Bytes :=
  let js := List.range PARALLEL_BLOCKS
  -- for (j…) ts[j] = XOR128(counters[j], st->rkeys[0]);
  let ts := js.map fun j => XOR128 (counters.getD j 0) (st.rkeys.getD 0 0)
  -- for (i = 1; i < ROUNDS; i++) for (j…) ts[j] = AES_ENCRYPT(ts[j], st->rkeys[i]);
  let ts := (List.range' 1 (ROUNDS - 1)).foldl
    (fun ts i => js.map fun j => AES_ENCRYPT (ts.getD j 0) (st.rkeys.getD i 0)) ts
  -- for (j…) { ts[j] = AES_ENCRYPTLAST(ts[j], st->rkeys[i]); ts[j] = XOR128(ts[j], LOAD128(&src[16 * j])); }
  let ts := js.map fun j =>
    XOR128 (AES_ENCRYPTLAST (ts.getD j 0) (st.rkeys.getD ROUNDS 0)) (LOAD128 (src.drop (16 * j)))
  -- for (j…) STORE128(&dst[16 * j], ts[j]);
  (js.map fun j => STORE128 (ts.getD j 0)).flatten

/-- `clsq128(x)` -/
def clsq128 (x : BlockVec) : I256 :=
  let r_lo := CLMULLO128 x x
  let r_hi := CLMULHI128 x x
  { hi := r_hi, lo := r_lo, mid := ZERO128 }

/-- `clmul128(x, y)` (`USE_KARATSUBA_MULTIPLICATION` is `#undef`ined: the `#else` branch) -/
def clmul128 (x y : BlockVec) : I256 :=
  let r_hi := CLMULHI128 x y
  let r_lo := CLMULLO128 x y
  let r_mid := XOR128 (CLMULHILO128 x y) (CLMULLOHI128 x y)
  { hi := r_hi, lo := r_lo, mid := r_mid }

/-- `gcm_reduce(x)` -/
def gcm_reduce (x : I256) : BlockVec :=
  let hi := XOR128 x.hi (BYTESHR128 x.mid 8)
  let lo := XOR128 x.lo (BYTESHL128 x.mid 8)
  let p64 := SET64x2 0 0xc200000000000000
  let a := CLMULLO128 lo p64
  let b := XOR128 (SHUFFLE32x4 lo 2 3 0 1) a
  let c := CLMULLO128 b p64
  let d := XOR128 (SHUFFLE32x4 b 2 3 0 1) c
  XOR128 d hi

/-- `precomp(hx, from, to)`; `from & ~1U`: `~1U` is the `unsigned int` 0xfffffffe -/
def precomp (hx : List Precomp) («from» to : Nat) : List Precomp :=
  let h := hx.getD 0 0
  (forLoop (fun i => i < to) 2 (fun i hx =>
      let hx := hx.set i (gcm_reduce (clmul128 (hx.getD (i - 1) 0) h))
      hx.set (i + 1) (gcm_reduce (clsq128 (hx.getD (i / 2) 0))))
    (to + 1) («from» &&& 0xfffffffe) hx).2

/-- `precomp_for_block_count(hx, gh_key, block_count)` (`hx` starts as an arbitrary `PC_COUNT`-element array) -/
def precomp_for_block_count (hx : List Precomp) (gh_key : Bytes) (block_count : Nat) : List Precomp :=
  let h0 := REV128 (LOAD128 gh_key)
  let carry := SET64x2 0xc200000000000000 1
  let mask := SUB64x2 ZERO128 (SHR64x2 h0 63)
  let mask := SHUFFLE32x4 mask 3 3 3 3
  let carry := AND128 carry mask
  let h0_shifted := SHL128 h0 1
  let h := XOR128 h0_shifted carry
  let hx := hx.set 0 h
  let hx := hx.set 1 (gcm_reduce (clsq128 (hx.getD 0 0)))
  if block_count ≥ PC_COUNT then precomp hx 2 PC_COUNT else precomp hx 2 block_count

/-- `gh_init`: the initial accumulator -/
def gh_init : BlockVec := ZERO128

/-- `gh_update0(sth, p, hn)` -/
def gh_update0 (acc : BlockVec) (p : Bytes) (hn : Precomp) : I256 :=
  let m := REV128 (LOAD128 p)
  clmul128 (XOR128 acc m) hn

/-- `gh_update(&u, p, hn)` -/
def gh_update (u : I256) (p : Bytes) (hn : Precomp) : I256 :=
  let m := REV128 (LOAD128 p)
  let t := clmul128 m hn
  { hi := XOR128 u.hi t.hi, lo := XOR128 u.lo t.lo, mid := XOR128 u.mid t.mid }

/-- the statement group that the file repeats for n = PC_COUNT, PC_COUNT / 2 (= PARALLEL_BLOCKS), 4, 2, 1:
    `u = gh_update0(sth, p, st->hx[n - 1 - 0]); for (j = 1; j < n; j += 1) gh_update(&u, p + j * 16, st->hx[n - 1 - j]);
     sth->acc = gcm_reduce(u);`  -/
def gh_agg (st : State) (acc : BlockVec) (p : Bytes) (n : Nat) : BlockVec :=
  let u := gh_update0 acc p (st.hx.getD (n - 1 - 0) 0)
  let u := (List.range' 1 (n - 1)).foldl
    (fun u j => gh_update u (p.drop (j * 16)) (st.hx.getD (n - 1 - j) 0)) u
  gcm_reduce u

/-- `gh_ad_blocks(st, sth, ad, ad_len)`: the new accumulator -/
def gh_ad_blocks (st : State) (acc : BlockVec) (ad : Bytes) (ad_len : Nat) : BlockVec :=
  let fuel := ad_len + 1
  let (i, acc) := forLoop (fun i => i + PC_COUNT * 16 ≤ ad_len) (PC_COUNT * 16)
    (fun i acc => gh_agg st acc (ad.drop i) PC_COUNT) fuel 0 acc
  let (i, acc) := forLoop (fun i => i + PC_COUNT * 16 / 2 ≤ ad_len) (PC_COUNT * 16 / 2)
    (fun i acc => gh_agg st acc (ad.drop i) (PC_COUNT / 2)) fuel i acc
  let (i, acc) := forLoop (fun i => i + 4 * 16 ≤ ad_len) (4 * 16)
    (fun i acc => gh_agg st acc (ad.drop i) 4) fuel i acc
  let (i, acc) := forLoop (fun i => i + 2 * 16 ≤ ad_len) (2 * 16)
    (fun i acc => gh_agg st acc (ad.drop i) 2) fuel i acc
  if i < ad_len then gh_agg st acc (ad.drop i) 1 else acc

/-- `incr_counters(rev_counters, counter, n)`: `(rev_counters[0..n), returned counter)` -/
def incr_counters (counter : BlockVec) (n : Nat) : List BlockVec × BlockVec :=
  let one := ONE128
  (List.range n).foldl (fun (rc : List BlockVec × BlockVec) _ =>
    (rc.1 ++ [REV128 rc.2], ADD64x2 rc.2 one)) ([], counter)

/-- `required_blocks(ad_len, m_len)` on 64-bit `size_t` (all arithmetic wraps) -/
def required_blocks (ad_len m_len : UInt64) : UInt64 :=
  let ad_blocks := (ad_len + 15) / 16
  let m_blocks := (m_len + 15) / 16
  let SIZE_MAX : UInt64 := 0xffffffffffffffff
  if ad_len > SIZE_MAX - UInt64.ofNat (2 * PARALLEL_BLOCKS * 16) ||
     m_len > SIZE_MAX - UInt64.ofNat (2 * PARALLEL_BLOCKS * 16) || ad_len < ad_blocks || m_len < m_blocks ||
     m_blocks ≥ ((1 : UInt64) <<< 32) - 2 then 0
  else ad_blocks + m_blocks + 1

/-- "Associated data" prologue of both generic functions (`ad != NULL && ad_len != 0`; a NULL `ad` is `[]`) -/
def absorb_ad (st : State) (acc : BlockVec) (ad : Bytes) : BlockVec :=
  let ad_len := ad.length
  if ad_len != 0 then
    let acc := gh_ad_blocks st acc ad (ad_len &&& (2 ^ 64 - 16))      -- ad_len & ~15
    let left := ad_len &&& 15
    if left != 0 then
      -- memset(pad, 0, sizeof pad); memcpy(pad, ad + ad_len - left, left);
      let pad := (ad.drop (ad_len - left)).take left ++ zeros (16 - left)
      gh_ad_blocks st acc pad 16
    else acc
  else acc

/-- the loop state of the generic functions: bytes written to `dst`, `sth->acc`, `counter` -/
structure Loop where
  dst : Bytes
  acc : BlockVec
  counter : BlockVec

/-- `final_block = REV128(SET64x2(ad_len * 8, src_len * 8))` (64-bit `size_t` products) -/
def final_block (ad_len src_len : Nat) : BlockVec :=
  REV128 (SET64x2 (UInt64.ofNat ad_len * 8) (UInt64.ofNat src_len * 8))

/-- `aes_gcm_encrypt_generic(st, sth, mac, dst, src, src_len, ad, ad_len, counter_)`: `(dst, mac)`.
    `sth` enters as `acc0`.  `stack` is the indeterminate initial content of `last_blocks[2 * 16]`: when
    `left != 0` the C copies `left` bytes into it and runs `encrypt_xor_block` over all 16 bytes of
    `last_blocks` BEFORE zeroing bytes `left..15` — those bytes are read uninitialised (the result bytes
    they produce are then overwritten with 0). -/
def aes_gcm_encrypt_generic (st : State) (acc0 : BlockVec) (src ad counter_ : Bytes)
    (stack : Bytes := zeros 32) : Bytes × Bytes :=
  let src_len := src.length
  let ad_len := ad.length
  let PB := PARALLEL_BLOCKS
  let one := ONE128
  let fuel := src_len + 1
  /- Associated data -/
  let acc := absorb_ad st acc0 ad
  /- Encrypted data -/
  let counter := REV128 (LOAD128 counter_)
  let i := 0
  let s : Loop := { dst := [], acc := acc, counter := counter }
  /- 2*PARALLEL_BLOCKS aggregation -/
  let (i, s) :=
    if src_len - i ≥ 2 * PB * 16 then
      let (rev_counters, counter) := incr_counters s.counter PB
      let s := { s with dst := s.dst ++ encrypt_xor_wide st (src.drop i) rev_counters, counter := counter }
      let i := i + PB * 16
      let (i, s) := forLoop (fun i => i + 2 * PB * 16 ≤ src_len) (2 * PB * 16) (fun i s =>
          let (rev_counters, counter) := incr_counters s.counter PB
          let dst := s.dst ++ encrypt_xor_wide st (src.drop i) rev_counters
          let pi := i - PB * 16
          let u := gh_update0 s.acc (dst.drop pi) (st.hx.getD (2 * PB - 1 - 0) 0)
          let u := (List.range' 1 (PB - 1)).foldl
            (fun u j => gh_update u (dst.drop (pi + j * 16)) (st.hx.getD (2 * PB - 1 - j) 0)) u
          let (rev_counters, counter) := incr_counters counter PB
          let dst := dst ++ encrypt_xor_wide st (src.drop (i + PB * 16)) rev_counters
          let pi := i
          let u := (List.range PB).foldl
            (fun u j => gh_update u (dst.drop (pi + j * 16)) (st.hx.getD (PB - 1 - j) 0)) u
          { dst := dst, acc := gcm_reduce u, counter := counter }) fuel i s
      let pi := i - PB * 16
      (i, { s with acc := gh_agg st s.acc (s.dst.drop pi) PB })
    else (i, s)
  /- PARALLEL_BLOCKS aggregation -/
  let (i, s) :=
    if src_len - i ≥ PB * 16 then
      let (rev_counters, counter) := incr_counters s.counter PB
      let s := { s with dst := s.dst ++ encrypt_xor_wide st (src.drop i) rev_counters, counter := counter }
      let i := i + PB * 16
      let (i, s) := forLoop (fun i => i + PB * 16 ≤ src_len) (PB * 16) (fun i s =>
          let (rev_counters, counter) := incr_counters s.counter PB
          let dst := s.dst ++ encrypt_xor_wide st (src.drop i) rev_counters
          let pi := i - PB * 16
          { dst := dst, acc := gh_agg st s.acc (dst.drop pi) PB, counter := counter }) fuel i s
      let pi := i - PB * 16
      (i, { s with acc := gh_agg st s.acc (s.dst.drop pi) PB })
    else (i, s)
  /- 4-blocks aggregation -/
  let (i, s) := forLoop (fun i => i + 4 * 16 ≤ src_len) (4 * 16) (fun i s =>
      let (rev_counters, counter) := incr_counters s.counter 4
      let dst := (List.range 4).foldl (fun dst j =>
        dst ++ encrypt_xor_block st (src.drop (i + j * 16)) (rev_counters.getD j 0)) s.dst
      { dst := dst, acc := gh_agg st s.acc (dst.drop i) 4, counter := counter }) fuel i s
  /- 2-blocks aggregation -/
  let (i, s) := forLoop (fun i => i + 2 * 16 ≤ src_len) (2 * 16) (fun i s =>
      let (rev_counters, counter) := incr_counters s.counter 2
      let dst := (List.range 2).foldl (fun dst j =>
        dst ++ encrypt_xor_block st (src.drop (i + j * 16)) (rev_counters.getD j 0)) s.dst
      { dst := dst, acc := gh_agg st s.acc (dst.drop i) 2, counter := counter }) fuel i s
  /- Remaining *partial* blocks -/
  let (i, s) := forLoop (fun i => i + 16 < src_len) 16 (fun i s =>
      let dst := s.dst ++ encrypt_xor_block st (src.drop i) (REV128 s.counter)
      { dst := dst, acc := gh_agg st s.acc (dst.drop i) 1, counter := ADD64x2 s.counter one }) fuel i s
  /- Authenticate both the last block of the message and the final block -/
  let fb := final_block ad_len src_len
  let counter_ := counter_.take NPUBBYTES ++ STORE32_BE 1
  let mac := encrypt st counter_
  let left := src_len - i
  let (dst, acc) :=
    if left != 0 then
      -- for (j = 0; j < left; j++) last_blocks[j] = src[i + j];   STORE128(last_blocks + 16, final_block);
      let last_blocks := (src.drop i).take left ++ (stack.take 16).drop left ++ STORE128 fb
      -- encrypt_xor_block(st, last_blocks, last_blocks, REV128(counter));
      let last_blocks := encrypt_xor_block st last_blocks (REV128 s.counter) ++ last_blocks.drop 16
      -- for (; j < 16; j++) last_blocks[j] = 0;
      let last_blocks := last_blocks.take left ++ zeros (16 - left) ++ last_blocks.drop 16
      -- for (j = 0; j < left; j++) dst[i + j] = last_blocks[j];
      (s.dst ++ last_blocks.take left, gh_ad_blocks st s.acc last_blocks 32)
    else
      (s.dst, gh_ad_blocks st s.acc (STORE128 fb) 16)
  (dst, STORE128 (XOR128 (LOAD128 mac) (REV128 acc)))

/-- `aes_gcm_decrypt_generic(st, sth, mac, dst, src, src_len, ad, ad_len, counter_)`: `(dst, mac)` -/
def aes_gcm_decrypt_generic (st : State) (acc0 : BlockVec) (src ad counter_ : Bytes) : Bytes × Bytes :=
  let src_len := src.length
  let ad_len := ad.length
  let PB := PARALLEL_BLOCKS
  let one := ONE128
  let fuel := src_len + 1
  let acc := absorb_ad st acc0 ad
  let counter := REV128 (LOAD128 counter_)
  let s : Loop := { dst := [], acc := acc, counter := counter }
  /- 2*PARALLEL_BLOCKS aggregation: `while (i + 2 * PARALLEL_BLOCKS * 16 <= src_len)` -/
  let (i, s) := forLoop (fun i => i + 2 * PB * 16 ≤ src_len) (2 * PB * 16) (fun i s =>
      let (rev_counters, counter) := incr_counters s.counter PB
      let u := gh_update0 s.acc (src.drop i) (st.hx.getD (2 * PB - 1 - 0) 0)
      let u := (List.range' 1 (PB - 1)).foldl
        (fun u j => gh_update u (src.drop (i + j * 16)) (st.hx.getD (2 * PB - 1 - j) 0)) u
      let dst := s.dst ++ encrypt_xor_wide st (src.drop i) rev_counters
      let (rev_counters, counter) := incr_counters counter PB
      let i := i + PB * 16
      let u := (List.range PB).foldl
        (fun u j => gh_update u (src.drop (i + j * 16)) (st.hx.getD (PB - 1 - j) 0)) u
      let acc := gcm_reduce u
      let dst := dst ++ encrypt_xor_wide st (src.drop i) rev_counters
      { dst := dst, acc := acc, counter := counter }) fuel 0 s
  /- PARALLEL_BLOCKS aggregation -/
  let (i, s) := forLoop (fun i => i + PB * 16 ≤ src_len) (PB * 16) (fun i s =>
      let (rev_counters, counter) := incr_counters s.counter PB
      let acc := gh_agg st s.acc (src.drop i) PB
      { dst := s.dst ++ encrypt_xor_wide st (src.drop i) rev_counters, acc := acc, counter := counter }) fuel i s
  /- 4-blocks aggregation -/
  let (i, s) := forLoop (fun i => i + 4 * 16 ≤ src_len) (4 * 16) (fun i s =>
      let (rev_counters, counter) := incr_counters s.counter 4
      let acc := gh_agg st s.acc (src.drop i) 4
      let dst := (List.range 4).foldl (fun dst j =>
        dst ++ encrypt_xor_block st (src.drop (i + j * 16)) (rev_counters.getD j 0)) s.dst
      { dst := dst, acc := acc, counter := counter }) fuel i s
  /- 2-blocks aggregation -/
  let (i, s) := forLoop (fun i => i + 2 * 16 ≤ src_len) (2 * 16) (fun i s =>
      let (rev_counters, counter) := incr_counters s.counter 2
      let acc := gh_agg st s.acc (src.drop i) 2
      let dst := (List.range 2).foldl (fun dst j =>
        dst ++ encrypt_xor_block st (src.drop (i + j * 16)) (rev_counters.getD j 0)) s.dst
      { dst := dst, acc := acc, counter := counter }) fuel i s
  /- Remaining *partial* blocks -/
  let (i, s) := forLoop (fun i => i + 16 < src_len) 16 (fun i s =>
      let acc := gh_agg st s.acc (src.drop i) 1
      let dst := s.dst ++ encrypt_xor_block st (src.drop i) (REV128 s.counter)
      { dst := dst, acc := acc, counter := ADD64x2 s.counter one }) fuel i s
  let fb := final_block ad_len src_len
  let counter_ := counter_.take NPUBBYTES ++ STORE32_BE 1
  let mac := encrypt st counter_
  let left := src_len - i
  let (dst, acc) :=
    if left != 0 then
      -- last_blocks[0..left) = src[i..]; last_blocks[left..16) = 0; STORE128(last_blocks + 16, final_block);
      let last_blocks := (src.drop i).take left ++ zeros (16 - left) ++ STORE128 fb
      let acc := gh_ad_blocks st s.acc last_blocks 32
      let last_blocks := encrypt_xor_block st last_blocks (REV128 s.counter) ++ last_blocks.drop 16
      (s.dst ++ last_blocks.take left, acc)
    else
      (s.dst, gh_ad_blocks st s.acc (STORE128 fb) 16)
  (dst, STORE128 (XOR128 (LOAD128 mac) (REV128 acc)))

/-! ## Part 4: the API -/

/-- `crypto_aead_aes256gcm_beforenm(st_, k)` (`hx_init`: the indeterminate initial content of `st->hx`) -/
def crypto_aead_aes256gcm_beforenm (k : Bytes) (hx_init : List Precomp := List.replicate PC_COUNT 0) : State :=
  let rkeys := expand256 k
  let st : State := { rkeys := rkeys, hx := hx_init }
  let h := zeros 16
  let h := encrypt st h
  { st with hx := precomp_for_block_count st.hx h PC_COUNT }

def SODIUM_SIZE_MAX : Nat := 2 ^ 64 - 1

inductive EncResult where
  | misuse
  /-- return value, bytes written to `c`, bytes written to `mac` -/
  | done (ret : Int32) (c mac : Bytes)
  deriving DecidableEq, Repr

/-- `crypto_aead_aes256gcm_encrypt_detached_afternm` (`nsec` unused; `maclen_p` = `ABYTES` iff `ret = 0`) -/
def crypto_aead_aes256gcm_encrypt_detached_afternm (st : State) (m ad npub : Bytes)
    (stack : Bytes := zeros 32) : EncResult :=
  let m_len := m.length
  let ad_len := ad.length
  if ad_len > SODIUM_SIZE_MAX ∨ m_len > SODIUM_SIZE_MAX then .misuse else
  let gh_required_blocks := required_blocks (UInt64.ofNat ad_len) (UInt64.ofNat m_len)
  if gh_required_blocks == 0 then
    .done (-1) (zeros m_len) (List.replicate ABYTES 0xd0)     -- memset(mac, 0xd0, ABYTES); memset(c, 0, m_len);
  else
    let sth := gh_init
    let j := npub.take NPUBBYTES ++ STORE32_BE 2
    let (c, mac) := aes_gcm_encrypt_generic st sth m ad j stack
    .done 0 c mac

/-- `crypto_aead_aes256gcm_encrypt_detached` -/
def crypto_aead_aes256gcm_encrypt_detached (m ad npub k : Bytes) : EncResult :=
  crypto_aead_aes256gcm_encrypt_detached_afternm (crypto_aead_aes256gcm_beforenm k) m ad npub

/-- combined mode: `(ret, c ‖ mac, *clen_p)`; `crypto_aead_aes256gcm_encrypt` sets `*clen_p = 0` on failure,
    `crypto_aead_aes256gcm_encrypt_afternm` sets `*clen_p = mlen + ABYTES` unconditionally -/
def crypto_aead_aes256gcm_encrypt (m ad npub k : Bytes) : Option (Int32 × Bytes × Nat) :=
  match crypto_aead_aes256gcm_encrypt_detached m ad npub k with
  | .misuse => none
  | .done ret c mac => some (ret, c ++ mac, if ret = 0 then m.length + ABYTES else 0)

def crypto_aead_aes256gcm_encrypt_afternm (st : State) (m ad npub : Bytes) : Option (Int32 × Bytes × Nat) :=
  match crypto_aead_aes256gcm_encrypt_detached_afternm st m ad npub with
  | .misuse => none
  | .done ret c mac => some (ret, c ++ mac, m.length + ABYTES)

/-- `crypto_verify_16(x, y)`: 0 iff equal, else -1 -/
def crypto_verify_16 (x y : Bytes) : Int32 := if x.take 16 = y.take 16 then 0 else -1

/-- `crypto_aead_aes256gcm_verify_mac` (the `m == NULL` path of decrypt_detached_afternm) -/
def crypto_aead_aes256gcm_verify_mac (st : State) (c mac ad npub : Bytes) : Option Int32 :=
  let c_len := c.length
  let ad_len := ad.length
  if ad_len > SODIUM_SIZE_MAX ∨ c_len > SODIUM_SIZE_MAX then none else
  if required_blocks (UInt64.ofNat ad_len) (UInt64.ofNat c_len) == 0 then some (-1) else
  let sth := gh_init
  let j := npub.take NPUBBYTES ++ STORE32_BE 2
  let sth := gh_ad_blocks st sth ad (ad_len &&& (2 ^ 64 - 16))
  let left := ad_len &&& 15
  let sth := if left != 0 then
      gh_ad_blocks st sth ((ad.drop (ad_len - left)).take left ++ zeros (16 - left)) 16 else sth
  let sth := gh_ad_blocks st sth c (c_len &&& (2 ^ 64 - 16))
  let left := c_len &&& 15
  let sth := if left != 0 then
      gh_ad_blocks st sth ((c.drop (c_len - left)).take left ++ zeros (16 - left)) 16 else sth
  let fb := final_block ad_len c_len
  let j := j.take NPUBBYTES ++ STORE32_BE 1
  let computed_mac := encrypt st j
  let sth := gh_ad_blocks st sth (STORE128 fb) 16
  let computed_mac := STORE128 (XOR128 (LOAD128 computed_mac) (REV128 sth))
  some (crypto_verify_16 mac computed_mac)

/-- result of a decryption: `none` = `sodium_misuse()`; otherwise the return value and the content of `m[0..c_len)`
    (`none` when `m == NULL` or `m` is not written) -/
abbrev DecOut := Option (Int32 × Option Bytes)

/-- `crypto_aead_aes256gcm_decrypt_detached_afternm` (`wantM = false`: `m == NULL`).
    On a tag mismatch the C does `memset(m, 0xd0, m_len)`. -/
def crypto_aead_aes256gcm_decrypt_detached_afternm (st : State) (wantM : Bool) (c mac ad npub : Bytes) : DecOut :=
  let c_len := c.length
  let ad_len := ad.length
  if ad_len > SODIUM_SIZE_MAX ∨ c_len > SODIUM_SIZE_MAX then none else
  if !wantM then (crypto_aead_aes256gcm_verify_mac st c mac ad npub).map fun r => (r, none) else
  let m_len := c_len
  if required_blocks (UInt64.ofNat ad_len) (UInt64.ofNat m_len) == 0 then some (-1, none) else
  let sth := gh_init
  let j := npub.take NPUBBYTES ++ STORE32_BE 2
  let (m, computed_mac) := aes_gcm_decrypt_generic st sth c ad j
  if crypto_verify_16 mac computed_mac != 0 then
    some (-1, some (List.replicate m_len 0xd0))                    -- memset(m, 0xd0, m_len);
  else some (0, some m)

/-- `crypto_aead_aes256gcm_decrypt_detached` -/
def crypto_aead_aes256gcm_decrypt_detached (wantM : Bool) (c mac ad npub k : Bytes) : DecOut :=
  crypto_aead_aes256gcm_decrypt_detached_afternm (crypto_aead_aes256gcm_beforenm k) wantM c mac ad npub

/-- `crypto_aead_aes256gcm_decrypt_afternm`: `(ret, m, *mlen_p)`; `clen < ABYTES` gives -1 without touching `m` -/
def crypto_aead_aes256gcm_decrypt_afternm (st : State) (wantM : Bool) (cm ad npub : Bytes) :
    Option (Int32 × Option Bytes × Nat) :=
  let clen := cm.length
  if clen ≥ ABYTES then
    (crypto_aead_aes256gcm_decrypt_detached_afternm st wantM (cm.take (clen - ABYTES)) (cm.drop (clen - ABYTES)) ad npub).map
      fun (ret, m) => (ret, m, if ret = 0 then clen - ABYTES else 0)
  else some (-1, none, 0)

/-- `crypto_aead_aes256gcm_decrypt` -/
def crypto_aead_aes256gcm_decrypt (wantM : Bool) (cm ad npub k : Bytes) : Option (Int32 × Option Bytes × Nat) :=
  crypto_aead_aes256gcm_decrypt_afternm (crypto_aead_aes256gcm_beforenm k) wantM cm ad npub

end Sodium.Model.GcmAesni
