import SodiumModel.Model.Overlap
import SodiumModel.Model.AegisRef
/-
  C13, AEADs at MEMORY level, in STATEMENT ORDER.

  The flat memory `Mem = Nat → UInt8` of `Model/Overlap.lean`; every `const unsigned char *` /
  `unsigned char *` argument is an address; every C statement that loads is a `read` from the memory
  AS IT IS AT THAT STATEMENT, every statement that stores is a `write`.  What the functional models
  (`Model/Aead.lean`, `Model/GcmAesni.lean`, `Model/AegisRef.lean`) cannot see — that with `m == c`
  a store destroys bytes that a LATER statement loads — is visible here.

  Part 1: crypto_aead_chacha20poly1305_{encrypt,decrypt}_detached, the `_ietf_` pair
          (aead_chacha20poly1305.c) and the xchacha20poly1305_ietf pair (aead_xchacha20poly1305.c).
  Part 2: AEGIS-128L / AEGIS-256 `encrypt_detached` / `decrypt_detached` of aegis*_common.h.
  Part 3: AES-256-GCM `encrypt_detached_afternm` / `decrypt_detached_afternm` of aead_aes256gcm_aesni.c.

  Abstractions (stated so that they can be judged):
    * Poly1305 streaming state = (key, bytes absorbed so far); `final` = one-shot MAC of the
      concatenation (`Prims.mac`).  `update(&state, p, len)` absorbs `read mem p len` of the memory
      at the time of the call.
    * `crypto_stream_*_xor_ic(c, m, len, n, ic, k)`: key and nonce are loaded into the cipher context
      first (chacha_keysetup / chacha_ivsetup), then the chunk loop of `Overlap.xorChunks`
      (load a chunk of `m`, XOR, store to `c`, advance) with ANY sequence of chunk sizes `sizes`
      (ref: 64-byte blocks and a tail; SIMD: 512/256/128/64 and a tail; all-ones = byte loop).
    * stack locals (block0, slen, computed_mac, k2, npub2, the padded AEGIS / GCM tail buffers) are
      Lean values: they cannot alias the caller's buffers.  That is why the nonce and the key are
      given as LOADERS `Mem → Bytes`: `fun mem => read mem npub 12` for a caller pointer (evaluated
      at each statement that dereferences it), `fun _ => npub2` for xchacha's stack copies.
    * `maclen_p` / `nsec` are not modelled (a constant store to a separate object / unused).
-/
namespace Sodium.Model.OverlapAead
open Sodium Sodium.Model Sodium.Model.Aead Sodium.Model.Overlap

/-! ## Part 1: ChaCha20-Poly1305 -/

/-- crypto_onetimeauth_poly1305_state, abstractly -/
structure Poly where
  key : Bytes
  data : Bytes

/-- crypto_onetimeauth_poly1305_init(&state, block0): the key is block0[0..32) -/
def Poly.init (block0 : Bytes) : Poly := ⟨block0.take 32, []⟩
/-- crypto_onetimeauth_poly1305_update(&state, p, len) with the bytes found at `p` -/
def Poly.update (s : Poly) (bs : Bytes) : Poly := ⟨s.key, s.data ++ bs⟩
/-- crypto_onetimeauth_poly1305_final(&state, out) -/
def Poly.final (P : Prims) (s : Poly) : Bytes := P.mac s.key s.data

/-- a loader for a pointer argument that is dereferenced by several statements -/
abbrev Loader := Mem → Bytes

/-- `Overlap.xorChunks` (same loop, same order), returning the final memory inside a pair: compiled code then runs
    the loop ONCE instead of once per byte looked up in the result (`xorLoop_eq`: the two are equal) -/
def xorLoop (mem : Mem) (c m : Nat) (ks : Bytes) : List Nat → Unit × Mem
  | [] => ((), mem)
  | s :: ss => xorLoop (write mem c (xorBytes (read mem m s) (ks.take s))) (c + s) (m + s) (ks.drop s) ss

/-- crypto_aead_chacha20poly1305_encrypt_detached(c, mac, maclen_p, m, mlen, ad, adlen, nsec, npub, k):
    (return value = 0, memory afterwards) -/
def origEncryptDetached (P : Prims) (sizes : List Nat) (ldN ldK : Loader) (mem : Mem)
    (c mac m mlen ad adlen : Nat) : Int32 × Mem :=
  -- crypto_stream_chacha20(block0, sizeof block0, npub, k); poly1305_init(&state, block0)
  let st := Poly.init (P.ks (ldK mem) (ldN mem) 0 64)
  -- poly1305_update(&state, ad, adlen); STORE64_LE(slen, adlen); poly1305_update(&state, slen, 8)
  let st := st.update (read mem ad adlen)
  let st := st.update (toLE 8 adlen)
  -- crypto_stream_chacha20_xor_ic(c, m, mlen, npub, 1U, k)
  let mem1 := (xorLoop mem c m (P.ks (ldK mem) (ldN mem) 1 mlen) sizes).2
  -- poly1305_update(&state, c, mlen): loads `c` AFTER the stores
  let st := st.update (read mem1 c mlen)
  let st := st.update (toLE 8 mlen)
  -- poly1305_final(&state, mac); return 0
  (0, write mem1 mac (st.final P))

/-- crypto_aead_chacha20poly1305_decrypt_detached(m, nsec, c, clen, mac, ad, adlen, npub, k):
    (return value, memory afterwards); `m = 0` is NULL -/
def origDecryptDetached (P : Prims) (sizes : List Nat) (ldN ldK : Loader) (mem : Mem)
    (m c clen mac ad adlen : Nat) : Int32 × Mem :=
  let st := Poly.init (P.ks (ldK mem) (ldN mem) 0 64)
  let st := st.update (read mem ad adlen)
  let st := st.update (toLE 8 adlen)
  -- mlen = clen; poly1305_update(&state, c, mlen): loads `c` BEFORE anything is stored
  let st := st.update (read mem c clen)
  let st := st.update (toLE 8 clen)
  let computed := st.final P
  -- ret = crypto_verify_16(computed_mac, mac)
  let ret := Sodium.Model.verify_n_sse2 1 computed (read mem mac 16)
  -- if (m == NULL) return ret;
  if m = 0 then (ret, mem)
  -- if (ret != 0) { memset(m, 0, mlen); return -1; }
  else if ret ≠ 0 then (-1, memset mem m 0 clen)
  -- crypto_stream_chacha20_xor_ic(m, c, mlen, npub, 1U, k); return 0
  else (0, (xorLoop mem m c (P.ks (ldK mem) (ldN mem) 1 clen) sizes).2)

/-- crypto_aead_chacha20poly1305_ietf_encrypt_detached, and (textually identical up to the stream
    function) `_encrypt_detached` of aead_xchacha20poly1305.c -/
def ietfEncryptDetached (P : Prims) (sizes : List Nat) (ldN ldK : Loader) (mem : Mem)
    (c mac m mlen ad adlen : Nat) : Int32 × Mem :=
  let st := Poly.init (P.ks (ldK mem) (ldN mem) 0 64)
  -- poly1305_update(&state, ad, adlen); poly1305_update(&state, _pad0, (0x10 - adlen) & 0xf)
  let st := st.update (read mem ad adlen)
  let st := st.update (zeros (pad16len adlen))
  -- crypto_stream_chacha20_ietf_xor_ic(c, m, mlen, npub, 1U, k)
  let mem1 := (xorLoop mem c m (P.ks (ldK mem) (ldN mem) 1 mlen) sizes).2
  -- poly1305_update(&state, c, mlen); poly1305_update(&state, _pad0, (0x10 - mlen) & 0xf)
  let st := st.update (read mem1 c mlen)
  let st := st.update (zeros (pad16len mlen))
  -- STORE64_LE(slen, adlen); update; STORE64_LE(slen, mlen); update
  let st := st.update (toLE 8 adlen)
  let st := st.update (toLE 8 mlen)
  (0, write mem1 mac (st.final P))

/-- crypto_aead_chacha20poly1305_ietf_decrypt_detached, and `_decrypt_detached` of aead_xchacha20poly1305.c -/
def ietfDecryptDetached (P : Prims) (sizes : List Nat) (ldN ldK : Loader) (mem : Mem)
    (m c clen mac ad adlen : Nat) : Int32 × Mem :=
  let st := Poly.init (P.ks (ldK mem) (ldN mem) 0 64)
  let st := st.update (read mem ad adlen)
  let st := st.update (zeros (pad16len adlen))
  let st := st.update (read mem c clen)
  let st := st.update (zeros (pad16len clen))
  let st := st.update (toLE 8 adlen)
  let st := st.update (toLE 8 clen)
  let computed := st.final P
  let ret := Sodium.Model.verify_n_sse2 1 computed (read mem mac 16)
  if m = 0 then (ret, mem)
  else if ret ≠ 0 then (-1, memset mem m 0 clen)
  else (0, (xorLoop mem m c (P.ks (ldK mem) (ldN mem) 1 clen) sizes).2)

/-- the two flavours under one name (for the theorems) -/
def encryptDetachedMem (P : Prims) (f : Flavor) := match f with
  | .orig => origEncryptDetached P
  | .ietf => ietfEncryptDetached P
def decryptDetachedMem (P : Prims) (f : Flavor) := match f with
  | .orig => origDecryptDetached P
  | .ietf => ietfDecryptDetached P

/-- a caller pointer: dereferenced where the statement stands -/
def ptr (a len : Nat) : Loader := fun mem => read mem a len
/-- a stack local: a value -/
def loc (b : Bytes) : Loader := fun _ => b

/-- crypto_aead_xchacha20poly1305_ietf_encrypt_detached: crypto_core_hchacha20(k2, npub, k, NULL);
    npub2 = {0}; memcpy(npub2 + 4, npub + 16, 8); _encrypt_detached(..., npub2, k2) -/
def xEncryptDetachedMem (P : Prims) (sizes : List Nat) (mem : Mem) (c mac m mlen ad adlen npub k : Nat) : Int32 × Mem :=
  let k2 := P.hcore (read mem npub 16) (read mem k 32)
  let npub2 := zeros 4 ++ read mem (npub + 16) 8
  ietfEncryptDetached P sizes (loc npub2) (loc k2) mem c mac m mlen ad adlen

/-- crypto_aead_xchacha20poly1305_ietf_decrypt_detached -/
def xDecryptDetachedMem (P : Prims) (sizes : List Nat) (mem : Mem) (m c clen mac ad adlen npub k : Nat) : Int32 × Mem :=
  let k2 := P.hcore (read mem npub 16) (read mem k 32)
  let npub2 := zeros 4 ++ read mem (npub + 16) 8
  ietfDecryptDetached P sizes (loc npub2) (loc k2) mem m c clen mac ad adlen

/-- chunk sizes of the reference stream code: 64-byte blocks, then the tail -/
def blocks64 (len : Nat) : List Nat :=
  List.replicate (len / 64) 64 ++ (if len % 64 = 0 then [] else [len % 64])

/-! ### negative control: the seeded change C13-6, transcribed

  `/verif/seeded/C13-6/patch.diff`: for `m != NULL && mlen <= 64` the keystream block 1 is produced
  together with block 0 and XORed into `m` byte by byte BEFORE Poly1305 runs over `c`. -/
def ietfDecryptDetachedSeeded (P : Prims) (sizes : List Nat) (ldN ldK : Loader) (mem : Mem)
    (m c clen mac ad adlen : Nat) : Int32 × Mem :=
  let early := decide (m ≠ 0) && decide (clen ≤ 64)
  -- crypto_stream_chacha20_ietf(block0, 128U or 64U, npub, k)
  let block0 := P.ks (ldK mem) (ldN mem) 0 (if early then 128 else 64)
  -- for (i = 0; i < mlen; i++) m[i] = c[i] ^ block0[64 + i];
  let mem0 := if early then xorChunks mem m c (block0.drop 64) (List.replicate clen 1) else mem
  let st := Poly.init block0
  let st := st.update (read mem0 ad adlen)
  let st := st.update (zeros (pad16len adlen))
  let st := st.update (read mem0 c clen)
  let st := st.update (zeros (pad16len clen))
  let st := st.update (toLE 8 adlen)
  let st := st.update (toLE 8 clen)
  let computed := st.final P
  let ret := Sodium.Model.verify_n_sse2 1 computed (read mem0 mac 16)
  if m = 0 then (ret, mem0)
  else if ret ≠ 0 then (-1, memset mem0 m 0 clen)
  else if clen > 64 then (0, xorChunks mem0 m c (P.ks (ldK mem0) (ldN mem0) 1 clen) sizes)
  else (0, mem0)

/-! ## Part 2: AEGIS-128L / AEGIS-256, `encrypt_detached` / `decrypt_detached` of aegis*_common.h

  Generic over the `AegisRef.Variant` (RATE, init, absorb, enc, dec, declast, mac: the static functions of the
  file).  As in `Model/AegisRef.lean` a block function receives a VIEW of its source pointer (`src + i`: the
  bytes from there to the end of the source region, as they are in memory AT THAT ITERATION) and LOADs
  16-byte blocks at offsets 0 / 16 from it; what it returns is stored at `dst + i` before the next iteration
  loads.  The associated-data loops only load, and run before the first store: they are the value-level
  `AegisRef.absorbAd` on the AD bytes found on entry.  `src` / `dst` / `pad` / `computed_mac` are stack
  arrays (values). -/
section Aegis
variable {τ : Type} (V : AegisRef.Variant τ)

/-- `for (; i + RATE <= len; i += RATE) fn(dst + i, src + i, state);`  (`store = false`: the `m == NULL`
    branch, where `dst` is the scratch block on the stack).  `fuel` makes the recursion structural. -/
def blockLoop (fn : Bytes → τ → Bytes × τ) (store : Bool) (dst src len : Nat) : Nat → Nat → Mem → τ → Nat × Mem × τ
  | 0, i, mem, st => (i, mem, st)
  | fuel + 1, i, mem, st =>
    if i + V.RATE ≤ len then
      -- msg = LOAD(src + i …)  …  STORE(dst + i, …)
      let r := fn (read mem (src + i) (len - i)) st
      blockLoop fn store dst src len fuel (i + V.RATE) (if store then write mem (dst + i) r.1 else mem) r.2
    else (i, mem, st)

/-- encrypt_detached(c, mac, maclen, m, mlen, ad, adlen, npub, k): (return value, memory afterwards);
    `klen` / `nlen` = the key / nonce sizes of the algorithm (16/16 or 32/32) -/
def aegisEncryptDetached (klen nlen : Nat) (mem : Mem) (c mac maclen m mlen ad adlen npub k : Nat) : Int32 × Mem :=
  let state := V.init (read mem k klen) (read mem npub nlen)
  let state := AegisRef.absorbAd V (read mem ad adlen) state
  -- for (i = 0; i + RATE <= mlen; i += RATE) enc(c + i, m + i, state);
  let l := blockLoop V V.enc true c m mlen mlen 0 mem state
  let i := l.1
  let mem1 := l.2.1
  let state := l.2.2
  -- if (mlen % RATE) { memset(src, 0, RATE); memcpy(src, m + i, mlen % RATE); enc(dst, src, state); memcpy(c + i, dst, mlen % RATE); }
  let t : Mem × τ :=
    if mlen % V.RATE ≠ 0 then
      let src := AegisRef.memcpy (zeros V.RATE) (read mem1 (m + i) (mlen - i)) (mlen % V.RATE)
      let r := V.enc src state
      (write mem1 (c + i) (r.1.take (mlen % V.RATE)), r.2)
    else (mem1, state)
  -- return mac(mac, maclen, adlen, mlen, state)
  let r := V.mac maclen (UInt64.ofNat adlen) (UInt64.ofNat mlen) t.2
  (r.1, write t.1 mac r.2)

/-- decrypt_detached(m, c, clen, mac, maclen, ad, adlen, npub, k): (return value, memory afterwards); `m = 0` is NULL.
    NOTE the order: the tag at `mac` is loaded by crypto_verify AFTER all the plaintext stores. -/
def aegisDecryptDetached (klen nlen : Nat) (mem : Mem) (m c clen mac maclen ad adlen npub k : Nat) : Int32 × Mem :=
  let state := V.init (read mem k klen) (read mem npub nlen)
  let state := AegisRef.absorbAd V (read mem ad adlen) state
  -- if (m != NULL) for (…) dec(m + i, c + i, state); else for (…) dec(dst, c + i, state);
  let l := blockLoop V V.dec (decide (m ≠ 0)) m c clen clen 0 mem state
  let i := l.1
  let mem1 := l.2.1
  let state := l.2.2
  -- if (mlen % RATE) declast(m + i or dst, c + i, mlen % RATE, state): memcpy(pad, src, len) … memcpy(dst, pad, len)
  let t : Mem × τ :=
    if clen % V.RATE ≠ 0 then
      let r := V.declast (read mem1 (c + i) (clen - i)) (clen % V.RATE) state
      (if m ≠ 0 then write mem1 (m + i) r.1 else mem1, r.2)
    else (mem1, state)
  let mem2 := t.1
  let r := V.mac maclen (UInt64.ofNat adlen) (UInt64.ofNat clen) t.2
  let ret : Int32 :=
    if r.1 = 0 then
      if maclen = 16 then Sodium.Model.verify_n_sse2 1 r.2 (read mem2 mac maclen)
      else if maclen = 32 then Sodium.Model.verify_n_sse2 2 r.2 (read mem2 mac maclen)
      else -1
    else -1
  -- if (ret != 0 && m != NULL) memset(m, 0, mlen);
  if ret ≠ 0 ∧ m ≠ 0 then (ret, memset mem2 m 0 clen) else (ret, mem2)

end Aegis

/-! ## Part 3: AES-256-GCM, `aes_gcm_encrypt_generic` / `aes_gcm_decrypt_generic` of aead_aes256gcm_aesni.c

  What matters for aliasing is WHICH bytes are loaded before WHICH stores.  Each loop body is transcribed as
  a list of memory operations in statement order:
    `xor off len`  encrypt_xor_wide / encrypt_xor_block: LOAD `len` bytes at `src + off` (all of them: the
                   wide form loads its 7 blocks into registers before the first STORE), XOR with the
                   keystream bytes `[off, off + len)`, STORE at `dst + off`;
    `gh off len`   gh_update0 / gh_update over `len` bytes LOADed at `hp + off`, where `hp = dst` in the
                   encrypt function (it hashes the ciphertext it has just stored) and `hp = src` in the
                   decrypt function (it hashes the ciphertext it is about to overwrite when `m == c`).
  GHASH is abstracted to the byte sequence it absorbs (the aggregated 7 / 14-block evaluation with the
  precomputed powers of H is a function of that sequence: `Properties/C01Gcm.lean`); the keystream `ks`
  (AES-CTR from counter 2 under the expanded key) is a value: it depends on the key and the nonce only,
  which live in `st` / `counter_`, not in the caller's message buffers.  PARALLEL_BLOCKS = 7. -/

inductive GOp where
  | xor (off len : Nat)
  | gh (off len : Nat)
  deriving DecidableEq, Repr

/-- run a list of operations: (memory, bytes absorbed by GHASH so far) -/
def gRun (ks : Bytes) (dst src hp : Nat) : List GOp → Mem × Bytes → Mem × Bytes
  | [], s => s
  | .xor off len :: r, s =>
    gRun ks dst src hp r (write s.1 (dst + off) (xorBytes (read s.1 (src + off) len) ((ks.drop off).take len)), s.2)
  | .gh off len :: r, s => gRun ks dst src hp r (s.1, s.2 ++ read s.1 (hp + off) len)

/-- `for (; cond(i); i += step) body(i)`: final `i` and the operations, in order (`fuel`: structural recursion) -/
def whileOps (cond : Nat → Bool) (step : Nat) (body : Nat → List GOp) : Nat → Nat → Nat × List GOp
  | 0, i => (i, [])
  | fuel + 1, i =>
    if cond i then ((whileOps cond step body fuel (i + step)).1, body i ++ (whileOps cond step body fuel (i + step)).2)
    else (i, [])

/-- the loops of aes_gcm_encrypt_generic up to "Authenticate both the last block …": final `i`, operations -/
def encBulk (n : Nat) : Nat × List GOp :=
  -- 2*PARALLEL_BLOCKS aggregation: prologue, pipelined loop (the GHASH of a batch runs after the NEXT batch is encrypted), epilogue
  let a : Nat × List GOp :=
    if n ≥ 224 then
      let l := whileOps (fun i => i + 224 ≤ n) 224
        (fun i => [.xor i 112, .gh (i - 112) 112, .xor (i + 112) 112, .gh i 112]) n 112
      (l.1, [GOp.xor 0 112] ++ l.2 ++ [GOp.gh (l.1 - 112) 112])
    else (0, [])
  -- PARALLEL_BLOCKS aggregation
  let b : Nat × List GOp :=
    if n - a.1 ≥ 112 then
      let l := whileOps (fun i => i + 112 ≤ n) 112 (fun i => [.xor i 112, .gh (i - 112) 112]) n (a.1 + 112)
      (l.1, a.2 ++ [GOp.xor a.1 112] ++ l.2 ++ [GOp.gh (l.1 - 112) 112])
    else a
  -- 4-blocks, 2-blocks aggregation, remaining full blocks (`i + 16 < src_len`)
  let c := whileOps (fun i => i + 64 ≤ n) 64
    (fun i => [.xor i 16, .xor (i + 16) 16, .xor (i + 32) 16, .xor (i + 48) 16, .gh i 64]) n b.1
  let d := whileOps (fun i => i + 32 ≤ n) 32 (fun i => [.xor i 16, .xor (i + 16) 16, .gh i 32]) n c.1
  let e := whileOps (fun i => i + 16 < n) 16 (fun i => [.xor i 16, .gh i 16]) n d.1
  (e.1, b.2 ++ c.2 ++ d.2 ++ e.2)

/-- the loops of aes_gcm_decrypt_generic: GHASH over `src` FIRST, then the XOR-store over the same bytes -/
def decBulk (n : Nat) : Nat × List GOp :=
  let a := whileOps (fun i => i + 224 ≤ n) 224
    (fun i => [.gh i 112, .xor i 112, .gh (i + 112) 112, .xor (i + 112) 112]) n 0
  let b := whileOps (fun i => i + 112 ≤ n) 112 (fun i => [.gh i 112, .xor i 112]) n a.1
  let c := whileOps (fun i => i + 64 ≤ n) 64
    (fun i => [.gh i 64, .xor i 16, .xor (i + 16) 16, .xor (i + 32) 16, .xor (i + 48) 16]) n b.1
  let d := whileOps (fun i => i + 32 ≤ n) 32 (fun i => [.gh i 32, .xor i 16, .xor (i + 16) 16]) n c.1
  let e := whileOps (fun i => i + 16 < n) 16 (fun i => [.gh i 16, .xor i 16]) n d.1
  (e.1, a.2 ++ b.2 ++ c.2 ++ d.2 ++ e.2)

/-- message part of aes_gcm_encrypt_generic(st, sth, mac, dst, src, src_len, …): (memory afterwards, bytes absorbed
    by GHASH for the message).  The last `left` bytes go through the stack buffer `last_blocks`:
    copied in, XORed, zero-padded, copied out to `dst + i`, and hashed FROM THE STACK. -/
def gcmEncryptMem (ks : Bytes) (mem : Mem) (dst src n : Nat) : Mem × Bytes :=
  let r := gRun ks dst src dst (encBulk n).2 (mem, [])
  let i := (encBulk n).1
  let left := n - i
  if left ≠ 0 then
    let lb := xorBytes (read r.1 (src + i) left) ((ks.drop i).take left)
    (write r.1 (dst + i) lb, r.2 ++ lb ++ zeros (16 - left))
  else r

/-- message part of aes_gcm_decrypt_generic: the tail is copied to `last_blocks`, padded, hashed, then XORed and
    copied out -/
def gcmDecryptMem (ks : Bytes) (mem : Mem) (dst src n : Nat) : Mem × Bytes :=
  let r := gRun ks dst src src (decBulk n).2 (mem, [])
  let i := (decBulk n).1
  let left := n - i
  if left ≠ 0 then
    let lb := read r.1 (src + i) left
    (write r.1 (dst + i) (xorBytes lb ((ks.drop i).take left)), r.2 ++ lb ++ zeros (16 - left))
  else r

/-- schedule check, encrypt: state (x, g) = "bytes [0, x) stored, bytes [0, g) hashed"; every XOR continues at `x`
    and stays inside the message, every GHASH continues at `g` and reads only bytes ALREADY STORED -/
def encCheck (n : Nat) : List GOp → Nat × Nat → Option (Nat × Nat)
  | [], s => some s
  | .xor off len :: r, s => if off = s.1 ∧ s.1 + len ≤ n then encCheck n r (s.1 + len, s.2) else none
  | .gh off len :: r, s => if off = s.2 ∧ s.2 + len ≤ s.1 then encCheck n r (s.1, s.2 + len) else none

/-- schedule check, decrypt: every GHASH continues at `g`, stays inside the message and reads only bytes NOT YET
    OVERWRITTEN (`x ≤ g`) -/
def decCheck (n : Nat) : List GOp → Nat × Nat → Option (Nat × Nat)
  | [], s => some s
  | .xor off len :: r, s => if off = s.1 ∧ s.1 + len ≤ n then decCheck n r (s.1 + len, s.2) else none
  | .gh off len :: r, s => if off = s.2 ∧ s.1 ≤ s.2 ∧ s.2 + len ≤ n then decCheck n r (s.1, s.2 + len) else none

end Sodium.Model.OverlapAead
