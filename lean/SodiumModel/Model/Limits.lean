import SodiumModel.Basic
import SodiumModel.Spec.Base64
/-
  C12 — the documented size limits of the public API (include/sodium/*.h on a 64-bit target) as Lean
  definitions, and for each API whose implementation checks a limit the observable it must produce for
  a size argument below / inside / above the admissible range:

    "misuse"                 the misuse handler is called (sodium_misuse)
    "rc=-1"                  error return
    "rc=-1 errno=E…"         error return with the documented errno
    "null errno=ENOMEM"      allocation refused
    `inside` ("rc=0", "ok")  the argument is admissible

  The table is the single source of the expected answers of `mem.limit <api> <arg>` (Driver/C12.lean)
  and of the probe arguments tools/props/c12.py generates.
-/
namespace Sodium.Model.Limits

/-! ### limits from the headers -/

def SIZE_MAX : Nat := 2 ^ 64 - 1                           -- SODIUM_SIZE_MAX = min(UINT64_MAX, SIZE_MAX)

def crypto_secretbox_MACBYTES : Nat := 16
def crypto_stream_xsalsa20_MESSAGEBYTES_MAX : Nat := SIZE_MAX
def crypto_stream_xchacha20_MESSAGEBYTES_MAX : Nat := SIZE_MAX
def crypto_secretbox_MESSAGEBYTES_MAX : Nat := crypto_stream_xsalsa20_MESSAGEBYTES_MAX - crypto_secretbox_MACBYTES
def crypto_secretbox_xchacha20poly1305_MESSAGEBYTES_MAX : Nat := crypto_stream_xchacha20_MESSAGEBYTES_MAX - 16
def crypto_box_MACBYTES : Nat := 16
def crypto_box_SEALBYTES : Nat := 32 + crypto_box_MACBYTES
def crypto_box_MESSAGEBYTES_MAX : Nat := crypto_stream_xsalsa20_MESSAGEBYTES_MAX - crypto_box_MACBYTES
def crypto_box_curve25519xchacha20poly1305_MESSAGEBYTES_MAX : Nat := crypto_stream_xchacha20_MESSAGEBYTES_MAX - 16

def crypto_aead_chacha20poly1305_ABYTES : Nat := 16
def crypto_aead_chacha20poly1305_MESSAGEBYTES_MAX : Nat := SIZE_MAX - crypto_aead_chacha20poly1305_ABYTES
def crypto_aead_chacha20poly1305_ietf_MESSAGEBYTES_MAX : Nat := min (SIZE_MAX - 16) (64 * (2 ^ 32 - 1))
def crypto_aead_xchacha20poly1305_ietf_MESSAGEBYTES_MAX : Nat := SIZE_MAX - 16
def crypto_aead_aegis128l_ABYTES : Nat := 32
def crypto_aead_aegis128l_MESSAGEBYTES_MAX : Nat := min (SIZE_MAX - crypto_aead_aegis128l_ABYTES) (2 ^ 61 - 1)
def crypto_aead_aegis256_ABYTES : Nat := 32
def crypto_aead_aegis256_MESSAGEBYTES_MAX : Nat := min (SIZE_MAX - crypto_aead_aegis256_ABYTES) (2 ^ 61 - 1)
def crypto_aead_aes256gcm_ABYTES : Nat := 16
def crypto_aead_aes256gcm_MESSAGEBYTES_MAX : Nat := min (SIZE_MAX - crypto_aead_aes256gcm_ABYTES) (16 * (2 ^ 32 - 2))

def crypto_secretstream_xchacha20poly1305_ABYTES : Nat := 1 + 16
def crypto_secretstream_xchacha20poly1305_MESSAGEBYTES_MAX : Nat := min (SIZE_MAX - 17) (64 * (2 ^ 32 - 2))

def crypto_stream_chacha20_ietf_MESSAGEBYTES_MAX : Nat := min SIZE_MAX (64 * 2 ^ 32)
/-- largest length `crypto_stream_chacha20_ietf_xor_ic` accepts with initial block counter `ic` -/
def ietfMax (ic : Nat) : Nat := 64 * (2 ^ 32 - ic)

def crypto_sign_BYTES : Nat := 64
def crypto_generichash_BYTES_MAX : Nat := 64
def crypto_generichash_KEYBYTES_MAX : Nat := 64
def crypto_kdf_BYTES_MIN : Nat := 16
def crypto_kdf_BYTES_MAX : Nat := 64
def crypto_kdf_hkdf_sha256_BYTES_MAX : Nat := 0xff * 32
def crypto_kdf_hkdf_sha512_BYTES_MAX : Nat := 0xff * 64

def crypto_pwhash_argon2id_BYTES_MIN : Nat := 16
def crypto_pwhash_argon2id_BYTES_MAX : Nat := min SIZE_MAX 4294967295
def crypto_pwhash_argon2id_PASSWD_MAX : Nat := 4294967295
def crypto_pwhash_argon2id_OPSLIMIT_MIN : Nat := 1
def crypto_pwhash_argon2id_OPSLIMIT_MAX : Nat := 4294967295
def crypto_pwhash_argon2id_MEMLIMIT_MIN : Nat := 8192
def crypto_pwhash_argon2id_MEMLIMIT_MAX : Nat := 4398046510080
def crypto_pwhash_argon2i_OPSLIMIT_MIN : Nat := 3
def crypto_pwhash_scryptsalsa208sha256_BYTES_MIN : Nat := 16
def crypto_pwhash_scryptsalsa208sha256_BYTES_MAX : Nat := min SIZE_MAX 0x1fffffffe0

def randombytes_deterministic_MAX : Nat := 0x4000000000     -- 2^38, randombytes.c

/-- `sodium_base64_ENCODED_LEN(n, variant)` (text and terminator); variants 1, 3, 5, 7 -/
def b64EncodedLen (variant n : Nat) : Nat := Spec.Base64.encodedLen (variant / 2 % 2 == 0) n + 1

/-- padded length `sodium_pad` computes -/
def padded (n bs : Nat) : Nat := n + bs - n % bs

/-! ### the table -/

structure Limit where
  lo : Nat := 0                     -- smallest admissible argument
  hi : Nat := SIZE_MAX              -- largest admissible argument
  below : String := "rc=-1"         -- observable for arg < lo
  above : String := "misuse"        -- observable for arg > hi
  inside : String := "rc=0"         -- observable for lo ≤ arg ≤ hi (on the probe arguments)
  probes : List Nat := []           -- admissible arguments that can be executed with small buffers
  argMax : Nat := SIZE_MAX          -- largest representable argument
  huge : Bool := false              -- the refusal above `hi` happens after the output buffer was cleared: needs a contract-sized buffer
  deriving Repr

def msgMax (hi : Nat) : Limit := { hi := hi, probes := [0, 1, 100] }
def minLen (lo : Nat) : Limit := { lo := lo, probes := [lo, lo + 1, 100] }
def pwErr (e : String) : String := "rc=-1 errno=" ++ e

def pwhashEntries (name : String) (opsMin : Nat) (withOut : Bool) : List (String × Limit) :=
  (if withOut then
    [(name ++ ".outlen", { lo := crypto_pwhash_argon2id_BYTES_MIN, hi := crypto_pwhash_argon2id_BYTES_MAX, below := pwErr "EINVAL", above := pwErr "EFBIG", probes := [16, 17, 64], huge := true })]
   else []) ++
  [(name ++ ".passwdlen", { hi := crypto_pwhash_argon2id_PASSWD_MAX, above := pwErr "EFBIG", probes := [0, 1, 8, 100] }),
   (name ++ ".opslimit", { lo := opsMin, hi := crypto_pwhash_argon2id_OPSLIMIT_MAX, below := pwErr "EINVAL", above := pwErr "EFBIG", probes := [opsMin, opsMin + 1] }),
   (name ++ ".memlimit", { lo := crypto_pwhash_argon2id_MEMLIMIT_MIN, hi := crypto_pwhash_argon2id_MEMLIMIT_MAX, below := pwErr "EINVAL", above := pwErr "EFBIG", probes := [8192, 8193, 16384, 65536] })]

def hexEntries : List (String × Limit) :=
  [0, 1, 8, 33].map fun n => (s!"sodium_bin2hex:{n}", { lo := 2 * n + 1, below := "misuse", probes := [2 * n + 1, 2 * n + 2, 2 * n + 40] })

def b64Entries : List (String × Limit) :=
  [1, 3, 5, 7].flatMap fun v => [0, 1, 2, 3, 8, 33].map fun n =>
    (s!"sodium_bin2base64:{v}:{n}", { lo := b64EncodedLen v n, below := "misuse", probes := [b64EncodedLen v n, b64EncodedLen v n + 1, b64EncodedLen v n + 25] })

def limits : List (String × Limit) := [
  ("crypto_secretbox_easy", msgMax crypto_secretbox_MESSAGEBYTES_MAX),
  ("crypto_secretbox_xchacha20poly1305_easy", msgMax crypto_secretbox_xchacha20poly1305_MESSAGEBYTES_MAX),
  ("crypto_box_easy", msgMax crypto_box_MESSAGEBYTES_MAX),
  ("crypto_box_easy_afternm", msgMax crypto_box_MESSAGEBYTES_MAX),
  ("crypto_box_curve25519xchacha20poly1305_easy", msgMax crypto_box_curve25519xchacha20poly1305_MESSAGEBYTES_MAX),
  ("crypto_box_curve25519xchacha20poly1305_easy_afternm", msgMax crypto_box_curve25519xchacha20poly1305_MESSAGEBYTES_MAX),
  ("crypto_box_seal", msgMax crypto_box_MESSAGEBYTES_MAX),
  ("crypto_aead_chacha20poly1305_encrypt", msgMax crypto_aead_chacha20poly1305_MESSAGEBYTES_MAX),
  ("crypto_aead_chacha20poly1305_ietf_encrypt", msgMax crypto_aead_chacha20poly1305_ietf_MESSAGEBYTES_MAX),
  ("crypto_aead_xchacha20poly1305_ietf_encrypt", msgMax crypto_aead_xchacha20poly1305_ietf_MESSAGEBYTES_MAX),
  ("crypto_aead_aegis128l_encrypt", msgMax crypto_aead_aegis128l_MESSAGEBYTES_MAX),
  ("crypto_aead_aegis128l_encrypt.adlen", { hi := crypto_aead_aegis128l_MESSAGEBYTES_MAX, probes := [0, 5, 64] }),
  ("crypto_aead_aegis256_encrypt", msgMax crypto_aead_aegis256_MESSAGEBYTES_MAX),
  ("crypto_aead_aegis256_encrypt.adlen", { hi := crypto_aead_aegis256_MESSAGEBYTES_MAX, probes := [0, 5, 64] }),
  -- aes256gcm: beyond the limit c[0..mlen) is zero-filled and -1 returned (no misuse)
  ("crypto_aead_aes256gcm_encrypt", { hi := crypto_aead_aes256gcm_MESSAGEBYTES_MAX, above := "rc=-1", probes := [0, 1, 100], huge := true }),
  -- ciphertexts shorter than the tag (and, where the implementation checks it, longer than the maximum)
  ("crypto_aead_chacha20poly1305_decrypt", minLen crypto_aead_chacha20poly1305_ABYTES),
  ("crypto_aead_chacha20poly1305_ietf_decrypt", minLen 16),
  ("crypto_aead_xchacha20poly1305_ietf_decrypt", minLen 16),
  ("crypto_aead_aegis128l_decrypt", { lo := crypto_aead_aegis128l_ABYTES, hi := crypto_aead_aegis128l_MESSAGEBYTES_MAX + crypto_aead_aegis128l_ABYTES, above := "rc=-1", probes := [32, 33, 100] }),
  ("crypto_aead_aegis256_decrypt", { lo := crypto_aead_aegis256_ABYTES, hi := crypto_aead_aegis256_MESSAGEBYTES_MAX + crypto_aead_aegis256_ABYTES, above := "rc=-1", probes := [32, 33, 100] }),
  ("crypto_aead_aes256gcm_decrypt", { lo := crypto_aead_aes256gcm_ABYTES, hi := crypto_aead_aes256gcm_MESSAGEBYTES_MAX + crypto_aead_aes256gcm_ABYTES, above := "rc=-1", probes := [16, 17, 100] }),
  ("crypto_secretbox_open_easy", minLen crypto_secretbox_MACBYTES),
  ("crypto_box_open_easy", minLen crypto_box_MACBYTES),
  ("crypto_box_seal_open", minLen crypto_box_SEALBYTES),
  ("crypto_sign_open", minLen crypto_sign_BYTES),
  ("crypto_secretstream_xchacha20poly1305_push", msgMax crypto_secretstream_xchacha20poly1305_MESSAGEBYTES_MAX),
  ("crypto_secretstream_xchacha20poly1305_pull", { lo := crypto_secretstream_xchacha20poly1305_ABYTES, hi := crypto_secretstream_xchacha20poly1305_MESSAGEBYTES_MAX + crypto_secretstream_xchacha20poly1305_ABYTES, probes := [17, 18, 100] }),
  ("crypto_stream_chacha20_ietf", { hi := crypto_stream_chacha20_ietf_MESSAGEBYTES_MAX, probes := [0, 1, 64, 65, 1000] }),
  ("crypto_stream_chacha20_ietf_xor", { hi := crypto_stream_chacha20_ietf_MESSAGEBYTES_MAX, probes := [0, 1, 64, 65, 1000] }),
  -- argument = mlen, parameter = initial counter
  ("crypto_stream_chacha20_ietf_xor_ic:0", { hi := ietfMax 0, probes := [0, 1, 64, 65, 1000] }),
  ("crypto_stream_chacha20_ietf_xor_ic:1", { hi := ietfMax 1, probes := [0, 1, 64, 65, 1000] }),
  ("crypto_stream_chacha20_ietf_xor_ic:4294967294", { hi := ietfMax 4294967294, probes := [0, 1, 64, 65, 127, 128] }),
  ("crypto_stream_chacha20_ietf_xor_ic:4294967295", { hi := ietfMax 4294967295, probes := [0, 1, 63, 64] }),
  -- argument = initial counter (uint32_t), parameter = mlen
  ("crypto_stream_chacha20_ietf_xor_ic.ic:64", { hi := 2 ^ 32 - 1, argMax := 2 ^ 32 - 1, probes := [0, 1, 2 ^ 32 - 2, 2 ^ 32 - 1] }),
  ("crypto_stream_chacha20_ietf_xor_ic.ic:65", { hi := 2 ^ 32 - 2, argMax := 2 ^ 32 - 1, probes := [0, 1, 2 ^ 32 - 3, 2 ^ 32 - 2] }),
  ("crypto_stream_chacha20_ietf_xor_ic.ic:128", { hi := 2 ^ 32 - 2, argMax := 2 ^ 32 - 1, probes := [0, 1, 2 ^ 32 - 3, 2 ^ 32 - 2] }),
  ("crypto_stream_chacha20_ietf_xor_ic.ic:1000", { hi := 2 ^ 32 - 16, argMax := 2 ^ 32 - 1, probes := [0, 2 ^ 32 - 17, 2 ^ 32 - 16] }),
  -- BLAKE2b: the enforced output range is 1..64 (BYTES_MIN = 16 is a recommendation the code does not check), keys 0..64
  ("crypto_generichash.outlen", { lo := 1, hi := crypto_generichash_BYTES_MAX, above := "rc=-1", probes := [1, 16, 32, 64] }),
  ("crypto_generichash.keylen", { hi := crypto_generichash_KEYBYTES_MAX, above := "rc=-1", probes := [0, 1, 16, 64] }),
  ("crypto_generichash_init.outlen", { lo := 1, hi := crypto_generichash_BYTES_MAX, above := "rc=-1", probes := [1, 16, 32, 64] }),
  ("crypto_generichash_init.keylen", { hi := crypto_generichash_KEYBYTES_MAX, above := "rc=-1", probes := [0, 1, 16, 64] }),
  ("crypto_generichash_blake2b_salt_personal.outlen", { lo := 1, hi := crypto_generichash_BYTES_MAX, above := "rc=-1", probes := [1, 16, 32, 64] }),
  ("crypto_generichash_blake2b_salt_personal.keylen", { hi := crypto_generichash_KEYBYTES_MAX, above := "rc=-1", probes := [0, 1, 16, 64] }),
  ("crypto_kdf_derive_from_key", { lo := crypto_kdf_BYTES_MIN, hi := crypto_kdf_BYTES_MAX, below := pwErr "EINVAL", above := pwErr "EINVAL", probes := [16, 17, 32, 64] }),
  ("crypto_kdf_hkdf_sha256_expand", { hi := crypto_kdf_hkdf_sha256_BYTES_MAX, above := pwErr "EINVAL", probes := [0, 1, 32, 33, 8160] }),
  ("crypto_kdf_hkdf_sha512_expand", { hi := crypto_kdf_hkdf_sha512_BYTES_MAX, above := pwErr "EINVAL", probes := [0, 1, 64, 65, 16320] })]
  ++ pwhashEntries "crypto_pwhash" crypto_pwhash_argon2id_OPSLIMIT_MIN true
  ++ pwhashEntries "crypto_pwhash_argon2id" crypto_pwhash_argon2id_OPSLIMIT_MIN true
  ++ pwhashEntries "crypto_pwhash_argon2i" crypto_pwhash_argon2i_OPSLIMIT_MIN true
  ++ pwhashEntries "crypto_pwhash_str" crypto_pwhash_argon2id_OPSLIMIT_MIN false
  ++ [("crypto_pwhash_scryptsalsa208sha256.outlen", { lo := crypto_pwhash_scryptsalsa208sha256_BYTES_MIN, hi := crypto_pwhash_scryptsalsa208sha256_BYTES_MAX, below := pwErr "EINVAL", above := pwErr "EFBIG", probes := [16, 17, 64], huge := true })]
  ++ hexEntries
  ++ [("sodium_bin2hex.bin_len", { hi := SIZE_MAX / 2 - 1, probes := [0, 8] })]
  ++ b64Entries
  ++ [-- argument = unpadded length, parameter = block size, capacity 64: admissible lengths ≥ 64 fail the capacity check
      ("sodium_pad:16", { hi := 2 ^ 64 - 17, inside := "rc=-1", probes := [64, 1000, 2 ^ 64 - 17] }),
      ("sodium_pad:7", { hi := 2 ^ 64 - 3, inside := "rc=-1", probes := [64, 1000, 2 ^ 64 - 3] }),
      ("sodium_pad:1", { hi := 2 ^ 64 - 2, inside := "rc=-1", probes := [64, 1000, 2 ^ 64 - 2] }),
      ("sodium_unpad", { lo := 16, probes := [16, 32, 48] }),
      -- argument = count, parameter = size: count * size must not wrap
      ("sodium_allocarray:4096", { hi := 2 ^ 52 - 1, above := "null errno=ENOMEM", inside := "ok", probes := [0, 1, 3] }),
      ("randombytes_buf_deterministic", { hi := randombytes_deterministic_MAX, probes := [0, 1, 64, 1000] })]

/-- `none`: the size argument is admissible; `some obs`: it must be refused with observable `obs` -/
def refusal (api : String) (arg : Nat) : Option String :=
  match limits.lookup api with
  | none => none
  | some l => if arg < l.lo then some l.below else if arg > l.hi then some l.above else none

/-- expected output of `mem.limit api arg` (`none`: unknown API or unrepresentable argument) -/
def observable (api : String) (arg : Nat) : Option String :=
  match limits.lookup api with
  | none => none
  | some l => if arg > l.argMax then none else some ((refusal api arg).getD l.inside)

end Sodium.Model.Limits
