import SodiumModel.Basic
import SodiumModel.Model.ChachaSimd
import SodiumModel.Model.ScryptRef
/-
  The SSE2 scrypt core of libsodium, modelled statement by statement:

    crypto_pwhash/scryptsalsa208sha256/sse/pwhash_scryptsalsa208sha256_sse.c
      ARX, SALSA20_2ROUNDS, SALSA20_8_XOR, XOR4, XOR4_2 (macros), blockmix_salsa8, blockmix_salsa8_xor,
      integerify, smix, escrypt_kdf_sse
    crypto_pwhash/scryptsalsa208sha256/crypto_scrypt-common.c: crypto_pwhash_scryptsalsa208sha256_ll (the SSE2 branch)

  Conventions (those of Model/ScryptRef.lean where the two files share code)
  * `__m128i` is `ChachaSimd.V128` (four 32-bit lanes, `e0` = bits 31..0); `_mm_add_epi32`, `_mm_xor_si128`,
    `_mm_slli_epi32`, `_mm_srli_epi32`, `_mm_shuffle_epi32` are the definitions of Model/ChachaSimd.lean (validated against the
    CPU by simdcheck/chacha); the two intrinsics that occur only here, `_mm_cvtsi128_si32` and `_mm_srli_si128`, are defined
    below (TRUSTED, validated by simdcheck/scryptsse).
  * Memory. The scratch region `V ‖ XY` of `escrypt_kdf_sse` is ONE array of 32-bit words `M` (`V = (uint8_t *) B + B_size`,
    `XY = (uint8_t *) V + V_size` are adjacent in `local->aligned`); a pointer into it (`uint32_t *` or `__m128i *`: the code uses
    both views of the same memory, `X32` and `X`) is the WORD offset (`Nat`) of its target. `P[i]` for `__m128i *P` is the four
    words at `P + 4 * i` (`ld128` / `st128`: lane `j` = word `j`, the little-endian memory image, as validated by the
    `loadu_words` line of simdcheck/chacha); `(__m128i *) ((uintptr_t) (P) + bytes)` is `ptrAdd P bytes`. Reads are always from the
    CURRENT memory (so `Bin` / `Bout` aliasing inside `V` is visible), an out-of-bounds read gives 0 and an out-of-bounds
    write is dropped, as in ScryptRef. `B` (`uint8_t *`, accessed through LOAD32_LE / STORE32_LE only) is a separate byte array.
  * `uint32_t` = `UInt32`, `uint64_t` = `size_t` = `uintptr_t` = `UInt64`, wrapping; every index expression is computed in
    `UInt64` as written and only then used as an offset.
  * loops: `ScryptRef.forU64` / `forU32`, and `forB` below for the loops whose counter is used after the loop or is
    incremented inside the body.
  Core Lean only.
-/
namespace Sodium.Model.ScryptSse
open Sodium Sodium.Model
open Sodium.Model.ChachaSimd (V128 mm_add_epi32 mm_xor_si128 mm_slli_epi32 mm_srli_epi32 mm_shuffle_epi32)
open Sodium.Model.ScryptRef (forU64 forU32 load32_le store32_le escrypt_PBKDF2_SHA256)

/-! ### intrinsics that occur only in this file (trusted base; validated by simdcheck/scryptsse) -/

/-- MOVD `_mm_cvtsi128_si32(a)`: "dst[31:0] := a[31:0]" (an `int`; the code uses it as / converts it to `uint32_t`,
    which keeps the 32 bits) -/
def mm_cvtsi128_si32 (a : V128) : UInt32 := a.e0

/-- PSRLDQ `_mm_srli_si128(a, imm8)`: "tmp := imm8[7:0]; IF tmp > 15 tmp := 16; dst[127:0] := a[127:0] >> (tmp*8)" -/
def mm_srli_si128 (a : V128) (imm8 : Nat) : V128 :=
  let tmp := if imm8 % 256 > 15 then 16 else imm8 % 256
  V128.ofBytes ((a.toBytes ++ List.replicate 16 0).drop tmp)

/-! ### memory -/

/-- `P[0]` for `const __m128i *P` at word offset `p` (aligned 16-byte load) -/
def ld128 (M : Array UInt32) (p : Nat) : V128 := ⟨M.getD p 0, M.getD (p + 1) 0, M.getD (p + 2) 0, M.getD (p + 3) 0⟩

/-- `P[0] = v` for `__m128i *P` at word offset `p` -/
def st128 (M : Array UInt32) (p : Nat) (v : V128) : Array UInt32 :=
  (((M.setIfInBounds p v.e0).setIfInBounds (p + 1) v.e1).setIfInBounds (p + 2) v.e2).setIfInBounds (p + 3) v.e3

/-- `(__m128i *) ((uintptr_t) (P) + bytes)` (`bytes` is a multiple of 16 wherever the code does this) -/
def ptrAdd (p : Nat) (bytes : UInt64) : Nat := p + bytes.toNat / 4

/-- a loop `for (i = i0; i < n; <nothing or i += step>) { … }` whose body may change the counter and whose counter is
    read after the loop: `body i s` = (the counter, the state) at the end of one pass (including the `i += step` of the
    `for` header); the result is the final (counter, state). `fuel` only bounds the number of passes. -/
@[specialize] def forB {α : Type} (n : UInt64) (body : UInt64 → α → UInt64 × α) : Nat → UInt64 → α → UInt64 × α
  | 0, i, s => (i, s)
  | fuel + 1, i, s => if i < n then forB n body fuel (body i s).1 (body i s).2 else (i, s)

/-! ### the macros -/

/-- the four locals `X0, X1, X2, X3` -/
structure Regs where
  X0 : V128
  X1 : V128
  X2 : V128
  X3 : V128
  deriving DecidableEq, Repr

/-- `ARX(out, in1, in2, s)`: `T = _mm_add_epi32(in1, in2); out = _mm_xor_si128(out, _mm_slli_epi32(T, s));
    out = _mm_xor_si128(out, _mm_srli_epi32(T, 32 - s));` — the new `out` -/
def ARX (out in1 in2 : V128) (s : UInt32) : V128 :=
  let T := mm_add_epi32 in1 in2
  let out := mm_xor_si128 out (mm_slli_epi32 T s)
  let out := mm_xor_si128 out (mm_srli_epi32 T (32 - s))
  out

/-- `SALSA20_2ROUNDS` -/
def SALSA20_2ROUNDS (x : Regs) : Regs :=
  let X0 := x.X0; let X1 := x.X1; let X2 := x.X2; let X3 := x.X3
  /- Operate on "columns". -/
  let X1 := ARX X1 X0 X3 7
  let X2 := ARX X2 X1 X0 9
  let X3 := ARX X3 X2 X1 13
  let X0 := ARX X0 X3 X2 18
  /- Rearrange data. -/
  let X1 := mm_shuffle_epi32 X1 0x93
  let X2 := mm_shuffle_epi32 X2 0x4E
  let X3 := mm_shuffle_epi32 X3 0x39
  /- Operate on "rows". -/
  let X3 := ARX X3 X0 X1 7
  let X2 := ARX X2 X3 X0 9
  let X1 := ARX X1 X2 X3 13
  let X0 := ARX X0 X1 X2 18
  /- Rearrange data. -/
  let X1 := mm_shuffle_epi32 X1 0x39
  let X2 := mm_shuffle_epi32 X2 0x4E
  let X3 := mm_shuffle_epi32 X3 0x93
  ⟨X0, X1, X2, X3⟩

/-- `SALSA20_8_XOR(in, out)`: `in`, `out` are `__m128i *` (word offsets into `M`); the new memory and `X0..X3` -/
def SALSA20_8_XOR (M : Array UInt32) (x : Regs) (inp out : Nat) : Array UInt32 × Regs :=
  let X0 := mm_xor_si128 x.X0 (ld128 M (inp + 4 * 0)); let Y0 := X0
  let X1 := mm_xor_si128 x.X1 (ld128 M (inp + 4 * 1)); let Y1 := X1
  let X2 := mm_xor_si128 x.X2 (ld128 M (inp + 4 * 2)); let Y2 := X2
  let X3 := mm_xor_si128 x.X3 (ld128 M (inp + 4 * 3)); let Y3 := X3
  let x := SALSA20_2ROUNDS ⟨X0, X1, X2, X3⟩
  let x := SALSA20_2ROUNDS x
  let x := SALSA20_2ROUNDS x
  let x := SALSA20_2ROUNDS x
  let X0 := mm_add_epi32 x.X0 Y0; let M := st128 M (out + 4 * 0) X0
  let X1 := mm_add_epi32 x.X1 Y1; let M := st128 M (out + 4 * 1) X1
  let X2 := mm_add_epi32 x.X2 Y2; let M := st128 M (out + 4 * 2) X2
  let X3 := mm_add_epi32 x.X3 Y3; let M := st128 M (out + 4 * 3) X3
  (M, ⟨X0, X1, X2, X3⟩)

/-- `XOR4(in)` -/
def XOR4 (M : Array UInt32) (x : Regs) (inp : Nat) : Regs :=
  let X0 := mm_xor_si128 x.X0 (ld128 M (inp + 4 * 0))
  let X1 := mm_xor_si128 x.X1 (ld128 M (inp + 4 * 1))
  let X2 := mm_xor_si128 x.X2 (ld128 M (inp + 4 * 2))
  let X3 := mm_xor_si128 x.X3 (ld128 M (inp + 4 * 3))
  ⟨X0, X1, X2, X3⟩

/-- `XOR4_2(in1, in2)` -/
def XOR4_2 (M : Array UInt32) (in1 in2 : Nat) : Regs :=
  let X0 := mm_xor_si128 (ld128 M (in1 + 4 * 0)) (ld128 M (in2 + 4 * 0))
  let X1 := mm_xor_si128 (ld128 M (in1 + 4 * 1)) (ld128 M (in2 + 4 * 1))
  let X2 := mm_xor_si128 (ld128 M (in1 + 4 * 2)) (ld128 M (in2 + 4 * 2))
  let X3 := mm_xor_si128 (ld128 M (in1 + 4 * 3)) (ld128 M (in2 + 4 * 3))
  ⟨X0, X1, X2, X3⟩

/-! ### blockmix_salsa8, blockmix_salsa8_xor, integerify -/

/-- one pass of the `for (i = 0; i < r;) { … i++; … }` loop of `blockmix_salsa8` (`r` already decremented) -/
def blockmix_body (Bin Bout : Nat) (r : UInt64) (i : UInt64) (s : Array UInt32 × Regs) : UInt64 × (Array UInt32 × Regs) :=
  /- 3: X <-- H(X \xor B_i)  4: Y_i <-- X  6: B' <-- (Y_0, Y_2 ... Y_{2r-2}, Y_1, Y_3 ... Y_{2r-1}) -/
  let s := SALSA20_8_XOR s.1 s.2 (Bin + 4 * (i * 8 + 4).toNat) (Bout + 4 * ((r + i) * 4 + 4).toNat)
  let i := i + 1
  /- 3, 4, 6 -/
  let s := SALSA20_8_XOR s.1 s.2 (Bin + 4 * (i * 8).toNat) (Bout + 4 * (i * 4).toNat)
  (i, s)

/-- `blockmix_salsa8(Bin, Bout, r)`: the new memory -/
def blockmix_salsa8 (M : Array UInt32) (Bin Bout : Nat) (r : UInt64) : Array UInt32 :=
  /- 1: X <-- B_{2r - 1} -/
  let X0 := ld128 M (Bin + 4 * (8 * r - 4).toNat)
  let X1 := ld128 M (Bin + 4 * (8 * r - 3).toNat)
  let X2 := ld128 M (Bin + 4 * (8 * r - 2).toNat)
  let X3 := ld128 M (Bin + 4 * (8 * r - 1).toNat)
  /- 3, 4, 6 -/
  let s := SALSA20_8_XOR M ⟨X0, X1, X2, X3⟩ Bin Bout
  /- 2: for i = 0 to 2r - 1 do -/
  let r := r - 1
  let is := forB r (blockmix_body Bin Bout r) r.toNat 0 s
  let i := is.1; let s := is.2
  /- 3, 4, 6 -/
  let s := SALSA20_8_XOR s.1 s.2 (Bin + 4 * (i * 8 + 4).toNat) (Bout + 4 * ((r + i) * 4 + 4).toNat)
  s.1

/-- one pass of the loop of `blockmix_salsa8_xor` (`r` already decremented) -/
def blockmix_xor_body (Bin1 Bin2 Bout : Nat) (r : UInt64) (i : UInt64) (s : Array UInt32 × Regs) :
    UInt64 × (Array UInt32 × Regs) :=
  /- 3, 4, 6 -/
  let x := XOR4 s.1 s.2 (Bin1 + 4 * (i * 8 + 4).toNat)
  let s := SALSA20_8_XOR s.1 x (Bin2 + 4 * (i * 8 + 4).toNat) (Bout + 4 * ((r + i) * 4 + 4).toNat)
  let i := i + 1
  /- 3, 4, 6 -/
  let x := XOR4 s.1 s.2 (Bin1 + 4 * (i * 8).toNat)
  let s := SALSA20_8_XOR s.1 x (Bin2 + 4 * (i * 8).toNat) (Bout + 4 * (i * 4).toNat)
  (i, s)

/-- `blockmix_salsa8_xor(Bin1, Bin2, Bout, r)`: the new memory and the return value `_mm_cvtsi128_si32(X0)` (as `uint32_t`) -/
def blockmix_salsa8_xor (M : Array UInt32) (Bin1 Bin2 Bout : Nat) (r : UInt64) : Array UInt32 × UInt32 :=
  /- 1: X <-- B_{2r - 1} -/
  let x := XOR4_2 M (Bin1 + 4 * (8 * r - 4).toNat) (Bin2 + 4 * (8 * r - 4).toNat)
  /- 3, 4, 6 -/
  let x := XOR4 M x Bin1
  let s := SALSA20_8_XOR M x Bin2 Bout
  /- 2: for i = 0 to 2r - 1 do -/
  let r := r - 1
  let is := forB r (blockmix_xor_body Bin1 Bin2 Bout r) r.toNat 0 s
  let i := is.1; let s := is.2
  /- 3, 4, 6 -/
  let x := XOR4 s.1 s.2 (Bin1 + 4 * (i * 8 + 4).toNat)
  let s := SALSA20_8_XOR s.1 x (Bin2 + 4 * (i * 8 + 4).toNat) (Bout + 4 * ((r + i) * 4 + 4).toNat)
  (s.1, mm_cvtsi128_si32 s.2.X0)

/-- `integerify(B, r)`: `X = B + (2*r - 1) * 4; X0 = _mm_cvtsi128_si32(X[0]); X13 = _mm_cvtsi128_si32(_mm_srli_si128(X[3], 4));
    return (((uint64_t)(X13) << 32) + X0);` -/
def integerify (M : Array UInt32) (B : Nat) (r : UInt64) : UInt64 :=
  let X := B + 4 * ((2 * r - 1) * 4).toNat
  let X0 : UInt32 := mm_cvtsi128_si32 (ld128 M (X + 4 * 0))
  let X13 : UInt32 := mm_cvtsi128_si32 (mm_srli_si128 (ld128 M (X + 4 * 3)) 4)
  (X13.toUInt64 <<< 32) + X0.toUInt64

/-! ### smix -/

/-- one pass of `for (i = 1; i < N - 1; i += 2)`; the state is (memory, the pointer `X`) -/
def smix_loop1_body (r : UInt64) (s : UInt64) (V : Nat) (i : UInt64) (st : Array UInt32 × Nat) : UInt64 × (Array UInt32 × Nat) :=
  let M := st.1; let X := st.2
  /- 4: X <-- H(X)  3: V_i <-- X -/
  let Y := ptrAdd V (i * s)
  let M := blockmix_salsa8 M X Y r
  /- 4, 3 -/
  let X := ptrAdd V ((i + 1) * s)
  let M := blockmix_salsa8 M Y X r
  (i + 2, (M, X))

/-- one pass of `for (i = 0; i < N; i += 2)`; the state is (memory, `j`); `X`, `Y` point into `XY` -/
def smix_loop2_body (r N : UInt64) (s : UInt64) (V X Y : Nat) (i : UInt64) (st : Array UInt32 × UInt64) :
    UInt64 × (Array UInt32 × UInt64) :=
  let M := st.1; let j := st.2
  let V_j := ptrAdd V (j * s)
  /- 8: X <-- H(X \xor V_j)  7: j <-- Integerify(X) mod N -/
  let mr := blockmix_salsa8_xor M X V_j Y r
  let M := mr.1
  let j := mr.2.toUInt64 &&& (N - 1)
  let V_j := ptrAdd V (j * s)
  /- 8, 7 -/
  let mr := blockmix_salsa8_xor M Y V_j X r
  let M := mr.1
  let j := mr.2.toUInt64 &&& (N - 1)
  (i + 2, (M, j))

/-- `smix(B, r, N, V, XY)` with `B` = `B + boff` (bytes), `V`, `XY` word offsets into `M`: the new `B` and memory -/
def smix (B : Array UInt8) (boff : Nat) (r N : UInt64) (M : Array UInt32) (V XY : Nat) : Array UInt8 × Array UInt32 :=
  let s : UInt64 := 128 * r
  let X : Nat := V
  let X32 : Nat := V
  /- 1: X <-- B  3: V_i <-- X -/
  let M := forU64 (2 * r) 1 (fun k M =>
      forU64 16 1 (fun i M =>
        M.setIfInBounds (X32 + (k * 16 + i).toNat) (load32_le B (boff + ((k * 16 + (i * 5 % 16)) * 4).toNat))) 16 0 M)
    (2 * r).toNat 0 M
  /- 2: for i = 0 to N - 1 do -/
  let ist := forB (N - 1) (smix_loop1_body r s V) N.toNat 1 (M, X)
  let i := ist.1; let M := ist.2.1; let X := ist.2.2
  /- 4: X <-- H(X)  3: V_i <-- X -/
  let Y := ptrAdd V (i * s)
  let M := blockmix_salsa8 M X Y r
  /- 4, 3 -/
  let X := XY
  let M := blockmix_salsa8 M Y X r
  let X32 := XY
  let Y := ptrAdd XY s
  /- 7: j <-- Integerify(X) mod N -/
  let j := integerify M X r &&& (N - 1)
  /- 6: for i = 0 to N - 1 do -/
  let ist := forB N (smix_loop2_body r N s V X Y) N.toNat 0 (M, j)
  let M := ist.2.1
  /- 10: B' <-- X -/
  let B := forU64 (2 * r) 1 (fun k B =>
      forU64 16 1 (fun i B =>
        store32_le B (boff + ((k * 16 + (i * 5 % 16)) * 4).toNat) (M.getD (X32 + (k * 16 + i).toNat) 0)) 16 0 B)
    (2 * r).toNat 0 B
  (B, M)

/-! ### escrypt_kdf_sse -/

/-- `escrypt_kdf_sse(local, passwd, passwdlen, salt, saltlen, N, _r, _p, buf, buflen)` on a fresh `local`
    (`local->size = 0`); `allocOk need` = `escrypt_alloc_region(local, need)` succeeded. The text of the parameter checks is
    that of `escrypt_kdf_nosse` (except `V_size = (size_t) 128 * r * N` without the cast of `N`: same type here). -/
def escrypt_kdf_sse {σ : Type} (H : HashOps σ) (allocOk : UInt64 → Bool) (passwd salt : Bytes)
    (N : UInt64) (_r _p : UInt32) (buflen : UInt64) : Pwhash.Result :=
  let r : UInt64 := _r.toUInt64
  let p : UInt64 := _p.toUInt64
  /- Sanity-check parameters. -/
  if buflen > (((1 : UInt64) <<< 32) - 1) * 32 then { rc := -1, errno := Pwhash.EFBIG }
  else if r * p ≥ (1 : UInt64) <<< 30 then { rc := -1, errno := Pwhash.EFBIG }
  else if N > 0xffffffff then { rc := -1, errno := Pwhash.EFBIG }
  else if (N &&& (N - 1)) ≠ 0 ∨ N < 2 then { rc := -1, errno := Pwhash.EINVAL }
  else if r = 0 ∨ p = 0 then { rc := -1, errno := Pwhash.EINVAL }
  else if r > 0xffffffffffffffff / 128 / p ∨ N > 0xffffffffffffffff / 128 / r then
    { rc := -1, errno := Pwhash.ENOMEM }
  else
  /- Allocate memory. -/
  let B_size : UInt64 := 128 * r * p
  let V_size : UInt64 := 128 * r * N
  let need := B_size + V_size
  if need < V_size then { rc := -1, errno := Pwhash.ENOMEM } else
  let XY_size : UInt64 := 256 * r + 64
  let need := need + XY_size
  if need < XY_size then { rc := -1, errno := Pwhash.ENOMEM } else
  -- `local->size < need` holds (size = 0 < need); `escrypt_free_region` of the empty region returns 0
  if !allocOk need then { rc := -1, errno := Pwhash.ENOMEM } else
  let B : Array UInt8 := Array.replicate B_size.toNat 0
  -- V = (uint32_t *) ((uint8_t *) B + B_size), XY = (uint32_t *) ((uint8_t *) V + V_size): the words after `B`
  let M : Array UInt32 := Array.replicate ((V_size + XY_size) / 4).toNat 0
  let V : Nat := 0
  let XY : Nat := V + V_size.toNat / 4
  /- 1: (B_0 ... B_{p-1}) <-- PBKDF2(P, S, 1, p * MFLen) -/
  match escrypt_PBKDF2_SHA256 H passwd salt 1 B B_size with
  | none => { rc := -1, misuse := true }
  | some B =>
  /- 2: for i = 0 to p - 1 do  3: B_i <-- MF(B_i, N) -/
  let bm := forU32 p (fun i bm => smix bm.1 (128 * i.toUInt64 * r).toNat r N bm.2 V XY) p.toNat 0 (B, M)
  /- 5: DK <-- PBKDF2(P, B, 1, dkLen) -/
  match escrypt_PBKDF2_SHA256 H passwd bm.1.toList 1 (Array.replicate buflen.toNat 0) buflen with
  | none => { rc := -1, misuse := true }
  | some buf => { rc := 0, out := buf.toList }

/-- `crypto_pwhash_scryptsalsa208sha256_ll` on a machine with SSE2 (`escrypt_kdf = escrypt_kdf_sse`;
    `escrypt_init_local` / `escrypt_free_local` return 0) -/
def crypto_pwhash_scryptsalsa208sha256_ll {σ : Type} (H : HashOps σ) (allocOk : UInt64 → Bool) (passwd salt : Bytes)
    (N : UInt64) (r p : UInt32) (buflen : UInt64) : Pwhash.Result :=
  escrypt_kdf_sse H allocOk passwd salt N r p buflen

end Sodium.Model.ScryptSse
