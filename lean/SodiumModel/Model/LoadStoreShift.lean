import SodiumModel.Basic
import SodiumModel.Model.Utils
/-
  include/sodium/private/common.h: the eight byte-order helpers
  `load64_le store64_le load32_le store32_le load64_be store64_be load32_be store32_be`.

  Each has two bodies.  With `NATIVE_LITTLE_ENDIAN` (resp. `NATIVE_BIG_ENDIAN`) defined the body is a
  `memcpy` between the integer and the byte array: that is the form every other C-structured model
  of this project uses (`load64`/`load32`/`store64`/`store32` of Model/Utils.lean, i.e. `le`/`toLE`
  of Basic.lean, and `be`/`toBE` for the big-endian ones).  The `portable` build defines neither
  macro, so all eight take the `#else` branch: bytes combined with shifts and ORs, stores through
  `(uint8_t) w; w >>= 8`.  This file transcribes those `#else` bodies statement by statement
  (`*_shift`) next to the memcpy forms (`*_native`); Properties/C10Donna32.lean proves them equal
  for every input, so every existing model also speaks for the `portable` build.

  `src[i]` beyond the end of the list reads 0 (`getD`), as `le (b.take n)` does in the native form.
-/
namespace Sodium.Model.LoadStoreShift
open Sodium Sodium.Model

/-! ### memcpy forms (the `#ifdef NATIVE_…_ENDIAN` branches on the matching host) -/

def load64_le_native (src : Bytes) : UInt64 := load64 src
def store64_le_native (w : UInt64) : Bytes := store64 w
def load32_le_native (src : Bytes) : UInt32 := load32 src
def store32_le_native (w : UInt32) : Bytes := store32 w
def load64_be_native (src : Bytes) : UInt64 := UInt64.ofNat (be (src.take 8))
def store64_be_native (w : UInt64) : Bytes := toBE 8 w.toNat
def load32_be_native (src : Bytes) : UInt32 := UInt32.ofNat (be (src.take 4))
def store32_be_native (w : UInt32) : Bytes := toBE 4 w.toNat

/-! ### the `#else` branches -/

/-- `(uint64_t) src[i]` -/
def b64 (src : Bytes) (i : Nat) : UInt64 := (src.getD i 0).toUInt64
/-- `(uint32_t) src[i]` -/
def b32 (src : Bytes) (i : Nat) : UInt32 := (src.getD i 0).toUInt32

def load64_le_shift (src : Bytes) : UInt64 :=
  let w := b64 src 0
  let w := w ||| (b64 src 1 <<< 8)
  let w := w ||| (b64 src 2 <<< 16)
  let w := w ||| (b64 src 3 <<< 24)
  let w := w ||| (b64 src 4 <<< 32)
  let w := w ||| (b64 src 5 <<< 40)
  let w := w ||| (b64 src 6 <<< 48)
  let w := w ||| (b64 src 7 <<< 56)
  w

def store64_le_shift (w : UInt64) : Bytes :=
  let d0 := w.toUInt8
  let w := w >>> 8
  let d1 := w.toUInt8
  let w := w >>> 8
  let d2 := w.toUInt8
  let w := w >>> 8
  let d3 := w.toUInt8
  let w := w >>> 8
  let d4 := w.toUInt8
  let w := w >>> 8
  let d5 := w.toUInt8
  let w := w >>> 8
  let d6 := w.toUInt8
  let w := w >>> 8
  let d7 := w.toUInt8
  [d0, d1, d2, d3, d4, d5, d6, d7]

def load32_le_shift (src : Bytes) : UInt32 :=
  let w := b32 src 0
  let w := w ||| (b32 src 1 <<< 8)
  let w := w ||| (b32 src 2 <<< 16)
  let w := w ||| (b32 src 3 <<< 24)
  w

def store32_le_shift (w : UInt32) : Bytes :=
  let d0 := w.toUInt8
  let w := w >>> 8
  let d1 := w.toUInt8
  let w := w >>> 8
  let d2 := w.toUInt8
  let w := w >>> 8
  let d3 := w.toUInt8
  [d0, d1, d2, d3]

def load64_be_shift (src : Bytes) : UInt64 :=
  let w := b64 src 7
  let w := w ||| (b64 src 6 <<< 8)
  let w := w ||| (b64 src 5 <<< 16)
  let w := w ||| (b64 src 4 <<< 24)
  let w := w ||| (b64 src 3 <<< 32)
  let w := w ||| (b64 src 2 <<< 40)
  let w := w ||| (b64 src 1 <<< 48)
  let w := w ||| (b64 src 0 <<< 56)
  w

def store64_be_shift (w : UInt64) : Bytes :=
  let d7 := w.toUInt8
  let w := w >>> 8
  let d6 := w.toUInt8
  let w := w >>> 8
  let d5 := w.toUInt8
  let w := w >>> 8
  let d4 := w.toUInt8
  let w := w >>> 8
  let d3 := w.toUInt8
  let w := w >>> 8
  let d2 := w.toUInt8
  let w := w >>> 8
  let d1 := w.toUInt8
  let w := w >>> 8
  let d0 := w.toUInt8
  [d0, d1, d2, d3, d4, d5, d6, d7]

def load32_be_shift (src : Bytes) : UInt32 :=
  let w := b32 src 3
  let w := w ||| (b32 src 2 <<< 8)
  let w := w ||| (b32 src 1 <<< 16)
  let w := w ||| (b32 src 0 <<< 24)
  w

def store32_be_shift (w : UInt32) : Bytes :=
  let d3 := w.toUInt8
  let w := w >>> 8
  let d2 := w.toUInt8
  let w := w >>> 8
  let d1 := w.toUInt8
  let w := w >>> 8
  let d0 := w.toUInt8
  [d0, d1, d2, d3]

end Sodium.Model.LoadStoreShift
