import SodiumModel.Basic
import SodiumModel.Model.CompressRef
import SodiumModel.Model.CoresRef
import SodiumModel.Model.Pwhash
/-
  The REFERENCE Argon2 core of libsodium, modelled to the structure of the C code:

  * `crypto_pwhash/argon2/blamka-round-ref.h`   : `fBlaMka`, the `G` macro, `BLAKE2_ROUND_NOMSG`
  * `crypto_pwhash/argon2/argon2-core.h`        : `init_block_value`, `copy_block`, `xor_block`, `index_alpha`
  * `crypto_pwhash/argon2/argon2-fill-block-ref.c` : `fill_block`, `fill_block_with_xor`,
    `generate_addresses`, `argon2_fill_segment_ref`
  * `crypto_pwhash/argon2/argon2-core.c`        : `load_block`, `store_block`, `argon2_finalize`,
    `argon2_fill_memory_blocks`, `argon2_fill_first_blocks`, `argon2_initial_hash`, `argon2_initialize`
  * `crypto_pwhash/argon2/blake2b-long.c`       : `blake2b_long`
  * `crypto_pwhash/argon2/argon2.c`             : `argon2_ctx` steps 2–5 (step 1, the validation, and
    `argon2_hash` are in Model/Pwhash.lean, which takes this core as its `Prims.argon2`)

  Conventions
  * `uint32_t` / `uint64_t` / `uint8_t` are `UInt32` / `UInt64` / `UInt8` with the wrapping arithmetic and
    the integer conversions of C written out (`x.toUInt64`, `x.toUInt32`);
  * a `block` is an `Array UInt64` (128 words), `instance->region->memory` is an `Array Block`;
    `x[i]` is `x[i]!`, `x[i] = e` is `x.set! i e` (an out-of-bounds access would read a default / drop the
    write; `C08Core.fill_segment_in_bounds` shows that the block indices computed by
    `argon2_fill_segment_ref` are always inside the allocation);
  * a C `for (i = a; i < b; ++i)` loop whose counter is a `uint32_t`/`unsigned` bounded by a `uint32_t`
    is `forLoop (b - a) body a`; the counter is a `Nat` and is converted where the C code uses its value;
  * the BLAKE2b calls `crypto_generichash_blake2b_init(.., NULL, 0, outlen)`, `_update`…, `_final`
    (and the one-shot `crypto_generichash_blake2b(out, outlen, in, inlen, NULL, 0)`) are the parameter
    `H outlen (concatenation of the updates)`; the driver instantiates it with RFC 7693 BLAKE2b;
  * `LOAD64_LE` / `STORE64_LE` / `STORE32_LE` are the portable branches of private/common.h (already
    modelled in Model/CompressRef.lean, Model/CoresRef.lean); on a little-endian host the C code is a
    `memcpy`, which is the same function;
  * not modelled: allocation failure (`malloc`/`mmap` returning NULL), `sodium_memzero` of dead buffers,
    the `instance == NULL` / `context == NULL` guards, `argon2_free_instance`.
  Core Lean only.
-/
namespace Sodium.Model.Argon2Ref
open Sodium Sodium.Model

/-- `for (i = start; i < start + n; ++i) s = body(i, s)` -/
def forLoop {σ : Type} (body : Nat → σ → σ) : (n : Nat) → (i : Nat) → σ → σ
  | 0, _, s => s
  | n + 1, i, s => forLoop body n (i + 1) (body i s)

/-! ### argon2-core.h: blocks -/

/-- `typedef struct block_ { uint64_t v[ARGON2_QWORDS_IN_BLOCK]; } block;` -/
abbrev Block := Array UInt64

def ARGON2_BLOCK_SIZE : Nat := 1024
def ARGON2_QWORDS_IN_BLOCK : Nat := 128
def ARGON2_ADDRESSES_IN_BLOCK : Nat := 128
def ARGON2_PREHASH_DIGEST_LENGTH : Nat := 64
def ARGON2_PREHASH_SEED_LENGTH : Nat := 72
def ARGON2_SYNC_POINTS : UInt32 := 4
def ARGON2_VERSION_NUMBER : UInt32 := 0x13
/-- `enum Argon2_type { Argon2_i = 1, Argon2_id = 2 }` -/
def Argon2_i : UInt32 := 1
def Argon2_id : UInt32 := 2

/-- `init_block_value(b, in)`: `memset(b->v, in, sizeof(b->v))` -/
def init_block_value (v : UInt8) : Block := Array.replicate 128 (v.toUInt64 * 0x0101010101010101)

/-- `copy_block(dst, src)`: `memcpy` -/
@[inline] def copy_block (src : Block) : Block := src

/-- `xor_block(dst, src)`: `for (i = 0; i < ARGON2_QWORDS_IN_BLOCK; ++i) dst->v[i] ^= src->v[i];` -/
def xor_block (dst src : Block) : Block :=
  forLoop (fun i dst => dst.set! i (dst[i]! ^^^ src[i]!)) 128 0 dst

/-! ### blamka-round-ref.h -/

/-- `fBlaMka(x, y)`: `m = 0xFFFFFFFF; xy = (x & m) * (y & m); return x + y + 2 * xy;` -/
@[inline] def fBlaMka (x y : UInt64) : UInt64 :=
  let m : UInt64 := 0xFFFFFFFF
  let xy := (x &&& m) * (y &&& m)
  x + y + 2 * xy

/-- `ROTR64(x, b)`: `(x >> b) | (x << (64 - b))` -/
@[inline] def ROTR64 (x b : UInt64) : UInt64 := CompressRef.rotr64 x b

/-- the `G(a, b, c, d)` macro: the new values of (a, b, c, d) -/
@[inline] def G (a b c d : UInt64) : UInt64 × UInt64 × UInt64 × UInt64 :=
  let a := fBlaMka a b
  let d := ROTR64 (d ^^^ a) 32
  let c := fBlaMka c d
  let b := ROTR64 (b ^^^ c) 24
  let a := fBlaMka a b
  let d := ROTR64 (d ^^^ a) 16
  let c := fBlaMka c d
  let b := ROTR64 (b ^^^ c) 63
  (a, b, c, d)

structure V16 where
  v0 : UInt64
  v1 : UInt64
  v2 : UInt64
  v3 : UInt64
  v4 : UInt64
  v5 : UInt64
  v6 : UInt64
  v7 : UInt64
  v8 : UInt64
  v9 : UInt64
  v10 : UInt64
  v11 : UInt64
  v12 : UInt64
  v13 : UInt64
  v14 : UInt64
  v15 : UInt64

/-- the `BLAKE2_ROUND_NOMSG(v0, …, v15)` macro: the new values of the sixteen lvalues -/
@[inline] def BLAKE2_ROUND_NOMSG (v0 v1 v2 v3 v4 v5 v6 v7 v8 v9 v10 v11 v12 v13 v14 v15 : UInt64) : V16 :=
  let g := G v0 v4 v8 v12;  let v0 := g.1; let v4 := g.2.1; let v8 := g.2.2.1;  let v12 := g.2.2.2
  let g := G v1 v5 v9 v13;  let v1 := g.1; let v5 := g.2.1; let v9 := g.2.2.1;  let v13 := g.2.2.2
  let g := G v2 v6 v10 v14; let v2 := g.1; let v6 := g.2.1; let v10 := g.2.2.1; let v14 := g.2.2.2
  let g := G v3 v7 v11 v15; let v3 := g.1; let v7 := g.2.1; let v11 := g.2.2.1; let v15 := g.2.2.2
  let g := G v0 v5 v10 v15; let v0 := g.1; let v5 := g.2.1; let v10 := g.2.2.1; let v15 := g.2.2.2
  let g := G v1 v6 v11 v12; let v1 := g.1; let v6 := g.2.1; let v11 := g.2.2.1; let v12 := g.2.2.2
  let g := G v2 v7 v8 v13;  let v2 := g.1; let v7 := g.2.1; let v8 := g.2.2.1;  let v13 := g.2.2.2
  let g := G v3 v4 v9 v14;  let v3 := g.1; let v4 := g.2.1; let v9 := g.2.2.1;  let v14 := g.2.2.2
  ⟨v0, v1, v2, v3, v4, v5, v6, v7, v8, v9, v10, v11, v12, v13, v14, v15⟩

/-- `BLAKE2_ROUND_NOMSG(b.v[i0], …, b.v[i15])`: the macro applied to sixteen lvalues of one block -/
def round_at (b : Block) (i0 i1 i2 i3 i4 i5 i6 i7 i8 i9 i10 i11 i12 i13 i14 i15 : Nat) : Block :=
  let r := BLAKE2_ROUND_NOMSG b[i0]! b[i1]! b[i2]! b[i3]! b[i4]! b[i5]! b[i6]! b[i7]!
    b[i8]! b[i9]! b[i10]! b[i11]! b[i12]! b[i13]! b[i14]! b[i15]!
  b |>.set! i0 r.v0 |>.set! i1 r.v1 |>.set! i2 r.v2 |>.set! i3 r.v3 |>.set! i4 r.v4 |>.set! i5 r.v5
    |>.set! i6 r.v6 |>.set! i7 r.v7 |>.set! i8 r.v8 |>.set! i9 r.v9 |>.set! i10 r.v10 |>.set! i11 r.v11
    |>.set! i12 r.v12 |>.set! i13 r.v13 |>.set! i14 r.v14 |>.set! i15 r.v15

/-! ### argon2-fill-block-ref.c -/

/-- the two `for (i = 0; i < 8; ++i) BLAKE2_ROUND_NOMSG(…)` loops of `fill_block` / `fill_block_with_xor` -/
def blake2_rounds (blockR : Block) : Block :=
  -- columns of 64-bit words: (0,1,...,15), then (16,17,..31)... finally (112,113,...127)
  let blockR := forLoop (fun i blockR =>
    round_at blockR (16 * i) (16 * i + 1) (16 * i + 2) (16 * i + 3) (16 * i + 4) (16 * i + 5) (16 * i + 6)
      (16 * i + 7) (16 * i + 8) (16 * i + 9) (16 * i + 10) (16 * i + 11) (16 * i + 12) (16 * i + 13)
      (16 * i + 14) (16 * i + 15)) 8 0 blockR
  -- rows of 64-bit words: (0,1,16,17,...112,113), then (2,3,18,19,...,114,115).. finally (14,15,30,31,...,126,127)
  forLoop (fun i blockR =>
    round_at blockR (2 * i) (2 * i + 1) (2 * i + 16) (2 * i + 17) (2 * i + 32) (2 * i + 33) (2 * i + 48)
      (2 * i + 49) (2 * i + 64) (2 * i + 65) (2 * i + 80) (2 * i + 81) (2 * i + 96) (2 * i + 97)
      (2 * i + 112) (2 * i + 113)) 8 0 blockR

/-- `fill_block(prev_block, ref_block, next_block)`: the new `*next_block` -/
def fill_block (prev_block ref_block : Block) : Block :=
  let blockR := copy_block ref_block
  let blockR := xor_block blockR prev_block
  let block_tmp := copy_block blockR
  let blockR := blake2_rounds blockR
  let next_block := copy_block block_tmp
  xor_block next_block blockR

/-- `fill_block_with_xor(prev_block, ref_block, next_block)`: the new `*next_block` -/
def fill_block_with_xor (prev_block ref_block next_block : Block) : Block :=
  let blockR := copy_block ref_block
  let blockR := xor_block blockR prev_block
  let block_tmp := copy_block blockR
  let block_tmp := xor_block block_tmp next_block
  let blockR := blake2_rounds blockR
  let next_block := copy_block block_tmp
  xor_block next_block blockR

/-! ### argon2-core.h: instance, position, index_alpha -/

/-- `argon2_instance_t` (without the two pointers, which are the `State` below) -/
structure Instance where
  passes : UInt32
  memory_blocks : UInt32
  segment_length : UInt32
  lane_length : UInt32
  lanes : UInt32
  threads : UInt32
  type : UInt32
  deriving DecidableEq, Repr

/-- `argon2_position_t` -/
structure Position where
  pass : UInt32
  lane : UInt32
  slice : UInt8
  index : UInt32
  deriving DecidableEq, Repr

/-- `instance->region->memory` and `instance->pseudo_rands` -/
structure State where
  memory : Array Block
  pseudo_rands : Array UInt64

/-- `index_alpha(instance, position, pseudo_rand, same_lane)`.
    Integer conversions: `position->slice` (`uint8_t`) is promoted to `int` and converted to `uint32_t`
    by the multiplication with a `uint32_t`; `(index == 0) ? (-1) : 0` is an `int` converted to
    `uint32_t` by the addition (`-1` ↦ `0xFFFFFFFF`); `reference_area_size - 1` is computed in
    `uint32_t` and only then widened; `x * y >> 32` is `(x * y) >> 32`. -/
def index_alpha (inst : Instance) (position : Position) (pseudo_rand : UInt32) (same_lane : Bool) : UInt32 :=
  let reference_area_size : UInt32 :=
    if position.pass = 0 then
      if position.slice = 0 then
        position.index - 1
      else if same_lane then
        position.slice.toUInt32 * inst.segment_length + position.index - 1
      else
        position.slice.toUInt32 * inst.segment_length + (if position.index = 0 then 0xFFFFFFFF else 0)
    else
      if same_lane then
        inst.lane_length - inst.segment_length + position.index - 1
      else
        inst.lane_length - inst.segment_length + (if position.index = 0 then 0xFFFFFFFF else 0)
  let relative_position : UInt64 := pseudo_rand.toUInt64
  let relative_position := (relative_position * relative_position) >>> 32
  let relative_position :=
    (reference_area_size - 1).toUInt64 - ((reference_area_size.toUInt64 * relative_position) >>> 32)
  let start_position : UInt32 := 0
  let start_position :=
    if position.pass ≠ 0 then
      (if position.slice.toUInt32 = ARGON2_SYNC_POINTS - 1 then 0
       else (position.slice.toUInt32 + 1) * inst.segment_length)
    else start_position
  let absolute_position : UInt64 := start_position.toUInt64 + relative_position - inst.lane_length.toUInt64
  let absolute_position := absolute_position + (inst.lane_length.toUInt64 &&& (absolute_position >>> 32))
  absolute_position.toUInt32

/-! ### argon2-fill-block-ref.c: generate_addresses, argon2_fill_segment_ref -/

/-- loop state of `generate_addresses`: `input_block`, `address_block`, `pseudo_rands` -/
structure GenState where
  input_block : Block
  address_block : Block
  pseudo_rands : Array UInt64

/-- the body of `for (i = 0; i < instance->segment_length; ++i)` in `generate_addresses` -/
def generate_addresses_step (zero_block : Block) (i : Nat) (s : GenState) : GenState :=
  let s :=
    if i % ARGON2_ADDRESSES_IN_BLOCK = 0 then
      let input_block := s.input_block.set! 6 (s.input_block[6]! + 1)
      let tmp_block := init_block_value 0
      let address_block := init_block_value 0
      let tmp_block := fill_block_with_xor zero_block input_block tmp_block
      let address_block := fill_block_with_xor zero_block tmp_block address_block
      { s with input_block := input_block, address_block := address_block }
    else s
  { s with pseudo_rands := s.pseudo_rands.set! i s.address_block[i % ARGON2_ADDRESSES_IN_BLOCK]! }

/-- `generate_addresses(instance, position, pseudo_rands)`: the new contents of `pseudo_rands`.
    (`address_block` is uninitialised in C until the first iteration, i = 0, fills it.) -/
def generate_addresses (inst : Instance) (position : Position) (pseudo_rands : Array UInt64) : Array UInt64 :=
  let zero_block := init_block_value 0
  let input_block := init_block_value 0
  let input_block := input_block.set! 0 position.pass.toUInt64
  let input_block := input_block.set! 1 position.lane.toUInt64
  let input_block := input_block.set! 2 position.slice.toUInt64
  let input_block := input_block.set! 3 inst.memory_blocks.toUInt64
  let input_block := input_block.set! 4 inst.passes.toUInt64
  let input_block := input_block.set! 5 inst.type.toUInt64
  (forLoop (generate_addresses_step zero_block) inst.segment_length.toNat 0
    { input_block := input_block, address_block := init_block_value 0, pseudo_rands := pseudo_rands }).pseudo_rands

/-- loop state of `argon2_fill_segment_ref`: `curr_offset`, `prev_offset`, the memory -/
structure SegState where
  curr_offset : UInt32
  prev_offset : UInt32
  memory : Array Block

/-- the body of `for (i = starting_index; i < instance->segment_length; ++i, ++curr_offset, ++prev_offset)` -/
def fill_segment_step (inst : Instance) (position : Position) (data_independent_addressing : Bool)
    (pseudo_rands : Array UInt64) (i : Nat) (s : SegState) : SegState :=
  let curr_offset := s.curr_offset
  let memory := s.memory
  -- 1.1 Rotating prev_offset if needed
  let prev_offset := if curr_offset % inst.lane_length = 1 then curr_offset - 1 else s.prev_offset
  -- 1.2.1 Taking pseudo-random value from the previous block
  let pseudo_rand : UInt64 :=
    if data_independent_addressing then pseudo_rands[i]! else memory[prev_offset.toNat]![0]!
  -- 1.2.2 Computing the lane of the reference block
  let ref_lane : UInt64 := (pseudo_rand >>> 32) % inst.lanes.toUInt64
  let ref_lane := if position.pass = 0 ∧ position.slice = 0 then position.lane.toUInt64 else ref_lane
  -- 1.2.3 Computing the number of possible reference block within the lane
  let position := { position with index := UInt32.ofNat i }
  let ref_index : UInt64 :=
    (index_alpha inst position (pseudo_rand &&& 0xFFFFFFFF).toUInt32 (ref_lane == position.lane.toUInt64)).toUInt64
  -- 2 Creating a new block
  let ref_block := memory[(inst.lane_length.toUInt64 * ref_lane + ref_index).toNat]!
  let prev_block := memory[prev_offset.toNat]!
  let new_block :=
    if position.pass ≠ 0 then fill_block_with_xor prev_block ref_block memory[curr_offset.toNat]!
    else fill_block prev_block ref_block
  { curr_offset := curr_offset + 1, prev_offset := prev_offset + 1,
    memory := memory.set! curr_offset.toNat new_block }

/-- what `argon2_fill_segment_ref` has computed when it enters its loop -/
structure SegInit where
  data_independent_addressing : Bool
  pseudo_rands : Array UInt64
  starting_index : UInt32
  state : SegState

/-- `argon2_fill_segment_ref(instance, position)` up to the loop: the addressing mode, the (re)generated
    `pseudo_rands`, `starting_index`, `curr_offset`, `prev_offset` -/
def fill_segment_init (inst : Instance) (position : Position) (st : State) : SegInit :=
  let data_independent_addressing : Bool :=
    !(inst.type == Argon2_id && (position.pass != 0 || position.slice.toUInt32 >= ARGON2_SYNC_POINTS / 2))
  let pseudo_rands :=
    if data_independent_addressing then generate_addresses inst position st.pseudo_rands else st.pseudo_rands
  let starting_index : UInt32 := if position.pass = 0 ∧ position.slice = 0 then 2 else 0
  -- Offset of the current block
  let curr_offset : UInt32 :=
    position.lane * inst.lane_length + position.slice.toUInt32 * inst.segment_length + starting_index
  let prev_offset : UInt32 :=
    if curr_offset % inst.lane_length = 0 then curr_offset + inst.lane_length - 1 else curr_offset - 1
  { data_independent_addressing := data_independent_addressing, pseudo_rands := pseudo_rands,
    starting_index := starting_index,
    state := { curr_offset := curr_offset, prev_offset := prev_offset, memory := st.memory } }

/-- `argon2_fill_segment_ref(instance, position)` -/
def argon2_fill_segment_ref (inst : Instance) (position : Position) (st : State) : State :=
  let I := fill_segment_init inst position st
  let s := forLoop (fill_segment_step inst position I.data_independent_addressing I.pseudo_rands)
    (inst.segment_length.toNat - I.starting_index.toNat) I.starting_index.toNat I.state
  { memory := s.memory, pseudo_rands := I.pseudo_rands }

/-! ### argon2-core.c -/

/-- `load_block(dst, input)`: `for (i = 0; i < 128; ++i) dst->v[i] = LOAD64_LE(input + i * 8);` -/
def load_block (input : Bytes) : Block :=
  let inp := input.toArray
  forLoop (fun i dst => dst.set! i (CompressRef.load64_le inp (i * 8))) 128 0 (Array.replicate 128 0)

/-- `store_block(output, src)`: `for (i = 0; i < 128; ++i) STORE64_LE(output + i * 8, src->v[i]);` -/
def store_block (src : Block) : Bytes :=
  (forLoop (fun i (out : Array UInt8) => out ++ CompressRef.SipHash.store64_le src[i]!) 128 0 #[]).toList

/-- `argon2_fill_memory_blocks(instance, pass)` (`fill_segment` = `argon2_fill_segment_ref`) -/
def argon2_fill_memory_blocks (inst : Instance) (pass : UInt32) (st : State) : State :=
  if inst.lanes = 0 then st else
  forLoop (fun s st =>
    forLoop (fun l st =>
      argon2_fill_segment_ref inst
        { pass := pass, slice := (UInt32.ofNat s).toUInt8, lane := UInt32.ofNat l, index := 0 } st)
      inst.lanes.toNat 0 st) ARGON2_SYNC_POINTS.toNat 0 st

/-! ### blake2b-long.c -/

/-- the `while (toproduce > 64)` loop and the final call of `blake2b_long`: the bytes appended to `out` -/
def blake2b_long_loop (H : Nat → Bytes → Bytes) (toproduce : Nat) (out_buffer : Bytes) : Bytes :=
  if _h : toproduce > 64 then
    let in_buffer := out_buffer
    let out_buffer := H 64 in_buffer
    out_buffer.take 32 ++ blake2b_long_loop H (toproduce - 32) out_buffer
  else
    let in_buffer := out_buffer
    H toproduce in_buffer
termination_by toproduce
decreasing_by omega

/-- `blake2b_long(pout, outlen, in, inlen)`: return value and the `outlen` bytes written -/
def blake2b_long (H : Nat → Bytes → Bytes) (outlen : Nat) (inp : Bytes) : Int × Bytes :=
  if outlen > 0xFFFFFFFF then (-1, []) else
  let outlen_bytes := CoresRef.store32_le (UInt32.ofNat outlen)
  if outlen ≤ 64 then
    (0, H outlen (outlen_bytes ++ inp))
  else
    let out_buffer := H 64 (outlen_bytes ++ inp)
    let out := out_buffer.take 32
    let toproduce := (UInt32.ofNat outlen - 32).toNat
    (0, out ++ blake2b_long_loop H toproduce out_buffer)

/-! ### argon2-core.c: initialisation and finalisation -/

/-- `argon2_initial_hash(blockhash, context, type)`: the 64 bytes written to `blockhash`.
    `pwd`, `salt`, `secret`, `ad` are the `pwdlen`, `saltlen`, `secretlen`, `adlen` bytes behind the
    context's pointers (ignored when the pointer is NULL). -/
def argon2_initial_hash (H : Nat → Bytes → Bytes) (c : Pwhash.Context) (pwd salt secret ad : Bytes)
    (type : UInt32) : Bytes :=
  let st := fun (x : Nat) => CoresRef.store32_le (UInt32.ofNat x)
  H ARGON2_PREHASH_DIGEST_LENGTH <|
    st c.lanes ++ st c.outlen ++ st c.m_cost ++ st c.t_cost ++ CoresRef.store32_le ARGON2_VERSION_NUMBER ++
    CoresRef.store32_le type ++
    st c.pwdlen ++ (if c.pwdNull then [] else pwd) ++
    st c.saltlen ++ (if c.saltNull then [] else salt) ++
    st c.secretlen ++ (if c.secretNull then [] else secret) ++
    st c.adlen ++ (if c.adNull then [] else ad)

/-- the body of `for (l = 0; l < instance->lanes; ++l)` in `argon2_fill_first_blocks`; the state is
    (`blockhash`, the memory) -/
def argon2_fill_first_blocks_step (H : Nat → Bytes → Bytes) (inst : Instance) (l : Nat)
    (s : Bytes × Array Block) : Bytes × Array Block :=
  let blockhash := s.1
  let memory := s.2
  let l32 := UInt32.ofNat l
  -- STORE32_LE(blockhash + 64, 0); STORE32_LE(blockhash + 68, l);
  let blockhash := blockhash.take 64 ++ CoresRef.store32_le 0 ++ blockhash.drop 68
  let blockhash := blockhash.take 68 ++ CoresRef.store32_le l32 ++ blockhash.drop 72
  let blockhash_bytes := (blake2b_long H ARGON2_BLOCK_SIZE (blockhash.take ARGON2_PREHASH_SEED_LENGTH)).2
  let memory := memory.set! (l32 * inst.lane_length + 0).toNat (load_block blockhash_bytes)
  -- STORE32_LE(blockhash + 64, 1);
  let blockhash := blockhash.take 64 ++ CoresRef.store32_le 1 ++ blockhash.drop 68
  let blockhash_bytes := (blake2b_long H ARGON2_BLOCK_SIZE (blockhash.take ARGON2_PREHASH_SEED_LENGTH)).2
  let memory := memory.set! (l32 * inst.lane_length + 1).toNat (load_block blockhash_bytes)
  (blockhash, memory)

/-- `argon2_fill_first_blocks(blockhash, instance)`; `blockhash` = the 72-byte seed buffer -/
def argon2_fill_first_blocks (H : Nat → Bytes → Bytes) (blockhash : Bytes) (inst : Instance)
    (memory : Array Block) : Array Block :=
  (forLoop (argon2_fill_first_blocks_step H inst) inst.lanes.toNat 0 (blockhash, memory)).2

/-- `argon2_initialize(instance, context)`: allocation (`pseudo_rands`: `segment_length` words, the
    memory: `memory_blocks` blocks; uninitialised in C, zero here), H_0, the first two blocks per lane -/
def argon2_initialize (H : Nat → Bytes → Bytes) (inst : Instance) (c : Pwhash.Context)
    (pwd salt secret ad : Bytes) : State :=
  let pseudo_rands : Array UInt64 := Array.replicate inst.segment_length.toNat 0
  let memory : Array Block := Array.replicate inst.memory_blocks.toNat (Array.replicate 128 0)
  let blockhash := argon2_initial_hash H c pwd salt secret ad inst.type
  -- sodium_memzero(blockhash + 64, 8)
  let blockhash := blockhash.take 64 ++ zeros 8
  { memory := argon2_fill_first_blocks H blockhash inst memory, pseudo_rands := pseudo_rands }

/-- `argon2_finalize(context, instance)`: the `outlen` bytes written to `context->out` -/
def argon2_finalize (H : Nat → Bytes → Bytes) (outlen : UInt32) (inst : Instance) (st : State) : Bytes :=
  let blockhash := copy_block st.memory[(inst.lane_length - 1).toNat]!
  -- XOR the last blocks
  let blockhash := forLoop (fun l blockhash =>
    let last_block_in_lane : UInt32 := UInt32.ofNat l * inst.lane_length + (inst.lane_length - 1)
    xor_block blockhash st.memory[last_block_in_lane.toNat]!) (inst.lanes.toNat - 1) 1 blockhash
  let blockhash_bytes := store_block blockhash
  (blake2b_long H outlen.toNat blockhash_bytes).2

/-! ### argon2.c: argon2_ctx after the validation -/

/-- steps 2–5 of `argon2_ctx(context, type)` for a context that passed `argon2_validate_inputs`
    (so all its `uint32_t` fields are below 2^32): the tag written to `context->out` -/
def argon2_ctx_core (H : Nat → Bytes → Bytes) (c : Pwhash.Context) (pwd salt secret ad : Bytes)
    (type : UInt32) : Bytes :=
  -- 2. Align memory size
  let I := Pwhash.argon2_instance (UInt32.ofNat c.t_cost) (UInt32.ofNat c.m_cost) (UInt32.ofNat c.lanes)
    (UInt32.ofNat c.threads)
  let inst : Instance :=
    { passes := I.passes, memory_blocks := I.memory_blocks, segment_length := I.segment_length,
      lane_length := I.lane_length, lanes := I.lanes, threads := I.threads, type := type }
  -- 3. Initialization: Hashing inputs, allocating memory, filling first blocks
  let st := argon2_initialize H inst c pwd salt secret ad
  -- 4. Filling memory
  let st := forLoop (fun pass st => argon2_fill_memory_blocks inst (UInt32.ofNat pass) st) inst.passes.toNat 0 st
  -- 5. Finalization
  argon2_finalize H (UInt32.ofNat c.outlen) inst st

/-- the Argon2 core in the shape of `Pwhash.Prims.argon2`: what `argon2_hash` → `argon2_ctx` computes
    for (type y, password, salt, t, m, lanes, tag length) with `secret = ad = NULL` -/
def argon2_hash_ref_model (H : Nat → Bytes → Bytes) (y : Nat) (pwd salt : Bytes) (t m lanes outlen : Nat) : Bytes :=
  argon2_ctx_core H
    { outlen := outlen, pwdlen := pwd.length, saltlen := salt.length, t_cost := t, m_cost := m,
      lanes := lanes, threads := lanes }
    pwd salt [] [] (UInt32.ofNat y)

end Sodium.Model.Argon2Ref
