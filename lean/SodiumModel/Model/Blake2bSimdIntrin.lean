import SodiumModel.Basic
/-
  The SSE2 / SSSE3 / SSE4.1 / AVX2 intrinsics used by libsodium's SIMD BLAKE2b compression
  functions (`crypto_generichash/blake2b/ref/blake2b-compress-{avx2,ssse3,sse41}.{c,h}` and
  `blake2b-load-{avx2,sse2,sse41}.h`), as explicit functions on vectors of lanes.

  TRUSTED BASE.  These definitions are transcriptions of the "Operation" pseudo-code of the Intel
  Intrinsics Guide / Intel SDM (quoted in each doc-comment); nothing is proved ABOUT them, they are the
  meaning given to the intrinsic calls in the C source.  Each one is validated against the real CPU
  by `simdcheck/simd_vectors.c` (gcc -mavx2 …) + `simdcheck/SimdCheck.lean` (see `simdcheck/run.sh`).

  Representation: ONE canonical representation per register type
    `__m128i` = `M128` = two 64-bit lanes `q0` (bits 63:0), `q1` (bits 127:64);
    `__m256i` = `M256` = two 128-bit lanes `lo` (bits 127:0), `hi` (bits 255:128);
  and explicit reinterpretation functions (`epi64 / epi32 / epi16 / epi8` read lane `j` of a view,
  `ofEpi64 / ofEpi32 / ofEpi16 / ofEpi8` assemble a register from the lanes of a view).  Lane `j` of
  a `w`-bit view is bits `w*j + w - 1 : w*j` (x86 is little-endian: byte `j` of the register is byte
  `j` of its memory image).  Core Lean only.
-/
namespace Sodium.Model.Blake2bSimd

/-- `__m128i` -/
structure M128 where
  /-- bits 63:0 -/
  q0 : UInt64
  /-- bits 127:64 -/
  q1 : UInt64
  deriving DecidableEq, Repr, Inhabited

/-- `__m256i` -/
structure M256 where
  /-- bits 127:0 -/
  lo : M128
  /-- bits 255:128 -/
  hi : M128
  deriving DecidableEq, Repr, Inhabited

/-! ### reinterpretation (views) -/
namespace M128

/-- 64-bit lane `j` (`a[64j+63 : 64j]`), `j < 2` -/
@[inline] def epi64 (a : M128) (j : Nat) : UInt64 :=
  match j with
  | 0 => a.q0
  | 1 => a.q1
  | _ => 0

/-- the register whose 64-bit lane `j` is `f j` -/
@[inline] def ofEpi64 (f : Nat → UInt64) : M128 := ⟨f 0, f 1⟩

/-- 32-bit lane `j` (`a[32j+31 : 32j]`), `j < 4` -/
@[inline] def epi32 (a : M128) (j : Nat) : UInt32 := (a.epi64 (j / 2) >>> UInt64.ofNat (32 * (j % 2))).toUInt32

/-- the register whose 32-bit lane `j` is `f j` -/
@[inline] def ofEpi32 (f : Nat → UInt32) : M128 :=
  ofEpi64 fun k => (f (2 * k + 0)).toUInt64 ||| ((f (2 * k + 1)).toUInt64 <<< 32)

/-- 16-bit lane `j` (`a[16j+15 : 16j]`), `j < 8` -/
@[inline] def epi16 (a : M128) (j : Nat) : UInt16 := (a.epi64 (j / 4) >>> UInt64.ofNat (16 * (j % 4))).toUInt16

/-- the register whose 16-bit lane `j` is `f j` -/
@[inline] def ofEpi16 (f : Nat → UInt16) : M128 :=
  ofEpi64 fun k => (f (4 * k + 0)).toUInt64 ||| ((f (4 * k + 1)).toUInt64 <<< 16)
    ||| ((f (4 * k + 2)).toUInt64 <<< 32) ||| ((f (4 * k + 3)).toUInt64 <<< 48)

/-- byte `j` (`a[8j+7 : 8j]`), `j < 16` -/
@[inline] def epi8 (a : M128) (j : Nat) : UInt8 := (a.epi64 (j / 8) >>> UInt64.ofNat (8 * (j % 8))).toUInt8

/-- the register whose byte `j` is `f j` -/
@[inline] def ofEpi8 (f : Nat → UInt8) : M128 :=
  ofEpi64 fun k => (f (8 * k + 0)).toUInt64 ||| ((f (8 * k + 1)).toUInt64 <<< 8)
    ||| ((f (8 * k + 2)).toUInt64 <<< 16) ||| ((f (8 * k + 3)).toUInt64 <<< 24)
    ||| ((f (8 * k + 4)).toUInt64 <<< 32) ||| ((f (8 * k + 5)).toUInt64 <<< 40)
    ||| ((f (8 * k + 6)).toUInt64 <<< 48) ||| ((f (8 * k + 7)).toUInt64 <<< 56)

end M128

namespace M256

/-- 128-bit lane `k` (`a[128k+127 : 128k]`), `k < 2` -/
@[inline] def lane (a : M256) (k : Nat) : M128 :=
  match k with
  | 0 => a.lo
  | 1 => a.hi
  | _ => ⟨0, 0⟩

/-- 64-bit lane `j`, `j < 4` -/
@[inline] def epi64 (a : M256) (j : Nat) : UInt64 := (a.lane (j / 2)).epi64 (j % 2)
@[inline] def ofEpi64 (f : Nat → UInt64) : M256 := ⟨M128.ofEpi64 f, M128.ofEpi64 fun j => f (j + 2)⟩
/-- 32-bit lane `j`, `j < 8` -/
@[inline] def epi32 (a : M256) (j : Nat) : UInt32 := (a.lane (j / 4)).epi32 (j % 4)
@[inline] def ofEpi32 (f : Nat → UInt32) : M256 := ⟨M128.ofEpi32 f, M128.ofEpi32 fun j => f (j + 4)⟩
/-- byte `j`, `j < 32` -/
@[inline] def epi8 (a : M256) (j : Nat) : UInt8 := (a.lane (j / 16)).epi8 (j % 16)
@[inline] def ofEpi8 (f : Nat → UInt8) : M256 := ⟨M128.ofEpi8 f, M128.ofEpi8 fun j => f (j + 16)⟩

end M256

/-! ### xmmintrin.h -/

/-- `#define _MM_SHUFFLE(fp3,fp2,fp1,fp0) (((fp3) << 6) | ((fp2) << 4) | ((fp1) << 2) | (fp0))` -/
@[inline] def _MM_SHUFFLE (fp3 fp2 fp1 fp0 : Nat) : Nat := (fp3 <<< 6) ||| (fp2 <<< 4) ||| (fp1 <<< 2) ||| fp0

/-! ### SSE2 (emmintrin.h) -/

/-- `_mm_loadu_si128((const __m128i *) p)` with `p = mem + off`, `mem` a byte buffer:
    `dst[127:0] := MEM[mem_addr+127:mem_addr]` (bytes past the end of the model buffer read 0). -/
@[inline] def _mm_loadu_si128 (mem : Array UInt8) (off : Nat) : M128 := M128.ofEpi8 fun j => mem.getD (off + j) 0

/-- `_mm_loadu_si128((const __m128i *) &mem[i])` with `mem` a `uint64_t` array: the 16 bytes at
    `&mem[i]` are, on the little-endian x86, the bytes of `mem[i]` then `mem[i+1]`, i.e. the 64-bit
    lanes of the result are `mem[i]`, `mem[i+1]`. -/
@[inline] def _mm_loadu_si128_u64 (mem : Array UInt64) (i : Nat) : M128 := M128.ofEpi64 fun j => mem.getD (i + j) 0

/-- `_mm_storeu_si128((__m128i *) &mem[i], a)` with `mem` a `uint64_t` array:
    `MEM[mem_addr+127:mem_addr] := a[127:0]` -/
@[inline] def _mm_storeu_si128_u64 (mem : Array UInt64) (i : Nat) (a : M128) : Array UInt64 :=
  (mem.setIfInBounds (i + 0) (a.epi64 0)).setIfInBounds (i + 1) (a.epi64 1)

/-- `((const uint64_t *) block)[i]`: an 8-byte load in host (little-endian) byte order -/
@[inline] def loadu64 (mem : Array UInt8) (off : Nat) : UInt64 := (_mm_loadu_si128 mem off).epi64 0

/-- `_mm_set_epi64x(e1, e0)`: `dst[63:0] := e0; dst[127:64] := e1` -/
@[inline] def _mm_set_epi64x (e1 e0 : UInt64) : M128 := M128.ofEpi64 fun j => [e0, e1].getD j 0

/-- `_mm_setr_epi8(e0, …, e15)`: `dst[7:0] := e0; dst[15:8] := e1; …; dst[127:120] := e15` -/
@[inline] def _mm_setr_epi8 (e0 e1 e2 e3 e4 e5 e6 e7 e8 e9 e10 e11 e12 e13 e14 e15 : UInt8) : M128 :=
  M128.ofEpi8 fun j => [e0, e1, e2, e3, e4, e5, e6, e7, e8, e9, e10, e11, e12, e13, e14, e15].getD j 0

/-- `_mm_add_epi64(a, b)`: `FOR j := 0 to 1; i := j*64; dst[i+63:i] := a[i+63:i] + b[i+63:i]; ENDFOR` -/
@[inline] def _mm_add_epi64 (a b : M128) : M128 := M128.ofEpi64 fun j => a.epi64 j + b.epi64 j

/-- `_mm_xor_si128(a, b)`: `dst[127:0] := (a[127:0] XOR b[127:0])` -/
@[inline] def _mm_xor_si128 (a b : M128) : M128 := M128.ofEpi64 fun j => a.epi64 j ^^^ b.epi64 j

/-- `_mm_srli_epi64(a, imm8)`:
    `FOR j := 0 to 1; i := j*64; IF imm8[7:0] > 63 dst[i+63:i] := 0
     ELSE dst[i+63:i] := ZeroExtend64(a[i+63:i] >> imm8[7:0]) FI; ENDFOR` -/
@[inline] def _mm_srli_epi64 (a : M128) (imm8 : Nat) : M128 :=
  M128.ofEpi64 fun j => if imm8 % 256 > 63 then 0 else a.epi64 j >>> UInt64.ofNat (imm8 % 256)

/-- `_mm_slli_epi64(a, imm8)`:
    `FOR j := 0 to 1; i := j*64; IF imm8[7:0] > 63 dst[i+63:i] := 0
     ELSE dst[i+63:i] := ZeroExtend64(a[i+63:i] << imm8[7:0]) FI; ENDFOR` -/
@[inline] def _mm_slli_epi64 (a : M128) (imm8 : Nat) : M128 :=
  M128.ofEpi64 fun j => if imm8 % 256 > 63 then 0 else a.epi64 j <<< UInt64.ofNat (imm8 % 256)

/-- `_mm_shuffle_epi32(a, imm8)`:
    `DEFINE SELECT4(src, control) { CASE(control[1:0]) OF 0: tmp[31:0] := src[31:0]; 1: tmp[31:0] := src[63:32];
       2: tmp[31:0] := src[95:64]; 3: tmp[31:0] := src[127:96]; ESAC; RETURN tmp[31:0] }
     dst[31:0] := SELECT4(a[127:0], imm8[1:0]); dst[63:32] := SELECT4(a[127:0], imm8[3:2]);
     dst[95:64] := SELECT4(a[127:0], imm8[5:4]); dst[127:96] := SELECT4(a[127:0], imm8[7:6])` -/
@[inline] def _mm_shuffle_epi32 (a : M128) (imm8 : Nat) : M128 :=
  M128.ofEpi32 fun j => a.epi32 ((imm8 >>> (2 * j)) % 4)

/-- `_mm_unpacklo_epi64(a, b)`:
    `DEFINE INTERLEAVE_QWORDS(src1[127:0], src2[127:0]) { dst[63:0] := src1[63:0]; dst[127:64] := src2[63:0] }` -/
@[inline] def _mm_unpacklo_epi64 (a b : M128) : M128 := M128.ofEpi64 fun j => [a.epi64 0, b.epi64 0].getD j 0

/-- `_mm_unpackhi_epi64(a, b)`:
    `DEFINE INTERLEAVE_HIGH_QWORDS(src1[127:0], src2[127:0]) { dst[63:0] := src1[127:64]; dst[127:64] := src2[127:64] }` -/
@[inline] def _mm_unpackhi_epi64 (a b : M128) : M128 := M128.ofEpi64 fun j => [a.epi64 1, b.epi64 1].getD j 0

/-! ### SSSE3 (tmmintrin.h) -/

/-- `_mm_shuffle_epi8(a, b)`:
    `FOR j := 0 to 15; i := j*8; IF b[i+7] == 1 dst[i+7:i] := 0
     ELSE index[3:0] := b[i+3:i]; dst[i+7:i] := a[index*8+7:index*8] FI; ENDFOR` -/
@[inline] def _mm_shuffle_epi8 (a b : M128) : M128 :=
  M128.ofEpi8 fun j => if b.epi8 j &&& 0x80 ≠ 0 then 0 else a.epi8 (b.epi8 j &&& 0x0F).toNat

/-- `_mm_alignr_epi8(a, b, imm8)`:
    `tmp[255:0] := ((a[127:0] << 128)[255:0] OR b[127:0]) >> (imm8*8); dst[127:0] := tmp[127:0]`
    (byte `j` of the result is byte `j + imm8` of the 32-byte concatenation `b ‖ a`, or 0 past its end) -/
@[inline] def _mm_alignr_epi8 (a b : M128) (imm8 : Nat) : M128 :=
  M128.ofEpi8 fun j =>
    let k := j + imm8 % 256
    if k < 16 then b.epi8 k else if k < 32 then a.epi8 (k - 16) else 0

/-! ### SSE4.1 (smmintrin.h) -/

/-- `_mm_blend_epi16(a, b, imm8)`:
    `FOR j := 0 to 7; i := j*16; IF imm8[j] dst[i+15:i] := b[i+15:i] ELSE dst[i+15:i] := a[i+15:i] FI; ENDFOR` -/
@[inline] def _mm_blend_epi16 (a b : M128) (imm8 : Nat) : M128 :=
  M128.ofEpi16 fun j => if imm8.testBit j then b.epi16 j else a.epi16 j

/-! ### AVX / AVX2 (immintrin.h) -/

/-- `_mm256_loadu_si256((const __m256i *) &mem[i])` / `_mm256_load_si256` with `mem` a `uint64_t`
    array: `dst[255:0] := MEM[mem_addr+255:mem_addr]`; on the little-endian x86 the 64-bit lanes of
    the result are `mem[i] … mem[i+3]`. -/
@[inline] def _mm256_loadu_si256_u64 (mem : Array UInt64) (i : Nat) : M256 := M256.ofEpi64 fun j => mem.getD (i + j) 0

/-- `_mm256_storeu_si256((__m256i *) &mem[i], a)` with `mem` a `uint64_t` array:
    `MEM[mem_addr+255:mem_addr] := a[255:0]` -/
@[inline] def _mm256_storeu_si256_u64 (mem : Array UInt64) (i : Nat) (a : M256) : Array UInt64 :=
  (((mem.setIfInBounds (i + 0) (a.epi64 0)).setIfInBounds (i + 1) (a.epi64 1)).setIfInBounds (i + 2)
    (a.epi64 2)).setIfInBounds (i + 3) (a.epi64 3)

/-- `_mm256_broadcastsi128_si256(a)`: `dst[127:0] := a[127:0]; dst[255:128] := a[127:0]` -/
@[inline] def _mm256_broadcastsi128_si256 (a : M128) : M256 := ⟨a, a⟩

/-- `_mm256_set_epi64x(e3, e2, e1, e0)`: `dst[63:0] := e0; dst[127:64] := e1; dst[191:128] := e2; dst[255:192] := e3` -/
@[inline] def _mm256_set_epi64x (e3 e2 e1 e0 : UInt64) : M256 := M256.ofEpi64 fun j => [e0, e1, e2, e3].getD j 0

/-- `_mm256_setr_epi8(e0, …, e31)`: `dst[7:0] := e0; …; dst[255:248] := e31` -/
@[inline] def _mm256_setr_epi8 (e0 e1 e2 e3 e4 e5 e6 e7 e8 e9 e10 e11 e12 e13 e14 e15
    e16 e17 e18 e19 e20 e21 e22 e23 e24 e25 e26 e27 e28 e29 e30 e31 : UInt8) : M256 :=
  M256.ofEpi8 fun j => [e0, e1, e2, e3, e4, e5, e6, e7, e8, e9, e10, e11, e12, e13, e14, e15,
    e16, e17, e18, e19, e20, e21, e22, e23, e24, e25, e26, e27, e28, e29, e30, e31].getD j 0

/-- `_mm256_add_epi64(a, b)`: `FOR j := 0 to 3; i := j*64; dst[i+63:i] := a[i+63:i] + b[i+63:i]; ENDFOR` -/
@[inline] def _mm256_add_epi64 (a b : M256) : M256 := M256.ofEpi64 fun j => a.epi64 j + b.epi64 j

/-- `_mm256_xor_si256(a, b)`: `dst[255:0] := (a[255:0] XOR b[255:0])` -/
@[inline] def _mm256_xor_si256 (a b : M256) : M256 := M256.ofEpi64 fun j => a.epi64 j ^^^ b.epi64 j

/-- `_mm256_or_si256(a, b)`: `dst[255:0] := (a[255:0] OR b[255:0])` -/
@[inline] def _mm256_or_si256 (a b : M256) : M256 := M256.ofEpi64 fun j => a.epi64 j ||| b.epi64 j

/-- `_mm256_srli_epi64(a, imm8)`:
    `FOR j := 0 to 3; i := j*64; IF imm8[7:0] > 63 dst[i+63:i] := 0
     ELSE dst[i+63:i] := ZeroExtend64(a[i+63:i] >> imm8[7:0]) FI; ENDFOR` -/
@[inline] def _mm256_srli_epi64 (a : M256) (imm8 : Nat) : M256 :=
  M256.ofEpi64 fun j => if imm8 % 256 > 63 then 0 else a.epi64 j >>> UInt64.ofNat (imm8 % 256)

/-- `_mm256_shuffle_epi32(a, imm8)`: the SELECT4 of `_mm_shuffle_epi32` applied within each 128-bit lane:
    `dst[31:0] := SELECT4(a[127:0], imm8[1:0]); … dst[127:96] := SELECT4(a[127:0], imm8[7:6]);
     dst[159:128] := SELECT4(a[255:128], imm8[1:0]); … dst[255:224] := SELECT4(a[255:128], imm8[7:6])` -/
@[inline] def _mm256_shuffle_epi32 (a : M256) (imm8 : Nat) : M256 :=
  ⟨_mm_shuffle_epi32 a.lo imm8, _mm_shuffle_epi32 a.hi imm8⟩

/-- `_mm256_shuffle_epi8(a, b)`:
    `FOR j := 0 to 15; i := j*8;
       IF b[i+7] == 1 dst[i+7:i] := 0 ELSE index[3:0] := b[i+3:i]; dst[i+7:i] := a[index*8+7:index*8] FI
       IF b[128+i+7] == 1 dst[128+i+7:128+i] := 0
       ELSE index[3:0] := b[128+i+3:128+i]; dst[128+i+7:128+i] := a[128+index*8+7:128+index*8] FI
     ENDFOR` (the 128-bit shuffle within each 128-bit lane) -/
@[inline] def _mm256_shuffle_epi8 (a b : M256) : M256 := ⟨_mm_shuffle_epi8 a.lo b.lo, _mm_shuffle_epi8 a.hi b.hi⟩

/-- `_mm256_alignr_epi8(a, b, imm8)`:
    `FOR j := 0 to 1; i := j*128; tmp[255:0] := ((a[i+127:i] << 128)[255:0] OR b[i+127:i]) >> (imm8*8);
     dst[i+127:i] := tmp[127:0]; ENDFOR` -/
@[inline] def _mm256_alignr_epi8 (a b : M256) (imm8 : Nat) : M256 :=
  ⟨_mm_alignr_epi8 a.lo b.lo imm8, _mm_alignr_epi8 a.hi b.hi imm8⟩

/-- `_mm256_unpacklo_epi64(a, b)`: `dst[127:0] := INTERLEAVE_QWORDS(a[127:0], b[127:0]);
    dst[255:128] := INTERLEAVE_QWORDS(a[255:128], b[255:128])` -/
@[inline] def _mm256_unpacklo_epi64 (a b : M256) : M256 := ⟨_mm_unpacklo_epi64 a.lo b.lo, _mm_unpacklo_epi64 a.hi b.hi⟩

/-- `_mm256_unpackhi_epi64(a, b)`: `dst[127:0] := INTERLEAVE_HIGH_QWORDS(a[127:0], b[127:0]);
    dst[255:128] := INTERLEAVE_HIGH_QWORDS(a[255:128], b[255:128])` -/
@[inline] def _mm256_unpackhi_epi64 (a b : M256) : M256 := ⟨_mm_unpackhi_epi64 a.lo b.lo, _mm_unpackhi_epi64 a.hi b.hi⟩

/-- `_mm256_blend_epi32(a, b, imm8)`:
    `FOR j := 0 to 7; i := j*32; IF imm8[j] dst[i+31:i] := b[i+31:i] ELSE dst[i+31:i] := a[i+31:i] FI; ENDFOR` -/
@[inline] def _mm256_blend_epi32 (a b : M256) (imm8 : Nat) : M256 :=
  M256.ofEpi32 fun j => if imm8.testBit j then b.epi32 j else a.epi32 j

/-- `_mm256_permute4x64_epi64(a, imm8)`:
    `DEFINE SELECT4(src, control) { CASE(control[1:0]) OF 0: tmp[63:0] := src[63:0]; 1: tmp[63:0] := src[127:64];
       2: tmp[63:0] := src[191:128]; 3: tmp[63:0] := src[255:192]; ESAC; RETURN tmp[63:0] }
     dst[63:0] := SELECT4(a[255:0], imm8[1:0]); dst[127:64] := SELECT4(a[255:0], imm8[3:2]);
     dst[191:128] := SELECT4(a[255:0], imm8[5:4]); dst[255:192] := SELECT4(a[255:0], imm8[7:6])` -/
@[inline] def _mm256_permute4x64_epi64 (a : M256) (imm8 : Nat) : M256 :=
  M256.ofEpi64 fun j => a.epi64 ((imm8 >>> (2 * j)) % 4)

end Sodium.Model.Blake2bSimd
