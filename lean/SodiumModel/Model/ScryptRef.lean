import SodiumModel.Basic
import SodiumModel.Model.Hash
import SodiumModel.Model.Pwhash
/-
  The REFERENCE (non-SSE) scrypt core of libsodium, modelled statement by statement:

  * `crypto_pwhash/scryptsalsa208sha256/nosse/pwhash_scryptsalsa208sha256_nosse.c`:
    `blkcpy`, `blkxor`, `salsa20_8`, `blockmix_salsa8`, `integerify`, `smix`, `escrypt_kdf_nosse`
  * `crypto_pwhash/scryptsalsa208sha256/pbkdf2-sha256.c`: `escrypt_PBKDF2_SHA256`
  * `crypto_pwhash/scryptsalsa208sha256/crypto_scrypt-common.c`: `crypto_pwhash_scryptsalsa208sha256_ll`
    (the nosse branch)
  * `include/sodium/private/common.h`: `load32_le`, `store32_le`, `store32_be` (portable branches)

  Conventions
  * `uint32_t` = `UInt32`, `uint64_t` = `size_t` = `unsigned long long` = `UInt64` (64-bit target), all
    wrapping. Every index expression of the C code (`(2 * r - 1) * 16`, `i * 8 + r * 16`, `j * (32 * r)`,
    `(size_t) 128 * i * r`, …) is computed in `UInt64` as written and only then used as an offset.
  * a C array / pointer is an `Array` plus an offset (`Nat`, the `.toNat` of the C index expression);
    `p[i]` is `p.getD (off + i) 0`, `p[i] = e` is `p.setIfInBounds (off + i) e`, so an out-of-bounds access in
    the model is visible (a read of 0 / a dropped write) rather than hidden.
  * a `for (i = a; i < n; i += s)` loop with an unsigned counter is `forU64 n s body fuel a`: the counter is
    a wrapping `UInt64`, `fuel` only bounds the number of iterations (always passed as `n.toNat`, which is
    enough whenever `i += s` does not wrap).
  * the scratch region `local->aligned` of `escrypt_kdf_nosse` is `B ‖ V ‖ XY` with `XY = X ‖ Y ‖ Z`
    (`X = XY`, `Y = &XY[32 * r]`, `Z = &XY[64 * r]`): the model keeps the five sub-buffers `B`, `V`, `X`, `Y`, `Z`
    as five arrays of exactly these sizes (`region_layout` in Properties/C08Scrypt.lean shows the sizes add
    up to the `need` the C code allocates); `mmap` success is a parameter (`allocOk`).
  * HMAC-SHA-256 is `Model/Hash.lean`'s `hmacInit` / `hmacUpdate` / `hmacFinal` over a streaming hash `H`.
  Core Lean only.
-/
namespace Sodium.Model.ScryptRef
open Sodium Sodium.Model

/-! ### loops -/

/-- `for (i = i0; i < n; i += step) s = body(i, s);` with a wrapping 64-bit unsigned counter -/
@[specialize] def forU64 {α : Type} (n step : UInt64) (body : UInt64 → α → α) : Nat → UInt64 → α → α
  | 0, _, s => s
  | fuel + 1, i, s => if i < n then forU64 n step body fuel (i + step) (body i s) else s

/-- `for (i = i0; i < n; i++) s = body(i, s);` with `uint32_t i` compared against a `size_t n`
    (the comparison converts `i` to `size_t`) -/
@[specialize] def forU32 {α : Type} (n : UInt64) (body : UInt32 → α → α) : Nat → UInt32 → α → α
  | 0, _, s => s
  | fuel + 1, i, s => if i.toUInt64 < n then forU32 n body fuel (i + 1) (body i s) else s

/-! ### private/common.h -/

/-- `load32_le(src)` (portable branch; the `memcpy` branch is the same value on a little-endian host) -/
def load32_le (src : Array UInt8) (off : Nat) : UInt32 :=
  let w : UInt32 := (src.getD (off + 0) 0).toUInt32
  let w := w ||| ((src.getD (off + 1) 0).toUInt32 <<< 8)
  let w := w ||| ((src.getD (off + 2) 0).toUInt32 <<< 16)
  let w := w ||| ((src.getD (off + 3) 0).toUInt32 <<< 24)
  w

/-- `store32_le(dst, w)`: `dst[0] = (uint8_t) w; w >>= 8; dst[1] = (uint8_t) w; …` -/
def store32_le (dst : Array UInt8) (off : Nat) (w : UInt32) : Array UInt8 :=
  let dst := dst.setIfInBounds (off + 0) w.toUInt8
  let w := w >>> 8
  let dst := dst.setIfInBounds (off + 1) w.toUInt8
  let w := w >>> 8
  let dst := dst.setIfInBounds (off + 2) w.toUInt8
  let w := w >>> 8
  let dst := dst.setIfInBounds (off + 3) w.toUInt8
  dst

/-- `store32_be(dst, w)` into a fresh 4-byte array: `dst[3] = (uint8_t) w; w >>= 8; dst[2] = …` -/
def store32_be (w : UInt32) : Bytes :=
  let d3 := w.toUInt8
  let w := w >>> 8
  let d2 := w.toUInt8
  let w := w >>> 8
  let d1 := w.toUInt8
  let w := w >>> 8
  let d0 := w.toUInt8
  [d0, d1, d2, d3]

/-! ### pwhash_scryptsalsa208sha256_nosse.c -/

/-- `blkcpy(dest, src, len)`: `memcpy(dest, src, len * 64)`, i.e. `len * 64 / 4` words;
    `dest` = `dest + doff`, `src` = `src + soff` -/
def blkcpy (dest : Array UInt32) (doff : Nat) (src : Array UInt32) (soff : Nat) (len : UInt64) : Array UInt32 :=
  forU64 (len * 64 / 4) 1 (fun i dest => dest.setIfInBounds (doff + i.toNat) (src.getD (soff + i.toNat) 0))
    (len * 64 / 4).toNat 0 dest

/-- `blkxor(dest, src, len)`: `for (i = 0; i < len * 16; i++) dest[i] ^= src[i];` -/
def blkxor (dest : Array UInt32) (doff : Nat) (src : Array UInt32) (soff : Nat) (len : UInt64) : Array UInt32 :=
  forU64 (len * 16) 1
    (fun i dest => dest.setIfInBounds (doff + i.toNat) (dest.getD (doff + i.toNat) 0 ^^^ src.getD (soff + i.toNat) 0))
    (len * 16).toNat 0 dest

/-- `#define R(a, b) (((a) << (b)) | ((a) >> (32 - (b))))` -/
@[inline] def R (a b : UInt32) : UInt32 := (a <<< b) ||| (a >>> (32 - b))

/-- one statement `x[t] ^= R(x[a] + x[b], k);` -/
@[inline] def xr (x : Array UInt32) (t a b : Nat) (k : UInt32) : Array UInt32 :=
  x.setIfInBounds t (x.getD t 0 ^^^ R (x.getD a 0 + x.getD b 0) k)

/-- the body of `for (i = 0; i < 8; i += 2) { … }` in `salsa20_8` -/
def salsa20_8_body (x : Array UInt32) : Array UInt32 :=
  /- Operate on columns. -/
  let x := xr x 4 0 12 7
  let x := xr x 8 4 0 9
  let x := xr x 12 8 4 13
  let x := xr x 0 12 8 18

  let x := xr x 9 5 1 7
  let x := xr x 13 9 5 9
  let x := xr x 1 13 9 13
  let x := xr x 5 1 13 18

  let x := xr x 14 10 6 7
  let x := xr x 2 14 10 9
  let x := xr x 6 2 14 13
  let x := xr x 10 6 2 18

  let x := xr x 3 15 11 7
  let x := xr x 7 3 15 9
  let x := xr x 11 7 3 13
  let x := xr x 15 11 7 18

  /- Operate on rows. -/
  let x := xr x 1 0 3 7
  let x := xr x 2 1 0 9
  let x := xr x 3 2 1 13
  let x := xr x 0 3 2 18

  let x := xr x 6 5 4 7
  let x := xr x 7 6 5 9
  let x := xr x 4 7 6 13
  let x := xr x 5 4 7 18

  let x := xr x 11 10 9 7
  let x := xr x 8 11 10 9
  let x := xr x 9 8 11 13
  let x := xr x 10 9 8 18

  let x := xr x 12 15 14 7
  let x := xr x 13 12 15 9
  let x := xr x 14 13 12 13
  let x := xr x 15 14 13 18
  x

/-- `salsa20_8(B)`: `uint32_t x[16]` (uninitialised, here zeros); `blkcpy(x, B, 1)`; four double rounds;
    `for (i = 0; i < 16; i++) B[i] += x[i];` -/
def salsa20_8 (B : Array UInt32) : Array UInt32 :=
  let x : Array UInt32 := Array.replicate 16 0
  let x := blkcpy x 0 B 0 1
  let x := forU64 8 2 (fun _ x => salsa20_8_body x) 8 0 x
  forU64 16 1 (fun i B => B.setIfInBounds i.toNat (B.getD i.toNat 0 + x.getD i.toNat 0)) 16 0 B

/-- `blockmix_salsa8(Bin, Bout, X, r)`; returns the new contents of `(Bout, X)` -/
def blockmix_salsa8 (Bin Bout X : Array UInt32) (r : UInt64) : Array UInt32 × Array UInt32 :=
  /- 1: X <-- B_{2r - 1} -/
  let X := blkcpy X 0 Bin ((2 * r - 1) * 16).toNat 1
  /- 2: for i = 0 to 2r - 1 do -/
  forU64 (2 * r) 2 (fun i s =>
    match s with
    | (Bout, X) =>
      /- 3: X <-- H(X \xor B_i) -/
      let X := blkxor X 0 Bin (i * 16).toNat 1
      let X := salsa20_8 X
      /- 4: Y_i <-- X;  6: B' <-- (Y_0, Y_2 ... Y_{2r-2}, Y_1, Y_3 ... Y_{2r-1}) -/
      let Bout := blkcpy Bout (i * 8).toNat X 0 1
      /- 3: X <-- H(X \xor B_i) -/
      let X := blkxor X 0 Bin (i * 16 + 16).toNat 1
      let X := salsa20_8 X
      /- 4, 6 -/
      let Bout := blkcpy Bout (i * 8 + r * 16).toNat X 0 1
      (Bout, X)) (2 * r).toNat 0 (Bout, X)

/-- `integerify(B, r)`: `X = B + (2 * r - 1) * 16; return ((uint64_t) (X[1]) << 32) + X[0];` -/
def integerify (B : Array UInt32) (r : UInt64) : UInt64 :=
  let X := ((2 * r - 1) * 16).toNat
  ((B.getD (X + 1) 0).toUInt64 <<< 32) + (B.getD (X + 0) 0).toUInt64

/-- the buffers `smix` works on: `B` (bytes), `V`, and `XY` split as `X = XY`, `Y = &XY[32 * r]`,
    `Z = &XY[64 * r]` -/
structure Mem where
  B : Array UInt8
  V : Array UInt32
  X : Array UInt32
  Y : Array UInt32
  Z : Array UInt32

/-- body of the first loop of `smix` (counter `i`); the state is `(V, X, Y, Z)` -/
def smix_loop1_body (r : UInt64) (i : UInt64) (s : Array UInt32 × Array UInt32 × Array UInt32 × Array UInt32) :
    Array UInt32 × Array UInt32 × Array UInt32 × Array UInt32 :=
  let V := s.1; let X := s.2.1; let Y := s.2.2.1; let Z := s.2.2.2
  /- 3: V_i <-- X -/
  let V := blkcpy V (i * (32 * r)).toNat X 0 (2 * r)
  /- 4: X <-- H(X) -/
  let YZ := blockmix_salsa8 X Y Z r          -- blockmix_salsa8(X, Y, Z, r)
  let Y := YZ.1; let Z := YZ.2
  /- 3: V_i <-- X -/
  let V := blkcpy V ((i + 1) * (32 * r)).toNat Y 0 (2 * r)
  /- 4: X <-- H(X) -/
  let XZ := blockmix_salsa8 Y X Z r          -- blockmix_salsa8(Y, X, Z, r)
  let X := XZ.1; let Z := XZ.2
  (V, X, Y, Z)

/-- first loop of `smix`: `for (i = 0; i < N; i += 2) { … }` -/
def smix_loop1 (r N : UInt64) (V X Y Z : Array UInt32) :
    Array UInt32 × Array UInt32 × Array UInt32 × Array UInt32 :=
  forU64 N 2 (smix_loop1_body r) N.toNat 0 (V, X, Y, Z)

/-- body of the second loop of `smix` (`V` is only read); the state is `(X, Y, Z)` -/
def smix_loop2_body (r N : UInt64) (V : Array UInt32) (_i : UInt64) (s : Array UInt32 × Array UInt32 × Array UInt32) :
    Array UInt32 × Array UInt32 × Array UInt32 :=
  let X := s.1; let Y := s.2.1; let Z := s.2.2
  /- 7: j <-- Integerify(X) mod N -/
  let j := integerify X r &&& (N - 1)
  /- 8: X <-- H(X \xor V_j) -/
  let X := blkxor X 0 V (j * (32 * r)).toNat (2 * r)
  let YZ := blockmix_salsa8 X Y Z r          -- blockmix_salsa8(X, Y, Z, r)
  let Y := YZ.1; let Z := YZ.2
  /- 7: j <-- Integerify(X) mod N -/
  let j := integerify Y r &&& (N - 1)
  /- 8: X <-- H(X \xor V_j) -/
  let Y := blkxor Y 0 V (j * (32 * r)).toNat (2 * r)
  let XZ := blockmix_salsa8 Y X Z r          -- blockmix_salsa8(Y, X, Z, r)
  let X := XZ.1; let Z := XZ.2
  (X, Y, Z)

/-- second loop of `smix`: `for (i = 0; i < N; i += 2) { … }` -/
def smix_loop2 (r N : UInt64) (V X Y Z : Array UInt32) : Array UInt32 × Array UInt32 × Array UInt32 :=
  forU64 N 2 (smix_loop2_body r N V) N.toNat 0 (X, Y, Z)

/-- `smix(B, r, N, V, XY)` with `B` = `m.B + boff` -/
def smix (m : Mem) (boff : Nat) (r N : UInt64) : Mem :=
  let B := m.B; let V := m.V; let X := m.X; let Y := m.Y; let Z := m.Z
  /- 1: X <-- B -/
  let X := forU64 (32 * r) 1 (fun k X => X.setIfInBounds k.toNat (load32_le B (boff + (4 * k).toNat)))
    (32 * r).toNat 0 X
  /- 2: for i = 0 to N - 1 do -/
  let s1 := smix_loop1 r N V X Y Z
  let V := s1.1; let X := s1.2.1; let Y := s1.2.2.1; let Z := s1.2.2.2
  /- 6: for i = 0 to N - 1 do -/
  let s2 := smix_loop2 r N V X Y Z
  let X := s2.1; let Y := s2.2.1; let Z := s2.2.2
  /- 10: B' <-- X -/
  let B := forU64 (32 * r) 1 (fun k B => store32_le B (boff + (4 * k).toNat) (X.getD k.toNat 0))
    (32 * r).toNat 0 B
  ⟨B, V, X, Y, Z⟩

/-! ### pbkdf2-sha256.c -/

/-- `memcpy(&buf[off], src, n)` on bytes -/
def memcpy8 (buf : Array UInt8) (off : Nat) (src : Bytes) (n : UInt64) : Array UInt8 :=
  forU64 n 1 (fun k buf => buf.setIfInBounds (off + k.toNat) (src.getD k.toNat 0)) n.toNat 0 buf

/-- `for (k = 0; k < 32; k++) T[k] ^= U[k];` (`int k`) -/
def xor32 (T U : Bytes) : Bytes :=
  Nat.fold 32 (fun k _ T => T.set k (T.getD k 0 ^^^ U.getD k 0)) T

/-- the `for (j = 2; j <= c; j++)` loop: `(U, T)` after it (`fuel` bounds the iterations) -/
def pbkdf2_inner {σ : Type} (H : HashOps σ) (passwd : Bytes) (c : UInt64) : Nat → UInt64 → Bytes × Bytes → Bytes × Bytes
  | 0, _, s => s
  | fuel + 1, j, (U, T) =>
    if j ≤ c then
      let hctx := hmacInit H passwd
      let hctx := hmacUpdate H hctx U
      let U := hmacFinal H hctx
      let T := xor32 T U
      pbkdf2_inner H passwd c fuel (j + 1) (U, T)
    else (U, T)

/-- the loop `for (i = 0; i * 32 < dkLen; i++) { … }` of `escrypt_PBKDF2_SHA256` (`size_t i`) -/
def pbkdf2_outer {σ : Type} (H : HashOps σ) (PShctx : HmacState σ) (passwd : Bytes) (c : UInt64) (dkLen : UInt64) :
    Nat → UInt64 → Array UInt8 → Array UInt8
  | 0, _, buf => buf
  | fuel + 1, i, buf =>
    if i * 32 < dkLen then
      let ivec := store32_be (i + 1).toUInt32
      let hctx := PShctx
      let hctx := hmacUpdate H hctx ivec
      let U := hmacFinal H hctx
      let T := U
      let UT := pbkdf2_inner H passwd c c.toNat 2 (U, T)
      let T := UT.2
      let clen := dkLen - i * 32
      let clen := if clen > 32 then 32 else clen
      let buf := memcpy8 buf (i * 32).toNat T clen
      pbkdf2_outer H PShctx passwd c dkLen fuel (i + 1) buf
    else buf

/-- `escrypt_PBKDF2_SHA256(passwd, passwdlen, salt, saltlen, c, buf, dkLen)`: the new contents of `buf`,
    or `none` for `sodium_misuse()` (`dkLen > 0x1fffffffe0`) -/
def escrypt_PBKDF2_SHA256 {σ : Type} (H : HashOps σ) (passwd salt : Bytes) (c : UInt64) (buf : Array UInt8)
    (dkLen : UInt64) : Option (Array UInt8) :=
  if dkLen > 0x1fffffffe0 then none else
  let PShctx := hmacInit H passwd
  let PShctx := hmacUpdate H PShctx salt
  some (pbkdf2_outer H PShctx passwd c dkLen (dkLen.toNat / 32 + 1) 0 buf)

/-! ### escrypt_kdf_nosse -/

/-- `escrypt_kdf_nosse(local, passwd, passwdlen, salt, saltlen, N, _r, _p, buf, buflen)` on a fresh
    `local` (`local->size = 0`, as set up by `escrypt_init_local` in `…_ll` and `escrypt_r`).
    `allocOk need` = `escrypt_alloc_region(local, need)` succeeded. On success `out` = the `buflen` bytes
    written to `buf`. -/
def escrypt_kdf_nosse {σ : Type} (H : HashOps σ) (allocOk : UInt64 → Bool) (passwd salt : Bytes)
    (N : UInt64) (_r _p : UInt32) (buflen : UInt64) : Pwhash.Result :=
  let r : UInt64 := _r.toUInt64
  let p : UInt64 := _p.toUInt64
  /- Sanity-check parameters. -/
  if buflen > (((1 : UInt64) <<< 32) - 1) * 32 then { rc := -1, errno := Pwhash.EFBIG }
  else if r * p ≥ (1 : UInt64) <<< 30 then { rc := -1, errno := Pwhash.EFBIG }
  else if N > 0xffffffff then { rc := -1, errno := Pwhash.EFBIG }
  else if (N &&& (N - 1)) ≠ 0 ∨ N < 2 then { rc := -1, errno := Pwhash.EINVAL }
  else if r = 0 ∨ p = 0 then { rc := -1, errno := Pwhash.EINVAL }
  else if r > 0xffffffffffffffff / 128 / p ∨ N > 0xffffffffffffffff / 128 / r then
    { rc := -1, errno := Pwhash.ENOMEM }
  else
  /- Allocate memory. -/
  let B_size : UInt64 := 128 * r * p
  let V_size : UInt64 := 128 * r * N
  let need := B_size + V_size
  if need < V_size then { rc := -1, errno := Pwhash.ENOMEM } else
  let XY_size : UInt64 := 256 * r + 64
  let need := need + XY_size
  if need < XY_size then { rc := -1, errno := Pwhash.ENOMEM } else
  -- `local->size < need` holds (size = 0 < need); `escrypt_free_region` of the empty region returns 0
  if !allocOk need then { rc := -1, errno := Pwhash.ENOMEM } else
  let B : Array UInt8 := Array.replicate B_size.toNat 0
  let V : Array UInt32 := Array.replicate (V_size / 4).toNat 0
  let X : Array UInt32 := Array.replicate (32 * r).toNat 0
  let Y : Array UInt32 := Array.replicate (32 * r).toNat 0
  let Z : Array UInt32 := Array.replicate 16 0
  /- 1: (B_0 ... B_{p-1}) <-- PBKDF2(P, S, 1, p * MFLen) -/
  match escrypt_PBKDF2_SHA256 H passwd salt 1 B B_size with
  | none => { rc := -1, misuse := true }
  | some B =>
  /- 2: for i = 0 to p - 1 do  3: B_i <-- MF(B_i, N) -/
  let m := forU32 p (fun i m => smix m (128 * i.toUInt64 * r).toNat r N) p.toNat 0 ⟨B, V, X, Y, Z⟩
  /- 5: DK <-- PBKDF2(P, B, 1, dkLen) -/
  match escrypt_PBKDF2_SHA256 H passwd m.B.toList 1 (Array.replicate buflen.toNat 0) buflen with
  | none => { rc := -1, misuse := true }
  | some buf => { rc := 0, out := buf.toList }

/-- `crypto_pwhash_scryptsalsa208sha256_ll` on a machine / build without SSE2 (`escrypt_kdf = escrypt_kdf_nosse`;
    `escrypt_init_local` / `escrypt_free_local` return 0) -/
def crypto_pwhash_scryptsalsa208sha256_ll {σ : Type} (H : HashOps σ) (allocOk : UInt64 → Bool) (passwd salt : Bytes)
    (N : UInt64) (r p : UInt32) (buflen : UInt64) : Pwhash.Result :=
  escrypt_kdf_nosse H allocOk passwd salt N r p buflen

end Sodium.Model.ScryptRef
