import Std.Data.HashMap
import SodiumModel.Model.Alloc
import SodiumModel.Model.Utils
/-
  Byte-and-page-level model of the guarded allocator of sodium/utils.c
  (HAVE_ALIGNED_MALLOC, HAVE_PAGE_PROTECTION, mmap/mprotect/mlock available: the Linux build).

  State = page → protection (unmapped / none / ro / rw), address → byte, the library's static
  `page_size` and `canary[16]`, `errno`, and the log of system calls.  Every load and store of the
  modelled C code goes through `load` / `store`, which return `fault` when the protection of the
  page forbids the access (the kernel's SIGSEGV).  Pointers are `uintptr_t` = UInt64, all pointer
  and `size_t` arithmetic is the wrapping 64-bit arithmetic of the C code.

  What the operating system decides is a parameter: the address returned by `mmap` (`none` =
  MAP_FAILED).  The contents of freshly mapped pages are left as they were in the model (the kernel
  zero-fills them; the code never reads a fresh byte before writing it, and all theorems hold
  whatever the prior contents are).  `mlock`/`munlock`/`madvise` only appear in the call log.
  Data of unmapped pages stays in the `data` map but can no longer be accessed.
-/
namespace Sodium.Model.AllocMem
open Sodium Sodium.Model
open Sodium.Model.Alloc (pageRound Op)

inductive Perm where | unmapped | none | ro | rw deriving DecidableEq, Repr

/-- how a run of library code can end other than by returning -/
inductive Err where
  | fault    -- SIGSEGV delivered by the kernel for a forbidden access
  | abort    -- `_out_of_bounds()` (raise(SIGSEGV); abort()) or a failed `assert`
  | misuse   -- `sodium_misuse()`
  deriving DecidableEq, Repr

/-- system calls with absolute addresses -/
inductive Call where
  | mmap (len ret : UInt64)
  | mprotect (addr len : UInt64) (p : Perm)
  | mlock (addr len : UInt64)       -- sodium_mlock: madvise(MADV_DONTDUMP) + mlock
  | munlock (addr len : UInt64)     -- sodium_munlock: (memzero) + madvise(MADV_DODUMP) + munlock
  | munmap (addr len : UInt64)
  deriving DecidableEq, Repr

structure State where
  pageSize : UInt64                     -- static size_t page_size
  canary : Bytes                        -- static unsigned char canary[CANARY_SIZE]
  prot : Std.HashMap Nat Perm           -- page number → protection (absent = unmapped)
  data : Std.HashMap Nat UInt8          -- address → byte (absent = 0)
  errno : Nat
  log : List Call

def SIZE_MAX : UInt64 := 0xFFFFFFFFFFFFFFFF
/-- `SIZE_MAX - x` in `size_t` arithmetic, written as the bitwise complement (proved equal for every
    `x`: `AllocMemP.sizeMaxSub_eq`); this form keeps the kernel from normalising a 2^64 literal -/
def sizeMaxSub (x : UInt64) : UInt64 := ~~~x
def ENOMEM : Nat := 12
def GARBAGE_VALUE : UInt8 := 0xdb

/-! ### observers -/

def State.perm (s : State) (page : Nat) : Perm := s.prot.getD page .unmapped
def State.byte (s : State) (a : Nat) : UInt8 := s.data.getD a 0
def State.pageOf (s : State) (a : UInt64) : Nat := a.toNat / s.pageSize.toNat

/-! ### the access functions: the only way the model touches memory contents -/

def load (s : State) (a : UInt64) : Except Err UInt8 :=
  match s.perm (s.pageOf a) with
  | .ro => .ok (s.byte a.toNat)
  | .rw => .ok (s.byte a.toNat)
  | _ => .error .fault

def store (s : State) (a : UInt64) (v : UInt8) : Except Err State :=
  match s.perm (s.pageOf a) with
  | .rw => .ok { s with data := s.data.insert a.toNat v }
  | _ => .error .fault

/-- consecutive byte stores `p[0] = b0; p[1] = b1; …` (memcpy / memset / memzero bodies) -/
def storeBytes (s : State) (a : UInt64) : Bytes → Except Err State
  | [] => .ok s
  | b :: bs =>
    match store s a b with
    | .ok s' => storeBytes s' (a + 1) bs
    | .error e => .error e

/-- consecutive byte loads -/
def loadBytes (s : State) (a : UInt64) : Nat → Except Err Bytes
  | 0 => .ok []
  | n + 1 =>
    match load s a with
    | .error e => .error e
    | .ok b =>
      match loadBytes s (a + 1) n with
      | .error e => .error e
      | .ok bs => .ok (b :: bs)

/-- `memcpy(dst, src, n)` with the source already loaded -/
def memcpy (s : State) (dst : UInt64) (src : Bytes) : Except Err State := storeBytes s dst src
/-- `memset(p, v, n)` -/
def memset (s : State) (p : UInt64) (v : UInt8) (n : UInt64) : Except Err State :=
  storeBytes s p (List.replicate n.toNat v)
/-- `sodium_memzero(pnt, len)`: `while (i < len) pnt_[i++] = 0` (explicit_bzero has the same effect) -/
def sodium_memzero (s : State) (p : UInt64) (n : UInt64) : Except Err State :=
  storeBytes s p (List.replicate n.toNat 0)

/-! ### the kernel: page tables -/

def setPages (m : Std.HashMap Nat Perm) (first : Nat) : Nat → Perm → Std.HashMap Nat Perm
  | 0, _ => m
  | n + 1, p => setPages (m.insert first p) (first + 1) n p

def allMapped (m : Std.HashMap Nat Perm) (first : Nat) : Nat → Bool
  | 0 => true
  | n + 1 => (m.getD first .unmapped != .unmapped) && allMapped m (first + 1) n

/-- number of pages covered by `len` bytes starting at a page boundary -/
def State.nPages (s : State) (len : UInt64) : Nat := (len.toNat + s.pageSize.toNat - 1) / s.pageSize.toNat

/-- `mmap(NULL, len, PROT_READ|PROT_WRITE, MAP_ANON|MAP_PRIVATE, -1, 0)`; `ret` = the kernel's choice -/
def sys_mmap (s : State) (ret : Option UInt64) (len : UInt64) : State × Option UInt64 :=
  match ret with
  | none => ({ s with errno := ENOMEM, log := s.log ++ [.mmap len 0] }, none)
  | some a => ({ s with prot := setPages s.prot (s.pageOf a) (s.nPages len) .rw,
                        log := s.log ++ [.mmap len a] }, some a)

/-- `mprotect(addr, len, p)`: EINVAL for an unaligned address, ENOMEM if a page of the range is not
    mapped (no effect in either case), otherwise every page of the range gets protection `p` -/
def sys_mprotect (s : State) (addr len : UInt64) (p : Perm) : State × Int32 :=
  let s1 := { s with log := s.log ++ [.mprotect addr len p] }
  if addr.toNat % s.pageSize.toNat ≠ 0 then (s1, -1)
  else if !allMapped s.prot (s.pageOf addr) (s.nPages len) then (s1, -1)
  else ({ s1 with prot := setPages s.prot (s.pageOf addr) (s.nPages len) p }, 0)

/-- `munmap(addr, len)` -/
def sys_munmap (s : State) (addr len : UInt64) : State × Int32 :=
  let s1 := { s with log := s.log ++ [.munmap addr len] }
  if addr.toNat % s.pageSize.toNat ≠ 0 then (s1, -1)
  else ({ s1 with prot := setPages s.prot (s.pageOf addr) (s.nPages len) .unmapped }, 0)

/-! ### sodium/utils.c -/

/-- `_sodium_alloc_init`: `sysconfPage` = `sysconf(_SC_PAGESIZE)`, `rnd` = the 16 bytes of `randombytes_buf` -/
def sodium_alloc_init (s : State) (sysconfPage : Int64) (rnd : Bytes) : Except Err State :=
  let pgs : UInt64 := if sysconfPage > 0 then sysconfPage.toUInt64 else s.pageSize
  if pgs < 16 || pgs < 8 then .error .misuse
  else .ok { s with pageSize := pgs, canary := rnd.take 16 }

/-- `sodium_mlock` (return value of mlock forced to 0: it does not influence anything modelled) -/
def sodium_mlock (s : State) (addr len : UInt64) : State × Int32 :=
  ({ s with log := s.log ++ [.mlock addr len] }, 0)

/-- `sodium_munlock`: `sodium_memzero(addr, len)` first, then madvise + munlock -/
def sodium_munlock (s : State) (addr len : UInt64) : Except Err (State × Int32) :=
  match sodium_memzero s addr len with
  | .error e => .error e
  | .ok s1 => .ok ({ s1 with log := s1.log ++ [.munlock addr len] }, 0)

def _mprotect_noaccess (s : State) (ptr size : UInt64) := sys_mprotect s ptr size .none
def _mprotect_readonly (s : State) (ptr size : UInt64) := sys_mprotect s ptr size .ro
def _mprotect_readwrite (s : State) (ptr size : UInt64) := sys_mprotect s ptr size .rw

/-- `_page_round` -/
def _page_round (s : State) (size : UInt64) : UInt64 := pageRound s.pageSize size

/-- `_alloc_aligned`: MAP_FAILED becomes NULL -/
def _alloc_aligned (s : State) (ret : Option UInt64) (size : UInt64) : State × UInt64 :=
  match sys_mmap s ret size with
  | (s1, some a) => (s1, a)
  | (s1, none) => (s1, 0)

/-- `_free_aligned` -/
def _free_aligned (s : State) (ptr size : UInt64) : State := (sys_munmap s ptr size).1

/-- `_unprotected_ptr_from_user_ptr` -/
def _unprotected_ptr_from_user_ptr (s : State) (ptr : UInt64) : Except Err UInt64 :=
  let canary_ptr := ptr - 16
  let page_mask := s.pageSize - 1
  let unprotected_ptr_u := canary_ptr &&& ~~~page_mask
  if unprotected_ptr_u ≤ s.pageSize * 2 then .error .misuse else .ok unprotected_ptr_u

/-- `_sodium_malloc`; NULL = 0.  `mm` = what mmap will answer if it is called. -/
def _sodium_malloc (s : State) (mm : Option UInt64) (size : UInt64) : Except Err (State × UInt64) :=
  let page_size := s.pageSize
  if size ≥ sizeMaxSub (page_size * 5) then .ok ({ s with errno := ENOMEM }, 0) else
  if page_size ≤ 16 || page_size < 8 then .error .misuse else
  let size_with_canary := 16 + size
  let unprotected_size := _page_round s size_with_canary
  let total_size := page_size + page_size + unprotected_size + page_size
  let r := _alloc_aligned s mm total_size
  let base_ptr := r.2
  if base_ptr = 0 then .ok (r.1, 0) else
  let unprotected_ptr := base_ptr + page_size * 2
  let s2 := (_mprotect_noaccess r.1 (base_ptr + page_size) page_size).1
  let s3 := (_mprotect_noaccess s2 (unprotected_ptr + unprotected_size) page_size).1
  let s4 := (sodium_mlock s3 unprotected_ptr unprotected_size).1
  let canary_ptr := unprotected_ptr + _page_round s size_with_canary - size_with_canary
  let user_ptr := canary_ptr + 16
  match memcpy s4 canary_ptr (s4.canary.take 16) with
  | .error e => .error e
  | .ok s5 =>
  match memcpy s5 base_ptr (toLE 8 unprotected_size.toNat) with
  | .error e => .error e
  | .ok s6 =>
  let s7 := (_mprotect_readonly s6 base_ptr page_size).1
  match _unprotected_ptr_from_user_ptr s7 user_ptr with
  | .error e => .error e
  | .ok u => if u ≠ unprotected_ptr then .error .abort /- assert -/ else .ok (s7, user_ptr)

/-- `sodium_malloc` -/
def sodium_malloc (s : State) (mm : Option UInt64) (size : UInt64) : Except Err (State × UInt64) :=
  match _sodium_malloc s mm size with
  | .error e => .error e
  | .ok r =>
    if r.2 = 0 then .ok (r.1, 0) else
    match memset r.1 r.2 GARBAGE_VALUE size with
    | .error e => .error e
    | .ok s2 => .ok (s2, r.2)

/-- `sodium_allocarray` -/
def sodium_allocarray (s : State) (mm : Option UInt64) (count size : UInt64) : Except Err (State × UInt64) :=
  if count > 0 ∧ size ≥ SIZE_MAX / count then .ok ({ s with errno := ENOMEM }, 0)
  else sodium_malloc s mm (count * size)

/-- `memcpy(&unprotected_size, base_ptr, sizeof unprotected_size)` -/
def loadSize (s : State) (base_ptr : UInt64) : Except Err UInt64 :=
  match loadBytes s base_ptr 8 with
  | .error e => .error e
  | .ok b => .ok (UInt64.ofNat (le b))

/-- `sodium_free` -/
def sodium_free (s : State) (ptr : UInt64) : Except Err State :=
  if ptr = 0 then .ok s else
  let page_size := s.pageSize
  let canary_ptr := ptr - 16
  match _unprotected_ptr_from_user_ptr s ptr with
  | .error e => .error e
  | .ok unprotected_ptr =>
  let base_ptr := unprotected_ptr - page_size * 2
  match loadSize s base_ptr with
  | .error e => .error e
  | .ok unprotected_size =>
  let total_size := page_size + page_size + unprotected_size + page_size
  let s1 := (_mprotect_readwrite s base_ptr total_size).1
  match loadBytes s1 canary_ptr 16 with
  | .error e => .error e
  | .ok cb =>
  if sodium_memcmp cb (s1.canary.take 16) ≠ 0 then .error .abort /- _out_of_bounds() -/ else
  match sodium_munlock s1 unprotected_ptr unprotected_size with
  | .error e => .error e
  | .ok r => .ok (_free_aligned r.1 base_ptr total_size)

def Perm.ofOp : Op → Perm
  | .noaccess => .none | .readonly => .ro | .readwrite => .rw

/-- `_sodium_mprotect(ptr, cb)`; the callback is one of the three `_mprotect_*`, i.e. a protection -/
def _sodium_mprotect (s : State) (ptr : UInt64) (p : Perm) : Except Err (State × Int32) :=
  match _unprotected_ptr_from_user_ptr s ptr with
  | .error e => .error e
  | .ok unprotected_ptr =>
  let base_ptr := unprotected_ptr - s.pageSize * 2
  match loadSize s base_ptr with
  | .error e => .error e
  | .ok unprotected_size => .ok (sys_mprotect s unprotected_ptr unprotected_size p)

def sodium_mprotect_noaccess (s : State) (ptr : UInt64) := _sodium_mprotect s ptr .none
def sodium_mprotect_readonly (s : State) (ptr : UInt64) := _sodium_mprotect s ptr .ro
def sodium_mprotect_readwrite (s : State) (ptr : UInt64) := _sodium_mprotect s ptr .rw

/-- a history of protection requests on the same pointer (return codes dropped, as a caller that
    does not check them; each call is proved to return 0 on a live allocation) -/
def applyOps (s : State) (ptr : UInt64) : List Op → Except Err State
  | [] => .ok s
  | o :: os =>
    match _sodium_mprotect s ptr (Perm.ofOp o) with
    | .error e => .error e
    | .ok r => applyOps r.1 ptr os

/-- an initial state: nothing mapped -/
def State.init (pg : UInt64) (canary : Bytes) : State :=
  { pageSize := pg, canary := canary, prot := ∅, data := ∅, errno := 0, log := [] }

end Sodium.Model.AllocMem
