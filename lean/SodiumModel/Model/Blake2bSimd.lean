import SodiumModel.Model.Blake2bSimdIntrin
import SodiumModel.Model.Blake2bSimdLoad
import SodiumModel.Model.CompressRef
/-
  The SIMD BLAKE2b compression functions of libsodium, modelled macro by macro:

  * `crypto_generichash/blake2b/ref/blake2b-compress-avx2.c`  : `blake2b_compress_avx2`
    + `blake2b-compress-avx2.h` : LOADU/STOREU/LOAD, ROTATE16/ROTATE24, ADD/XOR, ROT32/24/16/63,
      BLAKE2B_G1_V1, BLAKE2B_G2_V1, BLAKE2B_DIAG_V1, BLAKE2B_UNDIAG_V1, BLAKE2B_ROUND_V1,
      BLAKE2B_ROUNDS_V1, DECLARE_MESSAGE_WORDS, BLAKE2B_COMPRESS_V1
  * `blake2b-compress-ssse3.c` : `blake2b_compress_ssse3`, `blake2b-compress-sse41.c` :
    `blake2b_compress_sse41`, + `blake2b-compress-ssse3.h` = `blake2b-compress-sse41.h` (textually
    identical apart from guard / included load header; checked by tools_gen_b2load.py):
    LOADU/STOREU, _mm_roti_epi64, G1, G2, DIAGONALIZE, UNDIAGONALIZE, ROUND
  * the 3 × 48 message-load macros are GENERATED (`Model/Blake2bSimdLoad.lean`).

  The intrinsics are the functions of `Model/Blake2bSimdIntrin.lean` (trusted, CPU-validated).
  What the functions read from `blake2b_state *S`: `h[0..7]`, `t[0..1]`, `f[0..1]` (as `uint64_t`
  arrays `h`, `t`, `f`, like `Model/CompressRef.lean`); what they write: `h[0..7]` (the result).
  `buf`, `buflen`, `last_node` are not touched.  Core Lean only.
-/
namespace Sodium.Model.Blake2bSimd

/-- `static const uint64_t blake2b_IV[8]` (the same initialiser in all three .c files) -/
def blake2b_IV : Array UInt64 := #[
    0x6a09e667f3bcc908, 0xbb67ae8584caa73b, 0x3c6ef372fe94f82b,
    0xa54ff53a5f1d36f1, 0x510e527fade682d1, 0x9b05688c2b3e6c1f,
    0x1f83d9abfb41bd6b, 0x5be0cd19137e2179]

/-! ### blake2b-compress-avx2.h / blake2b-compress-avx2.c -/
namespace Avx2

/-- `#define LOADU128(p) _mm_loadu_si128((const __m128i *) (p))` (on the message block) -/
def LOADU128 (mem : Array UInt8) (off : Nat) : M128 := _mm_loadu_si128 mem off
/-- `#define LOADU(p) _mm256_loadu_si256((const __m256i *) (p))` (on `&S->h[i]`) -/
def LOADU (mem : Array UInt64) (i : Nat) : M256 := _mm256_loadu_si256_u64 mem i
/-- `#define STOREU(p, r) _mm256_storeu_si256((__m256i *) (p), r)` (on `&S->h[i]`) -/
def STOREU (mem : Array UInt64) (i : Nat) (r : M256) : Array UInt64 := _mm256_storeu_si256_u64 mem i r
/-- `#define LOAD(p) _mm256_load_si256((const __m256i *) (p))` (gcc/clang/icc/msvc branch; the aligned
    load of the `CRYPTO_ALIGN(64)` table `blake2b_IV`; same value as the unaligned load) -/
def LOAD (mem : Array UInt64) (i : Nat) : M256 := _mm256_loadu_si256_u64 mem i

/-- `#define ROTATE16 _mm256_setr_epi8(2, 3, 4, 5, 6, 7, 0, 1, 10, 11, 12, 13, 14, 15, 8, 9, 2, 3, …)` -/
def ROTATE16 : M256 :=
  _mm256_setr_epi8 2 3 4 5 6 7 0 1 10 11 12 13 14 15 8 9 2
                   3 4 5 6 7 0 1 10 11 12 13 14 15 8 9

/-- `#define ROTATE24 _mm256_setr_epi8(3, 4, 5, 6, 7, 0, 1, 2, 11, 12, 13, 14, 15, 8, 9, 10, 3, 4, …)` -/
def ROTATE24 : M256 :=
  _mm256_setr_epi8 3 4 5 6 7 0 1 2 11 12 13 14 15 8 9 10 3
                   4 5 6 7 0 1 2 11 12 13 14 15 8 9 10

def ADD (a b : M256) : M256 := _mm256_add_epi64 a b
def XOR (a b : M256) : M256 := _mm256_xor_si256 a b

/-- `#define ROT32(x) _mm256_shuffle_epi32((x), _MM_SHUFFLE(2, 3, 0, 1))` -/
def ROT32 (x : M256) : M256 := _mm256_shuffle_epi32 x (_MM_SHUFFLE 2 3 0 1)
/-- `#define ROT24(x) _mm256_shuffle_epi8((x), ROTATE24)` -/
def ROT24 (x : M256) : M256 := _mm256_shuffle_epi8 x ROTATE24
/-- `#define ROT16(x) _mm256_shuffle_epi8((x), ROTATE16)` -/
def ROT16 (x : M256) : M256 := _mm256_shuffle_epi8 x ROTATE16
/-- `#define ROT63(x) _mm256_or_si256(_mm256_srli_epi64((x), 63), ADD((x), (x)))` -/
def ROT63 (x : M256) : M256 := _mm256_or_si256 (_mm256_srli_epi64 x 63) (ADD x x)

/-- the four row variables `a, b, c, d` -/
structure Rows where
  a : M256
  b : M256
  c : M256
  d : M256

/-- `BLAKE2B_G1_V1(a, b, c, d, m)` -/
def BLAKE2B_G1_V1 (s : Rows) (m : M256) : Rows :=
  let ⟨a, b, c, d⟩ := s
  let a := ADD a m
  let a := ADD a b
  let d := XOR d a
  let d := ROT32 d
  let c := ADD c d
  let b := XOR b c
  let b := ROT24 b
  ⟨a, b, c, d⟩

/-- `BLAKE2B_G2_V1(a, b, c, d, m)` -/
def BLAKE2B_G2_V1 (s : Rows) (m : M256) : Rows :=
  let ⟨a, b, c, d⟩ := s
  let a := ADD a m
  let a := ADD a b
  let d := XOR d a
  let d := ROT16 d
  let c := ADD c d
  let b := XOR b c
  let b := ROT63 b
  ⟨a, b, c, d⟩

/-- `BLAKE2B_DIAG_V1(a, b, c, d)` (this variant rotates `a`, `d`, `c` and leaves `b` in place) -/
def BLAKE2B_DIAG_V1 (s : Rows) : Rows :=
  let ⟨a, b, c, d⟩ := s
  let a := _mm256_permute4x64_epi64 a (_MM_SHUFFLE 2 1 0 3)
  let d := _mm256_permute4x64_epi64 d (_MM_SHUFFLE 1 0 3 2)
  let c := _mm256_permute4x64_epi64 c (_MM_SHUFFLE 0 3 2 1)
  ⟨a, b, c, d⟩

/-- `BLAKE2B_UNDIAG_V1(a, b, c, d)` -/
def BLAKE2B_UNDIAG_V1 (s : Rows) : Rows :=
  let ⟨a, b, c, d⟩ := s
  let a := _mm256_permute4x64_epi64 a (_MM_SHUFFLE 0 3 2 1)
  let d := _mm256_permute4x64_epi64 d (_MM_SHUFFLE 1 0 3 2)
  let c := _mm256_permute4x64_epi64 c (_MM_SHUFFLE 2 1 0 3)
  ⟨a, b, c, d⟩

/-- `BLAKE2B_ROUND_V1(a, b, c, d, r, m)`; `w` = the variables `m0 … m7` in scope -/
def BLAKE2B_ROUND_V1 (s : Rows) (r : Nat) (w : Msg256) : Rows :=
  let b0 := BLAKE2B_LOAD_MSG r 1 w
  let s := BLAKE2B_G1_V1 s b0
  let b0 := BLAKE2B_LOAD_MSG r 2 w
  let s := BLAKE2B_G2_V1 s b0
  let s := BLAKE2B_DIAG_V1 s
  let b0 := BLAKE2B_LOAD_MSG r 3 w
  let s := BLAKE2B_G1_V1 s b0
  let b0 := BLAKE2B_LOAD_MSG r 4 w
  let s := BLAKE2B_G2_V1 s b0
  let s := BLAKE2B_UNDIAG_V1 s
  s

/-- `BLAKE2B_ROUNDS_V1(a, b, c, d, m)` -/
def BLAKE2B_ROUNDS_V1 (s : Rows) (w : Msg256) : Rows :=
  let s := BLAKE2B_ROUND_V1 s 0 w
  let s := BLAKE2B_ROUND_V1 s 1 w
  let s := BLAKE2B_ROUND_V1 s 2 w
  let s := BLAKE2B_ROUND_V1 s 3 w
  let s := BLAKE2B_ROUND_V1 s 4 w
  let s := BLAKE2B_ROUND_V1 s 5 w
  let s := BLAKE2B_ROUND_V1 s 6 w
  let s := BLAKE2B_ROUND_V1 s 7 w
  let s := BLAKE2B_ROUND_V1 s 8 w
  let s := BLAKE2B_ROUND_V1 s 9 w
  let s := BLAKE2B_ROUND_V1 s 10 w
  let s := BLAKE2B_ROUND_V1 s 11 w
  s

/-- `DECLARE_MESSAGE_WORDS(m)`: `const __m256i mI = _mm256_broadcastsi128_si256(LOADU128((m) + 16 * I));` -/
def DECLARE_MESSAGE_WORDS (m : Array UInt8) : Msg256 :=
  { m0 := _mm256_broadcastsi128_si256 (LOADU128 m 0)
    m1 := _mm256_broadcastsi128_si256 (LOADU128 m 16)
    m2 := _mm256_broadcastsi128_si256 (LOADU128 m 32)
    m3 := _mm256_broadcastsi128_si256 (LOADU128 m 48)
    m4 := _mm256_broadcastsi128_si256 (LOADU128 m 64)
    m5 := _mm256_broadcastsi128_si256 (LOADU128 m 80)
    m6 := _mm256_broadcastsi128_si256 (LOADU128 m 96)
    m7 := _mm256_broadcastsi128_si256 (LOADU128 m 112) }

/-- `BLAKE2B_COMPRESS_V1(a, b, m, t0, t1, f0, f1)`; returns the new `a`, `b` -/
def BLAKE2B_COMPRESS_V1 (a b : M256) (m : Array UInt8) (t0 t1 f0 f1 : UInt64) : M256 × M256 :=
  let w := DECLARE_MESSAGE_WORDS m
  let iv0 := a
  let iv1 := b
  let c := LOAD blake2b_IV 0
  let d := XOR (LOAD blake2b_IV 4) (_mm256_set_epi64x f1 f0 t1 t0)
  let ⟨a, b, c, d⟩ := BLAKE2B_ROUNDS_V1 ⟨a, b, c, d⟩ w
  let a := XOR a c
  let b := XOR b d
  let a := XOR a iv0
  let b := XOR b iv1
  (a, b)

/-- `blake2b_compress_avx2(S, block)`: reads `S->h[0..7]`, `S->t[0..1]`, `S->f[0..1]`, writes `S->h[0..7]` -/
def blake2b_compress_avx2 (h t f : Array UInt64) (block : Array UInt8) : Array UInt64 :=
  let a := LOADU h 0
  let b := LOADU h 4
  let (a, b) := BLAKE2B_COMPRESS_V1 a b block (t.getD 0 0) (t.getD 1 0) (f.getD 0 0) (f.getD 1 0)
  let h := STOREU h 0 a
  let h := STOREU h 4 b
  h

end Avx2

/-! ### blake2b-compress-ssse3.h = blake2b-compress-sse41.h -/
namespace Sse

/-- `#define LOADU(p) _mm_loadu_si128((const __m128i *) (const void *) (p))` on a `uint64_t` array -/
def LOADU (mem : Array UInt64) (i : Nat) : M128 := _mm_loadu_si128_u64 mem i
/-- `#define STOREU(p, r) _mm_storeu_si128((__m128i *) (void *) (p), r)` on `&S->h[i]` -/
def STOREU (mem : Array UInt64) (i : Nat) (r : M128) : Array UInt64 := _mm_storeu_si128_u64 mem i r

/-- the constants `r16`, `r24` of the two compression functions -/
def r16 : M128 := _mm_setr_epi8 2 3 4 5 6 7 0 1 10 11 12 13 14 15 8 9
def r24 : M128 := _mm_setr_epi8 3 4 5 6 7 0 1 2 11 12 13 14 15 8 9 10

/-- the macro `_mm_roti_epi64(x, c)` (non-XOP definition), a chain of `?:` on the constant `-(c)`:
    ```
    (-(c) == 32) ? _mm_shuffle_epi32((x), _MM_SHUFFLE(2, 3, 0, 1))
    : (-(c) == 24) ? _mm_shuffle_epi8((x), r24)
    : (-(c) == 16) ? _mm_shuffle_epi8((x), r16)
    : (-(c) == 63) ? _mm_xor_si128(_mm_srli_epi64((x), -(c)), _mm_add_epi64((x), (x)))
    : _mm_xor_si128(_mm_srli_epi64((x), -(c)), _mm_slli_epi64((x), 64 - (-(c))))
    ```
    (`int` arguments of the shift intrinsics: only the low 8 bits are used, hence `toNat` of the
    value mod 256) -/
def _mm_roti_epi64 (x : M128) (c : Int) : M128 :=
  if -c = 32 then _mm_shuffle_epi32 x (_MM_SHUFFLE 2 3 0 1)
  else if -c = 24 then _mm_shuffle_epi8 x r24
  else if -c = 16 then _mm_shuffle_epi8 x r16
  else if -c = 63 then _mm_xor_si128 (_mm_srli_epi64 x ((-c) % 256).toNat) (_mm_add_epi64 x x)
  else _mm_xor_si128 (_mm_srli_epi64 x ((-c) % 256).toNat) (_mm_slli_epi64 x ((64 - (-c)) % 256).toNat)

/-- the eight row variables -/
structure Rows where
  row1l : M128
  row2l : M128
  row3l : M128
  row4l : M128
  row1h : M128
  row2h : M128
  row3h : M128
  row4h : M128

/-- `G1(row1l, row2l, row3l, row4l, row1h, row2h, row3h, row4h, b0, b1)` -/
def G1 (s : Rows) (b0 b1 : M128) : Rows :=
  let ⟨row1l, row2l, row3l, row4l, row1h, row2h, row3h, row4h⟩ := s
  let row1l := _mm_add_epi64 (_mm_add_epi64 row1l b0) row2l
  let row1h := _mm_add_epi64 (_mm_add_epi64 row1h b1) row2h
  let row4l := _mm_xor_si128 row4l row1l
  let row4h := _mm_xor_si128 row4h row1h
  let row4l := _mm_roti_epi64 row4l (-32)
  let row4h := _mm_roti_epi64 row4h (-32)
  let row3l := _mm_add_epi64 row3l row4l
  let row3h := _mm_add_epi64 row3h row4h
  let row2l := _mm_xor_si128 row2l row3l
  let row2h := _mm_xor_si128 row2h row3h
  let row2l := _mm_roti_epi64 row2l (-24)
  let row2h := _mm_roti_epi64 row2h (-24)
  ⟨row1l, row2l, row3l, row4l, row1h, row2h, row3h, row4h⟩

/-- `G2(row1l, row2l, row3l, row4l, row1h, row2h, row3h, row4h, b0, b1)` -/
def G2 (s : Rows) (b0 b1 : M128) : Rows :=
  let ⟨row1l, row2l, row3l, row4l, row1h, row2h, row3h, row4h⟩ := s
  let row1l := _mm_add_epi64 (_mm_add_epi64 row1l b0) row2l
  let row1h := _mm_add_epi64 (_mm_add_epi64 row1h b1) row2h
  let row4l := _mm_xor_si128 row4l row1l
  let row4h := _mm_xor_si128 row4h row1h
  let row4l := _mm_roti_epi64 row4l (-16)
  let row4h := _mm_roti_epi64 row4h (-16)
  let row3l := _mm_add_epi64 row3l row4l
  let row3h := _mm_add_epi64 row3h row4h
  let row2l := _mm_xor_si128 row2l row3l
  let row2h := _mm_xor_si128 row2h row3h
  let row2l := _mm_roti_epi64 row2l (-63)
  let row2h := _mm_roti_epi64 row2h (-63)
  ⟨row1l, row2l, row3l, row4l, row1h, row2h, row3h, row4h⟩

/-- `DIAGONALIZE(row1l, row2l, row3l, row4l, row1h, row2h, row3h, row4h)` (`t0`, `t1` scratch) -/
def DIAGONALIZE (s : Rows) : Rows :=
  let ⟨row1l, row2l, row3l, row4l, row1h, row2h, row3h, row4h⟩ := s
  let t0 := _mm_alignr_epi8 row2h row2l 8
  let t1 := _mm_alignr_epi8 row2l row2h 8
  let row2l := t0
  let row2h := t1
  let t0 := row3l
  let row3l := row3h
  let row3h := t0
  let t0 := _mm_alignr_epi8 row4h row4l 8
  let t1 := _mm_alignr_epi8 row4l row4h 8
  let row4l := t1
  let row4h := t0
  ⟨row1l, row2l, row3l, row4l, row1h, row2h, row3h, row4h⟩

/-- `UNDIAGONALIZE(row1l, row2l, row3l, row4l, row1h, row2h, row3h, row4h)` -/
def UNDIAGONALIZE (s : Rows) : Rows :=
  let ⟨row1l, row2l, row3l, row4l, row1h, row2h, row3h, row4h⟩ := s
  let t0 := _mm_alignr_epi8 row2l row2h 8
  let t1 := _mm_alignr_epi8 row2h row2l 8
  let row2l := t0
  let row2h := t1
  let t0 := row3l
  let row3l := row3h
  let row3h := t0
  let t0 := _mm_alignr_epi8 row4l row4h 8
  let t1 := _mm_alignr_epi8 row4h row4l 8
  let row4l := t1
  let row4h := t0
  ⟨row1l, row2l, row3l, row4l, row1h, row2h, row3h, row4h⟩

/-- `ROUND(r)`; `load k` is `LOAD_MSG_##r##_k(b0, b1)` of the included load header on the message
    variables in scope -/
def ROUND (load : Nat → Nat → M128 × M128) (s : Rows) (r : Nat) : Rows :=
  let (b0, b1) := load r 1
  let s := G1 s b0 b1
  let (b0, b1) := load r 2
  let s := G2 s b0 b1
  let s := DIAGONALIZE s
  let (b0, b1) := load r 3
  let s := G1 s b0 b1
  let (b0, b1) := load r 4
  let s := G2 s b0 b1
  let s := UNDIAGONALIZE s
  s

/-- the body shared (textually) by `blake2b_compress_ssse3` and `blake2b_compress_sse41` after the
    message variables have been declared: row initialisation, `ROUND(0); … ROUND(11);`, feed-forward
    (which re-reads `S->h` with `LOADU`) -/
def compressBody (load : Nat → Nat → M128 × M128) (h t f : Array UInt64) : Array UInt64 :=
  let row1l := LOADU h 0
  let row1h := LOADU h 2
  let row2l := LOADU h 4
  let row2h := LOADU h 6
  let row3l := LOADU blake2b_IV 0
  let row3h := LOADU blake2b_IV 2
  let row4l := _mm_xor_si128 (LOADU blake2b_IV 4) (LOADU t 0)
  let row4h := _mm_xor_si128 (LOADU blake2b_IV 6) (LOADU f 0)
  let s : Rows := ⟨row1l, row2l, row3l, row4l, row1h, row2h, row3h, row4h⟩
  let s := ROUND load s 0
  let s := ROUND load s 1
  let s := ROUND load s 2
  let s := ROUND load s 3
  let s := ROUND load s 4
  let s := ROUND load s 5
  let s := ROUND load s 6
  let s := ROUND load s 7
  let s := ROUND load s 8
  let s := ROUND load s 9
  let s := ROUND load s 10
  let s := ROUND load s 11
  let ⟨row1l, row2l, row3l, row4l, row1h, row2h, row3h, row4h⟩ := s
  let row1l := _mm_xor_si128 row3l row1l
  let row1h := _mm_xor_si128 row3h row1h
  let h := STOREU h 0 (_mm_xor_si128 (LOADU h 0) row1l)
  let h := STOREU h 2 (_mm_xor_si128 (LOADU h 2) row1h)
  let row2l := _mm_xor_si128 row4l row2l
  let row2h := _mm_xor_si128 row4h row2h
  let h := STOREU h 4 (_mm_xor_si128 (LOADU h 4) row2l)
  let h := STOREU h 6 (_mm_xor_si128 (LOADU h 6) row2h)
  h

end Sse

/-! ### blake2b-compress-ssse3.c -/
namespace Ssse3

/-- the declarations `const uint64_t mI = ((const uint64_t *) block)[I];` -/
def messageWords (block : Array UInt8) : Msg64 :=
  { m0 := loadu64 block 0,    m1 := loadu64 block 8,    m2 := loadu64 block 16,   m3 := loadu64 block 24
    m4 := loadu64 block 32,   m5 := loadu64 block 40,   m6 := loadu64 block 48,   m7 := loadu64 block 56
    m8 := loadu64 block 64,   m9 := loadu64 block 72,   m10 := loadu64 block 80,  m11 := loadu64 block 88
    m12 := loadu64 block 96,  m13 := loadu64 block 104, m14 := loadu64 block 112, m15 := loadu64 block 120 }

/-- `blake2b_compress_ssse3(S, block)` (with blake2b-load-sse2.h) -/
def blake2b_compress_ssse3 (h t f : Array UInt64) (block : Array UInt8) : Array UInt64 :=
  let w := messageWords block
  Sse.compressBody (fun r k => Sse2.LOAD_MSG r k w) h t f

end Ssse3

/-! ### blake2b-compress-sse41.c -/
namespace Sse41

/-- the declarations `const __m128i mI = LOADU(block + 16 * I);` -/
def messageWords (block : Array UInt8) : Msg128 :=
  { m0 := _mm_loadu_si128 block 0,  m1 := _mm_loadu_si128 block 16, m2 := _mm_loadu_si128 block 32
    m3 := _mm_loadu_si128 block 48, m4 := _mm_loadu_si128 block 64, m5 := _mm_loadu_si128 block 80
    m6 := _mm_loadu_si128 block 96, m7 := _mm_loadu_si128 block 112 }

/-- `blake2b_compress_sse41(S, block)` (with blake2b-load-sse41.h) -/
def blake2b_compress_sse41 (h t f : Array UInt64) (block : Array UInt8) : Array UInt64 :=
  let w := messageWords block
  Sse.compressBody (fun r k => Sse41.LOAD_MSG r k w) h t f

end Sse41

/-! ### the shape `F h block t last` used by the streaming model (`Model/Hash.lean`), with the state fields
    as in `CompressRef.Blake2b.compressF`: `t[0..1] = tWords t`, `f[0..1] = fWords last` -/

open Sodium.Model.CompressRef.Blake2b (tWords fWords) in
def compressF_avx2 (h : Array UInt64) (block : Bytes) (t : Nat) (last : Bool) : Array UInt64 :=
  Avx2.blake2b_compress_avx2 h (tWords t) (fWords last) block.toArray
open Sodium.Model.CompressRef.Blake2b (tWords fWords) in
def compressF_ssse3 (h : Array UInt64) (block : Bytes) (t : Nat) (last : Bool) : Array UInt64 :=
  Ssse3.blake2b_compress_ssse3 h (tWords t) (fWords last) block.toArray
open Sodium.Model.CompressRef.Blake2b (tWords fWords) in
def compressF_sse41 (h : Array UInt64) (block : Bytes) (t : Nat) (last : Bool) : Array UInt64 :=
  Sse41.blake2b_compress_sse41 h (tWords t) (fWords last) block.toArray

end Sodium.Model.Blake2bSimd
