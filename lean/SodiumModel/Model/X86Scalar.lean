import SodiumModel.Basic
import SodiumModel.Model.Fe51
/-
  An executable semantics of the SCALAR x86-64 subset used by the hand-written assembly of the sandy2x
  X25519 backend:

    crypto_scalarmult/curve25519/sandy2x/fe51_pack.S      freeze + pack to 32 bytes
    crypto_scalarmult/curve25519/sandy2x/fe51_mul.S       51-bit limb multiplication
    crypto_scalarmult/curve25519/sandy2x/fe51_nsquare.S   n squarings (one loop)

  The instruction lists themselves are NOT written here: `tools_new/asm2lean.py` translates the `.S` text
  into `Generated/Sandy2xAsm.lean` (AT&T operand order: source first, destination last).

  State: the 16 general-purpose registers (`UInt64`), the four status flags the subset consumes
  (CF ZF SF OF), a byte-addressed memory `UInt64 → UInt8` (addresses wrap modulo 2^64 as on the
  machine), and two honesty bits:
    * `fdef`: every one of CF/ZF/SF/OF currently holds an architecturally DEFINED value (the Intel SDM
      leaves ZF/SF undefined after `mul`/`imul` and OF undefined after shifts by more than 1); an
      instruction that CONSUMES a flag (`adc`, `sbb`, `cmovcc`, the loop's `jcc`) while `fdef = false`
      clears `ok`;
    * `ok`: no unsupported operand combination and no undefined flag has been used so far.
  Theorems about the generated code state `ok = true` for the final state.

  Control flow: the three files contain exactly one kind of jump, a backward conditional jump closing a
  do-while loop.  A function is a list of `Block`s (`straight` code or `doWhile body cond`); the loop
  takes fuel and returns `none` when it runs out, so nothing is assumed about termination.
  `ret` is the end of the list (the return address on the stack is not modelled: the theorems state
  that `rsp` is back at its entry value when `ret` is reached).
  Core Lean only.
-/
namespace Sodium.Model.X86Scalar
open Sodium Sodium.Model

inductive Reg
  | rax | rcx | rdx | rbx | rsp | rbp | rsi | rdi | r8 | r9 | r10 | r11 | r12 | r13 | r14 | r15
deriving DecidableEq, Repr

abbrev Mem := UInt64 → UInt8

structure State where
  rax : UInt64
  rcx : UInt64
  rdx : UInt64
  rbx : UInt64
  rsp : UInt64
  rbp : UInt64
  rsi : UInt64
  rdi : UInt64
  r8 : UInt64
  r9 : UInt64
  r10 : UInt64
  r11 : UInt64
  r12 : UInt64
  r13 : UInt64
  r14 : UInt64
  r15 : UInt64
  cf : Bool
  zf : Bool
  sf : Bool
  of : Bool
  fdef : Bool
  ok : Bool
  mem : Mem

def State.get (s : State) : Reg → UInt64
  | .rax => s.rax | .rcx => s.rcx | .rdx => s.rdx | .rbx => s.rbx
  | .rsp => s.rsp | .rbp => s.rbp | .rsi => s.rsi | .rdi => s.rdi
  | .r8 => s.r8 | .r9 => s.r9 | .r10 => s.r10 | .r11 => s.r11
  | .r12 => s.r12 | .r13 => s.r13 | .r14 => s.r14 | .r15 => s.r15

def State.set (s : State) (r : Reg) (v : UInt64) : State :=
  match r with
  | .rax => { s with rax := v } | .rcx => { s with rcx := v } | .rdx => { s with rdx := v }
  | .rbx => { s with rbx := v } | .rsp => { s with rsp := v } | .rbp => { s with rbp := v }
  | .rsi => { s with rsi := v } | .rdi => { s with rdi := v } | .r8 => { s with r8 := v }
  | .r9 => { s with r9 := v } | .r10 => { s with r10 := v } | .r11 => { s with r11 := v }
  | .r12 => { s with r12 := v } | .r13 => { s with r13 := v } | .r14 => { s with r14 := v }
  | .r15 => { s with r15 := v }

/-! ### memory (little endian) -/

/-- the 8 bytes at `a … a+7` as a little-endian quadword -/
def read64 (m : Mem) (a : UInt64) : UInt64 :=
  UInt64.ofNat ((m a).toNat + (m (a + 1)).toNat * 2 ^ 8 + (m (a + 2)).toNat * 2 ^ 16 +
    (m (a + 3)).toNat * 2 ^ 24 + (m (a + 4)).toNat * 2 ^ 32 + (m (a + 5)).toNat * 2 ^ 40 +
    (m (a + 6)).toNat * 2 ^ 48 + (m (a + 7)).toNat * 2 ^ 56)

/-- store the quadword `v` at `a … a+7` -/
def write64 (m : Mem) (a v : UInt64) : Mem :=
  fun x => if x - a < 8 then (v >>> ((x - a) * 8)).toUInt8 else m x

/-- store one byte -/
def write8 (m : Mem) (a : UInt64) (v : UInt8) : Mem :=
  fun x => if x = a then v else m x

/-! ### operands, instructions -/

/-- `%reg`, `$imm`, `disp(%base)`, and `sym(%rip)` for a read-only quadword of `consts.S` whose VALUE
    the translator substitutes (`rip v`) -/
inductive Opnd
  | reg (r : Reg)
  | imm (v : UInt64)
  | mem (base : Reg) (disp : UInt64)
  | rip (v : UInt64)
deriving Repr

inductive Cond
  | a | ae | b | be | e | ne | l | ge | le | g
deriving DecidableEq, Repr

inductive AluOp
  | add | adc | sub | sbb | and | or | xor | cmp | test
deriving DecidableEq, Repr

inductive Instr
  /-- `mov` / `movq src, dst` (64 bits) -/
  | mov (src dst : Opnd)
  /-- `movb %<low byte of r>, disp(%base)` -/
  | movb (src : Reg) (base : Reg) (disp : UInt64)
  /-- `lea disp(%base[,%index]), %dst` (scale 1) -/
  | lea (base : Reg) (index : Option Reg) (disp : UInt64) (dst : Reg)
  /-- two-operand ALU instruction `op src, dst` (64 bits) -/
  | alu (op : AluOp) (src dst : Opnd)
  /-- `and $imm, %e<r>`: 32-bit AND, the upper 32 bits of the register are cleared -/
  | and32 (imm : UInt32) (dst : Reg)
  /-- `neg %r` -/
  | neg (dst : Reg)
  /-- `shl $k, %r` / `shr $k, %r` with 1 ≤ k ≤ 63 -/
  | shl (k : UInt64) (dst : Reg)
  | shr (k : UInt64) (dst : Reg)
  /-- `shld $k, %src, %dst`: `dst = dst << k | src >> (64 - k)`; `shrd`: `dst = dst >> k | src << (64 - k)` -/
  | shld (k : UInt64) (src dst : Reg)
  | shrd (k : UInt64) (src dst : Reg)
  /-- `imulq $imm, src, %dst` -/
  | imul3 (imm : UInt64) (src : Opnd) (dst : Reg)
  /-- `mul` / `mulq src`: `rdx:rax = rax * src` (unsigned) -/
  | mul (src : Opnd)
  /-- `cmovCC %src, %dst` -/
  | cmov (c : Cond) (src dst : Reg)
  /-- `push %r` / `pop %r` -/
  | push (r : Reg)
  | pop (r : Reg)
deriving Repr

/-! ### semantics -/

def msb (x : UInt64) : Bool := x >>> 63 != 0

/-- effective address `disp(%base)` -/
@[inline] def ea (s : State) (base : Reg) (disp : UInt64) : UInt64 := s.get base + disp

def State.read (s : State) : Opnd → UInt64
  | .reg r => s.get r
  | .imm v => v
  | .mem b d => read64 s.mem (ea s b d)
  | .rip v => v

def State.write (s : State) (o : Opnd) (v : UInt64) : State :=
  match o with
  | .reg r => s.set r v
  | .mem b d => { s with mem := write64 s.mem (ea s b d) v }
  | .imm _ => { s with ok := false }
  | .rip _ => { s with ok := false }

/-- set ZF/SF from a result, with given CF/OF; all four defined -/
@[inline] def State.flags (s : State) (res : UInt64) (cf of : Bool) : State :=
  { s with cf := cf, zf := res == 0, sf := msb res, of := of, fdef := true }

def State.cond (s : State) : Cond → Bool
  | .a => !s.cf && !s.zf
  | .ae => !s.cf
  | .b => s.cf
  | .be => s.cf || s.zf
  | .e => s.zf
  | .ne => !s.zf
  | .l => s.sf != s.of
  | .ge => s.sf == s.of
  | .le => s.zf || s.sf != s.of
  | .g => !s.zf && s.sf == s.of

/-- a flag is consumed: undefined flags poison `ok` -/
@[inline] def State.useFlags (s : State) : State := if s.fdef then s else { s with ok := false }

def stepAlu (op : AluOp) (src dst : Opnd) (s : State) : State :=
  let a := s.read dst
  let b := s.read src
  match op with
  | .add =>
    let r := a + b
    (s.write dst r).flags r (decide (2 ^ 64 ≤ a.toNat + b.toNat)) (msb a == msb b && msb r != msb a)
  | .adc =>
    let s := s.useFlags
    let c : UInt64 := if s.cf then 1 else 0
    let r := a + b + c
    (s.write dst r).flags r (decide (2 ^ 64 ≤ a.toNat + b.toNat + c.toNat)) (msb a == msb b && msb r != msb a)
  | .sub =>
    let r := a - b
    (s.write dst r).flags r (decide (a.toNat < b.toNat)) (msb a != msb b && msb r != msb a)
  | .sbb =>
    let s := s.useFlags
    let c : UInt64 := if s.cf then 1 else 0
    let r := a - b - c
    (s.write dst r).flags r (decide (a.toNat < b.toNat + c.toNat)) (msb a != msb b && msb r != msb a)
  | .cmp =>
    let r := a - b
    s.flags r (decide (a.toNat < b.toNat)) (msb a != msb b && msb r != msb a)
  | .and => let r := a &&& b; (s.write dst r).flags r false false
  | .or => let r := a ||| b; (s.write dst r).flags r false false
  | .xor => let r := a ^^^ b; (s.write dst r).flags r false false
  | .test => let r := a &&& b; s.flags r false false

def step (i : Instr) (s : State) : State :=
  match i with
  | .mov src dst => s.write dst (s.read src)
  | .movb src b d => { s with mem := write8 s.mem (ea s b d) (s.get src).toUInt8 }
  | .lea b idx d dst =>
    s.set dst (match idx with | none => s.get b + d | some i => s.get b + s.get i + d)
  | .alu op src dst => stepAlu op src dst s
  | .and32 imm dst =>
    let r := (s.get dst).toUInt32 &&& imm
    { s.set dst r.toUInt64 with cf := false, of := false, zf := r == 0, sf := r >>> 31 != 0, fdef := true }
  | .neg dst =>
    let a := s.get dst
    let r := 0 - a
    (s.set dst r).flags r (a != 0) (a == 0x8000000000000000)
  | .shl k dst =>
    let a := s.get dst
    let r := a <<< k
    { (s.set dst r).flags r ((a >>> (64 - k)) &&& 1 != 0) false with fdef := false }
  | .shr k dst =>
    let a := s.get dst
    let r := a >>> k
    { (s.set dst r).flags r ((a >>> (k - 1)) &&& 1 != 0) false with fdef := false }
  | .shld k src dst =>
    let a := s.get dst
    let r := (a <<< k) ||| (s.get src >>> (64 - k))
    { (s.set dst r).flags r ((a >>> (64 - k)) &&& 1 != 0) false with fdef := false }
  | .shrd k src dst =>
    let a := s.get dst
    let r := (a >>> k) ||| (s.get src <<< (64 - k))
    { (s.set dst r).flags r ((a >>> (k - 1)) &&& 1 != 0) false with fdef := false }
  | .imul3 imm src dst =>
    let a := s.read src
    let r := a * imm
    let full : Int := a.toInt64.toInt * imm.toInt64.toInt
    let ovf := decide (full ≠ r.toInt64.toInt)
    { (s.set dst r).flags r ovf ovf with fdef := false }
  | .mul src =>
    let p := s.rax.toNat * (s.read src).toNat
    let lo := UInt64.ofNat p
    let hi := UInt64.ofNat (p / 2 ^ 64)
    { ({ s with rax := lo, rdx := hi }).flags lo (hi != 0) (hi != 0) with fdef := false }
  | .cmov c src dst =>
    let s := s.useFlags
    s.set dst (if s.cond c then s.get src else s.get dst)
  | .push r =>
    let sp := s.rsp - 8
    { s with rsp := sp, mem := write64 s.mem sp (s.get r) }
  | .pop r =>
    let v := read64 s.mem s.rsp
    { s.set r v with rsp := (s.set r v).rsp + 8 }

/-- straight-line code -/
def run : List Instr → State → State
  | [], s => s
  | i :: is, s => run is (step i s)

inductive Block
  | straight (is : List Instr)
  /-- `label: body; jCC label` -/
  | doWhile (body : List Instr) (c : Cond)

abbrev Prog := List Block

/-- the do-while loop: `none` = out of fuel -/
def loop : Nat → List Instr → Cond → State → Option State
  | 0, _, _, _ => none
  | fuel + 1, body, c, s =>
    let s := (run body s).useFlags
    if s.cond c then loop fuel body c s else some s

def runBlock (fuel : Nat) : Block → State → Option State
  | .straight is, s => some (run is s)
  | .doWhile body c, s => loop fuel body c s

/-- a whole function, from its entry label to `ret`; `fuel` bounds the iterations of EACH loop -/
def runProg (fuel : Nat) : Prog → State → Option State
  | [], s => some s
  | b :: bs, s => (runBlock fuel b s).bind (runProg fuel bs)

/-! ### calling the functions (System V AMD64: rdi, rsi, rdx) -/

open Sodium.Model.Fe51 (Fe)

/-- `fe51` = `uint64_t v[5]` at address `a` -/
def loadFe (m : Mem) (a : UInt64) : Fe :=
  ⟨read64 m a, read64 m (a + 8), read64 m (a + 16), read64 m (a + 24), read64 m (a + 32)⟩

def storeFe (m : Mem) (a : UInt64) (f : Fe) : Mem :=
  write64 (write64 (write64 (write64 (write64 m a f.l0) (a + 8) f.l1) (a + 16) f.l2) (a + 24) f.l3) (a + 32) f.l4

/-- `n` bytes at `a` -/
def loadBytes (m : Mem) (a : UInt64) : Nat → Bytes
  | 0 => []
  | n + 1 => m a :: loadBytes m (a + 1) n

/-- a state for experiments and for the driver: every register 0xA5…, all memory 0xCC -/
def State.blank : State :=
  let j : UInt64 := 0xA5A5A5A5A5A5A5A5
  { rax := j, rcx := j, rdx := j, rbx := 0xB0B0B0B0B0B0B0B0, rsp := 0x00007FFFFFFFE3C8, rbp := 0xB1B1B1B1B1B1B1B1,
    rsi := j, rdi := j, r8 := j, r9 := j, r10 := j, r11 := j, r12 := 0xC2C2C2C2C2C2C2C2, r13 := 0xC3C3C3C3C3C3C3C3,
    r14 := 0xC4C4C4C4C4C4C4C4, r15 := 0xC5C5C5C5C5C5C5C5,
    cf := false, zf := false, sf := false, of := false, fdef := false, ok := true, mem := fun _ => 0xCC }

/-- the callee-saved registers and the stack pointer -/
def State.saved (s : State) : List UInt64 := [s.rbx, s.rbp, s.r12, s.r13, s.r14, s.r15, s.rsp]

/-- addresses used by the driver: output, first and second input -/
def outAddr : UInt64 := 0x0000000000601000
def in1Addr : UInt64 := 0x0000000000602000
def in2Addr : UInt64 := 0x0000000000603000

/-- `fe51_pack(out, &f)` through the interpreter: the 32 bytes at `out`, or `none` if the run is not
    `ok`, runs out of fuel, or does not restore the callee-saved registers -/
def callPack (prog : Prog) (f : Fe) : Option Bytes :=
  let s0 := { State.blank with rdi := outAddr, rsi := in1Addr, mem := storeFe State.blank.mem in1Addr f }
  match runProg 16 prog s0 with
  | none => none
  | some s => if s.ok && s.saved == s0.saved then some (loadBytes s.mem outAddr 32) else none

/-- `fe51_mul(&h, &f, &g)` through the interpreter -/
def callMul (prog : Prog) (f g : Fe) : Option Fe :=
  let s0 := { State.blank with rdi := outAddr, rsi := in1Addr, rdx := in2Addr, mem := storeFe (storeFe State.blank.mem in1Addr f) in2Addr g }
  match runProg 16 prog s0 with
  | none => none
  | some s => if s.ok && s.saved == s0.saved then some (loadFe s.mem outAddr) else none

/-- `fe51_nsquare(&h, &f, n)` through the interpreter (`n` zero-extended into `rdx`) -/
def callNsquare (prog : Prog) (f : Fe) (n : UInt32) : Option Fe :=
  let s0 := { State.blank with rdi := outAddr, rsi := in1Addr, rdx := n.toUInt64, mem := storeFe State.blank.mem in1Addr f }
  match runProg (n.toNat + 1) prog s0 with
  | none => none
  | some s => if s.ok && s.saved == s0.saved then some (loadFe s.mem outAddr) else none

end Sodium.Model.X86Scalar
