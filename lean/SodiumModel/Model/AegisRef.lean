import SodiumModel.Basic
import SodiumModel.Model.Utils
import SodiumModel.Model.Aead
/-
  Model of libsodium's portable AEGIS-128L / AEGIS-256 code and of the software AES round,
  written to the structure of the C code.

  Transcribed from
    include/sodium/private/softaes.h         SoftAesBlock, softaes_block_{load,load64x2,store,xor,and}
    include/sodium/private/common.h          load32_le, store32_le (the shift forms), rotl32
    crypto_core/softaes/softaes.c            _aes_lut[256], _encrypt, softaes_block_encrypt
                                             (the default build: no FAVOR_PERFORMANCE, SOFTAES_STRIDE = 16)
    crypto_aead/aegis128l/aegis128l_soft.c   aegis128l_update (over the AES_BLOCK_* macros)
    crypto_aead/aegis128l/aegis128l_common.h aegis128l_{init,mac,absorb,absorb2,enc,dec,declast},
                                             encrypt_detached, decrypt_detached
    crypto_aead/aegis256/aegis256_soft.c     aegis256_update
    crypto_aead/aegis256/aegis256_common.h   aegis256_{init,mac,absorb,absorb2,enc,dec,declast},
                                             encrypt_detached, decrypt_detached (same text as the 128L
                                             ones up to the `aegis256_` prefix; RATE = 16)
    crypto_aead/aegis128l/aead_aegis128l.c, crypto_aead/aegis256/aead_aegis256.c
                                             crypto_aead_aegis*_{encrypt,decrypt,encrypt_detached,decrypt_detached}

  `uint8_t` = UInt8, `uint32_t` = UInt32, `uint64_t` = UInt64, `int` = Int32; `size_t` values that
  only index or measure buffers are `Nat` (= the list lengths).  A pointer `p + i` is `p.drop i`.
  The `aes_block_t` type and the AES_BLOCK_* / AES_ENC macros are a parameter (`Backend`): the
  generic code of the `*_common.h` files is modelled once over it, `soft` is the SoftAesBlock backend
  of `*_soft.c`.
-/
namespace Sodium.Model.AegisRef

/-! ## private/common.h -/

/-- `load32_le`, shift form: `w = src[0]; w |= src[1] << 8; w |= src[2] << 16; w |= src[3] << 24` -/
def load32_le (src : Bytes) : UInt32 :=
  let w : UInt32 := (src.getD 0 0).toUInt32
  let w := w ||| ((src.getD 1 0).toUInt32 <<< 8)
  let w := w ||| ((src.getD 2 0).toUInt32 <<< 16)
  let w := w ||| ((src.getD 3 0).toUInt32 <<< 24)
  w

/-- `store32_le`, shift form: `dst[0] = (uint8_t) w; w >>= 8; dst[1] = (uint8_t) w; w >>= 8; …` -/
def store32_le (w : UInt32) : Bytes :=
  let d0 := w.toUInt8
  let w := w >>> 8
  let d1 := w.toUInt8
  let w := w >>> 8
  let d2 := w.toUInt8
  let w := w >>> 8
  let d3 := w.toUInt8
  [d0, d1, d2, d3]

/-- `rotl32(x, b) = (x << b) | (x >> (32 - b))` -/
def ROTL32 (x : UInt32) (b : UInt32) : UInt32 := (x <<< b) ||| (x >>> (32 - b))

/-! ## private/softaes.h -/

structure SoftAesBlock where
  w0 : UInt32
  w1 : UInt32
  w2 : UInt32
  w3 : UInt32
  deriving DecidableEq, Repr, Inhabited

def softaes_block_load (inp : Bytes) : SoftAesBlock :=
  { w0 := load32_le inp, w1 := load32_le (inp.drop 4), w2 := load32_le (inp.drop 8), w3 := load32_le (inp.drop 12) }

def softaes_block_load64x2 (a b : UInt64) : SoftAesBlock :=
  { w0 := b.toUInt32, w1 := (b >>> 32).toUInt32, w2 := a.toUInt32, w3 := (a >>> 32).toUInt32 }

def softaes_block_store (inp : SoftAesBlock) : Bytes :=
  store32_le inp.w0 ++ store32_le inp.w1 ++ store32_le inp.w2 ++ store32_le inp.w3

def softaes_block_xor (a b : SoftAesBlock) : SoftAesBlock :=
  { w0 := a.w0 ^^^ b.w0, w1 := a.w1 ^^^ b.w1, w2 := a.w2 ^^^ b.w2, w3 := a.w3 ^^^ b.w3 }

def softaes_block_and (a b : SoftAesBlock) : SoftAesBlock :=
  { w0 := a.w0 &&& b.w0, w1 := a.w1 &&& b.w1, w2 := a.w2 &&& b.w2, w3 := a.w3 &&& b.w3 }

/-! ## crypto_core/softaes/softaes.c (`#else` branch: no FAVOR_PERFORMANCE) -/

def SOFTAES_STRIDE : Nat := 16

/-- `uint32_t _aes_lut[256]` -/
def _aes_lut : Array UInt32 := #[
    0xa56363c6, 0x847c7cf8, 0x997777ee, 0x8d7b7bf6, 0x0df2f2ff, 0xbd6b6bd6, 0xb16f6fde, 0x54c5c591,
    0x50303060, 0x03010102, 0xa96767ce, 0x7d2b2b56, 0x19fefee7, 0x62d7d7b5, 0xe6abab4d, 0x9a7676ec,
    0x45caca8f, 0x9d82821f, 0x40c9c989, 0x877d7dfa, 0x15fafaef, 0xeb5959b2, 0xc947478e, 0x0bf0f0fb,
    0xecadad41, 0x67d4d4b3, 0xfda2a25f, 0xeaafaf45, 0xbf9c9c23, 0xf7a4a453, 0x967272e4, 0x5bc0c09b,
    0xc2b7b775, 0x1cfdfde1, 0xae93933d, 0x6a26264c, 0x5a36366c, 0x413f3f7e, 0x02f7f7f5, 0x4fcccc83,
    0x5c343468, 0xf4a5a551, 0x34e5e5d1, 0x08f1f1f9, 0x937171e2, 0x73d8d8ab, 0x53313162, 0x3f15152a,
    0x0c040408, 0x52c7c795, 0x65232346, 0x5ec3c39d, 0x28181830, 0xa1969637, 0x0f05050a, 0xb59a9a2f,
    0x0907070e, 0x36121224, 0x9b80801b, 0x3de2e2df, 0x26ebebcd, 0x6927274e, 0xcdb2b27f, 0x9f7575ea,
    0x1b090912, 0x9e83831d, 0x742c2c58, 0x2e1a1a34, 0x2d1b1b36, 0xb26e6edc, 0xee5a5ab4, 0xfba0a05b,
    0xf65252a4, 0x4d3b3b76, 0x61d6d6b7, 0xceb3b37d, 0x7b292952, 0x3ee3e3dd, 0x712f2f5e, 0x97848413,
    0xf55353a6, 0x68d1d1b9, 0x00000000, 0x2cededc1, 0x60202040, 0x1ffcfce3, 0xc8b1b179, 0xed5b5bb6,
    0xbe6a6ad4, 0x46cbcb8d, 0xd9bebe67, 0x4b393972, 0xde4a4a94, 0xd44c4c98, 0xe85858b0, 0x4acfcf85,
    0x6bd0d0bb, 0x2aefefc5, 0xe5aaaa4f, 0x16fbfbed, 0xc5434386, 0xd74d4d9a, 0x55333366, 0x94858511,
    0xcf45458a, 0x10f9f9e9, 0x06020204, 0x817f7ffe, 0xf05050a0, 0x443c3c78, 0xba9f9f25, 0xe3a8a84b,
    0xf35151a2, 0xfea3a35d, 0xc0404080, 0x8a8f8f05, 0xad92923f, 0xbc9d9d21, 0x48383870, 0x04f5f5f1,
    0xdfbcbc63, 0xc1b6b677, 0x75dadaaf, 0x63212142, 0x30101020, 0x1affffe5, 0x0ef3f3fd, 0x6dd2d2bf,
    0x4ccdcd81, 0x140c0c18, 0x35131326, 0x2fececc3, 0xe15f5fbe, 0xa2979735, 0xcc444488, 0x3917172e,
    0x57c4c493, 0xf2a7a755, 0x827e7efc, 0x473d3d7a, 0xac6464c8, 0xe75d5dba, 0x2b191932, 0x957373e6,
    0xa06060c0, 0x98818119, 0xd14f4f9e, 0x7fdcdca3, 0x66222244, 0x7e2a2a54, 0xab90903b, 0x8388880b,
    0xca46468c, 0x29eeeec7, 0xd3b8b86b, 0x3c141428, 0x79dedea7, 0xe25e5ebc, 0x1d0b0b16, 0x76dbdbad,
    0x3be0e0db, 0x56323264, 0x4e3a3a74, 0x1e0a0a14, 0xdb494992, 0x0a06060c, 0x6c242448, 0xe45c5cb8,
    0x5dc2c29f, 0x6ed3d3bd, 0xefacac43, 0xa66262c4, 0xa8919139, 0xa4959531, 0x37e4e4d3, 0x8b7979f2,
    0x32e7e7d5, 0x43c8c88b, 0x5937376e, 0xb76d6dda, 0x8c8d8d01, 0x64d5d5b1, 0xd24e4e9c, 0xe0a9a949,
    0xb46c6cd8, 0xfa5656ac, 0x07f4f4f3, 0x25eaeacf, 0xaf6565ca, 0x8e7a7af4, 0xe9aeae47, 0x18080810,
    0xd5baba6f, 0x887878f0, 0x6f25254a, 0x722e2e5c, 0x241c1c38, 0xf1a6a657, 0xc7b4b473, 0x51c6c697,
    0x23e8e8cb, 0x7cdddda1, 0x9c7474e8, 0x211f1f3e, 0xdd4b4b96, 0xdcbdbd61, 0x868b8b0d, 0x858a8a0f,
    0x907070e0, 0x423e3e7c, 0xc4b5b571, 0xaa6666cc, 0xd8484890, 0x05030306, 0x01f6f6f7, 0x120e0e1c,
    0xa36161c2, 0x5f35356a, 0xf95757ae, 0xd0b9b969, 0x91868617, 0x58c1c199, 0x271d1d3a, 0xb99e9e27,
    0x38e1e1d9, 0x13f8f8eb, 0xb398982b, 0x33111122, 0xbb6969d2, 0x70d9d9a9, 0x898e8e07, 0xa7949433,
    0xb69b9b2d, 0x221e1e3c, 0x92878715, 0x20e9e9c9, 0x49cece87, 0xff5555aa, 0x78282850, 0x7adfdfa5,
    0x8f8c8c03, 0xf8a1a159, 0x80898909, 0x170d0d1a, 0xdabfbf65, 0x31e6e6d7, 0xc6424284, 0xb86868d0,
    0xc3414182, 0xb0999929, 0x772d2d5a, 0x110f0f1e, 0xcbb0b07b, 0xfc5454a8, 0xd6bbbb6d, 0x3a16162c ]

/-- `LUT[i]` -/
def LUT (i : Nat) : UInt32 := _aes_lut.getD i 0

/-- `uint8_t ix[4]` -/
structure Ix4 where
  i0 : UInt8
  i1 : UInt8
  i2 : UInt8
  i3 : UInt8

/-- one `t[j][k][·]` row: `for (i = 0; i < 256 / SOFTAES_STRIDE; i++) t[j][k][i] = LUT[(i * SOFTAES_STRIDE) | of[j][k]]` -/
def tFill (ofjk : UInt8) : List UInt32 :=
  (List.range (256 / SOFTAES_STRIDE)).map fun i => LUT ((i * SOFTAES_STRIDE) ||| ofjk.toNat)

/-- `t[j][k][ix / SOFTAES_STRIDE]` -/
def tSel (t : List UInt32) (ix : UInt8) : UInt32 := t.getD (ix.toNat / SOFTAES_STRIDE) 0

/-- `of[j][k] = ixk[j] % SOFTAES_STRIDE` -/
def ofOf (ix : UInt8) : UInt8 := UInt8.ofNat (ix.toNat % SOFTAES_STRIDE)

/-- `_encrypt`: every table entry that could be needed is first gathered into `t` (one entry from
    each stride of the table, at the offset `of[j][k]`), then the wanted one is selected. -/
def _encrypt (ix0 ix1 ix2 ix3 : Ix4) : SoftAesBlock :=
  let of00 := ofOf ix0.i0; let of01 := ofOf ix1.i0; let of02 := ofOf ix2.i0; let of03 := ofOf ix3.i0
  let of10 := ofOf ix0.i1; let of11 := ofOf ix1.i1; let of12 := ofOf ix2.i1; let of13 := ofOf ix3.i1
  let of20 := ofOf ix0.i2; let of21 := ofOf ix1.i2; let of22 := ofOf ix2.i2; let of23 := ofOf ix3.i2
  let of30 := ofOf ix0.i3; let of31 := ofOf ix1.i3; let of32 := ofOf ix2.i3; let of33 := ofOf ix3.i3
  let t00 := tFill of00; let t01 := tFill of01; let t02 := tFill of02; let t03 := tFill of03
  let t10 := tFill of10; let t11 := tFill of11; let t12 := tFill of12; let t13 := tFill of13
  let t20 := tFill of20; let t21 := tFill of21; let t22 := tFill of22; let t23 := tFill of23
  let t30 := tFill of30; let t31 := tFill of31; let t32 := tFill of32; let t33 := tFill of33
  let w0 := tSel t00 ix0.i0
  let w0 := w0 ^^^ ROTL32 (tSel t01 ix1.i0) 8
  let w0 := w0 ^^^ ROTL32 (tSel t02 ix2.i0) 16
  let w0 := w0 ^^^ ROTL32 (tSel t03 ix3.i0) 24
  let w1 := tSel t10 ix0.i1
  let w1 := w1 ^^^ ROTL32 (tSel t11 ix1.i1) 8
  let w1 := w1 ^^^ ROTL32 (tSel t12 ix2.i1) 16
  let w1 := w1 ^^^ ROTL32 (tSel t13 ix3.i1) 24
  let w2 := tSel t20 ix0.i2
  let w2 := w2 ^^^ ROTL32 (tSel t21 ix1.i2) 8
  let w2 := w2 ^^^ ROTL32 (tSel t22 ix2.i2) 16
  let w2 := w2 ^^^ ROTL32 (tSel t23 ix3.i2) 24
  let w3 := tSel t30 ix0.i3
  let w3 := w3 ^^^ ROTL32 (tSel t31 ix1.i3) 8
  let w3 := w3 ^^^ ROTL32 (tSel t32 ix2.i3) 16
  let w3 := w3 ^^^ ROTL32 (tSel t33 ix3.i3) 24
  { w0 := w0, w1 := w1, w2 := w2, w3 := w3 }

def softaes_block_encrypt (block rk : SoftAesBlock) : SoftAesBlock :=
  let s0 := block.w0
  let s1 := block.w1
  let s2 := block.w2
  let s3 := block.w3
  let ix0 : Ix4 := ⟨s0.toUInt8, s1.toUInt8, s2.toUInt8, s3.toUInt8⟩
  let ix1 : Ix4 := ⟨(s1 >>> 8).toUInt8, (s2 >>> 8).toUInt8, (s3 >>> 8).toUInt8, (s0 >>> 8).toUInt8⟩
  let ix2 : Ix4 := ⟨(s2 >>> 16).toUInt8, (s3 >>> 16).toUInt8, (s0 >>> 16).toUInt8, (s1 >>> 16).toUInt8⟩
  let ix3 : Ix4 := ⟨(s3 >>> 24).toUInt8, (s0 >>> 24).toUInt8, (s1 >>> 24).toUInt8, (s2 >>> 24).toUInt8⟩
  let out := _encrypt ix0 ix1 ix2 ix3
  { w0 := out.w0 ^^^ rk.w0, w1 := out.w1 ^^^ rk.w1, w2 := out.w2 ^^^ rk.w2, w3 := out.w3 ^^^ rk.w3 }

/-! ## The `aes_block_t` interface of the `*_common.h` code (AES_BLOCK_* and AES_ENC macros) -/

structure Backend (β : Type) where
  XOR : β → β → β
  AND : β → β → β
  LOAD : Bytes → β
  LOAD_64x2 : UInt64 → UInt64 → β
  STORE : β → Bytes
  ENC : β → β → β

/-- aegis128l_soft.c / aegis256_soft.c: `typedef SoftAesBlock aes_block_t` and the macro definitions -/
def soft : Backend SoftAesBlock :=
  { XOR := softaes_block_xor, AND := softaes_block_and, LOAD := softaes_block_load,
    LOAD_64x2 := softaes_block_load64x2, STORE := softaes_block_store, ENC := softaes_block_encrypt }

/-! ## buffer helpers -/

/-- `memcpy(dst, src, n)` on a local buffer `dst` -/
def memcpy (dst src : Bytes) (n : Nat) : Bytes := src.take n ++ dst.drop n

/-- a 16-byte store at `buf + off` -/
def storeAt (buf : Bytes) (off : Nat) (data : Bytes) : Bytes :=
  buf.take off ++ data ++ buf.drop (off + data.length)

/-- `memset(buf + off, 0, n)` -/
def memset0At (buf : Bytes) (off n : Nat) : Bytes :=
  buf.take off ++ zeros n ++ buf.drop (off + n)

def AES_BLOCK_LENGTH : Nat := 16

def c0_ : Bytes :=
  [0x00, 0x01, 0x01, 0x02, 0x03, 0x05, 0x08, 0x0d, 0x15, 0x22, 0x37, 0x59, 0x90, 0xe9, 0x79, 0x62]
def c1_ : Bytes :=
  [0xdb, 0x3d, 0x18, 0x55, 0x6d, 0xc2, 0x2f, 0xf1, 0x20, 0x11, 0x31, 0x42, 0x73, 0xb5, 0x28, 0xdd]

/-- the per-algorithm static functions that `encrypt_detached` / `decrypt_detached` call; `τ` is
    `aes_block_t state[N]` -/
structure Variant (τ : Type) where
  RATE : Nat
  init : Bytes → Bytes → τ
  absorb : Bytes → τ → τ
  absorb2 : Bytes → τ → τ
  enc : Bytes → τ → Bytes × τ
  dec : Bytes → τ → Bytes × τ
  declast : Bytes → Nat → τ → Bytes × τ
  mac : Nat → UInt64 → UInt64 → τ → Int32 × Bytes

/-! ## AEGIS-128L: aegis128l_soft.c + aegis128l_common.h -/

namespace A128L

/-- `aes_block_t state[8]` -/
structure State (β : Type) where
  s0 : β
  s1 : β
  s2 : β
  s3 : β
  s4 : β
  s5 : β
  s6 : β
  s7 : β

variable {β : Type} (B : Backend β)

def RATE : Nat := 32

def aegis128l_update (state : State β) (d1 d2 : β) : State β :=
  let tmp := state.s7
  let state := { state with s7 := B.ENC state.s6 state.s7 }
  let state := { state with s6 := B.ENC state.s5 state.s6 }
  let state := { state with s5 := B.ENC state.s4 state.s5 }
  let state := { state with s4 := B.ENC state.s3 state.s4 }
  let state := { state with s3 := B.ENC state.s2 state.s3 }
  let state := { state with s2 := B.ENC state.s1 state.s2 }
  let state := { state with s1 := B.ENC state.s0 state.s1 }
  let state := { state with s0 := B.ENC tmp state.s0 }
  let state := { state with s0 := B.XOR state.s0 d1 }
  let state := { state with s4 := B.XOR state.s4 d2 }
  state

def aegis128l_init (key nonce : Bytes) : State β :=
  let c0 := B.LOAD c0_
  let c1 := B.LOAD c1_
  let k := B.LOAD key
  let n := B.LOAD nonce
  let state : State β :=
    { s0 := B.XOR k n, s1 := c1, s2 := c0, s3 := c1, s4 := B.XOR k n,
      s5 := B.XOR k c0, s6 := B.XOR k c1, s7 := B.XOR k c0 }
  Nat.repeat (fun state => aegis128l_update B state n k) 10 state

/-- returns `(ret, mac[0 .. maclen))`; the state is dead afterwards -/
def aegis128l_mac (maclen : Nat) (adlen mlen : UInt64) (state : State β) : Int32 × Bytes :=
  let tmp := B.LOAD_64x2 (mlen <<< 3) (adlen <<< 3)
  let tmp := B.XOR tmp state.s2
  let state := Nat.repeat (fun state => aegis128l_update B state tmp tmp) 7 state
  if maclen = 16 then
    let tmp := B.XOR state.s6 (B.XOR state.s5 state.s4)
    let tmp := B.XOR tmp (B.XOR state.s3 state.s2)
    let tmp := B.XOR tmp (B.XOR state.s1 state.s0)
    (0, B.STORE tmp)
  else if maclen = 32 then
    let tmp := B.XOR state.s3 state.s2
    let tmp := B.XOR tmp (B.XOR state.s1 state.s0)
    let mac0 := B.STORE tmp
    let tmp := B.XOR state.s7 state.s6
    let tmp := B.XOR tmp (B.XOR state.s5 state.s4)
    (0, mac0 ++ B.STORE tmp)
  else
    (-1, zeros maclen)

def aegis128l_absorb (src : Bytes) (state : State β) : State β :=
  let msg0 := B.LOAD src
  let msg1 := B.LOAD (src.drop AES_BLOCK_LENGTH)
  aegis128l_update B state msg0 msg1

def aegis128l_absorb2 (src : Bytes) (state : State β) : State β :=
  let msg0 := B.LOAD (src.drop (0 * AES_BLOCK_LENGTH))
  let msg1 := B.LOAD (src.drop (1 * AES_BLOCK_LENGTH))
  let msg2 := B.LOAD (src.drop (2 * AES_BLOCK_LENGTH))
  let msg3 := B.LOAD (src.drop (3 * AES_BLOCK_LENGTH))
  let state := aegis128l_update B state msg0 msg1
  aegis128l_update B state msg2 msg3

/-- returns `(dst[0 .. 32), state)` -/
def aegis128l_enc (src : Bytes) (state : State β) : Bytes × State β :=
  let msg0 := B.LOAD src
  let msg1 := B.LOAD (src.drop AES_BLOCK_LENGTH)
  let tmp0 := B.XOR msg0 state.s6
  let tmp0 := B.XOR tmp0 state.s1
  let tmp1 := B.XOR msg1 state.s5
  let tmp1 := B.XOR tmp1 state.s2
  let tmp0 := B.XOR tmp0 (B.AND state.s2 state.s3)
  let tmp1 := B.XOR tmp1 (B.AND state.s6 state.s7)
  let dst := B.STORE tmp0 ++ B.STORE tmp1
  (dst, aegis128l_update B state msg0 msg1)

def aegis128l_dec (src : Bytes) (state : State β) : Bytes × State β :=
  let msg0 := B.LOAD src
  let msg1 := B.LOAD (src.drop AES_BLOCK_LENGTH)
  let msg0 := B.XOR msg0 state.s6
  let msg0 := B.XOR msg0 state.s1
  let msg1 := B.XOR msg1 state.s5
  let msg1 := B.XOR msg1 state.s2
  let msg0 := B.XOR msg0 (B.AND state.s2 state.s3)
  let msg1 := B.XOR msg1 (B.AND state.s6 state.s7)
  let dst := B.STORE msg0 ++ B.STORE msg1
  (dst, aegis128l_update B state msg0 msg1)

/-- returns `(dst[0 .. len), state)` -/
def aegis128l_declast (src : Bytes) (len : Nat) (state : State β) : Bytes × State β :=
  let pad := zeros RATE
  let pad := memcpy pad src len
  let msg0 := B.LOAD pad
  let msg1 := B.LOAD (pad.drop AES_BLOCK_LENGTH)
  let msg0 := B.XOR msg0 state.s6
  let msg0 := B.XOR msg0 state.s1
  let msg1 := B.XOR msg1 state.s5
  let msg1 := B.XOR msg1 state.s2
  let msg0 := B.XOR msg0 (B.AND state.s2 state.s3)
  let msg1 := B.XOR msg1 (B.AND state.s6 state.s7)
  let pad := storeAt pad 0 (B.STORE msg0)
  let pad := storeAt pad AES_BLOCK_LENGTH (B.STORE msg1)
  let pad := memset0At pad len (RATE - len)
  let dst := pad.take len
  let msg0 := B.LOAD pad
  let msg1 := B.LOAD (pad.drop AES_BLOCK_LENGTH)
  (dst, aegis128l_update B state msg0 msg1)

def variant : Variant (State β) :=
  { RATE := RATE, init := aegis128l_init B, absorb := aegis128l_absorb B, absorb2 := aegis128l_absorb2 B,
    enc := aegis128l_enc B, dec := aegis128l_dec B, declast := aegis128l_declast B, mac := aegis128l_mac B }

end A128L

/-! ## AEGIS-256: aegis256_soft.c + aegis256_common.h -/

namespace A256

/-- `aes_block_t state[6]` -/
structure State (β : Type) where
  s0 : β
  s1 : β
  s2 : β
  s3 : β
  s4 : β
  s5 : β

variable {β : Type} (B : Backend β)

def RATE : Nat := 16

def aegis256_update (state : State β) (d : β) : State β :=
  let tmp := state.s5
  let state := { state with s5 := B.ENC state.s4 state.s5 }
  let state := { state with s4 := B.ENC state.s3 state.s4 }
  let state := { state with s3 := B.ENC state.s2 state.s3 }
  let state := { state with s2 := B.ENC state.s1 state.s2 }
  let state := { state with s1 := B.ENC state.s0 state.s1 }
  let state := { state with s0 := B.XOR (B.ENC tmp state.s0) d }
  state

def aegis256_init (key nonce : Bytes) : State β :=
  let c0 := B.LOAD c0_
  let c1 := B.LOAD c1_
  let k0 := B.LOAD key
  let k1 := B.LOAD (key.drop AES_BLOCK_LENGTH)
  let n0 := B.LOAD nonce
  let n1 := B.LOAD (nonce.drop AES_BLOCK_LENGTH)
  let k0_n0 := B.XOR k0 n0
  let k1_n1 := B.XOR k1 n1
  let state : State β :=
    { s0 := k0_n0, s1 := k1_n1, s2 := c1, s3 := c0, s4 := B.XOR k0 c0, s5 := B.XOR k1 c1 }
  Nat.repeat (fun state =>
    let state := aegis256_update B state k0
    let state := aegis256_update B state k1
    let state := aegis256_update B state k0_n0
    aegis256_update B state k1_n1) 4 state

def aegis256_mac (maclen : Nat) (adlen mlen : UInt64) (state : State β) : Int32 × Bytes :=
  let tmp := B.LOAD_64x2 (mlen <<< 3) (adlen <<< 3)
  let tmp := B.XOR tmp state.s3
  let state := Nat.repeat (fun state => aegis256_update B state tmp) 7 state
  if maclen = 16 then
    let tmp := B.XOR state.s5 state.s4
    let tmp := B.XOR tmp (B.XOR state.s3 state.s2)
    let tmp := B.XOR tmp (B.XOR state.s1 state.s0)
    (0, B.STORE tmp)
  else if maclen = 32 then
    let tmp := B.XOR (B.XOR state.s2 state.s1) state.s0
    let mac0 := B.STORE tmp
    let tmp := B.XOR (B.XOR state.s5 state.s4) state.s3
    (0, mac0 ++ B.STORE tmp)
  else
    (-1, zeros maclen)

def aegis256_absorb (src : Bytes) (state : State β) : State β :=
  let msg := B.LOAD src
  aegis256_update B state msg

def aegis256_absorb2 (src : Bytes) (state : State β) : State β :=
  let msg := B.LOAD (src.drop (0 * AES_BLOCK_LENGTH))
  let msg2 := B.LOAD (src.drop (1 * AES_BLOCK_LENGTH))
  let state := aegis256_update B state msg
  aegis256_update B state msg2

def aegis256_enc (src : Bytes) (state : State β) : Bytes × State β :=
  let msg := B.LOAD src
  let tmp := B.XOR msg state.s5
  let tmp := B.XOR tmp state.s4
  let tmp := B.XOR tmp state.s1
  let tmp := B.XOR tmp (B.AND state.s2 state.s3)
  let dst := B.STORE tmp
  (dst, aegis256_update B state msg)

def aegis256_dec (src : Bytes) (state : State β) : Bytes × State β :=
  let msg := B.LOAD src
  let msg := B.XOR msg state.s5
  let msg := B.XOR msg state.s4
  let msg := B.XOR msg state.s1
  let msg := B.XOR msg (B.AND state.s2 state.s3)
  let dst := B.STORE msg
  (dst, aegis256_update B state msg)

def aegis256_declast (src : Bytes) (len : Nat) (state : State β) : Bytes × State β :=
  let pad := zeros RATE
  let pad := memcpy pad src len
  let msg := B.LOAD pad
  let msg := B.XOR msg state.s5
  let msg := B.XOR msg state.s4
  let msg := B.XOR msg state.s1
  let msg := B.XOR msg (B.AND state.s2 state.s3)
  let pad := storeAt pad 0 (B.STORE msg)
  let pad := memset0At pad len (RATE - len)
  let dst := pad.take len
  let msg := B.LOAD pad
  (dst, aegis256_update B state msg)

def variant : Variant (State β) :=
  { RATE := RATE, init := aegis256_init B, absorb := aegis256_absorb B, absorb2 := aegis256_absorb2 B,
    enc := aegis256_enc B, dec := aegis256_dec B, declast := aegis256_declast B, mac := aegis256_mac B }

end A256

/-! ## `encrypt_detached` / `decrypt_detached` (aegis128l_common.h and aegis256_common.h: the same
    text up to the function-name prefix, over the file's `RATE`) -/

section Detached
variable {τ : Type} (V : Variant τ)

/-- `for (; i + step <= len; i += step) body(i)`; returns the final `i` and the loop-carried
    values.  `fuel` only makes the recursion structural (`len` iterations always suffice). -/
def forBlocks {σ : Type} (step len : Nat) (body : Nat → σ → σ) : Nat → Nat → σ → Nat × σ
  | 0, i, s => (i, s)
  | fuel + 1, i, s =>
    if i + step ≤ len then forBlocks step len body fuel (i + step) (body i s) else (i, s)

/-- the associated-data part common to both functions; returns the state -/
def absorbAd (ad : Bytes) (state : τ) : τ :=
  let adlen := ad.length
  -- for (i = 0; i + RATE * 2 <= adlen; i += RATE * 2) absorb2(ad + i, state);
  let (i, state) := forBlocks (V.RATE * 2) adlen (fun i state => V.absorb2 (ad.drop i) state) adlen 0 state
  -- for (; i + RATE <= adlen; i += RATE) absorb(ad + i, state);
  let (i, state) := forBlocks V.RATE adlen (fun i state => V.absorb (ad.drop i) state) adlen i state
  if adlen % V.RATE ≠ 0 then
    let src := zeros V.RATE
    let src := memcpy src (ad.drop i) (adlen % V.RATE)
    V.absorb src state
  else state

/-- the message part of `encrypt_detached`; returns the state and `c[0 .. mlen)` -/
def encMsg (m : Bytes) (state : τ) : τ × Bytes :=
  let mlen := m.length
  -- for (i = 0; i + RATE <= mlen; i += RATE) enc(c + i, m + i, state);
  let (i, state, c) := forBlocks V.RATE mlen
    (fun i (sc : τ × Bytes) => let (dst, state) := V.enc (m.drop i) sc.1; (state, sc.2 ++ dst)) mlen 0 (state, [])
  if mlen % V.RATE ≠ 0 then
    let src := zeros V.RATE
    let src := memcpy src (m.drop i) (mlen % V.RATE)
    let (dst, state) := V.enc src state
    (state, c ++ dst.take (mlen % V.RATE))     -- memcpy(c + i, dst, mlen % RATE)
  else (state, c)

/-- returns `(ret, c[0 .. mlen), mac[0 .. maclen))` -/
def encrypt_detached (maclen : Nat) (m ad npub k : Bytes) : Int32 × Bytes × Bytes :=
  let mlen := m.length
  let adlen := ad.length
  let state := V.init k npub
  let state := absorbAd V ad state
  let (state, c) := encMsg V m state
  let (ret, mac) := V.mac maclen (UInt64.ofNat adlen) (UInt64.ofNat mlen) state
  (ret, c, mac)

/-- the ciphertext part of `decrypt_detached`; returns the state and what the `dec` / `declast`
    calls wrote (to `m`, or to the scratch block `dst` when `m == NULL`: both branches of
    `if (m != NULL)` run the same calls) -/
def decMsg (c : Bytes) (state : τ) : τ × Bytes :=
  let mlen := c.length
  let (i, state, m) := forBlocks V.RATE mlen
    (fun i (sm : τ × Bytes) => let (dst, state) := V.dec (c.drop i) sm.1; (state, sm.2 ++ dst)) mlen 0 (state, [])
  if mlen % V.RATE ≠ 0 then
    let (dst, state) := V.declast (c.drop i) (mlen % V.RATE) state
    (state, m ++ dst)
  else (state, m)

/-- `wantM = false` is the `m == NULL` form.  Returns `(ret, contents of m[0 .. mlen))`; `none` = nothing
    was written to `m`. -/
def decrypt_detached (wantM : Bool) (c mac : Bytes) (maclen : Nat) (ad npub k : Bytes) : Int32 × Option Bytes :=
  let mlen := c.length
  let adlen := ad.length
  let state := V.init k npub
  let state := absorbAd V ad state
  let (state, m) := decMsg V c state
  let (macret, computed_mac) := V.mac maclen (UInt64.ofNat adlen) (UInt64.ofNat mlen) state
  let ret : Int32 :=
    if macret = 0 then
      if maclen = 16 then Sodium.Model.verify_n_sse2 1 computed_mac mac        -- crypto_verify_16
      else if maclen = 32 then Sodium.Model.verify_n_sse2 2 computed_mac mac   -- crypto_verify_32
      else -1
    else -1
  if ret ≠ 0 ∧ wantM then (ret, some (zeros mlen))     -- memset(m, 0, mlen)
  else (ret, if wantM then some m else none)

end Detached

/-! ## aead_aegis128l.c / aead_aegis256.c (same text up to the prefix) -/

def ABYTES : Nat := 32
/-- `SODIUM_MIN(SODIUM_SIZE_MAX - ABYTES, (1ULL << 61) - 1)` with a 64-bit `size_t` -/
def MESSAGEBYTES_MAX : Nat := min (2 ^ 64 - 1 - ABYTES) (2 ^ 61 - 1)

inductive EncDetachedResult where
  | misuse                                                   -- sodium_misuse(): abort
  | done (ret : Int32) (c mac : Bytes) (maclen_p : Nat)
  deriving DecidableEq, Repr

inductive EncResult where
  | misuse
  | done (ret : Int32) (c : Bytes) (clen_p : Nat)         -- c = the whole mlen + ABYTES byte buffer
  deriving DecidableEq, Repr

section Wrappers
variable {τ : Type} (V : Variant τ)

def crypto_aead_encrypt_detached (m ad npub k : Bytes) : EncDetachedResult :=
  let maclen := ABYTES
  if m.length > MESSAGEBYTES_MAX ∨ ad.length > MESSAGEBYTES_MAX then .misuse
  else
    let (ret, c, mac) := encrypt_detached V maclen m ad npub k
    .done ret c mac maclen

/-- the tag is written at `c + mlen` -/
def crypto_aead_encrypt (m ad npub k : Bytes) : EncResult :=
  match crypto_aead_encrypt_detached V m ad npub k with
  | .misuse => .misuse
  | .done ret c mac _ =>
    let clen := if ret = 0 then m.length + ABYTES else 0
    .done ret (c ++ mac) clen

def crypto_aead_decrypt_detached (wantM : Bool) (c mac ad npub k : Bytes) : Int32 × Option Bytes :=
  let maclen := ABYTES
  if c.length > MESSAGEBYTES_MAX ∨ ad.length > MESSAGEBYTES_MAX then (-1, none)
  else decrypt_detached V wantM c mac maclen ad npub k

/-- `rc`, `*mlen_p`, contents of the `m` buffer (`none` = untouched) -/
def crypto_aead_decrypt (wantM : Bool) (c ad npub k : Bytes) : Sodium.Model.Aead.DecResult :=
  let clen := c.length
  let (ret, mbuf) : Int32 × Option Bytes :=
    if clen ≥ ABYTES then
      crypto_aead_decrypt_detached V wantM (c.take (clen - ABYTES)) (c.drop (clen - ABYTES)) ad npub k
    else (-1, none)
  let mlen := if ret = 0 then clen - ABYTES else 0
  ⟨ret, mlen, mbuf⟩

end Wrappers

end Sodium.Model.AegisRef
