import SodiumModel.Basic
/-
  Model of the stream-cipher drivers (crypto_stream/*): counter handling, partial last block,
  XOR forms, the IETF no-wrap guard, X-variants. The 64-byte block functions are parameters.
-/
namespace Sodium.Model

/-- a ChaCha block function of state words 12 and 13 (everything else fixed): 64 bytes -/
abbrev BlockFn := UInt32 → UInt32 → Bytes

/-- `chacha20_encrypt_bytes`: one 64-byte block per iteration, `j12 = PLUSONE(j12); if (!j12) j13 = PLUSONE(j13)`,
    partial last block through the zero-padded `tmp`. `fuel` ≥ number of blocks (use `m.length`). -/
def chachaLoop (B : BlockFn) : Nat → UInt32 → UInt32 → Bytes → Bytes
  | 0, _, _, _ => []
  | fuel + 1, j12, j13, m =>
    if m.isEmpty then [] else
    let out := xorBytes (m.take 64) (B j12 j13)
    let j12' := j12 + 1
    let j13' := if j12' = 0 then j13 + 1 else j13
    out ++ chachaLoop B fuel j12' j13' (m.drop 64)

/-- `stream_ref_xor_ic` (original layout): `ic_low = U32V(ic)`, `ic_high = U32V(ic >> 32)` -/
def chacha_xor_ic (B : BlockFn) (ic : UInt64) (m : Bytes) : Bytes :=
  chachaLoop B m.length ic.toUInt32 (ic >>> 32).toUInt32 m

/-- `stream_ref`: `memset(c, 0, clen)` then encrypt in place from counter 0 -/
def chacha_stream (B : BlockFn) (clen : Nat) : Bytes := chachaLoop B clen 0 0 (zeros clen)

/-- IETF layout: word 12 is the 32-bit counter, word 13 is nonce word 0. `Bi w12 w13` must be the
    block function with the *nonce's first word passed as w13*; the ref code still runs
    `if (!j12) j13++`, so a wrap of the counter would silently bump the nonce. -/
def chacha_ietf_ext_xor_ic (Bi : BlockFn) (n0 : UInt32) (ic : UInt32) (m : Bytes) : Bytes :=
  chachaLoop Bi m.length ic n0 m

inductive StreamResult where
  | misuse
  | ok (out : Bytes)
  deriving DecidableEq, Repr

/-- `crypto_stream_chacha20_ietf_xor_ic`: the guard
    `mlen > crypto_stream_chacha20_ietf_MESSAGEBYTES_MAX ||
     (unsigned long long) ic > (64ULL * (1ULL << 32)) / 64ULL - (mlen + 63ULL) / 64ULL` in 64-bit arithmetic.
    (The first disjunct is the C03 fix: without it the subtraction underflows for mlen > 2^38 and the
    guard never fires.) -/
def ietfGuardFails (ic : UInt32) (mlen : UInt64) : Bool :=
  mlen > (64 : UInt64) * ((1 : UInt64) <<< 32) ||
  ic.toUInt64 > ((64 : UInt64) * ((1 : UInt64) <<< 32)) / 64 - (mlen + 63) / 64

def chacha_ietf_xor_ic (Bi : BlockFn) (n0 : UInt32) (ic : UInt32) (m : Bytes) : StreamResult :=
  if ietfGuardFails ic (UInt64.ofNat m.length) then .misuse
  else .ok (chacha_ietf_ext_xor_ic Bi n0 ic m)

/-! ### Salsa20 reference driver: the block counter lives in `in[8..16]` as bytes -/

/-- `u = 1; for (i = 8; i < 16; i++) { u += in[i]; in[i] = u; u >>= 8; }` (`unsigned int u`) -/
def salsaCtrInc (u : UInt32) : Bytes → Bytes
  | [] => []
  | x :: xs =>
    let u1 := u + x.toUInt32
    u1.toUInt8 :: salsaCtrInc (u1 >>> 8) xs

/-- `in[i] = ic & 0xff; ic >>= 8` for the 8 counter bytes -/
def salsaCtrInit (ic : UInt64) : Bytes := toLE 8 ic.toNat

/-- block function of the 8 counter bytes -/
abbrev SalsaBlockFn := Bytes → Bytes

def salsaLoop (S : SalsaBlockFn) : Nat → Bytes → Bytes → Bytes
  | 0, _, _ => []
  | fuel + 1, ctr, m =>
    if m.isEmpty then [] else
    xorBytes (m.take 64) (S ctr) ++ salsaLoop S fuel (salsaCtrInc 1 ctr) (m.drop 64)

def salsa_xor_ic (S : SalsaBlockFn) (ic : UInt64) (m : Bytes) : Bytes :=
  salsaLoop S m.length (salsaCtrInit ic) m

def salsa_stream (S : SalsaBlockFn) (clen : Nat) : Bytes :=
  salsaLoop S clen (zeros 8) (zeros clen)

end Sodium.Model
