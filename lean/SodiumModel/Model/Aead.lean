import SodiumModel.Basic
import SodiumModel.Model.Utils
/-
  Value-level models of the authenticated-encryption constructions built from a stream cipher
  and Poly1305, written to the structure of the C code:
    crypto_aead_chacha20poly1305 (original and IETF), crypto_aead_xchacha20poly1305_ietf,
    crypto_secretbox_{detached,easy,open_*} (XSalsa20 and XChaCha20 variants), the NaCl
    zero-padded crypto_secretbox_xsalsa20poly1305 form, crypto_box_* (= secretbox under beforenm).
  Primitives are parameters:
    ks key nonce ic len : keystream, `len` bytes from block `ic`
    mac key32 data      : Poly1305
    hcore in16 key      : HChaCha20 / HSalsa20
  Decryption results record exactly what the caller can observe: return code, `*mlen_p`, and the
  contents of the output buffer (`none` = untouched).
-/
namespace Sodium.Model.Aead

structure Prims where
  ks : Bytes → Bytes → Nat → Nat → Bytes
  mac : Bytes → Bytes → Bytes
  hcore : Bytes → Bytes → Bytes

/-- `(0x10 - len) & 0xf` in `unsigned long long` arithmetic -/
def pad16len (len : Nat) : Nat := (((0x10 : UInt64) - UInt64.ofNat len) &&& 0xf).toNat

inductive Flavor where
  | orig      -- crypto_aead_chacha20poly1305: 8-byte nonce, 64-bit counter, mac over ad‖le64|ad|‖c‖le64|c|
  | ietf      -- crypto_aead_chacha20poly1305_ietf: 12-byte nonce, RFC 8439 mac data
  deriving DecidableEq, Repr

def macData (f : Flavor) (ad c : Bytes) : Bytes :=
  match f with
  | .orig => ad ++ toLE 8 ad.length ++ c ++ toLE 8 c.length
  | .ietf => ad ++ zeros (pad16len ad.length) ++ c ++ zeros (pad16len c.length) ++ toLE 8 ad.length ++ toLE 8 c.length

/-- encrypt_detached: Poly1305 key = first 32 bytes of keystream block 0, ciphertext from block 1 -/
def encryptDetached (P : Prims) (f : Flavor) (m ad npub k : Bytes) : Bytes × Bytes :=
  let polykey := (P.ks k npub 0 64).take 32
  let c := xorBytes m (P.ks k npub 1 m.length)
  (c, P.mac polykey (macData f ad c))

/-- combined form: c ‖ mac -/
def encrypt (P : Prims) (f : Flavor) (m ad npub k : Bytes) : Bytes :=
  let r := encryptDetached P f m ad npub k
  r.1 ++ r.2

structure DecResult where
  rc : Int32
  mlen : Nat                 -- `*mlen_p` (combined forms); for detached forms the message length on success, 0 otherwise
  mbuf : Option Bytes        -- contents written to the `m` buffer (`none` = untouched)
  deriving DecidableEq, Repr

/-- decrypt_detached: verify first (crypto_verify_16); `m == NULL` = verify-only; on failure `memset(m, 0, mlen)` -/
def decryptDetached (P : Prims) (f : Flavor) (wantM : Bool) (c mac ad npub k : Bytes) : DecResult :=
  let polykey := (P.ks k npub 0 64).take 32
  let computed := P.mac polykey (macData f ad c)
  let ret := Sodium.Model.verify_n_sse2 1 computed mac
  if !wantM then ⟨ret, if ret = 0 then c.length else 0, none⟩
  else if ret ≠ 0 then ⟨-1, 0, some (zeros c.length)⟩
  else ⟨0, c.length, some (xorBytes c (P.ks k npub 1 c.length))⟩

/-- combined decrypt: `clen < ABYTES` is rejected before anything is touched -/
def decrypt (P : Prims) (f : Flavor) (wantM : Bool) (cm ad npub k : Bytes) : DecResult :=
  if cm.length < 16 then ⟨-1, 0, none⟩
  else decryptDetached P f wantM (cm.take (cm.length - 16)) (cm.drop (cm.length - 16)) ad npub k

/-! ### XChaCha20-Poly1305-IETF: subkey = HChaCha20(npub[0..16], k), nonce' = 0^4 ‖ npub[16..24] -/

def xSubkey (P : Prims) (npub k : Bytes) : Bytes := P.hcore (npub.take 16) k
def xNonce (npub : Bytes) : Bytes := zeros 4 ++ (npub.drop 16).take 8

def xEncryptDetached (P : Prims) (m ad npub k : Bytes) : Bytes × Bytes :=
  encryptDetached P .ietf m ad (xNonce npub) (xSubkey P npub k)
def xEncrypt (P : Prims) (m ad npub k : Bytes) : Bytes := encrypt P .ietf m ad (xNonce npub) (xSubkey P npub k)
def xDecryptDetached (P : Prims) (wantM : Bool) (c mac ad npub k : Bytes) : DecResult :=
  decryptDetached P .ietf wantM c mac ad (xNonce npub) (xSubkey P npub k)
def xDecrypt (P : Prims) (wantM : Bool) (cm ad npub k : Bytes) : DecResult :=
  decrypt P .ietf wantM cm ad (xNonce npub) (xSubkey P npub k)

/-! ### secretbox (crypto_secretbox_easy.c and the xchacha20 twin): the first ≤ 32 message bytes are
    encrypted together with the Poly1305 key inside keystream block 0 (`block0` staging), the rest from block 1 -/

def sbSubkey (P : Prims) (n k : Bytes) : Bytes := P.hcore (n.take 16) k
def sbNonce (n : Bytes) : Bytes := (n.drop 16).take 8

/-- crypto_secretbox_detached: returns (c, mac) -/
def secretboxDetached (P : Prims) (m n k : Bytes) : Bytes × Bytes :=
  let subkey := sbSubkey P n k
  let mlen0 := min m.length 32
  let block0 := xorBytes (zeros 32 ++ m.take mlen0 ++ zeros (32 - mlen0)) (P.ks subkey (sbNonce n) 0 64)
  let c0 := (block0.drop 32).take mlen0
  let c1 := if m.length > mlen0 then xorBytes (m.drop mlen0) (P.ks subkey (sbNonce n) 1 (m.length - mlen0)) else []
  let c := c0 ++ c1
  (c, P.mac (block0.take 32) c)

/-- crypto_secretbox_easy: mac ‖ c -/
def secretboxEasy (P : Prims) (m n k : Bytes) : Bytes :=
  let r := secretboxDetached P m n k
  r.2 ++ r.1

/-- crypto_secretbox_open_detached: verify first (onetimeauth_verify = crypto_verify_16); failure leaves m untouched -/
def secretboxOpenDetached (P : Prims) (wantM : Bool) (c mac n k : Bytes) : DecResult :=
  let subkey := sbSubkey P n k
  let mlen0 := min c.length 32
  let block0 := xorBytes (zeros 32 ++ c.take mlen0 ++ zeros (32 - mlen0)) (P.ks subkey (sbNonce n) 0 64)
  let ret := Sodium.Model.verify_n_sse2 1 mac (P.mac (block0.take 32) c)
  if ret ≠ 0 then ⟨-1, 0, none⟩
  else if !wantM then ⟨0, c.length, none⟩
  else
    let m0 := (block0.drop 32).take mlen0
    let m1 := if c.length > mlen0 then xorBytes (c.drop mlen0) (P.ks subkey (sbNonce n) 1 (c.length - mlen0)) else []
    ⟨0, c.length, some (m0 ++ m1)⟩

def secretboxOpenEasy (P : Prims) (wantM : Bool) (cm n k : Bytes) : DecResult :=
  if cm.length < 16 then ⟨-1, 0, none⟩
  else secretboxOpenDetached P wantM (cm.drop 16) (cm.take 16) n k

/-! ### NaCl zero-padded form (crypto_secretbox_xsalsa20poly1305): whole-buffer XSalsa20 XOR from block 0 -/

inductive NaclResult where
  | err                       -- -1, nothing written
  | ok (out : Bytes)
  deriving DecidableEq, Repr

/-- `m` must start with 32 zero bytes (caller's contract); c[0..16] = 0, c[16..32] = mac, c[32..] = ciphertext -/
def naclBox (P : Prims) (m n k : Bytes) : NaclResult :=
  if m.length < 32 then .err else
  let subkey := sbSubkey P n k
  let c := xorBytes m (P.ks subkey (sbNonce n) 0 m.length)
  let mac := P.mac (c.take 32) (c.drop 32)
  .ok (zeros 16 ++ mac ++ c.drop 32)

/-- open: c[0..16] ignored, c[16..32] = mac; on success m[0..32] = 0 -/
def naclOpen (P : Prims) (c n k : Bytes) : NaclResult :=
  if c.length < 32 then .err else
  let subkey := sbSubkey P n k
  let polykey := P.ks subkey (sbNonce n) 0 32
  if Sodium.Model.verify_n_sse2 1 ((c.drop 16).take 16) (P.mac polykey (c.drop 32)) ≠ 0 then .err
  else .ok (zeros 32 ++ (xorBytes c (P.ks subkey (sbNonce n) 0 c.length)).drop 32)

end Sodium.Model.Aead
