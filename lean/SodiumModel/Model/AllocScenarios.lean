import SodiumModel.Model.AllocLang
import Generated.AllocProgs
/-
  Valuations of the named inputs of the GENERATED allocation skeletons (`Generated/AllocProgs.lean`) for the
  "ordinary call" scenarios of the C20 harness: valid parameters, the string decodes, the password matches / does
  not match.  An input is identified by its NAME (stable under regeneration as long as the C condition is unchanged);
  a name that no longer exists simply never fires.  Used by `Driver/C20.lean` (the executable routes `fault.run`
  through the generated programs) and by `Properties/C20Gen.lean` (equivalence with the hand-written models).
-/
namespace Sodium.Model.AllocScenarios
open Sodium.Model.Fault Sodium.Model.AllocLang Generated.AllocProgs

/-- the valuation in which exactly the named inputs are true (also under their `#2` re-inlining suffix) -/
def ιOf (trues : List String) : Inp → Bool :=
  let idx := trues.flatMap fun n => [inputNames.idxOf n, inputNames.idxOf (n ++ " #2")]
  fun i => idx.contains i

def validate := "_sodium_argon2_ctx: _sodium_argon2_validate_inputs(…) == 0"

/-- raw hashing: `crypto_pwhash` (default algorithm), `crypto_pwhash_argon2i`, `crypto_pwhash_argon2id` -/
def raw : List String :=
  [validate, "crypto_pwhash: alg == 2", "crypto_pwhash_argon2id: alg == 2", "crypto_pwhash_argon2i: alg == 1"]

/-- hash-string creation -/
def str : List String :=
  [validate, "crypto_pwhash_str_alg: alg == 2", "_sodium_argon2_hash: encoded != NULL", "_sodium_argon2_hash: encodedlen"]

/-- string verification; `decodes`: the string parses, `matches`: the recomputed hash equals the stored one -/
def verify (decodes «matches» : Bool) : List String :=
  [validate, "crypto_pwhash_str_verify: strncmp(…) == 0"] ++
  (if decodes then ["_sodium_argon2_verify: _sodium_argon2_decode_string(…) == 0"] else []) ++
  (if «matches» then [] else ["_sodium_argon2_verify: sodium_memcmp(…) != 0"])

/-- needs-rehash with the answer `res` ∈ {0, 1, -1} when memory is available -/
def rehash (res : Int) : List String :=
  ["crypto_pwhash_str_needs_rehash: strncmp(…) == 0"] ++
  (if res = 1 then ["_needs_rehash: ctx.t_cost != opslimit"] else
   if res = 0 then [] else ["_needs_rehash: _sodium_argon2_decode_string(…) != 0"])

/-- scrypt (the local region has to grow: `local->size < need`); `matches` for str_verify -/
def scrypt («matches» : Bool) : List String :=
  ["_sodium_escrypt_kdf_sse: local->size < need", "_sodium_escrypt_kdf_nosse: local->size < need",
   "crypto_pwhash_scryptsalsa208sha256_ll: sodium_runtime_has_sse2(…)", "_sodium_escrypt_r: sodium_runtime_has_sse2(…)",
   "_sodium_escrypt_r: _sodium_escrypt_parse_setting(…) != NULL", "_sodium_escrypt_r: strrchr(…) != NULL",
   "_sodium_escrypt_r: dst != NULL", "_sodium_escrypt_r: buf != NULL"] ++
  (if «matches» then ["crypto_pwhash_scryptsalsa208sha256_str_verify: sodium_memcmp(…) == 0"] else [])

/-- sodium_malloc / sodium_allocarray with a sane size and an initialised page size -/
def guarded : List String := ["sodium_allocarray: count > 0"]

end Sodium.Model.AllocScenarios
